/-
Line-protocol executor for the model (DESIGN §3.2).  Reads one operation per line on stdin,
prints one canonical result line per operation — the same line `harness exec` prints from the
real crate.  Imports only `LC.Model.*` (import-free of Mathlib/Std), so it links natively.
The pure codec (`tokenize`, `decTerm`, `showTerm`, `orderOf`, `resTerm`, ...) lives in `LC/Drv/Codec.lean` (namespace `Drv`),
where it is total and proved faithful (`LC/Proofs/DriverCodec*.lean`, `LC/Props/TieCodec.lean`); the line executor
`Drv.exec` lives in `LC/Drv/Ops1.lean` (and `LC/Drv/Ops2.lean`).  This file is only the read-print loop.
-/
import LC.Model.Term
import LC.Model.Subst
import LC.Model.Reduce
import LC.Model.Encode
import LC.Model.Parser
import LC.Model.Display
import LC.Drv.Codec
import LC.Drv.Ops1

open LC LC.Term

namespace Drv

partial def loop (h : IO.FS.Stream) (out : IO.FS.Stream) : IO Unit := do
  let line ← h.getLine
  if line.isEmpty then return ()
  let l := (line.dropRightWhile (fun c => c == '\n' || c == '\r'))
  out.putStrLn (exec l)
  loop h out

end Drv

def main : IO Unit := do
  let out ← IO.getStdout
  Drv.loop (← IO.getStdin) out
