/-
Line-protocol executor for the model (DESIGN §3.2).  Reads one operation per line on stdin,
prints one canonical result line per operation — the same line `harness exec` prints from the
real crate.  Imports only `LC.Model.*` (import-free of Mathlib/Std), so it links natively.
-/
import LC.Model.Term
import LC.Model.Subst
import LC.Model.Reduce
import LC.Model.Encode
import LC.Model.Parser
import LC.Model.Display
import LC.Drv.Ops2

open LC LC.Term

namespace Drv

/-- fuel for the traversals: bounds the depth of the call tree; a `none` is reported as
`fuel` and counted inconclusive by the checker, never as a result -/
def FUEL : Nat := 200000

partial def encTerm (t : Term) (acc : String) : String :=
  match t with
  | .var n => acc ++ toString n
  | .abs b => encTerm b (acc ++ "L ")
  | .app l r => encTerm r (encTerm l (acc ++ "A ") ++ " ")

def showTerm (t : Term) : String := encTerm t ""

/-- parse one term from a token list (prefix words) -/
partial def decTerm : List String → Option (Term × List String)
  | [] => none
  | "L" :: rest => do
    let (b, rest') ← decTerm rest
    pure (.abs b, rest')
  | "A" :: rest => do
    let (l, r1) ← decTerm rest
    let (r, r2) ← decTerm r1
    pure (.app l r, r2)
  | n :: rest => do
    let k ← n.toNat?
    pure (.var k, rest)

/-- `usize::MAX` on the 64-bit targets the harness runs on -/
def USIZE_MAX : Nat := 18446744073709551615

/-- does the term contain `var 0` (UD)? -/
def hasUD01 : Term → Bool
  | .var i => i == 0
  | .abs b => hasUD01 b
  | .app l r => hasUD01 l || hasUD01 r

def orderOf : String → Option Order
  | "NOR" => some .NOR | "CBN" => some .CBN | "HSP" => some .HSP | "HNO" => some .HNO
  | "APP" => some .APP | "CBV" => some .CBV | "HAP" => some .HAP | _ => none

def errName : TermError → String
  | .NotVar => "NotVar" | .NotAbs => "NotAbs" | .NotApp => "NotApp"

def resTerm : Except TermError Term → String
  | .ok t => "ok " ++ showTerm t
  | .error e => "err " ++ errName e

def resNat : Except TermError Nat → String
  | .ok n => "ok " ++ toString n
  | .error e => "err " ++ errName e

def resPair : Except TermError (Term × Term) → String
  | .ok (l, r) => "ok " ++ showTerm l ++ " , " ++ showTerm r
  | .error e => "err " ++ errName e

def b01 (b : Bool) : String := if b then "1" else "0"

/-- run a history of reduce calls -/
def runHist : List (Order × Nat) → Term → String → Option String
  | [], t, acc => some (acc ++ showTerm t)
  | (o, l) :: rest, t, acc =>
    match reduce o l FUEL t with
    | some (t', c) => runHist rest t' (acc ++ toString c ++ " ")
    | none => none

partial def parseCalls : Nat → List String → Option (List (Order × Nat) × List String)
  | 0, ts => some ([], ts)
  | n+1, o :: l :: ts => do
    let o' ← orderOf o
    let l' ← l.toNat?
    let (cs, rest) ← parseCalls n ts
    pure ((o', l') :: cs, rest)
  | _, _ => none

partial def decTerms : Nat → List String → Option (List Term × List String)
  | 0, ts => some ([], ts)
  | n+1, ts => do
    let (t, r) ← decTerm ts
    let (more, r') ← decTerms n r
    pure (t :: more, r')

def exec (line : String) : String :=
  let toks := (line.splitOn " ").filter (· ≠ "")
  match toks with
  | "apply" :: rest =>
    (do
      let (t, r1) ← decTerm rest
      let (a, _) ← decTerm r1
      -- the receiver after the call is part of the answer: on Err it must be the receiver before the call
      pure (match Term.applyMut t a with
        | (t', .ok ()) => "ok " ++ showTerm t'
        | (t', .error e) => if t' == t then "err " ++ errName e else "err " ++ errName e ++ " CHANGED " ++ showTerm t')).getD "bad-op"
  -- boundary operations: indices close to usize::MAX.  The crate refuses (panics) to create an index above usize::MAX;
  -- for a single substitution that happens exactly when the model's (unbounded) result contains such an index
  | "applyb" :: rest =>
    (do
      let (t, r1) ← decTerm rest
      let (a, _) ← decTerm r1
      pure (match Term.apply t a with
        | .ok t' => if Term.maxIndex t' > USIZE_MAX then "PANIC" else "ok " ++ showTerm t'
        | .error e => "err " ++ errName e)).getD "bad-op"
  | "reduceb" :: o :: rest =>
    (do
      let o' ← orderOf o
      let (t, _) ← decTerm rest
      pure (match reduce o' 1 FUEL t with
        | some (t', c) => if Term.maxIndex t' > USIZE_MAX then "PANIC" else toString c ++ " " ++ showTerm t'
        | none => "fuel")).getD "bad-op"
  | "reduce" :: o :: l :: rest =>
    (do
      let o' ← orderOf o
      let l' ← l.toNat?
      let (t, _) ← decTerm rest
      pure (match reduce o' l' FUEL t with
        | some (t', c) => toString c ++ " " ++ showTerm t'
        | none => "fuel")).getD "bad-op"
  | "beta" :: o :: l :: rest =>
    (do
      let o' ← orderOf o
      let l' ← l.toNat?
      let (t, _) ← decTerm rest
      pure (match beta t o' l' FUEL with
        | some t' => showTerm t'
        | none => "fuel")).getD "bad-op"
  | "hist" :: n :: rest =>
    (do
      let n' ← n.toNat?
      let (calls, r1) ← parseCalls n' rest
      let (t, _) ← decTerm r1
      pure ((runHist calls t "").getD "fuel")).getD "bad-op"
  | "pred" :: rest =>
    (do
      let (t, _) ← decTerm rest
      -- the supercombinator bit is only part of the answer for terms without UD (C18's quantifier)
      let sc := if hasUD01 t then "-" else b01 t.isSupercombinator
      pure (b01 t.hasFreeVariables ++ " " ++ sc ++ " " ++ toString t.maxDepth)).getD "bad-op"
  | "iso" :: rest =>
    (do
      let (t, r1) ← decTerm rest
      let (u, _) ← decTerm r1
      pure (b01 (t.isIsomorphicTo u))).getD "bad-op"
  | "acc" :: rest =>
    (do
      let (t, _) ← decTerm rest
      let fam (uv : Except TermError Nat) (ua : Except TermError Term) (up : Except TermError (Term × Term))
          (lh rh : Except TermError Term) : String :=
        resNat uv ++ " | " ++ resTerm ua ++ " | " ++ resPair up ++ " | " ++ resTerm lh ++ " | " ++ resTerm rh
      pure (fam t.unvar t.unabs t.unapp t.lhs t.rhs ++ " | " ++
            fam t.unvarRef t.unabsRef t.unappRef t.lhsRef t.rhsRef ++ " | " ++
            fam t.unvarMutGet t.unabsMutGet t.unappMutGet t.lhsMutGet t.rhsMutGet ++ " | unchanged 1")).getD "bad-op"
  | "put" :: which :: rest =>
    (do
      let (t, r1) ← decTerm rest
      match which with
      | "unvar" => do
        let v ← (← r1.head?).toNat?
        pure (resTerm (t.unvarMutPut v))
      | "unabs" => do
        let (v, _) ← decTerm r1
        pure (resTerm (t.unabsMutPut v))
      | "lhs" => do
        let (v, _) ← decTerm r1
        pure (resTerm (t.lhsMutPut v))
      | "rhs" => do
        let (v, _) ← decTerm r1
        pure (resTerm (t.rhsMutPut v))
      | "unapp" => do
        let (v1, r2) ← decTerm r1
        let (v2, _) ← decTerm r2
        pure (resTerm (t.unappMutPut (v1, v2)))
      | _ => none).getD "bad-op"
  | "mapp" :: k :: rest =>
    (do
      let k' ← k.toNat?
      let (ts, _) ← decTerms (k' + 1) rest
      match ts with
      | t0 :: more => pure (showTerm (appMany t0 more))
      | [] => none).getD "bad-op"
  | "mabs" :: n :: rest =>
    (do
      let n' ← n.toNat?
      let (t, _) ← decTerm rest
      pure (showTerm (absN n' t))).getD "bad-op"
  | ["udconst"] => showTerm Term.UD
  | _ => Drv2.exec2 toks

partial def loop (h : IO.FS.Stream) (out : IO.FS.Stream) : IO Unit := do
  let line ← h.getLine
  if line.isEmpty then return ()
  let l := (line.dropRightWhile (fun c => c == '\n' || c == '\r'))
  out.putStrLn (exec l)
  loop h out

end Drv

def main : IO Unit := do
  let out ← IO.getStdout
  Drv.loop (← IO.getStdin) out
