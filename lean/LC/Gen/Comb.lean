/- GENERATED on every run from the compiled crate by `harness dump-consts` (DESIGN §3.1).
   Source: /repo/src/combinators.rs.  Do not edit. -/
import LC.Model.Term

namespace LC.Gen.Comb
open LC

def I : Term := (.abs (.var 1))

def K : Term := (.abs (.abs (.var 2)))

def S : Term := (.abs (.abs (.abs (.app (.app (.var 3) (.var 1)) (.app (.var 2) (.var 1))))))

def i : Term := (.abs (.app (.app (.var 1) (.abs (.abs (.abs (.app (.app (.var 3) (.var 1)) (.app (.var 2) (.var 1))))))) (.abs (.abs (.var 2)))))

def B : Term := (.abs (.abs (.abs (.app (.var 3) (.app (.var 2) (.var 1))))))

def C : Term := (.abs (.abs (.abs (.app (.app (.var 3) (.var 1)) (.var 2)))))

def W : Term := (.abs (.abs (.app (.app (.var 2) (.var 1)) (.var 1))))

def o : Term := (.abs (.app (.var 1) (.var 1)))

def O : Term := (.app (.abs (.app (.var 1) (.var 1))) (.abs (.app (.var 1) (.var 1))))

def Y : Term := (.abs (.app (.abs (.app (.var 2) (.app (.var 1) (.var 1)))) (.abs (.app (.var 2) (.app (.var 1) (.var 1))))))

def Z : Term := (.abs (.app (.abs (.app (.var 2) (.abs (.app (.app (.var 2) (.var 2)) (.var 1))))) (.abs (.app (.var 2) (.abs (.app (.app (.var 2) (.var 2)) (.var 1)))))))

def R : Term := (.abs (.abs (.app (.var 1) (.var 2))))

def T : Term := (.app (.abs (.abs (.app (.var 1) (.app (.app (.var 2) (.var 2)) (.var 1))))) (.abs (.abs (.app (.var 1) (.app (.app (.var 2) (.var 2)) (.var 1))))))

end LC.Gen.Comb
