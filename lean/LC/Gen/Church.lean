/- GENERATED on every run from the compiled crate by `harness dump-consts` (DESIGN §3.1).
   Source: /repo/src/data/num/church.rs.  Do not edit. -/
import LC.Model.Term

namespace LC.Gen.Church
open LC

def zero : Term := (.abs (.abs (.var 1)))

def is_zero : Term := (.abs (.app (.app (.var 1) (.abs (.abs (.abs (.var 1))))) (.abs (.abs (.var 2)))))

def one : Term := (.abs (.abs (.app (.var 2) (.var 1))))

def succ : Term := (.abs (.abs (.abs (.app (.var 2) (.app (.app (.var 3) (.var 2)) (.var 1))))))

def pred : Term := (.abs (.abs (.abs (.app (.app (.app (.var 3) (.abs (.abs (.app (.var 1) (.app (.var 2) (.var 4)))))) (.abs (.var 2))) (.abs (.var 1))))))

def add : Term := (.abs (.abs (.app (.app (.var 1) (.abs (.abs (.abs (.app (.var 2) (.app (.app (.var 3) (.var 2)) (.var 1))))))) (.var 2))))

def sub : Term := (.abs (.abs (.app (.app (.var 1) (.abs (.abs (.abs (.app (.app (.app (.var 3) (.abs (.abs (.app (.var 1) (.app (.var 2) (.var 4)))))) (.abs (.var 2))) (.abs (.var 1))))))) (.var 2))))

def mul : Term := (.abs (.abs (.abs (.app (.var 3) (.app (.var 2) (.var 1))))))

def pow : Term := (.abs (.abs (.app (.app (.app (.abs (.app (.app (.var 1) (.abs (.abs (.abs (.var 1))))) (.abs (.abs (.var 2))))) (.var 1)) (.abs (.abs (.app (.var 2) (.var 1))))) (.app (.var 1) (.var 2)))))

def lt : Term := (.abs (.abs (.app (.abs (.app (.app (.var 1) (.abs (.abs (.var 1)))) (.abs (.abs (.var 2))))) (.app (.app (.abs (.abs (.app (.abs (.app (.app (.var 1) (.abs (.abs (.abs (.var 1))))) (.abs (.abs (.var 2))))) (.app (.app (.abs (.abs (.app (.app (.var 1) (.abs (.abs (.abs (.app (.app (.app (.var 3) (.abs (.abs (.app (.var 1) (.app (.var 2) (.var 4)))))) (.abs (.var 2))) (.abs (.var 1))))))) (.var 2)))) (.var 2)) (.var 1))))) (.var 1)) (.var 2)))))

def leq : Term := (.abs (.abs (.app (.abs (.app (.app (.var 1) (.abs (.abs (.abs (.var 1))))) (.abs (.abs (.var 2))))) (.app (.app (.abs (.abs (.app (.app (.var 1) (.abs (.abs (.abs (.app (.app (.app (.var 3) (.abs (.abs (.app (.var 1) (.app (.var 2) (.var 4)))))) (.abs (.var 2))) (.abs (.var 1))))))) (.var 2)))) (.var 2)) (.var 1)))))

def eq : Term := (.abs (.abs (.app (.app (.abs (.abs (.app (.app (.var 2) (.var 1)) (.var 2)))) (.app (.app (.abs (.abs (.app (.abs (.app (.app (.var 1) (.abs (.abs (.abs (.var 1))))) (.abs (.abs (.var 2))))) (.app (.app (.abs (.abs (.app (.app (.var 1) (.abs (.abs (.abs (.app (.app (.app (.var 3) (.abs (.abs (.app (.var 1) (.app (.var 2) (.var 4)))))) (.abs (.var 2))) (.abs (.var 1))))))) (.var 2)))) (.var 2)) (.var 1))))) (.var 2)) (.var 1))) (.app (.app (.abs (.abs (.app (.abs (.app (.app (.var 1) (.abs (.abs (.abs (.var 1))))) (.abs (.abs (.var 2))))) (.app (.app (.abs (.abs (.app (.app (.var 1) (.abs (.abs (.abs (.app (.app (.app (.var 3) (.abs (.abs (.app (.var 1) (.app (.var 2) (.var 4)))))) (.abs (.var 2))) (.abs (.var 1))))))) (.var 2)))) (.var 2)) (.var 1))))) (.var 1)) (.var 2)))))

def neq : Term := (.abs (.abs (.app (.app (.abs (.abs (.app (.app (.var 2) (.var 2)) (.var 1)))) (.app (.abs (.app (.app (.var 1) (.abs (.abs (.var 1)))) (.abs (.abs (.var 2))))) (.app (.app (.abs (.abs (.app (.abs (.app (.app (.var 1) (.abs (.abs (.abs (.var 1))))) (.abs (.abs (.var 2))))) (.app (.app (.abs (.abs (.app (.app (.var 1) (.abs (.abs (.abs (.app (.app (.app (.var 3) (.abs (.abs (.app (.var 1) (.app (.var 2) (.var 4)))))) (.abs (.var 2))) (.abs (.var 1))))))) (.var 2)))) (.var 2)) (.var 1))))) (.var 2)) (.var 1)))) (.app (.abs (.app (.app (.var 1) (.abs (.abs (.var 1)))) (.abs (.abs (.var 2))))) (.app (.app (.abs (.abs (.app (.abs (.app (.app (.var 1) (.abs (.abs (.abs (.var 1))))) (.abs (.abs (.var 2))))) (.app (.app (.abs (.abs (.app (.app (.var 1) (.abs (.abs (.abs (.app (.app (.app (.var 3) (.abs (.abs (.app (.var 1) (.app (.var 2) (.var 4)))))) (.abs (.var 2))) (.abs (.var 1))))))) (.var 2)))) (.var 2)) (.var 1))))) (.var 1)) (.var 2))))))

def geq : Term := (.abs (.abs (.app (.app (.abs (.abs (.app (.abs (.app (.app (.var 1) (.abs (.abs (.abs (.var 1))))) (.abs (.abs (.var 2))))) (.app (.app (.abs (.abs (.app (.app (.var 1) (.abs (.abs (.abs (.app (.app (.app (.var 3) (.abs (.abs (.app (.var 1) (.app (.var 2) (.var 4)))))) (.abs (.var 2))) (.abs (.var 1))))))) (.var 2)))) (.var 2)) (.var 1))))) (.var 1)) (.var 2))))

def gt : Term := (.abs (.abs (.app (.abs (.app (.app (.var 1) (.abs (.abs (.var 1)))) (.abs (.abs (.var 2))))) (.app (.app (.abs (.abs (.app (.abs (.app (.app (.var 1) (.abs (.abs (.abs (.var 1))))) (.abs (.abs (.var 2))))) (.app (.app (.abs (.abs (.app (.app (.var 1) (.abs (.abs (.abs (.app (.app (.app (.var 3) (.abs (.abs (.app (.var 1) (.app (.var 2) (.var 4)))))) (.abs (.var 2))) (.abs (.var 1))))))) (.var 2)))) (.var 2)) (.var 1))))) (.var 2)) (.var 1)))))

def div : Term := (.app (.app (.abs (.app (.abs (.app (.var 2) (.abs (.app (.app (.var 2) (.var 2)) (.var 1))))) (.abs (.app (.var 2) (.abs (.app (.app (.var 2) (.var 2)) (.var 1))))))) (.abs (.abs (.abs (.abs (.app (.app (.app (.app (.app (.abs (.abs (.app (.abs (.app (.app (.var 1) (.abs (.abs (.var 1)))) (.abs (.abs (.var 2))))) (.app (.app (.abs (.abs (.app (.abs (.app (.app (.var 1) (.abs (.abs (.abs (.var 1))))) (.abs (.abs (.var 2))))) (.app (.app (.abs (.abs (.app (.app (.var 1) (.abs (.abs (.abs (.app (.app (.app (.var 3) (.abs (.abs (.app (.var 1) (.app (.var 2) (.var 4)))))) (.abs (.var 2))) (.abs (.var 1))))))) (.var 2)))) (.var 2)) (.var 1))))) (.var 1)) (.var 2))))) (.var 2)) (.var 1)) (.abs (.app (.app (.abs (.abs (.abs (.app (.app (.var 1) (.var 3)) (.var 2))))) (.var 4)) (.var 3)))) (.abs (.app (.app (.app (.var 5) (.app (.abs (.abs (.abs (.app (.var 2) (.app (.app (.var 3) (.var 2)) (.var 1)))))) (.var 4))) (.app (.app (.abs (.abs (.app (.app (.var 1) (.abs (.abs (.abs (.app (.app (.app (.var 3) (.abs (.abs (.app (.var 1) (.app (.var 2) (.var 4)))))) (.abs (.var 2))) (.abs (.var 1))))))) (.var 2)))) (.var 3)) (.var 2))) (.var 2)))) (.abs (.var 1)))))))) (.abs (.abs (.var 1))))

def quot : Term := (.app (.abs (.app (.abs (.app (.var 2) (.abs (.app (.app (.var 2) (.var 2)) (.var 1))))) (.abs (.app (.var 2) (.abs (.app (.app (.var 2) (.var 2)) (.var 1))))))) (.abs (.abs (.abs (.app (.app (.app (.app (.app (.abs (.abs (.app (.abs (.app (.app (.var 1) (.abs (.abs (.var 1)))) (.abs (.abs (.var 2))))) (.app (.app (.abs (.abs (.app (.abs (.app (.app (.var 1) (.abs (.abs (.abs (.var 1))))) (.abs (.abs (.var 2))))) (.app (.app (.abs (.abs (.app (.app (.var 1) (.abs (.abs (.abs (.app (.app (.app (.var 3) (.abs (.abs (.app (.var 1) (.app (.var 2) (.var 4)))))) (.abs (.var 2))) (.abs (.var 1))))))) (.var 2)))) (.var 2)) (.var 1))))) (.var 1)) (.var 2))))) (.var 2)) (.var 1)) (.abs (.abs (.abs (.var 1))))) (.abs (.app (.abs (.abs (.abs (.app (.var 2) (.app (.app (.var 3) (.var 2)) (.var 1)))))) (.app (.app (.var 4) (.app (.app (.abs (.abs (.app (.app (.var 1) (.abs (.abs (.abs (.app (.app (.app (.var 3) (.abs (.abs (.app (.var 1) (.app (.var 2) (.var 4)))))) (.abs (.var 2))) (.abs (.var 1))))))) (.var 2)))) (.var 3)) (.var 2))) (.var 2))))) (.abs (.var 1)))))))

def rem : Term := (.app (.abs (.app (.abs (.app (.var 2) (.abs (.app (.app (.var 2) (.var 2)) (.var 1))))) (.abs (.app (.var 2) (.abs (.app (.app (.var 2) (.var 2)) (.var 1))))))) (.abs (.abs (.abs (.app (.app (.app (.app (.app (.abs (.abs (.app (.abs (.app (.app (.var 1) (.abs (.abs (.var 1)))) (.abs (.abs (.var 2))))) (.app (.app (.abs (.abs (.app (.abs (.app (.app (.var 1) (.abs (.abs (.abs (.var 1))))) (.abs (.abs (.var 2))))) (.app (.app (.abs (.abs (.app (.app (.var 1) (.abs (.abs (.abs (.app (.app (.app (.var 3) (.abs (.abs (.app (.var 1) (.app (.var 2) (.var 4)))))) (.abs (.var 2))) (.abs (.var 1))))))) (.var 2)))) (.var 2)) (.var 1))))) (.var 1)) (.var 2))))) (.var 2)) (.var 1)) (.abs (.var 3))) (.abs (.app (.app (.var 4) (.app (.app (.abs (.abs (.app (.app (.var 1) (.abs (.abs (.abs (.app (.app (.app (.var 3) (.abs (.abs (.app (.var 1) (.app (.var 2) (.var 4)))))) (.abs (.var 2))) (.abs (.var 1))))))) (.var 2)))) (.var 3)) (.var 2))) (.var 2)))) (.abs (.var 1)))))))

def fac : Term := (.abs (.app (.app (.app (.app (.var 1) (.abs (.abs (.abs (.app (.app (.var 3) (.app (.app (.abs (.abs (.abs (.app (.var 3) (.app (.var 2) (.var 1)))))) (.var 2)) (.var 1))) (.app (.abs (.abs (.abs (.app (.var 2) (.app (.app (.var 3) (.var 2)) (.var 1)))))) (.var 1))))))) (.abs (.abs (.var 2)))) (.abs (.abs (.app (.var 2) (.var 1))))) (.abs (.abs (.app (.var 2) (.var 1))))))

def min : Term := (.abs (.abs (.app (.app (.app (.app (.abs (.abs (.app (.abs (.app (.app (.var 1) (.abs (.abs (.abs (.var 1))))) (.abs (.abs (.var 2))))) (.app (.app (.abs (.abs (.app (.app (.var 1) (.abs (.abs (.abs (.app (.app (.app (.var 3) (.abs (.abs (.app (.var 1) (.app (.var 2) (.var 4)))))) (.abs (.var 2))) (.abs (.var 1))))))) (.var 2)))) (.var 2)) (.var 1))))) (.var 2)) (.var 1)) (.var 2)) (.var 1))))

def max : Term := (.abs (.abs (.app (.app (.app (.app (.abs (.abs (.app (.abs (.app (.app (.var 1) (.abs (.abs (.abs (.var 1))))) (.abs (.abs (.var 2))))) (.app (.app (.abs (.abs (.app (.app (.var 1) (.abs (.abs (.abs (.app (.app (.app (.var 3) (.abs (.abs (.app (.var 1) (.app (.var 2) (.var 4)))))) (.abs (.var 2))) (.abs (.var 1))))))) (.var 2)))) (.var 2)) (.var 1))))) (.var 2)) (.var 1)) (.var 1)) (.var 2))))

def shl : Term := (.abs (.abs (.app (.app (.abs (.abs (.abs (.app (.var 3) (.app (.var 2) (.var 1)))))) (.var 2)) (.app (.app (.abs (.abs (.app (.app (.app (.abs (.app (.app (.var 1) (.abs (.abs (.abs (.var 1))))) (.abs (.abs (.var 2))))) (.var 1)) (.abs (.abs (.app (.var 2) (.var 1))))) (.app (.var 1) (.var 2))))) (.app (.abs (.abs (.abs (.app (.var 2) (.app (.app (.var 3) (.var 2)) (.var 1)))))) (.abs (.abs (.app (.var 2) (.var 1)))))) (.var 1)))))

def shr : Term := (.abs (.abs (.app (.app (.app (.abs (.app (.app (.var 1) (.abs (.abs (.abs (.var 1))))) (.abs (.abs (.var 2))))) (.var 1)) (.var 2)) (.app (.app (.app (.abs (.app (.abs (.app (.var 2) (.abs (.app (.app (.var 2) (.var 2)) (.var 1))))) (.abs (.app (.var 2) (.abs (.app (.app (.var 2) (.var 2)) (.var 1))))))) (.abs (.abs (.abs (.app (.app (.app (.app (.app (.abs (.abs (.app (.abs (.app (.app (.var 1) (.abs (.abs (.var 1)))) (.abs (.abs (.var 2))))) (.app (.app (.abs (.abs (.app (.abs (.app (.app (.var 1) (.abs (.abs (.abs (.var 1))))) (.abs (.abs (.var 2))))) (.app (.app (.abs (.abs (.app (.app (.var 1) (.abs (.abs (.abs (.app (.app (.app (.var 3) (.abs (.abs (.app (.var 1) (.app (.var 2) (.var 4)))))) (.abs (.var 2))) (.abs (.var 1))))))) (.var 2)))) (.var 2)) (.var 1))))) (.var 1)) (.var 2))))) (.var 2)) (.var 1)) (.abs (.abs (.abs (.var 1))))) (.abs (.app (.abs (.abs (.abs (.app (.var 2) (.app (.app (.var 3) (.var 2)) (.var 1)))))) (.app (.app (.var 4) (.app (.app (.abs (.abs (.app (.app (.var 1) (.abs (.abs (.abs (.app (.app (.app (.var 3) (.abs (.abs (.app (.var 1) (.app (.var 2) (.var 4)))))) (.abs (.var 2))) (.abs (.var 1))))))) (.var 2)))) (.var 3)) (.var 2))) (.var 2))))) (.abs (.var 1))))))) (.var 2)) (.app (.app (.abs (.abs (.app (.app (.app (.abs (.app (.app (.var 1) (.abs (.abs (.abs (.var 1))))) (.abs (.abs (.var 2))))) (.var 1)) (.abs (.abs (.app (.var 2) (.var 1))))) (.app (.var 1) (.var 2))))) (.app (.abs (.abs (.abs (.app (.var 2) (.app (.app (.var 3) (.var 2)) (.var 1)))))) (.abs (.abs (.app (.var 2) (.var 1)))))) (.var 1))))))

def is_even : Term := (.abs (.app (.app (.var 1) (.abs (.app (.app (.var 1) (.abs (.abs (.var 1)))) (.abs (.abs (.var 2)))))) (.abs (.abs (.var 2)))))

def is_odd : Term := (.abs (.app (.app (.var 1) (.abs (.app (.app (.var 1) (.abs (.abs (.var 1)))) (.abs (.abs (.var 2)))))) (.abs (.abs (.var 1)))))

def to_scott : Term := (.abs (.app (.app (.var 1) (.abs (.abs (.abs (.app (.var 1) (.var 3)))))) (.abs (.abs (.var 2)))))

def to_parigot : Term := (.abs (.app (.app (.var 1) (.abs (.abs (.abs (.app (.app (.var 2) (.var 3)) (.app (.app (.var 3) (.var 2)) (.var 1))))))) (.abs (.abs (.var 1)))))

def to_stumpfu : Term := (.abs (.app (.app (.var 1) (.abs (.app (.app (.var 1) (.abs (.abs (.abs (.abs (.app (.app (.var 2) (.app (.abs (.abs (.abs (.app (.var 2) (.app (.app (.var 3) (.var 2)) (.var 1)))))) (.var 4))) (.var 5))))))) (.abs (.abs (.app (.app (.var 2) (.abs (.abs (.app (.var 2) (.var 1))))) (.abs (.abs (.var 1))))))))) (.abs (.abs (.var 1)))))

end LC.Gen.Church
