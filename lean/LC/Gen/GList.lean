/- GENERATED on every run from the compiled crate by `harness dump-consts` (DESIGN §3.1).
   Source: /repo/src/data/list/parigot.rs.  Do not edit. -/
import LC.Model.Term

namespace LC.Gen.GList
open LC

def nil : Term := (.abs (.abs (.var 2)))

def is_nil : Term := (.abs (.app (.app (.var 1) (.abs (.abs (.var 2)))) (.abs (.abs (.abs (.abs (.abs (.var 1))))))))

def cons : Term := (.abs (.abs (.abs (.abs (.app (.app (.app (.var 1) (.var 4)) (.var 3)) (.app (.app (.app (.abs (.var 1)) (.var 3)) (.var 2)) (.var 1)))))))

def head : Term := (.abs (.app (.app (.var 1) (.var 0)) (.abs (.abs (.abs (.var 3))))))

def tail : Term := (.abs (.app (.app (.var 1) (.var 0)) (.abs (.abs (.abs (.var 2))))))

end LC.Gen.GList
