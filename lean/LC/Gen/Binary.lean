/- GENERATED on every run from the compiled crate by `harness dump-consts` (DESIGN §3.1).
   Source: /repo/src/data/num/binary.rs.  Do not edit. -/
import LC.Model.Term

namespace LC.Gen.Binary
open LC

def b0 : Term := (.abs (.abs (.var 2)))

def b1 : Term := (.abs (.abs (.var 1)))

def zero : Term := (.abs (.abs (.abs (.var 3))))

def is_zero : Term := (.abs (.app (.app (.app (.var 1) (.abs (.abs (.var 2)))) (.abs (.var 1))) (.abs (.abs (.abs (.var 1))))))

def one : Term := (.abs (.abs (.abs (.app (.var 1) (.var 3)))))

def succ : Term := (.abs (.app (.abs (.app (.var 1) (.abs (.abs (.var 1))))) (.app (.app (.app (.var 1) (.app (.app (.abs (.abs (.abs (.app (.app (.var 1) (.var 3)) (.var 2))))) (.abs (.abs (.abs (.var 3))))) (.abs (.abs (.abs (.app (.var 1) (.var 3))))))) (.abs (.app (.var 1) (.abs (.abs (.app (.app (.abs (.abs (.abs (.app (.app (.var 1) (.var 3)) (.var 2))))) (.app (.abs (.abs (.abs (.abs (.app (.var 2) (.app (.app (.app (.var 4) (.var 3)) (.var 2)) (.var 1))))))) (.var 2))) (.app (.abs (.abs (.abs (.abs (.app (.var 1) (.app (.app (.app (.var 4) (.var 3)) (.var 2)) (.var 1))))))) (.var 2)))))))) (.abs (.app (.var 1) (.abs (.abs (.app (.app (.abs (.abs (.abs (.app (.app (.var 1) (.var 3)) (.var 2))))) (.app (.abs (.abs (.abs (.abs (.app (.var 1) (.app (.app (.app (.var 4) (.var 3)) (.var 2)) (.var 1))))))) (.var 2))) (.app (.abs (.abs (.abs (.abs (.app (.var 2) (.app (.app (.app (.var 4) (.var 3)) (.var 2)) (.var 1))))))) (.var 1))))))))))

def pred : Term := (.abs (.app (.abs (.app (.var 1) (.abs (.abs (.var 1))))) (.app (.app (.app (.var 1) (.app (.app (.abs (.abs (.abs (.app (.app (.var 1) (.var 3)) (.var 2))))) (.abs (.abs (.abs (.var 3))))) (.abs (.abs (.abs (.var 3)))))) (.abs (.app (.var 1) (.abs (.abs (.app (.app (.abs (.abs (.abs (.app (.app (.var 1) (.var 3)) (.var 2))))) (.app (.abs (.abs (.abs (.abs (.app (.var 2) (.app (.app (.app (.var 4) (.var 3)) (.var 2)) (.var 1))))))) (.var 2))) (.app (.abs (.abs (.abs (.abs (.app (.var 1) (.app (.app (.app (.var 4) (.var 3)) (.var 2)) (.var 1))))))) (.var 1)))))))) (.abs (.app (.var 1) (.abs (.abs (.app (.app (.abs (.abs (.abs (.app (.app (.var 1) (.var 3)) (.var 2))))) (.app (.abs (.abs (.abs (.abs (.app (.var 1) (.app (.app (.app (.var 4) (.var 3)) (.var 2)) (.var 1))))))) (.var 2))) (.app (.abs (.abs (.abs (.abs (.app (.var 2) (.app (.app (.app (.var 4) (.var 3)) (.var 2)) (.var 1))))))) (.var 2))))))))))

def lsb : Term := (.abs (.app (.app (.app (.var 1) (.abs (.abs (.var 2)))) (.abs (.abs (.abs (.var 2))))) (.abs (.abs (.abs (.var 1))))))

def shl0 : Term := (.abs (.abs (.abs (.abs (.app (.var 2) (.app (.app (.app (.var 4) (.var 3)) (.var 2)) (.var 1)))))))

def shl1 : Term := (.abs (.abs (.abs (.abs (.app (.var 1) (.app (.app (.app (.var 4) (.var 3)) (.var 2)) (.var 1)))))))

def strip : Term := (.abs (.app (.abs (.app (.var 1) (.abs (.abs (.var 2))))) (.app (.app (.app (.var 1) (.app (.app (.abs (.abs (.abs (.app (.app (.var 1) (.var 3)) (.var 2))))) (.abs (.abs (.abs (.var 3))))) (.abs (.abs (.var 2))))) (.abs (.app (.var 1) (.abs (.abs (.app (.app (.abs (.abs (.abs (.app (.app (.var 1) (.var 3)) (.var 2))))) (.app (.app (.var 1) (.abs (.abs (.abs (.var 3))))) (.app (.abs (.abs (.abs (.abs (.app (.var 2) (.app (.app (.app (.var 4) (.var 3)) (.var 2)) (.var 1))))))) (.var 2)))) (.var 1))))))) (.abs (.app (.var 1) (.abs (.abs (.app (.app (.abs (.abs (.abs (.app (.app (.var 1) (.var 3)) (.var 2))))) (.app (.abs (.abs (.abs (.abs (.app (.var 1) (.app (.app (.app (.var 4) (.var 3)) (.var 2)) (.var 1))))))) (.var 2))) (.abs (.abs (.var 1)))))))))))

end LC.Gen.Binary
