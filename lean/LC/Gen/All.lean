/- GENERATED: imports every generated constant module -/
import LC.Gen.Binary
import LC.Gen.Bool
import LC.Gen.CList
import LC.Gen.Church
import LC.Gen.Comb
import LC.Gen.GList
import LC.Gen.Opt
import LC.Gen.PList
import LC.Gen.Pair
import LC.Gen.Parigot
import LC.Gen.Res
import LC.Gen.SList
import LC.Gen.Scott
import LC.Gen.Signed
import LC.Gen.StumpFu
