/- GENERATED on every run from the compiled crate by `harness dump-consts` (DESIGN §3.1).
   Source: /repo/src/data/num/parigot.rs.  Do not edit. -/
import LC.Model.Term

namespace LC.Gen.Parigot
open LC

def zero : Term := (.abs (.abs (.var 1)))

def is_zero : Term := (.abs (.app (.app (.var 1) (.abs (.abs (.abs (.abs (.var 1)))))) (.abs (.abs (.var 2)))))

def one : Term := (.abs (.abs (.app (.app (.var 2) (.abs (.abs (.var 1)))) (.var 1))))

def succ : Term := (.abs (.abs (.abs (.app (.app (.var 2) (.var 3)) (.app (.app (.var 3) (.var 2)) (.var 1))))))

def pred : Term := (.abs (.app (.app (.var 1) (.abs (.abs (.var 2)))) (.abs (.abs (.var 1)))))

def add : Term := (.abs (.abs (.app (.app (.var 2) (.abs (.abs (.abs (.abs (.app (.app (.var 2) (.var 3)) (.app (.app (.var 3) (.var 2)) (.var 1)))))))) (.var 1))))

def sub : Term := (.abs (.abs (.app (.app (.var 1) (.abs (.abs (.app (.app (.var 1) (.abs (.abs (.var 2)))) (.abs (.abs (.var 1))))))) (.var 2))))

def mul : Term := (.abs (.abs (.app (.app (.var 2) (.abs (.app (.abs (.abs (.app (.app (.var 2) (.abs (.abs (.abs (.abs (.app (.app (.var 2) (.var 3)) (.app (.app (.var 3) (.var 2)) (.var 1)))))))) (.var 1)))) (.var 2)))) (.abs (.abs (.var 1))))))

end LC.Gen.Parigot
