/- GENERATED on every run from the compiled crate by `harness dump-consts` (DESIGN §3.1).
   Source: /repo/src/data/option.rs.  Do not edit. -/
import LC.Model.Term

namespace LC.Gen.Opt
open LC

def none : Term := (.abs (.abs (.var 2)))

def some : Term := (.abs (.abs (.abs (.app (.var 1) (.var 3)))))

def is_none : Term := (.abs (.app (.app (.var 1) (.abs (.abs (.var 2)))) (.abs (.abs (.abs (.var 1))))))

def is_some : Term := (.abs (.app (.app (.var 1) (.abs (.abs (.var 1)))) (.abs (.abs (.abs (.var 2))))))

def map : Term := (.abs (.abs (.app (.app (.var 1) (.abs (.abs (.var 2)))) (.abs (.app (.abs (.abs (.abs (.app (.var 1) (.var 3))))) (.app (.var 3) (.var 1)))))))

def map_or : Term := (.abs (.abs (.abs (.app (.app (.var 1) (.var 3)) (.var 2)))))

def unwrap_or : Term := (.abs (.abs (.app (.app (.var 1) (.var 2)) (.abs (.var 1)))))

def and_then : Term := (.abs (.abs (.app (.app (.var 2) (.abs (.abs (.var 2)))) (.var 1))))

end LC.Gen.Opt
