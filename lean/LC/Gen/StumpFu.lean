/- GENERATED on every run from the compiled crate by `harness dump-consts` (DESIGN §3.1).
   Source: /repo/src/data/num/stumpfu.rs.  Do not edit. -/
import LC.Model.Term

namespace LC.Gen.StumpFu
open LC

def zero : Term := (.abs (.abs (.var 1)))

def is_zero : Term := (.abs (.app (.app (.var 1) (.abs (.abs (.abs (.abs (.var 1)))))) (.abs (.abs (.var 2)))))

def one : Term := (.abs (.abs (.app (.app (.var 2) (.abs (.abs (.app (.var 2) (.var 1))))) (.abs (.abs (.var 1))))))

def succ : Term := (.abs (.app (.app (.var 1) (.abs (.abs (.abs (.abs (.app (.app (.var 2) (.app (.abs (.abs (.abs (.app (.var 2) (.app (.app (.var 3) (.var 2)) (.var 1)))))) (.var 4))) (.var 5))))))) (.abs (.abs (.app (.app (.var 2) (.abs (.abs (.app (.var 2) (.var 1))))) (.abs (.abs (.var 1))))))))

def pred : Term := (.abs (.app (.app (.var 1) (.abs (.abs (.var 1)))) (.abs (.abs (.var 1)))))

def add : Term := (.abs (.abs (.app (.app (.var 2) (.abs (.abs (.app (.app (.var 2) (.abs (.app (.app (.var 1) (.abs (.abs (.abs (.abs (.app (.app (.var 2) (.app (.abs (.abs (.abs (.app (.var 2) (.app (.app (.var 3) (.var 2)) (.var 1)))))) (.var 4))) (.var 5))))))) (.abs (.abs (.app (.app (.var 2) (.abs (.abs (.app (.var 2) (.var 1))))) (.abs (.abs (.var 1))))))))) (.var 3))))) (.var 1))))

def mul : Term := (.abs (.abs (.app (.app (.var 2) (.abs (.abs (.app (.app (.var 2) (.abs (.app (.app (.abs (.abs (.app (.app (.var 2) (.abs (.abs (.app (.app (.var 2) (.abs (.app (.app (.var 1) (.abs (.abs (.abs (.abs (.app (.app (.var 2) (.app (.abs (.abs (.abs (.app (.var 2) (.app (.app (.var 3) (.var 2)) (.var 1)))))) (.var 4))) (.var 5))))))) (.abs (.abs (.app (.app (.var 2) (.abs (.abs (.app (.var 2) (.var 1))))) (.abs (.abs (.var 1))))))))) (.var 3))))) (.var 1)))) (.var 4)) (.var 1)))) (.abs (.abs (.var 1))))))) (.abs (.abs (.var 1))))))

def to_church : Term := (.abs (.app (.app (.var 1) (.abs (.abs (.var 2)))) (.var 1)))

def to_scott : Term := (.abs (.app (.abs (.app (.app (.var 1) (.abs (.abs (.abs (.app (.var 1) (.var 3)))))) (.abs (.abs (.var 2))))) (.app (.app (.var 1) (.abs (.abs (.var 2)))) (.var 1))))

def to_parigot : Term := (.abs (.app (.abs (.app (.app (.var 1) (.abs (.abs (.abs (.app (.app (.var 2) (.var 3)) (.app (.app (.var 3) (.var 2)) (.var 1))))))) (.abs (.abs (.var 1))))) (.app (.app (.var 1) (.abs (.abs (.var 2)))) (.var 1))))

end LC.Gen.StumpFu
