/- GENERATED on every run from the compiled crate by `harness dump-consts` (DESIGN §3.1).
   Source: /repo/src/data/list/scott.rs.  Do not edit. -/
import LC.Model.Term

namespace LC.Gen.SList
open LC

def nil : Term := (.abs (.abs (.var 2)))

def is_nil : Term := (.abs (.app (.app (.var 1) (.abs (.abs (.var 2)))) (.abs (.abs (.abs (.abs (.var 1)))))))

def cons : Term := (.abs (.abs (.abs (.abs (.app (.app (.var 1) (.var 4)) (.var 3))))))

def head : Term := (.abs (.app (.app (.var 1) (.var 0)) (.abs (.abs (.var 2)))))

def tail : Term := (.abs (.app (.app (.var 1) (.var 0)) (.abs (.abs (.var 1)))))

end LC.Gen.SList
