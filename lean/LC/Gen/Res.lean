/- GENERATED on every run from the compiled crate by `harness dump-consts` (DESIGN §3.1).
   Source: /repo/src/data/result.rs.  Do not edit. -/
import LC.Model.Term

namespace LC.Gen.Res
open LC

def ok : Term := (.abs (.abs (.abs (.app (.var 2) (.var 3)))))

def err : Term := (.abs (.abs (.abs (.app (.var 1) (.var 3)))))

def is_ok : Term := (.abs (.app (.app (.var 1) (.abs (.abs (.abs (.var 2))))) (.abs (.abs (.abs (.var 1))))))

def is_err : Term := (.abs (.app (.app (.var 1) (.abs (.abs (.abs (.var 1))))) (.abs (.abs (.abs (.var 2))))))

def option_ok : Term := (.abs (.app (.app (.var 1) (.abs (.abs (.abs (.app (.var 1) (.var 3)))))) (.abs (.abs (.abs (.var 2))))))

def option_err : Term := (.abs (.app (.app (.var 1) (.abs (.abs (.abs (.var 2))))) (.abs (.abs (.abs (.app (.var 1) (.var 3)))))))

def unwrap_or : Term := (.abs (.abs (.app (.app (.var 1) (.abs (.var 1))) (.abs (.var 3)))))

def map : Term := (.abs (.abs (.app (.app (.var 1) (.abs (.app (.abs (.abs (.abs (.app (.var 2) (.var 3))))) (.app (.var 3) (.var 1))))) (.abs (.abs (.abs (.app (.var 1) (.var 3))))))))

def map_err : Term := (.abs (.abs (.app (.app (.var 1) (.abs (.abs (.abs (.app (.var 2) (.var 3)))))) (.abs (.app (.abs (.abs (.abs (.app (.var 1) (.var 3))))) (.app (.var 3) (.var 1)))))))

def and_then : Term := (.abs (.abs (.app (.app (.var 2) (.var 1)) (.abs (.abs (.abs (.app (.var 1) (.var 3))))))))

end LC.Gen.Res
