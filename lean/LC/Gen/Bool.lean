/- GENERATED on every run from the compiled crate by `harness dump-consts` (DESIGN §3.1).
   Source: /repo/src/data/boolean.rs.  Do not edit. -/
import LC.Model.Term

namespace LC.Gen.Bool
open LC

def tru : Term := (.abs (.abs (.var 2)))

def fls : Term := (.abs (.abs (.var 1)))

def and : Term := (.abs (.abs (.app (.app (.var 2) (.var 1)) (.var 2))))

def or : Term := (.abs (.abs (.app (.app (.var 2) (.var 2)) (.var 1))))

def not : Term := (.abs (.app (.app (.var 1) (.abs (.abs (.var 1)))) (.abs (.abs (.var 2)))))

def xor : Term := (.abs (.abs (.app (.app (.var 2) (.app (.abs (.app (.app (.var 1) (.abs (.abs (.var 1)))) (.abs (.abs (.var 2))))) (.var 1))) (.var 1))))

def nor : Term := (.abs (.abs (.app (.app (.app (.app (.var 2) (.var 2)) (.var 1)) (.abs (.abs (.var 1)))) (.abs (.abs (.var 2))))))

def xnor : Term := (.abs (.abs (.app (.app (.var 2) (.var 1)) (.app (.abs (.app (.app (.var 1) (.abs (.abs (.var 1)))) (.abs (.abs (.var 2))))) (.var 1)))))

def nand : Term := (.abs (.abs (.app (.app (.app (.app (.var 2) (.var 1)) (.var 2)) (.abs (.abs (.var 1)))) (.abs (.abs (.var 2))))))

def if_else : Term := (.abs (.abs (.abs (.app (.app (.var 3) (.var 2)) (.var 1)))))

def imply : Term := (.abs (.abs (.app (.app (.abs (.abs (.app (.app (.var 2) (.var 2)) (.var 1)))) (.app (.abs (.app (.app (.var 1) (.abs (.abs (.var 1)))) (.abs (.abs (.var 2))))) (.var 2))) (.var 1))))

end LC.Gen.Bool
