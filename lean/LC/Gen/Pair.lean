/- GENERATED on every run from the compiled crate by `harness dump-consts` (DESIGN §3.1).
   Source: /repo/src/data/pair.rs.  Do not edit. -/
import LC.Model.Term

namespace LC.Gen.Pair
open LC

def pair : Term := (.abs (.abs (.abs (.app (.app (.var 1) (.var 3)) (.var 2)))))

def fst : Term := (.abs (.app (.var 1) (.abs (.abs (.var 2)))))

def snd : Term := (.abs (.app (.var 1) (.abs (.abs (.var 1)))))

def uncurry : Term := (.abs (.abs (.app (.app (.var 2) (.app (.abs (.app (.var 1) (.abs (.abs (.var 2))))) (.var 1))) (.app (.abs (.app (.var 1) (.abs (.abs (.var 1))))) (.var 1)))))

def curry : Term := (.abs (.abs (.abs (.app (.var 3) (.app (.app (.abs (.abs (.abs (.app (.app (.var 1) (.var 3)) (.var 2))))) (.var 2)) (.var 1))))))

def swap : Term := (.abs (.app (.app (.abs (.abs (.abs (.app (.app (.var 1) (.var 3)) (.var 2))))) (.app (.abs (.app (.var 1) (.abs (.abs (.var 1))))) (.var 1))) (.app (.abs (.app (.var 1) (.abs (.abs (.var 2))))) (.var 1))))

end LC.Gen.Pair
