/- GENERATED on every run from the compiled crate by `harness dump-consts` (DESIGN §3.1).
   Source: /repo/src/data/list/church.rs.  Do not edit. -/
import LC.Model.Term

namespace LC.Gen.CList
open LC

def nil : Term := (.abs (.abs (.var 2)))

def is_nil : Term := (.abs (.app (.app (.var 1) (.abs (.abs (.var 2)))) (.abs (.abs (.abs (.abs (.var 1)))))))

def cons : Term := (.abs (.abs (.abs (.abs (.app (.app (.var 1) (.var 4)) (.app (.app (.app (.abs (.var 1)) (.var 3)) (.var 2)) (.var 1)))))))

def head : Term := (.abs (.app (.app (.var 1) (.var 0)) (.abs (.abs (.var 2)))))

def tail : Term := (.abs (.app (.abs (.app (.var 1) (.abs (.abs (.var 2))))) (.app (.app (.var 1) (.app (.app (.abs (.abs (.abs (.app (.app (.var 1) (.var 3)) (.var 2))))) (.var 0)) (.abs (.abs (.var 2))))) (.abs (.abs (.app (.app (.abs (.abs (.abs (.app (.app (.var 1) (.var 3)) (.var 2))))) (.app (.abs (.app (.var 1) (.abs (.abs (.var 1))))) (.var 1))) (.app (.app (.abs (.abs (.abs (.abs (.app (.app (.var 1) (.var 4)) (.app (.app (.app (.abs (.var 1)) (.var 3)) (.var 2)) (.var 1))))))) (.var 2)) (.app (.abs (.app (.var 1) (.abs (.abs (.var 1))))) (.var 1)))))))))

end LC.Gen.CList
