/- GENERATED on every run from the compiled crate by `harness dump-consts` (DESIGN §3.1).
   Source: /repo/src/data/num/scott.rs.  Do not edit. -/
import LC.Model.Term

namespace LC.Gen.Scott
open LC

def zero : Term := (.abs (.abs (.var 2)))

def is_zero : Term := (.abs (.app (.app (.var 1) (.abs (.abs (.var 2)))) (.abs (.abs (.abs (.var 1))))))

def one : Term := (.abs (.abs (.app (.var 1) (.abs (.abs (.var 2))))))

def succ : Term := (.abs (.abs (.abs (.app (.var 1) (.var 3)))))

def pred : Term := (.abs (.app (.app (.var 1) (.abs (.abs (.var 2)))) (.abs (.var 1))))

def add : Term := (.app (.abs (.app (.abs (.app (.var 2) (.abs (.app (.app (.var 2) (.var 2)) (.var 1))))) (.abs (.app (.var 2) (.abs (.app (.app (.var 2) (.var 2)) (.var 1))))))) (.abs (.abs (.abs (.app (.app (.var 2) (.var 1)) (.abs (.app (.abs (.abs (.abs (.app (.var 1) (.var 3))))) (.app (.app (.var 4) (.var 1)) (.var 2)))))))))

def mul : Term := (.app (.abs (.app (.abs (.app (.var 2) (.abs (.app (.app (.var 2) (.var 2)) (.var 1))))) (.abs (.app (.var 2) (.abs (.app (.app (.var 2) (.var 2)) (.var 1))))))) (.abs (.abs (.abs (.app (.app (.var 2) (.abs (.abs (.var 2)))) (.abs (.app (.app (.app (.abs (.app (.abs (.app (.var 2) (.abs (.app (.app (.var 2) (.var 2)) (.var 1))))) (.abs (.app (.var 2) (.abs (.app (.app (.var 2) (.var 2)) (.var 1))))))) (.abs (.abs (.abs (.app (.app (.var 2) (.var 1)) (.abs (.app (.abs (.abs (.abs (.app (.var 1) (.var 3))))) (.app (.app (.var 4) (.var 1)) (.var 2))))))))) (.var 2)) (.app (.app (.var 4) (.var 1)) (.var 2)))))))))

def pow : Term := (.app (.abs (.app (.abs (.app (.var 2) (.abs (.app (.app (.var 2) (.var 2)) (.var 1))))) (.abs (.app (.var 2) (.abs (.app (.app (.var 2) (.var 2)) (.var 1))))))) (.abs (.abs (.abs (.app (.app (.var 1) (.abs (.abs (.app (.var 1) (.abs (.abs (.var 2))))))) (.abs (.app (.app (.app (.abs (.app (.abs (.app (.var 2) (.abs (.app (.app (.var 2) (.var 2)) (.var 1))))) (.abs (.app (.var 2) (.abs (.app (.app (.var 2) (.var 2)) (.var 1))))))) (.abs (.abs (.abs (.app (.app (.var 2) (.abs (.abs (.var 2)))) (.abs (.app (.app (.app (.abs (.app (.abs (.app (.var 2) (.abs (.app (.app (.var 2) (.var 2)) (.var 1))))) (.abs (.app (.var 2) (.abs (.app (.app (.var 2) (.var 2)) (.var 1))))))) (.abs (.abs (.abs (.app (.app (.var 2) (.var 1)) (.abs (.app (.abs (.abs (.abs (.app (.var 1) (.var 3))))) (.app (.app (.var 4) (.var 1)) (.var 2))))))))) (.var 2)) (.app (.app (.var 4) (.var 1)) (.var 2))))))))) (.var 3)) (.app (.app (.var 4) (.var 3)) (.var 1)))))))))

def to_church : Term := (.abs (.abs (.abs (.app (.app (.app (.app (.abs (.app (.abs (.app (.var 2) (.abs (.app (.app (.var 2) (.var 2)) (.var 1))))) (.abs (.app (.var 2) (.abs (.app (.app (.var 2) (.var 2)) (.var 1))))))) (.abs (.abs (.abs (.abs (.app (.app (.var 1) (.var 2)) (.abs (.app (.var 4) (.app (.app (.app (.var 5) (.var 4)) (.var 3)) (.var 1)))))))))) (.var 2)) (.var 1)) (.var 3)))))

end LC.Gen.Scott
