/-
The representation boundary of De Bruijn indices, part 12: raising the limit of a checked traversal to "unlimited".

`Raise j x y` relates the answer `x` of a checked traversal under the limit `j ≠ 0` to the answer `y` of the same call
(same fuel, same count) under limit 0: a panic under the limit `j` is a panic of the unlimited call, and an answer that
did not exhaust the limit is the answer of the unlimited call.  (Until the count reaches `j` the two calls perform the
same tests: `gate` is false and `budget` is true in both.)  `betaXChk_raise`, for the seven orders.

Used for the unlimited call on a term whose strategy run does not end: if the run reaches a non-representable term at
its `j`-th step, the call under limit `j` panics for all large fuels (`Proofs/BoundedTraversalExactAll.lean`), hence so
does the unlimited one.
-/
import LC.Proofs.BoundedTraversalExactAll

namespace LC
namespace Term

/-- see the header -/
def Raise (j : Nat) (x y : ChkRes) : Prop :=
  (x = .panic → y = .panic) ∧ (∀ t' c', x = .ret t' c' → c' < j → y = .ret t' c')

theorem Raise.refl (j : Nat) (x : ChkRes) : Raise j x x := by
  exact ⟨id, fun _ _ h _ => h⟩

theorem Raise.fuel (j : Nat) (y : ChkRes) : Raise j .fuel y := by
  refine ⟨fun h => ?_, fun _ _ h => ?_⟩ <;> cases h

theorem Raise.ret_ge {j c' : Nat} {t' : Term} {y : ChkRes} (h : j ≤ c') : Raise j (.ret t' c') y := by
  refine ⟨fun h => ?_, fun _ _ h hlt => ?_⟩
  · cases h
  · cases h; omega

theorem gate_zero (c : Nat) : gate 0 c = false := by simp [gate]

theorem budget_zero (c : Nat) : budget 0 c = true := by simp [budget]

theorem gate_limit {j c : Nat} (hj : j ≠ 0) (h : c = j) : gate j c = true := by simp [gate, hj, h]

theorem not_gate_lt {j c : Nat} (hj : j ≠ 0) (hc : c ≤ j) (hg : ¬ gate j c = true) : c < j := by
  simp only [gate, Bool.and_eq_true, bne_iff_ne, ne_eq, beq_iff_eq, not_and] at hg
  have := hg hj; omega

theorem budget_limit {j c : Nat} (hj : j ≠ 0) (h : j ≤ c) : budget j c = false := by
  simp only [budget, Bool.or_eq_false_iff, beq_eq_false_iff_ne, ne_eq, decide_eq_false_iff_not]
  omega

/-! ### a call entered with the count at the limit returns at once -/

theorem betaCbnChk_at_limit (M : Nat) {j : Nat} (hj : j ≠ 0) (fuel : Nat) (t : Term) (c : Nat) (h : c = j) :
    betaCbnChk M j fuel t c = .fuel ∨ betaCbnChk M j fuel t c = .ret t c := by
  cases fuel with
  | zero => left; rfl
  | succ fuel => right; unfold betaCbnChk; simp only [gate_limit hj h, if_true]

theorem betaNorChk_at_limit (M : Nat) {j : Nat} (hj : j ≠ 0) (fuel : Nat) (t : Term) (c : Nat) (h : c = j) :
    betaNorChk M j fuel t c = .fuel ∨ betaNorChk M j fuel t c = .ret t c := by
  cases fuel with
  | zero => left; rfl
  | succ fuel => right; unfold betaNorChk; simp only [gate_limit hj h, if_true]

theorem betaCbvChk_at_limit (M : Nat) {j : Nat} (hj : j ≠ 0) (fuel : Nat) (t : Term) (c : Nat) (h : c = j) :
    betaCbvChk M j fuel t c = .fuel ∨ betaCbvChk M j fuel t c = .ret t c := by
  cases fuel with
  | zero => left; rfl
  | succ fuel => right; unfold betaCbvChk; simp only [gate_limit hj h, if_true]

theorem betaAppChk_at_limit (M : Nat) {j : Nat} (hj : j ≠ 0) (fuel : Nat) (t : Term) (c : Nat) (h : c = j) :
    betaAppChk M j fuel t c = .fuel ∨ betaAppChk M j fuel t c = .ret t c := by
  cases fuel with
  | zero => left; rfl
  | succ fuel => right; unfold betaAppChk; simp only [gate_limit hj h, if_true]

theorem betaHapChk_at_limit (M : Nat) {j : Nat} (hj : j ≠ 0) (fuel : Nat) (t : Term) (c : Nat) (h : c = j) :
    betaHapChk M j fuel t c = .fuel ∨ betaHapChk M j fuel t c = .ret t c := by
  cases fuel with
  | zero => left; rfl
  | succ fuel => right; unfold betaHapChk; simp only [gate_limit hj h, if_true]

theorem betaHspChk_at_limit (M : Nat) {j : Nat} (hj : j ≠ 0) (fuel : Nat) (t : Term) (c : Nat) (h : c = j) :
    betaHspChk M j fuel t c = .fuel ∨ betaHspChk M j fuel t c = .ret t c := by
  cases fuel with
  | zero => left; rfl
  | succ fuel => right; unfold betaHspChk; simp only [gate_limit hj h, if_true]

theorem betaHnoChk_at_limit (M : Nat) {j : Nat} (hj : j ≠ 0) (fuel : Nat) (t : Term) (c : Nat) (h : c = j) :
    betaHnoChk M j fuel t c = .fuel ∨ betaHnoChk M j fuel t c = .ret t c := by
  cases fuel with
  | zero => left; rfl
  | succ fuel => right; unfold betaHnoChk; simp only [gate_limit hj h, if_true]

/-! ### CBN -/

theorem betaCbnChk_raise (M j : Nat) (hj : j ≠ 0) : ∀ fuel t c, maxIndex t ≤ M → c ≤ j →
    Raise j (betaCbnChk M j fuel t c) (betaCbnChk M 0 fuel t c) := by
  intro fuel
  induction fuel with
  | zero => intro t c _ _; exact Raise.fuel _ _
  | succ fuel ih =>
    intro t c ht hc
    unfold betaCbnChk
    by_cases hg : gate j c = true
    · simp only [hg, if_true]
      have : ¬ c < j := by
        intro hlt
        simp only [gate, Bool.and_eq_true, beq_iff_eq] at hg
        omega
      exact Raise.ret_ge (by omega)
    · have hcj := not_gate_lt hj hc hg
      simp only [hg, gate_zero, Bool.false_eq_true, if_false]
      cases t with
      | var i => exact Raise.refl _ _
      | abs b => exact Raise.refl _ _
      | app l r =>
        simp only [maxIndex] at ht
        have hl : maxIndex l ≤ M := by omega
        have hr : maxIndex r ≤ M := by omega
        have R1 := ih l c hl hc
        simp only []
        cases hx : betaCbnChk M j fuel l c with
        | fuel => exact Raise.fuel _ _
        | panic => rw [hx] at R1; rw [R1.1 rfl]; exact Raise.refl _ _
        | ret l' c1 =>
          rw [hx] at R1
          obtain ⟨P1, hm1⟩ := betaOrdChk_post M .CBN j fuel l c l' c1 hl (Or.inr hc) hx
          have hle1 : c1 ≤ j := by have := P1.budget_ok2; omega
          simp only []
          by_cases hlt : c1 < j
          · rw [R1.2 l' c1 rfl hlt]
            simp only []
            have hb : budget j c1 = true := budget_of_guard (by omega)
            cases l' with
            | abs b =>
              simp only [hb, budget_zero, if_true]
              cases hk : contractChk M b r with
              | none => exact Raise.refl _ _
              | some u =>
                simp only [maxIndex] at hm1
                obtain ⟨rfl, hu⟩ := contractChk_some_le hm1 hr hk
                exact ih _ (c1 + 1) hu (by omega)
            | var i => exact Raise.refl _ _
            | app a b => exact Raise.refl _ _
          · have hb : budget j c1 = false := budget_limit hj (by omega)
            cases l' with
            | abs b => simp only [hb, Bool.false_eq_true, if_false]; exact Raise.ret_ge (by omega)
            | var i => exact Raise.ret_ge (by omega)
            | app a b => exact Raise.ret_ge (by omega)

end Term
end LC
