/-
Normalisation consequences of the standardisation theorem:
* the shape predicates `isNormal` / `isWHNF` characterise the terms on which `stepNor` / `stepCbn`
  select nothing, and `isNormal` agrees with the relational `Normal`;
* the leftmost reduction theorem: `stepNor` reaches every existing β-normal form;
* `stepCbn` terminates whenever a weak head normal form is reachable by β-reduction.
-/
import LC.Proofs.Standard
import LC.Spec.NormalForms
import LC.Proofs.Refine.Nor

namespace LC
open Term Spec

/-! ### normal-form predicates -/

theorem normal_of_isNormal {t : Term} (h : isNormal t = true) : Normal t := by
  intro u hb
  induction hb with
  | red b a => simp [isNormal, isAbs] at h
  | congAbs _ ih => exact ih (by simpa [isNormal] using h)
  | congAppL _ ih => simp [isNormal] at h; exact ih h.1.2
  | congAppR _ ih => simp [isNormal] at h; exact ih h.2

theorem isNormal_of_normal {t : Term} (h : Normal t) : isNormal t = true := by
  induction t with
  | var i => rfl
  | abs b ih =>
    simp only [isNormal]
    exact ih (fun u hu => h _ (Beta.congAbs hu))
  | app l r ihl ihr =>
    have h1 : isAbs l = false := by
      cases l with
      | abs b => exact absurd (Beta.red b r) (h _)
      | var i => rfl
      | app _ _ => rfl
    have h2 := ihl (fun u hu => h _ (Beta.congAppL hu))
    have h3 := ihr (fun u hu => h _ (Beta.congAppR hu))
    simp [isNormal, h1, h2, h3]

/-- shape predicate agrees with the relational definition -/
theorem isNormal_iff_normal (t : Term) : isNormal t = true ↔ Normal t :=
  ⟨normal_of_isNormal, isNormal_of_normal⟩

theorem stepNor_none_iff (t : Term) : stepNor t = none ↔ isNormal t = true := by
  induction t with
  | var i => simp [stepNor, isNormal]
  | abs b ih => simp [stepNor, isNormal, ih]
  | app l r ihl ihr =>
    cases l with
    | var i => simp [stepNor, isNormal, isAbs, ← ihr]
    | abs b => simp [stepNor, isNormal, isAbs]
    | app l1 l2 =>
      simp only [stepNor]
      cases hl : stepNor (app l1 l2) with
      | some l' =>
        have : ¬ isNormal (app l1 l2) = true := fun hh => by rw [ihl.2 hh] at hl; cases hl
        simp [isNormal, isAbs] at this ⊢
        intro h1 h2 h3
        exact absurd h3 (by simpa using this h1 h2)
      | none =>
        have := ihl.1 hl
        simp only [isNormal, isAbs] at this ⊢
        simp [this, ← ihr]

theorem neutral_stepCbn_none {t : Term} (h : neutral t = true) : stepCbn t = none := by
  induction t with
  | var i => rfl
  | abs b => simp [neutral] at h
  | app l r ihl _ =>
    cases l with
    | var i => rfl
    | abs b => simp [neutral] at h
    | app l1 l2 => simp [stepCbn]; exact ihl (by simpa [neutral] using h)

theorem stepCbn_none_iff (t : Term) : stepCbn t = none ↔ isWHNF t = true := by
  cases t with
  | var i => simp [stepCbn, isWHNF, neutral]
  | abs b => simp [stepCbn, isWHNF]
  | app l r =>
    constructor
    · intro h; exact neutral_of_cbn_nf h rfl
    · intro h; exact neutral_stepCbn_none (by simpa [isWHNF] using h)

/-! ### lifting runs -/

theorem Term.Iter.cbn_nor {k : Nat} {t u : Term} (h : Iter stepCbn k t u) : Iter stepNor k t u := by
  induction h with
  | zero t => exact Iter.zero _
  | succ hs _ ih => exact Iter.succ (stepCbn_stepNor hs) ih

theorem Spec.WS.iter_nor {t u : Term} (h : WS t u) : ∃ k, Iter stepNor k t u := by
  obtain ⟨k, hk⟩ := (WS_iff_iter t u).1 h
  exact ⟨k, hk.cbn_nor⟩

/-- `stepNor` never removes an outermost abstraction -/
theorem Term.Iter.nor_abs_isAbs {k : Nat} {t u : Term} (h : Iter stepNor k t u) (ha : isAbs t = true) :
    isAbs u = true := by
  induction h with
  | zero t => exact ha
  | @succ k t u v hs _ ih =>
    apply ih
    cases t with
    | var i => simp [isAbs] at ha
    | app _ _ => simp [isAbs] at ha
    | abs b => simp [stepNor] at hs; obtain ⟨a, _, rfl⟩ := hs; rfl

/-- a `stepNor` run of the operator that does not end in an abstraction is a `stepNor` run of
the application -/
theorem Term.Iter.nor_app_left' {k : Nat} {l l' : Term} (r : Term) (h : Iter stepNor k l l')
    (hna : isAbs l' = false) : Iter stepNor k (app l r) (app l' r) := by
  induction h with
  | zero t => exact Iter.zero _
  | @succ k t u v hs hi ih =>
    have ht : isAbs t = false := by
      cases hta : isAbs t with
      | false => rfl
      | true =>
        have := (Iter.succ hs hi).nor_abs_isAbs hta
        rw [hna] at this; cases this
    exact Iter.succ (stepNor_app_left r ht hs) (ih hna)

/-! ### the leftmost reduction theorem -/

theorem Spec.Std.nor_normalises {t n : Term} (h : Std t n) (hn : isNormal n = true) :
    ∃ k, Iter stepNor k t n := by
  induction h with
  | var hw => exact hw.iter_nor
  | @abs L A B hw _ ih =>
    obtain ⟨k1, h1⟩ := hw.iter_nor
    obtain ⟨k2, h2⟩ := ih (by simpa [isNormal] using hn)
    exact ⟨k1 + k2, h1.trans h2.nor_abs⟩
  | @app L A B C D hw _ _ iha ihb =>
    simp [isNormal] at hn
    obtain ⟨⟨hC1, hC2⟩, hD⟩ := hn
    obtain ⟨k1, h1⟩ := hw.iter_nor
    obtain ⟨k2, h2⟩ := iha hC2
    obtain ⟨k3, h3⟩ := ihb hD
    have h2' := Iter.nor_app_left' B h2 hC1
    have h3' := Iter.nor_app_right C hC1 ((stepNor_none_iff C).2 hC2) h3
    exact ⟨k1 + k2 + k3, (h1.trans h2').trans h3'⟩

/-- leftmost reduction theorem: NOR reaches every existing normal form -/
theorem nor_normalises {t n : Term} (h : Star t n) (hn : Normal n) : ∃ k, Iter stepNor k t n :=
  (standardisation h).nor_normalises ((isNormal_iff_normal n).2 hn)

/-! ### call-by-name -/

/-- a standard reduction to a neutral term starts with a `stepCbn` run to a neutral term -/
theorem Spec.Std.cbn_neutral {t w : Term} (h : Std t w) (hw : neutral w = true) :
    ∃ k t', Iter stepCbn k t t' ∧ neutral t' = true ∧ Std t' w := by
  induction h with
  | @var L x h =>
    obtain ⟨k, hk⟩ := (WS_iff_iter _ _).1 h
    exact ⟨k, _, hk, rfl, Std.refl _⟩
  | abs _ _ _ => simp [neutral] at hw
  | @app L A B C D h ha hb iha _ =>
    obtain ⟨k1, h1⟩ := (WS_iff_iter _ _).1 h
    obtain ⟨k2, A', h2, hA', hs⟩ := iha (by simpa [neutral] using hw)
    exact ⟨k1 + k2, Term.app A' B, h1.trans (Iter.cbn_app B h2), by simpa [neutral] using hA',
      Std.app (WS.refl _) hs hb⟩

/-- CBN terminates whenever a weak head normal form is reachable -/
theorem cbn_terminates {t w : Term} (h : Star t w) (hw : isWHNF w = true) :
    ∃ k w', Iter stepCbn k t w' ∧ stepCbn w' = none := by
  have hs := standardisation h
  by_cases hn : neutral w = true
  · obtain ⟨k, t', h1, h2, _⟩ := hs.cbn_neutral hn
    exact ⟨k, t', h1, neutral_stepCbn_none h2⟩
  · cases hs with
    | var _ => simp [neutral] at hn
    | app _ _ _ => simp [isWHNF] at hw; exact absurd hw hn
    | abs h1 _ =>
      obtain ⟨k, hk⟩ := (WS_iff_iter _ _).1 h1
      exact ⟨k, _, hk, rfl⟩

end LC
