/-
A NAMED λ-calculus (names = naturals, plus the inert placeholder `ud`), its translation `toDB` to the crate's
1-based De Bruijn terms under a context of binder names, free / bound names, NAIVE substitution `nsubst`,
CAPTURE-AVOIDING substitution `csubst` (renames a binder that would capture a free name of the argument to a
fresh name), and the lemmas behind the adequacy theorem of `LC/Props/C02Named.lean`:

    toDB Γ (csubst M x N) = substTop (toDB (x :: Γ) M) (toDB Γ N).

Everything here is specification-side; nothing of the model is changed.
-/
import LC.Spec.Beta
import LC.Proofs.SubstTop

namespace LC
namespace Named
open Spec

/-- named λ-terms; `ud` is the crate's placeholder `Var(0)` (a constant) -/
inductive NTerm where
  | var (x : Nat)
  | ud
  | lam (x : Nat) (b : NTerm)
  | app (l r : NTerm)
deriving DecidableEq, Repr, Inhabited

/-- De Bruijn index of the name `x` under the binder context `Γ` (innermost binder first): position of the FIRST
occurrence of `x` in `Γ`, plus one; a name that is not bound by `Γ` is the outer reference `Γ.length + x + 1`, so
distinct free names are distinct outer references. -/
def ix (Γ : List Nat) (x : Nat) : Nat :=
  if x ∈ Γ then Γ.idxOf x + 1 else Γ.length + x + 1

/-- translation to De Bruijn terms under the context `Γ` -/
def toDB (Γ : List Nat) : NTerm → Term
  | .var x => Term.var (ix Γ x)
  | .ud => Term.var 0
  | .lam x b => Term.abs (toDB (x :: Γ) b)
  | .app l r => Term.app (toDB Γ l) (toDB Γ r)

/-- free names -/
def fv : NTerm → List Nat
  | .var x => [x]
  | .ud => []
  | .lam x b => (fv b).filter (fun v => v ≠ x)
  | .app l r => fv l ++ fv r

/-- names of binders -/
def bv : NTerm → List Nat
  | .var _ => []
  | .ud => []
  | .lam x b => x :: bv b
  | .app l r => bv l ++ bv r

/-- number of constructors -/
def size : NTerm → Nat
  | .var _ => 1
  | .ud => 1
  | .lam _ b => size b + 1
  | .app l r => size l + size r + 1

/-- largest name occurring anywhere (free, bound or binding) -/
def maxName : NTerm → Nat
  | .var x => x
  | .ud => 0
  | .lam x b => max x (maxName b)
  | .app l r => max (maxName l) (maxName r)

/-- NAIVE substitution `M[x := N]`: stops at a binder of `x`, otherwise goes under binders without renaming
(so it may capture free names of `N`) -/
def nsubst : NTerm → Nat → NTerm → NTerm
  | .var y, x, N => if y = x then N else .var y
  | .ud, _, _ => .ud
  | .lam y b, x, N => if y = x then .lam y b else .lam y (nsubst b x N)
  | .app l r, x, N => .app (nsubst l x N) (nsubst r x N)

/-- the fresh name used when the binder around `b` has to be renamed during `…[x := N]` -/
def fresh (x : Nat) (N b : NTerm) : Nat := max x (max (maxName N) (maxName b)) + 1

/-- capture-avoiding substitution with fuel (the renamed body has the same size, so `size M` is enough fuel) -/
def csubstF : Nat → NTerm → Nat → NTerm → NTerm
  | 0, M, _, _ => M
  | _ + 1, .var y, x, N => if y = x then N else .var y
  | _ + 1, .ud, _, _ => .ud
  | f + 1, .lam y b, x, N =>
    if y = x then .lam y b
    else if y ∈ fv N then
      .lam (fresh x N b) (csubstF f (nsubst b y (.var (fresh x N b))) x N)
    else .lam y (csubstF f b x N)
  | f + 1, .app l r, x, N => .app (csubstF f l x N) (csubstF f r x N)

/-- CAPTURE-AVOIDING substitution `M[x := N]` -/
def csubst (M : NTerm) (x : Nat) (N : NTerm) : NTerm := csubstF (size M) M x N

/-! ### `ix` -/

theorem ix_nil (x : Nat) : ix [] x = x + 1 := by simp [ix]

theorem ix_cons (y : Nat) (Γ : List Nat) (x : Nat) :
    ix (y :: Γ) x = if x = y then 1 else ix Γ x + 1 := by
  unfold ix
  by_cases h : x = y
  · subst h; simp
  · have h' : (y == x) = false := by simp; exact fun e => h e.symm
    by_cases hm : x ∈ Γ <;> simp [List.idxOf_cons, h, h', hm]
    omega

theorem ix_pos (Γ : List Nat) (x : Nat) : 1 ≤ ix Γ x := by
  unfold ix; split <;> omega

theorem ix_not_mem {Γ : List Nat} {x : Nat} (h : x ∉ Γ) : ix Γ x = Γ.length + x + 1 := by
  simp [ix, h]

theorem ix_le_of_mem {Θ : List Nat} {x : Nat} (h : x ∈ Θ) : ix Θ x ≤ Θ.length := by
  have := List.idxOf_lt_length_iff.mpr h
  simp only [ix, h, if_true]; omega

theorem ix_append_mem {Θ : List Nat} {x : Nat} (h : x ∈ Θ) (Γ : List Nat) : ix (Θ ++ Γ) x = ix Θ x := by
  induction Θ with
  | nil => simp at h
  | cons y Θ ih =>
    rw [List.cons_append, ix_cons, ix_cons]
    by_cases e : x = y
    · simp [e]
    · have : x ∈ Θ := by simpa [e] using h
      simp [e, ih this]

theorem ix_append_not_mem {Θ : List Nat} {x : Nat} (h : x ∉ Θ) (Γ : List Nat) :
    ix (Θ ++ Γ) x = Θ.length + ix Γ x := by
  induction Θ with
  | nil => simp
  | cons y Θ ih =>
    have e : ¬ x = y := by intro e; exact h (by simp [e])
    have hm : x ∉ Θ := by intro hm; exact h (by simp [hm])
    rw [List.cons_append, ix_cons, if_neg e, ih hm, List.length_cons]; omega

theorem ix_nodup_getElem {Γ : List Nat} (hn : Γ.Nodup) (k : Nat) (hk : k < Γ.length) : ix Γ Γ[k] = k + 1 := by
  induction Γ generalizing k with
  | nil => simp at hk
  | cons y Γ ih =>
    obtain ⟨hy, hn'⟩ := List.nodup_cons.mp hn
    rw [ix_cons]
    cases k with
    | zero => simp
    | succ k =>
      have hk' : k < Γ.length := by simpa using hk
      have hne : ¬ Γ[k] = y := by intro e; exact hy (e ▸ List.getElem_mem hk')
      simp [hne, ih hn' k hk']

/-! ### free and bound names -/

theorem mem_fv_lam {v x : Nat} {b : NTerm} : v ∈ fv (.lam x b) ↔ v ∈ fv b ∧ v ≠ x := by
  simp [fv, List.mem_filter]

theorem fv_le_maxName {v : Nat} {M : NTerm} (h : v ∈ fv M) : v ≤ maxName M := by
  induction M with
  | var x => simp [fv] at h; simp [maxName, h]
  | ud => simp [fv] at h
  | lam x b ih => have := ih (mem_fv_lam.mp h).1; simp only [maxName]; omega
  | app l r ihl ihr =>
    simp only [fv, List.mem_append] at h
    simp only [maxName]
    cases h with
    | inl h => have := ihl h; omega
    | inr h => have := ihr h; omega

theorem bv_le_maxName {v : Nat} {M : NTerm} (h : v ∈ bv M) : v ≤ maxName M := by
  induction M with
  | var x => simp [bv] at h
  | ud => simp [bv] at h
  | lam x b ih =>
    simp only [bv, List.mem_cons] at h
    simp only [maxName]
    cases h with
    | inl h => omega
    | inr h => have := ih h; omega
  | app l r ihl ihr =>
    simp only [bv, List.mem_append] at h
    simp only [maxName]
    cases h with
    | inl h => have := ihl h; omega
    | inr h => have := ihr h; omega

theorem fresh_ne (x : Nat) (N b : NTerm) : fresh x N b ≠ x := by unfold fresh; omega

theorem fresh_not_fv_arg (x : Nat) (N b : NTerm) : fresh x N b ∉ fv N := by
  intro h; have := fv_le_maxName h; unfold fresh at this; omega

theorem fresh_not_fv_body (x : Nat) (N b : NTerm) : fresh x N b ∉ fv b := by
  intro h; have := fv_le_maxName h; unfold fresh at this; omega

theorem fresh_not_bv_body (x : Nat) (N b : NTerm) : fresh x N b ∉ bv b := by
  intro h; have := bv_le_maxName h; unfold fresh at this; omega

theorem size_pos (M : NTerm) : 1 ≤ size M := by cases M <;> simp [size]

theorem size_rename (b : NTerm) (y z : Nat) : size (nsubst b y (.var z)) = size b := by
  induction b with
  | var v => simp only [nsubst]; split <;> simp [size]
  | ud => simp [nsubst]
  | lam w b ih => simp only [nsubst]; split <;> simp [size, ih]
  | app l r ihl ihr => simp [nsubst, size, ihl, ihr]

/-! ### contexts: congruence, weakening, shadowing, renaming -/

/-- `toDB` only looks at the indices of the free names -/
theorem toDB_congr (M : NTerm) (Γ₁ Γ₂ : List Nat) (h : ∀ v ∈ fv M, ix Γ₁ v = ix Γ₂ v) :
    toDB Γ₁ M = toDB Γ₂ M := by
  induction M generalizing Γ₁ Γ₂ with
  | var x => simp [toDB, h x (by simp [fv])]
  | ud => simp [toDB]
  | lam x b ih =>
    simp only [toDB]; congr 1
    apply ih
    intro v hv
    rw [ix_cons, ix_cons]
    by_cases e : v = x
    · simp [e]
    · simp [e, h v (mem_fv_lam.mpr ⟨hv, e⟩)]
  | app l r ihl ihr =>
    simp only [toDB]
    rw [ihl _ _ (fun v hv => h v (by simp [fv, hv])), ihr _ _ (fun v hv => h v (by simp [fv, hv]))]

/-- weakening: inserting binders `Δ` that bind no free name of `N` (below the `Θ` already passed) raises exactly the
outer references by `Δ.length` -/
theorem toDB_weaken (N : NTerm) (Θ Δ Γ : List Nat) (h : ∀ v ∈ fv N, v ∉ Θ → v ∉ Δ) :
    toDB (Θ ++ (Δ ++ Γ)) N = Term.shiftFV Δ.length Θ.length (toDB (Θ ++ Γ) N) := by
  induction N generalizing Θ with
  | var x =>
    simp only [toDB, Term.shiftFV]
    by_cases hx : x ∈ Θ
    · have := ix_le_of_mem hx
      rw [ix_append_mem hx, ix_append_mem hx, if_neg (by omega)]
    · have hd : x ∉ Δ := h x (by simp [fv]) hx
      have := ix_pos Γ x
      rw [ix_append_not_mem hx, ix_append_not_mem hx, ix_append_not_mem hd, if_pos (by omega)]
      congr 1; omega
  | ud => simp [toDB, Term.shiftFV]
  | lam x b ih =>
    simp only [toDB, Term.shiftFV]; congr 1
    have := ih (x :: Θ) (by
      intro v hv hn
      have hvx : v ≠ x := by intro e; exact hn (by simp [e])
      have hvΘ : v ∉ Θ := by intro e; exact hn (by simp [e])
      exact h v (mem_fv_lam.mpr ⟨hv, hvx⟩) hvΘ)
    simpa using this
  | app l r ihl ihr =>
    simp only [toDB, Term.shiftFV]
    rw [ihl Θ (fun v hv => h v (by simp [fv, hv])), ihr Θ (fun v hv => h v (by simp [fv, hv]))]

/-- a binder `x` that is shadowed by an inner binder of the same name is never referred to: substituting for it just
removes it from the context -/
theorem toDB_shadow (a : Term) (M : NTerm) (x : Nat) (Δ Γ : List Nat) (hx : x ∈ Δ) :
    Term.applyAux a (Δ.length + 1) (toDB (Δ ++ x :: Γ) M) = toDB (Δ ++ Γ) M := by
  induction M generalizing Δ with
  | var y =>
    simp only [toDB, Term.applyAux]
    by_cases hy : y ∈ Δ
    · have := ix_le_of_mem hy
      rw [ix_append_mem hy, ix_append_mem hy, if_neg (by omega), if_neg (by omega)]
    · have hyx : ¬ y = x := by intro e; exact hy (e ▸ hx)
      have := ix_pos Γ y
      rw [ix_append_not_mem hy, ix_append_not_mem hy, ix_cons, if_neg hyx, if_neg (by omega), if_pos (by omega)]
      rfl
  | ud => simp [toDB, Term.applyAux]
  | lam y b ih =>
    simp only [toDB, Term.applyAux]; congr 1
    have := ih (y :: Δ) (by simp [hx])
    simpa using this
  | app l r ihl ihr => simp only [toDB, Term.applyAux]; rw [ihl Δ hx, ihr Δ hx]

/-- α-renaming: renaming the binder `y` to a name `z` that does not occur in the body (free or binding) does not
change the De Bruijn term -/
theorem toDB_rename (b : NTerm) (y z : Nat) (Θ' Θ : List Nat) (hy : y ∉ Θ') (hz : z ∉ Θ')
    (hzf : z ∉ fv b) (hzb : z ∉ bv b) :
    toDB (Θ' ++ z :: Θ) (nsubst b y (.var z)) = toDB (Θ' ++ y :: Θ) b := by
  induction b generalizing Θ' with
  | var v =>
    simp only [nsubst]
    by_cases e : v = y
    · subst e
      simp only [if_true, toDB]
      rw [ix_append_not_mem hz, ix_append_not_mem hy, ix_cons, ix_cons]; simp
    · have hvz : ¬ v = z := by intro e'; exact hzf (by simp [fv, e'])
      simp only [e, if_false, toDB]
      by_cases hv : v ∈ Θ'
      · rw [ix_append_mem hv, ix_append_mem hv]
      · rw [ix_append_not_mem hv, ix_append_not_mem hv, ix_cons, ix_cons, if_neg hvz, if_neg e]
  | ud => simp [nsubst, toDB]
  | lam w b ih =>
    simp only [nsubst]
    by_cases e : w = y
    · subst e
      simp only [if_true, toDB]; congr 1
      apply toDB_congr
      intro v hv
      have hvz : ¬ v = z := by
        intro e'; subst e'
        by_cases e'' : v = w
        · exact hzb (by simp [bv, e''])
        · exact hzf (mem_fv_lam.mpr ⟨hv, e''⟩)
      by_cases hm : v ∈ w :: Θ'
      · rw [← List.cons_append, ← List.cons_append, ix_append_mem hm, ix_append_mem hm]
      · have hvw : ¬ v = w := by intro e'; exact hm (by simp [e'])
        rw [← List.cons_append, ← List.cons_append, ix_append_not_mem hm, ix_append_not_mem hm,
          ix_cons, ix_cons, if_neg hvz, if_neg hvw]
    · have hwz : ¬ z = w := by intro e'; exact hzb (by simp [bv, e'])
      have hyw : ¬ y = w := fun e' => e e'.symm
      simp only [e, if_false, toDB]; congr 1
      have := ih (w :: Θ') (by simp [hy, hyw]) (by simp [hz, hwz])
        (by intro h; exact hzf (mem_fv_lam.mpr ⟨h, hwz⟩))
        (by intro h; exact hzb (by simp [bv, h]))
      simpa using this
  | app l r ihl ihr =>
    simp only [nsubst, toDB]
    rw [ihl Θ' hy hz (by intro h; exact hzf (by simp [fv, h])) (by intro h; exact hzb (by simp [bv, h])),
      ihr Θ' hy hz (by intro h; exact hzf (by simp [fv, h])) (by intro h; exact hzb (by simp [bv, h]))]

/-! ### the substitution lemmas -/

/-- the variable case, shared by the naive and the capture-avoiding statement -/
theorem applyAux_toDB_var (N : NTerm) (x y : Nat) (Δ Γ : List Nat) (hx : x ∉ Δ)
    (hN : ∀ v ∈ fv N, v ∉ Δ) :
    Term.applyAux (toDB Γ N) (Δ.length + 1) (Term.var (ix (Δ ++ x :: Γ) y))
      = toDB (Δ ++ Γ) (if y = x then N else .var y) := by
  simp only [Term.applyAux]
  by_cases e : y = x
  · subst e
    have h1 : ix (Δ ++ y :: Γ) y = Δ.length + 1 := by rw [ix_append_not_mem hx, ix_cons]; simp
    have := toDB_weaken N [] Δ Γ (fun v hv _ => hN v hv)
    simp only [List.nil_append, List.length_nil] at this
    simp [h1, this]
  · simp only [e, if_false, toDB]
    by_cases hy : y ∈ Δ
    · have := ix_le_of_mem hy
      rw [ix_append_mem hy, ix_append_mem hy, if_neg (by omega), if_neg (by omega)]
    · have := ix_pos Γ y
      rw [ix_append_not_mem hy, ix_append_not_mem hy, ix_cons, if_neg e, if_neg (by omega), if_pos (by omega)]
      rfl

/-- naive substitution is correct as long as no binder passed on the way (`Δ`) or met in `M` (`bv M`) binds a free
name of the argument -/
theorem nsubst_adequate_aux (M N : NTerm) (x : Nat) (Δ Γ : List Nat) (hx : x ∉ Δ)
    (hN : ∀ v ∈ fv N, v ∉ Δ) (hB : ∀ v ∈ fv N, v ∉ bv M) :
    Term.applyAux (toDB Γ N) (Δ.length + 1) (toDB (Δ ++ x :: Γ) M) = toDB (Δ ++ Γ) (nsubst M x N) := by
  induction M generalizing Δ with
  | var y => simpa [toDB, nsubst] using applyAux_toDB_var N x y Δ Γ hx hN
  | ud => simp [toDB, nsubst, Term.applyAux]
  | lam y b ih =>
    simp only [nsubst]
    by_cases e : y = x
    · subst e
      simp only [if_true, toDB, Term.applyAux]; congr 1
      have := toDB_shadow (toDB Γ N) b y (y :: Δ) Γ (by simp)
      simpa using this
    · simp only [e, if_false, toDB, Term.applyAux]; congr 1
      have hxy : ¬ x = y := fun e' => e e'.symm
      have := ih (y :: Δ) (by simp [hx, hxy])
        (by
          intro v hv
          have h1 := hN v hv
          have h2 : ¬ v = y := by intro e'; exact hB v hv (by simp [bv, e'])
          simp [h1, h2])
        (by intro v hv h; exact hB v hv (by simp [bv, h]))
      simpa using this
  | app l r ihl ihr =>
    simp only [nsubst, toDB, Term.applyAux]
    rw [ihl Δ hx hN (by intro v hv h; exact hB v hv (by simp [bv, h])),
      ihr Δ hx hN (by intro v hv h; exact hB v hv (by simp [bv, h]))]

/-- capture-avoiding substitution is correct: no condition on the binders of `M` -/
theorem csubstF_adequate_aux (f : Nat) (M N : NTerm) (x : Nat) (Δ Γ : List Nat) (hf : size M ≤ f)
    (hx : x ∉ Δ) (hN : ∀ v ∈ fv N, v ∉ Δ) :
    Term.applyAux (toDB Γ N) (Δ.length + 1) (toDB (Δ ++ x :: Γ) M) = toDB (Δ ++ Γ) (csubstF f M x N) := by
  induction f generalizing M Δ with
  | zero => have := size_pos M; omega
  | succ f ih =>
    cases M with
    | var y => simpa [toDB, csubstF] using applyAux_toDB_var N x y Δ Γ hx hN
    | ud => simp [toDB, csubstF, Term.applyAux]
    | lam y b =>
      simp only [size] at hf
      simp only [csubstF]
      by_cases e : y = x
      · subst e
        simp only [if_true, toDB, Term.applyAux]; congr 1
        have := toDB_shadow (toDB Γ N) b y (y :: Δ) Γ (by simp)
        simpa using this
      · have hxy : ¬ x = y := fun e' => e e'.symm
        by_cases hc : y ∈ fv N
        · -- the binder would capture: rename it to the fresh name `z`
          simp only [e, if_false, hc, if_true, toDB, Term.applyAux]; congr 1
          generalize hz : fresh x N b = z
          have hzx : ¬ x = z := by rw [← hz]; exact fun e' => fresh_ne x N b e'.symm
          have hzN : z ∉ fv N := hz ▸ fresh_not_fv_arg x N b
          have hzf : z ∉ fv b := hz ▸ fresh_not_fv_body x N b
          have hzb : z ∉ bv b := hz ▸ fresh_not_bv_body x N b
          have hα := toDB_rename b y z [] (Δ ++ x :: Γ) (by simp) (by simp) hzf hzb
          simp only [List.nil_append] at hα
          have := ih (nsubst b y (.var z)) (z :: Δ) (by rw [size_rename]; omega) (by simp [hx, hzx])
            (by
              intro v hv
              have h1 := hN v hv
              have h2 : ¬ v = z := by intro e'; exact hzN (e' ▸ hv)
              simp [h1, h2])
          simp only [List.cons_append, List.length_cons] at this
          rw [← hα, this]
        · simp only [e, if_false, hc, toDB, Term.applyAux]; congr 1
          have := ih b (y :: Δ) (by omega) (by simp [hx, hxy])
            (by
              intro v hv
              have h1 := hN v hv
              have h2 : ¬ v = y := by intro e'; exact hc (e' ▸ hv)
              simp [h1, h2])
          simpa using this
    | app l r =>
      simp only [size] at hf
      simp only [csubstF, toDB, Term.applyAux]
      rw [ih l Δ (by omega) hx hN, ih r Δ (by omega) hx hN]

/-- fuel beyond `size M` changes nothing -/
theorem csubstF_fuel (f g : Nat) (M N : NTerm) (x : Nat) (hf : size M ≤ f) (hg : size M ≤ g) :
    csubstF f M x N = csubstF g M x N := by
  induction f generalizing g M with
  | zero => have := size_pos M; omega
  | succ f ih =>
    cases g with
    | zero => have := size_pos M; omega
    | succ g =>
      cases M with
      | var y => simp [csubstF]
      | ud => simp [csubstF]
      | lam y b =>
        simp only [size] at hf hg
        simp only [csubstF]
        rw [ih g b (by omega) (by omega),
          ih g (nsubst b y (.var (fresh x N b))) (by rw [size_rename]; omega) (by rw [size_rename]; omega)]
      | app l r =>
        simp only [size] at hf hg
        simp only [csubstF]
        rw [ih g l (by omega) (by omega), ih g r (by omega) (by omega)]

/-- where no binder of `M` binds a free name of `N`, capture-avoiding substitution renames nothing -/
theorem csubstF_eq_nsubst (f : Nat) (M N : NTerm) (x : Nat) (hf : size M ≤ f) (hB : ∀ v ∈ fv N, v ∉ bv M) :
    csubstF f M x N = nsubst M x N := by
  induction f generalizing M with
  | zero => have := size_pos M; omega
  | succ f ih =>
    cases M with
    | var y => simp [csubstF, nsubst]
    | ud => simp [csubstF, nsubst]
    | lam y b =>
      simp only [size] at hf
      have hc : y ∉ fv N := by intro h; exact hB y h (by simp [bv])
      simp only [csubstF, nsubst, hc, if_false]
      rw [ih b (by omega) (by intro v hv h; exact hB v hv (by simp [bv, h]))]
    | app l r =>
      simp only [size] at hf
      simp only [csubstF, nsubst]
      rw [ih l (by omega) (by intro v hv h; exact hB v hv (by simp [bv, h])),
        ih r (by omega) (by intro v hv h; exact hB v hv (by simp [bv, h]))]

end Named
end LC
