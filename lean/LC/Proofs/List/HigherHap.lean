/-
C16 (higher-order, HAP) — the HIGHER-ORDER pair-list library functions (`map filter take_while drop_while foldl foldr
zip_with`) under the eager order HAP for an ARBITRARY function argument, on lists of arbitrary admissible elements
(`C16.HapValue`).  Generic cores (one derivation per function, by induction on the list), parametrised by what the
evaluation order really does with the function argument:

* `map`, `zip_with`: `f x` stands in a CBV position (the operand of `CONS`, itself the operator of an application): it is
  evaluated by CBV to a WEAK value `w`, which is normalised (HAP) only when the finished list is normalised;
* `filter`, `take_while`, `drop_while`: `p x` is the head of an application: evaluated by CBV, must BE `TRUE`/`FALSE`;
* `foldl`: the accumulator `f s x` is a CBV position: a chain of weak values, the last one normalised at the end;
* `foldr`: the recursive call is the operand of `f x`: evaluated by HAP to a normal form first, then `f x acc` runs (HAP).
-/
import LC.Proofs.List.MoreHapLib
import LC.Proofs.UDParamInj

namespace LC
open Term Spec Enc RL Eager C16 EagerListA EagerListMore
open EagerListB (cbv_is_nil_nil hap_stub2' mapF map_eq closed_mapF filterF filter_eq closed_filterF takeWhileF
  take_while_eq closed_takeWhileF dropWhileF drop_while_eq closed_dropWhileF foldlF foldl_eq closed_foldlF zipWithF
  zip_with_eq closed_zipWithF and_intro_dep cbv_stub2 hap_stub3 hap_app3_fn hap_app2_args cbv_app2_args foldr_top)

set_option linter.unusedSimpArgs false
set_option linter.unusedVariables false
attribute [local irreducible] iterApp

namespace HigherHap

/-! ## 0. closedness is preserved by reduction -/

theorem closedAt_iff_fresh (t : Term) : ∀ d, closedAt d t = true ↔ ∀ j, 1 ≤ j → freeInAux d j t = false := by
  induction t with
  | var i =>
    intro d
    simp only [closedAt, freeInAux, decide_eq_true_eq, beq_eq_false_iff_ne, ne_eq]
    constructor
    · intro h j hj; omega
    · intro h
      apply Decidable.byContradiction
      intro hlt
      exact h (i - d) (by omega) (by omega)
  | abs b ih => intro d; simp only [closedAt, freeInAux]; exact ih (d + 1)
  | app l r ihl ihr =>
    intro d
    simp only [closedAt, freeInAux, Bool.and_eq_true, Bool.or_eq_false_iff, ihl d, ihr d]
    exact ⟨fun h j hj => ⟨h.1 j hj, h.2 j hj⟩, fun h => ⟨fun j hj => (h j hj).1, fun j hj => (h j hj).2⟩⟩

theorem closed_of_star {t u : Term} (hs : Star t u) (h : Closed t) : Closed u :=
  (closedAt_iff_fresh u 0).2 fun j hj => fresh_star hs 0 j hj ((closedAt_iff_fresh t 0).1 h j hj)

theorem closed_app {a b : Term} (ha : Closed a) (hb : Closed b) : Closed (app a b) := by
  simp only [Closed, closedAt, Bool.and_eq_true]; exact ⟨ha, hb⟩

theorem closed_app2 {a b c : Term} (ha : Closed a) (hb : Closed b) (hc : Closed c) : Closed (app2 a b c) :=
  closed_app (closed_app ha hb) hc

/-! ## 1. observers on a non-empty list of admissible elements -/

theorem pairList_cons (x : Term) (xs : List Term) : pairList (x :: xs) = abs (app2 (var 1) x (pairList xs)) := rfl
theorem pairList_nil : pairList [] = abs (abs (var 1)) := rfl

theorem closed_pairList_values {xs : List Term} (h : ∀ x ∈ xs, HapValue x) : Closed (pairList xs) :=
  closed_pairList fun t ht => (h t ht).closed
theorem normal_pairList_values {xs : List Term} (h : ∀ x ∈ xs, HapValue x) : isNormal (pairList xs) = true :=
  normal_pairList _ fun t ht => (h t ht).normal

theorem cbv_is_nil_cons (x : Term) (xs : List Term) (h : ∀ u ∈ x :: xs, HapValue u) :
    EvalCbv (app Gen.PList.is_nil (pairList (x :: xs))) Gen.Bool.fls := by
  obtain ⟨f, n, ns, hf, hn, rfl, rfl⟩ := exists_family_cons x xs h
  exact cbv_is_nil_pl_cons hf hn n ns

theorem cbv_head_cons (x : Term) (xs : List Term) (h : ∀ u ∈ x :: xs, HapValue u) :
    EvalCbv (app Gen.PList.head (pairList (x :: xs))) x := by
  obtain ⟨f, n, ns, hf, hn, rfl, rfl⟩ := exists_family_cons x xs h
  exact head_pl_cbv hf hn n ns

theorem cbv_tail_cons (x : Term) (xs : List Term) (h : ∀ u ∈ x :: xs, HapValue u) :
    EvalCbv (app Gen.PList.tail (pairList (x :: xs))) (pairList xs) := by
  obtain ⟨f, n, ns, hf, hn, rfl, rfl⟩ := exists_family_cons x xs h
  exact tail_pl_cbv hf hn n ns

theorem hap_tail_cons (x : Term) (xs : List Term) (h : ∀ u ∈ x :: xs, HapValue u) :
    EvalHap (app Gen.PList.tail (pairList (x :: xs))) (pairList xs) := by
  obtain ⟨f, n, ns, hf, hn, rfl, rfl⟩ := exists_family_cons x xs h
  exact tail_pl hf hn n ns

/-! ## 2. MAP ≡ Z (λzfl.IS_NIL l (λx.NIL) (λx.CONS (f (HEAD l)) (z f (TAIL l))) I) -/

/-- what HAP does with `f x` inside `map`/`zip_with`: CBV to a weak value `w`, and `w` is normalised at the very end -/
def CbvThenHap (t r : Term) : Prop := ∃ w, EvalCbv t w ∧ EvalHap w r

theorem CbvThenHap.of_cbv_normal {t r : Term} (h : EvalCbv t r) (hn : isNormal r = true) : CbvThenHap t r :=
  ⟨r, h, EvalHap.of_isNormal hn⟩

theorem CbvThenHap.closed {t r : Term} (h : CbvThenHap t r) (ht : Closed t) : Closed r := by
  obtain ⟨w, h1, h2⟩ := h
  exact closed_of_star h2.star (closed_of_star h1.star ht)

theorem CbvThenHap.normal {t r : Term} (h : CbvThenHap t r) : isNormal r = true := by
  obtain ⟨w, _, h2⟩ := h
  exact h2.isNormal

/-- the hypotheses about the elements of `ns.map e`, as the observers want them -/
theorem hv_cons {α : Type} {e : α → Term} {n : α} {ns : List α} (hv : ∀ a ∈ n :: ns, HapValue (e a)) :
    ∀ u ∈ e n :: ns.map e, HapValue u := by
  intro u hu
  rcases List.mem_cons.1 hu with rfl | hu
  · exact hv n List.mem_cons_self
  · obtain ⟨a, ha, rfl⟩ := List.mem_map.1 hu
    exact hv a (List.mem_cons_of_mem _ ha)

theorem hv_map {α : Type} {e : α → Term} {ns : List α} (hv : ∀ a ∈ ns, HapValue (e a)) :
    ∀ u ∈ ns.map e, HapValue u := by
  intro u hu
  obtain ⟨a, ha, rfl⟩ := List.mem_map.1 hu
  exact hv a ha

theorem map_core {α : Type} (F : Term) (cF : Closed F) (wF : isWNF F = true) (e r : α → Term) :
    ∃ q, EvalCbv (ZF mapF) q ∧
    ∀ (ns : List α), (∀ a ∈ ns, HapValue (e a)) → (∀ a ∈ ns, CbvThenHap (app F (e a)) (r a)) →
      EvalHap (app2 q F (pairList (ns.map e))) (pairList (ns.map r)) := by
  apply Exists.intro
  apply And.intro
  · simp only [ZF, ZW]; ev
  · intro ns
    induction ns with
    | nil =>
      intro _ _
      have h1 := cbv_is_nil_nil
      rw [List.map_nil, List.map_nil, pairList_nil]
      ev [cF]
    | cons n ns ih =>
      intro hv0 hfx
      have hv := hv_cons hv0
      have hv' : ∀ a ∈ ns, HapValue (e a) := fun a ha => hv0 a (List.mem_cons_of_mem _ ha)
      have ih' := ih hv' (fun u hu => hfx u (List.mem_cons_of_mem _ hu))
      obtain ⟨w, hw1, hw2⟩ := hfx n List.mem_cons_self
      have cx := (hv0 n List.mem_cons_self).closed
      have nx := (hv0 n List.mem_cons_self).normal
      have wx := isNormal_isWNF nx
      have hcl := closed_pairList_values hv
      have hnl := normal_pairList_values hv
      have h1 := cbv_is_nil_cons _ _ hv
      have h2 := cbv_head_cons _ _ hv
      have h3 := hap_tail_cons _ _ hv
      have ha : EvalCbv (app F (app Gen.PList.head (pairList (e n :: ns.map e)))) w := EvalCbv.app_arg h2 hw1
      have ww := hw1.isWNF
      have cw : Closed w := closed_of_star hw1.star (closed_app cF cx)
      have cg : Closed (r n) := closed_of_star hw2.star cw
      have ng := hw2.isNormal
      have hct : Closed (pairList (ns.map r)) := closed_pairList (by
        intro t ht
        obtain ⟨u, hu, rfl⟩ := List.mem_map.1 ht
        exact (hfx u (List.mem_cons_of_mem _ hu)).closed (closed_app cF (hv' u hu).closed))
      have hnt := ih'.isNormal
      have hrec := hap_stub2' closed_mapF (by simp only [ZF, ZW]; ev) (EvalCbv.of_isWNF wF) h3 ih'
      rw [List.map_cons, List.map_cons, pairList_cons (r n)]
      generalize hL : pairList (e n :: ns.map e) = L at *
      generalize hT : pairList (ns.map r) = T at *
      generalize hG : r n = G at *
      generalize hX : e n = X at *
      ev [hcl, hct, cF, cw, cx]

/-! ## 3. FILTER ≡ Z (λzpl.IS_NIL l (λx.NIL) (λx.p (HEAD l) (CONS (HEAD l)) I (z p (TAIL l))) I)

`p (HEAD l)` is the head of an application: it is evaluated by CBV and its weak value selects the branch. -/

theorem filter_core {α : Type} (P : Term) (cP : Closed P) (wP : isWNF P = true) (e : α → Term) (b : α → Bool) :
    ∃ q, EvalCbv (ZF filterF) q ∧
    ∀ (ns : List α), (∀ a ∈ ns, HapValue (e a)) → (∀ a ∈ ns, EvalCbv (app P (e a)) (fromBool (b a))) →
      EvalHap (app2 q P (pairList (ns.map e))) (pairList ((ns.filter b).map e)) := by
  apply Exists.intro
  apply And.intro
  · simp only [ZF, ZW]; ev
  · intro ns
    induction ns with
    | nil =>
      intro _ _
      have h1 := cbv_is_nil_nil
      rw [List.filter_nil, List.map_nil, pairList_nil]
      ev [cP]
    | cons n ns ih =>
      intro hv0 hpx
      have hv := hv_cons hv0
      have hv' : ∀ a ∈ ns, HapValue (e a) := fun a ha => hv0 a (List.mem_cons_of_mem _ ha)
      have ih' := ih hv' (fun u hu => hpx u (List.mem_cons_of_mem _ hu))
      have cx := (hv0 n List.mem_cons_self).closed
      have nx := (hv0 n List.mem_cons_self).normal
      have wx := isNormal_isWNF nx
      have hcl := closed_pairList_values hv
      have hnl := normal_pairList_values hv
      have hwl : isWNF (pairList (e n :: ns.map e)) = true := EagerListB.isWNF_pairList _
      have h1 := cbv_is_nil_cons _ _ hv
      have h2 := cbv_head_cons _ _ hv
      have h3 := hap_tail_cons _ _ hv
      have hz : EvalCbv (app P (app Gen.PList.head (pairList (e n :: ns.map e)))) (fromBool (b n)) :=
        EvalCbv.app_arg h2 (hpx n List.mem_cons_self)
      have hvf : ∀ u ∈ (ns.filter b).map e, HapValue u := hv_map fun a ha => hv' a ((List.mem_filter.1 ha).1)
      have hct := closed_pairList_values hvf
      have hnt := normal_pairList_values hvf
      have hwt : isWNF (pairList ((ns.filter b).map e)) = true := EagerListB.isWNF_pairList _
      have hrec := hap_stub2' closed_filterF (by simp only [ZF, ZW]; ev) (EvalCbv.of_isWNF wP) h3 ih'
      rw [List.map_cons]
      cases hb : b n
      · rw [hb] at hz
        rw [List.filter_cons_of_neg (by simp [hb])]
        generalize hL : pairList (e n :: ns.map e) = L at *
        generalize hT : pairList ((ns.filter b).map e) = T at *
        ev [hcl, hct, cP, cx]
      · rw [hb] at hz
        rw [List.filter_cons_of_pos (by simp [hb])]
        rw [List.map_cons, pairList_cons (e n) ((ns.filter b).map e)]
        generalize hL : pairList (e n :: ns.map e) = L at *
        generalize hT : pairList ((ns.filter b).map e) = T at *
        ev [hcl, hct, cP, cx]

/-! ## 4. TAKE_WHILE ≡ Z (λzfl. IS_NIL l (λx.NIL) (λx.f (HEAD l) (CONS (HEAD l) (z f (TAIL l))) NIL) I)

The recursive call is in operator position: the whole recursion runs under CBV, only the outermost call is HAP. -/

theorem take_while_core {α : Type} (P : Term) (cP : Closed P) (wP : isWNF P = true) (e : α → Term) (b : α → Bool) :
    ∃ q, EvalCbv (ZF takeWhileF) q ∧
    (∀ (ns : List α), (∀ a ∈ ns, HapValue (e a)) → (∀ a ∈ ns, EvalCbv (app P (e a)) (fromBool (b a))) →
      EvalCbv (app2 q P (pairList (ns.map e))) (pairList ((ns.takeWhile b).map e))) ∧
    (∀ (ns : List α), (∀ a ∈ ns, HapValue (e a)) → (∀ a ∈ ns, EvalCbv (app P (e a)) (fromBool (b a))) →
      EvalHap (app2 q P (pairList (ns.map e))) (pairList ((ns.takeWhile b).map e))) := by
  apply Exists.intro
  apply And.intro
  · simp only [ZF, ZW]; ev
  apply and_intro_dep
  · intro ns
    induction ns with
    | nil =>
      intro _ _
      have h1 := cbv_is_nil_nil
      rw [List.takeWhile_nil, List.map_nil, pairList_nil]
      ev [cP]
    | cons n ns ih =>
      intro hv0 hpx
      have hv := hv_cons hv0
      have hv' : ∀ a ∈ ns, HapValue (e a) := fun a ha => hv0 a (List.mem_cons_of_mem _ ha)
      have ih' := ih hv' (fun u hu => hpx u (List.mem_cons_of_mem _ hu))
      have cx := (hv0 n List.mem_cons_self).closed
      have nx := (hv0 n List.mem_cons_self).normal
      have wx := isNormal_isWNF nx
      have hcl := closed_pairList_values hv
      have hnl := normal_pairList_values hv
      have hwl : isWNF (pairList (e n :: ns.map e)) = true := EagerListB.isWNF_pairList _
      have h1 := cbv_is_nil_cons _ _ hv
      have h2 := cbv_head_cons _ _ hv
      have h3 := cbv_tail_cons _ _ hv
      have hz : EvalCbv (app P (app Gen.PList.head (pairList (e n :: ns.map e)))) (fromBool (b n)) :=
        EvalCbv.app_arg h2 (hpx n List.mem_cons_self)
      have hvf : ∀ u ∈ (ns.takeWhile b).map e, HapValue u := hv_map fun a ha => hv' a (((List.takeWhile_sublist b).subset ha))
      have hct := closed_pairList_values hvf
      have hnt := normal_pairList_values hvf
      have hwt : isWNF (pairList ((ns.takeWhile b).map e)) = true := EagerListB.isWNF_pairList _
      have hrec := cbv_stub2 closed_takeWhileF (by simp only [ZF, ZW]; ev) (EvalCbv.of_isWNF wP) h3 ih'
      rw [List.map_cons]
      cases hb : b n
      · rw [hb] at hz
        rw [List.takeWhile_cons_of_neg (by simp [hb])]
        rw [List.map_nil, pairList_nil]
        generalize hL : pairList (e n :: ns.map e) = L at *
        generalize hT : pairList ((ns.takeWhile b).map e) = T at *
        ev [hcl, hct, cP, cx]
      · rw [hb] at hz
        rw [List.takeWhile_cons_of_pos (by simp [hb])]
        rw [List.map_cons, pairList_cons (e n) ((ns.takeWhile b).map e)]
        generalize hL : pairList (e n :: ns.map e) = L at *
        generalize hT : pairList ((ns.takeWhile b).map e) = T at *
        ev [hcl, hct, cP, cx]
  · intro hc ns
    cases ns with
    | nil =>
      intro _ _
      have h1 := cbv_is_nil_nil
      rw [List.takeWhile_nil, List.map_nil, pairList_nil]
      ev [cP]
    | cons n ns =>
      intro hv0 hpx
      have hv := hv_cons hv0
      have hv' : ∀ a ∈ ns, HapValue (e a) := fun a ha => hv0 a (List.mem_cons_of_mem _ ha)
      have ih' := hc ns hv' (fun u hu => hpx u (List.mem_cons_of_mem _ hu))
      have cx := (hv0 n List.mem_cons_self).closed
      have nx := (hv0 n List.mem_cons_self).normal
      have wx := isNormal_isWNF nx
      have hcl := closed_pairList_values hv
      have hnl := normal_pairList_values hv
      have hwl : isWNF (pairList (e n :: ns.map e)) = true := EagerListB.isWNF_pairList _
      have h1 := cbv_is_nil_cons _ _ hv
      have h2 := cbv_head_cons _ _ hv
      have h3 := cbv_tail_cons _ _ hv
      have hz : EvalCbv (app P (app Gen.PList.head (pairList (e n :: ns.map e)))) (fromBool (b n)) :=
        EvalCbv.app_arg h2 (hpx n List.mem_cons_self)
      have hvf : ∀ u ∈ (ns.takeWhile b).map e, HapValue u := hv_map fun a ha => hv' a (((List.takeWhile_sublist b).subset ha))
      have hct := closed_pairList_values hvf
      have hnt := normal_pairList_values hvf
      have hwt : isWNF (pairList ((ns.takeWhile b).map e)) = true := EagerListB.isWNF_pairList _
      have hrec := cbv_stub2 closed_takeWhileF (by simp only [ZF, ZW]; ev) (EvalCbv.of_isWNF wP) h3 ih'
      rw [List.map_cons]
      cases hb : b n
      · rw [hb] at hz
        rw [List.takeWhile_cons_of_neg (by simp [hb])]
        rw [List.map_nil, pairList_nil]
        generalize hL : pairList (e n :: ns.map e) = L at *
        generalize hT : pairList ((ns.takeWhile b).map e) = T at *
        ev [hcl, hct, cP, cx]
      · rw [hb] at hz
        rw [List.takeWhile_cons_of_pos (by simp [hb])]
        rw [List.map_cons, pairList_cons (e n) ((ns.takeWhile b).map e)]
        generalize hL : pairList (e n :: ns.map e) = L at *
        generalize hT : pairList ((ns.takeWhile b).map e) = T at *
        ev [hcl, hct, cP, cx]

/-! ## 5. DROP_WHILE ≡ Z (λzfl.IS_NIL l (λx.NIL) (λx.f (HEAD l) (z f (TAIL l)) l) I) -/

theorem drop_while_core {α : Type} (P : Term) (cP : Closed P) (wP : isWNF P = true) (e : α → Term) (b : α → Bool) :
    ∃ q, EvalCbv (ZF dropWhileF) q ∧
    (∀ (ns : List α), (∀ a ∈ ns, HapValue (e a)) → (∀ a ∈ ns, EvalCbv (app P (e a)) (fromBool (b a))) →
      EvalCbv (app2 q P (pairList (ns.map e))) (pairList ((ns.dropWhile b).map e))) ∧
    (∀ (ns : List α), (∀ a ∈ ns, HapValue (e a)) → (∀ a ∈ ns, EvalCbv (app P (e a)) (fromBool (b a))) →
      EvalHap (app2 q P (pairList (ns.map e))) (pairList ((ns.dropWhile b).map e))) := by
  apply Exists.intro
  apply And.intro
  · simp only [ZF, ZW]; ev
  apply and_intro_dep
  · intro ns
    induction ns with
    | nil =>
      intro _ _
      have h1 := cbv_is_nil_nil
      rw [List.dropWhile_nil, List.map_nil, pairList_nil]
      ev [cP]
    | cons n ns ih =>
      intro hv0 hpx
      have hv := hv_cons hv0
      have hv' : ∀ a ∈ ns, HapValue (e a) := fun a ha => hv0 a (List.mem_cons_of_mem _ ha)
      have ih' := ih hv' (fun u hu => hpx u (List.mem_cons_of_mem _ hu))
      have cx := (hv0 n List.mem_cons_self).closed
      have nx := (hv0 n List.mem_cons_self).normal
      have wx := isNormal_isWNF nx
      have hcl := closed_pairList_values hv
      have hnl := normal_pairList_values hv
      have hwl : isWNF (pairList (e n :: ns.map e)) = true := EagerListB.isWNF_pairList _
      have h1 := cbv_is_nil_cons _ _ hv
      have h2 := cbv_head_cons _ _ hv
      have h3 := cbv_tail_cons _ _ hv
      have hz : EvalCbv (app P (app Gen.PList.head (pairList (e n :: ns.map e)))) (fromBool (b n)) :=
        EvalCbv.app_arg h2 (hpx n List.mem_cons_self)
      have hvf : ∀ u ∈ (ns.dropWhile b).map e, HapValue u := hv_map fun a ha => hv' a (((List.dropWhile_sublist b).subset ha))
      have hct := closed_pairList_values hvf
      have hnt := normal_pairList_values hvf
      have hwt : isWNF (pairList ((ns.dropWhile b).map e)) = true := EagerListB.isWNF_pairList _
      have hrec := cbv_stub2 closed_dropWhileF (by simp only [ZF, ZW]; ev) (EvalCbv.of_isWNF wP) h3 ih'
      rw [List.map_cons]
      cases hb : b n
      · rw [hb] at hz
        rw [List.dropWhile_cons_of_neg (by simp [hb])]
        rw [List.map_cons]
        generalize hL : pairList (e n :: ns.map e) = L at *
        generalize hT : pairList ((ns.dropWhile b).map e) = T at *
        ev [hcl, hct, cP, cx]
      · rw [hb] at hz
        rw [List.dropWhile_cons_of_pos (by simp [hb])]
        generalize hL : pairList (e n :: ns.map e) = L at *
        generalize hT : pairList ((ns.dropWhile b).map e) = T at *
        ev [hcl, hct, cP, cx]
  · intro hc ns
    cases ns with
    | nil =>
      intro _ _
      have h1 := cbv_is_nil_nil
      rw [List.dropWhile_nil, List.map_nil, pairList_nil]
      ev [cP]
    | cons n ns =>
      intro hv0 hpx
      have hv := hv_cons hv0
      have hv' : ∀ a ∈ ns, HapValue (e a) := fun a ha => hv0 a (List.mem_cons_of_mem _ ha)
      have ih' := hc ns hv' (fun u hu => hpx u (List.mem_cons_of_mem _ hu))
      have cx := (hv0 n List.mem_cons_self).closed
      have nx := (hv0 n List.mem_cons_self).normal
      have wx := isNormal_isWNF nx
      have hcl := closed_pairList_values hv
      have hnl := normal_pairList_values hv
      have hwl : isWNF (pairList (e n :: ns.map e)) = true := EagerListB.isWNF_pairList _
      have h1 := cbv_is_nil_cons _ _ hv
      have h2 := cbv_head_cons _ _ hv
      have h3 := cbv_tail_cons _ _ hv
      have hz : EvalCbv (app P (app Gen.PList.head (pairList (e n :: ns.map e)))) (fromBool (b n)) :=
        EvalCbv.app_arg h2 (hpx n List.mem_cons_self)
      have hvf : ∀ u ∈ (ns.dropWhile b).map e, HapValue u := hv_map fun a ha => hv' a (((List.dropWhile_sublist b).subset ha))
      have hct := closed_pairList_values hvf
      have hnt := normal_pairList_values hvf
      have hwt : isWNF (pairList ((ns.dropWhile b).map e)) = true := EagerListB.isWNF_pairList _
      have hrec := cbv_stub2 closed_dropWhileF (by simp only [ZF, ZW]; ev) (EvalCbv.of_isWNF wP) h3 ih'
      rw [List.map_cons]
      cases hb : b n
      · rw [hb] at hz
        rw [List.dropWhile_cons_of_neg (by simp [hb])]
        rw [List.map_cons]
        generalize hL : pairList (e n :: ns.map e) = L at *
        generalize hT : pairList ((ns.dropWhile b).map e) = T at *
        ev [hcl, hct, cP, cx]
      · rw [hb] at hz
        rw [List.dropWhile_cons_of_pos (by simp [hb])]
        generalize hL : pairList (e n :: ns.map e) = L at *
        generalize hT : pairList ((ns.dropWhile b).map e) = T at *
        ev [hcl, hct, cP, cx]

/-! ## 6. FOLDL ≡ Z (λzfsl.IS_NIL l (λx.s) (λx.z f (f s (HEAD l)) (TAIL l)) I)

The accumulator `f s (HEAD l)` is in operator position: evaluated by CBV to a weak value at every element; only the LAST
accumulator is normalised (HAP), at the end of the list. -/

/-- the chain of CBV accumulators of `foldl f s xs`, ending in `v` -/
inductive FoldlCbv (F : Term) : Term → List Term → Term → Prop
  | nil (s : Term) : FoldlCbv F s [] s
  | cons {s x s' v : Term} {xs : List Term} :
      EvalCbv (app2 F s x) s' → FoldlCbv F s' xs v → FoldlCbv F s (x :: xs) v

theorem foldl_core (F : Term) (cF : Closed F) (wF : isWNF F = true) :
    ∃ q, EvalCbv (ZF foldlF) q ∧
    ∀ (xs : List Term) (s v R : Term), (∀ x ∈ xs, HapValue x) → Closed s → isWNF s = true →
      FoldlCbv F s xs v → EvalHap v R → EvalHap (app3 q F s (pairList xs)) R := by
  apply Exists.intro
  apply And.intro
  · simp only [ZF, ZW]; ev
  · intro xs
    induction xs with
    | nil =>
      intro s v R _ cs ws hch hR
      cases hch
      have h1 := cbv_is_nil_nil
      rw [pairList_nil]
      ev [cs, cF]
    | cons x xs ih =>
      intro s v R hv cs ws hch hR
      cases hch with
      | cons hs1 hch' =>
      rename_i s'
      have hv' : ∀ u ∈ xs, HapValue u := fun u hu => hv u (List.mem_cons_of_mem _ hu)
      have cx := (hv x List.mem_cons_self).closed
      have cs' : Closed s' := closed_of_star hs1.star (closed_app2 cF cs cx)
      have ws' := hs1.isWNF
      have ih' := ih s' v R hv' cs' ws' hch' hR
      have hcl := closed_pairList_values hv
      have hnl := normal_pairList_values hv
      have h1 := cbv_is_nil_cons x xs hv
      have h2 := cbv_head_cons x xs hv
      have h3 := hap_tail_cons x xs hv
      have ha : EvalCbv (app2 F s (app Gen.PList.head (pairList (x :: xs)))) s' := EvalCbv.app_arg h2 hs1
      have hrec := hap_stub3 closed_foldlF (by simp only [ZF, ZW]; ev) (EvalCbv.of_isWNF wF) ha h3 ih'
      generalize hL : pairList (x :: xs) = L at *
      ev [cs, hcl, cF]

/-! ## 7. FOLDR ≡ λfal.Z (λzt.IS_NIL t (λx.a) (λx.f (HEAD t) (z (TAIL t))) I) l

The recursive call is the OPERAND of `f (HEAD t)`: it is evaluated by HAP to a normal form first. -/

/-- the chain of HAP results of `foldr f a xs`, ending in `r` -/
inductive FoldrHap (F a : Term) : List Term → Term → Prop
  | nil : FoldrHap F a [] a
  | cons {x r r' : Term} {xs : List Term} :
      FoldrHap F a xs r → EvalHap (app2 F x r) r' → FoldrHap F a (x :: xs) r'

theorem foldr_core (F : Term) (cF : Closed F) (wF : isWNF F = true) (a : Term) (ca : Closed a)
    (na : isNormal a = true) : ∃ G,
    EvalCbv (app2 Gen.PList.foldr F a) (abs (app (app Gen.Comb.Z G) (var 1))) ∧
    Closed G ∧ isWNF G = true ∧ ∃ q, EvalCbv (ZF G) q ∧
    ∀ (xs : List Term) (R : Term), (∀ x ∈ xs, HapValue x) → FoldrHap F a xs R → EvalHap (app q (pairList xs)) R := by
  have wa := isNormal_isWNF na
  refine ⟨?G, ?h1, ?h2, ?h3, ?q, ?h4, ?h5⟩
  case h1 => ev [cF, ca]; exact EvalCbv.abs _
  case h2 => lc_simp [cF, ca]
  case h3 => rfl
  case h4 => simp only [ZF, ZW]; ev; exact EvalCbv.abs _
  case h5 =>
    intro xs
    induction xs with
    | nil =>
      intro R _ hch
      cases hch
      have h1 := cbv_is_nil_nil
      rw [pairList_nil]
      ev [cF, ca]
    | cons x xs ih =>
      intro R hv hch
      cases hch with
      | cons hch' hstep =>
      have hv' : ∀ u ∈ xs, HapValue u := fun u hu => hv u (List.mem_cons_of_mem _ hu)
      have ih' := ih _ hv' hch'
      have hcl := closed_pairList_values hv
      have hnl := normal_pairList_values hv
      have h1 := cbv_is_nil_cons x xs hv
      have h2 := cbv_head_cons x xs hv
      have h3 := hap_tail_cons x xs hv
      have hrec := EagerListB.hap_stub1 (F := ?G) (by lc_simp [cF, ca]) (by simp only [ZF, ZW]; ev) h3 ih'
      have hstep' := hap_app2_args h2 hrec hstep
      generalize hL : pairList (x :: xs) = L at *
      ev [hcl, cF, ca]

/-! ## 8. ZIP_WITH ≡ Z (λzfab.IS_NIL a (λx.NIL) (λx.IS_NIL b NIL (CONS (f (HEAD a) (HEAD b)) (z f (TAIL a) (TAIL b)))) I)

The elements `f (HEAD a) (HEAD b)` are evaluated by CBV to weak values, normalised with the finished list (as in `map`).
The recursion is on `a` only and BOTH branches of `IS_NIL b NIL (CONS …)` are evaluated: when `b` runs out first the
recursion continues with the junk lists `TAIL NIL = I`, `TAIL I = NIL`, … and `f` is CALLED on the remaining elements of `a`
and the junk heads `HEAD NIL = I`, `HEAD I = TRUE` — these calls must terminate too (`JunkOK`), their results are dropped. -/

/-- `f x junk` terminates (CBV, and its weak value has a HAP-normal form) for the two junk heads `I` and `TRUE` -/
def JunkOK (F x : Term) : Prop :=
  (∃ r, CbvThenHap (app2 F x (abs (var 1))) r) ∧ (∃ r, CbvThenHap (app2 F x Gen.Bool.tru) r)

theorem zip_with_core {α β : Type} (F : Term) (cF : Closed F) (wF : isWNF F = true) (e1 : α → Term) (e2 : β → Term)
    (g : α → β → Term) :
    ∃ q, EvalCbv (ZF zipWithF) q ∧
    (∀ (ms : List α), (∀ a ∈ ms, HapValue (e1 a)) → (∀ a ∈ ms, JunkOK F (e1 a)) →
      EvalHap (app3 q F (pairList (ms.map e1)) (abs (abs (var 1)))) (abs (abs (var 1))) ∧
      EvalHap (app3 q F (pairList (ms.map e1)) (abs (var 1))) (abs (abs (var 1)))) ∧
    (∀ (ms : List α) (ns : List β), (∀ a ∈ ms, HapValue (e1 a)) → (∀ a ∈ ns, HapValue (e2 a)) →
      (∀ p ∈ ms.zip ns, CbvThenHap (app2 F (e1 p.1) (e2 p.2)) (g p.1 p.2)) →
      (∀ a ∈ ms.drop ns.length, JunkOK F (e1 a)) →
      EvalHap (app3 q F (pairList (ms.map e1)) (pairList (ns.map e2)))
        (pairList ((ms.zip ns).map (fun p => g p.1 p.2)))) := by
  apply Exists.intro
  apply And.intro
  · simp only [ZF, ZW]; ev
  apply and_intro_dep
  · intro ms
    induction ms with
    | nil =>
      intro _ _
      have h1 := cbv_is_nil_nil
      rw [List.map_nil, pairList_nil]
      constructor <;> ev [cF]
    | cons m ms ih =>
      intro hv0 hjk
      have hv := hv_cons hv0
      have hv' : ∀ a ∈ ms, HapValue (e1 a) := fun a ha => hv0 a (List.mem_cons_of_mem _ ha)
      have ih' := ih hv' (fun u hu => hjk u (List.mem_cons_of_mem _ hu))
      obtain ⟨⟨r1, w1, hw1a, hw1b⟩, ⟨r2, w2, hw2a, hw2b⟩⟩ := hjk m List.mem_cons_self
      have cx := (hv0 m List.mem_cons_self).closed
      have hcl := closed_pairList_values hv
      have hwl : isWNF (pairList (e1 m :: ms.map e1)) = true := EagerListB.isWNF_pairList _
      have h1 := cbv_is_nil_cons _ _ hv
      have h2 := cbv_head_cons _ _ hv
      have h3 := cbv_tail_cons _ _ hv
      have ww1 := hw1a.isWNF
      have ww2 := hw2a.isWNF
      have cw1 : Closed w1 := closed_of_star hw1a.star (closed_app2 cF cx (by decide))
      have cw2 : Closed w2 := closed_of_star hw2a.star (closed_app2 cF cx (by decide))
      have nr1 := hw1b.isNormal
      have nr2 := hw2b.isNormal
      have cr1 : Closed r1 := closed_of_star hw1b.star cw1
      have cr2 : Closed r2 := closed_of_star hw2b.star cw2
      have hs1 : EvalCbv (app2 F (app Gen.PList.head (pairList (e1 m :: ms.map e1)))
          (app Gen.PList.head (abs (abs (var 1))))) w1 := cbv_app2_args h2 (by ev) hw1a
      have hs2 : EvalCbv (app2 F (app Gen.PList.head (pairList (e1 m :: ms.map e1)))
          (app Gen.PList.head (abs (var 1)))) w2 := cbv_app2_args h2 (by ev) hw2a
      have hrec1 := hap_stub3 (Y := app Gen.PList.tail (abs (abs (var 1)))) closed_zipWithF (by simp only [ZF, ZW]; ev)
        (EvalCbv.of_isWNF wF) h3 (by ev) ih'.2
      have hrec2 := hap_stub3 (Y := app Gen.PList.tail (abs (var 1))) closed_zipWithF (by simp only [ZF, ZW]; ev)
        (EvalCbv.of_isWNF wF) h3 (by ev) ih'.1
      rw [List.map_cons]
      generalize hL : pairList (e1 m :: ms.map e1) = L at *
      constructor <;> ev [hcl, cF, cw1, cw2, cr1, cr2]
  · intro hj ms
    induction ms with
    | nil =>
      intro ns _ hvy _ _
      have h1 := cbv_is_nil_nil
      have hnl := normal_pairList_values (hv_map hvy)
      rw [show pairList ((([] : List α).zip ns).map (fun p => g p.1 p.2)) = abs (abs (var 1)) by simp [pairList]]
      rw [List.map_nil, pairList_nil]
      generalize hL : pairList (ns.map e2) = L at *
      ev [cF]
    | cons m ms ih =>
      intro ns hv0 hvy0 hpq hjk
      have hv := hv_cons hv0
      have hv' : ∀ a ∈ ms, HapValue (e1 a) := fun a ha => hv0 a (List.mem_cons_of_mem _ ha)
      have cx := (hv0 m List.mem_cons_self).closed
      have hcl := closed_pairList_values hv
      have hwl : isWNF (pairList (e1 m :: ms.map e1)) = true := EagerListB.isWNF_pairList _
      have h1 := cbv_is_nil_cons _ _ hv
      have h2 := cbv_head_cons _ _ hv
      have h3 := cbv_tail_cons _ _ hv
      cases ns with
      | nil =>
        have hjk' : ∀ u ∈ m :: ms, JunkOK F (e1 u) := by simpa using hjk
        obtain ⟨⟨r1, w1, hw1a, hw1b⟩, _⟩ := hjk' m List.mem_cons_self
        have ww1 := hw1a.isWNF
        have cw1 : Closed w1 := closed_of_star hw1a.star (closed_app2 cF cx (by decide))
        have nr1 := hw1b.isNormal
        have cr1 : Closed r1 := closed_of_star hw1b.star cw1
        have g1 := cbv_is_nil_nil
        have hs1 : EvalCbv (app2 F (app Gen.PList.head (pairList (e1 m :: ms.map e1)))
            (app Gen.PList.head (abs (abs (var 1))))) w1 := cbv_app2_args h2 (by ev) hw1a
        have hj' := (hj ms hv' (fun u hu => hjk' u (List.mem_cons_of_mem _ hu))).2
        have hrec := hap_stub3 (Y := app Gen.PList.tail (abs (abs (var 1)))) closed_zipWithF (by simp only [ZF, ZW]; ev)
          (EvalCbv.of_isWNF wF) h3 (by ev) hj'
        rw [show pairList (((m :: ms).zip ([] : List β)).map (fun p => g p.1 p.2)) = abs (abs (var 1)) by
          simp [pairList]]
        rw [List.map_nil, List.map_cons, pairList_nil]
        generalize hL : pairList (e1 m :: ms.map e1) = L at *
        ev [hcl, cF, cw1, cr1]
      | cons n ns =>
        have hvy := hv_cons hvy0
        have hvy' : ∀ a ∈ ns, HapValue (e2 a) := fun a ha => hvy0 a (List.mem_cons_of_mem _ ha)
        have cy := (hvy0 n List.mem_cons_self).closed
        have hcl' := closed_pairList_values hvy
        have hnl' := normal_pairList_values hvy
        have g1 := cbv_is_nil_cons _ _ hvy
        have g2 := cbv_head_cons _ _ hvy
        have g3 := hap_tail_cons _ _ hvy
        obtain ⟨w, hw1, hw2⟩ := hpq (m, n) (by simp)
        have hs := cbv_app2_args h2 g2 hw1
        have ww := hw1.isWNF
        have cw : Closed w := closed_of_star hw1.star (closed_app2 cF cx cy)
        have ng := hw2.isNormal
        have cg : Closed (g m n) := closed_of_star hw2.star cw
        have ih' := ih ns hv' hvy' (fun p hp => hpq p (by simp [hp])) (by simpa using hjk)
        have hrec := hap_stub3 closed_zipWithF (by simp only [ZF, ZW]; ev) (EvalCbv.of_isWNF wF) h3 g3 ih'
        have hct : Closed (pairList ((ms.zip ns).map (fun p => g p.1 p.2))) := closed_pairList (by
          intro t ht
          obtain ⟨p, hp, rfl⟩ := List.mem_map.1 ht
          exact (hpq p (by simp [hp])).closed (closed_app2 cF (hv' _ (List.of_mem_zip hp).1).closed
            (hvy' _ (List.of_mem_zip hp).2).closed))
        have hnt := ih'.isNormal
        rw [show pairList (((m :: ms).zip (n :: ns)).map (fun p => g p.1 p.2)) =
          abs (app2 (var 1) (g m n) (pairList ((ms.zip ns).map (fun p => g p.1 p.2)))) from rfl]
        rw [List.map_cons, List.map_cons]
        generalize hL : pairList (e1 m :: ms.map e1) = L at *
        generalize hL' : pairList (e2 n :: ns.map e2) = L' at *
        generalize hZ : pairList ((ms.zip ns).map (fun p => g p.1 p.2)) = Z at *
        generalize hG : g m n = G at *
        ev [hcl, hcl', hct, cF, cw, cx, cy]

/-! ## 9. the statements about `MAP f l`, `FILTER p l`, … (the fixed point `Z F` unfolded once) -/

section Top
variable {α β : Type}

theorem plist_map_hap_fn {f : Term} (cf : Closed f) (wf : isWNF f = true) (e r : α → Term) (ns : List α)
    (hv : ∀ a ∈ ns, HapValue (e a)) (hfx : ∀ a ∈ ns, CbvThenHap (app f (e a)) (r a)) :
    EvalHap (app2 Gen.PList.map f (pairList (ns.map e))) (pairList (ns.map r)) := by
  obtain ⟨q, hq, hrec⟩ := map_core f cf wf e r
  refine EvalHap.app2_fn (g := q) ?_ (hrec ns hv hfx)
  rw [map_eq]; exact EagerListB.cbv_Z closed_mapF (by decide) hq

theorem plist_filter_hap_fn {p : Term} (cp : Closed p) (wp : isWNF p = true) (e : α → Term) (b : α → Bool)
    (ns : List α) (hv : ∀ a ∈ ns, HapValue (e a)) (hpx : ∀ a ∈ ns, EvalCbv (app p (e a)) (fromBool (b a))) :
    EvalHap (app2 Gen.PList.filter p (pairList (ns.map e))) (pairList ((ns.filter b).map e)) := by
  obtain ⟨q, hq, hrec⟩ := filter_core p cp wp e b
  refine EvalHap.app2_fn (g := q) ?_ (hrec ns hv hpx)
  rw [filter_eq]; exact EagerListB.cbv_Z closed_filterF (by decide) hq

theorem plist_take_while_hap_fn {p : Term} (cp : Closed p) (wp : isWNF p = true) (e : α → Term) (b : α → Bool)
    (ns : List α) (hv : ∀ a ∈ ns, HapValue (e a)) (hpx : ∀ a ∈ ns, EvalCbv (app p (e a)) (fromBool (b a))) :
    EvalHap (app2 Gen.PList.take_while p (pairList (ns.map e))) (pairList ((ns.takeWhile b).map e)) := by
  obtain ⟨q, hq, _, hrec⟩ := take_while_core p cp wp e b
  refine EvalHap.app2_fn (g := q) ?_ (hrec ns hv hpx)
  rw [take_while_eq]; exact EagerListB.cbv_Z closed_takeWhileF (by decide) hq

theorem plist_drop_while_hap_fn {p : Term} (cp : Closed p) (wp : isWNF p = true) (e : α → Term) (b : α → Bool)
    (ns : List α) (hv : ∀ a ∈ ns, HapValue (e a)) (hpx : ∀ a ∈ ns, EvalCbv (app p (e a)) (fromBool (b a))) :
    EvalHap (app2 Gen.PList.drop_while p (pairList (ns.map e))) (pairList ((ns.dropWhile b).map e)) := by
  obtain ⟨q, hq, _, hrec⟩ := drop_while_core p cp wp e b
  refine EvalHap.app2_fn (g := q) ?_ (hrec ns hv hpx)
  rw [drop_while_eq]; exact EagerListB.cbv_Z closed_dropWhileF (by decide) hq

theorem plist_zip_with_hap_fn {f : Term} (cf : Closed f) (wf : isWNF f = true) (e1 : α → Term) (e2 : β → Term)
    (g : α → β → Term) (ms : List α) (ns : List β) (hv1 : ∀ a ∈ ms, HapValue (e1 a)) (hv2 : ∀ a ∈ ns, HapValue (e2 a))
    (hfx : ∀ p ∈ ms.zip ns, CbvThenHap (app2 f (e1 p.1) (e2 p.2)) (g p.1 p.2))
    (hjk : ∀ a ∈ ms.drop ns.length, JunkOK f (e1 a)) :
    EvalHap (app3 Gen.PList.zip_with f (pairList (ms.map e1)) (pairList (ns.map e2)))
      (pairList ((ms.zip ns).map (fun p => g p.1 p.2))) := by
  obtain ⟨q, hq, _, hrec⟩ := zip_with_core f cf wf e1 e2 g
  refine hap_app3_fn (g := q) ?_ (hrec ms ns hv1 hv2 hfx hjk)
  rw [zip_with_eq]; exact EagerListB.cbv_Z closed_zipWithF (by decide) hq

/-- `foldl`, relational form: the CBV chain of accumulators and the HAP-normal form of the last one -/
theorem plist_foldl_hap_chain {f s v R : Term} (cf : Closed f) (wf : isWNF f = true) (cs : Closed s)
    (ws : isWNF s = true) (xs : List Term) (hv : ∀ x ∈ xs, HapValue x) (hch : FoldlCbv f s xs v) (hR : EvalHap v R) :
    EvalHap (app3 Gen.PList.foldl f s (pairList xs)) R := by
  obtain ⟨q, hq, hrec⟩ := foldl_core f cf wf
  refine hap_app3_fn (g := q) ?_ (hrec xs s v R hv cs ws hch hR)
  rw [foldl_eq]; exact EagerListB.cbv_Z closed_foldlF (by decide) hq

/-- `foldr`, relational form: the chain of HAP results -/
theorem plist_foldr_hap_chain {f a R : Term} (cf : Closed f) (wf : isWNF f = true) (ha : HapValue a)
    (xs : List Term) (hv : ∀ x ∈ xs, HapValue x) (hch : FoldrHap f a xs R) :
    EvalHap (app3 Gen.PList.foldr f a (pairList xs)) R := by
  obtain ⟨G, h1, hG, wG, q, hq, hrec⟩ := foldr_core f cf wf a ha.closed ha.normal
  exact foldr_top h1 hG wG hq (normal_pairList_values hv) (hrec xs R hv hch)

/-- the chain of `foldl` from an invariant `P v j` ("the weak value `v` represents `j`") preserved by the steps -/
theorem foldlCbv_of_inv {γ : Type} {f : Term} (e : α → Term) (op : γ → α → γ) (P : Term → γ → Prop) (ns : List α)
    (hstep : ∀ v j, ∀ a ∈ ns, P v j → ∃ v', EvalCbv (app2 f v (e a)) v' ∧ P v' (op j a)) :
    ∀ (s : Term) (j : γ), P s j → ∃ v, FoldlCbv f s (ns.map e) v ∧ P v (ns.foldl op j) := by
  induction ns with
  | nil => intro s j h; exact ⟨s, FoldlCbv.nil s, h⟩
  | cons n ns ih =>
    intro s j h
    obtain ⟨s', h1, h2⟩ := hstep s j n List.mem_cons_self h
    obtain ⟨v, h3, h4⟩ := ih (fun v j a ha => hstep v j a (List.mem_cons_of_mem _ ha)) s' (op j n) h2
    exact ⟨v, FoldlCbv.cons h1 h3, h4⟩

/-- `foldl` with an invariant on the (weak) accumulators -/
theorem plist_foldl_hap_inv {γ : Type} {f s : Term} (cf : Closed f) (wf : isWNF f = true) (cs : Closed s)
    (ws : isWNF s = true) (e : α → Term) (enc : γ → Term) (op : γ → α → γ) (P : Term → γ → Prop) (ns : List α) (j : γ)
    (hv : ∀ a ∈ ns, HapValue (e a)) (hP : ∀ v j, P v j → EvalHap v (enc j)) (hs : P s j)
    (hstep : ∀ v j, ∀ a ∈ ns, P v j → ∃ v', EvalCbv (app2 f v (e a)) v' ∧ P v' (op j a)) :
    EvalHap (app3 Gen.PList.foldl f s (pairList (ns.map e))) (enc (ns.foldl op j)) := by
  obtain ⟨v, h1, h2⟩ := foldlCbv_of_inv e op P ns hstep s j hs
  exact plist_foldl_hap_chain cf wf cs ws _ (hv_map hv) h1 (hP _ _ h2)

/-- the chain of `foldr` from the step results -/
theorem foldrHap_of_steps {γ : Type} {f : Term} (e : α → Term) (enc : γ → Term) (op : α → γ → γ) (ns : List α) (j : γ)
    (hstep : ∀ a ∈ ns, ∀ j, EvalHap (app2 f (e a) (enc j)) (enc (op a j))) :
    FoldrHap f (enc j) (ns.map e) (enc (ns.foldr op j)) := by
  induction ns with
  | nil => exact FoldrHap.nil
  | cons n ns ih =>
    exact FoldrHap.cons (ih fun a ha => hstep a (List.mem_cons_of_mem _ ha)) (hstep n List.mem_cons_self _)

end Top

/-! ## 10. divergence of the model reducer, from a cycle of the one-step strategy -/

/-- `k` steps of a one-step function -/
def iterStep (f : Term → Option Term) : Nat → Term → Option Term
  | 0, t => some t
  | k + 1, t => (f t).bind (iterStep f k)

theorem iterStep_of_iter {f : Term → Option Term} {k : Nat} {t u : Term} (h : Iter f k t u) :
    iterStep f k t = some u := by
  induction h with
  | zero t => rfl
  | succ hs _ ih => simp [iterStep, hs, ih]

theorem iterStep_add (f : Term → Option Term) (a b : Nat) (t : Term) :
    iterStep f (a + b) t = (iterStep f a t).bind (iterStep f b) := by
  induction a generalizing t with
  | zero => simp [iterStep]
  | succ a ih =>
    rw [Nat.add_right_comm]
    simp only [iterStep]
    cases f t with
    | none => rfl
    | some u => simp [ih]

theorem iterStep_fix {f : Term → Option Term} {T : Term} (h : f T = some T) (k : Nat) : iterStep f k T = some T := by
  induction k with
  | zero => rfl
  | succ k ih => simp [iterStep, h, ih]

/-- a term whose strategy reduction sequence runs into a one-step cycle `T → T` never reaches a strategy-normal form -/
theorem no_normal_form_of_cycle {f : Term → Option Term} {N : Nat} {t0 T : Term} (h0 : iterStep f N t0 = some T)
    (hT : f T = some T) {k : Nat} {u : Term} (h : Iter f k t0 u) : f u ≠ none := by
  have hk := iterStep_of_iter h
  intro hu
  by_cases hle : N ≤ k
  · obtain ⟨d, rfl⟩ := Nat.exists_eq_add_of_le hle
    rw [iterStep_add, h0] at hk
    simp only [Option.bind_some, iterStep_fix hT] at hk
    injection hk with hk
    subst hk
    rw [hT] at hu; cases hu
  · obtain ⟨d, hd⟩ := Nat.exists_eq_add_of_le (show k + 1 ≤ N by omega)
    rw [hd, Nat.add_assoc, iterStep_add, hk] at h0
    simp only [Option.bind_some] at h0
    rw [Nat.add_comm, iterStep] at h0
    rw [hu] at h0
    cases h0

/-- … hence `reduce .HAP 0` (no step limit) returns `none` for EVERY fuel -/
theorem reduce_hap_diverges {N : Nat} {t0 T : Term} (h0 : iterStep stepHap N t0 = some T)
    (hT : stepHap T = some T) (fuel : Nat) : reduce .HAP 0 fuel t0 = none := by
  cases h : reduce .HAP 0 fuel t0 with
  | none => rfl
  | some r =>
    obtain ⟨t', c⟩ := r
    obtain ⟨it, _, hnf⟩ := reduce_sound .HAP 0 fuel t0 t' c h
    exact absurd (hnf (Or.inl rfl)) (no_normal_form_of_cycle h0 hT it)

/-- decidable form of the hypothesis of `reduce_hap_diverges` (two ground facts for `decide +kernel`) -/
theorem diverges_of_cycle {N : Nat} {t0 : Term}
    (h : (iterStep stepHap N t0).isSome = true ∧ (iterStep stepHap N t0).bind stepHap = iterStep stepHap N t0)
    (fuel : Nat) : reduce .HAP 0 fuel t0 = none := by
  cases hT : iterStep stepHap N t0 with
  | none => simp [hT] at h
  | some T =>
    rw [hT] at h
    exact reduce_hap_diverges hT (by simpa using h.2) fuel

theorem hapValue_isWNF {v : Term} (h : HapValue v) : isWNF v = true := isNormal_isWNF h.normal

end HigherHap
end LC
