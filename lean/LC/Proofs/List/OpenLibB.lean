/-
C16 (more) — layer 1 of the pair-list library on lists of ARBITRARY (open) terms, part B:
`foldr` (its functional depends on the arbitrary `f`, `a`: open fixed-point unfolding), and the functions involving Church
numerals `length take drop replicate index list`.  Same conventions as part A (`ocell`, `opl`).
-/
import LC.Proofs.List.OpenLibA
import LC.Proofs.List.PairLibB

namespace LC
open Term Spec Enc ListMore OpenLib

namespace OpenLib

/-! ### the fixed-point combinator on an ARBITRARY (open) functional -/

def ZWo (g : Term) : Term := abs (app (shiftFV 1 0 g) (abs (app2 (var 2) (var 2) (var 1))))
def ZFo (g : Term) : Term := app (ZWo g) (ZWo g)

theorem Z_unfold_open (g : Term) : app Gen.Comb.Z g ↠ ZFo g := by
  lc_beta; exact Star.refl _

theorem ZFo_unfold (g : Term) : ZFo g ↠ app g (abs (app (shiftFV 1 0 (ZFo g)) (var 1))) := by
  show app (ZWo g) (ZWo g) ↠ _
  rw [show ZWo g = abs (app (shiftFV 1 0 g) (abs (app2 (var 2) (var 2) (var 1)))) from rfl]
  lc_beta
  exact Star.refl _

theorem ZFo_stub (x v : Term) : app (abs (app (shiftFV 1 0 x) (var 1))) v ↠ app x v := by
  lc_beta; exact Star.refl _

theorem ZFo_closed {g : Term} (h : Closed g) : ZFo g = ZF g := by
  simp only [ZFo, ZWo, ZF, ZW, shiftFV_closed 1 0 h]

/-! ### foldr -/

/-- the functional of `foldr` after instantiating ARBITRARY `f` and `a` -/
def foldrGo (f a : Term) : Term :=
  abs (abs (app4 Gen.PList.is_nil (var 1) (abs (shiftFV 3 0 a))
    (abs (app2 (shiftFV 3 0 f) (app Gen.PList.head (var 2)) (app (var 3) (app Gen.PList.tail (var 2))))) Gen.Comb.I))

theorem foldr_unfold_open (f a l : Term) :
    app3 Gen.PList.foldr f a l ↠ app (ZFo (foldrGo f a)) l := by
  lc_beta 3; lc_head (Z_unfold_open _); exact Star.refl _

theorem foldr_nil_open (f a : Term) : app (ZFo (foldrGo f a)) (pairList []) ↠ a := by
  lc_head (ZFo_unfold _)
  generalize ZFo (foldrGo f a) = r
  unfold foldrGo
  lc_beta 2
  lc_trans (sel_nil _ _ _); lc_beta; exact Star.refl _

theorem foldr_cons_open (f a t l : Term) :
    app (ZFo (foldrGo f a)) (ocell t l) ↠ app2 f t (app (ZFo (foldrGo f a)) l) := by
  lc_head (ZFo_unfold _)
  generalize ZFo (foldrGo f a) = r
  unfold foldrGo
  lc_beta 2
  lc_trans (sel_ocell _ _ _ _ _); lc_beta
  lc_rw (head_ocell t l); lc_rw (tail_ocell t l); lc_rw (ZFo_stub r _)
  exact Star.refl _

end OpenLib
open OpenLib

theorem plist_foldr_open (f a : Term) (xs : List Term) :
    app3 Gen.PList.foldr f a (opl xs) ↠ xs.foldr (fun x acc => app2 f x acc) a := by
  lc_trans (foldr_unfold_open f a _)
  induction xs with
  | nil => exact foldr_nil_open f a
  | cons t ts ih =>
    rw [opl_cons]
    lc_trans (foldr_cons_open f a t _)
    exact Star.congAppR _ ih

namespace OpenLib
open PairLibB (lengthF length_eq closed_lengthF takeF take_eq closed_takeF dropF drop_eq closed_dropF replicateF
  replicate_eq closed_replicateF listG list_eq closed_listG pred_succ foldl_app_star)

theorem is_nil_sel_nil (A B : Term) :
    app4 Gen.PList.is_nil (pairList []) A B Gen.Comb.I ↠ app A Gen.Comb.I := PairLibB.is_nil_sel_nil A B

/-! ### length -/

theorem length_acc (xs : List Term) (k : Nat) :
    app2 (ZF lengthF) (intoChurch k) (opl xs) ↠ intoChurch (k + xs.length) := by
  induction xs generalizing k with
  | nil =>
    lc_head (ZF_unfold closed_lengthF); lc_beta 3
    lc_trans (is_nil_sel_nil _ _); lc_beta; exact Star.refl _
  | cons x xs ih =>
    rw [opl_cons]
    lc_head (ZF_unfold closed_lengthF); lc_beta 3
    lc_trans (sel_ocell _ _ _ _ _); lc_beta
    lc_head (ZF_stub closed_lengthF _)
    lc_trans (Star.congApp (Star.congAppR _ (church_succ_correct k)) (tail_ocell _ _))
    rw [show k + (xs.length + 1) = (k + 1) + xs.length by omega]
    exact ih (k + 1)

/-! ### take -/

theorem take_ZF (n : Nat) (xs : List Term) :
    app2 (ZF takeF) (intoChurch n) (opl xs) ↠ opl (xs.take n) := by
  induction xs generalizing n with
  | nil =>
    lc_head (ZF_unfold closed_takeF); lc_beta 3
    lc_trans (is_nil_sel_nil _ _); lc_beta; exact Star.refl _
  | cons x xs ih =>
    rw [opl_cons]
    lc_head (ZF_unfold closed_takeF); lc_beta 3
    lc_trans (sel_ocell _ _ _ _ _); lc_beta
    lc_head (church_is_zero_correct n)
    cases n with
    | zero => lc_trans (tru_elim _ _); exact Star.refl _
    | succ n =>
      lc_trans (fls_elim _ _)
      lc_rw (ZF_stub closed_takeF _)
      lc_rw (pred_succ n)
      lc_rw (tail_ocell _ _)
      lc_rw (head_ocell _ _)
      exact cons_star (ih n)

/-! ### drop -/

theorem drop_ZF (n : Nat) (xs : List Term) :
    app2 (ZF dropF) (intoChurch n) (opl xs) ↠ opl (xs.drop n) := by
  induction xs generalizing n with
  | nil =>
    lc_head (ZF_unfold closed_dropF); lc_beta 3
    lc_trans (is_nil_sel_nil _ _); lc_beta; exact Star.refl _
  | cons x xs ih =>
    rw [opl_cons]
    lc_head (ZF_unfold closed_dropF); lc_beta 3
    lc_trans (sel_ocell _ _ _ _ _); lc_beta
    lc_head (church_is_zero_correct n)
    cases n with
    | zero => lc_trans (tru_elim _ _); rw [List.drop_zero, opl_cons]; exact Star.refl _
    | succ n =>
      lc_trans (fls_elim _ _)
      lc_head (ZF_stub closed_dropF _)
      lc_trans (Star.congApp (Star.congAppR _ (pred_succ n)) (tail_ocell _ _))
      exact ih n

/-! ### replicate -/

theorem replicate_ZF (n : Nat) (y : Term) :
    app2 (ZF replicateF) (intoChurch n) y ↠ opl (List.replicate n y) := by
  induction n with
  | zero =>
    lc_head (ZF_unfold closed_replicateF); lc_beta 3
    lc_head (church_is_zero_correct 0); lc_head (tru_elim _ _); lc_beta; exact Star.refl _
  | succ n ih =>
    lc_head (ZF_unfold closed_replicateF); lc_beta 3
    lc_head (church_is_zero_correct (n + 1)); lc_head (fls_elim _ _); lc_beta
    lc_rw (ZF_stub closed_replicateF _)
    lc_rw (pred_succ n)
    rw [List.replicate_succ]
    lc_trans (Star.congAppR _ ih)
    rw [opl_cons]
    exact pair_ocell _ _

/-! ### index -/

theorem iter_tail (n : Nat) (xs : List Term) (hn : n ≤ xs.length) :
    iterApp Gen.PList.tail (opl xs) n ↠ opl (xs.drop n) := by
  induction n generalizing xs with
  | zero => exact Star.refl _
  | succ n ih =>
    cases xs with
    | nil => simp at hn
    | cons x xs =>
      rw [iterApp_succ', opl_cons]
      lc_trans (Star.iterApp (Star.refl _) (tail_ocell _ _) n)
      exact ih xs (by simpa using hn)

/-! ### list -/

theorem listG_step (f x : Term) (ys : List Term) :
    app3 listG f (opl ys) x ↠ app f (opl (x :: ys)) := by
  have h := law_of_norSteps 3 (app3 listG (var 1) (var 2) (var 3)) (app (var 1) (app2 Gen.PList.cons (var 3) (var 2)))
    (by decide) [f, opl ys, x]
  have hc := closed_listG
  lc_simp at h
  lc_trans h
  exact Star.congAppR _ (cons_opl x ys)

theorem list_acc (xs ys : List Term) :
    xs.foldl (fun acc x => app acc x) (app (iterApp listG Gen.PList.reverse xs.length) (opl ys)) ↠
      opl (ys.reverse ++ xs) := by
  induction xs generalizing ys with
  | nil => simpa using plist_reverse_open ys
  | cons x xs ih =>
    rw [List.length_cons, iterApp_succ, List.foldl_cons]
    lc_trans (foldl_app_star (listG_step _ x ys) xs)
    have h := ih (x :: ys)
    rw [List.reverse_cons, List.append_assoc] at h
    exact h

end OpenLib
open OpenLib
open PairLibB (lengthF length_eq closed_lengthF takeF take_eq closed_takeF dropF drop_eq closed_dropF replicateF
  replicate_eq closed_replicateF listG list_eq closed_listG foldl_app_star)

theorem plist_length_open (xs : List Term) : app Gen.PList.length (opl xs) ↠ intoChurch xs.length := by
  rw [length_eq]; lc_head (Z_unfold closed_lengthF)
  have h := length_acc xs 0
  rw [Nat.zero_add] at h; exact h

theorem plist_take_open (n : Nat) (xs : List Term) :
    app2 Gen.PList.take (intoChurch n) (opl xs) ↠ opl (xs.take n) := by
  rw [take_eq]; lc_head (Z_unfold closed_takeF); exact take_ZF n xs

theorem plist_drop_open (n : Nat) (xs : List Term) :
    app2 Gen.PList.drop (intoChurch n) (opl xs) ↠ opl (xs.drop n) := by
  rw [drop_eq]; lc_head (Z_unfold closed_dropF); exact drop_ZF n xs

theorem plist_replicate_open (n : Nat) (y : Term) :
    app2 Gen.PList.replicate (intoChurch n) y ↠ opl (List.replicate n y) := by
  rw [replicate_eq]; lc_head (Z_unfold closed_replicateF); exact replicate_ZF n y

theorem plist_index_open (xs : List Term) (n : Nat) (hn : n < xs.length) :
    app2 Gen.PList.index (intoChurch n) (opl xs) ↠ xs[n] := by
  have h := law_of_norSteps 2 (app2 Gen.PList.index (var 1) (var 2))
    (app Gen.PList.head (app2 (var 1) Gen.PList.tail (var 2))) (by decide) [intoChurch n, opl xs]
  lc_simp at h
  lc_trans h
  lc_rw (church_elim n _ _)
  lc_rw (iter_tail n xs (Nat.le_of_lt hn))
  rw [List.drop_eq_getElem_cons hn, opl_cons]
  exact head_ocell _ _

theorem plist_list_open (xs : List Term) :
    (xs.foldl (fun acc x => app acc x) (app Gen.PList.list (intoChurch xs.length))) ↠ opl xs := by
  have h1 : app Gen.PList.list (intoChurch xs.length) ↠
      app (iterApp listG Gen.PList.reverse xs.length) (pairList []) := by
    rw [list_eq]; lc_beta; lc_head (church_elim _ _ _); exact Star.refl _
  lc_trans (foldl_app_star h1 xs)
  have h := list_acc xs []
  rw [opl_nil] at h
  simpa using h

/-! ## `length` on the RAW conversion of ANY list: no hypothesis on the elements at all

(the elements are never inspected; a `tail` substitutes into the remaining cells, which stay a conversion of the same
length: `applyAux_pairList`) -/

namespace OpenLib

theorem applyAux_pairList (r : Term) (d : Nat) (hd : 1 ≤ d) (ts : List Term) :
    ∃ ts', ts'.length = ts.length ∧ applyAux r d (pairList ts) = pairList ts' := by
  induction ts generalizing d with
  | nil =>
    refine ⟨[], rfl, ?_⟩
    have h1 : ¬ 1 = d + 1 + 1 := by omega
    have h2 : ¬ 1 > d + 1 + 1 := by omega
    simp only [pairList, applyAux, h1, h2, if_false]
  | cons t ts ih =>
    obtain ⟨ts', hl, he⟩ := ih (d + 1) (by omega)
    refine ⟨applyAux r (d + 1) t :: ts', by simp [hl], ?_⟩
    have h1 : ¬ 1 = d + 1 := by omega
    have h2 : ¬ 1 > d + 1 := by omega
    simp only [pairList, applyAux, h1, h2, if_false, he]

theorem is_nil_rawcell (t l : Term) : app Gen.PList.is_nil (tuple2 t l) ↠ Gen.Bool.fls := by
  unfold tuple2
  lc_beta
  lc_head (Star.redc _ _)
  simp only [contract, applyAux, if_true, Nat.sub_self, shiftFV_zero]
  exact k5_law _ _ _

theorem tail_rawcell (t l : Term) : app Gen.PList.tail (tuple2 t l) ↠ applyAux Gen.Bool.fls 1 l := by
  unfold tuple2
  lc_beta
  lc_head (Star.redc _ _)
  simp only [contract, applyAux, if_true, Nat.sub_self, shiftFV_zero]
  exact fls_elim _ _

theorem length_any_acc (n : Nat) : ∀ (xs : List Term), xs.length = n → ∀ k,
    app2 (ZF lengthF) (intoChurch k) (pairList xs) ↠ intoChurch (k + n) := by
  induction n with
  | zero =>
    intro xs hx k
    cases xs with
    | cons x xs => simp at hx
    | nil =>
      lc_head (ZF_unfold closed_lengthF); lc_beta 3
      lc_trans (is_nil_sel_nil _ _); lc_beta; exact Star.refl _
  | succ n ih =>
    intro xs hx k
    cases xs with
    | nil => simp at hx
    | cons x xs =>
      show app2 (ZF lengthF) (intoChurch k) (tuple2 x (pairList xs)) ↠ _
      obtain ⟨ts', hl, he⟩ := applyAux_pairList Gen.Bool.fls 1 (Nat.le_refl 1) xs
      generalize pairList xs = l at *
      lc_head (ZF_unfold closed_lengthF); lc_beta 3
      lc_head (is_nil_rawcell x l); lc_head (fls_elim _ _); lc_beta
      lc_head (ZF_stub closed_lengthF _)
      lc_trans (Star.congApp (Star.congAppR _ (church_succ_correct k)) (tail_rawcell _ _))
      rw [he, show k + (n + 1) = (k + 1) + n by omega]
      exact ih ts' (by simpa [hl] using hx) (k + 1)

end OpenLib

theorem plist_length_any (xs : List Term) : app Gen.PList.length (pairList xs) ↠ intoChurch xs.length := by
  rw [length_eq]; lc_head (Z_unfold closed_lengthF)
  have h := length_any_acc xs.length xs rfl 0
  rw [Nat.zero_add] at h; exact h

end LC
