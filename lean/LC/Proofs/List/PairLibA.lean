/-
Layer-1 correctness of the pair-list library (`/repo/src/data/list/pair.rs`), part A:
reverse, append, map, foldl, foldr, filter, take_while, drop_while, last, init, zip, zip_with.
-/
import LC.Proofs.Num.Toolkit

namespace LC
open Term Spec Enc

namespace PairLibA

/-! ### basic cell facts (closed head `t`, closed tail `l`) -/

theorem closed_nil : Closed (pairList []) := by decide

theorem closed_tail {t : Term} {ts : List Term} (h : ∀ u ∈ t :: ts, Closed u) : ∀ u ∈ ts, Closed u :=
  fun u hu => h u (List.mem_cons_of_mem _ hu)

theorem closed_cons {t : Term} {ts : List Term} (ht : Closed t) (hts : ∀ u ∈ ts, Closed u) :
    ∀ u ∈ t :: ts, Closed u := by
  intro u hu
  rcases List.mem_cons.1 hu with rfl | h
  · exact ht
  · exact hts u h

theorem is_nil_nil : app Gen.PList.is_nil (pairList []) ↠ Gen.Bool.tru := by
  lc_beta; lc_trans (pairList_elim_nil _ _); exact Star.refl _

theorem is_nil_tuple {t l : Term} (ht : Closed t) (hl : Closed l) :
    app Gen.PList.is_nil (tuple2 t l) ↠ Gen.Bool.fls := by
  lc_beta; lc_head (tuple2_elim ht hl _); lc_beta 3; exact Star.refl _

/-- `IS_NIL NIL A B C ↠ A C` (selection of the thunked nil-branch) -/
theorem sel_nil (a b c : Term) : app4 Gen.PList.is_nil (pairList []) a b c ↠ app a c := by
  lc_head is_nil_nil; lc_head (tru_elim _ _); exact Star.refl _

/-- `IS_NIL (t :: l) A B C ↠ B C` (selection of the thunked cons-branch) -/
theorem sel_tuple {t l : Term} (ht : Closed t) (hl : Closed l) (a b c : Term) :
    app4 Gen.PList.is_nil (tuple2 t l) a b c ↠ app b c := by
  lc_head (is_nil_tuple ht hl); lc_head (fls_elim _ _); exact Star.refl _

theorem head_tuple {t l : Term} (ht : Closed t) (hl : Closed l) : app Gen.PList.head (tuple2 t l) ↠ t :=
  pair_fst ht hl

theorem tail_tuple {t l : Term} (ht : Closed t) (hl : Closed l) : app Gen.PList.tail (tuple2 t l) ↠ l :=
  pair_snd ht hl

theorem cons_tuple {t l : Term} (ht : Closed t) (hl : Closed l) : app2 Gen.PList.cons t l ↠ tuple2 t l :=
  pair_mk ht hl

/-- congruence inside a cell -/
theorem tuple_cong {a a' b b' : Term} (ha : a ↠ a') (hb : b ↠ b') : tuple2 a b ↠ tuple2 a' b' :=
  Star.congAbs (Star.congApp (Star.congAppR _ ha) hb)

/-! the requested list-level basics -/

theorem is_nil_correct {ts : List Term} (hts : ∀ u ∈ ts, Closed u) :
    app Gen.PList.is_nil (pairList ts) ↠ fromBool ts.isEmpty := by
  cases ts with
  | nil => exact is_nil_nil
  | cons t ts => exact is_nil_tuple (hts t (by simp)) (closed_pairList (closed_tail hts))

theorem head_correct {t : Term} {ts : List Term} (ht : Closed t) (hts : ∀ u ∈ ts, Closed u) :
    app Gen.PList.head (pairList (t :: ts)) ↠ t := head_tuple ht (closed_pairList hts)

theorem tail_correct {t : Term} {ts : List Term} (ht : Closed t) (hts : ∀ u ∈ ts, Closed u) :
    app Gen.PList.tail (pairList (t :: ts)) ↠ pairList ts := tail_tuple ht (closed_pairList hts)

theorem cons_correct {t : Term} {ts : List Term} (ht : Closed t) (hts : ∀ u ∈ ts, Closed u) :
    app2 Gen.PList.cons t (pairList ts) ↠ pairList (t :: ts) := cons_tuple ht (closed_pairList hts)

/-! ### reverse -/

def revF : Term := appArg (appFn Gen.PList.reverse)
theorem reverse_eq : Gen.PList.reverse = app2 Gen.Comb.Z revF (pairList []) := by decide
theorem closed_revF : Closed revF := by decide

theorem rev_nil {a : Term} (ha : Closed a) : app2 (ZF revF) a (pairList []) ↠ a := by
  lc_head (ZF_unfold closed_revF); lc_beta 3
  lc_trans (sel_nil _ _ _); lc_beta; exact Star.refl _

theorem rev_cons {a t l : Term} (ha : Closed a) (ht : Closed t) (hl : Closed l) :
    app2 (ZF revF) a (tuple2 t l) ↠ app2 (ZF revF) (tuple2 t a) l := by
  lc_head (ZF_unfold closed_revF); lc_beta 3
  lc_trans (sel_tuple ht hl _ _ _); lc_beta
  lc_head (ZF_stub closed_revF _)
  lc_rw (head_tuple ht hl); lc_rw (tail_tuple ht hl); lc_rw (cons_tuple ht ha)
  exact Star.refl _

theorem rev_aux (xs : List Term) (hxs : ∀ t ∈ xs, Closed t) (acc : List Term) (hacc : ∀ t ∈ acc, Closed t) :
    app2 (ZF revF) (pairList acc) (pairList xs) ↠ pairList (xs.reverse ++ acc) := by
  induction xs generalizing acc with
  | nil => exact rev_nil (closed_pairList hacc)
  | cons t ts ih =>
    have ht := hxs t (by simp)
    have hts := closed_tail hxs
    lc_trans (rev_cons (closed_pairList hacc) ht (closed_pairList hts))
    rw [List.reverse_cons, List.append_assoc]
    exact ih hts (t :: acc) (closed_cons ht hacc)

/-! ### append -/

def appendF : Term := appArg Gen.PList.append
theorem append_eq : Gen.PList.append = app Gen.Comb.Z appendF := by decide
theorem closed_appendF : Closed appendF := by decide

theorem append_nil {b : Term} (hb : Closed b) : app2 (ZF appendF) (pairList []) b ↠ b := by
  lc_head (ZF_unfold closed_appendF); lc_beta 3
  lc_trans (sel_nil _ _ _); lc_beta; exact Star.refl _

theorem append_cons {t l b : Term} (ht : Closed t) (hl : Closed l) (hb : Closed b) :
    app2 (ZF appendF) (tuple2 t l) b ↠ tuple2 t (app2 (ZF appendF) l b) := by
  lc_head (ZF_unfold closed_appendF); lc_beta 3
  lc_trans (sel_tuple ht hl _ _ _); lc_beta
  lc_rw (head_tuple ht hl); lc_rw (tail_tuple ht hl); lc_rw (ZF_stub closed_appendF _)
  lc_beta 2; exact Star.refl _

/-! ### map -/

def mapF : Term := appArg Gen.PList.map
theorem map_eq : Gen.PList.map = app Gen.Comb.Z mapF := by decide
theorem closed_mapF : Closed mapF := by decide

theorem map_nil {f : Term} (hf : Closed f) : app2 (ZF mapF) f (pairList []) ↠ pairList [] := by
  lc_head (ZF_unfold closed_mapF); lc_beta 3
  lc_trans (sel_nil _ _ _); lc_beta; exact Star.refl _

theorem map_cons {f t l : Term} (hf : Closed f) (ht : Closed t) (hl : Closed l) :
    app2 (ZF mapF) f (tuple2 t l) ↠ tuple2 (app f t) (app2 (ZF mapF) f l) := by
  lc_head (ZF_unfold closed_mapF); lc_beta 3
  lc_trans (sel_tuple ht hl _ _ _); lc_beta
  lc_rw (head_tuple ht hl); lc_rw (tail_tuple ht hl); lc_rw (ZF_stub closed_mapF _)
  lc_beta 2; exact Star.refl _

/-! ### foldl -/

def foldlF : Term := appArg Gen.PList.foldl
theorem foldl_eq : Gen.PList.foldl = app Gen.Comb.Z foldlF := by decide
theorem closed_foldlF : Closed foldlF := by decide

theorem foldl_nil {f s : Term} (hf : Closed f) (hs : Closed s) : app3 (ZF foldlF) f s (pairList []) ↠ s := by
  lc_head (ZF_unfold closed_foldlF); lc_beta 4
  lc_trans (sel_nil _ _ _); lc_beta; exact Star.refl _

theorem foldl_cons {f s t l : Term} (hf : Closed f) (hs : Closed s) (ht : Closed t) (hl : Closed l) :
    app3 (ZF foldlF) f s (tuple2 t l) ↠ app3 (ZF foldlF) f (app2 f s t) l := by
  lc_head (ZF_unfold closed_foldlF); lc_beta 4
  lc_trans (sel_tuple ht hl _ _ _); lc_beta
  lc_head (ZF_stub closed_foldlF _)
  lc_rw (head_tuple ht hl); lc_rw (tail_tuple ht hl)
  exact Star.refl _

/-! ### foldr  (`FOLDR ≡ λfal.Z (λzt.IS_NIL t (λx.a) (λx.f (HEAD t) (z (TAIL t))) I) l`: the functional depends on `f`, `a`) -/

/-- the functional of `foldr` after instantiating `f` and `a` (closed), written with the constants BY NAME;
`foldr_unfold` checks it against the generated `Gen.PList.foldr` -/
def foldrG (f a : Term) : Term :=
  abs (abs (app4 Gen.PList.is_nil (var 1) (abs a)
    (abs (app2 f (app Gen.PList.head (var 2)) (app (var 3) (app Gen.PList.tail (var 2))))) Gen.Comb.I))

theorem closed_foldrG {f a : Term} (hf : Closed f) (ha : Closed a) : Closed (foldrG f a) := by
  lc_simp [foldrG]

theorem foldr_unfold {f a : Term} (hf : Closed f) (ha : Closed a) (l : Term) (hl : Closed l) :
    app3 Gen.PList.foldr f a l ↠ app (ZF (foldrG f a)) l := by
  lc_beta 3; lc_head (Z_unfold (closed_foldrG hf ha)); exact Star.refl _

theorem foldr_nil {f a : Term} (hf : Closed f) (ha : Closed a) :
    app (ZF (foldrG f a)) (pairList []) ↠ a := by
  have hG := closed_foldrG hf ha
  lc_head (ZF_unfold hG); lc_beta 2
  lc_trans (sel_nil _ _ _); lc_beta; exact Star.refl _

theorem foldr_cons {f a t l : Term} (hf : Closed f) (ha : Closed a) (ht : Closed t) (hl : Closed l) :
    app (ZF (foldrG f a)) (tuple2 t l) ↠ app2 f t (app (ZF (foldrG f a)) l) := by
  have hG := closed_foldrG hf ha
  lc_head (ZF_unfold hG); lc_beta 2
  lc_trans (sel_tuple ht hl _ _ _); lc_beta
  lc_rw (head_tuple ht hl); lc_rw (tail_tuple ht hl); lc_rw (ZF_stub hG _)
  exact Star.refl _

/-! ### filter -/

def filterF : Term := appArg Gen.PList.filter
theorem filter_eq : Gen.PList.filter = app Gen.Comb.Z filterF := by decide
theorem closed_filterF : Closed filterF := by decide

theorem filter_nil {p : Term} (hp : Closed p) : app2 (ZF filterF) p (pairList []) ↠ pairList [] := by
  lc_head (ZF_unfold closed_filterF); lc_beta 3
  lc_trans (sel_nil _ _ _); lc_beta; exact Star.refl _

theorem filter_cons {p t l : Term} (hp : Closed p) (ht : Closed t) (hl : Closed l) :
    app2 (ZF filterF) p (tuple2 t l) ↠
      app3 (app p t) (app Gen.PList.cons t) Gen.Comb.I (app2 (ZF filterF) p l) := by
  lc_head (ZF_unfold closed_filterF); lc_beta 3
  lc_trans (sel_tuple ht hl _ _ _); lc_beta
  lc_rw (head_tuple ht hl); lc_rw (head_tuple ht hl); lc_rw (tail_tuple ht hl)
  lc_rw (ZF_stub closed_filterF _)
  exact Star.refl _

/-! ### take_while -/

def takeWhileF : Term := appArg Gen.PList.take_while
theorem take_while_eq : Gen.PList.take_while = app Gen.Comb.Z takeWhileF := by decide
theorem closed_takeWhileF : Closed takeWhileF := by decide

theorem take_while_nil {p : Term} (hp : Closed p) :
    app2 (ZF takeWhileF) p (pairList []) ↠ pairList [] := by
  lc_head (ZF_unfold closed_takeWhileF); lc_beta 3
  lc_trans (sel_nil _ _ _); lc_beta; exact Star.refl _

theorem take_while_cons {p t l : Term} (hp : Closed p) (ht : Closed t) (hl : Closed l) :
    app2 (ZF takeWhileF) p (tuple2 t l) ↠
      app2 (app p t) (tuple2 t (app2 (ZF takeWhileF) p l)) (pairList []) := by
  lc_head (ZF_unfold closed_takeWhileF); lc_beta 3
  lc_trans (sel_tuple ht hl _ _ _); lc_beta
  lc_rw (head_tuple ht hl); lc_rw (head_tuple ht hl); lc_rw (tail_tuple ht hl)
  lc_rw (ZF_stub closed_takeWhileF _)
  lc_rw (cons_tuple ht (show Closed (app2 (ZF takeWhileF) p l) by lc_simp))
  exact Star.refl _

/-! ### drop_while -/

def dropWhileF : Term := appArg Gen.PList.drop_while
theorem drop_while_eq : Gen.PList.drop_while = app Gen.Comb.Z dropWhileF := by decide
theorem closed_dropWhileF : Closed dropWhileF := by decide

theorem drop_while_nil {p : Term} (hp : Closed p) :
    app2 (ZF dropWhileF) p (pairList []) ↠ pairList [] := by
  lc_head (ZF_unfold closed_dropWhileF); lc_beta 3
  lc_trans (sel_nil _ _ _); lc_beta; exact Star.refl _

theorem drop_while_cons {p t l : Term} (hp : Closed p) (ht : Closed t) (hl : Closed l) :
    app2 (ZF dropWhileF) p (tuple2 t l) ↠
      app2 (app p t) (app2 (ZF dropWhileF) p l) (tuple2 t l) := by
  lc_head (ZF_unfold closed_dropWhileF); lc_beta 3
  lc_trans (sel_tuple ht hl _ _ _); lc_beta
  lc_rw (head_tuple ht hl); lc_rw (tail_tuple ht hl)
  lc_rw (ZF_stub closed_dropWhileF _)
  exact Star.refl _

/-! ### last -/

def lastF : Term := appArg Gen.PList.last
theorem last_eq : Gen.PList.last = app Gen.Comb.Z lastF := by decide
theorem closed_lastF : Closed lastF := by decide

theorem last_nil : app (ZF lastF) (pairList []) ↠ pairList [] := by
  lc_head (ZF_unfold closed_lastF); lc_beta 2
  lc_trans (sel_nil _ _ _); lc_beta; exact Star.refl _

theorem last_cons {t l : Term} (ht : Closed t) (hl : Closed l) :
    app (ZF lastF) (tuple2 t l) ↠ app2 (app Gen.PList.is_nil l) t (app (ZF lastF) l) := by
  lc_head (ZF_unfold closed_lastF); lc_beta 2
  lc_trans (sel_tuple ht hl _ _ _); lc_beta
  lc_rw (tail_tuple ht hl); lc_rw (head_tuple ht hl); lc_rw (tail_tuple ht hl)
  lc_rw (ZF_stub closed_lastF _)
  exact Star.refl _

/-! ### init -/

def initF : Term := appArg Gen.PList.init
theorem init_eq : Gen.PList.init = app Gen.Comb.Z initF := by decide
theorem closed_initF : Closed initF := by decide

theorem init_nil : app (ZF initF) (pairList []) ↠ pairList [] := by
  lc_head (ZF_unfold closed_initF); lc_beta 2
  lc_trans (sel_nil _ _ _); lc_beta; exact Star.refl _

theorem init_cons {t l : Term} (ht : Closed t) (hl : Closed l) :
    app (ZF initF) (tuple2 t l) ↠
      app2 (app Gen.PList.is_nil l) (pairList []) (tuple2 t (app (ZF initF) l)) := by
  lc_head (ZF_unfold closed_initF); lc_beta 2
  lc_trans (sel_tuple ht hl _ _ _); lc_beta
  lc_rw (tail_tuple ht hl); lc_rw (head_tuple ht hl); lc_rw (tail_tuple ht hl)
  lc_rw (ZF_stub closed_initF _)
  lc_rw (cons_tuple ht (show Closed (app (ZF initF) l) by lc_simp))
  exact Star.refl _

/-! ### zip -/

def zipF : Term := appArg Gen.PList.zip
theorem zip_eq : Gen.PList.zip = app Gen.Comb.Z zipF := by decide
theorem closed_zipF : Closed zipF := by decide

theorem zip_nil_left {b : Term} (hb : Closed b) : app2 (ZF zipF) (pairList []) b ↠ pairList [] := by
  lc_head (ZF_unfold closed_zipF); lc_beta 3
  lc_trans (sel_nil _ _ _); lc_beta; exact Star.refl _

theorem zip_nil_right {t l : Term} (ht : Closed t) (hl : Closed l) :
    app2 (ZF zipF) (tuple2 t l) (pairList []) ↠ pairList [] := by
  lc_head (ZF_unfold closed_zipF); lc_beta 3
  lc_trans (sel_tuple ht hl _ _ _); lc_beta
  lc_head is_nil_nil; lc_trans (tru_elim _ _); exact Star.refl _

theorem zip_cons {t l u m : Term} (ht : Closed t) (hl : Closed l) (hu : Closed u) (hm : Closed m) :
    app2 (ZF zipF) (tuple2 t l) (tuple2 u m) ↠ tuple2 (tuple2 t u) (app2 (ZF zipF) l m) := by
  lc_head (ZF_unfold closed_zipF); lc_beta 3
  lc_trans (sel_tuple ht hl _ _ _); lc_beta
  lc_head (is_nil_tuple hu hm); lc_trans (fls_elim _ _)
  lc_rw (head_tuple ht hl); lc_rw (head_tuple hu hm); lc_rw (tail_tuple ht hl); lc_rw (tail_tuple hu hm)
  lc_rw (ZF_stub closed_zipF _)
  lc_rw (cons_tuple ht hu)
  exact cons_tuple (closed_tuple2 ht hu) (show Closed (app2 (ZF zipF) l m) by lc_simp)

/-! ### zip_with -/

def zipWithF : Term := appArg Gen.PList.zip_with
theorem zip_with_eq : Gen.PList.zip_with = app Gen.Comb.Z zipWithF := by decide
theorem closed_zipWithF : Closed zipWithF := by decide

theorem zip_with_nil_left {f b : Term} (hf : Closed f) (hb : Closed b) :
    app3 (ZF zipWithF) f (pairList []) b ↠ pairList [] := by
  lc_head (ZF_unfold closed_zipWithF); lc_beta 4
  lc_trans (sel_nil _ _ _); lc_beta; exact Star.refl _

theorem zip_with_nil_right {f t l : Term} (hf : Closed f) (ht : Closed t) (hl : Closed l) :
    app3 (ZF zipWithF) f (tuple2 t l) (pairList []) ↠ pairList [] := by
  lc_head (ZF_unfold closed_zipWithF); lc_beta 4
  lc_trans (sel_tuple ht hl _ _ _); lc_beta
  lc_head is_nil_nil; lc_trans (tru_elim _ _); exact Star.refl _

theorem zip_with_cons {f t l u m : Term} (hf : Closed f) (ht : Closed t) (hl : Closed l) (hu : Closed u)
    (hm : Closed m) :
    app3 (ZF zipWithF) f (tuple2 t l) (tuple2 u m) ↠ tuple2 (app2 f t u) (app3 (ZF zipWithF) f l m) := by
  lc_head (ZF_unfold closed_zipWithF); lc_beta 4
  lc_trans (sel_tuple ht hl _ _ _); lc_beta
  lc_head (is_nil_tuple hu hm); lc_trans (fls_elim _ _)
  lc_rw (head_tuple ht hl); lc_rw (head_tuple hu hm); lc_rw (tail_tuple ht hl); lc_rw (tail_tuple hu hm)
  lc_rw (ZF_stub closed_zipWithF _)
  exact cons_tuple (show Closed (app2 f t u) by lc_simp) (show Closed (app3 (ZF zipWithF) f l m) by lc_simp)

end PairLibA

open PairLibA

/-! ## main theorems -/

theorem plist_reverse_correct (xs : List Term) (hxs : ∀ t ∈ xs, Closed t) :
    app Gen.PList.reverse (pairList xs) ↠ pairList xs.reverse := by
  rw [reverse_eq]; lc_head (Z_unfold closed_revF)
  have := rev_aux xs hxs [] (by simp)
  rwa [List.append_nil] at this

theorem plist_append_correct (xs ys : List Term) (hxs : ∀ t ∈ xs, Closed t) (hys : ∀ t ∈ ys, Closed t) :
    app2 Gen.PList.append (pairList xs) (pairList ys) ↠ pairList (xs ++ ys) := by
  rw [append_eq]; lc_head (Z_unfold closed_appendF)
  have hb := closed_pairList hys
  induction xs with
  | nil => exact append_nil hb
  | cons t ts ih =>
    have hts := closed_tail hxs
    lc_trans (append_cons (hxs t (by simp)) (closed_pairList hts) hb)
    exact tuple_cong (Star.refl _) (ih hts)

theorem plist_map_correct (f : Term) (hf : Closed f) (xs : List Term) (hxs : ∀ t ∈ xs, Closed t) :
    app2 Gen.PList.map f (pairList xs) ↠ pairList (xs.map (app f)) := by
  rw [map_eq]; lc_head (Z_unfold closed_mapF)
  induction xs with
  | nil => exact map_nil hf
  | cons t ts ih =>
    have hts := closed_tail hxs
    lc_trans (map_cons hf (hxs t (by simp)) (closed_pairList hts))
    exact tuple_cong (Star.refl _) (ih hts)

theorem plist_foldl_correct (f s : Term) (hf : Closed f) (hs : Closed s) (xs : List Term)
    (hxs : ∀ t ∈ xs, Closed t) :
    app3 Gen.PList.foldl f s (pairList xs) ↠ xs.foldl (fun acc x => app2 f acc x) s := by
  rw [foldl_eq]; lc_head (Z_unfold closed_foldlF)
  induction xs generalizing s with
  | nil => exact foldl_nil hf hs
  | cons t ts ih =>
    have ht := hxs t (by simp)
    have hts := closed_tail hxs
    lc_trans (foldl_cons hf hs ht (closed_pairList hts))
    exact ih (app2 f s t) (by lc_simp) hts

theorem plist_foldr_correct (f a : Term) (hf : Closed f) (ha : Closed a) (xs : List Term)
    (hxs : ∀ t ∈ xs, Closed t) :
    app3 Gen.PList.foldr f a (pairList xs) ↠ xs.foldr (fun x acc => app2 f x acc) a := by
  lc_trans (foldr_unfold hf ha _ (closed_pairList hxs))
  induction xs with
  | nil => exact foldr_nil hf ha
  | cons t ts ih =>
    have hts := closed_tail hxs
    lc_trans (foldr_cons hf ha (hxs t (by simp)) (closed_pairList hts))
    exact Star.congAppR _ (ih hts)

theorem plist_filter_correct (p : Term) (hp : Closed p) (xs : List Term) (hxs : ∀ t ∈ xs, Closed t)
    (keep : Term → Bool) (hkeep : ∀ x ∈ xs, app p x ↠ fromBool (keep x)) :
    app2 Gen.PList.filter p (pairList xs) ↠ pairList (xs.filter keep) := by
  rw [filter_eq]; lc_head (Z_unfold closed_filterF)
  induction xs with
  | nil => exact filter_nil hp
  | cons t ts ih =>
    have ht := hxs t (by simp)
    have hts := closed_tail hxs
    have ih' := ih hts (fun x hx => hkeep x (List.mem_cons_of_mem _ hx))
    lc_trans (filter_cons hp ht (closed_pairList hts))
    lc_head (hkeep t (by simp)); lc_head (fromBool_elim _ _ _)
    rw [List.filter_cons]
    cases hk : keep t
    · simp only [Bool.false_eq_true, if_false]
      lc_trans (I_elim _); exact ih'
    · simp only [if_true]
      lc_trans (Star.congAppR _ ih')
      exact cons_correct ht (fun u hu => hts u (List.mem_filter.1 hu).1)

theorem plist_take_while_correct (p : Term) (hp : Closed p) (xs : List Term) (hxs : ∀ t ∈ xs, Closed t)
    (keep : Term → Bool) (hkeep : ∀ x ∈ xs, app p x ↠ fromBool (keep x)) :
    app2 Gen.PList.take_while p (pairList xs) ↠ pairList (xs.takeWhile keep) := by
  rw [take_while_eq]; lc_head (Z_unfold closed_takeWhileF)
  induction xs with
  | nil => exact take_while_nil hp
  | cons t ts ih =>
    have ht := hxs t (by simp)
    have hts := closed_tail hxs
    have ih' := ih hts (fun x hx => hkeep x (List.mem_cons_of_mem _ hx))
    lc_trans (take_while_cons hp ht (closed_pairList hts))
    lc_head (hkeep t (by simp)); lc_trans (fromBool_elim _ _ _)
    rw [List.takeWhile_cons]
    cases hk : keep t
    · exact Star.refl _
    · exact tuple_cong (Star.refl _) ih'

theorem plist_drop_while_correct (p : Term) (hp : Closed p) (xs : List Term) (hxs : ∀ t ∈ xs, Closed t)
    (keep : Term → Bool) (hkeep : ∀ x ∈ xs, app p x ↠ fromBool (keep x)) :
    app2 Gen.PList.drop_while p (pairList xs) ↠ pairList (xs.dropWhile keep) := by
  rw [drop_while_eq]; lc_head (Z_unfold closed_dropWhileF)
  induction xs with
  | nil => exact drop_while_nil hp
  | cons t ts ih =>
    have ht := hxs t (by simp)
    have hts := closed_tail hxs
    have ih' := ih hts (fun x hx => hkeep x (List.mem_cons_of_mem _ hx))
    lc_trans (drop_while_cons hp ht (closed_pairList hts))
    lc_head (hkeep t (by simp)); lc_trans (fromBool_elim _ _ _)
    rw [List.dropWhile_cons]
    cases hk : keep t
    · exact Star.refl _
    · exact ih'

/-- `last` of the EMPTY list is `NIL` (as the formula `… IS_NIL l (λx.NIL) …` says) -/
theorem plist_last_nil : app Gen.PList.last (pairList []) ↠ pairList [] := by
  rw [last_eq]; lc_head (Z_unfold closed_lastF); exact last_nil

theorem plist_last_correct (xs : List Term) (hxs : ∀ t ∈ xs, Closed t) (hne : xs ≠ []) :
    app Gen.PList.last (pairList xs) ↠ xs.getLast hne := by
  rw [last_eq]; lc_head (Z_unfold closed_lastF)
  induction xs with
  | nil => exact absurd rfl hne
  | cons t ts ih =>
    have ht := hxs t (by simp)
    have hts := closed_tail hxs
    lc_trans (last_cons ht (closed_pairList hts))
    cases ts with
    | nil => lc_head is_nil_nil; lc_trans (tru_elim _ _); exact Star.refl _
    | cons u us =>
      lc_head (is_nil_correct hts); lc_trans (fls_elim _ _)
      rw [List.getLast_cons_cons]
      exact ih hts (by simp)

/-- `init` of the EMPTY list is `NIL` -/
theorem plist_init_nil : app Gen.PList.init (pairList []) ↠ pairList [] := by
  rw [init_eq]; lc_head (Z_unfold closed_initF); exact init_nil

theorem plist_init_correct (xs : List Term) (hxs : ∀ t ∈ xs, Closed t) (hne : xs ≠ []) :
    app Gen.PList.init (pairList xs) ↠ pairList xs.dropLast := by
  rw [init_eq]; lc_head (Z_unfold closed_initF)
  induction xs with
  | nil => exact absurd rfl hne
  | cons t ts ih =>
    have ht := hxs t (by simp)
    have hts := closed_tail hxs
    lc_trans (init_cons ht (closed_pairList hts))
    cases ts with
    | nil => lc_head is_nil_nil; lc_trans (tru_elim _ _); exact Star.refl _
    | cons u us =>
      lc_head (is_nil_correct hts); lc_trans (fls_elim _ _)
      rw [List.dropLast_cons_cons]
      exact tuple_cong (Star.refl _) (ih hts (by simp))

theorem plist_zip_correct (xs ys : List Term) (hxs : ∀ t ∈ xs, Closed t) (hys : ∀ t ∈ ys, Closed t) :
    app2 Gen.PList.zip (pairList xs) (pairList ys) ↠
      pairList ((xs.zip ys).map (fun p => tuple2 p.1 p.2)) := by
  rw [zip_eq]; lc_head (Z_unfold closed_zipF)
  induction xs generalizing ys with
  | nil => exact zip_nil_left (closed_pairList hys)
  | cons t ts ih =>
    have ht := hxs t (by simp)
    have hts := closed_tail hxs
    cases ys with
    | nil => exact zip_nil_right ht (closed_pairList hts)
    | cons u us =>
      have hus := closed_tail hys
      lc_trans (zip_cons ht (closed_pairList hts) (hys u (by simp)) (closed_pairList hus))
      exact tuple_cong (Star.refl _) (ih us hts hus)

theorem plist_zip_with_correct (f : Term) (hf : Closed f) (xs ys : List Term) (hxs : ∀ t ∈ xs, Closed t)
    (hys : ∀ t ∈ ys, Closed t) :
    app3 Gen.PList.zip_with f (pairList xs) (pairList ys) ↠
      pairList ((xs.zip ys).map (fun p => app2 f p.1 p.2)) := by
  rw [zip_with_eq]; lc_head (Z_unfold closed_zipWithF)
  induction xs generalizing ys with
  | nil => exact zip_with_nil_left hf (closed_pairList hys)
  | cons t ts ih =>
    have ht := hxs t (by simp)
    have hts := closed_tail hxs
    cases ys with
    | nil => exact zip_with_nil_right hf ht (closed_pairList hts)
    | cons u us =>
      have hus := closed_tail hys
      lc_trans (zip_with_cons hf ht (closed_pairList hts) (hys u (by simp)) (closed_pairList hus))
      exact tuple_cong (Star.refl _) (ih us hts hus)

end LC
