/-
C16 (more) — layer 1 of the pair-list library on lists of ARBITRARY (open) terms, part A
(reverse, append, map, foldl, foldr, filter, take_while, drop_while, last, init, zip, zip_with).

The closed-element development `LC/Proofs/List/PairLibA.lean` is redone with the cell `tuple2 t l` of closed components
replaced by `ocell t l = tuple2 (shiftFV 1 0 t) (shiftFV 1 0 l)` — ARBITRARY components correctly placed under the
binder of the pair —, and `pairList xs` by `opl us = pairList (placed 1 0 us)` (`LC/Proofs/List/More.lean`): the Rust
conversion of the elements shifted over the binders they sit under.  Function arguments (`f`, `p`, start values) are
arbitrary terms too.  For closed elements `opl us = pairList us`.
-/
import LC.Proofs.List.More
import LC.Proofs.List.PairLibA

namespace LC
open Term Spec Enc ListMore

namespace OpenLib

/-- a pair-list cell with ARBITRARY components, placed under the binder of the pair -/
def ocell (t l : Term) : Term := tuple2 (shiftFV 1 0 t) (shiftFV 1 0 l)

/-- the pair list of ARBITRARY terms (each placed under the binders it sits under) -/
def opl (us : List Term) : Term := pairList (placed 1 0 us)

theorem opl_nil : opl [] = pairList [] := rfl
theorem opl_cons (u : Term) (us : List Term) : opl (u :: us) = ocell u (opl us) := pairList_placed_cons u us
theorem opl_closed {us : List Term} (h : ∀ u ∈ us, Closed u) : opl us = pairList us := by
  unfold opl; rw [placed_closed 1 0 h]

theorem ocell_elim (t l f : Term) : app (ocell t l) f ↠ app2 f t l := tuple2_elim_open t l f

theorem is_nil_nil : app Gen.PList.is_nil (pairList []) ↠ Gen.Bool.tru := PairLibA.is_nil_nil

theorem is_nil_ocell (t l : Term) : app Gen.PList.is_nil (ocell t l) ↠ Gen.Bool.fls := by
  lc_beta; lc_head (ocell_elim _ _ _); lc_beta 3; exact Star.refl _

theorem sel_nil (a b c : Term) : app4 Gen.PList.is_nil (pairList []) a b c ↠ app a c := PairLibA.sel_nil a b c

theorem sel_ocell (t l a b c : Term) : app4 Gen.PList.is_nil (ocell t l) a b c ↠ app b c := by
  lc_head (is_nil_ocell t l); lc_head (fls_elim _ _); exact Star.refl _

theorem head_ocell (t l : Term) : app Gen.PList.head (ocell t l) ↠ t := by
  lc_beta; lc_trans (ocell_elim _ _ _); lc_beta 2; exact Star.refl _

theorem tail_ocell (t l : Term) : app Gen.PList.tail (ocell t l) ↠ l := by
  lc_beta; lc_trans (ocell_elim _ _ _); lc_beta 2; exact Star.refl _

theorem cons_ocell (t l : Term) : app2 Gen.PList.cons t l ↠ ocell t l := cons_pair_any t l

/-- `PAIR t u` for arbitrary components is the same cell -/
theorem pair_ocell (t u : Term) : app2 Gen.Pair.pair t u ↠ ocell t u := pair_mk_open t u

theorem cons_opl (t : Term) (us : List Term) : app2 Gen.PList.cons t (opl us) ↠ opl (t :: us) := by
  rw [opl_cons]; exact cons_ocell _ _

/-- `cons t x ↠ opl (t :: us)` when `x ↠ opl us` -/
theorem cons_star {t x : Term} {us : List Term} (h : x ↠ opl us) : app2 Gen.PList.cons t x ↠ opl (t :: us) :=
  (Star.congAppR _ h).trans (cons_opl t us)

theorem is_nil_opl (us : List Term) : app Gen.PList.is_nil (opl us) ↠ fromBool us.isEmpty := by
  cases us with
  | nil => exact is_nil_nil
  | cons u us => rw [opl_cons]; exact is_nil_ocell _ _

open PairLibA (revF reverse_eq closed_revF appendF append_eq closed_appendF mapF map_eq closed_mapF foldlF foldl_eq
  closed_foldlF filterF filter_eq closed_filterF takeWhileF take_while_eq closed_takeWhileF dropWhileF drop_while_eq
  closed_dropWhileF lastF last_eq closed_lastF initF init_eq closed_initF zipF zip_eq closed_zipF zipWithF zip_with_eq
  closed_zipWithF)

/-! ### reverse -/

theorem rev_nil (a : Term) : app2 (ZF revF) a (pairList []) ↠ a := by
  lc_head (ZF_unfold closed_revF); lc_beta 3
  lc_trans (sel_nil _ _ _); lc_beta; exact Star.refl _

theorem rev_cons (a t l : Term) :
    app2 (ZF revF) a (ocell t l) ↠ app2 (ZF revF) (ocell t a) l := by
  lc_head (ZF_unfold closed_revF); lc_beta 3
  lc_trans (sel_ocell _ _ _ _ _); lc_beta
  lc_head (ZF_stub closed_revF _)
  lc_rw (head_ocell t l); lc_rw (tail_ocell t l); lc_rw (cons_ocell t a)
  exact Star.refl _

theorem rev_aux (xs acc : List Term) :
    app2 (ZF revF) (opl acc) (opl xs) ↠ opl (xs.reverse ++ acc) := by
  induction xs generalizing acc with
  | nil => exact rev_nil _
  | cons t ts ih =>
    rw [opl_cons]
    lc_trans (rev_cons _ _ _)
    rw [← opl_cons, List.reverse_cons, List.append_assoc]
    exact ih (t :: acc)

/-! ### append -/

theorem append_nil (b : Term) : app2 (ZF appendF) (pairList []) b ↠ b := by
  lc_head (ZF_unfold closed_appendF); lc_beta 3
  lc_trans (sel_nil _ _ _); lc_beta; exact Star.refl _

theorem append_cons (t l b : Term) :
    app2 (ZF appendF) (ocell t l) b ↠ app2 Gen.PList.cons t (app2 (ZF appendF) l b) := by
  lc_head (ZF_unfold closed_appendF); lc_beta 3
  lc_trans (sel_ocell _ _ _ _ _); lc_beta
  lc_rw (head_ocell t l); lc_rw (tail_ocell t l); lc_rw (ZF_stub closed_appendF _)
  exact Star.refl _

/-! ### map -/

theorem map_nil (f : Term) : app2 (ZF mapF) f (pairList []) ↠ pairList [] := by
  lc_head (ZF_unfold closed_mapF); lc_beta 3
  lc_trans (sel_nil _ _ _); lc_beta; exact Star.refl _

theorem map_cons (f t l : Term) :
    app2 (ZF mapF) f (ocell t l) ↠ app2 Gen.PList.cons (app f t) (app2 (ZF mapF) f l) := by
  lc_head (ZF_unfold closed_mapF); lc_beta 3
  lc_trans (sel_ocell _ _ _ _ _); lc_beta
  lc_rw (head_ocell t l); lc_rw (tail_ocell t l); lc_rw (ZF_stub closed_mapF _)
  exact Star.refl _

/-! ### foldl -/

theorem foldl_nil (f s : Term) : app3 (ZF foldlF) f s (pairList []) ↠ s := by
  lc_head (ZF_unfold closed_foldlF); lc_beta 4
  lc_trans (sel_nil _ _ _); lc_beta; exact Star.refl _

theorem foldl_cons (f s t l : Term) :
    app3 (ZF foldlF) f s (ocell t l) ↠ app3 (ZF foldlF) f (app2 f s t) l := by
  lc_head (ZF_unfold closed_foldlF); lc_beta 4
  lc_trans (sel_ocell _ _ _ _ _); lc_beta
  lc_head (ZF_stub closed_foldlF _)
  lc_rw (head_ocell t l); lc_rw (tail_ocell t l)
  exact Star.refl _

/-! ### filter -/

theorem filter_nil (p : Term) : app2 (ZF filterF) p (pairList []) ↠ pairList [] := by
  lc_head (ZF_unfold closed_filterF); lc_beta 3
  lc_trans (sel_nil _ _ _); lc_beta; exact Star.refl _

theorem filter_cons (p t l : Term) :
    app2 (ZF filterF) p (ocell t l) ↠
      app3 (app p t) (app Gen.PList.cons t) Gen.Comb.I (app2 (ZF filterF) p l) := by
  lc_head (ZF_unfold closed_filterF); lc_beta 3
  lc_trans (sel_ocell _ _ _ _ _); lc_beta
  lc_rw (head_ocell t l); lc_rw (head_ocell t l); lc_rw (tail_ocell t l)
  lc_rw (ZF_stub closed_filterF _)
  exact Star.refl _

/-! ### take_while -/

theorem take_while_nil (p : Term) : app2 (ZF takeWhileF) p (pairList []) ↠ pairList [] := by
  lc_head (ZF_unfold closed_takeWhileF); lc_beta 3
  lc_trans (sel_nil _ _ _); lc_beta; exact Star.refl _

theorem take_while_cons (p t l : Term) :
    app2 (ZF takeWhileF) p (ocell t l) ↠
      app2 (app p t) (app2 Gen.PList.cons t (app2 (ZF takeWhileF) p l)) (pairList []) := by
  lc_head (ZF_unfold closed_takeWhileF); lc_beta 3
  lc_trans (sel_ocell _ _ _ _ _); lc_beta
  lc_rw (head_ocell t l); lc_rw (head_ocell t l); lc_rw (tail_ocell t l)
  lc_rw (ZF_stub closed_takeWhileF _)
  exact Star.refl _

/-! ### drop_while -/

theorem drop_while_nil (p : Term) : app2 (ZF dropWhileF) p (pairList []) ↠ pairList [] := by
  lc_head (ZF_unfold closed_dropWhileF); lc_beta 3
  lc_trans (sel_nil _ _ _); lc_beta; exact Star.refl _

theorem drop_while_cons (p t l : Term) :
    app2 (ZF dropWhileF) p (ocell t l) ↠ app2 (app p t) (app2 (ZF dropWhileF) p l) (ocell t l) := by
  lc_head (ZF_unfold closed_dropWhileF); lc_beta 3
  lc_trans (sel_ocell _ _ _ _ _); lc_beta
  lc_rw (head_ocell t l); lc_rw (tail_ocell t l)
  lc_rw (ZF_stub closed_dropWhileF _)
  exact Star.refl _

/-! ### last -/

theorem last_nil : app (ZF lastF) (pairList []) ↠ pairList [] := PairLibA.last_nil

theorem last_cons (t l : Term) :
    app (ZF lastF) (ocell t l) ↠ app2 (app Gen.PList.is_nil l) t (app (ZF lastF) l) := by
  lc_head (ZF_unfold closed_lastF); lc_beta 2
  lc_trans (sel_ocell _ _ _ _ _); lc_beta
  lc_rw (tail_ocell t l); lc_rw (head_ocell t l); lc_rw (tail_ocell t l)
  lc_rw (ZF_stub closed_lastF _)
  exact Star.refl _

/-! ### init -/

theorem init_nil : app (ZF initF) (pairList []) ↠ pairList [] := PairLibA.init_nil

theorem init_cons (t l : Term) :
    app (ZF initF) (ocell t l) ↠
      app2 (app Gen.PList.is_nil l) (pairList []) (app2 Gen.PList.cons t (app (ZF initF) l)) := by
  lc_head (ZF_unfold closed_initF); lc_beta 2
  lc_trans (sel_ocell _ _ _ _ _); lc_beta
  lc_rw (tail_ocell t l); lc_rw (head_ocell t l); lc_rw (tail_ocell t l)
  lc_rw (ZF_stub closed_initF _)
  exact Star.refl _

/-! ### zip -/

theorem zip_nil_left (b : Term) : app2 (ZF zipF) (pairList []) b ↠ pairList [] := by
  lc_head (ZF_unfold closed_zipF); lc_beta 3
  lc_trans (sel_nil _ _ _); lc_beta; exact Star.refl _

theorem zip_nil_right (t l : Term) : app2 (ZF zipF) (ocell t l) (pairList []) ↠ pairList [] := by
  lc_head (ZF_unfold closed_zipF); lc_beta 3
  lc_trans (sel_ocell _ _ _ _ _); lc_beta
  lc_head is_nil_nil; lc_trans (tru_elim _ _); exact Star.refl _

theorem zip_cons (t l u m : Term) :
    app2 (ZF zipF) (ocell t l) (ocell u m) ↠ app2 Gen.PList.cons (ocell t u) (app2 (ZF zipF) l m) := by
  lc_head (ZF_unfold closed_zipF); lc_beta 3
  lc_trans (sel_ocell _ _ _ _ _); lc_beta
  lc_head (is_nil_ocell u m); lc_trans (fls_elim _ _)
  lc_rw (head_ocell t l); lc_rw (head_ocell u m); lc_rw (tail_ocell t l); lc_rw (tail_ocell u m)
  lc_rw (ZF_stub closed_zipF _)
  lc_rw (pair_ocell t u)
  exact Star.refl _

/-! ### zip_with -/

theorem zip_with_nil_left (f b : Term) : app3 (ZF zipWithF) f (pairList []) b ↠ pairList [] := by
  lc_head (ZF_unfold closed_zipWithF); lc_beta 4
  lc_trans (sel_nil _ _ _); lc_beta; exact Star.refl _

theorem zip_with_nil_right (f t l : Term) : app3 (ZF zipWithF) f (ocell t l) (pairList []) ↠ pairList [] := by
  lc_head (ZF_unfold closed_zipWithF); lc_beta 4
  lc_trans (sel_ocell _ _ _ _ _); lc_beta
  lc_head is_nil_nil; lc_trans (tru_elim _ _); exact Star.refl _

theorem zip_with_cons (f t l u m : Term) :
    app3 (ZF zipWithF) f (ocell t l) (ocell u m) ↠
      app2 Gen.PList.cons (app2 f t u) (app3 (ZF zipWithF) f l m) := by
  lc_head (ZF_unfold closed_zipWithF); lc_beta 4
  lc_trans (sel_ocell _ _ _ _ _); lc_beta
  lc_head (is_nil_ocell u m); lc_trans (fls_elim _ _)
  lc_rw (head_ocell t l); lc_rw (head_ocell u m); lc_rw (tail_ocell t l); lc_rw (tail_ocell u m)
  lc_rw (ZF_stub closed_zipWithF _)
  exact Star.refl _

end OpenLib

open OpenLib
open PairLibA (revF reverse_eq closed_revF appendF append_eq closed_appendF mapF map_eq closed_mapF foldlF foldl_eq
  closed_foldlF filterF filter_eq closed_filterF takeWhileF take_while_eq closed_takeWhileF dropWhileF drop_while_eq
  closed_dropWhileF lastF last_eq closed_lastF initF init_eq closed_initF zipF zip_eq closed_zipF zipWithF zip_with_eq
  closed_zipWithF)

/-! ## main theorems: ARBITRARY elements, ARBITRARY function arguments -/

theorem plist_reverse_open (xs : List Term) : app Gen.PList.reverse (opl xs) ↠ opl xs.reverse := by
  rw [reverse_eq]; lc_head (Z_unfold closed_revF)
  have := rev_aux xs []
  rwa [List.append_nil] at this

theorem plist_append_open (xs ys : List Term) : app2 Gen.PList.append (opl xs) (opl ys) ↠ opl (xs ++ ys) := by
  rw [append_eq]; lc_head (Z_unfold closed_appendF)
  induction xs with
  | nil => exact append_nil _
  | cons t ts ih =>
    rw [opl_cons]
    lc_trans (append_cons _ _ _)
    exact cons_star ih

theorem plist_map_open (f : Term) (xs : List Term) :
    app2 Gen.PList.map f (opl xs) ↠ opl (xs.map (app f)) := by
  rw [map_eq]; lc_head (Z_unfold closed_mapF)
  induction xs with
  | nil => exact map_nil f
  | cons t ts ih =>
    rw [opl_cons]
    lc_trans (map_cons _ _ _)
    exact cons_star ih

theorem plist_foldl_open (f s : Term) (xs : List Term) :
    app3 Gen.PList.foldl f s (opl xs) ↠ xs.foldl (fun acc x => app2 f acc x) s := by
  rw [foldl_eq]; lc_head (Z_unfold closed_foldlF)
  induction xs generalizing s with
  | nil => exact foldl_nil f s
  | cons t ts ih =>
    rw [opl_cons]
    lc_trans (foldl_cons _ _ _ _)
    exact ih (app2 f s t)

theorem plist_filter_open (p : Term) (xs : List Term)
    (keep : Term → Bool) (hkeep : ∀ x ∈ xs, app p x ↠ fromBool (keep x)) :
    app2 Gen.PList.filter p (opl xs) ↠ opl (xs.filter keep) := by
  rw [filter_eq]; lc_head (Z_unfold closed_filterF)
  induction xs with
  | nil => exact filter_nil p
  | cons t ts ih =>
    have ih' := ih (fun x hx => hkeep x (List.mem_cons_of_mem _ hx))
    rw [opl_cons]
    lc_trans (filter_cons _ _ _)
    lc_head (hkeep t (by simp)); lc_head (fromBool_elim _ _ _)
    rw [List.filter_cons]
    cases hk : keep t
    · simp only [Bool.false_eq_true, if_false]
      lc_trans (I_elim _); exact ih'
    · simp only [if_true]
      exact cons_star ih'

theorem plist_take_while_open (p : Term) (xs : List Term)
    (keep : Term → Bool) (hkeep : ∀ x ∈ xs, app p x ↠ fromBool (keep x)) :
    app2 Gen.PList.take_while p (opl xs) ↠ opl (xs.takeWhile keep) := by
  rw [take_while_eq]; lc_head (Z_unfold closed_takeWhileF)
  induction xs with
  | nil => exact take_while_nil p
  | cons t ts ih =>
    have ih' := ih (fun x hx => hkeep x (List.mem_cons_of_mem _ hx))
    rw [opl_cons]
    lc_trans (take_while_cons _ _ _)
    lc_head (hkeep t (by simp)); lc_trans (fromBool_elim _ _ _)
    rw [List.takeWhile_cons]
    cases hk : keep t
    · exact Star.refl _
    · exact cons_star ih'

theorem plist_drop_while_open (p : Term) (xs : List Term)
    (keep : Term → Bool) (hkeep : ∀ x ∈ xs, app p x ↠ fromBool (keep x)) :
    app2 Gen.PList.drop_while p (opl xs) ↠ opl (xs.dropWhile keep) := by
  rw [drop_while_eq]; lc_head (Z_unfold closed_dropWhileF)
  induction xs with
  | nil => exact drop_while_nil p
  | cons t ts ih =>
    have ih' := ih (fun x hx => hkeep x (List.mem_cons_of_mem _ hx))
    rw [opl_cons]
    lc_trans (drop_while_cons _ _ _)
    lc_head (hkeep t (by simp)); lc_trans (fromBool_elim _ _ _)
    rw [List.dropWhile_cons]
    cases hk : keep t
    · simp only [Bool.false_eq_true, if_false]; rw [opl_cons]; exact Star.refl _
    · exact ih'

theorem plist_last_open (xs : List Term) (hne : xs ≠ []) :
    app Gen.PList.last (opl xs) ↠ xs.getLast hne := by
  rw [last_eq]; lc_head (Z_unfold closed_lastF)
  induction xs with
  | nil => exact absurd rfl hne
  | cons t ts ih =>
    rw [opl_cons]
    lc_trans (last_cons _ _)
    cases ts with
    | nil => lc_head is_nil_nil; lc_trans (tru_elim _ _); exact Star.refl _
    | cons u us =>
      lc_head (is_nil_opl (u :: us)); lc_trans (fls_elim _ _)
      rw [List.getLast_cons_cons]
      exact ih (by simp)

theorem plist_init_open (xs : List Term) (hne : xs ≠ []) :
    app Gen.PList.init (opl xs) ↠ opl xs.dropLast := by
  rw [init_eq]; lc_head (Z_unfold closed_initF)
  induction xs with
  | nil => exact absurd rfl hne
  | cons t ts ih =>
    rw [opl_cons]
    lc_trans (init_cons _ _)
    cases ts with
    | nil => lc_head is_nil_nil; lc_trans (tru_elim _ _); exact Star.refl _
    | cons u us =>
      lc_head (is_nil_opl (u :: us)); lc_trans (fls_elim _ _)
      rw [List.dropLast_cons_cons]
      exact cons_star (ih (by simp))

theorem plist_zip_open (xs ys : List Term) :
    app2 Gen.PList.zip (opl xs) (opl ys) ↠ opl ((xs.zip ys).map (fun p => ocell p.1 p.2)) := by
  rw [zip_eq]; lc_head (Z_unfold closed_zipF)
  induction xs generalizing ys with
  | nil => exact zip_nil_left _
  | cons t ts ih =>
    cases ys with
    | nil => rw [opl_cons]; exact zip_nil_right _ _
    | cons u us =>
      rw [opl_cons, opl_cons]
      lc_trans (zip_cons _ _ _ _)
      exact cons_star (ih us)

theorem plist_zip_with_open (f : Term) (xs ys : List Term) :
    app3 Gen.PList.zip_with f (opl xs) (opl ys) ↠ opl ((xs.zip ys).map (fun p => app2 f p.1 p.2)) := by
  rw [zip_with_eq]; lc_head (Z_unfold closed_zipWithF)
  induction xs generalizing ys with
  | nil => exact zip_with_nil_left _ _
  | cons t ts ih =>
    cases ys with
    | nil => rw [opl_cons]; exact zip_with_nil_right _ _ _
    | cons u us =>
      rw [opl_cons, opl_cons]
      lc_trans (zip_with_cons _ _ _ _ _)
      exact cons_star (ih us)

end LC
