/-
C16 (more) — eager evaluation (order HAP) of the FIRST-ORDER pair-list library functions (`length reverse append index
last init take drop replicate zip list`) on lists of ARBITRARY admissible elements (`C16.HapValue`: closed HAP values),
not only Church numerals.  The derivations of `LC/Proofs/Eager/ListA.lean` / `ListB.lean` (stated there for
`cl ns = pairList (ns.map intoChurch)`) are redone generically in a family `f : Nat → Term` of closed normal terms,
`pl f ns = pairList (ns.map f)`; `C16.exists_family` presents any list of admissible elements this way.
-/
import LC.Proofs.List.MoreHap
import LC.Proofs.Eager.ListB

namespace LC
open Term Spec Enc RL Eager C16 EagerListA EagerListMore
open EagerListB (cbv_is_nil_nil hap_stub2' takeF take_eq closed_takeF dropF drop_eq closed_dropF replicateF replicate_eq
  closed_replicateF zipF zip_eq closed_zipF and_intro_dep cbv_app2_args hap_app_fn_inv W closed_W isWNF_W V)

set_option linter.unusedSimpArgs false
set_option linter.unusedVariables false
attribute [local irreducible] iterApp

namespace EagerListMore

/-- the pair list of the family `f` over `ns` -/
abbrev pl (f : Nat → Term) (ns : List Nat) : Term := pairList (ns.map f)

theorem pl_nil (f : Nat → Term) : pl f [] = abs (abs (var 1)) := rfl
theorem pl_cons (f : Nat → Term) (n : Nat) (ns : List Nat) :
    pl f (n :: ns) = abs (app2 (var 1) (f n) (pl f ns)) := rfl

section Lib
variable {f : Nat → Term} (hf : ∀ a, closedAt 0 (f a) = true) (hn : ∀ a, isNormal (f a) = true)
include hf hn

theorem tail_pl_cbv (n : Nat) (ns : List Nat) : EvalCbv (app Gen.PList.tail (pl f (n :: ns))) (pl f ns) := by
  have hw : ∀ a, isWNF (f a) = true := fun a => isNormal_isWNF (hn a)
  have hc := closed_pl hf
  have hnl := normal_pl hn
  have hwl : ∀ ns : List Nat, isWNF (pairList (ns.map f)) = true := fun ns => isNormal_isWNF (hnl ns)
  rw [pl_cons]; ev [hf, hc]

theorem head_pl_cbv (n : Nat) (ns : List Nat) : EvalCbv (app Gen.PList.head (pl f (n :: ns))) (f n) := by
  have hw : ∀ a, isWNF (f a) = true := fun a => isNormal_isWNF (hn a)
  have hc := closed_pl hf
  have hnl := normal_pl hn
  have hwl : ∀ ns : List Nat, isWNF (pairList (ns.map f)) = true := fun ns => isNormal_isWNF (hnl ns)
  rw [pl_cons]; ev [hf, hc]

/-! ### length -/

theorem length_core_pl : ∃ q, EvalCbv (ZF lengthF) q ∧
    ∀ (ns : List Nat) (k : Nat), EvalHap (app2 q (sc k) (pl f ns)) (intoChurch (k + ns.length)) := by
  have hw : ∀ a, isWNF (f a) = true := fun a => isNormal_isWNF (hn a)
  have hc := closed_pl hf
  have hnl := normal_pl hn
  have hwl : ∀ ns : List Nat, isWNF (pairList (ns.map f)) = true := fun ns => isNormal_isWNF (hnl ns)
  apply Exists.intro
  apply And.intro
  · simp only [ZF, ZW]; ev
  · intro ns
    induction ns with
    | nil =>
      intro k
      have := hap_sc k
      rw [pl_nil]
      ev
    | cons n ns ih =>
      intro k
      have hs := cbv_succ_sc k
      have ht : EvalHap (app Gen.PList.tail (pl f (n :: ns))) (pl f ns) := tail_pl hf hn n ns
      have hrec := hap_stub2 closed_lengthF (by simp only [ZF, ZW]; ev) hs (EvalHap.app_arg ht (ih (k + 1)))
      rw [show k + (n :: ns).length = k + 1 + ns.length by simp; omega, pl_cons]
      rw [pl_cons] at hrec
      ev [hf, hc]

/-! ### append, reverse -/

theorem append_core_pl : ∃ q, EvalCbv (ZF appendF) q ∧
    ∀ (ms ns : List Nat), EvalHap (app2 q (pl f ms) (pl f ns)) (pl f (ms ++ ns)) := by
  have hw : ∀ a, isWNF (f a) = true := fun a => isNormal_isWNF (hn a)
  have hc := closed_pl hf
  have hnl := normal_pl hn
  have hwl : ∀ ns : List Nat, isWNF (pairList (ns.map f)) = true := fun ns => isNormal_isWNF (hnl ns)
  apply Exists.intro
  apply And.intro
  · simp only [ZF, ZW]; ev
  · intro ms ns
    induction ms with
    | nil => rw [pl_nil]; ev [hc]
    | cons m ms ih =>
      have ht := tail_pl_cbv hf hn m ms
      have hrec := hap_stub2 closed_appendF (by simp only [ZF, ZW]; ev) ht ih
      rw [List.cons_append]
      generalize ms ++ ns = L at *
      rw [pl_cons, pl_cons]
      rw [pl_cons] at hrec
      ev [hf, hc]

theorem reverse_core_pl : ∃ q, EvalCbv (ZF reverseF) q ∧
    ∀ (ns acc : List Nat), EvalHap (app2 q (pl f acc) (pl f ns)) (pl f (ns.reverse ++ acc)) := by
  have hw : ∀ a, isWNF (f a) = true := fun a => isNormal_isWNF (hn a)
  have hc := closed_pl hf
  have hnl := normal_pl hn
  have hwl : ∀ ns : List Nat, isWNF (pairList (ns.map f)) = true := fun ns => isNormal_isWNF (hnl ns)
  apply Exists.intro
  apply And.intro
  · simp only [ZF, ZW]; ev
  · intro ns
    induction ns with
    | nil => intro acc; rw [pl_nil]; ev [hc]
    | cons n ns ih =>
      intro acc
      have ht : EvalHap (app Gen.PList.tail (pl f (n :: ns))) (pl f ns) := tail_pl hf hn n ns
      have hx : EvalCbv (app2 Gen.PList.cons (app Gen.PList.head (pl f (n :: ns))) (pl f acc)) (pl f (n :: acc)) := by
        rw [pl_cons, pl_cons]; ev [hf, hc]
      have hrec := hap_stub2 closed_reverseF (by simp only [ZF, ZW]; ev) hx (EvalHap.app_arg ht (ih (n :: acc)))
      rw [show (n :: ns).reverse ++ acc = ns.reverse ++ n :: acc by simp]
      generalize ns.reverse ++ n :: acc = L at *
      rw [pl_cons]
      rw [pl_cons] at hrec
      ev [hf, hc]

/-! ### index, last, init -/

theorem hap_iter_tail_pl (ns : List Nat) (i : Nat) (h : i ≤ ns.length) :
    EvalHap (iterApp Gen.PList.tail (pl f ns) i) (pl f (ns.drop i)) := by
  induction i with
  | zero => simp only [iterApp_zero, List.drop_zero]; exact EvalHap.of_isNormal (normal_pl hn ns)
  | succ i ih =>
    rw [iterApp_succ]
    refine EvalHap.app_arg (ih (by omega)) ?_
    have hi : i < ns.length := by omega
    rw [List.drop_eq_getElem_cons hi]
    exact tail_pl hf hn _ _

/-- what `last` returns: `NIL` for the empty list -/
def lastVf (f : Nat → Term) : List Nat → Term
  | [] => pl f []
  | [n] => f n
  | _ :: m :: ns => lastVf f (m :: ns)

omit hf hn in
theorem lastVf_eq (ns : List Nat) (h : ns ≠ []) : lastVf f ns = f (ns.getLast h) := by
  induction ns with
  | nil => exact absurd rfl h
  | cons n ns ih =>
    cases ns with
    | nil => rfl
    | cons m ns => rw [lastVf, ih (List.cons_ne_nil m ns), List.getLast_cons (List.cons_ne_nil m ns)]

theorem last_core_pl : ∃ q, EvalCbv (ZF lastF) q ∧ ∀ (ns : List Nat), EvalHap (app q (pl f ns)) (lastVf f ns) := by
  have hw : ∀ a, isWNF (f a) = true := fun a => isNormal_isWNF (hn a)
  have hc := closed_pl hf
  have hnl := normal_pl hn
  have hwl : ∀ ns : List Nat, isWNF (pairList (ns.map f)) = true := fun ns => isNormal_isWNF (hnl ns)
  apply Exists.intro
  apply And.intro
  · simp only [ZF, ZW]; ev
  · intro ns
    induction ns with
    | nil => simp only [lastVf, pl_nil]; ev
    | cons n ns ih =>
      have ht : EvalHap (app Gen.PList.tail (pl f (n :: ns))) (pl f ns) := tail_pl hf hn n ns
      have htc := tail_pl_cbv hf hn n ns
      have hhc := head_pl_cbv hf hn n ns
      have hrec := hap_stub1 closed_lastF (by simp only [ZF, ZW]; ev) ht ih
      rw [pl_cons] at ht htc hhc hrec
      cases ns with
      | nil => simp only [lastVf, pl_nil] at hrec ⊢; rw [pl_cons, pl_nil]; ev [hf, hc]
      | cons m ns =>
        simp only [lastVf]
        have hR := ih.isNormal
        generalize lastVf f (m :: ns) = R at *
        rw [pl_cons] at ht htc hrec hhc ⊢
        ev [hf, hc]

theorem init_core_pl : ∃ q, EvalCbv (ZF initF) q ∧ ∀ (ns : List Nat), EvalHap (app q (pl f ns)) (pl f ns.dropLast) := by
  have hw : ∀ a, isWNF (f a) = true := fun a => isNormal_isWNF (hn a)
  have hc := closed_pl hf
  have hnl := normal_pl hn
  have hwl : ∀ ns : List Nat, isWNF (pairList (ns.map f)) = true := fun ns => isNormal_isWNF (hnl ns)
  apply Exists.intro
  apply And.intro
  · simp only [ZF, ZW]; ev
  · intro ns
    induction ns with
    | nil => simp only [List.dropLast_nil, pl_nil]; ev
    | cons n ns ih =>
      have ht : EvalHap (app Gen.PList.tail (pl f (n :: ns))) (pl f ns) := tail_pl hf hn n ns
      have htc := tail_pl_cbv hf hn n ns
      have hhc := head_pl_cbv hf hn n ns
      have hrec := hap_stub1 closed_initF (by simp only [ZF, ZW]; ev) ht ih
      rw [pl_cons] at ht htc hhc hrec
      cases ns with
      | nil => simp only [List.dropLast_singleton, List.dropLast_nil, pl_nil] at hrec ⊢; rw [pl_cons, pl_nil]; ev [hf, hc]
      | cons m ns =>
        rw [List.dropLast_cons_cons]
        generalize (m :: ns).dropLast = L at *
        rw [pl_cons f n L]
        rw [pl_cons] at ht htc hrec hhc ⊢
        ev [hf, hc]

/-! ### take, drop, replicate (the count is any CBV value `v` of a Church numeral: `CNum v j`) -/

theorem cbv_is_nil_pl_cons (n : Nat) (ns : List Nat) :
    EvalCbv (app Gen.PList.is_nil (pl f (n :: ns))) Gen.Bool.fls := by
  have hw : ∀ a, isWNF (f a) = true := fun a => isNormal_isWNF (hn a)
  have hc := closed_pl hf
  have hnl := normal_pl hn
  have hwl : ∀ ns : List Nat, isWNF (pairList (ns.map f)) = true := fun ns => isNormal_isWNF (hnl ns)
  rw [pl_cons]
  ev [hf, hc]

theorem take_core_pl : ∃ q, EvalCbv (ZF takeF) q ∧
    ∀ (ns : List Nat) (v : Term) (j : Nat), CNum v j → EvalHap (app2 q v (pl f ns)) (pl f (ns.take j)) := by
  have hw : ∀ a, isWNF (f a) = true := fun a => isNormal_isWNF (hn a)
  have hc := closed_pl hf
  have hnl := normal_pl hn
  have hwl : ∀ ns : List Nat, isWNF (pairList (ns.map f)) = true := fun ns => isNormal_isWNF (hnl ns)
  apply Exists.intro
  apply And.intro
  · simp only [ZF, ZW]; ev
  · intro ns
    induction ns with
    | nil =>
      intro v j hv
      have wv := hv.1
      have cv := hv.2.1
      have h1 := cbv_is_nil_nil
      rw [List.take_nil, pl_nil]
      ev [cv]
    | cons n ns ih =>
      intro v j hv
      have wv := hv.1
      have cv := hv.2.1
      have hcl : closedAt 0 (pl f (n :: ns)) = true := hc (n :: ns)
      have hnl' : isNormal (pl f (n :: ns)) = true := hnl (n :: ns)
      have h1 := cbv_is_nil_pl_cons hf hn n ns
      have h2 := head_pl_cbv hf hn n ns
      have h3 : EvalHap (app Gen.PList.tail (pl f (n :: ns))) (pl f ns) := tail_pl hf hn n ns
      have hz := church_is_zero_cbv hv
      have hp := cbv_pred_cnum hv
      have ih' := ih _ (j - 1) hp.2
      have hrec := hap_stub2' closed_takeF (by simp only [ZF, ZW]; ev) hp.1 h3 ih'
      generalize hL : pl f (n :: ns) = L at *
      cases j with
      | zero =>
        simp only [List.take_zero, beq_self_eq_true] at hz ⊢
        rw [pl_nil]
        ev [cv, hcl, hf, hc]
      | succ j =>
        have hct := hc (ns.take j)
        have hnt := hnl (ns.take j)
        simp only [Nat.add_sub_cancel] at ih' hrec
        rw [show (j + 1 == 0) = false from rfl] at hz
        rw [List.take_succ_cons, pl_cons]
        ev [cv, hcl, hct, hf, hc]

theorem drop_core_pl : ∃ q, EvalCbv (ZF dropF) q ∧
    ∀ (ns : List Nat) (v : Term) (j : Nat), CNum v j → EvalHap (app2 q v (pl f ns)) (pl f (ns.drop j)) := by
  have hw : ∀ a, isWNF (f a) = true := fun a => isNormal_isWNF (hn a)
  have hc := closed_pl hf
  have hnl := normal_pl hn
  have hwl : ∀ ns : List Nat, isWNF (pairList (ns.map f)) = true := fun ns => isNormal_isWNF (hnl ns)
  apply Exists.intro
  apply And.intro
  · simp only [ZF, ZW]; ev
  · intro ns
    induction ns with
    | nil =>
      intro v j hv
      have wv := hv.1
      have cv := hv.2.1
      have h1 := cbv_is_nil_nil
      rw [List.drop_nil, pl_nil]
      ev [cv]
    | cons n ns ih =>
      intro v j hv
      have wv := hv.1
      have cv := hv.2.1
      have hcl : closedAt 0 (pl f (n :: ns)) = true := hc (n :: ns)
      have hnl' : isNormal (pl f (n :: ns)) = true := hnl (n :: ns)
      have h1 := cbv_is_nil_pl_cons hf hn n ns
      have h3 : EvalHap (app Gen.PList.tail (pl f (n :: ns))) (pl f ns) := tail_pl hf hn n ns
      have hz := church_is_zero_cbv hv
      have hp := cbv_pred_cnum hv
      have ih' := ih _ (j - 1) hp.2
      have hnr := ih'.isNormal
      have hwl' : isWNF (pl f (n :: ns)) = true := hwl _
      have hrec := hap_stub2' closed_dropF (by simp only [ZF, ZW]; ev) hp.1 h3 ih'
      cases j with
      | zero =>
        simp only [List.drop_zero, beq_self_eq_true] at hz ⊢
        generalize hL : pl f (n :: ns) = L at *
        ev [cv, hcl, hf, hc]
      | succ j =>
        simp only [Nat.add_sub_cancel] at ih' hrec hnr
        rw [show (j + 1 == 0) = false from rfl] at hz
        rw [List.drop_succ_cons]
        generalize hL : pl f (n :: ns) = L at *
        ev [cv, hcl, hf, hc]

theorem replicate_core_pl (y : Nat) : ∃ q, EvalCbv (ZF replicateF) q ∧
    ∀ (j : Nat) (v : Term), CNum v j → EvalHap (app2 q v (f y)) (pl f (List.replicate j y)) := by
  have hw : ∀ a, isWNF (f a) = true := fun a => isNormal_isWNF (hn a)
  have hc := closed_pl hf
  have hnl := normal_pl hn
  have hwl : ∀ ns : List Nat, isWNF (pairList (ns.map f)) = true := fun ns => isNormal_isWNF (hnl ns)
  apply Exists.intro
  apply And.intro
  · simp only [ZF, ZW]; ev
  · intro j
    induction j with
    | zero =>
      intro v hv
      have wv := hv.1
      have cv := hv.2.1
      have hz := church_is_zero_cbv hv
      simp only [List.replicate_zero, beq_self_eq_true] at hz ⊢
      rw [pl_nil]
      ev [cv, hf]
    | succ j ih =>
      intro v hv
      have wv := hv.1
      have cv := hv.2.1
      have hz := church_is_zero_cbv hv
      have hp := cbv_pred_cnum hv
      have ih' := ih _ hp.2
      have hrec := hap_stub2 closed_replicateF (by simp only [ZF, ZW]; ev) hp.1 ih'
      have hct := hc (List.replicate j y)
      have hnt := hnl (List.replicate j y)
      rw [show (j + 1 == 0) = false from rfl] at hz
      rw [List.replicate_succ, pl_cons]
      ev [cv, hct, hf, hc]

/-! ### zip -/

/-- the expected result of `zip` -/
abbrev zlf (f : Nat → Term) (ms ns : List Nat) : Term :=
  pairList ((ms.zip ns).map (fun p => tuple2 (f p.1) (f p.2)))

omit hf in
theorem normal_zlf (ms ns : List Nat) : isNormal (zlf f ms ns) = true :=
  normal_pairList _ (normal_map (fun _ => C13.normal_tuple2 (hn _) (hn _)) _)
omit hn in
theorem closed_zlf (ms ns : List Nat) : Closed (zlf f ms ns) :=
  closed_pairList (closed_map (fun _ => closed_tuple2 (hf _) (hf _)) _)
omit hf hn in
theorem zlf_cons (m n : Nat) (ms ns : List Nat) :
    zlf f (m :: ms) (n :: ns) = abs (app2 (var 1) (abs (app2 (var 1) (f m) (f n))) (zlf f ms ns)) := rfl

theorem zip_core_pl : ∃ q, EvalCbv (ZF zipF) q ∧
    (∀ (ms : List Nat), EvalHap (app2 q (pl f ms) (pl f [])) (pl f []) ∧
      EvalHap (app2 q (pl f ms) (abs (var 1))) (pl f [])) ∧
    (∀ (ms ns : List Nat), EvalHap (app2 q (pl f ms) (pl f ns)) (zlf f ms ns)) := by
  have hw : ∀ a, isWNF (f a) = true := fun a => isNormal_isWNF (hn a)
  have hc : ∀ ns, closedAt 0 (pl f ns) = true := closed_pl hf
  have hnl : ∀ ns, isNormal (pl f ns) = true := normal_pl hn
  have hwl : ∀ ns : List Nat, isWNF (pl f ns) = true := fun ns => isNormal_isWNF (hnl ns)
  apply Exists.intro
  apply And.intro
  · simp only [ZF, ZW]; ev
  apply and_intro_dep
  · intro ms
    induction ms with
    | nil =>
      have h1 := cbv_is_nil_nil
      rw [pl_nil]
      constructor <;> ev
    | cons m ms ih =>
      have hcl : closedAt 0 (pl f (m :: ms)) = true := hc (m :: ms)
      have hwl' : isWNF (pl f (m :: ms)) = true := hwl _
      have h1 := cbv_is_nil_pl_cons hf hn m ms
      have h2 := head_pl_cbv hf hn m ms
      have h3 := tail_pl_cbv hf hn m ms
      rw [pl_nil] at ih ⊢
      have hrec1 := hap_stub2' (Y := app Gen.PList.tail (abs (abs (var 1)))) closed_zipF (by simp only [ZF, ZW]; ev) h3 (by ev) ih.2
      have hrec2 := hap_stub2' (Y := app Gen.PList.tail (abs (var 1))) closed_zipF (by simp only [ZF, ZW]; ev) h3 (by ev) ih.1
      generalize hL : pl f (m :: ms) = L at *
      constructor <;> ev [hcl, hf, hc]
  · intro hj ms
    induction ms with
    | nil =>
      intro ns
      have h1 := cbv_is_nil_nil
      have hnl' := hnl ns
      rw [show zlf f [] ns = abs (abs (var 1)) by simp [zlf]; rfl, pl_nil]
      ev [hf, hc]
    | cons m ms ih =>
      intro ns
      have hcl : closedAt 0 (pl f (m :: ms)) = true := hc (m :: ms)
      have hwl' : isWNF (pl f (m :: ms)) = true := hwl _
      have h1 := cbv_is_nil_pl_cons hf hn m ms
      have h2 := head_pl_cbv hf hn m ms
      have h3 := tail_pl_cbv hf hn m ms
      cases ns with
      | nil =>
        have g1 := cbv_is_nil_nil
        have hj' := (hj ms).2
        rw [pl_nil] at hj' ⊢
        have hrec := hap_stub2' (Y := app Gen.PList.tail (abs (abs (var 1)))) closed_zipF (by simp only [ZF, ZW]; ev) h3 (by ev)
          hj'
        rw [show zlf f (m :: ms) [] = abs (abs (var 1)) by simp [zlf]; rfl]
        generalize hL : pl f (m :: ms) = L at *
        ev [hcl, hf, hc]
      | cons n ns =>
        have hcl' : closedAt 0 (pl f (n :: ns)) = true := hc (n :: ns)
        have hnl' : isNormal (pl f (n :: ns)) = true := hnl (n :: ns)
        have g1 := cbv_is_nil_pl_cons hf hn n ns
        have g2 := head_pl_cbv hf hn n ns
        have g3 : EvalHap (app Gen.PList.tail (pl f (n :: ns))) (pl f ns) := tail_pl hf hn n ns
        have hrec := hap_stub2' closed_zipF (by simp only [ZF, ZW]; ev) h3 g3 (ih ns)
        have hct := closed_zlf hf ms ns
        have hnt := normal_zlf hn ms ns
        rw [zlf_cons]
        generalize hL : pl f (m :: ms) = L at *
        generalize hL' : pl f (n :: ns) = L' at *
        generalize hZ : zlf f ms ns = Z at *
        ev [hcl, hcl', hct, hf, hc]

/-! ### list -/

theorem reverse_core_pl' : ∃ q R0, EvalCbv (ZF EagerListB.reverseF) q ∧ EvalCbv (app q (pl f [])) R0 ∧ Closed R0 ∧
    isWNF R0 = true ∧
    ∀ (ns acc : List Nat), EvalHap (app2 q (pl f acc) (pl f ns)) (pl f (ns.reverse ++ acc)) := by
  have hw : ∀ a, isWNF (f a) = true := fun a => isNormal_isWNF (hn a)
  have hc : ∀ ns, closedAt 0 (pl f ns) = true := closed_pl hf
  have hnl : ∀ ns, isNormal (pl f ns) = true := normal_pl hn
  have hwl : ∀ ns : List Nat, isWNF (pl f ns) = true := fun ns => isNormal_isWNF (hnl ns)
  refine ⟨?q, ?R0, ?h1, ?h2, ?h3, ?h4, ?h5⟩
  case h1 => simp only [ZF, ZW]; ev; exact EvalCbv.abs _
  case h2 => rw [pl_nil]; ev; exact EvalCbv.abs _
  case h3 => lc_simp
  case h4 => rfl
  case h5 =>
    intro ns
    induction ns with
    | nil =>
      intro acc
      have h1 := cbv_is_nil_nil
      have hca := hc acc
      have hna := hnl acc
      have hwa := hwl acc
      rw [List.reverse_nil, List.nil_append, pl_nil]
      generalize hA : pl f acc = A at *
      ev [hca]
    | cons n ns ih =>
      intro acc
      have hcl : closedAt 0 (pl f (n :: ns)) = true := hc (n :: ns)
      have hnl' : isNormal (pl f (n :: ns)) = true := hnl (n :: ns)
      have h1 := cbv_is_nil_pl_cons hf hn n ns
      have h2 := head_pl_cbv hf hn n ns
      have h3 : EvalHap (app Gen.PList.tail (pl f (n :: ns))) (pl f ns) := tail_pl hf hn n ns
      have hca := hc acc
      have hwa := hwl acc
      have hcc : EvalCbv (app2 Gen.PList.cons (app Gen.PList.head (pl f (n :: ns))) (pl f acc)) (pl f (n :: acc)) := by
        refine cbv_app2_args h2 (EvalCbv.of_isWNF hwa) ?_
        rw [pl_cons]; ev [hca, hf]
      have hrec := hap_stub2' EagerListB.closed_reverseF (by simp only [ZF, ZW]; ev) hcc h3 (ih (n :: acc))
      rw [List.reverse_cons, List.append_assoc, List.singleton_append]
      generalize hL : pl f (n :: ns) = L at *
      generalize hA : pl f acc = A at *
      ev [hcl, hca]

/-- the CBV value `R0` of `REVERSE`, which reverses lists of admissible elements under HAP -/
theorem reverse_val_pl : ∃ R0, EvalCbv Gen.PList.reverse R0 ∧ Closed R0 ∧ isWNF R0 = true ∧
    ∀ (ns : List Nat), EvalHap (app R0 (pl f ns)) (pl f ns.reverse) := by
  obtain ⟨q, R0, h1, h2, h3, h4, h5⟩ := reverse_core_pl' hf hn
  refine ⟨R0, ?_, h3, h4, fun ns => ?_⟩
  · rw [EagerListB.reverse_eq]; exact EvalCbv.app_fn (EagerListB.cbv_Z EagerListB.closed_reverseF (by decide) h1) h2
  · have := hap_app_fn_inv h2 (h5 ns [])
    rwa [List.append_nil] at this

theorem cbv_V_step_pl {R0 : Term} (cR : Closed R0) (wR : isWNF R0 = true) (k : Nat) (acc : List Nat) (x : Nat) :
    EvalCbv (app (V R0 (k + 1) (pl f acc)) (f x)) (V R0 k (pl f (x :: acc))) := by
  have hw : ∀ a, isWNF (f a) = true := fun a => isNormal_isWNF (hn a)
  have hc := closed_W cR k
  have hw' := isWNF_W wR k
  have hca : closedAt 0 (pl f acc) = true := closed_pl hf acc
  have hwa : isWNF (pl f acc) = true := isNormal_isWNF (normal_pl hn acc)
  rw [pl_cons]
  simp only [V, EagerListB.W]
  generalize hX : EagerListB.W R0 k = X at *
  generalize hA : pl f acc = A at *
  ev [hc, hca, hf]

theorem hap_V_last_pl {R0 : Term} (cR : Closed R0) (wR : isWNF R0 = true)
    (hrev : ∀ (ns : List Nat), EvalHap (app R0 (pl f ns)) (pl f ns.reverse)) (acc : List Nat) (x : Nat) :
    EvalHap (app (V R0 0 (pl f acc)) (f x)) (pl f (x :: acc).reverse) := by
  have hw : ∀ a, isWNF (f a) = true := fun a => isNormal_isWNF (hn a)
  have hca : closedAt 0 (pl f acc) = true := closed_pl hf acc
  have hna : isNormal (pl f acc) = true := normal_pl hn acc
  have hwa : isWNF (pl f acc) = true := isNormal_isWNF hna
  have hr := hrev (x :: acc)
  rw [pl_cons] at hr
  simp only [V, EagerListB.W]
  generalize hZ : pl f (x :: acc).reverse = Z at *
  generalize hA : pl f acc = A at *
  ev [cR, hca, hf]

theorem cbv_list_feed_pl {R0 : Term} (cR : Closed R0) (wR : isWNF R0 = true) (ys : List Nat) :
    ∀ (h : Term) (k : Nat) (acc : List Nat), EvalCbv h (V R0 (ys.length + k) (pl f acc)) →
      EvalCbv ((ys.map f).foldl app h) (V R0 k (pl f (ys.reverse ++ acc))) := by
  induction ys with
  | nil => intro h k acc hh; simpa using hh
  | cons y ys ih =>
    intro h k acc hh
    rw [List.map_cons, List.foldl_cons, List.reverse_cons, List.append_assoc, List.singleton_append]
    refine ih _ k (y :: acc) ?_
    rw [List.length_cons, Nat.add_right_comm] at hh
    exact EvalCbv.app_congr hh (EvalCbv.of_isWNF (isNormal_isWNF (hn y))) (cbv_V_step_pl hf hn cR wR _ acc y)

theorem list_pl (ns : List Nat) :
    EvalHap ((ns.map f).foldl app (app Gen.PList.list (intoChurch ns.length))) (pl f ns) := by
  obtain ⟨R0, hR, cR, wR, hrev⟩ := reverse_val_pl hf hn
  rcases List.eq_nil_or_concat ns with rfl | ⟨ys, z, rfl⟩
  · have h0 := hrev []
    have hG := PairLibB.closed_listG
    simp only [List.map_nil, List.foldl_nil, List.length_nil]
    rw [PairLibB.list_eq]
    rw [pl_nil] at h0 ⊢
    simp only [List.reverse_nil, List.map_nil, pairList] at h0
    ev [hG]
  · rw [List.concat_eq_append, List.map_append, List.foldl_append, List.length_append]
    simp only [List.map_cons, List.map_nil, List.foldl_cons, List.foldl_nil, List.length_cons, List.length_nil]
    have h1 := cbv_list_feed_pl hf hn cR wR ys _ 0 [] (by
      rw [Nat.add_zero]; exact EagerListB.cbv_list_init hR cR wR ys.length)
    have h2 := hap_V_last_pl hf hn cR wR hrev (ys.reverse ++ []) z
    rw [List.reverse_cons, List.reverse_append, List.reverse_reverse, List.reverse_nil, List.nil_append] at h2
    exact EvalHap.app_fn h1 h2

end Lib
end EagerListMore

namespace C16

/-- two lists of admissible elements over ONE family -/
theorem exists_family2 (ts us : List Term) (ht : ∀ t ∈ ts, HapValue t) (hu : ∀ t ∈ us, HapValue t) :
    ∃ (f : Nat → Term) (ms ns : List Nat), (∀ a, closedAt 0 (f a) = true) ∧ (∀ a, isNormal (f a) = true) ∧
      ms.map f = ts ∧ ns.map f = us := by
  obtain ⟨f, ks, hf, hn, e⟩ := exists_family (ts ++ us) (by
    intro t h; rcases List.mem_append.1 h with h | h
    · exact ht t h
    · exact hu t h)
  refine ⟨f, ks.take ts.length, ks.drop ts.length, hf, hn, ?_, ?_⟩
  · rw [List.map_take, e]; exact List.take_left' rfl
  · rw [List.map_drop, e]; exact List.drop_left' rfl

end C16

/-! ## the statements for lists of admissible elements -/

section Values

theorem plist_length_hap_values (ts : List Term) (h : ∀ t ∈ ts, HapValue t) :
    EvalHap (app Gen.PList.length (pairList ts)) (intoChurch ts.length) := by
  obtain ⟨f, ns, hf, hn, rfl⟩ := exists_family ts h
  obtain ⟨q, hq, hrec⟩ := length_core_pl hf hn
  have h := hrec ns 0
  rw [Nat.zero_add] at h
  rw [length_eq, List.length_map]
  refine EvalHap.app2_fn (g := q) ?_ h
  refine EvalCbv.appRed (EvalCbv.abs _) (EvalCbv.of_isWNF (by decide)) ?_
  have := closed_lengthF
  lc_simp
  exact hq

theorem plist_append_hap_values (ts us : List Term) (ht : ∀ t ∈ ts, HapValue t) (hu : ∀ t ∈ us, HapValue t) :
    EvalHap (app2 Gen.PList.append (pairList ts) (pairList us)) (pairList (ts ++ us)) := by
  obtain ⟨f, ms, ns, hf, hn, rfl, rfl⟩ := exists_family2 ts us ht hu
  obtain ⟨q, hq, hrec⟩ := append_core_pl hf hn
  rw [append_eq, ← List.map_append]
  exact EvalHap.app2_fn (EagerListA.cbv_Z closed_appendF (by decide) hq) (hrec ms ns)

theorem plist_reverse_hap_values (ts : List Term) (h : ∀ t ∈ ts, HapValue t) :
    EvalHap (app Gen.PList.reverse (pairList ts)) (pairList ts.reverse) := by
  obtain ⟨f, ns, hf, hn, rfl⟩ := exists_family ts h
  obtain ⟨q, hq, hrec⟩ := reverse_core_pl hf hn
  have h := hrec ns []
  rw [List.append_nil] at h
  rw [EagerListA.reverse_eq, ← List.map_reverse]
  exact EvalHap.app2_fn (EagerListA.cbv_Z EagerListA.closed_reverseF (by decide) hq) h

theorem plist_index_hap_values (ts : List Term) (h : ∀ t ∈ ts, HapValue t) (i : Nat) (hi : i < ts.length) :
    EvalHap (app2 Gen.PList.index (intoChurch i) (pairList ts)) ts[i] := by
  obtain ⟨f, ns, hf, hn, rfl⟩ := exists_family ts h
  have hi' : i < ns.length := by simpa using hi
  have h1 := hap_iter_tail_pl hf hn ns i (by omega)
  have h2 : EvalHap (app Gen.PList.head (pl f (ns[i] :: ns.drop (i + 1)))) (f ns[i]) :=
    head_pl hf hn ns[i] (ns.drop (i + 1))
  rw [← List.drop_eq_getElem_cons hi'] at h2
  rw [List.getElem_map]
  generalize hV : f ns[i] = v at *
  have hnv : isNormal v = true := hV ▸ hn _
  have hnL : isNormal (pl f (ns.drop i)) = true := normal_pl hn _
  generalize hL : pl f (ns.drop i) = L at *
  show EvalHap (app2 Gen.PList.index (intoChurch i) (pl f ns)) v
  have hnl : isNormal (pl f ns) = true := normal_pl hn ns
  generalize hL0 : pl f ns = L0 at *
  ev

theorem plist_last_hap_values (ts : List Term) (h : ∀ t ∈ ts, HapValue t) (hne : ts ≠ []) :
    EvalHap (app Gen.PList.last (pairList ts)) (ts.getLast hne) := by
  obtain ⟨f, ns, hf, hn, rfl⟩ := exists_family ts h
  obtain ⟨q, hq, hrec⟩ := last_core_pl hf hn
  have hne' : ns ≠ [] := by intro e; subst e; exact hne rfl
  rw [last_eq, List.getLast_map, ← lastVf_eq (f := f) ns hne']
  exact EvalHap.app_fn (EagerListA.cbv_Z closed_lastF (by decide) hq) (hrec ns)

/-- `init`, also for the empty list -/
theorem plist_init_hap_values (ts : List Term) (h : ∀ t ∈ ts, HapValue t) :
    EvalHap (app Gen.PList.init (pairList ts)) (pairList ts.dropLast) := by
  obtain ⟨f, ns, hf, hn, rfl⟩ := exists_family ts h
  obtain ⟨q, hq, hrec⟩ := init_core_pl hf hn
  rw [init_eq, ← List.map_dropLast]
  exact EvalHap.app_fn (EagerListA.cbv_Z closed_initF (by decide) hq) (hrec ns)

theorem plist_take_hap_values (k : Nat) (ts : List Term) (h : ∀ t ∈ ts, HapValue t) :
    EvalHap (app2 Gen.PList.take (intoChurch k) (pairList ts)) (pairList (ts.take k)) := by
  obtain ⟨f, ns, hf, hn, rfl⟩ := exists_family ts h
  obtain ⟨q, hq, hrec⟩ := take_core_pl hf hn
  rw [← List.map_take]
  refine EvalHap.app2_fn (g := q) ?_ (hrec ns _ k (cnum_intoChurch k))
  rw [take_eq]; exact EagerListB.cbv_Z closed_takeF (by decide) hq

theorem plist_drop_hap_values (k : Nat) (ts : List Term) (h : ∀ t ∈ ts, HapValue t) :
    EvalHap (app2 Gen.PList.drop (intoChurch k) (pairList ts)) (pairList (ts.drop k)) := by
  obtain ⟨f, ns, hf, hn, rfl⟩ := exists_family ts h
  obtain ⟨q, hq, hrec⟩ := drop_core_pl hf hn
  rw [← List.map_drop]
  refine EvalHap.app2_fn (g := q) ?_ (hrec ns _ k (cnum_intoChurch k))
  rw [drop_eq]; exact EagerListB.cbv_Z closed_dropF (by decide) hq

theorem plist_replicate_hap_values (k : Nat) (y : Term) (hy : HapValue y) :
    EvalHap (app2 Gen.PList.replicate (intoChurch k) y) (pairList (List.replicate k y)) := by
  obtain ⟨q, hq, hrec⟩ := replicate_core_pl (f := fun _ => y) (fun _ => hy.closed) (fun _ => hy.normal) 0
  have h := hrec k _ (cnum_intoChurch k)
  simp only [pl, List.map_replicate] at h
  refine EvalHap.app2_fn (g := q) ?_ h
  rw [replicate_eq]; exact EagerListB.cbv_Z closed_replicateF (by decide) hq

theorem plist_zip_hap_values (ts us : List Term) (ht : ∀ t ∈ ts, HapValue t) (hu : ∀ t ∈ us, HapValue t) :
    EvalHap (app2 Gen.PList.zip (pairList ts) (pairList us))
      (pairList ((ts.zip us).map (fun p => tuple2 p.1 p.2))) := by
  obtain ⟨f, ms, ns, hf, hn, rfl, rfl⟩ := exists_family2 ts us ht hu
  obtain ⟨q, hq, _, hrec⟩ := zip_core_pl hf hn
  have h := hrec ms ns
  rw [List.zip_map, List.map_map]
  refine EvalHap.app2_fn (g := q) ?_ h
  rw [zip_eq]; exact EagerListB.cbv_Z closed_zipF (by decide) hq

theorem plist_list_hap_values (ts : List Term) (h : ∀ t ∈ ts, HapValue t) :
    EvalHap (ts.foldl app (app Gen.PList.list (intoChurch ts.length))) (pairList ts) := by
  obtain ⟨f, ns, hf, hn, rfl⟩ := exists_family ts h
  rw [List.length_map]
  exact list_pl hf hn ns

end Values

end LC
