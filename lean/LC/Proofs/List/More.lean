/-
C16 (more) — the Church (fold) list with OPEN elements.

The Rust conversion `into_church_list` (`Enc.churchList`) puts the elements under the two binders of the list WITHOUT
shifting them: an index `1` / `2` occurring free in an element is captured by the list's own binders (it then denotes
the cons function / the nil value of the fold).  A list of arbitrary (open) terms `us`, correctly placed under the two
binders, is therefore `churchList (us.map (shiftFV 2 0))` — elements in which the indices 1 and 2 do not occur free.

Contents
* `cons_churchList_open`: `cons a (churchList ts) ↠ churchList (shiftFV 2 0 a :: ts)` for ARBITRARY `a`, `ts`;
* `churchList_elim_open`, `head_churchList_open`, `is_nil_churchList_open`, `tail_churchList_open`: the eliminator and the
  observers on lists of shifted arbitrary elements;
* `tail_cons_church_open` : `tail (cons a (churchList ts)) ↠ churchList ts` for ARBITRARY `a` and every list `ts` whose
  elements do not contain the indices 1, 2 free (`Free12 t = false` / `¬ FreeIn 1 t ∧ ¬ FreeIn 2 t`);
* counterexamples: with an element in which index 1 (or 2) occurs free the law fails; for NORMAL elements the
  free-variable hypothesis is also necessary (`tail_cons_church_nofree_of_normal`, via the raw form `tail_cons_church_raw`).
-/
import LC.Proofs.List.Basic
import LC.Spec.FreeVars
import LC.Proofs.FreeVars
import LC.Proofs.HybridNormal

namespace LC
open Term Spec Enc ListBasic

namespace ListMore

/-! ## 1. `cons` on an arbitrary element and an arbitrary tail -/

/-- `CONS a x` for arbitrary `a`, `x` (both are placed under the two new binders) -/
theorem cons_church_any (a x : Term) :
    app2 Gen.CList.cons a x ↠
      abs (abs (app2 (var 1) (shiftFV 2 0 a) (app2 (shiftFV 2 0 x) (var 2) (var 1)))) := by
  have h := law_of_norSteps 3 (app2 Gen.CList.cons (var 1) (var 2))
    (abs (abs (app2 (var 1) (var 3) (app2 (var 4) (var 2) (var 1))))) (by decide) [a, x]
  lc_simp at h; exact h

/-- re-instantiating the two binders of a term by themselves is the identity -/
theorem applyAux_self (d : Nat) (t : Term) :
    applyAux (var 1) (d + 1) (applyAux (var 2) (d + 2) (shiftFV 2 (d + 2) t)) = t := by
  induction t generalizing d with
  | var i =>
    by_cases h1 : i > d + 2
    · have h2 : ¬ i + 2 = d + 2 := by omega
      have h3 : i + 2 > d + 2 := by omega
      have h4 : ¬ i + 2 - 1 = d + 1 := by omega
      have h5 : i + 2 - 1 > d + 1 := by omega
      simp only [shiftFV, h1, if_true, applyAux, h2, h3, h4, h5, if_false]
      congr 1
    · by_cases h2 : i = d + 2
      · subst h2
        have h3 : ¬ d + 2 > d + 2 := by omega
        have h4 : ¬ (2 + (d + 2 - 1)) = d + 1 := by omega
        have h5 : 2 + (d + 2 - 1) > d + 1 := by omega
        simp only [shiftFV, h3, if_false, applyAux, if_true, show (2 : Nat) > 0 by omega, h4, h5]
        congr 1; omega
      · by_cases h3 : i = d + 1
        · subst h3
          have h4 : ¬ d + 1 > d + 2 := by omega
          have h5 : ¬ d + 1 = d + 2 := by omega
          simp only [shiftFV, h4, if_false, applyAux, h5, if_true, show (1 : Nat) > 0 by omega]
          congr 1; omega
        · have h4 : ¬ i > d + 1 := by omega
          simp only [shiftFV, h1, if_false, applyAux, h2, h3, h4]
  | abs b ih => simp only [shiftFV, applyAux]; rw [ih (d + 1)]
  | app l r ihl ihr => simp only [shiftFV, applyAux]; rw [ihl, ihr]

/-- a Church list placed under two binders and applied to them gives back its body — for ARBITRARY elements -/
theorem churchList_eta (ts : List Term) :
    app2 (shiftFV 2 0 (churchList ts)) (var 2) (var 1) ↠ churchListBody ts := by
  unfold churchList
  simp only [shiftFV]
  lc_head (Star.redc _ _); lc_trans (Star.redc _ _)
  simp only [contract]
  rw [applyAux_self 0]; exact Star.refl _

/-- `cons a (into_church_list ts) ↠ into_church_list (a↑2 :: ts)`: ARBITRARY `a` and `ts` (no closedness) -/
theorem cons_churchList_open (a : Term) (ts : List Term) :
    app2 Gen.CList.cons a (churchList ts) ↠ churchList (shiftFV 2 0 a :: ts) := by
  lc_trans (cons_church_any a _)
  show _ ↠ abs (abs (app2 (var 1) (shiftFV 2 0 a) (churchListBody ts)))
  exact Star.congAbs (Star.congAbs (Star.congAppR _ (churchList_eta ts)))

/-! ## 2. lists of arbitrary elements, correctly placed under the two binders -/

/-- the Church list of ARBITRARY terms `us`, shifted over the list's two binders (what repeated `cons` builds) -/
def openChurchList (us : List Term) : Term := churchList (us.map (shiftFV 2 0))

theorem openChurchList_nil : openChurchList [] = Gen.CList.nil := by decide

theorem openChurchList_closed {us : List Term} (h : ∀ u ∈ us, Closed u) : openChurchList us = churchList us := by
  unfold openChurchList
  congr 1
  induction us with
  | nil => rfl
  | cons u us ih =>
    rw [List.map_cons, ih (fun v hv => h v (List.mem_cons_of_mem _ hv)), shiftFV_closed 2 0 (h u (by simp))]

theorem cons_openChurchList (a : Term) (us : List Term) :
    app2 Gen.CList.cons a (openChurchList us) ↠ openChurchList (a :: us) :=
  cons_churchList_open a _

/-- repeated `cons` on ARBITRARY terms builds the (shifted) conversion -/
theorem conv_is_cons_church_open (us : List Term) :
    us.foldr (fun t acc => app2 Gen.CList.cons t acc) Gen.CList.nil ↠ openChurchList us := by
  induction us with
  | nil => rw [openChurchList_nil]; exact Star.refl _
  | cons u us ih => exact (Star.congAppR _ ih).trans (cons_openChurchList u us)

theorem churchListBody_inst_open (us : List Term) (n c : Term) :
    applyAux c 1 (applyAux n 2 (churchListBody (us.map (shiftFV 2 0)))) = us.foldr (fun t acc => app2 c t acc) n := by
  induction us with
  | nil => lc_simp [churchListBody]
  | cons u us ih => lc_simp [churchListBody, ih]

/-- the eliminator (right fold) on a list of arbitrary elements, arbitrary `n`, `c` -/
theorem churchList_elim_open (us : List Term) (n c : Term) :
    app2 (openChurchList us) n c ↠ us.foldr (fun t acc => app2 c t acc) n := by
  unfold openChurchList churchList
  lc_head (Star.redc _ _); lc_trans (Star.redc _ _)
  simp only [contract]
  rw [churchListBody_inst_open]; exact Star.refl _

theorem head_churchList_open (u : Term) (us : List Term) :
    app Gen.CList.head (openChurchList (u :: us)) ↠ u := by
  have h : app Gen.CList.head (openChurchList (u :: us)) ↠
      app2 (openChurchList (u :: us)) (var 0) (abs (abs (var 2))) := by
    have h := law_of_norSteps 1 (app Gen.CList.head (var 1)) (app2 (var 1) (var 0) (abs (abs (var 2))))
      (by decide) [openChurchList (u :: us)]
    lc_simp at h; exact h
  lc_trans h
  lc_trans (churchList_elim_open _ _ _)
  rw [List.foldr_cons]; lc_beta 2; exact Star.refl _

theorem is_nil_churchList_open (us : List Term) :
    app Gen.CList.is_nil (openChurchList us) ↠ fromBool us.isEmpty := by
  have h : app Gen.CList.is_nil (openChurchList us) ↠
      app2 (openChurchList us) (abs (abs (var 2))) (abs (abs (abs (abs (var 1))))) := by
    have h := law_of_norSteps 1 (app Gen.CList.is_nil (var 1))
      (app2 (var 1) (abs (abs (var 2))) (abs (abs (abs (abs (var 1)))))) (by decide) [openChurchList us]
    lc_simp at h; exact h
  lc_trans h
  lc_trans (churchList_elim_open _ _ _)
  cases us with
  | nil => exact Star.refl _
  | cons u us => rw [List.foldr_cons]; lc_beta 2; exact Star.refl _

/-! ## 3. `tail` -/

theorem snd_pair_any (a b : Term) : app Gen.Pair.snd (app2 Gen.Pair.pair a b) ↠ b := by
  have h := law_of_norSteps 10 (app Gen.Pair.snd (app2 Gen.Pair.pair (var 1) (var 2))) (var 2) (by decide) [a, b]
  lc_simp at h; exact h

theorem fst_pair_any (a b : Term) : app Gen.Pair.fst (app2 Gen.Pair.pair a b) ↠ a := by
  have h := law_of_norSteps 10 (app Gen.Pair.fst (app2 Gen.Pair.pair (var 1) (var 2))) (var 1) (by decide) [a, b]
  lc_simp at h; exact h

/-- the tail of the list seen so far (`UD` for the empty list) -/
def openTl : List Term → Term
  | [] => var 0
  | _ :: us => openChurchList us

/-- the fold of `TAIL` over a list of ARBITRARY elements computes the (unevaluated) invariant pair -/
theorem tail_fold_open (us : List Term) :
    us.foldr (fun t acc => app2 tailStep t acc) tailNil ↠ app2 Gen.Pair.pair (openTl us) (openChurchList us) := by
  induction us with
  | nil => rw [List.foldr_nil, tailNil_eq, openChurchList_nil]; exact Star.refl _
  | cons u us ih =>
    rw [List.foldr_cons]
    lc_trans (Star.congAppR _ ih)
    lc_trans (tailStep_law _ _)
    have hsnd := snd_pair_any (openTl us) (openChurchList us)
    lc_trans (Star.congApp (Star.congAppR _ hsnd) (Star.congAppR _ hsnd))
    exact Star.congAppR _ (cons_openChurchList u us)

theorem tail_churchList_acc_open (us : List Term) :
    app Gen.CList.tail (openChurchList us) ↠ openTl us := by
  have h : app Gen.CList.tail (openChurchList us) ↠
      app Gen.Pair.fst (app2 (openChurchList us) tailNil tailStep) := by
    have h := law_of_norSteps 1 (app Gen.CList.tail (var 1)) (app Gen.Pair.fst (app2 (var 1) tailNil tailStep))
      (by decide) [openChurchList us]
    have h1 : Closed tailNil := by decide
    have h2 := closed_tailStep
    lc_simp at h; exact h
  lc_trans h
  lc_trans (Star.congAppR _ ((churchList_elim_open us _ _).trans (tail_fold_open us)))
  exact fst_pair_any _ _

theorem tail_churchList_open (u : Term) (us : List Term) :
    app Gen.CList.tail (openChurchList (u :: us)) ↠ openChurchList us :=
  tail_churchList_acc_open (u :: us)

/-- `tail (cons a l) ↠ l` for an ARBITRARY `a` and the list `l` of arbitrary terms `us` -/
theorem tail_cons_openChurchList (a : Term) (us : List Term) :
    app Gen.CList.tail (app2 Gen.CList.cons a (openChurchList us)) ↠ openChurchList us :=
  (Star.congAppR _ (cons_openChurchList a us)).trans (tail_churchList_open a us)

/-! ## 4. the hypothesis as a condition on free variables: the indices 1 and 2 do not occur free in the elements -/

/-- undo `shiftFV 2 o` -/
def unshift2 (o : Nat) : Term → Term
  | var i => if i > o then var (i - 2) else var i
  | abs b => abs (unshift2 (o + 1) b)
  | app l r => app (unshift2 o l) (unshift2 o r)

theorem shiftFV_unshift2 (o : Nat) (t : Term) (h1 : freeInAux o 1 t = false) (h2 : freeInAux o 2 t = false) :
    shiftFV 2 o (unshift2 o t) = t := by
  induction t generalizing o with
  | var i =>
    simp only [freeInAux, beq_eq_false_iff_ne, ne_eq] at h1 h2
    by_cases h : i > o
    · have h' : i - 2 > o := by omega
      simp only [unshift2, h, if_true, shiftFV, h']; congr 1; omega
    · simp only [unshift2, h, if_false, shiftFV]
  | abs b ih => simp only [freeInAux] at h1 h2; simp only [unshift2, shiftFV, ih _ h1 h2]
  | app l r ihl ihr =>
    simp only [freeInAux, Bool.or_eq_false_iff] at h1 h2
    simp only [unshift2, shiftFV, ihl _ h1.1 h2.1, ihr _ h1.2 h2.2]

instance (j : Nat) (t : Term) : Decidable (FreeIn j t) := by unfold FreeIn; exact inferInstance

/-- the indices 1 and 2 do not occur free in any element -/
def NoFree12 (ts : List Term) : Prop := ∀ t ∈ ts, ¬ FreeIn 1 t ∧ ¬ FreeIn 2 t

theorem NoFree12.eq_map {ts : List Term} (h : NoFree12 ts) : (ts.map (unshift2 0)).map (shiftFV 2 0) = ts := by
  rw [List.map_map]
  conv => rhs; rw [← List.map_id ts]
  apply List.map_congr_left
  intro t ht
  obtain ⟨h1, h2⟩ := h t ht
  have e1 : freeInAux 0 1 t = false := by
    cases e : freeInAux 0 1 t with
    | false => rfl
    | true => exact absurd ⟨Nat.le_refl 1, e⟩ h1
  have e2 : freeInAux 0 2 t = false := by
    cases e : freeInAux 0 2 t with
    | false => rfl
    | true => exact absurd ⟨by omega, e⟩ h2
  exact shiftFV_unshift2 0 t e1 e2

theorem NoFree12.eq_open {ts : List Term} (h : NoFree12 ts) : churchList ts = openChurchList (ts.map (unshift2 0)) := by
  unfold openChurchList; rw [h.eq_map]

theorem NoFree12.of_closed {ts : List Term} (h : ∀ t ∈ ts, Closed t) : NoFree12 ts := by
  intro t ht
  have hc := h t ht
  have key : ∀ (t : Term) (d j : Nat), 1 ≤ j → closedAt d t = true → freeInAux d j t = false := by
    intro t
    induction t with
    | var i => intro d j hj hc; simp [closedAt] at hc; simp [freeInAux]; omega
    | abs b ih => intro d j hj hc; simp only [closedAt] at hc; simp only [freeInAux]; exact ih _ _ hj hc
    | app l r ihl ihr =>
      intro d j hj hc; simp only [closedAt, Bool.and_eq_true] at hc
      simp only [freeInAux, ihl _ _ hj hc.1, ihr _ _ hj hc.2, Bool.or_self]
  refine ⟨fun hf => ?_, fun hf => ?_⟩
  · have := hf.2; rw [key t 0 1 (by omega) hc] at this; cases this
  · have := hf.2; rw [key t 0 2 (by omega) hc] at this; cases this

theorem freeInAux_shift2 (o j : Nat) (h1 : 1 ≤ j) (h2 : j ≤ 2) (u : Term) :
    freeInAux o j (shiftFV 2 o u) = false := by
  induction u generalizing o with
  | var i =>
    by_cases h : i > o
    · simp only [shiftFV, h, if_true, freeInAux, beq_eq_false_iff_ne, ne_eq]; omega
    · simp only [shiftFV, h, if_false, freeInAux, beq_eq_false_iff_ne, ne_eq]; omega
  | abs b ih => simp only [shiftFV, freeInAux, ih]
  | app l r ihl ihr => simp only [shiftFV, freeInAux, ihl, ihr, Bool.or_self]

theorem NoFree12.of_open (us : List Term) : NoFree12 (us.map (shiftFV 2 0)) := by
  intro t ht
  obtain ⟨u, _, rfl⟩ := List.mem_map.1 ht
  refine ⟨fun hf => ?_, fun hf => ?_⟩
  · have := hf.2; rw [freeInAux_shift2 0 1 (by omega) (by omega)] at this; cases this
  · have := hf.2; rw [freeInAux_shift2 0 2 (by omega) (by omega)] at this; cases this

/-- `tail (cons a l) ↠ l`: ARBITRARY (open) `a`; the elements of the list are arbitrary terms in which the indices 1, 2
(which `into_church_list` would capture) do not occur free -/
theorem tail_cons_church_open (a : Term) (ts : List Term) (h : NoFree12 ts) :
    app Gen.CList.tail (app2 Gen.CList.cons a (churchList ts)) ↠ churchList ts := by
  rw [h.eq_open]; exact tail_cons_openChurchList a _

theorem tail_churchList_nofree (t : Term) (ts : List Term) (h : NoFree12 (t :: ts)) :
    app Gen.CList.tail (churchList (t :: ts)) ↠ churchList ts := by
  have h' : NoFree12 ts := fun u hu => h u (List.mem_cons_of_mem _ hu)
  rw [h.eq_open, h'.eq_open]; exact tail_churchList_open _ _

/-! ### the hypothesis cannot be dropped: an element in which index 1 (or 2) occurs free is captured by the conversion -/

theorem tail_cons_church_fails_free1 :
    ¬ app Gen.CList.tail (app2 Gen.CList.cons Gen.Comb.I (churchList [var 1])) ↠ churchList [var 1] :=
  C17.not_star_of_norSteps 200 _ _ _ rfl (by decide) (by decide) (by decide)

theorem tail_cons_church_fails_free2 :
    ¬ app Gen.CList.tail (app2 Gen.CList.cons Gen.Comb.I (churchList [var 2])) ↠ churchList [var 2] :=
  C17.not_star_of_norSteps 200 _ _ _ rfl (by decide) (by decide) (by decide)

/-! ## 5. pair, Scott and Parigot lists of ARBITRARY (open) elements

`placed k d us`: the elements of `us` shifted over the binders they sit under in a pair (`k = 1`) / Scott (`k = 2`) list
that is itself under `d` further binders: element `i` is shifted by `d + k·(i+1)`. -/

def placed (k : Nat) (d : Nat) : List Term → List Term
  | [] => []
  | u :: us => shiftFV (d + k) 0 u :: placed k (d + k) us

theorem placed_closed (k d : Nat) {us : List Term} (h : ∀ u ∈ us, Closed u) : placed k d us = us := by
  induction us generalizing d with
  | nil => rfl
  | cons u us ih =>
    rw [placed, shiftFV_closed _ 0 (h u (by simp)), ih _ (fun v hv => h v (List.mem_cons_of_mem _ hv))]

theorem placed_length (k d : Nat) (us : List Term) : (placed k d us).length = us.length := by
  induction us generalizing d with
  | nil => rfl
  | cons u us ih => simp [placed, ih]

theorem placed_isEmpty (k d : Nat) (us : List Term) : (placed k d us).isEmpty = us.isEmpty := by
  cases us <;> rfl

theorem isAbs_shiftFV (a o : Nat) (t : Term) : isAbs (shiftFV a o t) = isAbs t := by
  cases t with
  | var i => simp only [shiftFV]; split <;> rfl
  | abs b => rfl
  | app l r => rfl

theorem isNormal_shiftFV (a o : Nat) (t : Term) : isNormal (shiftFV a o t) = isNormal t := by
  induction t generalizing o with
  | var i => simp only [shiftFV]; split <;> rfl
  | abs b ih => simp only [shiftFV, isNormal, ih]
  | app l r ihl ihr => simp only [shiftFV, isNormal, ihl, ihr, isAbs_shiftFV]

theorem normal_placed (k d : Nat) {us : List Term} (h : ∀ u ∈ us, isNormal u = true) :
    ∀ t ∈ placed k d us, isNormal t = true := by
  induction us generalizing d with
  | nil => intro t ht; cases ht
  | cons u us ih =>
    intro t ht
    rcases List.mem_cons.1 ht with rfl | ht
    · rw [isNormal_shiftFV]; exact h u (by simp)
    · exact ih (d + k) (fun v hv => h v (List.mem_cons_of_mem _ hv)) t ht

/-! ### pair list -/

theorem shiftFV_pairList_placed (c d : Nat) (h : c ≤ d) (us : List Term) :
    shiftFV 1 c (pairList (placed 1 d us)) = pairList (placed 1 (d + 1) us) := by
  induction us generalizing c d with
  | nil => rfl
  | cons u us ih =>
    simp only [placed, pairList, shiftFV]
    rw [shiftFV_shiftFV_within 1 (d + 1) 0 (c + 1) (by omega) (by omega), ih (c + 1) (d + 1) (by omega)]
    have e : 1 + (d + 1) = d + 1 + 1 := by omega
    have hc : ¬ 1 > c + 1 := by omega
    simp only [e, hc, if_false]

theorem cons_pair_any (a x : Term) :
    app2 Gen.PList.cons a x ↠ tuple2 (shiftFV 1 0 a) (shiftFV 1 0 x) := by
  have h := law_of_norSteps 2 (app2 Gen.PList.cons (var 1) (var 2)) (tuple2 (var 2) (var 3)) (by decide) [a, x]
  lc_simp [tuple2] at h; exact h

/-- repeated `cons` on ARBITRARY terms builds the conversion of the correctly placed elements -/
theorem conv_is_cons_pair_open (us : List Term) :
    us.foldr (fun t acc => app2 Gen.PList.cons t acc) Gen.PList.nil ↠ pairList (placed 1 0 us) := by
  induction us with
  | nil => exact Star.refl _
  | cons u us ih =>
    lc_trans (Star.congAppR _ ih)
    lc_trans (cons_pair_any _ _)
    rw [shiftFV_pairList_placed 0 0 (Nat.le_refl 0)]
    exact Star.refl _

theorem tuple2_elim_open (a b f : Term) : app (tuple2 (shiftFV 1 0 a) (shiftFV 1 0 b)) f ↠ app2 f a b := by
  unfold tuple2; lc_beta; exact Star.refl _

theorem pairList_placed_cons (u : Term) (us : List Term) :
    pairList (placed 1 0 (u :: us)) = tuple2 (shiftFV 1 0 u) (shiftFV 1 0 (pairList (placed 1 0 us))) := by
  rw [shiftFV_pairList_placed 0 0 (Nat.le_refl 0)]; rfl

theorem head_pairList_open (u : Term) (us : List Term) :
    app Gen.PList.head (pairList (placed 1 0 (u :: us))) ↠ u := by
  rw [pairList_placed_cons]
  generalize pairList (placed 1 0 us) = l
  lc_beta; lc_trans (tuple2_elim_open _ _ _); lc_beta 2; exact Star.refl _

theorem tail_pairList_open (u : Term) (us : List Term) :
    app Gen.PList.tail (pairList (placed 1 0 (u :: us))) ↠ pairList (placed 1 0 us) := by
  rw [pairList_placed_cons]
  generalize pairList (placed 1 0 us) = l
  lc_beta; lc_trans (tuple2_elim_open _ _ _); lc_beta 2; exact Star.refl _

theorem is_nil_pairList_open (us : List Term) :
    app Gen.PList.is_nil (pairList (placed 1 0 us)) ↠ fromBool us.isEmpty := by
  cases us with
  | nil => exact is_nil_nil_pair
  | cons u us =>
    rw [pairList_placed_cons]
    generalize pairList (placed 1 0 us) = l
    lc_beta; lc_head (tuple2_elim_open _ _ _); lc_beta 3; exact Star.refl _

/-! ### Scott list -/

theorem shiftFV_scottList_placed (c d : Nat) (h : c ≤ d) (us : List Term) :
    shiftFV 2 c (scottList (placed 2 d us)) = scottList (placed 2 (d + 2) us) := by
  induction us generalizing c d with
  | nil => simp [placed, scottList, shiftFV]
  | cons u us ih =>
    simp only [placed, scottList, shiftFV]
    rw [shiftFV_shiftFV_within 2 (d + 2) 0 (c + 1 + 1) (by omega) (by omega), ih (c + 1 + 1) (d + 2) (by omega)]
    have e : 2 + (d + 2) = d + 2 + 2 := by omega
    have hc : ¬ 1 > c + 1 + 1 := by omega
    simp only [e, hc, if_false]

theorem cons_scott_any (a x : Term) :
    app2 Gen.SList.cons a x ↠ abs (abs (app2 (var 1) (shiftFV 2 0 a) (shiftFV 2 0 x))) := by
  have h := law_of_norSteps 2 (app2 Gen.SList.cons (var 1) (var 2)) (abs (abs (app2 (var 1) (var 3) (var 4))))
    (by decide) [a, x]
  lc_simp at h; exact h

theorem scottList_placed_cons (u : Term) (us : List Term) :
    scottList (placed 2 0 (u :: us)) =
      abs (abs (app2 (var 1) (shiftFV 2 0 u) (shiftFV 2 0 (scottList (placed 2 0 us))))) := by
  rw [shiftFV_scottList_placed 0 0 (Nat.le_refl 0)]; rfl

theorem conv_is_cons_scott_open (us : List Term) :
    us.foldr (fun t acc => app2 Gen.SList.cons t acc) Gen.SList.nil ↠ scottList (placed 2 0 us) := by
  induction us with
  | nil => exact Star.refl _
  | cons u us ih =>
    lc_trans (Star.congAppR _ ih)
    lc_trans (cons_scott_any _ _)
    rw [scottList_placed_cons]
    exact Star.refl _

theorem head_scottList_open (u : Term) (us : List Term) :
    app Gen.SList.head (scottList (placed 2 0 (u :: us))) ↠ u := by
  rw [scottList_placed_cons]
  generalize scottList (placed 2 0 us) = l
  lc_beta 3; lc_beta 2; exact Star.refl _

theorem tail_scottList_open (u : Term) (us : List Term) :
    app Gen.SList.tail (scottList (placed 2 0 (u :: us))) ↠ scottList (placed 2 0 us) := by
  rw [scottList_placed_cons]
  generalize scottList (placed 2 0 us) = l
  lc_beta 3; lc_beta 2; exact Star.refl _

theorem is_nil_scottList_open (us : List Term) :
    app Gen.SList.is_nil (scottList (placed 2 0 us)) ↠ fromBool us.isEmpty := by
  cases us with
  | nil => exact is_nil_nil_scott
  | cons u us =>
    rw [scottList_placed_cons]
    generalize scottList (placed 2 0 us) = l
    lc_beta 3; lc_beta 2; exact Star.refl _

/-! ### Parigot list

A Parigot cell `λλ. 1 t L (unabs2 L)` holds its tail TWICE, at two different binder depths (`L` under the cell's two
binders, `unabs2 L` directly as part of the cell's body), so an open element occurs at two different shifts: the list
that repeated `cons` builds from open terms is not `parigotList` of any list.  It is the following term. -/

def openParigotList (d : Nat) : List Term → Term
  | [] => abs (abs (var 2))
  | u :: us =>
    abs (abs (app3 (var 1) (shiftFV (d + 2) 0 u) (openParigotList (d + 2) us) (unabs2 (openParigotList d us))))

theorem openParigotList_shape (d : Nat) (us : List Term) : ∃ b, openParigotList d us = abs (abs b) := by
  cases us with
  | nil => exact ⟨_, rfl⟩
  | cons u us => exact ⟨_, rfl⟩

theorem openParigotList_closed (d : Nat) {us : List Term} (h : ∀ u ∈ us, Closed u) :
    openParigotList d us = parigotList us := by
  induction us generalizing d with
  | nil => rfl
  | cons u us ih =>
    have h' : ∀ v ∈ us, Closed v := fun v hv => h v (List.mem_cons_of_mem _ hv)
    rw [openParigotList, parigotList, shiftFV_closed _ 0 (h u (by simp)), ih _ h', ih _ h']

theorem shiftFV_unabs2 (a c : Nat) (b : Term) :
    shiftFV a (c + 1 + 1) (unabs2 (abs (abs b))) = unabs2 (shiftFV a c (abs (abs b))) := rfl

theorem shiftFV_openParigotList (c d : Nat) (h : c ≤ d) (us : List Term) :
    shiftFV 2 c (openParigotList d us) = openParigotList (d + 2) us := by
  induction us generalizing c d with
  | nil => simp [openParigotList, shiftFV]
  | cons u us ih =>
    obtain ⟨b, hb⟩ := openParigotList_shape d us
    have e3 : shiftFV 2 (c + 1 + 1) (unabs2 (openParigotList d us)) = unabs2 (openParigotList (d + 2) us) := by
      rw [← ih c d h, hb]; rfl
    simp only [openParigotList, shiftFV]
    rw [shiftFV_shiftFV_within 2 (d + 2) 0 (c + 1 + 1) (by omega) (by omega), ih (c + 1 + 1) (d + 2) (by omega), e3]
    have e : 2 + (d + 2) = d + 2 + 2 := by omega
    have hc : ¬ 1 > c + 1 + 1 := by omega
    simp only [e, hc, if_false]

theorem eta2 (b : Term) : app2 (shiftFV 2 0 (abs (abs b))) (var 2) (var 1) ↠ b := by
  simp only [shiftFV]
  lc_head (Star.redc _ _); lc_trans (Star.redc _ _)
  simp only [contract]
  rw [applyAux_self 0]; exact Star.refl _

theorem cons_parigot_any (a x : Term) :
    app2 Gen.GList.cons a x ↠
      abs (abs (app3 (var 1) (shiftFV 2 0 a) (shiftFV 2 0 x) (app2 (shiftFV 2 0 x) (var 2) (var 1)))) := by
  have h := law_of_norSteps 3 (app2 Gen.GList.cons (var 1) (var 2))
    (abs (abs (app3 (var 1) (var 3) (var 4) (app2 (var 4) (var 2) (var 1))))) (by decide) [a, x]
  lc_simp at h; exact h

theorem openParigotList_cons (u : Term) (us : List Term) :
    openParigotList 0 (u :: us) =
      abs (abs (app3 (var 1) (shiftFV 2 0 u) (shiftFV 2 0 (openParigotList 0 us)) (unabs2 (openParigotList 0 us)))) := by
  rw [shiftFV_openParigotList 0 0 (Nat.le_refl 0)]; rfl

theorem cons_openParigotList (a : Term) (us : List Term) :
    app2 Gen.GList.cons a (openParigotList 0 us) ↠ openParigotList 0 (a :: us) := by
  lc_trans (cons_parigot_any _ _)
  rw [openParigotList_cons]
  obtain ⟨b, hb⟩ := openParigotList_shape 0 us
  rw [hb]
  exact Star.congAbs (Star.congAbs (Star.congAppR _ (eta2 b)))

theorem conv_is_cons_parigot_open (us : List Term) :
    us.foldr (fun t acc => app2 Gen.GList.cons t acc) Gen.GList.nil ↠ openParigotList 0 us := by
  induction us with
  | nil => exact Star.refl _
  | cons u us ih => exact (Star.congAppR _ ih).trans (cons_openParigotList u us)

theorem head_parigotList_open (u : Term) (us : List Term) :
    app Gen.GList.head (openParigotList 0 (u :: us)) ↠ u := by
  rw [openParigotList_cons]
  generalize unabs2 (openParigotList 0 us) = b
  generalize openParigotList 0 us = l
  lc_beta 3; lc_beta 3; exact Star.refl _

theorem tail_parigotList_open (u : Term) (us : List Term) :
    app Gen.GList.tail (openParigotList 0 (u :: us)) ↠ openParigotList 0 us := by
  rw [openParigotList_cons]
  generalize unabs2 (openParigotList 0 us) = b
  generalize openParigotList 0 us = l
  lc_beta 3; lc_beta 3; exact Star.refl _

theorem is_nil_parigotList_open (us : List Term) :
    app Gen.GList.is_nil (openParigotList 0 us) ↠ fromBool us.isEmpty := by
  cases us with
  | nil => exact is_nil_nil_parigot
  | cons u us =>
    rw [openParigotList_cons]
    generalize unabs2 (openParigotList 0 us) = b
    generalize openParigotList 0 us = l
    lc_beta 3; lc_beta 3; exact Star.refl _

/-! ### the unshifted statements are FALSE for open elements (the conversions capture, `cons` does not) -/

theorem conv_is_cons_fails_open :
    (¬ app2 Gen.PList.cons (var 5) Gen.PList.nil ↠ pairList [var 5]) ∧
    (¬ app2 Gen.CList.cons (var 5) Gen.CList.nil ↠ churchList [var 5]) ∧
    (¬ app2 Gen.SList.cons (var 5) Gen.SList.nil ↠ scottList [var 5]) ∧
    (¬ app2 Gen.GList.cons (var 5) Gen.GList.nil ↠ parigotList [var 5]) :=
  ⟨C17.not_star_of_norSteps 20 _ _ _ rfl (by decide) (by decide) (by decide),
   C17.not_star_of_norSteps 20 _ _ _ rfl (by decide) (by decide) (by decide),
   C17.not_star_of_norSteps 20 _ _ _ rfl (by decide) (by decide) (by decide),
   C17.not_star_of_norSteps 20 _ _ _ rfl (by decide) (by decide) (by decide)⟩

/-! ## 6. the observers on the RAW conversions: which closedness hypotheses are really needed

`is_nil` needs NO hypothesis on the elements (they are discarded), `head` only that the HEAD element is closed (the rest
of the list is arbitrary), `tail` only that the TAIL LIST is closed as a whole (its elements may refer to the tail's own
binders; the head element is arbitrary). -/

theorem k5_law (x y z : Term) : app3 (abs (abs (abs (abs (abs (var 1)))))) x y z ↠ abs (abs (var 1)) := by
  have h := law_of_norSteps 3 (app3 (abs (abs (abs (abs (abs (var 1)))))) (var 1) (var 2) (var 3)) (abs (abs (var 1)))
    (by decide) [x, y, z]
  lc_simp at h; exact h

theorem k4_law (x y : Term) : app2 (abs (abs (abs (abs (var 1))))) x y ↠ abs (abs (var 1)) := by
  have h := law_of_norSteps 3 (app2 (abs (abs (abs (abs (var 1))))) (var 1) (var 2)) (abs (abs (var 1)))
    (by decide) [x, y]
  lc_simp at h; exact h

theorem is_nil_pairList_any (ts : List Term) : app Gen.PList.is_nil (pairList ts) ↠ fromBool ts.isEmpty := by
  cases ts with
  | nil => exact is_nil_nil_pair
  | cons t ts =>
    show app Gen.PList.is_nil (abs (app2 (var 1) t (pairList ts))) ↠ _
    generalize pairList ts = l
    lc_beta
    lc_head (Star.redc _ _)
    simp only [contract, applyAux, if_true, Nat.sub_self, shiftFV_zero]
    exact k5_law _ _ _

theorem is_nil_scottList_any (ts : List Term) : app Gen.SList.is_nil (scottList ts) ↠ fromBool ts.isEmpty := by
  cases ts with
  | nil => exact is_nil_nil_scott
  | cons t ts =>
    show app Gen.SList.is_nil (abs (abs (app2 (var 1) t (scottList ts)))) ↠ _
    generalize scottList ts = l
    lc_beta
    lc_head (Star.redc _ _)
    lc_trans (Star.redc _ _)
    lc_simp
    exact k4_law _ _

theorem is_nil_parigotList_any (ts : List Term) : app Gen.GList.is_nil (parigotList ts) ↠ fromBool ts.isEmpty := by
  cases ts with
  | nil => exact is_nil_nil_parigot
  | cons t ts =>
    show app Gen.GList.is_nil (abs (abs (app3 (var 1) t (parigotList ts) (unabs2 (parigotList ts))))) ↠ _
    generalize unabs2 (parigotList ts) = b
    generalize parigotList ts = l
    lc_beta
    lc_head (Star.redc _ _)
    lc_trans (Star.redc _ _)
    lc_simp
    exact k5_law _ _ _

theorem is_nil_churchList_any (ts : List Term) : app Gen.CList.is_nil (churchList ts) ↠ fromBool ts.isEmpty := by
  cases ts with
  | nil => exact is_nil_nil_church
  | cons t ts =>
    show app Gen.CList.is_nil (abs (abs (app2 (var 1) t (churchListBody ts)))) ↠ _
    generalize churchListBody ts = l
    lc_beta
    lc_head (Star.redc _ _)
    lc_trans (Star.redc _ _)
    lc_simp
    exact k4_law _ _

theorem head_pairList_any (t : Term) (ts : List Term) (ht : Closed t) :
    app Gen.PList.head (pairList (t :: ts)) ↠ t := by
  show app Gen.PList.head (abs (app2 (var 1) t (pairList ts))) ↠ _
  generalize pairList ts = l
  lc_beta
  lc_head (Star.redc _ _)
  lc_simp
  lc_beta 2; exact Star.refl _

theorem head_scottList_any (t : Term) (ts : List Term) (ht : Closed t) :
    app Gen.SList.head (scottList (t :: ts)) ↠ t := by
  show app Gen.SList.head (abs (abs (app2 (var 1) t (scottList ts)))) ↠ _
  generalize scottList ts = l
  lc_beta
  lc_head (Star.redc _ _)
  lc_trans (Star.redc _ _)
  lc_simp
  lc_beta 2; exact Star.refl _

theorem head_churchList_any (t : Term) (ts : List Term) (ht : Closed t) :
    app Gen.CList.head (churchList (t :: ts)) ↠ t := by
  show app Gen.CList.head (abs (abs (app2 (var 1) t (churchListBody ts)))) ↠ _
  generalize churchListBody ts = l
  lc_beta
  lc_head (Star.redc _ _)
  lc_trans (Star.redc _ _)
  lc_simp
  lc_beta 2; exact Star.refl _

theorem head_parigotList_any (t : Term) (ts : List Term) (ht : Closed t) :
    app Gen.GList.head (parigotList (t :: ts)) ↠ t := by
  show app Gen.GList.head (abs (abs (app3 (var 1) t (parigotList ts) (unabs2 (parigotList ts))))) ↠ _
  generalize unabs2 (parigotList ts) = b
  generalize parigotList ts = l
  lc_beta
  lc_head (Star.redc _ _)
  lc_trans (Star.redc _ _)
  lc_simp
  lc_beta 3; exact Star.refl _

theorem tail_pairList_any (t : Term) (ts : List Term) (hl : Closed (pairList ts)) :
    app Gen.PList.tail (pairList (t :: ts)) ↠ pairList ts := by
  show app Gen.PList.tail (abs (app2 (var 1) t (pairList ts))) ↠ _
  generalize pairList ts = l at *
  lc_beta
  lc_head (Star.redc _ _)
  lc_simp
  lc_beta 2; exact Star.refl _

theorem tail_scottList_any (t : Term) (ts : List Term) (hl : Closed (scottList ts)) :
    app Gen.SList.tail (scottList (t :: ts)) ↠ scottList ts := by
  show app Gen.SList.tail (abs (abs (app2 (var 1) t (scottList ts)))) ↠ _
  generalize scottList ts = l at *
  lc_beta
  lc_head (Star.redc _ _)
  lc_trans (Star.redc _ _)
  lc_simp
  lc_beta 2; exact Star.refl _

theorem tail_parigotList_any (t : Term) (ts : List Term) (hl : Closed (parigotList ts)) :
    app Gen.GList.tail (parigotList (t :: ts)) ↠ parigotList ts := by
  show app Gen.GList.tail (abs (abs (app3 (var 1) t (parigotList ts) (unabs2 (parigotList ts))))) ↠ _
  generalize unabs2 (parigotList ts) = b
  generalize parigotList ts = l at *
  lc_beta
  lc_head (Star.redc _ _)
  lc_trans (Star.redc _ _)
  lc_simp
  lc_beta 3; exact Star.refl _

/-- Church `tail` with an ARBITRARY (raw, possibly captured) head element (it is discarded); the tail's elements are
arbitrary terms placed under the two binders -/
theorem tail_churchList_any_head (t : Term) (us : List Term) :
    app Gen.CList.tail (churchList (t :: us.map (shiftFV 2 0))) ↠ openChurchList us := by
  have h : app Gen.CList.tail (churchList (t :: us.map (shiftFV 2 0))) ↠
      app Gen.Pair.fst (app2 (churchList (t :: us.map (shiftFV 2 0))) tailNil tailStep) := by
    have h := law_of_norSteps 1 (app Gen.CList.tail (var 1)) (app Gen.Pair.fst (app2 (var 1) tailNil tailStep))
      (by decide) [churchList (t :: us.map (shiftFV 2 0))]
    have h1 : Closed tailNil := by decide
    have h2 := closed_tailStep
    lc_simp at h; exact h
  lc_trans h
  have h2 : app2 (churchList (t :: us.map (shiftFV 2 0))) tailNil tailStep ↠
      app2 tailStep (applyAux tailStep 1 (applyAux tailNil 2 t)) (us.foldr (fun t acc => app2 tailStep t acc) tailNil) := by
    show app2 (abs (abs (app2 (var 1) t (churchListBody (us.map (shiftFV 2 0)))))) tailNil tailStep ↠ _
    lc_head (Star.redc _ _); lc_trans (Star.redc _ _)
    simp only [contract, applyAux]
    rw [churchListBody_inst_open]
    simp [applyAux, shiftFV_zero]
    exact Star.refl _
  lc_trans (Star.congAppR _ h2)
  lc_trans (Star.congAppR _ (Star.congAppR _ (tail_fold_open us)))
  lc_trans (Star.congAppR _ (tailStep_law _ _))
  lc_trans (fst_pair_any _ _)
  exact snd_pair_any _ _

theorem tail_churchList_any (t : Term) (ts : List Term) (h : NoFree12 ts) :
    app Gen.CList.tail (churchList (t :: ts)) ↠ churchList ts := by
  rw [h.eq_open]
  conv => lhs; rw [← h.eq_map]
  exact tail_churchList_any_head t _

/-- a non-closed head element is NOT returned unchanged (it is captured, or renumbered) -/
theorem head_fails_open :
    (¬ app Gen.PList.head (pairList [var 1]) ↠ var 1) ∧ (¬ app Gen.PList.head (pairList [var 2]) ↠ var 2) ∧
    (¬ app Gen.CList.head (churchList [var 1]) ↠ var 1) ∧ (¬ app Gen.SList.head (scottList [var 3]) ↠ var 3) ∧
    (¬ app Gen.GList.head (parigotList [var 2]) ↠ var 2) :=
  ⟨C17.not_star_of_norSteps 20 _ _ _ rfl (by decide) (by decide) (by decide),
   C17.not_star_of_norSteps 20 _ _ _ rfl (by decide) (by decide) (by decide),
   C17.not_star_of_norSteps 20 _ _ _ rfl (by decide) (by decide) (by decide),
   C17.not_star_of_norSteps 20 _ _ _ rfl (by decide) (by decide) (by decide),
   C17.not_star_of_norSteps 20 _ _ _ rfl (by decide) (by decide) (by decide)⟩

/-! ## 7. the general form of `tail (cons a l)` on the RAW conversion, and the converse for normal elements

`tail (cons a (churchList ts))` reduces, for ARBITRARY `a` and ARBITRARY `ts`, to the list of the elements with the two
captured indices instantiated by the constants of `TAIL`'s fold (`starElem`); hence for NORMAL elements
`tail (cons a l) ↠ l` holds IF AND ONLY IF the indices 1, 2 do not occur free in the elements. -/

/-- what the fold `l n c` substitutes for an element of the raw conversion -/
def starElem (n c t : Term) : Term := applyAux c 1 (applyAux n 2 t)

theorem churchListBody_inst_raw (ts : List Term) (n c : Term) :
    applyAux c 1 (applyAux n 2 (churchListBody ts)) =
      (ts.map (starElem n c)).foldr (fun t acc => app2 c t acc) n := by
  induction ts with
  | nil => lc_simp [churchListBody]
  | cons t ts ih => lc_simp [churchListBody, ih, starElem]

theorem churchList_elim_raw (ts : List Term) (n c : Term) :
    app2 (churchList ts) n c ↠ (ts.map (starElem n c)).foldr (fun t acc => app2 c t acc) n := by
  unfold churchList
  lc_head (Star.redc _ _); lc_trans (Star.redc _ _)
  simp only [contract]
  rw [churchListBody_inst_raw]; exact Star.refl _

theorem tail_churchList_raw (ts : List Term) :
    app Gen.CList.tail (churchList ts) ↠ openTl (ts.map (starElem tailNil tailStep)) := by
  have h : app Gen.CList.tail (churchList ts) ↠
      app Gen.Pair.fst (app2 (churchList ts) tailNil tailStep) := by
    have h := law_of_norSteps 1 (app Gen.CList.tail (var 1)) (app Gen.Pair.fst (app2 (var 1) tailNil tailStep))
      (by decide) [churchList ts]
    have h1 : Closed tailNil := by decide
    have h2 := closed_tailStep
    lc_simp at h; exact h
  lc_trans h
  lc_trans (Star.congAppR _ ((churchList_elim_raw ts _ _).trans (tail_fold_open _)))
  exact fst_pair_any _ _

/-- the general form: ARBITRARY `a`, RAW conversion of ARBITRARY terms -/
theorem tail_cons_church_raw (a : Term) (ts : List Term) :
    app Gen.CList.tail (app2 Gen.CList.cons a (churchList ts)) ↠
      openChurchList (ts.map (starElem tailNil tailStep)) :=
  (Star.congAppR _ (cons_churchList_open a ts)).trans (tail_churchList_raw (shiftFV 2 0 a :: ts))

theorem star_churchListBody_inv (us : List Term) {w : Term} (h : churchListBody us ↠ w) :
    ∃ ws, w = churchListBody ws ∧ ∀ t ∈ ws, ∃ u ∈ us, u ↠ t := by
  induction us generalizing w with
  | nil => exact ⟨[], Spec.Star.var_inv h, fun t ht => by cases ht⟩
  | cons u us ih =>
    obtain ⟨l', r', rfl, hl, hr, _⟩ := Spec.Star.neutral_app_inv (l := app (var 1) u) rfl h
    obtain ⟨v', u', rfl, hv, hu, _⟩ := Spec.Star.neutral_app_inv (l := var 1) rfl hl
    obtain ⟨ws, rfl, hws⟩ := ih hr
    rw [Spec.Star.var_inv hv]
    refine ⟨u' :: ws, rfl, ?_⟩
    intro t ht
    rcases List.mem_cons.1 ht with rfl | ht
    · exact ⟨u, by simp, hu⟩
    · obtain ⟨x, hx, hs⟩ := hws t ht
      exact ⟨x, List.mem_cons_of_mem _ hx, hs⟩

theorem churchListBody_inj {us ws : List Term} (h : churchListBody us = churchListBody ws) : us = ws := by
  induction us generalizing ws with
  | nil => cases ws with
    | nil => rfl
    | cons w ws => simp [churchListBody] at h
  | cons u us ih => cases ws with
    | nil => simp [churchListBody] at h
    | cons w ws =>
      simp only [churchListBody, app.injEq] at h
      rw [h.1.2, ih h.2]

/-- for NORMAL elements the hypothesis is also NECESSARY -/
theorem tail_cons_church_nofree_of_normal (a : Term) (ts : List Term) (hn : ∀ t ∈ ts, isNormal t = true)
    (h : app Gen.CList.tail (app2 Gen.CList.cons a (churchList ts)) ↠ churchList ts) : NoFree12 ts := by
  have hnf := (isNormal_iff_normal _).1 (normal_churchList ts hn)
  have h2 := star_normal_of_star (tail_cons_church_raw a ts) h hnf
  unfold openChurchList churchList at h2
  obtain ⟨b1, e1, h3⟩ := Spec.Star.abs_inv h2
  injection e1 with e1; subst e1
  obtain ⟨b2, e2, h4⟩ := Spec.Star.abs_inv h3
  injection e2 with e2; subst e2
  obtain ⟨ws, e, hws⟩ := star_churchListBody_inv _ h4
  have e' := churchListBody_inj e
  subst e'
  intro t ht
  obtain ⟨u, hu, hs⟩ := hws t ht
  have hno := NoFree12.of_open _ u hu
  exact ⟨fun hf => hno.1 (freeIn_star hs hf), fun hf => hno.2 (freeIn_star hs hf)⟩
end ListMore
end LC
