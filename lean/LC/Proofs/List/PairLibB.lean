/-
Layer-1 correctness of the pair-list library functions of `/repo/src/data/list/pair.rs` that involve Church numerals:
`length take drop replicate index list`, for ALL lists of closed terms / all naturals, up to β-reduction.
Helpers live in namespace `LC.PairLibB`.
-/
import LC.Proofs.Num.ChurchA

namespace LC
open Term Spec Enc

namespace PairLibB

/-! ### basics (proved locally; colleagues prove the official versions elsewhere) -/

theorem closed_tail {t : Term} {ts : List Term} (h : ∀ u ∈ t :: ts, Closed u) : ∀ u ∈ ts, Closed u :=
  fun u hu => h u (List.mem_cons_of_mem _ hu)

theorem is_nil_nil : app Gen.PList.is_nil (pairList []) ↠ fromBool true := by
  lc_beta; lc_trans (pairList_elim_nil _ _); exact Star.refl _

theorem is_nil_cons {t : Term} {ts : List Term} (ht : Closed t) (hts : ∀ u ∈ ts, Closed u) :
    app Gen.PList.is_nil (pairList (t :: ts)) ↠ fromBool false := by
  have := closed_pairList hts
  lc_beta; lc_head (pairList_elim_cons ht hts _); lc_beta 3; exact Star.refl _

theorem is_nil_correct {ts : List Term} (hts : ∀ u ∈ ts, Closed u) :
    app Gen.PList.is_nil (pairList ts) ↠ fromBool ts.isEmpty := by
  cases ts with
  | nil => exact is_nil_nil
  | cons t ts => exact is_nil_cons (hts t (by simp)) (closed_tail hts)

theorem head_cons {t : Term} {ts : List Term} (ht : Closed t) (hts : ∀ u ∈ ts, Closed u) :
    app Gen.PList.head (pairList (t :: ts)) ↠ t := plist_head_correct ht hts

theorem tail_cons {t : Term} {ts : List Term} (ht : Closed t) (hts : ∀ u ∈ ts, Closed u) :
    app Gen.PList.tail (pairList (t :: ts)) ↠ pairList ts := by
  have := closed_pairList hts
  lc_beta; lc_trans (pairList_elim_cons ht hts _); lc_beta 2; exact Star.refl _

/-- `TAIL NIL` is NOT `NIL`: it is the identity `λx.x` -/
theorem tail_nil : app Gen.PList.tail (pairList []) ↠ Gen.Comb.I := by
  lc_beta; lc_beta; exact Star.refl _

/-- `HEAD NIL` is the identity `λx.x` -/
theorem head_nil : app Gen.PList.head (pairList []) ↠ Gen.Comb.I := by
  lc_beta; lc_beta; exact Star.refl _

theorem cons_correct {t : Term} {ts : List Term} (ht : Closed t) (hts : ∀ u ∈ ts, Closed u) :
    app2 Gen.PList.cons t (pairList ts) ↠ pairList (t :: ts) := by
  have := closed_pairList hts
  lc_beta 2; exact Star.refl _

/-- the common prologue of the recursive functions: `IS_NIL l A B I` on the empty list is `A I` -/
theorem is_nil_sel_nil (A B : Term) :
    app4 Gen.PList.is_nil (pairList []) A B Gen.Comb.I ↠ app A Gen.Comb.I := by
  lc_head is_nil_nil; lc_head (tru_elim _ _); exact Star.refl _

/-- … and on a non-empty list it is `B I` -/
theorem is_nil_sel_cons {t : Term} {ts : List Term} (ht : Closed t) (hts : ∀ u ∈ ts, Closed u) (A B : Term) :
    app4 Gen.PList.is_nil (pairList (t :: ts)) A B Gen.Comb.I ↠ app B Gen.Comb.I := by
  lc_head (is_nil_cons ht hts); lc_head (fls_elim _ _); exact Star.refl _

theorem pred_succ (n : Nat) : app Gen.Church.pred (intoChurch (n + 1)) ↠ intoChurch n :=
  church_pred_correct (n + 1)

/-! ### LENGTH ≡ Z (λzal.IS_NIL l (λx.a) (λx.z (SUCC a) (TAIL l)) I) ZERO -/

def lengthF : Term := appArg (appFn Gen.PList.length)
theorem length_eq : Gen.PList.length = app2 Gen.Comb.Z lengthF (intoChurch 0) := by decide
theorem closed_lengthF : Closed lengthF := by decide

theorem length_acc (xs : List Term) (hxs : ∀ t ∈ xs, Closed t) (k : Nat) :
    app2 (ZF lengthF) (intoChurch k) (pairList xs) ↠ intoChurch (k + xs.length) := by
  induction xs generalizing k with
  | nil =>
    lc_head (ZF_unfold closed_lengthF); lc_beta 3
    lc_trans (is_nil_sel_nil _ _); lc_beta; exact Star.refl _
  | cons x xs ih =>
    have hx := hxs x (by simp)
    have hxs' := closed_tail hxs
    have hl := closed_pairList hxs
    lc_head (ZF_unfold closed_lengthF); lc_beta 3
    lc_trans (is_nil_sel_cons hx hxs' _ _); lc_beta
    lc_head (ZF_stub closed_lengthF _)
    lc_trans (Star.congApp (Star.congAppR _ (church_succ_correct k)) (tail_cons hx hxs'))
    rw [show k + (xs.length + 1) = (k + 1) + xs.length by omega]
    exact ih hxs' (k + 1)

end PairLibB

open PairLibB

theorem plist_length_correct (xs : List Term) (hxs : ∀ t ∈ xs, Closed t) :
    app Gen.PList.length (pairList xs) ↠ intoChurch xs.length := by
  rw [length_eq]; lc_head (Z_unfold closed_lengthF)
  have h := length_acc xs hxs 0
  rw [Nat.zero_add] at h; exact h

/-! ## TAKE ≡ Z (λznl.IS_NIL l (λx.NIL) (λx.IS_ZERO n NIL (CONS (HEAD l) (z (PRED n) (TAIL l)))) I) -/

namespace PairLibB

def takeF : Term := appArg Gen.PList.take
theorem take_eq : Gen.PList.take = app Gen.Comb.Z takeF := by decide
theorem closed_takeF : Closed takeF := by decide

theorem take_ZF (n : Nat) (xs : List Term) (hxs : ∀ t ∈ xs, Closed t) :
    app2 (ZF takeF) (intoChurch n) (pairList xs) ↠ pairList (xs.take n) := by
  induction xs generalizing n with
  | nil =>
    lc_head (ZF_unfold closed_takeF); lc_beta 3
    lc_trans (is_nil_sel_nil _ _); lc_beta; exact Star.refl _
  | cons x xs ih =>
    have hx := hxs x (by simp)
    have hxs' := closed_tail hxs
    have hl := closed_pairList hxs
    lc_head (ZF_unfold closed_takeF); lc_beta 3
    lc_trans (is_nil_sel_cons hx hxs' _ _); lc_beta
    lc_head (church_is_zero_correct n)
    cases n with
    | zero => lc_trans (tru_elim _ _); exact Star.refl _
    | succ n =>
      lc_trans (fls_elim _ _)
      lc_rw (ZF_stub closed_takeF _)
      lc_rw (pred_succ n)
      lc_rw (tail_cons hx hxs')
      lc_rw (head_cons hx hxs')
      lc_rw (ih n hxs')
      exact cons_correct hx (fun u hu => hxs' u (List.mem_of_mem_take hu))

end PairLibB

theorem plist_take_correct (n : Nat) (xs : List Term) (hxs : ∀ t ∈ xs, Closed t) :
    app2 Gen.PList.take (intoChurch n) (pairList xs) ↠ pairList (xs.take n) := by
  rw [take_eq]; lc_head (Z_unfold closed_takeF); exact take_ZF n xs hxs

/-! ## DROP ≡ Z (λznl.IS_NIL l (λx.NIL) (λx.IS_ZERO n l (z (PRED n) (TAIL l))) I) -/

namespace PairLibB

def dropF : Term := appArg Gen.PList.drop
theorem drop_eq : Gen.PList.drop = app Gen.Comb.Z dropF := by decide
theorem closed_dropF : Closed dropF := by decide

theorem drop_ZF (n : Nat) (xs : List Term) (hxs : ∀ t ∈ xs, Closed t) :
    app2 (ZF dropF) (intoChurch n) (pairList xs) ↠ pairList (xs.drop n) := by
  induction xs generalizing n with
  | nil =>
    lc_head (ZF_unfold closed_dropF); lc_beta 3
    lc_trans (is_nil_sel_nil _ _); lc_beta; exact Star.refl _
  | cons x xs ih =>
    have hx := hxs x (by simp)
    have hxs' := closed_tail hxs
    have hl := closed_pairList hxs
    lc_head (ZF_unfold closed_dropF); lc_beta 3
    lc_trans (is_nil_sel_cons hx hxs' _ _); lc_beta
    lc_head (church_is_zero_correct n)
    cases n with
    | zero => lc_trans (tru_elim _ _); exact Star.refl _
    | succ n =>
      lc_trans (fls_elim _ _)
      lc_head (ZF_stub closed_dropF _)
      lc_trans (Star.congApp (Star.congAppR _ (pred_succ n)) (tail_cons hx hxs'))
      exact ih n hxs'

end PairLibB

theorem plist_drop_correct (n : Nat) (xs : List Term) (hxs : ∀ t ∈ xs, Closed t) :
    app2 Gen.PList.drop (intoChurch n) (pairList xs) ↠ pairList (xs.drop n) := by
  rw [drop_eq]; lc_head (Z_unfold closed_dropF); exact drop_ZF n xs hxs

/-! ## REPLICATE ≡ Z (λzny.IS_ZERO n (λx.NIL) (λx.PAIR y (z (PRED n) y)) I) -/

namespace PairLibB

def replicateF : Term := appArg Gen.PList.replicate
theorem replicate_eq : Gen.PList.replicate = app Gen.Comb.Z replicateF := by decide
theorem closed_replicateF : Closed replicateF := by decide

theorem closed_replicate {n : Nat} {y : Term} (hy : Closed y) : ∀ u ∈ List.replicate n y, Closed u :=
  fun _ hu => (List.eq_of_mem_replicate hu) ▸ hy

theorem replicate_ZF (n : Nat) (y : Term) (hy : Closed y) :
    app2 (ZF replicateF) (intoChurch n) y ↠ pairList (List.replicate n y) := by
  induction n with
  | zero =>
    lc_head (ZF_unfold closed_replicateF); lc_beta 3
    lc_head (church_is_zero_correct 0); lc_head (tru_elim _ _); lc_beta; exact Star.refl _
  | succ n ih =>
    lc_head (ZF_unfold closed_replicateF); lc_beta 3
    lc_head (church_is_zero_correct (n + 1)); lc_head (fls_elim _ _); lc_beta
    lc_rw (ZF_stub closed_replicateF _)
    lc_rw (pred_succ n)
    lc_rw ih
    exact cons_correct hy (closed_replicate hy)

end PairLibB

theorem plist_replicate_correct (n : Nat) (y : Term) (hy : Closed y) :
    app2 Gen.PList.replicate (intoChurch n) y ↠ pairList (List.replicate n y) := by
  rw [replicate_eq]; lc_head (Z_unfold closed_replicateF); exact replicate_ZF n y hy

/-! ## INDEX ≡ λil.HEAD (i TAIL l) -/

namespace PairLibB

/-- `TAILⁿ l` drops `n ≤ length l` elements (beyond the length it alternates between `I` and `NIL`, see `tail_nil`) -/
theorem iter_tail (n : Nat) (xs : List Term) (hxs : ∀ t ∈ xs, Closed t) (hn : n ≤ xs.length) :
    iterApp Gen.PList.tail (pairList xs) n ↠ pairList (xs.drop n) := by
  induction n generalizing xs with
  | zero => exact Star.refl _
  | succ n ih =>
    cases xs with
    | nil => simp at hn
    | cons x xs =>
      have hx := hxs x (by simp)
      have hxs' := closed_tail hxs
      rw [iterApp_succ']
      lc_trans (Star.iterApp (Star.refl _) (tail_cons hx hxs') n)
      exact ih xs hxs' (by simpa using hn)

end PairLibB

theorem plist_index_correct (xs : List Term) (hxs : ∀ t ∈ xs, Closed t) (n : Nat) (hn : n < xs.length) :
    app2 Gen.PList.index (intoChurch n) (pairList xs) ↠ xs[n] := by
  have hl := closed_pairList hxs
  lc_beta 2
  lc_rw (church_elim n _ _)
  lc_rw (iter_tail n xs hxs (Nat.le_of_lt hn))
  rw [List.drop_eq_getElem_cons hn]
  exact head_cons (hxs _ (List.getElem_mem hn)) (fun u hu => hxs u (List.mem_of_mem_drop hu))

/-! ## LIST ≡ λn.n (λfax.f (CONS x a)) REVERSE NIL -/

namespace PairLibB

def absBody : Term → Term | abs b => b | t => t

/-- the step `λfax.f (CONS x a)` of `LIST`, named without copying its tree -/
def listG : Term := appArg (appFn (appFn (absBody Gen.PList.list)))
theorem list_eq :
    Gen.PList.list = abs (app2 (app (var 1) listG) Gen.PList.reverse (pairList [])) := by decide
theorem closed_listG : Closed listG := by decide

theorem foldl_app_star {t t' : Term} (h : t ↠ t') (xs : List Term) :
    xs.foldl (fun acc x => app acc x) t ↠ xs.foldl (fun acc x => app acc x) t' := by
  induction xs generalizing t t' with
  | nil => exact h
  | cons x xs ih => exact ih (Star.congAppL x h)

/-- one step of the collector: `G f a x ↠ f (CONS x a)` for closed `f` -/
theorem listG_step {f x : Term} {ys : List Term} (hf : Closed f) (hx : Closed x) (hys : ∀ t ∈ ys, Closed t) :
    app3 listG f (pairList ys) x ↠ app f (pairList (x :: ys)) := by
  have hl := closed_pairList hys
  lc_beta 3
  exact Star.congAppR _ (cons_correct hx hys)

theorem list_acc (hrev : ∀ ys, (∀ t ∈ ys, Closed t) → app Gen.PList.reverse (pairList ys) ↠ pairList ys.reverse)
    (xs ys : List Term) (hxs : ∀ t ∈ xs, Closed t) (hys : ∀ t ∈ ys, Closed t) :
    xs.foldl (fun acc x => app acc x) (app (iterApp listG Gen.PList.reverse xs.length) (pairList ys)) ↠
      pairList (ys.reverse ++ xs) := by
  induction xs generalizing ys with
  | nil => simpa using hrev ys hys
  | cons x xs ih =>
    have hx := hxs x (by simp)
    have hxs' := closed_tail hxs
    have hf : Closed (iterApp listG Gen.PList.reverse xs.length) :=
      closedAt_iterApp_of closed_listG (by decide) _
    rw [List.length_cons, iterApp_succ, List.foldl_cons]
    lc_trans (foldl_app_star (listG_step hf hx hys) xs)
    have hys' : ∀ t ∈ x :: ys, Closed t := by
      intro t ht
      rcases List.mem_cons.1 ht with h | h
      · exact h ▸ hx
      · exact hys t h
    have h := ih (x :: ys) hxs' hys'
    rw [List.reverse_cons, List.append_assoc] at h
    exact h

end PairLibB

/-- `LIST n x₁ … xₙ` builds `[x₁, …, xₙ]`; the correctness of `REVERSE` is taken as a hypothesis -/
theorem plist_list_correct
    (hrev : ∀ ys, (∀ t ∈ ys, Closed t) → app Gen.PList.reverse (pairList ys) ↠ pairList ys.reverse)
    (xs : List Term) (hxs : ∀ t ∈ xs, Closed t) :
    (xs.foldl (fun acc x => app acc x) (app Gen.PList.list (intoChurch xs.length))) ↠ pairList xs := by
  have h1 : app Gen.PList.list (intoChurch xs.length) ↠
      app (iterApp listG Gen.PList.reverse xs.length) (pairList []) := by
    rw [list_eq]; lc_beta; lc_head (church_elim _ _ _); exact Star.refl _
  lc_trans (foldl_app_star h1 xs)
  simpa using list_acc hrev xs [] hxs (by simp)

end LC
