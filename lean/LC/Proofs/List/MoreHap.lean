/-
C16 (more) — eager evaluation (order HAP) of the observers and conversions of ALL FOUR list encodings on lists of
ARBITRARY admissible elements: closed HAP values (`C16.HapValue v := Closed v ∧ EvalHap v v`), which the numerals of all
five numeral encodings are.  The derivations of `LC/Proofs/Eager/ListA.lean` are generic in a family `f : Nat → Term` of
closed normal terms; here a list of admissible elements is presented as `ns.map f` for such a family (`exists_family`),
and the pair-list observers (stated there for Church numerals only) are re-derived generically.
-/
import LC.Proofs.Eager.ListA

namespace LC
open Term Spec Enc RL Eager C16 EagerListA

set_option linter.unusedSimpArgs false
attribute [local irreducible] iterApp

namespace C16

/-- an admissible element of a list for the eager (HAP) theorems: a CLOSED term that is a HAP VALUE (evaluates to
itself) — the numerals of all encodings, booleans, pairs/lists of such, … -/
def HapValue (v : Term) : Prop := Closed v ∧ EvalHap v v

theorem hapValue_iff (v : Term) : HapValue v ↔ Closed v ∧ isNormal v = true :=
  ⟨fun h => ⟨h.1, h.2.isNormal⟩, fun h => ⟨h.1, EvalHap.of_isNormal h.2⟩⟩

theorem HapValue.closed {v : Term} (h : HapValue v) : Closed v := h.1
theorem HapValue.normal {v : Term} (h : HapValue v) : isNormal v = true := h.2.isNormal
theorem HapValue.mk' {v : Term} (hc : Closed v) (hn : isNormal v = true) : HapValue v :=
  ⟨hc, EvalHap.of_isNormal hn⟩

theorem hapValue_church (n : Nat) : HapValue (intoChurch n) := .mk' (closed_intoChurch n) (normal_intoChurch n)
theorem hapValue_scott (n : Nat) : HapValue (intoScott n) := .mk' (closed_intoScott n) (C12_normal_scott n)
theorem hapValue_parigot (n : Nat) : HapValue (intoParigot n) := .mk' (closed_intoParigot n) (C12_normal_parigot n)
theorem hapValue_stumpfu (n : Nat) : HapValue (intoStumpFu n) := .mk' (closed_intoStumpFu n) (C12_normal_stumpfu n)
theorem hapValue_binary (n : Nat) : HapValue (intoBinary n) := .mk' (closed_intoBinary n) (C12_normal_binary n)

/-- the numerals of every encoding are admissible -/
theorem hapValue_num (e : Encoding) (n : Nat) : HapValue (intoNum e n) := by
  cases e
  · exact hapValue_church n
  · exact hapValue_scott n
  · exact hapValue_parigot n
  · exact hapValue_stumpfu n
  · exact hapValue_binary n

theorem hapValue_bool (b : Bool) : HapValue (fromBool b) := .mk' (closedAt_fromBool 0 b) (isNormal_fromBool b)

theorem hapValue_map {α : Type} {f : α → Term} (hf : ∀ a, HapValue (f a)) (l : List α) :
    ∀ t ∈ l.map f, HapValue t := by
  intro t ht
  obtain ⟨a, _, rfl⟩ := List.mem_map.1 ht
  exact hf a

/-- a list of admissible elements is `ns.map f` for a family `f` of closed normal terms -/
theorem exists_family (ts : List Term) (h : ∀ t ∈ ts, HapValue t) :
    ∃ (f : Nat → Term) (ns : List Nat), (∀ a, closedAt 0 (f a) = true) ∧ (∀ a, isNormal (f a) = true) ∧ ns.map f = ts := by
  refine ⟨fun i => ts.getD i (var 0), List.range ts.length, ?_, ?_, ?_⟩
  · intro a
    by_cases ha : a < ts.length
    · simp only [List.getD_eq_getElem?_getD, List.getElem?_eq_getElem ha, Option.getD_some]
      exact (h _ (List.getElem_mem ha)).closed
    · simp only [List.getD_eq_getElem?_getD, List.getElem?_eq_none (by omega : ts.length ≤ a), Option.getD_none]; rfl
  · intro a
    by_cases ha : a < ts.length
    · simp only [List.getD_eq_getElem?_getD, List.getElem?_eq_getElem ha, Option.getD_some]
      exact (h _ (List.getElem_mem ha)).normal
    · simp only [List.getD_eq_getElem?_getD, List.getElem?_eq_none (by omega : ts.length ≤ a), Option.getD_none]; rfl
  · apply List.ext_getElem
    · simp
    · intro i h1 h2
      simp only [List.length_map, List.length_range] at h1
      simp [List.getD_eq_getElem?_getD, List.getElem?_eq_getElem h1]

/-- … and a non-empty one is `(n :: ns).map f` -/
theorem exists_family_cons (t : Term) (ts : List Term) (h : ∀ u ∈ t :: ts, HapValue u) :
    ∃ (f : Nat → Term) (n : Nat) (ns : List Nat), (∀ a, closedAt 0 (f a) = true) ∧ (∀ a, isNormal (f a) = true) ∧
      f n = t ∧ ns.map f = ts := by
  obtain ⟨f, ns, hf, hn, e⟩ := exists_family (t :: ts) h
  cases ns with
  | nil => cases e
  | cons n ns =>
    rw [List.map_cons] at e
    injection e with e1 e2
    exact ⟨f, n, ns, hf, hn, e1, e2⟩

end C16

/-! ## the pair list, generically -/

namespace EagerListMore

section Pair
variable {f : Nat → Term} (hf : ∀ a, closedAt 0 (f a) = true) (hn : ∀ a, isNormal (f a) = true)
include hf

theorem closed_pl (ns : List Nat) : closedAt 0 (pairList (ns.map f)) = true := closed_pairList (closed_map hf ns)

include hn

omit hf in
theorem normal_pl (ns : List Nat) : isNormal (pairList (ns.map f)) = true := normal_pairList _ (normal_map hn ns)

theorem is_nil_pl (ns : List Nat) : EvalHap (app Gen.PList.is_nil (pairList (ns.map f))) (fromBool ns.isEmpty) := by
  have hw : ∀ a, isWNF (f a) = true := fun a => isNormal_isWNF (hn a)
  have hc := closed_pl hf
  have hnl := normal_pl hn
  have hwl : ∀ ns : List Nat, isWNF (pairList (ns.map f)) = true := fun ns => isNormal_isWNF (hnl ns)
  cases ns with
  | nil => simp only [List.map_nil, pairList]; ev
  | cons n ns => simp only [List.map_cons, pairList]; ev [hf, hc]

theorem head_pl (n : Nat) (ns : List Nat) : EvalHap (app Gen.PList.head (pairList ((n :: ns).map f))) (f n) := by
  have hw : ∀ a, isWNF (f a) = true := fun a => isNormal_isWNF (hn a)
  have hc := closed_pl hf
  have hnl := normal_pl hn
  have hwl : ∀ ns : List Nat, isWNF (pairList (ns.map f)) = true := fun ns => isNormal_isWNF (hnl ns)
  simp only [List.map_cons, pairList]; ev [hf, hc]

theorem tail_pl (n : Nat) (ns : List Nat) :
    EvalHap (app Gen.PList.tail (pairList ((n :: ns).map f))) (pairList (ns.map f)) := by
  have hw : ∀ a, isWNF (f a) = true := fun a => isNormal_isWNF (hn a)
  have hc := closed_pl hf
  have hnl := normal_pl hn
  have hwl : ∀ ns : List Nat, isWNF (pairList (ns.map f)) = true := fun ns => isNormal_isWNF (hnl ns)
  simp only [List.map_cons, pairList]; ev [hf, hc]

theorem conv_pl (ns : List Nat) :
    EvalHap (ns.foldr (fun n acc => app2 Gen.PList.cons (f n) acc) Gen.PList.nil) (pairList (ns.map f)) := by
  have hw : ∀ a, isWNF (f a) = true := fun a => isNormal_isWNF (hn a)
  have hc := closed_pl hf
  have hnl := normal_pl hn
  have hwl : ∀ ns : List Nat, isWNF (pairList (ns.map f)) = true := fun ns => isNormal_isWNF (hnl ns)
  induction ns with
  | nil => exact EvalHap.of_isNormal rfl
  | cons a ns ih =>
    rw [List.foldr_cons]
    refine EvalHap.app_arg ih ?_
    simp only [List.map_cons, pairList]
    ev [hf, hc]

end Pair

/-! ### one `cons` step on a converted list (the inductive steps of the `conv_*` derivations of ListA.lean) -/

section ConsStep
variable {f : Nat → Term} (hf : ∀ a, closedAt 0 (f a) = true) (hn : ∀ a, isNormal (f a) = true)
include hf hn

theorem cons_pl (a : Nat) (ns : List Nat) :
    EvalHap (app2 Gen.PList.cons (f a) (pairList (ns.map f))) (pairList ((a :: ns).map f)) := by
  have hw : ∀ a, isWNF (f a) = true := fun a => isNormal_isWNF (hn a)
  have hc := closed_pl hf
  have hnl := normal_pl hn
  have hwl : ∀ ns : List Nat, isWNF (pairList (ns.map f)) = true := fun ns => isNormal_isWNF (hnl ns)
  simp only [List.map_cons, pairList]
  ev [hf, hc]

theorem cons_sl (a : Nat) (ns : List Nat) :
    EvalHap (app2 Gen.SList.cons (f a) (scottList (ns.map f))) (scottList ((a :: ns).map f)) := by
  have hw : ∀ a, isWNF (f a) = true := fun a => isNormal_isWNF (hn a)
  have hc := closed_sl hf
  have hnl := normal_sl hn
  simp only [List.map_cons, scottList]
  ev [hf, hc]

theorem cons_chl (a : Nat) (ns : List Nat) :
    EvalHap (app2 Gen.CList.cons (f a) (churchList (ns.map f))) (churchList ((a :: ns).map f)) := by
  have hw : ∀ a, isWNF (f a) = true := fun a => isNormal_isWNF (hn a)
  have hi := clb_inst hf
  have hnl := normal_chl hn
  have hc := closed_chl hf
  have hnb := normal_clb hn
  show EvalHap _ (abs (abs (app2 (var 1) (f a) (churchListBody (ns.map f)))))
  ev [hf, hc, hi, cfold_vars]

theorem cons_pgl (a : Nat) (ns : List Nat) :
    EvalHap (app2 Gen.GList.cons (f a) (parigotList (ns.map f))) (parigotList ((a :: ns).map f)) := by
  have hw : ∀ a, isWNF (f a) = true := fun a => isNormal_isWNF (hn a)
  have hi := plb_inst hf
  have hnb := normal_plb hn
  have hs := shiftFV_plb hf
  have ha := applyAux_plb hf
  rw [List.map_cons, parigotList, ListBasic.unabs2_parigotList, parigotList_eq]
  ev [hf, hi, hs, ha, ListBasic.parigotListRec_vars]

end ConsStep

end EagerListMore
open EagerListMore

/-! ## the sixteen statements for lists of admissible elements -/

theorem foldr_map_cons (c nil : Term) (f : Nat → Term) (ns : List Nat) :
    (ns.map f).foldr (fun t acc => app2 c t acc) nil = ns.foldr (fun n acc => app2 c (f n) acc) nil := by
  induction ns with
  | nil => rfl
  | cons n ns ih => simp [ih]

/-! ### pair list -/

theorem is_nil_pairList_hap_values (ts : List Term) (h : ∀ t ∈ ts, HapValue t) :
    EvalHap (app Gen.PList.is_nil (pairList ts)) (fromBool ts.isEmpty) := by
  obtain ⟨f, ns, hf, hn, rfl⟩ := exists_family ts h
  have := is_nil_pl hf hn ns
  rwa [show (ns.map f).isEmpty = ns.isEmpty by cases ns <;> rfl]

theorem head_pairList_hap_values (t : Term) (ts : List Term) (h : ∀ u ∈ t :: ts, HapValue u) :
    EvalHap (app Gen.PList.head (pairList (t :: ts))) t := by
  obtain ⟨f, n, ns, hf, hn, rfl, rfl⟩ := exists_family_cons t ts h
  exact head_pl hf hn n ns

theorem tail_pairList_hap_values (t : Term) (ts : List Term) (h : ∀ u ∈ t :: ts, HapValue u) :
    EvalHap (app Gen.PList.tail (pairList (t :: ts))) (pairList ts) := by
  obtain ⟨f, n, ns, hf, hn, rfl, rfl⟩ := exists_family_cons t ts h
  exact tail_pl hf hn n ns

theorem conv_is_cons_pair_hap_values (ts : List Term) (h : ∀ t ∈ ts, HapValue t) :
    EvalHap (ts.foldr (fun t acc => app2 Gen.PList.cons t acc) Gen.PList.nil) (pairList ts) := by
  obtain ⟨f, ns, hf, hn, rfl⟩ := exists_family ts h
  rw [foldr_map_cons]; exact conv_pl hf hn ns

/-! ### Church (fold) list -/

theorem is_nil_churchList_hap_values (ts : List Term) (h : ∀ t ∈ ts, HapValue t) :
    EvalHap (app Gen.CList.is_nil (churchList ts)) (fromBool ts.isEmpty) := by
  obtain ⟨f, ns, hf, hn, rfl⟩ := exists_family ts h
  have := is_nil_chl hf hn ns
  rwa [show (ns.map f).isEmpty = ns.isEmpty by cases ns <;> rfl]

theorem head_churchList_hap_values (t : Term) (ts : List Term) (h : ∀ u ∈ t :: ts, HapValue u) :
    EvalHap (app Gen.CList.head (churchList (t :: ts))) t := by
  obtain ⟨f, n, ns, hf, hn, rfl, rfl⟩ := exists_family_cons t ts h
  exact head_chl hf hn (n :: ns)

theorem tail_churchList_hap_values (t : Term) (ts : List Term) (h : ∀ u ∈ t :: ts, HapValue u) :
    EvalHap (app Gen.CList.tail (churchList (t :: ts))) (churchList ts) := by
  obtain ⟨f, n, ns, hf, hn, rfl, rfl⟩ := exists_family_cons t ts h
  exact tail_chl hf hn (n :: ns)

theorem conv_is_cons_church_hap_values (ts : List Term) (h : ∀ t ∈ ts, HapValue t) :
    EvalHap (ts.foldr (fun t acc => app2 Gen.CList.cons t acc) Gen.CList.nil) (churchList ts) := by
  obtain ⟨f, ns, hf, hn, rfl⟩ := exists_family ts h
  rw [foldr_map_cons]; exact conv_chl hf hn ns

/-! ### Scott list -/

theorem is_nil_scottList_hap_values (ts : List Term) (h : ∀ t ∈ ts, HapValue t) :
    EvalHap (app Gen.SList.is_nil (scottList ts)) (fromBool ts.isEmpty) := by
  obtain ⟨f, ns, hf, hn, rfl⟩ := exists_family ts h
  have := is_nil_sl hf hn ns
  rwa [show (ns.map f).isEmpty = ns.isEmpty by cases ns <;> rfl]

theorem head_scottList_hap_values (t : Term) (ts : List Term) (h : ∀ u ∈ t :: ts, HapValue u) :
    EvalHap (app Gen.SList.head (scottList (t :: ts))) t := by
  obtain ⟨f, n, ns, hf, hn, rfl, rfl⟩ := exists_family_cons t ts h
  exact head_sl hf hn n ns

theorem tail_scottList_hap_values (t : Term) (ts : List Term) (h : ∀ u ∈ t :: ts, HapValue u) :
    EvalHap (app Gen.SList.tail (scottList (t :: ts))) (scottList ts) := by
  obtain ⟨f, n, ns, hf, hn, rfl, rfl⟩ := exists_family_cons t ts h
  exact tail_sl hf hn n ns

theorem conv_is_cons_scott_hap_values (ts : List Term) (h : ∀ t ∈ ts, HapValue t) :
    EvalHap (ts.foldr (fun t acc => app2 Gen.SList.cons t acc) Gen.SList.nil) (scottList ts) := by
  obtain ⟨f, ns, hf, hn, rfl⟩ := exists_family ts h
  rw [foldr_map_cons]; exact conv_sl hf hn ns

/-! ### Parigot list -/

theorem is_nil_parigotList_hap_values (ts : List Term) (h : ∀ t ∈ ts, HapValue t) :
    EvalHap (app Gen.GList.is_nil (parigotList ts)) (fromBool ts.isEmpty) := by
  obtain ⟨f, ns, hf, hn, rfl⟩ := exists_family ts h
  have := is_nil_pgl hf hn ns
  rwa [show (ns.map f).isEmpty = ns.isEmpty by cases ns <;> rfl]

theorem head_parigotList_hap_values (t : Term) (ts : List Term) (h : ∀ u ∈ t :: ts, HapValue u) :
    EvalHap (app Gen.GList.head (parigotList (t :: ts))) t := by
  obtain ⟨f, n, ns, hf, hn, rfl, rfl⟩ := exists_family_cons t ts h
  exact head_pgl hf hn (n :: ns)

theorem tail_parigotList_hap_values (t : Term) (ts : List Term) (h : ∀ u ∈ t :: ts, HapValue u) :
    EvalHap (app Gen.GList.tail (parigotList (t :: ts))) (parigotList ts) := by
  obtain ⟨f, n, ns, hf, hn, rfl, rfl⟩ := exists_family_cons t ts h
  exact tail_pgl hf hn (n :: ns)

theorem conv_is_cons_parigot_hap_values (ts : List Term) (h : ∀ t ∈ ts, HapValue t) :
    EvalHap (ts.foldr (fun t acc => app2 Gen.GList.cons t acc) Gen.GList.nil) (parigotList ts) := by
  obtain ⟨f, ns, hf, hn, rfl⟩ := exists_family ts h
  rw [foldr_map_cons]; exact conv_pgl hf hn ns

/-! ## observers of a `cons` under HAP: `head (cons a l)`, `tail (cons a l)`, `is_nil (cons a l)` for an admissible
element `a` and the conversion `l` of a list of admissible elements (HAP evaluates the operand `cons a l` first, to the
conversion of `a :: ts`) -/

theorem cons_pairList_hap_values (a : Term) (ts : List Term) (h : ∀ u ∈ a :: ts, HapValue u) :
    EvalHap (app2 Gen.PList.cons a (pairList ts)) (pairList (a :: ts)) := by
  obtain ⟨f, n, ns, hf, hn, rfl, rfl⟩ := exists_family_cons a ts h
  exact cons_pl hf hn n ns
theorem cons_churchList_hap_values (a : Term) (ts : List Term) (h : ∀ u ∈ a :: ts, HapValue u) :
    EvalHap (app2 Gen.CList.cons a (churchList ts)) (churchList (a :: ts)) := by
  obtain ⟨f, n, ns, hf, hn, rfl, rfl⟩ := exists_family_cons a ts h
  exact cons_chl hf hn n ns
theorem cons_scottList_hap_values (a : Term) (ts : List Term) (h : ∀ u ∈ a :: ts, HapValue u) :
    EvalHap (app2 Gen.SList.cons a (scottList ts)) (scottList (a :: ts)) := by
  obtain ⟨f, n, ns, hf, hn, rfl, rfl⟩ := exists_family_cons a ts h
  exact cons_sl hf hn n ns
theorem cons_parigotList_hap_values (a : Term) (ts : List Term) (h : ∀ u ∈ a :: ts, HapValue u) :
    EvalHap (app2 Gen.GList.cons a (parigotList ts)) (parigotList (a :: ts)) := by
  obtain ⟨f, n, ns, hf, hn, rfl, rfl⟩ := exists_family_cons a ts h
  exact cons_pgl hf hn n ns

end LC
