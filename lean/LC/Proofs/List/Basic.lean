/-
C16 (part a) — constructors and observers of the four list encodings

"nil/cons/head/tail/is_nil of the pair, Church, Scott and Parigot list modules behave as constructors and
observers of sequences (is_nil is TRUE exactly on the empty list, head and tail of a cons return its parts -
also for arbitrary, non-numeral element and tail terms), and the list conversions produce exactly what
repeated cons produces."

Contents
* §1  laws for ARBITRARY (open or closed) payloads `a x : Term`, by reflection (`law_of_norSteps`): the generated
      constant is run on the placeholders `var 1`, `var 2` and the placeholders are then instantiated.
      All of head/tail/is_nil ∘ cons hold for arbitrary payloads for the pair, Scott and Parigot lists; for the Church
      (fold) list `head (cons a x) ↠ a` and `is_nil (cons a x) ↠ FALSE` hold for arbitrary `x`, but
      `tail (cons a x) ↠ x` does NOT (counterexamples `tail_cons_church_fails_*`): it needs `x` to be a list.
* §2  conversions = repeated cons (`cons_xList`, `conv_is_cons_X`), normality of the conversions' results.
* §3  observers on the `Vec` conversions (`head_xList`, `tail_xList`, `is_nil_xList`), Church `tail`.
* §4  non-vacuity examples with open payloads.

Generated constants are mentioned by name only.
-/
import LC.Proofs.Num.Toolkit
import LC.Props.C12
import LC.Props.C17

namespace LC
open Term Spec Enc

/-! ## 1. laws for arbitrary payloads -/

/-! ### pair list -/

theorem head_cons_pair (a x : Term) : app Gen.PList.head (app2 Gen.PList.cons a x) ↠ a := by
  have h := law_of_norSteps 10 (app Gen.PList.head (app2 Gen.PList.cons (var 1) (var 2))) (var 1)
    (by decide) [a, x]
  lc_simp at h; exact h

theorem tail_cons_pair (a x : Term) : app Gen.PList.tail (app2 Gen.PList.cons a x) ↠ x := by
  have h := law_of_norSteps 10 (app Gen.PList.tail (app2 Gen.PList.cons (var 1) (var 2))) (var 2)
    (by decide) [a, x]
  lc_simp at h; exact h

theorem is_nil_nil_pair : app Gen.PList.is_nil Gen.PList.nil ↠ fromBool true :=
  C17.star_of_norSteps 10 _ _ (by decide)

theorem is_nil_cons_pair (a x : Term) : app Gen.PList.is_nil (app2 Gen.PList.cons a x) ↠ fromBool false := by
  have h := law_of_norSteps 10 (app Gen.PList.is_nil (app2 Gen.PList.cons (var 1) (var 2))) (fromBool false)
    (by decide) [a, x]
  lc_simp at h; exact h

/-! ### Scott list -/

theorem head_cons_scott (a x : Term) : app Gen.SList.head (app2 Gen.SList.cons a x) ↠ a := by
  have h := law_of_norSteps 10 (app Gen.SList.head (app2 Gen.SList.cons (var 1) (var 2))) (var 1)
    (by decide) [a, x]
  lc_simp at h; exact h

theorem tail_cons_scott (a x : Term) : app Gen.SList.tail (app2 Gen.SList.cons a x) ↠ x := by
  have h := law_of_norSteps 10 (app Gen.SList.tail (app2 Gen.SList.cons (var 1) (var 2))) (var 2)
    (by decide) [a, x]
  lc_simp at h; exact h

theorem is_nil_nil_scott : app Gen.SList.is_nil Gen.SList.nil ↠ fromBool true :=
  C17.star_of_norSteps 10 _ _ (by decide)

theorem is_nil_cons_scott (a x : Term) : app Gen.SList.is_nil (app2 Gen.SList.cons a x) ↠ fromBool false := by
  have h := law_of_norSteps 10 (app Gen.SList.is_nil (app2 Gen.SList.cons (var 1) (var 2))) (fromBool false)
    (by decide) [a, x]
  lc_simp at h; exact h

/-! ### Parigot list -/

theorem head_cons_parigot (a x : Term) : app Gen.GList.head (app2 Gen.GList.cons a x) ↠ a := by
  have h := law_of_norSteps 10 (app Gen.GList.head (app2 Gen.GList.cons (var 1) (var 2))) (var 1)
    (by decide) [a, x]
  lc_simp at h; exact h

theorem tail_cons_parigot (a x : Term) : app Gen.GList.tail (app2 Gen.GList.cons a x) ↠ x := by
  have h := law_of_norSteps 10 (app Gen.GList.tail (app2 Gen.GList.cons (var 1) (var 2))) (var 2)
    (by decide) [a, x]
  lc_simp at h; exact h

theorem is_nil_nil_parigot : app Gen.GList.is_nil Gen.GList.nil ↠ fromBool true :=
  C17.star_of_norSteps 10 _ _ (by decide)

/-- holds with the repaired `IS_NIL ≡ λl.l TRUE (λaxr.FALSE)` (three-argument cons handler) -/
theorem is_nil_cons_parigot (a x : Term) : app Gen.GList.is_nil (app2 Gen.GList.cons a x) ↠ fromBool false := by
  have h := law_of_norSteps 10 (app Gen.GList.is_nil (app2 Gen.GList.cons (var 1) (var 2))) (fromBool false)
    (by decide) [a, x]
  lc_simp at h; exact h

/-! ### Church (fold) list: `head` and `is_nil` of a cons for arbitrary tail terms -/

/-- `head (cons a x) ↠ a` holds for an ARBITRARY tail term `x` (the fold `x UD (λht.h)` is discarded) -/
theorem head_cons_church_any (a x : Term) : app Gen.CList.head (app2 Gen.CList.cons a x) ↠ a := by
  have h := law_of_norSteps 10 (app Gen.CList.head (app2 Gen.CList.cons (var 1) (var 2))) (var 1)
    (by decide) [a, x]
  lc_simp at h; exact h

theorem is_nil_nil_church : app Gen.CList.is_nil Gen.CList.nil ↠ fromBool true :=
  C17.star_of_norSteps 10 _ _ (by decide)

/-- `is_nil (cons a x) ↠ FALSE` holds for an ARBITRARY tail term `x` -/
theorem is_nil_cons_church (a x : Term) : app Gen.CList.is_nil (app2 Gen.CList.cons a x) ↠ fromBool false := by
  have h := law_of_norSteps 10 (app Gen.CList.is_nil (app2 Gen.CList.cons (var 1) (var 2))) (fromBool false)
    (by decide) [a, x]
  lc_simp at h; exact h

/-- `tail (cons a x) ↠ x` FAILS for a tail term that is not a Church list — open `x := var 7` … -/
theorem tail_cons_church_fails_open :
    ¬ app Gen.CList.tail (app2 Gen.CList.cons (var 1) (var 7)) ↠ var 7 :=
  C17.not_star_of_norSteps 30 _ _ _ rfl (by decide) (by decide) (by decide)

/-- … and closed normal `x := I` (`tail (cons a I)` has the normal form `λλ.1 UD (λ1)`, not `I`) -/
theorem tail_cons_church_fails_closed :
    ¬ app Gen.CList.tail (app2 Gen.CList.cons (var 1) Gen.Comb.I) ↠ Gen.Comb.I :=
  C17.not_star_of_norSteps 100 _ (abs (abs (app2 (var 1) (var 0) (abs (var 1))))) _ (by decide) (by decide)
    (by decide) (by decide)

/-! ## 2. the conversions produce what repeated `cons` produces -/

namespace ListBasic

theorem tail_closed {t : Term} {ts : List Term} (h : ∀ u ∈ t :: ts, Closed u) : ∀ u ∈ ts, Closed u :=
  fun u hu => h u (List.mem_cons_of_mem _ hu)

/-- folding a Church list with the bound variables `var 2` (nil) and `var 1` (cons) gives back its body … -/
theorem churchListBody_foldr (ts : List Term) :
    ts.foldr (fun t acc => app2 (var 1) t acc) (var 2) = churchListBody ts := by
  induction ts with
  | nil => rfl
  | cons t ts ih => simp [churchListBody, ih]

/-- … so `(λl.l) x n c` inside `CONS` (with `n = var 2`, `c = var 1`) rebuilds the tail's body -/
theorem churchList_unfold {ts : List Term} (h : ∀ t ∈ ts, Closed t) :
    app2 (churchList ts) (var 2) (var 1) ↠ churchListBody ts := by
  have := churchList_elim h (var 2) (var 1)
  rwa [churchListBody_foldr] at this

theorem parigotListRec_vars (ts : List Term) : parigotListRec (var 2) (var 1) ts = parigotListBody ts := by
  induction ts with
  | nil => rfl
  | cons t ts ih => rw [parigotListBody_cons, parigotListRec, ih]

theorem unabs2_parigotList (ts : List Term) : unabs2 (parigotList ts) = parigotListBody ts := by
  rw [parigotList_eq]; rfl

/-- `x n c` with `x = parigotList ts`, `n = var 2`, `c = var 1` reduces to the unfolded body stored in a cons cell -/
theorem parigotList_unfold {ts : List Term} (h : ∀ t ∈ ts, Closed t) :
    app2 (parigotList ts) (var 2) (var 1) ↠ unabs2 (parigotList ts) := by
  have := parigotList_elim h (var 2) (var 1)
  rwa [parigotListRec_vars, ← unabs2_parigotList] at this

theorem foldr_cons_star (cons nil : Term) (f : List Term → Term) (hnil : nil = f [])
    (hcons : ∀ t ts, (∀ u ∈ t :: ts, Closed u) → app2 cons t (f ts) ↠ f (t :: ts))
    (ts : List Term) (h : ∀ t ∈ ts, Closed t) :
    ts.foldr (fun t acc => app2 cons t acc) nil ↠ f ts := by
  induction ts with
  | nil => rw [hnil]; exact Star.refl _
  | cons t ts ih =>
    exact (Star.congAppR _ (ih (tail_closed h))).trans (hcons t ts h)

end ListBasic
open ListBasic

/-! ### pair list -/

theorem cons_pairList (t : Term) (ts : List Term) (ht : Closed t) (hts : ∀ u ∈ ts, Closed u) :
    app2 Gen.PList.cons t (pairList ts) ↠ pairList (t :: ts) := by
  have h2 := closed_pairList hts
  lc_beta 2; exact Star.refl _

theorem conv_is_cons_pair (ts : List Term) (h : ∀ t ∈ ts, Closed t) :
    ts.foldr (fun t acc => app2 Gen.PList.cons t acc) Gen.PList.nil ↠ pairList ts :=
  foldr_cons_star _ _ pairList (by decide)
    (fun t ts h => cons_pairList t ts (h t (by simp)) (tail_closed h)) ts h

/-! ### Church list -/

theorem cons_churchList (t : Term) (ts : List Term) (ht : Closed t) (hts : ∀ u ∈ ts, Closed u) :
    app2 Gen.CList.cons t (churchList ts) ↠ churchList (t :: ts) := by
  have h2 := closed_churchList hts
  lc_beta 2
  show _ ↠ abs (abs (app2 (var 1) t (churchListBody ts)))
  lc_cong
  lc_head (Star.redc _ _); lc_simp
  exact churchList_unfold hts

theorem conv_is_cons_church (ts : List Term) (h : ∀ t ∈ ts, Closed t) :
    ts.foldr (fun t acc => app2 Gen.CList.cons t acc) Gen.CList.nil ↠ churchList ts :=
  foldr_cons_star _ _ churchList (by decide)
    (fun t ts h => cons_churchList t ts (h t (by simp)) (tail_closed h)) ts h

/-! ### Scott list -/

theorem cons_scottList (t : Term) (ts : List Term) (ht : Closed t) (hts : ∀ u ∈ ts, Closed u) :
    app2 Gen.SList.cons t (scottList ts) ↠ scottList (t :: ts) := by
  have h2 := closed_scottList hts
  lc_beta 2; exact Star.refl _

theorem conv_is_cons_scott (ts : List Term) (h : ∀ t ∈ ts, Closed t) :
    ts.foldr (fun t acc => app2 Gen.SList.cons t acc) Gen.SList.nil ↠ scottList ts :=
  foldr_cons_star _ _ scottList (by decide)
    (fun t ts h => cons_scottList t ts (h t (by simp)) (tail_closed h)) ts h

/-! ### Parigot list -/

theorem cons_parigotList (t : Term) (ts : List Term) (ht : Closed t) (hts : ∀ u ∈ ts, Closed u) :
    app2 Gen.GList.cons t (parigotList ts) ↠ parigotList (t :: ts) := by
  have h2 := closed_parigotList hts
  lc_beta 2
  show _ ↠ abs (abs (app3 (var 1) t (parigotList ts) (unabs2 (parigotList ts))))
  lc_cong
  lc_head (Star.redc _ _); lc_simp
  exact parigotList_unfold hts

theorem conv_is_cons_parigot (ts : List Term) (h : ∀ t ∈ ts, Closed t) :
    ts.foldr (fun t acc => app2 Gen.GList.cons t acc) Gen.GList.nil ↠ parigotList ts :=
  foldr_cons_star _ _ parigotList (by decide)
    (fun t ts h => cons_parigotList t ts (h t (by simp)) (tail_closed h)) ts h

/-! ### the results of the conversions are normal forms (re-exported from `C12_lists_normal`) -/

theorem normal_pairList (ts : List Term) (h : ∀ t ∈ ts, isNormal t = true) : isNormal (pairList ts) = true :=
  (C12_lists_normal ts h).1
theorem normal_churchList (ts : List Term) (h : ∀ t ∈ ts, isNormal t = true) : isNormal (churchList ts) = true :=
  (C12_lists_normal ts h).2.1
theorem normal_scottList (ts : List Term) (h : ∀ t ∈ ts, isNormal t = true) : isNormal (scottList ts) = true :=
  (C12_lists_normal ts h).2.2.1
theorem normal_parigotList (ts : List Term) (h : ∀ t ∈ ts, isNormal t = true) :
    isNormal (parigotList ts) = true :=
  (C12_lists_normal ts h).2.2.2

/-- hence the conversion's result is THE normal form of the repeated cons (any reduct of the cons chain still reduces
to it), for closed normal elements — here for the pair list; the other three are identical -/
theorem conv_is_nf_of_cons_pair (ts : List Term) (h : ∀ t ∈ ts, Closed t) (hn : ∀ t ∈ ts, isNormal t = true)
    (w : Term) (hw : ts.foldr (fun t acc => app2 Gen.PList.cons t acc) Gen.PList.nil ↠ w) : w ↠ pairList ts :=
  star_normal_of_star hw (conv_is_cons_pair ts h) ((isNormal_iff_normal _).1 (normal_pairList ts hn))

theorem conv_is_nf_of_cons_church (ts : List Term) (h : ∀ t ∈ ts, Closed t) (hn : ∀ t ∈ ts, isNormal t = true)
    (w : Term) (hw : ts.foldr (fun t acc => app2 Gen.CList.cons t acc) Gen.CList.nil ↠ w) : w ↠ churchList ts :=
  star_normal_of_star hw (conv_is_cons_church ts h) ((isNormal_iff_normal _).1 (normal_churchList ts hn))

theorem conv_is_nf_of_cons_scott (ts : List Term) (h : ∀ t ∈ ts, Closed t) (hn : ∀ t ∈ ts, isNormal t = true)
    (w : Term) (hw : ts.foldr (fun t acc => app2 Gen.SList.cons t acc) Gen.SList.nil ↠ w) : w ↠ scottList ts :=
  star_normal_of_star hw (conv_is_cons_scott ts h) ((isNormal_iff_normal _).1 (normal_scottList ts hn))

theorem conv_is_nf_of_cons_parigot (ts : List Term) (h : ∀ t ∈ ts, Closed t) (hn : ∀ t ∈ ts, isNormal t = true)
    (w : Term) (hw : ts.foldr (fun t acc => app2 Gen.GList.cons t acc) Gen.GList.nil ↠ w) :
    w ↠ parigotList ts :=
  star_normal_of_star hw (conv_is_cons_parigot ts h) ((isNormal_iff_normal _).1 (normal_parigotList ts hn))

/-! ## 3. observers on the `Vec` conversions (closed elements) -/

/-! ### pair list -/

theorem head_pairList (t : Term) (ts : List Term) (ht : Closed t) (hts : ∀ u ∈ ts, Closed u) :
    app Gen.PList.head (pairList (t :: ts)) ↠ t := by
  have := closed_pairList hts
  lc_beta; lc_trans (pairList_elim_cons ht hts _); lc_beta 2; exact Star.refl _

theorem tail_pairList (t : Term) (ts : List Term) (ht : Closed t) (hts : ∀ u ∈ ts, Closed u) :
    app Gen.PList.tail (pairList (t :: ts)) ↠ pairList ts := by
  have := closed_pairList hts
  lc_beta; lc_trans (pairList_elim_cons ht hts _); lc_beta 2; exact Star.refl _

theorem is_nil_pairList (ts : List Term) (h : ∀ t ∈ ts, Closed t) :
    app Gen.PList.is_nil (pairList ts) ↠ fromBool ts.isEmpty := by
  lc_beta
  cases ts with
  | nil => lc_trans (pairList_elim_nil _ _); exact Star.refl _
  | cons t ts =>
    have := closed_pairList (tail_closed h)
    lc_head (pairList_elim_cons (h t (by simp)) (tail_closed h) _); lc_beta 3; exact Star.refl _

/-! ### Scott list -/

theorem head_scottList (t : Term) (ts : List Term) (ht : Closed t) (hts : ∀ u ∈ ts, Closed u) :
    app Gen.SList.head (scottList (t :: ts)) ↠ t := by
  have := closed_scottList hts
  lc_beta; lc_trans (scottList_elim_cons ht hts _ _); lc_beta 2; exact Star.refl _

theorem tail_scottList (t : Term) (ts : List Term) (ht : Closed t) (hts : ∀ u ∈ ts, Closed u) :
    app Gen.SList.tail (scottList (t :: ts)) ↠ scottList ts := by
  have := closed_scottList hts
  lc_beta; lc_trans (scottList_elim_cons ht hts _ _); lc_beta 2; exact Star.refl _

theorem is_nil_scottList (ts : List Term) (h : ∀ t ∈ ts, Closed t) :
    app Gen.SList.is_nil (scottList ts) ↠ fromBool ts.isEmpty := by
  lc_beta
  cases ts with
  | nil => lc_trans (scottList_elim_nil _ _); exact Star.refl _
  | cons t ts =>
    have := closed_scottList (tail_closed h)
    lc_trans (scottList_elim_cons (h t (by simp)) (tail_closed h) _ _); lc_beta 2; exact Star.refl _

/-! ### Parigot list -/

theorem head_parigotList (t : Term) (ts : List Term) (ht : Closed t) (hts : ∀ u ∈ ts, Closed u) :
    app Gen.GList.head (parigotList (t :: ts)) ↠ t := by
  have := closed_parigotList hts
  lc_beta; lc_trans (parigotList_elim (ts := t :: ts) (by simpa using ⟨ht, hts⟩) _ _)
  rw [parigotListRec]; lc_beta 3; exact Star.refl _

theorem tail_parigotList (t : Term) (ts : List Term) (ht : Closed t) (hts : ∀ u ∈ ts, Closed u) :
    app Gen.GList.tail (parigotList (t :: ts)) ↠ parigotList ts := by
  have := closed_parigotList hts
  lc_beta; lc_trans (parigotList_elim (ts := t :: ts) (by simpa using ⟨ht, hts⟩) _ _)
  rw [parigotListRec]; lc_beta 3; exact Star.refl _

theorem is_nil_parigotList (ts : List Term) (h : ∀ t ∈ ts, Closed t) :
    app Gen.GList.is_nil (parigotList ts) ↠ fromBool ts.isEmpty := by
  lc_beta; lc_trans (parigotList_elim h _ _)
  cases ts with
  | nil => exact Star.refl _
  | cons t ts => rw [parigotListRec]; lc_beta 3; exact Star.refl _

/-! ### Church list -/

theorem head_churchList (t : Term) (ts : List Term) (ht : Closed t) (hts : ∀ u ∈ ts, Closed u) :
    app Gen.CList.head (churchList (t :: ts)) ↠ t := by
  lc_beta; lc_trans (churchList_elim (ts := t :: ts) (by simpa using ⟨ht, hts⟩) _ _)
  rw [List.foldr_cons]; lc_beta 2; exact Star.refl _

theorem is_nil_churchList (ts : List Term) (h : ∀ t ∈ ts, Closed t) :
    app Gen.CList.is_nil (churchList ts) ↠ fromBool ts.isEmpty := by
  lc_beta; lc_trans (churchList_elim h _ _)
  cases ts with
  | nil => exact Star.refl _
  | cons t ts => rw [List.foldr_cons]; lc_beta 2; exact Star.refl _

/-! ### Church `tail`: `TAIL ≡ λl.FST (l (PAIR UD NIL) (λap. PAIR (SND p) (CONS a (SND p))))` -/

namespace ListBasic

/-- the start value `PAIR UD NIL` of the fold in `TAIL`, read off the generated constant -/
def tailNil : Term :=
  match Gen.CList.tail with
  | abs (app _ (app (app _ n) _)) => n
  | _ => var 0

/-- the step function `λap. PAIR (SND p) (CONS a (SND p))` of the fold in `TAIL`, read off the generated constant -/
def tailStep : Term :=
  match Gen.CList.tail with
  | abs (app _ (app (app _ _) c)) => c
  | _ => var 0

theorem tail_eq : Gen.CList.tail = abs (app Gen.Pair.fst (app2 (var 1) tailNil tailStep)) := by decide
theorem tailNil_eq : tailNil = app2 Gen.Pair.pair (var 0) Gen.CList.nil := by decide
theorem closed_tailStep : Closed tailStep := by decide

/-- the step of the fold, for arbitrary `a p` -/
theorem tailStep_law (a p : Term) :
    app2 tailStep a p ↠ app2 Gen.Pair.pair (app Gen.Pair.snd p) (app2 Gen.CList.cons a (app Gen.Pair.snd p)) := by
  have h := law_of_norSteps 2 (app2 tailStep (var 1) (var 2))
    (app2 Gen.Pair.pair (app Gen.Pair.snd (var 2)) (app2 Gen.CList.cons (var 1) (app Gen.Pair.snd (var 2))))
    (by decide) [a, p]
  lc_simp [closed_tailStep] at h; exact h

/-- the invariant of the fold: (tail of the list seen so far — `UD` for the empty list —, the list seen so far) -/
def tailAcc : List Term → Term
  | [] => tuple2 (var 0) (churchList [])
  | t :: ts => tuple2 (churchList ts) (churchList (t :: ts))

theorem tailAcc_shape {ts : List Term} (h : ∀ t ∈ ts, Closed t) :
    ∃ u, Closed u ∧ tailAcc ts = tuple2 u (churchList ts) := by
  cases ts with
  | nil => exact ⟨var 0, by decide, rfl⟩
  | cons t ts => exact ⟨churchList ts, closed_churchList (tail_closed h), rfl⟩

/-- the fold of `TAIL` over a Church list computes the invariant pair -/
theorem tail_fold (ts : List Term) (h : ∀ t ∈ ts, Closed t) :
    ts.foldr (fun t acc => app2 tailStep t acc) tailNil ↠ tailAcc ts := by
  induction ts with
  | nil =>
    rw [List.foldr_nil, tailNil_eq]
    exact pair_mk (by decide) (by decide)
  | cons t ts ih =>
    have ht : Closed t := h t (by simp)
    have hts := tail_closed h
    obtain ⟨u, hu, e⟩ := tailAcc_shape hts
    have hq := closed_churchList hts
    rw [List.foldr_cons]
    lc_trans (Star.congAppR _ (ih hts))
    lc_trans (tailStep_law _ _)
    rw [e]
    have hsnd : app Gen.Pair.snd (tuple2 u (churchList ts)) ↠ churchList ts := pair_snd hu hq
    lc_trans (Star.congApp (Star.congAppR _ hsnd) (Star.congAppR _ hsnd))
    lc_trans (Star.congAppR _ (cons_churchList t ts ht hts))
    exact pair_mk hq (closed_churchList h)

/-- what `TAIL` computes on any Church list: the first component of the invariant -/
theorem tail_churchList_acc (ts : List Term) (h : ∀ t ∈ ts, Closed t) :
    app Gen.CList.tail (churchList ts) ↠ app Gen.Pair.fst (tailAcc ts) := by
  rw [tail_eq]
  have hc := closed_churchList h
  lc_beta
  exact Star.congAppR _ ((churchList_elim h _ _).trans (tail_fold ts h))

end ListBasic

theorem tail_churchList (t : Term) (ts : List Term) (ht : Closed t) (hts : ∀ u ∈ ts, Closed u) :
    app Gen.CList.tail (churchList (t :: ts)) ↠ churchList ts := by
  have hall : ∀ u ∈ t :: ts, Closed u := by simpa using ⟨ht, hts⟩
  lc_trans (tail_churchList_acc (t :: ts) hall)
  exact pair_fst (closed_churchList hts) (closed_churchList hall)

/-- the tail of the empty Church list is the crate's "undefined" marker `UD` (= `var 0`), not a list -/
theorem tail_churchList_nil : app Gen.CList.tail (churchList []) ↠ var 0 := by
  lc_trans (tail_churchList_acc [] (by simp))
  exact pair_fst (by decide) (by decide)

/-- `tail (cons a x) ↠ x` when `x` is (the conversion of) a list of closed terms; it fails for arbitrary `x`
(`tail_cons_church_fails_open/closed`) -/
theorem tail_cons_church (a : Term) (ts : List Term) (ha : Closed a) (h : ∀ t ∈ ts, Closed t) :
    app Gen.CList.tail (app2 Gen.CList.cons a (churchList ts)) ↠ churchList ts :=
  (Star.congAppR _ (cons_churchList a ts ha h)).trans (tail_churchList a ts ha h)

set_option linter.unusedVariables false in
/-- requested form: the tail is the conversion of a `Vec` of closed terms (see `head_cons_church_any` for the stronger
arbitrary-tail law, which makes the hypotheses superfluous) -/
theorem head_cons_church (a : Term) (ts : List Term) (ha : Closed a) (h : ∀ t ∈ ts, Closed t) :
    app Gen.CList.head (app2 Gen.CList.cons a (churchList ts)) ↠ a :=
  head_cons_church_any a (churchList ts)

/-! ### the observers are partial: `head`/`tail` of the empty list give `UD` (= `var 0`; pair list: `I` / `FALSE`-like junk) -/

theorem head_nil_church : app Gen.CList.head Gen.CList.nil ↠ var 0 := C17.star_of_norSteps 10 _ _ (by decide)
theorem head_nil_scott : app Gen.SList.head Gen.SList.nil ↠ var 0 := C17.star_of_norSteps 10 _ _ (by decide)
theorem tail_nil_scott : app Gen.SList.tail Gen.SList.nil ↠ var 0 := C17.star_of_norSteps 10 _ _ (by decide)
theorem head_nil_parigot : app Gen.GList.head Gen.GList.nil ↠ var 0 := C17.star_of_norSteps 10 _ _ (by decide)
theorem tail_nil_parigot : app Gen.GList.tail Gen.GList.nil ↠ var 0 := C17.star_of_norSteps 10 _ _ (by decide)
theorem head_nil_pair : app Gen.PList.head Gen.PList.nil ↠ Gen.Comb.I := C17.star_of_norSteps 10 _ _ (by decide)
theorem tail_nil_pair : app Gen.PList.tail Gen.PList.nil ↠ Gen.Comb.I := C17.star_of_norSteps 10 _ _ (by decide)

/-! ## 4. non-vacuity: open payloads, concrete lists -/

namespace ListBasic
/-- open, non-numeral sample payloads -/
def q₁ : Term := app (var 3) (var 1)
def q₂ : Term := var 7
def q₃ : Term := abs (app (var 1) (var 4))
end ListBasic

example : app Gen.PList.head (app2 Gen.PList.cons q₁ q₂) ↠ app (var 3) (var 1) := head_cons_pair q₁ q₂
example : app Gen.PList.tail (app2 Gen.PList.cons q₁ q₂) ↠ var 7 := tail_cons_pair q₁ q₂
example : app Gen.SList.tail (app2 Gen.SList.cons q₃ q₁) ↠ app (var 3) (var 1) := tail_cons_scott q₃ q₁
example : app Gen.GList.head (app2 Gen.GList.cons q₃ q₂) ↠ abs (app (var 1) (var 4)) := head_cons_parigot q₃ q₂
example : app Gen.GList.is_nil (app2 Gen.GList.cons q₁ q₂) ↠ Gen.Bool.fls := is_nil_cons_parigot q₁ q₂
example : app Gen.CList.head (app2 Gen.CList.cons q₃ q₂) ↠ abs (app (var 1) (var 4)) := head_cons_church_any q₃ q₂
example : app Gen.CList.is_nil (app2 Gen.CList.cons q₁ q₂) ↠ Gen.Bool.fls := is_nil_cons_church q₁ q₂

/-- the same facts checked independently by running the normal-order reducer on the instantiated terms
(capture-avoidance is exercised: `q₃` has a binder, `cons` puts the payloads under two or three binders) -/
example :
    norSteps 20 (app Gen.PList.head (app2 Gen.PList.cons q₁ q₂)) = q₁ ∧
    norSteps 20 (app Gen.PList.tail (app2 Gen.PList.cons q₁ q₂)) = q₂ ∧
    norSteps 20 (app Gen.SList.head (app2 Gen.SList.cons q₃ q₁)) = q₃ ∧
    norSteps 20 (app Gen.SList.tail (app2 Gen.SList.cons q₃ q₁)) = q₁ ∧
    norSteps 20 (app Gen.GList.head (app2 Gen.GList.cons q₃ q₂)) = q₃ ∧
    norSteps 20 (app Gen.GList.tail (app2 Gen.GList.cons q₃ q₂)) = q₂ ∧
    norSteps 20 (app Gen.CList.head (app2 Gen.CList.cons q₃ q₂)) = q₃ ∧
    norSteps 20 (app Gen.GList.is_nil (app2 Gen.GList.cons q₁ q₂)) = fromBool false ∧
    norSteps 20 (app Gen.CList.is_nil (app2 Gen.CList.cons q₁ q₂)) = fromBool false := by decide

/-- a concrete non-numeral list `[I, K, church 2]`: conversion = normal form of repeated cons, in all four encodings;
`tail` of the Church list -/
example :
    let ts := [Gen.Comb.I, Gen.Comb.K, intoChurch 2]
    norSteps 100 (ts.foldr (fun t acc => app2 Gen.PList.cons t acc) Gen.PList.nil) = pairList ts ∧
    norSteps 100 (ts.foldr (fun t acc => app2 Gen.CList.cons t acc) Gen.CList.nil) = churchList ts ∧
    norSteps 100 (ts.foldr (fun t acc => app2 Gen.SList.cons t acc) Gen.SList.nil) = scottList ts ∧
    norSteps 100 (ts.foldr (fun t acc => app2 Gen.GList.cons t acc) Gen.GList.nil) = parigotList ts ∧
    norSteps 200 (app Gen.CList.tail (churchList ts)) = churchList ts.tail ∧
    norSteps 100 (app Gen.GList.tail (parigotList ts)) = parigotList ts.tail := by decide

/-- the hypotheses of the list theorems are satisfiable by such lists -/
example : app Gen.CList.tail (churchList [Gen.Comb.I, Gen.Comb.K, intoChurch 2]) ↠
    churchList [Gen.Comb.K, intoChurch 2] :=
  tail_churchList _ _ (by decide) (by decide)

/-- closedness of the elements is NEEDED for `cons t (xList ts) ↠ xList (t :: ts)`: the Rust conversions put the
elements under binders without shifting them, `cons` is capture-avoiding.  With the open element `var 1`: -/
example :
    norSteps 20 (app2 Gen.PList.cons (var 1) (pairList [])) ≠ pairList [var 1] ∧
    norSteps 20 (app2 Gen.SList.cons (var 1) (scottList [])) ≠ scottList [var 1] := by decide

end LC
