/-
The representation boundary of De Bruijn indices, part 2: one strategy step and runs of steps.

`stepXChk M` is the small-step function `stepX` of `Spec/Strategy.lean` with every contraction made by `contractChk M`
(the checked substitution of `Proofs/Bounded.lean`).  Result type `Option (Option Term)`:
`none` = the contraction panicked ("De Bruijn index overflow"), `some none` = the strategy selects nothing,
`some (some t')` = one contraction, leaving `t'`.

Main result `stepOrdChk_eq`: on a term all of whose indices are `≤ M`,
`stepOrdChk M o t = guardStep M (stepOrd o t)`: the checked step refuses exactly when the unbounded successor
contains an index above `M` (the contractum is a subterm of the successor and the rest of the successor is part of
the input), and otherwise is the unbounded step.
-/
import LC.Proofs.Bounded

namespace LC
namespace Term

/-! ### the checked small-step functions -/

def stepCbnChk (M : Nat) : Term → Option (Option Term)
  | app (abs b) r => (contractChk M b r).map some
  | app l r => (stepCbnChk M l).map (Option.map (fun l' => app l' r))
  | _ => some none

def stepNorChk (M : Nat) : Term → Option (Option Term)
  | var _ => some none
  | abs b => (stepNorChk M b).map (Option.map abs)
  | app (abs b) r => (contractChk M b r).map some
  | app l r =>
    match stepNorChk M l with
    | none => none
    | some (some l') => some (some (app l' r))
    | some none => (stepNorChk M r).map (Option.map (app l))

def stepCbvChk (M : Nat) : Term → Option (Option Term)
  | app l r =>
    match stepCbvChk M l with
    | none => none
    | some (some l') => some (some (app l' r))
    | some none =>
      match stepCbvChk M r with
      | none => none
      | some (some r') => some (some (app l r'))
      | some none =>
        match l with
        | abs b => (contractChk M b r).map some
        | _ => some none
  | _ => some none

def stepAppChk (M : Nat) : Term → Option (Option Term)
  | var _ => some none
  | abs b => (stepAppChk M b).map (Option.map abs)
  | app l r =>
    match stepAppChk M l with
    | none => none
    | some (some l') => some (some (app l' r))
    | some none =>
      match stepAppChk M r with
      | none => none
      | some (some r') => some (some (app l r'))
      | some none =>
        match l with
        | abs b => (contractChk M b r).map some
        | _ => some none

def stepHspChk (M : Nat) : Term → Option (Option Term)
  | var _ => some none
  | abs b => (stepHspChk M b).map (Option.map abs)
  | app l r =>
    match stepHspChk M l with
    | none => none
    | some (some l') => some (some (app l' r))
    | some none =>
      match l with
      | abs b => (contractChk M b r).map some
      | _ => some none

def stepHnoChk (M : Nat) : Term → Option (Option Term)
  | var _ => some none
  | abs b => (stepHnoChk M b).map (Option.map abs)
  | app l r =>
    match stepHspChk M l with
    | none => none
    | some (some l') => some (some (app l' r))
    | some none =>
      match l with
      | abs b => (contractChk M b r).map some
      | _ =>
        match stepHnoChk M l with
        | none => none
        | some (some l') => some (some (app l' r))
        | some none => (stepHnoChk M r).map (Option.map (app l))

def stepHapChk (M : Nat) : Term → Option (Option Term)
  | var _ => some none
  | abs b => (stepHapChk M b).map (Option.map abs)
  | app l r =>
    match stepCbvChk M l with
    | none => none
    | some (some l') => some (some (app l' r))
    | some none =>
      match stepHapChk M r with
      | none => none
      | some (some r') => some (some (app l r'))
      | some none =>
        match l with
        | abs b => (contractChk M b r).map some
        | _ => (stepHapChk M l).map (Option.map (fun l' => app l' r))

def stepOrdChk (M : Nat) : Order → Term → Option (Option Term)
  | .CBN => stepCbnChk M
  | .NOR => stepNorChk M
  | .CBV => stepCbvChk M
  | .APP => stepAppChk M
  | .HSP => stepHspChk M
  | .HNO => stepHnoChk M
  | .HAP => stepHapChk M

/-- the unbounded step, guarded: nothing selected → nothing happens; a successor that is not representable → refuse -/
def guardStep (M : Nat) : Option Term → Option (Option Term)
  | none => some none
  | some t' => if maxIndex t' ≤ M then some (some t') else none

/-! ### `guardStep` through the term constructors -/

theorem guardStep_none (M : Nat) : guardStep M none = some none := rfl

theorem guardStep_some_le {M : Nat} {t : Term} (h : maxIndex t ≤ M) : guardStep M (some t) = some (some t) := by
  simp [guardStep, h]

theorem guardStep_some_gt {M : Nat} {t : Term} (h : M < maxIndex t) : guardStep M (some t) = none := by
  have : ¬ maxIndex t ≤ M := by omega
  simp [guardStep, this]

theorem guardStep_contract (M : Nat) (b a : Term) (hb : maxIndex b ≤ M) (ha : maxIndex a ≤ M) :
    (contractChk M b a).map some = guardStep M (some (contract b a)) := by
  rw [contractChk_eq M b a hb ha]
  unfold guardIdx guardStep
  by_cases h : maxIndex (contract b a) ≤ M <;> simp [h]

theorem guardStep_abs (M : Nat) (o : Option Term) :
    (guardStep M o).map (Option.map abs) = guardStep M (o.map abs) := by
  cases o with
  | none => rfl
  | some t =>
    simp only [guardStep, Option.map_some, maxIndex]
    by_cases h : maxIndex t ≤ M <;> simp [h]

theorem guardStep_appL (M : Nat) (o : Option Term) (r : Term) (hr : maxIndex r ≤ M) :
    (guardStep M o).map (Option.map (fun l' => app l' r)) = guardStep M (o.map (fun l' => app l' r)) := by
  cases o with
  | none => rfl
  | some t =>
    simp only [guardStep, Option.map_some, maxIndex]
    by_cases h : maxIndex t ≤ M
    · have : max (maxIndex t) (maxIndex r) ≤ M := by omega
      simp [h, this]
    · have : ¬ max (maxIndex t) (maxIndex r) ≤ M := by omega
      simp [h, this]

theorem guardStep_appR (M : Nat) (o : Option Term) (l : Term) (hl : maxIndex l ≤ M) :
    (guardStep M o).map (Option.map (app l)) = guardStep M (o.map (app l)) := by
  cases o with
  | none => rfl
  | some t =>
    simp only [guardStep, Option.map_some, maxIndex]
    by_cases h : maxIndex t ≤ M
    · have : max (maxIndex l) (maxIndex t) ≤ M := by omega
      simp [h, this]
    · have : ¬ max (maxIndex l) (maxIndex t) ≤ M := by omega
      simp [h, this]

/-! ### the seven orders -/

theorem stepCbnChk_eq (M : Nat) (t : Term) (ht : maxIndex t ≤ M) :
    stepCbnChk M t = guardStep M (stepCbn t) := by
  induction t with
  | var i => rfl
  | abs b _ => rfl
  | app l r ihl _ =>
    simp only [maxIndex] at ht
    have hl : maxIndex l ≤ M := by omega
    have hr : maxIndex r ≤ M := by omega
    cases l with
    | var i => rfl
    | abs b =>
      simp only [stepCbnChk, stepCbn]
      exact guardStep_contract M b r (by simpa [maxIndex] using hl) hr
    | app l1 l2 =>
      have e1 : stepCbnChk M (app (app l1 l2) r)
          = (stepCbnChk M (app l1 l2)).map (Option.map (fun l' => app l' r)) := rfl
      have e2 : stepCbn (app (app l1 l2) r) = (stepCbn (app l1 l2)).map (fun l' => app l' r) := rfl
      rw [e1, e2, ihl hl, guardStep_appL M _ r hr]

theorem stepNorChk_eq (M : Nat) (t : Term) (ht : maxIndex t ≤ M) :
    stepNorChk M t = guardStep M (stepNor t) := by
  induction t with
  | var i => rfl
  | abs b ih =>
    simp only [maxIndex] at ht
    simp only [stepNorChk, stepNor, ih ht, guardStep_abs]
  | app l r ihl ihr =>
    simp only [maxIndex] at ht
    have hl : maxIndex l ≤ M := by omega
    have hr : maxIndex r ≤ M := by omega
    cases l with
    | abs b =>
      simp only [stepNorChk, stepNor]
      exact guardStep_contract M b r (by simpa [maxIndex] using hl) hr
    | var i =>
      simp only [stepNorChk, stepNor, ihr hr, guardStep_appR M _ _ hl]
    | app l1 l2 =>
      have e1 : stepNorChk M (app (app l1 l2) r) =
          match stepNorChk M (app l1 l2) with
          | none => none
          | some (some l') => some (some (app l' r))
          | some none => (stepNorChk M r).map (Option.map (app (app l1 l2))) := rfl
      have e2 : stepNor (app (app l1 l2) r) =
          match stepNor (app l1 l2) with
          | some l' => some (app l' r)
          | none => (stepNor r).map (app (app l1 l2)) := rfl
      rw [e1, e2, ihl hl, ihr hr]
      cases stepNor (app l1 l2) with
      | none => simp only [guardStep_none]; exact guardStep_appR M _ _ hl
      | some l' =>
        by_cases h : maxIndex l' ≤ M
        · rw [guardStep_some_le h, guardStep_some_le (by simp only [maxIndex]; omega)]
        · rw [guardStep_some_gt (by omega), guardStep_some_gt (by simp only [maxIndex]; omega)]

theorem stepCbvChk_eq (M : Nat) (t : Term) (ht : maxIndex t ≤ M) :
    stepCbvChk M t = guardStep M (stepCbv t) := by
  induction t with
  | var i => rfl
  | abs b _ => rfl
  | app l r ihl ihr =>
    simp only [maxIndex] at ht
    have hl : maxIndex l ≤ M := by omega
    have hr : maxIndex r ≤ M := by omega
    simp only [stepCbvChk, stepCbv]
    rw [ihl hl, ihr hr]
    cases stepCbv l with
    | some l' =>
      by_cases h : maxIndex l' ≤ M
      · rw [guardStep_some_le h, guardStep_some_le (by simp only [maxIndex]; omega)]
      · rw [guardStep_some_gt (by omega), guardStep_some_gt (by simp only [maxIndex]; omega)]
    | none =>
      simp only [guardStep_none]
      cases stepCbv r with
      | some r' =>
        by_cases h : maxIndex r' ≤ M
        · rw [guardStep_some_le h, guardStep_some_le (by simp only [maxIndex]; omega)]
        · rw [guardStep_some_gt (by omega), guardStep_some_gt (by simp only [maxIndex]; omega)]
      | none =>
        simp only [guardStep_none]
        cases l with
        | var i => rfl
        | app l1 l2 => rfl
        | abs b => exact guardStep_contract M b r (by simpa [maxIndex] using hl) hr

theorem stepAppChk_eq (M : Nat) (t : Term) (ht : maxIndex t ≤ M) :
    stepAppChk M t = guardStep M (stepApp t) := by
  induction t with
  | var i => rfl
  | abs b ih =>
    simp only [maxIndex] at ht
    simp only [stepAppChk, stepApp, ih ht, guardStep_abs]
  | app l r ihl ihr =>
    simp only [maxIndex] at ht
    have hl : maxIndex l ≤ M := by omega
    have hr : maxIndex r ≤ M := by omega
    simp only [stepAppChk, stepApp]
    rw [ihl hl, ihr hr]
    cases stepApp l with
    | some l' =>
      by_cases h : maxIndex l' ≤ M
      · rw [guardStep_some_le h, guardStep_some_le (by simp only [maxIndex]; omega)]
      · rw [guardStep_some_gt (by omega), guardStep_some_gt (by simp only [maxIndex]; omega)]
    | none =>
      simp only [guardStep_none]
      cases stepApp r with
      | some r' =>
        by_cases h : maxIndex r' ≤ M
        · rw [guardStep_some_le h, guardStep_some_le (by simp only [maxIndex]; omega)]
        · rw [guardStep_some_gt (by omega), guardStep_some_gt (by simp only [maxIndex]; omega)]
      | none =>
        simp only [guardStep_none]
        cases l with
        | var i => rfl
        | app l1 l2 => rfl
        | abs b => exact guardStep_contract M b r (by simpa [maxIndex] using hl) hr

theorem stepHspChk_eq (M : Nat) (t : Term) (ht : maxIndex t ≤ M) :
    stepHspChk M t = guardStep M (stepHsp t) := by
  induction t with
  | var i => rfl
  | abs b ih =>
    simp only [maxIndex] at ht
    simp only [stepHspChk, stepHsp, ih ht, guardStep_abs]
  | app l r ihl _ =>
    simp only [maxIndex] at ht
    have hl : maxIndex l ≤ M := by omega
    have hr : maxIndex r ≤ M := by omega
    simp only [stepHspChk, stepHsp]
    rw [ihl hl]
    cases stepHsp l with
    | some l' =>
      by_cases h : maxIndex l' ≤ M
      · rw [guardStep_some_le h, guardStep_some_le (by simp only [maxIndex]; omega)]
      · rw [guardStep_some_gt (by omega), guardStep_some_gt (by simp only [maxIndex]; omega)]
    | none =>
      simp only [guardStep_none]
      cases l with
      | var i => rfl
      | app l1 l2 => rfl
      | abs b => exact guardStep_contract M b r (by simpa [maxIndex] using hl) hr

theorem stepHnoChk_eq (M : Nat) (t : Term) (ht : maxIndex t ≤ M) :
    stepHnoChk M t = guardStep M (stepHno t) := by
  induction t with
  | var i => rfl
  | abs b ih =>
    simp only [maxIndex] at ht
    simp only [stepHnoChk, stepHno, ih ht, guardStep_abs]
  | app l r ihl ihr =>
    simp only [maxIndex] at ht
    have hl : maxIndex l ≤ M := by omega
    have hr : maxIndex r ≤ M := by omega
    simp only [stepHnoChk, stepHno]
    rw [stepHspChk_eq M l hl, ihl hl, ihr hr]
    cases stepHsp l with
    | some l' =>
      by_cases h : maxIndex l' ≤ M
      · rw [guardStep_some_le h, guardStep_some_le (by simp only [maxIndex]; omega)]
      · rw [guardStep_some_gt (by omega), guardStep_some_gt (by simp only [maxIndex]; omega)]
    | none =>
      simp only [guardStep_none]
      cases l with
      | abs b => exact guardStep_contract M b r (by simpa [maxIndex] using hl) hr
      | var i =>
        simp only []
        cases stepHno (var i) with
        | some l' =>
          by_cases h : maxIndex l' ≤ M
          · rw [guardStep_some_le h, guardStep_some_le (by simp only [maxIndex]; omega)]
          · rw [guardStep_some_gt (by omega), guardStep_some_gt (by simp only [maxIndex]; omega)]
        | none => simp only [guardStep_none]; exact guardStep_appR M _ _ hl
      | app l1 l2 =>
        simp only []
        cases stepHno (app l1 l2) with
        | some l' =>
          by_cases h : maxIndex l' ≤ M
          · rw [guardStep_some_le h, guardStep_some_le (by simp only [maxIndex]; omega)]
          · rw [guardStep_some_gt (by omega), guardStep_some_gt (by simp only [maxIndex]; omega)]
        | none => simp only [guardStep_none]; exact guardStep_appR M _ _ hl

theorem stepHapChk_eq (M : Nat) (t : Term) (ht : maxIndex t ≤ M) :
    stepHapChk M t = guardStep M (stepHap t) := by
  induction t with
  | var i => rfl
  | abs b ih =>
    simp only [maxIndex] at ht
    simp only [stepHapChk, stepHap, ih ht, guardStep_abs]
  | app l r ihl ihr =>
    simp only [maxIndex] at ht
    have hl : maxIndex l ≤ M := by omega
    have hr : maxIndex r ≤ M := by omega
    simp only [stepHapChk, stepHap]
    rw [stepCbvChk_eq M l hl, ihl hl, ihr hr]
    cases stepCbv l with
    | some l' =>
      by_cases h : maxIndex l' ≤ M
      · rw [guardStep_some_le h, guardStep_some_le (by simp only [maxIndex]; omega)]
      · rw [guardStep_some_gt (by omega), guardStep_some_gt (by simp only [maxIndex]; omega)]
    | none =>
      simp only [guardStep_none]
      cases stepHap r with
      | some r' =>
        by_cases h : maxIndex r' ≤ M
        · rw [guardStep_some_le h, guardStep_some_le (by simp only [maxIndex]; omega)]
        · rw [guardStep_some_gt (by omega), guardStep_some_gt (by simp only [maxIndex]; omega)]
      | none =>
        simp only [guardStep_none]
        cases l with
        | abs b => exact guardStep_contract M b r (by simpa [maxIndex] using hl) hr
        | var i => exact guardStep_appL M _ r hr
        | app l1 l2 => exact guardStep_appL M _ r hr

/-- all seven orders: on a term with all indices `≤ M` the checked step is the guarded unbounded step -/
theorem stepOrdChk_eq (M : Nat) (o : Order) (t : Term) (ht : maxIndex t ≤ M) :
    stepOrdChk M o t = guardStep M (stepOrd o t) := by
  cases o <;> simp only [stepOrdChk, stepOrd]
  · exact stepNorChk_eq M t ht
  · exact stepCbnChk_eq M t ht
  · exact stepHspChk_eq M t ht
  · exact stepHnoChk_eq M t ht
  · exact stepAppChk_eq M t ht
  · exact stepCbvChk_eq M t ht
  · exact stepHapChk_eq M t ht

end Term
end LC
