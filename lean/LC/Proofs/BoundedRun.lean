/-
The representation boundary of De Bruijn indices, part 3: runs of checked steps.

`runChk M o n t c` performs at most `n` checked steps of order `o` from `t`, counting from `c`: what a call
`reduce(o, n)` (`n ≠ 0`) of the crate does on `usize` indices, seen at the level of strategy steps (the traversals of
`Model/Reduce.lean` are the iteration of `stepOrd o`, `reduce_sound` / `reduce_complete`).  `none` = some contraction
panicked.

* `runChk_eq_some_iff`: the checked run returns `(t', c)` iff the unbounded run of at most `n` steps ends in `t'`
  after `c` steps AND every term of that run is representable;
* `runChk_eq_none_iff`: it refuses iff some term reached by the unbounded run within `n` steps is not representable.
-/
import LC.Proofs.BoundedStep
import LC.Proofs.ReduceLemmas
import LC.Proofs.PSubst

namespace LC
namespace Term

/-- at most `n` checked steps; `none` = panic -/
def runChk (M : Nat) (o : Order) : Nat → Term → Nat → Option (Term × Nat)
  | 0, t, c => some (t, c)
  | n + 1, t, c =>
    match stepOrdChk M o t with
    | none => none
    | some none => some (t, c)
    | some (some t') => runChk M o n t' (c + 1)

/-- every term reached from `t` by at most `k` steps of `f` has all indices `≤ M` -/
def RunLe (M : Nat) (f : Term → Option Term) (k : Nat) (t : Term) : Prop :=
  ∀ j u, j ≤ k → Iter f j t u → maxIndex u ≤ M

theorem RunLe.start {M k : Nat} {f : Term → Option Term} {t : Term} (h : RunLe M f k t) : maxIndex t ≤ M :=
  h 0 t (Nat.zero_le _) (Iter.zero t)

theorem RunLe.zero {M : Nat} {f : Term → Option Term} {t : Term} (h : maxIndex t ≤ M) : RunLe M f 0 t := by
  intro j u hj it
  have : j = 0 := by omega
  subst this
  rw [it.zero_eq]; exact h

theorem RunLe.succ {M k : Nat} {f : Term → Option Term} {t u : Term} (ht : maxIndex t ≤ M) (hs : f t = some u)
    (h : RunLe M f k u) : RunLe M f (k + 1) t := by
  intro j w hj it
  cases it with
  | zero _ => exact ht
  | @succ j' _ u' _ hs' it' =>
    rw [hs] at hs'; cases hs'
    exact h j' w (by omega) it'

theorem RunLe.tail {M k : Nat} {f : Term → Option Term} {t u : Term} (hs : f t = some u)
    (h : RunLe M f (k + 1) t) : RunLe M f k u :=
  fun j w hj it => h (j + 1) w (by omega) (Iter.succ hs it)

theorem RunLe.mono {M k k' : Nat} {f : Term → Option Term} {t : Term} (h : RunLe M f k t) (hk : k' ≤ k) :
    RunLe M f k' t :=
  fun j w hj it => h j w (by omega) it

/-- the checked run returns exactly the unbounded bounded run, provided all its terms are representable -/
theorem runChk_eq_some_iff (M : Nat) (o : Order) (n : Nat) (t : Term) (c0 : Nat) (ht : maxIndex t ≤ M)
    (t' : Term) (c' : Nat) :
    runChk M o n t c0 = some (t', c') ↔
      ∃ k, c' = c0 + k ∧ RL.BRun (stepOrd o) n t t' k ∧ RunLe M (stepOrd o) k t := by
  induction n generalizing t c0 with
  | zero =>
    simp only [runChk, Option.some.injEq, Prod.mk.injEq]
    constructor
    · rintro ⟨rfl, rfl⟩
      exact ⟨0, rfl, RL.BRun.zero _, RunLe.zero ht⟩
    · rintro ⟨k, hc, ⟨it, hle, _⟩, _⟩
      have : k = 0 := by omega
      subst this
      exact ⟨it.zero_eq.symm, by omega⟩
  | succ n ih =>
    simp only [runChk]
    rw [stepOrdChk_eq M o t ht]
    cases hs : stepOrd o t with
    | none =>
      simp only [guardStep_none, Option.some.injEq, Prod.mk.injEq]
      constructor
      · rintro ⟨rfl, rfl⟩
        exact ⟨0, rfl, ⟨Iter.zero _, Nat.zero_le _, fun _ => hs⟩, RunLe.zero ht⟩
      · rintro ⟨k, hc, ⟨it, _, _⟩, _⟩
        obtain ⟨hk, hu⟩ := it.of_none hs
        subst hk
        exact ⟨hu.symm, by omega⟩
    | some u =>
      by_cases hu : maxIndex u ≤ M
      · rw [guardStep_some_le hu]
        simp only []
        rw [ih u (c0 + 1) hu]
        constructor
        · rintro ⟨k, hc, ⟨it, hle, hn⟩, hall⟩
          exact ⟨k + 1, by omega, ⟨Iter.succ hs it, by omega, fun h => hn (by omega)⟩, RunLe.succ ht hs hall⟩
        · rintro ⟨k, hc, ⟨it, hle, hn⟩, hall⟩
          cases it with
          | zero _ =>
            have := hn (by omega)
            rw [hs] at this; cases this
          | @succ k' _ u' _ hs' it' =>
            rw [hs] at hs'; cases hs'
            exact ⟨k', by omega, ⟨it', by omega, fun h => hn (by omega)⟩, RunLe.tail hs hall⟩
      · rw [guardStep_some_gt (by omega)]
        simp only []
        constructor
        · intro h; cases h
        · rintro ⟨k, hc, ⟨it, hle, hn⟩, hall⟩
          cases it with
          | zero _ =>
            have := hn (by omega)
            rw [hs] at this; cases this
          | @succ k' _ u' _ hs' it' =>
            have := hall 1 u (by omega) (Iter.one hs)
            omega

/-- the checked run refuses exactly when the unbounded run reaches, within the limit, a term that is not representable -/
theorem runChk_eq_none_iff (M : Nat) (o : Order) (n : Nat) (t : Term) (c0 : Nat) (ht : maxIndex t ≤ M) :
    runChk M o n t c0 = none ↔ ∃ j u, j ≤ n ∧ Iter (stepOrd o) j t u ∧ M < maxIndex u := by
  induction n generalizing t c0 with
  | zero =>
    simp only [runChk]
    constructor
    · intro h; cases h
    · rintro ⟨j, u, hj, it, hu⟩
      have : j = 0 := by omega
      subst this
      rw [it.zero_eq] at hu; omega
  | succ n ih =>
    simp only [runChk]
    rw [stepOrdChk_eq M o t ht]
    cases hs : stepOrd o t with
    | none =>
      simp only [guardStep_none]
      constructor
      · intro h; cases h
      · rintro ⟨j, u, hj, it, hu⟩
        obtain ⟨_, e⟩ := it.of_none hs
        rw [e] at hu; omega
    | some u =>
      by_cases hu : maxIndex u ≤ M
      · rw [guardStep_some_le hu]
        simp only []
        rw [ih u (c0 + 1) hu]
        constructor
        · rintro ⟨j, w, hj, it, hw⟩
          exact ⟨j + 1, w, by omega, Iter.succ hs it, hw⟩
        · rintro ⟨j, w, hj, it, hw⟩
          cases it with
          | zero _ => omega
          | @succ j' _ u' _ hs' it' =>
            rw [hs] at hs'; cases hs'
            exact ⟨j', w, by omega, it', hw⟩
      · rw [guardStep_some_gt (by omega)]
        simp only [true_iff]
        exact ⟨1, u, by omega, Iter.one hs, by omega⟩

/-- the count never restarts: a checked run from count `c0` is the run from 0 with `c0` added -/
theorem runChk_count (M : Nat) (o : Order) (n : Nat) (t : Term) (c0 : Nat) :
    runChk M o n t c0 = (runChk M o n t 0).map (fun p => (p.1, p.2 + c0)) := by
  induction n generalizing t c0 with
  | zero => simp [runChk]
  | succ n ih =>
    simp only [runChk]
    cases stepOrdChk M o t with
    | none => rfl
    | some x =>
      cases x with
      | none => simp
      | some u =>
        simp only []
        rw [ih u (c0 + 1), ih u (0 + 1)]
        cases runChk M o n u 0 with
        | none => rfl
        | some p => simp only [Option.map_some, Option.some.injEq, Prod.mk.injEq, true_and]; omega

/-- an argument without free variables is copied unchanged, whatever the depth: no index of the result is new -/
theorem maxIndex_applyAux_closed (a : Term) (hc : Spec.closedAt 0 a = true) (b : Term) (d : Nat) :
    maxIndex (applyAux a d b) ≤ max (maxIndex b) (maxIndex a) := by
  induction b generalizing d with
  | var i =>
    simp only [applyAux, maxIndex]
    by_cases h1 : i = d
    · simp only [h1, if_true, Spec.shiftFV_closed _ _ hc]; omega
    · by_cases h2 : i > d
      · simp only [h1, h2, if_false, if_true, maxIndex]; omega
      · simp only [h1, h2, if_false, maxIndex]; omega
  | abs b ih => simp only [applyAux, maxIndex]; exact ih (d + 1)
  | app l r ihl ihr =>
    simp only [applyAux, maxIndex]
    have := ihl d
    have := ihr d
    omega

end Term
end LC
