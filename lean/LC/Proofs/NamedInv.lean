/-
The inverse translation `fromDB`: every De Bruijn term whose outer references are representable under the context
is the image of a named term.  Binder names are chosen above every name of the context and every free name of the
term, increasing with the depth, so that no binder shadows or captures anything.
-/
import LC.Proofs.Named

namespace LC
namespace Named

/-- the names of the outer references of `t` seen from under `n` binders: the reference `n + x + 1` is the name `x` -/
def outerNames (n : Nat) : Term → List Nat
  | .var k => if k > n then [k - n - 1] else []
  | .abs b => outerNames (n + 1) b
  | .app l r => outerNames n l ++ outerNames n r

def listMax : List Nat → Nat
  | [] => 0
  | a :: l => max a (listMax l)

/-- read a De Bruijn term back, naming the binder at depth `d` (counted with the context) `B + d` -/
def fromDBAux (B : Nat) (Γ : List Nat) : Term → NTerm
  | .var 0 => .ud
  | .var (k + 1) => if k < Γ.length then .var (Γ.getD k 0) else .var (k - Γ.length)
  | .abs b => .lam (B + Γ.length) (fromDBAux B ((B + Γ.length) :: Γ) b)
  | .app l r => .app (fromDBAux B Γ l) (fromDBAux B Γ r)

/-- a binder-name base above the context and above the free names of the term -/
def base (Γ : List Nat) (t : Term) : Nat := max (listMax Γ) (listMax (outerNames Γ.length t)) + 1

def fromDB (Γ : List Nat) (t : Term) : NTerm := fromDBAux (base Γ t) Γ t

theorem le_listMax {v : Nat} {l : List Nat} (h : v ∈ l) : v ≤ listMax l := by
  induction l with
  | nil => simp at h
  | cons a l ih =>
    simp only [List.mem_cons] at h
    simp only [listMax]
    cases h with
    | inl h => omega
    | inr h => have := ih h; omega

theorem toDB_fromDBAux (B : Nat) (t : Term) (Γ : List Nat) (hn : Γ.Nodup) (hΓ : ∀ v ∈ Γ, v < B + Γ.length)
    (ho : ∀ v ∈ outerNames Γ.length t, v ∉ Γ ∧ v < B) :
    toDB Γ (fromDBAux B Γ t) = t := by
  induction t generalizing Γ with
  | var k =>
    cases k with
    | zero => simp [fromDBAux, toDB]
    | succ k =>
      simp only [fromDBAux]
      by_cases hk : k < Γ.length
      · simp only [hk, if_true, toDB]
        have hg : Γ.getD k 0 = Γ[k] := by simp [List.getD, hk]
        rw [hg, ix_nodup_getElem hn k hk]
      · simp only [hk, if_false, toDB]
        have hgt : k + 1 > Γ.length := by omega
        have hm := (ho (k - Γ.length) (by simp [outerNames, hgt]; omega)).1
        rw [ix_not_mem hm]; congr 1; omega
  | abs b ih =>
    simp only [fromDBAux, toDB]; congr 1
    apply ih
    · refine List.nodup_cons.mpr ⟨?_, hn⟩
      intro h; have := hΓ _ h; omega
    · intro v hv
      simp only [List.mem_cons] at hv
      simp only [List.length_cons]
      cases hv with
      | inl h => omega
      | inr h => have := hΓ v h; omega
    · intro v hv
      simp only [List.length_cons] at hv
      have := ho v (by simpa [outerNames] using hv)
      refine ⟨?_, this.2⟩
      simp only [List.mem_cons, not_or]
      exact ⟨by omega, this.1⟩
  | app l r ihl ihr =>
    simp only [fromDBAux, toDB]
    rw [ihl Γ hn hΓ (fun v hv => ho v (by simp [outerNames, hv])),
      ihr Γ hn hΓ (fun v hv => ho v (by simp [outerNames, hv]))]

/-- `fromDB` is a right inverse of `toDB Γ` on the terms that are representable under `Γ`: `Γ` has no repeated name
(a repeated name makes the outer of the two positions unreachable) and no outer reference of `t` stands for a name
that `Γ` binds (such a name would be captured by `Γ`). -/
theorem toDB_fromDB (Γ : List Nat) (t : Term) (hn : Γ.Nodup) (ho : ∀ v ∈ outerNames Γ.length t, v ∉ Γ) :
    toDB Γ (fromDB Γ t) = t := by
  apply toDB_fromDBAux _ t Γ hn
  · intro v hv; have := le_listMax hv; unfold base; omega
  · intro v hv; have := le_listMax hv; exact ⟨ho v hv, by unfold base; omega⟩

/-- conversely, the outer references of a translated term are exactly free names that the context does not bind: the
side condition of `toDB_fromDB` is necessary -/
theorem outerNames_toDB (M : NTerm) (Γ : List Nat) :
    ∀ v ∈ outerNames Γ.length (toDB Γ M), v ∈ fv M ∧ v ∉ Γ := by
  induction M generalizing Γ with
  | var x =>
    intro v hv
    simp only [toDB, outerNames] at hv
    by_cases hx : x ∈ Γ
    · have := ix_le_of_mem hx
      rw [if_neg (by omega)] at hv; simp at hv
    · rw [ix_not_mem hx, if_pos (by omega)] at hv
      simp only [List.mem_singleton] at hv
      have : v = x := by omega
      subst this; exact ⟨by simp [fv], hx⟩
  | ud => intro v hv; simp [toDB, outerNames] at hv
  | lam x b ih =>
    intro v hv
    simp only [toDB, outerNames] at hv
    have := ih (x :: Γ) v (by simpa using hv)
    simp only [List.mem_cons, not_or] at this
    exact ⟨mem_fv_lam.mpr ⟨this.1, this.2.1⟩, this.2.2⟩
  | app l r ihl ihr =>
    intro v hv
    simp only [toDB, outerNames, List.mem_append] at hv
    cases hv with
    | inl h => have := ihl Γ v h; exact ⟨by simp [fv, this.1], this.2⟩
    | inr h => have := ihr Γ v h; exact ⟨by simp [fv, this.1], this.2⟩

/-- a context of `n` distinct names `B + n - 1, …, B` -/
def upFrom (B : Nat) : Nat → List Nat
  | 0 => []
  | n + 1 => (B + n) :: upFrom B n

theorem length_upFrom (B n : Nat) : (upFrom B n).length = n := by
  induction n with
  | zero => rfl
  | succ n ih => simp [upFrom, ih]

theorem mem_upFrom {B n v : Nat} (h : v ∈ upFrom B n) : B ≤ v ∧ v < B + n := by
  induction n with
  | zero => simp [upFrom] at h
  | succ n ih =>
    simp only [upFrom, List.mem_cons] at h
    cases h with
    | inl h => omega
    | inr h => have := ih h; omega

theorem nodup_upFrom (B n : Nat) : (upFrom B n).Nodup := by
  induction n with
  | zero => simp [upFrom]
  | succ n ih =>
    simp only [upFrom]
    refine List.nodup_cons.mpr ⟨?_, ih⟩
    intro h; have := mem_upFrom h; omega

/-- for every term and every number `n` of enclosing binders there is a context of that length (fresh, large names)
under which the term is representable -/
theorem toDB_fromDB_upFrom (t : Term) (n : Nat) :
    toDB (upFrom (listMax (outerNames n t) + 1) n) (fromDB (upFrom (listMax (outerNames n t) + 1) n) t) = t := by
  apply toDB_fromDB _ _ (nodup_upFrom _ _)
  rw [length_upFrom]
  intro v hv hm
  have := le_listMax hv
  have := mem_upFrom hm
  omega

end Named
end LC
