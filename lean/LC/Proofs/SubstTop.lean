/-
`contract` (the model's one-pass substitution at depth 1) coincides with the
specification's `substTop` (textbook lift/subst/lower).  This is the core of C02 and the
bridge that lets all metatheory be carried out on `contract`.
-/
import LC.Spec.Beta
import LC.Proofs.Subst

namespace LC
open Term Spec


theorem lift_eq_shiftFV (c : Nat) (t : Term) : lift c t = shiftFV 1 c t := by
  induction t generalizing c with
  | var k => simp [lift, shiftFV]
  | abs b ih => simp [lift, shiftFV, ih]
  | app l r ihl ihr => simp [lift, shiftFV, ihl, ihr]

theorem lower_shiftFV (c n o : Nat) (h : c ≤ n) (t : Term) :
    lower (c + o) (shiftFV (n + 1) o t) = shiftFV n o t := by
  induction t generalizing o with
  | var i => grind [lower, shiftFV]
  | abs b ih => simp only [lower, shiftFV]; rw [show c + o + 1 = c + (o + 1) by omega, ih]
  | app l r ihl ihr => simp [lower, shiftFV, ihl, ihr]

/-- the generalisation over the binder depth `d ≥ 1` -/
theorem lower_subst_eq_applyAux (a : Term) (d : Nat) (hd : 1 ≤ d) (b : Term) :
    lower (d - 1) (subst d (shiftFV d 0 a) b) = applyAux a d b := by
  induction b generalizing d with
  | var k =>
    by_cases hk : k = d
    · subst hk
      simp only [subst, applyAux, if_true]
      obtain ⟨n, rfl⟩ : ∃ n, k = n + 1 := ⟨k - 1, by omega⟩
      have := lower_shiftFV n n 0 (Nat.le_refl _) a
      simpa using this
    · simp only [subst, applyAux, hk, if_false, lower]
      grind
  | abs b ih =>
    simp only [subst, applyAux, lower]
    rw [lift_eq_shiftFV, shiftFV_shiftFV_add, show d - 1 + 1 = d + 1 - 1 by omega,
      show 1 + d = d + 1 by omega, ih (d + 1) (by omega)]
  | app l r ihl ihr => simp [subst, applyAux, lower, ihl d hd, ihr d hd]


/-- the model's contraction is the specification's capture-avoiding substitution -/
theorem contract_eq_substTop (b a : Term) : contract b a = substTop b a := by
  unfold contract substTop
  rw [lift_eq_shiftFV]
  exact (lower_subst_eq_applyAux a 1 (Nat.le_refl _) b).symm


/-- rewriting form, oriented towards the model function -/
theorem substTop_eq (b a : Term) : substTop b a = contract b a := (contract_eq_substTop b a).symm

end LC
