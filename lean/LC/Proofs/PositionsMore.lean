/-
Positional characterisation of the remaining orders — head spine (HSP), hybrid normal (HNO) and
hybrid applicative (HAP) — and executable selectors for all seven orders.

* SPECIFICATION SECTION (below, clearly marked): the positional definitions `isHSP`, `isHNO`,
  `isHAP` (relations in the style of `LC/Spec/Selection.lean`: they quantify over positions, they do
  not recurse over the term and they mention neither `stepX` nor `betaX`), and `Sel o`, the
  selection relation of every order.
* EXECUTABLE SELECTORS: `selNor … selHap : Term → Option Pos` (`sel o`), structurally recursive
  renderings used for `decide`-able examples; they are NOT the specification, they are proved
  equivalent to it (`sel_iff`).
* Proofs: `stepX t = (selX t).map (contractAt t)`, `selX t = some p ↔ isX t p`, uniqueness.
  (HAP: `LC/Proofs/PositionsHap.lean`.)
-/
import LC.Proofs.Positions

namespace LC
namespace Spec
open Term

/-! ## SPECIFICATION SECTION — positional definitions (audit these) -/

/-- innermost on its own head spine: `p` is a redex and no redex lies strictly below `p` on the
path that only takes operator sides (`L`) and abstraction bodies (`B`), i.e. never enters an
argument -/
def spineInnermost (t : Term) (p : Pos) : Prop :=
  redexAt t p ∧ ∀ s, s ≠ [] → noArg s → ¬ redexAt t (p ++ s)

/-- HSP, head spine ("abstractions reduced only in head position", to head normal form): only
redexes on the head spine of the term — positions reached from the root through abstraction bodies
and operator sides, never entering an argument — are contracted, and of those the INNERMOST
(deepest) one: `beta_hsp` reduces the operator of an application by `beta_hsp` (which descends
under the operator's abstractions) before it contracts the application itself. -/
def isHSP (t : Term) (p : Pos) : Prop := noArg p ∧ spineInnermost t p

/-- HNO, hybrid normal ("a mix between HSP (head spine) and NOR (normal)"): take the
leftmost-outermost redex (the one NOR contracts, at `q`); HNO contracts the innermost redex on the
head spine of THAT redex (`p = q ++ s`, `s` never enters an argument, nothing deeper on that spine).
So the outermost-leftmost choice is NOR's, the choice within the chosen redex is HSP's. -/
def isHNO (t : Term) (p : Pos) : Prop :=
  spineInnermost t p ∧ ∃ q s, isLMO t q ∧ p = q ++ s ∧ noArg s

/-- the order in which CBV visits redexes outside abstractions: inner before outer, and left before
right -/
def cbvBefore (p q : Pos) : Prop := leftOf p q ∨ ∃ s, s ≠ [] ∧ p = q ++ s

/-- HAP, hybrid applicative ("a mix between CBV (call-by-value) and APP (applicative)"): the order
in which HAP prefers redex positions.  In an application `l r`:
1. first the *eager* redexes of the operator `l` — those not under a binder of `l` — in CBV order
   (`beta_cbv` on the operator);
2. then the redexes of the operand `r`, all of them, by the same rules (`beta_hap` on the operand);
3. then the application itself if `l` is an abstraction;
4. last the remaining redexes of the operator (those under binders of `l`), by the same rules.
Under an abstraction: the same rules in the body. -/
inductive hapBefore : Pos → Pos → Prop
  /-- same rules under a binder -/
  | underB {p q : Pos} : hapBefore p q → hapBefore (Dir.B :: p) (Dir.B :: q)
  /-- same rules inside the operand -/
  | inR {p q : Pos} : hapBefore p q → hapBefore (Dir.R :: p) (Dir.R :: q)
  /-- eager redexes of the operator before anything in the operand -/
  | eagerL_R {p q : Pos} : weak p → hapBefore (Dir.L :: p) (Dir.R :: q)
  /-- eager redexes of the operator before the application itself -/
  | eagerL_root {p : Pos} : weak p → hapBefore (Dir.L :: p) []
  /-- the operand before the application itself -/
  | R_root {p : Pos} : hapBefore (Dir.R :: p) []
  /-- the operand before the redexes under binders of the operator -/
  | R_lateL {p q : Pos} : ¬ weak q → hapBefore (Dir.R :: p) (Dir.L :: q)
  /-- the application itself before the redexes under binders of its operator -/
  | root_lateL {q : Pos} : ¬ weak q → hapBefore [] (Dir.L :: q)
  /-- within the operator: eager redexes before those under binders -/
  | eager_late {p q : Pos} : weak p → ¬ weak q → hapBefore (Dir.L :: p) (Dir.L :: q)
  /-- within the operator: eager redexes among themselves in CBV order -/
  | eager_eager {p q : Pos} : weak p → weak q → cbvBefore p q → hapBefore (Dir.L :: p) (Dir.L :: q)
  /-- within the operator: redexes under binders among themselves by the same rules -/
  | late_late {p q : Pos} : ¬ weak p → ¬ weak q → hapBefore p q → hapBefore (Dir.L :: p) (Dir.L :: q)

/-- HAP contracts the redex that comes first in the order `hapBefore` -/
def isHAP (t : Term) (p : Pos) : Prop := redexAt t p ∧ ∀ q, redexAt t q → q = p ∨ hapBefore p q

/-- the redex position each order selects (NOR, CBN, APP, CBV: `LC/Spec/Selection.lean`) -/
def Sel : Order → Term → Pos → Prop
  | .NOR => isLMO
  | .CBN => fun t p => isLMO t p ∧ spineL p
  | .APP => isLMI
  | .CBV => isLMIW
  | .HSP => isHSP
  | .HNO => isHNO
  | .HAP => isHAP

/-! ## EXECUTABLE SELECTORS (not specification: proved equivalent to `Sel`) -/

def selCbn : Term → Option Pos
  | app (abs _) _ => some []
  | app l _ => (selCbn l).map (Dir.L :: ·)
  | _ => none

def selNor : Term → Option Pos
  | var _ => none
  | abs b => (selNor b).map (Dir.B :: ·)
  | app (abs _) _ => some []
  | app l r =>
    match selNor l with
    | some p => some (Dir.L :: p)
    | none => (selNor r).map (Dir.R :: ·)

def selCbv : Term → Option Pos
  | app l r =>
    match selCbv l with
    | some p => some (Dir.L :: p)
    | none =>
      match selCbv r with
      | some p => some (Dir.R :: p)
      | none => if isAbs l then some [] else none
  | _ => none

def selApp : Term → Option Pos
  | var _ => none
  | abs b => (selApp b).map (Dir.B :: ·)
  | app l r =>
    match selApp l with
    | some p => some (Dir.L :: p)
    | none =>
      match selApp r with
      | some p => some (Dir.R :: p)
      | none => if isAbs l then some [] else none

def selHsp : Term → Option Pos
  | var _ => none
  | abs b => (selHsp b).map (Dir.B :: ·)
  | app l _ =>
    match selHsp l with
    | some p => some (Dir.L :: p)
    | none => if isAbs l then some [] else none

def selHno : Term → Option Pos
  | var _ => none
  | abs b => (selHno b).map (Dir.B :: ·)
  | app l r =>
    match selHsp l with
    | some p => some (Dir.L :: p)
    | none =>
      if isAbs l then some []
      else
        match selHno l with
        | some p => some (Dir.L :: p)
        | none => (selHno r).map (Dir.R :: ·)

def selHap : Term → Option Pos
  | var _ => none
  | abs b => (selHap b).map (Dir.B :: ·)
  | app l r =>
    match selCbv l with
    | some p => some (Dir.L :: p)
    | none =>
      match selHap r with
      | some p => some (Dir.R :: p)
      | none => if isAbs l then some [] else (selHap l).map (Dir.L :: ·)

def sel : Order → Term → Option Pos
  | .NOR => selNor
  | .CBN => selCbn
  | .APP => selApp
  | .CBV => selCbv
  | .HSP => selHsp
  | .HNO => selHno
  | .HAP => selHap

/-! ## Proofs: basics -/

theorem noArg_nil : noArg [] := by simp [noArg]

theorem noArg_append {p q : Pos} : noArg (p ++ q) ↔ noArg p ∧ noArg q := by
  simp [noArg, List.mem_append, not_or]

theorem isAbs_true {l : Term} (h : isAbs l = true) : ∃ b, l = abs b := by
  cases l with
  | abs b => exact ⟨b, rfl⟩
  | var n => simp [isAbs] at h
  | app l r => simp [isAbs] at h

theorem isAbs_false {l : Term} (h : isAbs l = false) : ∀ b, l ≠ abs b := by
  intro b hb; subst hb; simp [isAbs] at h

theorem pos_append_cycle {p q s s' : Pos} (h1 : p = q ++ s) (h2 : q = p ++ s') : p = q := by
  have e1 := congrArg List.length h1
  have e2 := congrArg List.length h2
  simp only [List.length_append] at e1 e2
  have : s = [] := List.eq_nil_of_length_eq_zero (by omega)
  subst this
  simpa using h1

theorem not_leftOf_of_prefix_left {p q s : Pos} (h : p = q ++ s) : ¬ leftOf p q := by
  rintro ⟨r, p', q', hp, hq⟩
  subst hq
  rw [hp, List.append_assoc] at h
  have := List.append_cancel_left h
  simp at this

theorem not_leftOf_of_prefix_right {p q s : Pos} (h : q = p ++ s) : ¬ leftOf p q := by
  rintro ⟨r, p', q', hp, hq⟩
  subst hp
  rw [hq, List.append_assoc] at h
  have := List.append_cancel_left h
  simp at this

/-! ### `spineInnermost` under each constructor -/

theorem spineInnermost_abs_B {b : Term} {p : Pos} :
    spineInnermost (abs b) (Dir.B :: p) ↔ spineInnermost b p := by
  simp only [spineInnermost, List.cons_append, redexAt_abs_B]

theorem spineInnermost_app_L {l r : Term} {p : Pos} :
    spineInnermost (app l r) (Dir.L :: p) ↔ spineInnermost l p := by
  simp only [spineInnermost, List.cons_append, redexAt_app_L]

theorem spineInnermost_app_R {l r : Term} {p : Pos} :
    spineInnermost (app l r) (Dir.R :: p) ↔ spineInnermost r p := by
  simp only [spineInnermost, List.cons_append, redexAt_app_R]

theorem spineInnermost_app_nil {l r : Term} :
    spineInnermost (app l r) [] ↔ (∃ b, l = abs b) ∧ ∀ q, noArg q → ¬ redexAt l q := by
  simp only [spineInnermost, List.nil_append, redexAt_app_nil]
  constructor
  · rintro ⟨h1, h2⟩
    exact ⟨h1, fun q hq hr =>
      h2 (Dir.L :: q) (by simp) (noArg_cons.2 ⟨by simp, hq⟩) (redexAt_app_L.2 hr)⟩
  · rintro ⟨h1, h2⟩
    refine ⟨h1, fun s hs hn hr => ?_⟩
    cases s with
    | nil => exact hs rfl
    | cons d s =>
      cases d with
      | L => exact h2 s (noArg_cons.1 hn).2 (redexAt_app_L.1 hr)
      | R => exact absurd rfl (noArg_cons.1 hn).1
      | B => exact redexAt_app_B hr

/-! ### the head spine is a single path -/

/-- two redexes on the head spine are nested -/
theorem spine_comparable (t : Term) : ∀ (p q : Pos), redexAt t p → redexAt t q → noArg p → noArg q →
    (∃ s, p = q ++ s) ∨ (∃ s, q = p ++ s) := by
  induction t with
  | var n => intro p q hp; exact absurd hp redexAt_var
  | abs b ih =>
    intro p q hp hq np nq
    obtain ⟨p', rfl, hp'⟩ := redexAt_abs_iff.1 hp
    obtain ⟨q', rfl, hq'⟩ := redexAt_abs_iff.1 hq
    rcases ih p' q' hp' hq' (noArg_cons.1 np).2 (noArg_cons.1 nq).2 with ⟨s, rfl⟩ | ⟨s, rfl⟩
    · exact Or.inl ⟨s, rfl⟩
    · exact Or.inr ⟨s, rfl⟩
  | app l r ihl _ =>
    intro p q hp hq np nq
    cases p with
    | nil => exact Or.inr ⟨q, rfl⟩
    | cons d p =>
      cases q with
      | nil => exact Or.inl ⟨d :: p, rfl⟩
      | cons e q =>
        cases d with
        | B => exact absurd hp redexAt_app_B
        | R => exact absurd rfl (noArg_cons.1 np).1
        | L =>
          cases e with
          | B => exact absurd hq redexAt_app_B
          | R => exact absurd rfl (noArg_cons.1 nq).1
          | L =>
            rcases ihl p q (redexAt_app_L.1 hp) (redexAt_app_L.1 hq) (noArg_cons.1 np).2
              (noArg_cons.1 nq).2 with ⟨s, rfl⟩ | ⟨s, rfl⟩
            · exact Or.inl ⟨s, rfl⟩
            · exact Or.inr ⟨s, rfl⟩

/-- the same below any position `g` -/
theorem spine_comparable_at (g : Pos) : ∀ (t : Term) (s s' : Pos), redexAt t (g ++ s) →
    redexAt t (g ++ s') → noArg s → noArg s' → (∃ x, s = s' ++ x) ∨ (∃ x, s' = s ++ x) := by
  induction g with
  | nil => intro t s s' h h'; exact spine_comparable t s s' h h'
  | cons d g ih =>
    intro t s s' h h' n n'
    cases t with
    | var k => exact absurd h redexAt_var
    | abs b =>
      cases d with
      | B => exact ih b s s' (redexAt_abs_B.1 h) (redexAt_abs_B.1 h') n n'
      | L => obtain ⟨_, e, _⟩ := redexAt_abs_iff.1 h; simp at e
      | R => obtain ⟨_, e, _⟩ := redexAt_abs_iff.1 h; simp at e
    | app l r =>
      cases d with
      | B => exact absurd h redexAt_app_B
      | L => exact ih l s s' (redexAt_app_L.1 h) (redexAt_app_L.1 h') n n'
      | R => exact ih r s s' (redexAt_app_R.1 h) (redexAt_app_R.1 h') n n'

/-! ### HSP -/

/-- every head-spine redex lies above (is a prefix of) the one HSP selects -/
theorem isHSP_prefix {t : Term} {p q : Pos} (h : isHSP t p) (hq : redexAt t q) (nq : noArg q) :
    ∃ s, p = q ++ s := by
  obtain ⟨np, hp, hdeep⟩ := h
  rcases spine_comparable t p q hp hq np nq with h | ⟨s, rfl⟩
  · exact h
  · by_cases hs : s = []
    · subst hs; exact ⟨[], by simp⟩
    · exact absurd hq (hdeep s hs (noArg_append.1 nq).2)

/-- equivalent formulation: the redex on the head spine below all other redexes of the head spine -/
theorem isHSP_iff {t : Term} {p : Pos} :
    isHSP t p ↔ redexAt t p ∧ noArg p ∧ ∀ q, redexAt t q → noArg q → ∃ s, p = q ++ s := by
  constructor
  · intro h; exact ⟨h.2.1, h.1, fun q hq nq => isHSP_prefix h hq nq⟩
  · rintro ⟨hp, np, h⟩
    refine ⟨np, hp, fun s hs ns hr => ?_⟩
    obtain ⟨x, hx⟩ := h (p ++ s) hr (noArg_append.2 ⟨np, ns⟩)
    have e := congrArg List.length hx
    simp only [List.length_append] at e
    exact hs (List.eq_nil_of_length_eq_zero (by omega))

theorem isHSP_unique {t : Term} {p q : Pos} (hp : isHSP t p) (hq : isHSP t q) : p = q := by
  obtain ⟨s, h1⟩ := isHSP_prefix hp hq.2.1 hq.1
  obtain ⟨s', h2⟩ := isHSP_prefix hq hp.2.1 hp.1
  exact pos_append_cycle h1 h2

/-- a redex on the head spine lies on the head spine of the leftmost-outermost redex, which is then
itself on the head spine -/
theorem spine_redex_lmo (t : Term) : ∀ p, redexAt t p → noArg p →
    ∃ q s, isLMO t q ∧ p = q ++ s := by
  induction t with
  | var n => intro p hp; exact absurd hp redexAt_var
  | abs b ih =>
    intro p hp np
    obtain ⟨p', rfl, hp'⟩ := redexAt_abs_iff.1 hp
    obtain ⟨q, s, hq, rfl⟩ := ih p' hp' (noArg_cons.1 np).2
    exact ⟨Dir.B :: q, s, isLMO_abs_B.2 hq, rfl⟩
  | app l r ihl _ =>
    intro p hp np
    by_cases hl : ∃ b, l = abs b
    · obtain ⟨b, rfl⟩ := hl
      exact ⟨[], p, isLMO_root b r, rfl⟩
    · have hl' : ∀ b, l ≠ abs b := fun b hb => hl ⟨b, hb⟩
      cases p with
      | nil => exact absurd (redexAt_app_nil.1 hp) hl
      | cons d p =>
        cases d with
        | B => exact absurd hp redexAt_app_B
        | R => exact absurd rfl (noArg_cons.1 np).1
        | L =>
          obtain ⟨q, s, hq, rfl⟩ := ihl p (redexAt_app_L.1 hp) (noArg_cons.1 np).2
          exact ⟨Dir.L :: q, s, isLMO_app_L hl' hq, rfl⟩

theorem isHSP_isHNO {t : Term} {p : Pos} (h : isHSP t p) : isHNO t p := by
  obtain ⟨q, s, hq, rfl⟩ := spine_redex_lmo t p h.2.1 h.1
  exact ⟨h.2, q, s, hq, rfl, (noArg_append.1 h.1).2⟩

theorem isHNO_unique {t : Term} {p p' : Pos} (hp : isHNO t p) (hp' : isHNO t p') : p = p' := by
  obtain ⟨⟨r1, d1⟩, q, s, hq, rfl, ns⟩ := hp
  obtain ⟨⟨r2, d2⟩, q', s', hq', rfl, ns'⟩ := hp'
  have := isLMO_unique hq hq'
  subst this
  rcases spine_comparable_at q t s s' r1 r2 ns ns' with ⟨x, rfl⟩ | ⟨x, rfl⟩
  · by_cases hx : x = []
    · subst hx; simp
    · rw [← List.append_assoc] at r1
      exact absurd r1 (d2 x hx (noArg_append.1 ns).2)
  · by_cases hx : x = []
    · subst hx; simp
    · rw [← List.append_assoc] at r2
      exact absurd r2 (d1 x hx (noArg_append.1 ns').2)

/-! ## the executable selectors select what the positional definitions describe -/

theorem selCbn_app_of_not_abs {l : Term} (r : Term) (hl : ∀ b, l ≠ abs b) :
    selCbn (app l r) = (selCbn l).map (Dir.L :: ·) := by
  cases l with
  | var n => simp [selCbn]
  | abs b => exact absurd rfl (hl b)
  | app l1 l2 => simp [selCbn]

theorem selNor_app_of_not_abs {l : Term} (r : Term) (hl : ∀ b, l ≠ abs b) :
    selNor (app l r) =
      match selNor l with
      | some p => some (Dir.L :: p)
      | none => (selNor r).map (Dir.R :: ·) := by
  cases l with
  | var n => simp [selNor]
  | abs b => exact absurd rfl (hl b)
  | app l1 l2 => simp only [selNor]

theorem selCbv_app (l r : Term) :
    selCbv (app l r) =
      match selCbv l with
      | some p => some (Dir.L :: p)
      | none =>
        match selCbv r with
        | some p => some (Dir.R :: p)
        | none => if isAbs l then some [] else none := by
  rw [selCbv]

theorem selApp_app (l r : Term) :
    selApp (app l r) =
      match selApp l with
      | some p => some (Dir.L :: p)
      | none =>
        match selApp r with
        | some p => some (Dir.R :: p)
        | none => if isAbs l then some [] else none := by
  rw [selApp]

theorem selHsp_app (l r : Term) :
    selHsp (app l r) =
      match selHsp l with
      | some p => some (Dir.L :: p)
      | none => if isAbs l then some [] else none := by
  rw [selHsp]

theorem selHno_app (l r : Term) :
    selHno (app l r) =
      match selHsp l with
      | some p => some (Dir.L :: p)
      | none =>
        if isAbs l then some []
        else
          match selHno l with
          | some p => some (Dir.L :: p)
          | none => (selHno r).map (Dir.R :: ·) := by
  rw [selHno]

theorem selNor_sound (t : Term) :
    (∀ p, selNor t = some p → isLMO t p) ∧ (selNor t = none → ∀ p, ¬ redexAt t p) := by
  induction t with
  | var n => exact ⟨by simp [selNor], fun _ p => redexAt_var⟩
  | abs b ih =>
    obtain ⟨ih1, ih2⟩ := ih
    cases hb : selNor b with
    | none =>
      refine ⟨by simp [selNor, hb], fun _ p hp => ?_⟩
      obtain ⟨p', rfl, hp'⟩ := redexAt_abs_iff.1 hp
      exact ih2 hb p' hp'
    | some p' =>
      refine ⟨fun p h => ?_, by simp [selNor, hb]⟩
      simp only [selNor, hb, Option.map_some, Option.some.injEq] at h
      subst h
      exact isLMO_abs_B.2 (ih1 p' hb)
  | app l r ihl ihr =>
    by_cases hl : ∃ b, l = abs b
    · obtain ⟨b, rfl⟩ := hl
      refine ⟨fun p h => ?_, by simp [selNor]⟩
      simp only [selNor, Option.some.injEq] at h
      subst h
      exact isLMO_root b r
    · have hl' : ∀ b, l ≠ abs b := fun b hb => hl ⟨b, hb⟩
      rw [selNor_app_of_not_abs r hl']
      cases hsl : selNor l with
      | some p' =>
        refine ⟨fun p h => ?_, by simp⟩
        simp only [Option.some.injEq] at h
        subst h
        exact isLMO_app_L hl' (ihl.1 p' hsl)
      | none =>
        have nl := ihl.2 hsl
        cases hsr : selNor r with
        | some p' =>
          refine ⟨fun p h => ?_, by simp⟩
          simp only [Option.map_some, Option.some.injEq] at h
          subst h
          exact isLMO_app_R hl' nl (ihr.1 p' hsr)
        | none =>
          have nr := ihr.2 hsr
          refine ⟨by simp, fun _ p hp => ?_⟩
          cases p with
          | nil => exact hl (redexAt_app_nil.1 hp)
          | cons d p =>
            cases d with
            | L => exact nl p (redexAt_app_L.1 hp)
            | R => exact nr p (redexAt_app_R.1 hp)
            | B => exact redexAt_app_B hp

theorem selCbn_sound (t : Term) :
    (∀ p, selCbn t = some p → isLMO t p ∧ spineL p) ∧
    (selCbn t = none → ∀ p, isLMO t p → ¬ spineL p) := by
  induction t with
  | var n => exact ⟨by simp [selCbn], fun _ p hp => absurd hp.1 redexAt_var⟩
  | abs b _ =>
    refine ⟨by simp [selCbn], fun _ p hp hs => ?_⟩
    obtain ⟨p', rfl, _⟩ := redexAt_abs_iff.1 hp.1
    simpa using hs Dir.B (by simp)
  | app l r ihl _ =>
    by_cases hl : ∃ b, l = abs b
    · obtain ⟨b, rfl⟩ := hl
      refine ⟨fun p h => ?_, by simp [selCbn]⟩
      simp only [selCbn, Option.some.injEq] at h
      subst h
      exact ⟨isLMO_root b r, by simp [spineL]⟩
    · have hl' : ∀ b, l ≠ abs b := fun b hb => hl ⟨b, hb⟩
      rw [selCbn_app_of_not_abs r hl']
      cases hsl : selCbn l with
      | some p' =>
        refine ⟨fun p h => ?_, by simp⟩
        simp only [Option.map_some, Option.some.injEq] at h
        subst h
        obtain ⟨hp, hs⟩ := ihl.1 p' hsl
        refine ⟨isLMO_app_L hl' hp, ?_⟩
        intro d hd
        rcases List.mem_cons.1 hd with rfl | hd
        · rfl
        · exact hs d hd
      | none =>
        refine ⟨by simp, fun _ p hp hs => ?_⟩
        cases p with
        | nil => exact hl (redexAt_app_nil.1 hp.1)
        | cons d p =>
          have hd : d = Dir.L := hs d (by simp)
          subst hd
          exact ihl.2 hsl p (isLMO_of_app_L hp) (fun d hd => hs d (List.mem_cons_of_mem _ hd))

theorem selApp_sound (t : Term) :
    (∀ p, selApp t = some p → isLMI t p) ∧ (selApp t = none → ∀ p, ¬ redexAt t p) := by
  induction t with
  | var n => exact ⟨by simp [selApp], fun _ p => redexAt_var⟩
  | abs b ih =>
    obtain ⟨ih1, ih2⟩ := ih
    cases hb : selApp b with
    | none =>
      refine ⟨by simp [selApp, hb], fun _ p hp => ?_⟩
      obtain ⟨p', rfl, hp'⟩ := redexAt_abs_iff.1 hp
      exact ih2 hb p' hp'
    | some p' =>
      refine ⟨fun p h => ?_, by simp [selApp, hb]⟩
      simp only [selApp, hb, Option.map_some, Option.some.injEq] at h
      subst h
      exact isLMI_abs_B (ih1 p' hb)
  | app l r ihl ihr =>
    rw [selApp_app]
    cases hsl : selApp l with
    | some p' =>
      refine ⟨fun p h => ?_, by simp⟩
      simp only [Option.some.injEq] at h
      subst h
      exact isLMI_app_L (ihl.1 p' hsl)
    | none =>
      have nl := ihl.2 hsl
      cases hsr : selApp r with
      | some p' =>
        refine ⟨fun p h => ?_, by simp⟩
        simp only [Option.some.injEq] at h
        subst h
        exact isLMI_app_R nl (ihr.1 p' hsr)
      | none =>
        have nr := ihr.2 hsr
        cases ha : isAbs l with
        | true =>
          obtain ⟨b, rfl⟩ := isAbs_true ha
          refine ⟨fun p h => ?_, by simp⟩
          simp only [if_true, Option.some.injEq] at h
          subst h
          exact isLMI_app_nil nl nr
        | false =>
          refine ⟨by simp, fun _ p hp => ?_⟩
          cases p with
          | nil => obtain ⟨b, hb⟩ := redexAt_app_nil.1 hp; exact isAbs_false ha b hb
          | cons d p =>
            cases d with
            | L => exact nl p (redexAt_app_L.1 hp)
            | R => exact nr p (redexAt_app_R.1 hp)
            | B => exact redexAt_app_B hp

/-- CBV: besides `isLMIW`, the selected redex comes first among the weak redexes in the order
`cbvBefore` (inner before outer, left before right) -/
theorem selCbv_sound (t : Term) :
    (∀ p, selCbv t = some p → isLMIW t p ∧ weak p ∧
      ∀ q, redexAt t q → weak q → q = p ∨ cbvBefore p q) ∧
    (selCbv t = none → ∀ p, redexAt t p → ¬ weak p) := by
  induction t with
  | var n => exact ⟨by simp [selCbv], fun _ p hp => absurd hp redexAt_var⟩
  | abs b _ => exact ⟨by simp [selCbv], fun _ p hp => not_weak_redexAt_abs hp⟩
  | app l r ihl ihr =>
    rw [selCbv_app]
    cases hsl : selCbv l with
    | some p' =>
      refine ⟨fun p h => ?_, by simp⟩
      simp only [Option.some.injEq] at h
      subst h
      obtain ⟨h1, h2, h3⟩ := ihl.1 p' hsl
      refine ⟨isLMIW_app_L h1, weak_cons.2 ⟨by simp, h2⟩, fun q hq wq => ?_⟩
      cases q with
      | nil => exact Or.inr (Or.inr ⟨Dir.L :: p', by simp, rfl⟩)
      | cons d q =>
        cases d with
        | B => exact absurd hq redexAt_app_B
        | R => exact Or.inr (Or.inl (leftOf_cons.2 (Or.inl ⟨rfl, rfl⟩)))
        | L =>
          rcases h3 q (redexAt_app_L.1 hq) (weak_cons.1 wq).2 with rfl | h | ⟨s, hs, rfl⟩
          · exact Or.inl rfl
          · exact Or.inr (Or.inl (leftOf_cons.2 (Or.inr ⟨rfl, h⟩)))
          · exact Or.inr (Or.inr ⟨s, hs, rfl⟩)
    | none =>
      have nl := ihl.2 hsl
      cases hsr : selCbv r with
      | some p' =>
        refine ⟨fun p h => ?_, by simp⟩
        simp only [Option.some.injEq] at h
        subst h
        obtain ⟨h1, h2, h3⟩ := ihr.1 p' hsr
        refine ⟨isLMIW_app_R nl h1, weak_cons.2 ⟨by simp, h2⟩, fun q hq wq => ?_⟩
        cases q with
        | nil => exact Or.inr (Or.inr ⟨Dir.R :: p', by simp, rfl⟩)
        | cons d q =>
          cases d with
          | B => exact absurd hq redexAt_app_B
          | L => exact absurd (weak_cons.1 wq).2 (nl q (redexAt_app_L.1 hq))
          | R =>
            rcases h3 q (redexAt_app_R.1 hq) (weak_cons.1 wq).2 with rfl | h | ⟨s, hs, rfl⟩
            · exact Or.inl rfl
            · exact Or.inr (Or.inl (leftOf_cons.2 (Or.inr ⟨rfl, h⟩)))
            · exact Or.inr (Or.inr ⟨s, hs, rfl⟩)
      | none =>
        have nr := ihr.2 hsr
        cases ha : isAbs l with
        | true =>
          obtain ⟨b, rfl⟩ := isAbs_true ha
          refine ⟨fun p h => ?_, by simp⟩
          simp only [if_true, Option.some.injEq] at h
          subst h
          refine ⟨isLMIW_app_nil nr, weak_nil, fun q hq wq => ?_⟩
          cases q with
          | nil => exact Or.inl rfl
          | cons d q =>
            cases d with
            | B => exact absurd hq redexAt_app_B
            | L => exact absurd (weak_cons.1 wq).2 (nl q (redexAt_app_L.1 hq))
            | R => exact absurd (weak_cons.1 wq).2 (nr q (redexAt_app_R.1 hq))
        | false =>
          refine ⟨by simp, fun _ p hp hw => ?_⟩
          cases p with
          | nil => obtain ⟨b, hb⟩ := redexAt_app_nil.1 hp; exact isAbs_false ha b hb
          | cons d p =>
            cases d with
            | L => exact nl p (redexAt_app_L.1 hp) (weak_cons.1 hw).2
            | R => exact nr p (redexAt_app_R.1 hp) (weak_cons.1 hw).2
            | B => exact redexAt_app_B hp

theorem selHsp_sound (t : Term) :
    (∀ p, selHsp t = some p → isHSP t p) ∧ (selHsp t = none → ∀ q, noArg q → ¬ redexAt t q) := by
  induction t with
  | var n => exact ⟨by simp [selHsp], fun _ q _ => redexAt_var⟩
  | abs b ih =>
    obtain ⟨ih1, ih2⟩ := ih
    cases hb : selHsp b with
    | none =>
      refine ⟨by simp [selHsp, hb], fun _ q nq hq => ?_⟩
      obtain ⟨q', rfl, hq'⟩ := redexAt_abs_iff.1 hq
      exact ih2 hb q' (noArg_cons.1 nq).2 hq'
    | some p' =>
      refine ⟨fun p h => ?_, by simp [selHsp, hb]⟩
      simp only [selHsp, hb, Option.map_some, Option.some.injEq] at h
      subst h
      obtain ⟨np, hs⟩ := ih1 p' hb
      exact ⟨noArg_cons.2 ⟨by simp, np⟩, spineInnermost_abs_B.2 hs⟩
  | app l r ihl _ =>
    rw [selHsp_app]
    cases hl : selHsp l with
    | some p' =>
      refine ⟨fun p h => ?_, by simp⟩
      simp only [Option.some.injEq] at h
      subst h
      obtain ⟨np, hs⟩ := ihl.1 p' hl
      exact ⟨noArg_cons.2 ⟨by simp, np⟩, spineInnermost_app_L.2 hs⟩
    | none =>
      have nl := ihl.2 hl
      cases ha : isAbs l with
      | true =>
        refine ⟨fun p h => ?_, by simp⟩
        simp only [if_true, Option.some.injEq] at h
        subst h
        exact ⟨noArg_nil, spineInnermost_app_nil.2 ⟨isAbs_true ha, nl⟩⟩
      | false =>
        refine ⟨by simp, fun _ q nq hq => ?_⟩
        cases q with
        | nil => obtain ⟨b, hb⟩ := redexAt_app_nil.1 hq; exact isAbs_false ha b hb
        | cons d q =>
          cases d with
          | L => exact nl q (noArg_cons.1 nq).2 (redexAt_app_L.1 hq)
          | R => exact absurd rfl (noArg_cons.1 nq).1
          | B => exact redexAt_app_B hq

theorem isHNO_abs_B {b : Term} {p : Pos} (h : isHNO b p) : isHNO (abs b) (Dir.B :: p) := by
  obtain ⟨hs, q, s, hq, rfl, ns⟩ := h
  exact ⟨spineInnermost_abs_B.2 hs, Dir.B :: q, s, isLMO_abs_B.2 hq, rfl, ns⟩

theorem selHno_sound (t : Term) :
    (∀ p, selHno t = some p → isHNO t p) ∧ (selHno t = none → ∀ q, ¬ redexAt t q) := by
  induction t with
  | var n => exact ⟨by simp [selHno], fun _ q => redexAt_var⟩
  | abs b ih =>
    obtain ⟨ih1, ih2⟩ := ih
    cases hb : selHno b with
    | none =>
      refine ⟨by simp [selHno, hb], fun _ q hq => ?_⟩
      obtain ⟨q', rfl, hq'⟩ := redexAt_abs_iff.1 hq
      exact ih2 hb q' hq'
    | some p' =>
      refine ⟨fun p h => ?_, by simp [selHno, hb]⟩
      simp only [selHno, hb, Option.map_some, Option.some.injEq] at h
      subst h
      exact isHNO_abs_B (ih1 p' hb)
  | app l r ihl ihr =>
    have hsp := selHsp_sound (app l r)
    rw [selHsp_app] at hsp
    rw [selHno_app]
    cases hl : selHsp l with
    | some p' =>
      rw [hl] at hsp
      refine ⟨fun p h => ?_, by simp⟩
      simp only [Option.some.injEq] at h
      subst h
      exact isHSP_isHNO (hsp.1 _ rfl)
    | none =>
      rw [hl] at hsp
      cases ha : isAbs l with
      | true =>
        rw [ha] at hsp
        refine ⟨fun p h => ?_, by simp⟩
        simp only [if_true, Option.some.injEq] at h
        subst h
        exact isHSP_isHNO (hsp.1 _ rfl)
      | false =>
        have hl' := isAbs_false ha
        simp only [Bool.false_eq_true, if_false]
        cases hsl : selHno l with
        | some p' =>
          refine ⟨fun p h => ?_, by simp⟩
          simp only [Option.some.injEq] at h
          subst h
          obtain ⟨hs, q, s, hq, rfl, ns⟩ := ihl.1 p' hsl
          exact ⟨spineInnermost_app_L.2 hs, Dir.L :: q, s, isLMO_app_L hl' hq, rfl, ns⟩
        | none =>
          have nl := ihl.2 hsl
          cases hsr : selHno r with
          | some p' =>
            refine ⟨fun p h => ?_, by simp⟩
            simp only [Option.map_some, Option.some.injEq] at h
            subst h
            obtain ⟨hs, q, s, hq, rfl, ns⟩ := ihr.1 p' hsr
            exact ⟨spineInnermost_app_R.2 hs, Dir.R :: q, s, isLMO_app_R hl' nl hq, rfl, ns⟩
          | none =>
            have nr := ihr.2 hsr
            refine ⟨by simp, fun _ p hp => ?_⟩
            cases p with
            | nil => obtain ⟨b, hb⟩ := redexAt_app_nil.1 hp; exact hl' b hb
            | cons d p =>
              cases d with
              | L => exact nl p (redexAt_app_L.1 hp)
              | R => exact nr p (redexAt_app_R.1 hp)
              | B => exact redexAt_app_B hp

/-! ## each strategy step contracts the redex at the selected position -/

theorem stepNor_eq_sel (t : Term) : stepNor t = (selNor t).map (contractAt t) := by
  induction t with
  | var n => rfl
  | abs b ih =>
    simp only [stepNor, selNor, ih]
    cases selNor b <;> simp [contractAt_abs_B]
  | app l r ihl ihr =>
    by_cases hl : ∃ b, l = abs b
    · obtain ⟨b, rfl⟩ := hl
      simp [stepNor, selNor, contractAt_root, contract_eq_substTop]
    · have hl' : ∀ b, l ≠ abs b := fun b hb => hl ⟨b, hb⟩
      rw [stepNor_app_of_not_abs r hl', selNor_app_of_not_abs r hl', ihl, ihr]
      cases selNor l with
      | some p => simp [contractAt_app_L]
      | none => cases selNor r <;> simp [contractAt_app_R]

theorem stepCbn_eq_sel (t : Term) : stepCbn t = (selCbn t).map (contractAt t) := by
  induction t with
  | var n => rfl
  | abs b _ => rfl
  | app l r ihl _ =>
    by_cases hl : ∃ b, l = abs b
    · obtain ⟨b, rfl⟩ := hl
      simp [stepCbn, selCbn, contractAt_root, contract_eq_substTop]
    · have hl' : ∀ b, l ≠ abs b := fun b hb => hl ⟨b, hb⟩
      rw [stepCbn_app_of_not_abs r hl', selCbn_app_of_not_abs r hl', ihl]
      cases selCbn l <;> simp [contractAt_app_L]

theorem stepApp_eq_sel (t : Term) : stepApp t = (selApp t).map (contractAt t) := by
  induction t with
  | var n => rfl
  | abs b ih =>
    simp only [stepApp, selApp, ih]
    cases selApp b <;> simp [contractAt_abs_B]
  | app l r ihl ihr =>
    rw [selApp_app, stepApp.eq_def]
    simp only
    rw [ihl, ihr]
    cases selApp l with
    | some p => simp [contractAt_app_L]
    | none =>
      cases selApp r with
      | some p => simp [contractAt_app_R]
      | none => cases l <;> simp [isAbs, contractAt_root, contract_eq_substTop]

theorem stepCbv_eq_sel (t : Term) : stepCbv t = (selCbv t).map (contractAt t) := by
  induction t with
  | var n => rfl
  | abs b _ => rfl
  | app l r ihl ihr =>
    rw [selCbv_app, stepCbv.eq_def]
    simp only
    rw [ihl, ihr]
    cases selCbv l with
    | some p => simp [contractAt_app_L]
    | none =>
      cases selCbv r with
      | some p => simp [contractAt_app_R]
      | none => cases l <;> simp [isAbs, contractAt_root, contract_eq_substTop]

theorem stepHsp_eq_sel (t : Term) : stepHsp t = (selHsp t).map (contractAt t) := by
  induction t with
  | var n => rfl
  | abs b ih =>
    simp only [stepHsp, selHsp, ih]
    cases selHsp b <;> simp [contractAt_abs_B]
  | app l r ihl _ =>
    rw [selHsp_app, stepHsp.eq_def]
    simp only
    rw [ihl]
    cases selHsp l with
    | some p => simp [contractAt_app_L]
    | none => cases l <;> simp [isAbs, contractAt_root, contract_eq_substTop]

theorem stepHno_eq_sel (t : Term) : stepHno t = (selHno t).map (contractAt t) := by
  induction t with
  | var n => rfl
  | abs b ih =>
    simp only [stepHno, selHno, ih]
    cases selHno b <;> simp [contractAt_abs_B]
  | app l r ihl ihr =>
    rw [selHno_app, stepHno.eq_def]
    simp only
    rw [stepHsp_eq_sel l, ihl, ihr]
    cases selHsp l with
    | some p => simp [contractAt_app_L]
    | none =>
      cases l with
      | abs b => simp [isAbs, contractAt_root, contract_eq_substTop]
      | var n => simp [isAbs, selHno]; cases selHno r <;> simp [contractAt_app_R]
      | app l1 l2 =>
        simp only [isAbs, Bool.false_eq_true, if_false, Option.map_none]
        cases selHno (app l1 l2) with
        | some p => simp [contractAt_app_L]
        | none => cases selHno r <;> simp [contractAt_app_R]

end Spec
end LC
