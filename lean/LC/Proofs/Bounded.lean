/-
The representation boundary of De Bruijn indices (DESIGN §9, repair F7), part 1: substitution.

In the crate indices are `usize`.  `update_free_variables` performs the only index addition of the substitution
machinery, `*i = i.checked_add(added_depth).expect("De Bruijn index overflow")`, and it is performed only for `*i > own_depth`.
The model (`Model/Subst.lean`) works on unbounded naturals.  Here, for a bound `M` (think `M = usize::MAX = 2^64 - 1`),
the CHECKED operations are defined by mirroring the Rust text, `none` standing for the panic, and shown to return
`guardIdx M (unbounded result)`: they refuse exactly when the unbounded result contains an index above `M`, and
return the unbounded result otherwise.

The other two arithmetic operations of `_apply` / `update_free_variables`:
* `*i - 1` is only evaluated for `*i > depth` (`Ordering::Greater`), so it cannot underflow, and `depth - 1` (at an
  occurrence `*i == depth`) cannot underflow because `apply` enters `_apply` with depth 0 ON THE ABSTRACTION, whose arm
  goes to depth 1 before any variable is met (the model starts at depth 1 on the body): `depth ≥ 1` at every variable.
* `depth + 1` and `own_depth + 1` are plain `usize` additions (debug: panic "attempt to add with overflow", release:
  wrap).  They count the binders passed on the way down, so they are bounded by the number of nested `Abs` nodes of the
  receiver / of the argument plus one; a `Term` with `usize::MAX` nested `Abs` nodes needs `usize::MAX` heap boxes of
  16 bytes each, more than the address space: for `M = usize::MAX` these additions cannot overflow on any term that
  exists.  The main functions below therefore keep `depth` and `own` in `Nat`.  For an arbitrary (small) `M` the remark
  is not available, so the STRICT variants `shiftFVStrict`, `applyAuxStrict` also check these two additions, and
  `shiftFVStrict_eq` / `applyAuxStrict_eq` show that they coincide with the main ones as soon as the binder nesting
  (`maxDepth`) of the terms stays within `M` — the formal content of "cannot overflow".
-/
import LC.Spec.Strategy

namespace LC
namespace Term

/-! ### the checked operations -/

/-- `update_free_variables(added_depth, own_depth)` with the `checked_add` of F7: `none` is the panic
"De Bruijn index overflow".  The addition is only made for `i > own`; the traversal is lhs first, then rhs, and stops
at the first failure. -/
def shiftFVChk (M added own : Nat) : Term → Option Term
  | var i => if i > own then (if i + added ≤ M then some (var (i + added)) else none) else some (var i)
  | abs b => (shiftFVChk M added (own + 1) b).map abs
  | app l r =>
    match shiftFVChk M added own l with
    | none => none
    | some l' => (shiftFVChk M added own r).map (app l')

/-- `_apply(rhs, depth)` with the checked `update_free_variables` on every substituted copy -/
def applyAuxChk (M : Nat) (rhs : Term) (depth : Nat) : Term → Option Term
  | var i =>
    if i = depth then shiftFVChk M (depth - 1) 0 rhs
    else if i > depth then some (var (i - 1))
    else some (var i)
  | abs b => (applyAuxChk M rhs (depth + 1) b).map abs
  | app l r =>
    match applyAuxChk M rhs depth l with
    | none => none
    | some l' => (applyAuxChk M rhs depth r).map (app l')

/-- what `eval` leaves in place of `(λb) a`, or the panic -/
def contractChk (M : Nat) (b a : Term) : Option Term := applyAuxChk M a 1 b

/-- `apply` on `usize`-like indices: `none` = panic, `some (.error NotAbs)` = refused without touching anything
(`unabs_ref()?` comes first), `some (.ok r)` = the receiver after the call -/
def applyChk (M : Nat) (t rhs : Term) : Option (Except TermError Term) :=
  match t with
  | abs b => (applyAuxChk M rhs 1 b).map .ok
  | _ => some (.error .NotAbs)

/-- decidable equality of the answers of `apply` (core has no instance for `Except`); used by the `decide` examples -/
instance instDecEqExceptBounded : DecidableEq (Except TermError Term)
  | .ok a, .ok b => if h : a = b then isTrue (by rw [h]) else isFalse (by intro e; cases e; exact h rfl)
  | .error a, .error b => if h : a = b then isTrue (by rw [h]) else isFalse (by intro e; cases e; exact h rfl)
  | .ok _, .error _ => isFalse (by intro e; cases e)
  | .error _, .ok _ => isFalse (by intro e; cases e)

/-- "representable, else refuse" -/
def guardIdx (M : Nat) (t : Term) : Option Term := if maxIndex t ≤ M then some t else none

/-! ### `guardIdx` -/

theorem guardIdx_eq_some {M : Nat} {t r : Term} : guardIdx M t = some r ↔ (r = t ∧ maxIndex t ≤ M) := by
  unfold guardIdx
  by_cases h : maxIndex t ≤ M
  · simp only [h, if_true, Option.some.injEq, and_true]; exact eq_comm
  · simp [h]

theorem guardIdx_eq_none {M : Nat} {t : Term} : guardIdx M t = none ↔ M < maxIndex t := by
  unfold guardIdx
  by_cases h : maxIndex t ≤ M
  · simp only [h, if_true]; constructor
    · intro h'; cases h'
    · intro h'; omega
  · simp only [h, if_false, true_iff]; omega

theorem guardIdx_of_le {M : Nat} {t : Term} (h : maxIndex t ≤ M) : guardIdx M t = some t := by
  simp [guardIdx, h]

theorem guardIdx_abs (M : Nat) (b : Term) : guardIdx M (abs b) = (guardIdx M b).map abs := by
  unfold guardIdx
  simp only [maxIndex]
  by_cases h : maxIndex b ≤ M <;> simp [h]

theorem guardIdx_app (M : Nat) (l r : Term) :
    guardIdx M (app l r) =
      match guardIdx M l with
      | none => none
      | some l' => (guardIdx M r).map (app l') := by
  unfold guardIdx
  simp only [maxIndex]
  by_cases h1 : maxIndex l ≤ M
  · by_cases h2 : maxIndex r ≤ M
    · have : max (maxIndex l) (maxIndex r) ≤ M := by omega
      simp [h1, h2, this]
    · have : ¬ max (maxIndex l) (maxIndex r) ≤ M := by omega
      simp [h1, h2, this]
  · have : ¬ max (maxIndex l) (maxIndex r) ≤ M := by omega
    simp [h1, this]

/-! ### the checked operations are the guarded unbounded ones -/

/-- checked `update_free_variables` = unbounded one, guarded: every leaf the Rust code adds to is a leaf of the
result, so the first failing addition exists exactly when the result has an index above `M` -/
theorem shiftFVChk_eq (M k : Nat) (t : Term) (own : Nat) (ht : maxIndex t ≤ M) :
    shiftFVChk M k own t = guardIdx M (shiftFV k own t) := by
  induction t generalizing own with
  | var i =>
    simp only [maxIndex] at ht
    by_cases h : i > own
    · simp [shiftFVChk, shiftFV, guardIdx, maxIndex, h]
    · simp [shiftFVChk, shiftFV, guardIdx, maxIndex, h, ht]
  | abs b ih =>
    simp only [maxIndex] at ht
    simp only [shiftFVChk, shiftFV, guardIdx_abs, ih (own + 1) ht]
  | app l r ihl ihr =>
    simp only [maxIndex] at ht
    simp only [shiftFVChk, shiftFV, guardIdx_app, ihl own (by omega), ihr own (by omega)]

/-- checked `_apply` = unbounded one, guarded.  No assumption on `depth`. -/
theorem applyAuxChk_eq (M : Nat) (a : Term) (ha : maxIndex a ≤ M) (b : Term) (d : Nat) (hb : maxIndex b ≤ M) :
    applyAuxChk M a d b = guardIdx M (applyAux a d b) := by
  induction b generalizing d with
  | var i =>
    simp only [maxIndex] at hb
    by_cases h1 : i = d
    · simp only [applyAuxChk, applyAux, h1, if_true]
      exact shiftFVChk_eq M (d - 1) a 0 ha
    · by_cases h2 : i > d
      · have : i - 1 ≤ M := by omega
        simp [applyAuxChk, applyAux, h1, h2, guardIdx, maxIndex, this]
      · simp [applyAuxChk, applyAux, h1, h2, guardIdx, maxIndex, hb]
  | abs b ih =>
    simp only [maxIndex] at hb
    simp only [applyAuxChk, applyAux, guardIdx_abs, ih (d + 1) hb]
  | app l r ihl ihr =>
    simp only [maxIndex] at hb
    simp only [applyAuxChk, applyAux, guardIdx_app, ihl d (by omega), ihr d (by omega)]

theorem contractChk_eq (M : Nat) (b a : Term) (hb : maxIndex b ≤ M) (ha : maxIndex a ≤ M) :
    contractChk M b a = guardIdx M (contract b a) :=
  applyAuxChk_eq M a ha b 1 hb

/-- unconditionally (no assumption on the indices of the inputs): whatever the checked functions return is the
unbounded result -/
theorem shiftFVChk_some (M k : Nat) (t : Term) (own : Nat) (r : Term) (h : shiftFVChk M k own t = some r) :
    r = shiftFV k own t := by
  induction t generalizing own r with
  | var i =>
    simp only [shiftFVChk] at h
    simp only [shiftFV]
    by_cases h1 : i > own
    · by_cases h2 : i + k ≤ M
      · simp only [h1, h2, if_true, Option.some.injEq] at h; rw [if_pos h1]; exact h.symm
      · simp [h1, h2] at h
    · simp only [h1, if_false, Option.some.injEq] at h; rw [if_neg h1]; exact h.symm
  | abs b ih =>
    simp only [shiftFVChk, Option.map_eq_some_iff] at h
    obtain ⟨x, hx, rfl⟩ := h
    simp only [shiftFV, ih _ _ hx]
  | app l r' ihl ihr =>
    simp only [shiftFVChk] at h
    cases hl : shiftFVChk M k own l with
    | none => rw [hl] at h; cases h
    | some l' =>
      rw [hl] at h
      simp only [Option.map_eq_some_iff] at h
      obtain ⟨x, hx, rfl⟩ := h
      simp only [shiftFV, ihl _ _ hl, ihr _ _ hx]

theorem applyAuxChk_some (M : Nat) (a b : Term) (d : Nat) (r : Term) (h : applyAuxChk M a d b = some r) :
    r = applyAux a d b := by
  induction b generalizing d r with
  | var i =>
    simp only [applyAuxChk] at h
    simp only [applyAux]
    by_cases h1 : i = d
    · simp only [h1, if_true] at h ⊢
      exact shiftFVChk_some M _ a 0 r h
    · by_cases h2 : i > d
      · simp only [h1, h2, if_false, if_true, Option.some.injEq] at h ⊢; exact h.symm
      · simp only [h1, h2, if_false, Option.some.injEq] at h ⊢; exact h.symm
  | abs b ih =>
    simp only [applyAuxChk, Option.map_eq_some_iff] at h
    obtain ⟨x, hx, rfl⟩ := h
    simp only [applyAux, ih _ _ hx]
  | app l r' ihl ihr =>
    simp only [applyAuxChk] at h
    cases hl : applyAuxChk M a d l with
    | none => rw [hl] at h; cases h
    | some l' =>
      rw [hl] at h
      simp only [Option.map_eq_some_iff] at h
      obtain ⟨x, hx, rfl⟩ := h
      simp only [applyAux, ihl _ _ hl, ihr _ _ hx]

theorem contractChk_some (M : Nat) (b a r : Term) (h : contractChk M b a = some r) : r = contract b a :=
  applyAuxChk_some M a b 1 r h

/-! ### which occurrence panics first

`shiftFVChk` / `applyAuxChk` stop at the FIRST failing addition of the Rust traversal: pre-order, operator before
operand.  `shiftFVPanic M added own t` is the index `i` read at that occurrence (the leftmost leaf `i > own` of `t` with
`M < i + added`); `applyAuxPanic` is the pair (depth of the occurrence of the bound variable in the body whose copy
fails, index read in the argument): leftmost occurrence in the body, then leftmost leaf in the copy.  The checked
functions return `none` exactly when there is such an occurrence; which one it is has no influence on whether the
call refuses. -/

/-- the index at which `update_free_variables` panics first, if it does -/
def shiftFVPanic (M added own : Nat) : Term → Option Nat
  | var i => if i > own ∧ M < i + added then some i else none
  | abs b => shiftFVPanic M added (own + 1) b
  | app l r =>
    match shiftFVPanic M added own l with
    | some i => some i
    | none => shiftFVPanic M added own r

/-- (binder depth of the substituted occurrence, argument index) at which `_apply` panics first, if it does -/
def applyAuxPanic (M : Nat) (rhs : Term) (depth : Nat) : Term → Option (Nat × Nat)
  | var i => if i = depth then (shiftFVPanic M (depth - 1) 0 rhs).map (fun j => (depth, j)) else none
  | abs b => applyAuxPanic M rhs (depth + 1) b
  | app l r =>
    match applyAuxPanic M rhs depth l with
    | some p => some p
    | none => applyAuxPanic M rhs depth r

theorem shiftFVChk_none_iff_panic (M k : Nat) (t : Term) (own : Nat) :
    shiftFVChk M k own t = none ↔ (shiftFVPanic M k own t).isSome = true := by
  induction t generalizing own with
  | var i =>
    simp only [shiftFVChk, shiftFVPanic]
    by_cases h : i > own
    · by_cases h2 : i + k ≤ M
      · have : ¬ M < i + k := by omega
        simp [h, h2, this]
      · have : M < i + k := by omega
        simp [h, h2, this]
    · simp [h]
  | abs b ih =>
    simp only [shiftFVChk, shiftFVPanic, Option.map_eq_none_iff]
    exact ih (own + 1)
  | app l r ihl ihr =>
    simp only [shiftFVChk, shiftFVPanic]
    cases hl : shiftFVChk M k own l with
    | none =>
      have := (ihl own).1 hl
      cases hp : shiftFVPanic M k own l with
      | none => rw [hp] at this; cases this
      | some i => simp
    | some l' =>
      cases hp : shiftFVPanic M k own l with
      | some i =>
        have := (ihl own).2 (by rw [hp]; rfl)
        rw [hl] at this; cases this
      | none =>
        simp only [Option.map_eq_none_iff]
        exact ihr own

theorem applyAuxChk_none_iff_panic (M : Nat) (a b : Term) (d : Nat) :
    applyAuxChk M a d b = none ↔ (applyAuxPanic M a d b).isSome = true := by
  induction b generalizing d with
  | var i =>
    simp only [applyAuxChk, applyAuxPanic]
    by_cases h1 : i = d
    · simp only [h1, if_true, Option.isSome_map]
      exact shiftFVChk_none_iff_panic M (d - 1) a 0
    · by_cases h2 : i > d <;> simp [h1, h2]
  | abs b ih =>
    simp only [applyAuxChk, applyAuxPanic, Option.map_eq_none_iff]
    exact ih (d + 1)
  | app l r ihl ihr =>
    simp only [applyAuxChk, applyAuxPanic]
    cases hl : applyAuxChk M a d l with
    | none =>
      have := (ihl d).1 hl
      cases hp : applyAuxPanic M a d l with
      | none => rw [hp] at this; cases this
      | some i => simp
    | some l' =>
      cases hp : applyAuxPanic M a d l with
      | some i =>
        have := (ihl d).2 (by rw [hp]; rfl)
        rw [hl] at this; cases this
      | none =>
        simp only [Option.map_eq_none_iff]
        exact ihr d

/-! ### the strict variants: `own_depth + 1` and `depth + 1` checked as well -/

/-- as `shiftFVChk`, and `own_depth + 1` is refused too when it exceeds `M` -/
def shiftFVStrict (M added own : Nat) : Term → Option Term
  | var i => if i > own then (if i + added ≤ M then some (var (i + added)) else none) else some (var i)
  | abs b => if own + 1 ≤ M then (shiftFVStrict M added (own + 1) b).map abs else none
  | app l r =>
    match shiftFVStrict M added own l with
    | none => none
    | some l' => (shiftFVStrict M added own r).map (app l')

/-- as `applyAuxChk`, and `depth + 1` is refused too when it exceeds `M` -/
def applyAuxStrict (M : Nat) (rhs : Term) (depth : Nat) : Term → Option Term
  | var i =>
    if i = depth then shiftFVStrict M (depth - 1) 0 rhs
    else if i > depth then some (var (i - 1))
    else some (var i)
  | abs b => if depth + 1 ≤ M then (applyAuxStrict M rhs (depth + 1) b).map abs else none
  | app l r =>
    match applyAuxStrict M rhs depth l with
    | none => none
    | some l' => (applyAuxStrict M rhs depth r).map (app l')

/-- the binder counter cannot overflow on a term whose binder nesting stays within `M` -/
theorem shiftFVStrict_eq (M k : Nat) (t : Term) (own : Nat) (h : own + maxDepth t ≤ M) :
    shiftFVStrict M k own t = shiftFVChk M k own t := by
  induction t generalizing own with
  | var i => rfl
  | abs b ih =>
    simp only [maxDepth] at h
    have h1 : own + 1 ≤ M := by omega
    simp only [shiftFVStrict, shiftFVChk, h1, if_true, ih (own + 1) (by omega)]
  | app l r ihl ihr =>
    simp only [maxDepth] at h
    simp only [shiftFVStrict, shiftFVChk, ihl own (by omega), ihr own (by omega)]

theorem applyAuxStrict_eq (M : Nat) (a : Term) (ha : maxDepth a ≤ M) (b : Term) (d : Nat)
    (h : d + maxDepth b ≤ M) : applyAuxStrict M a d b = applyAuxChk M a d b := by
  induction b generalizing d with
  | var i =>
    simp only [applyAuxStrict, applyAuxChk]
    rw [shiftFVStrict_eq M (d - 1) a 0 (by omega)]
  | abs b ih =>
    simp only [maxDepth] at h
    have h1 : d + 1 ≤ M := by omega
    simp only [applyAuxStrict, applyAuxChk, h1, if_true, ih (d + 1) (by omega)]
  | app l r ihl ihr =>
    simp only [maxDepth] at h
    simp only [applyAuxStrict, applyAuxChk, ihl d (by omega), ihr d (by omega)]

end Term
end LC
