/-
The representation boundary of De Bruijn indices, part 8: `ChkRel` for the checked HAP traversal, and all seven orders
(see `Proofs/BoundedTraversal.lean`).
-/
import LC.Proofs.BoundedTraversalNor
import LC.Proofs.BoundedTraversalHno
import LC.Proofs.BoundedTraversalApp

namespace LC
namespace Term

theorem betaHapChk_rel (M L : Nat) : ∀ fuel t c, maxIndex t ≤ M → (L = 0 ∨ c ≤ L) →
    ChkRel M c (betaHapChk M L fuel t c) (betaHap L fuel t c) := by
  intro fuel
  induction fuel with
  | zero => intro t c _ _; rfl
  | succ fuel ih =>
    intro t c ht hc
    unfold betaHapChk betaHap
    by_cases hg : gate L c = true
    · simp only [hg, if_true]; exact ⟨rfl, ht⟩
    · simp only [hg, Bool.false_eq_true, if_false]
      cases t with
      | var i => exact ⟨rfl, ht⟩
      | abs b =>
        simp only [maxIndex] at ht
        have ihb := ih b c ht hc
        simp only []
        cases hy : betaHap L fuel b c with
        | none =>
          rw [hy] at ihb
          cases hx : betaHapChk M L fuel b c with
          | fuel => rfl
          | panic => intro t' c' h; cases h
          | ret b' c1 => rw [hx] at ihb; cases ihb.1
        | some p =>
          obtain ⟨b', c1⟩ := p
          rw [hy] at ihb
          simp only []
          cases hx : betaHapChk M L fuel b c with
          | fuel => rw [hx] at ihb; cases ihb
          | panic =>
            rw [hx] at ihb
            apply ChkRel.panic_of_sub (ihb b' c1 rfl)
            intro t' c' hz
            cases hz
            exact ⟨Nat.le_refl _, fun _ => by simp only [maxIndex]; omega⟩
          | ret b2 c2 =>
            rw [hx] at ihb
            obtain ⟨e, hm⟩ := ihb
            cases e
            exact ⟨rfl, by simpa only [maxIndex] using hm⟩
      | app l r =>
        simp only [maxIndex] at ht
        have hl : maxIndex l ≤ M := by omega
        have hr : maxIndex r ≤ M := by omega
        have ihl := betaCbvChk_rel M L fuel l c hl hc
        simp only []
        cases hy : betaCbv L fuel l c with
        | none =>
          rw [hy] at ihl
          cases hx : betaCbvChk M L fuel l c with
          | fuel => rfl
          | panic => intro t' c' h; cases h
          | ret l' c1 => rw [hx] at ihl; cases ihl.1
        | some p =>
          obtain ⟨l', c1⟩ := p
          rw [hy] at ihl
          obtain ⟨u1, u2, u3⟩ := betaCbv_facts hy hc
          simp only []
          -- what the last phase of the unbounded call keeps of `l'` and of `r'`
          have keep2 : ∀ r' c2, (L = 0 ∨ c2 ≤ L) → ∀ t' c',
              (if (isAbs l' && budget L c2) = true then
                match l' with
                | abs b => betaHap L fuel (contract b r') (c2 + 1)
                | _ => none
              else
                match betaHap L fuel l' c2 with
                | none => none
                | some (l2, c3) => some (app l2 r', c3)) = some (t', c') →
              c2 ≤ c' ∧ (c' = c2 → maxIndex l' ≤ maxIndex t' ∧ maxIndex r' ≤ maxIndex t') := by
            intro r' c2 hc2 t' c' hz
            by_cases hred : (isAbs l' && budget L c2) = true
            · simp only [hred, if_true] at hz
              simp only [Bool.and_eq_true] at hred
              cases l' with
              | abs b =>
                simp only [] at hz
                obtain ⟨v1, _, _⟩ := betaHap_facts hz (budget_succ_ok hred.2)
                exact ⟨by omega, fun e => by omega⟩
              | var i => cases hz
              | app a b => cases hz
            · simp only [hred, Bool.false_eq_true, if_false] at hz
              cases h3 : betaHap L fuel l' c2 with
              | none => rw [h3] at hz; cases hz
              | some p3 =>
                obtain ⟨l2, c3⟩ := p3
                rw [h3] at hz
                cases hz
                obtain ⟨w1, w2, _⟩ := betaHap_facts h3 hc2
                refine ⟨w1, fun e => ?_⟩
                rw [w2 e]
                simp only [maxIndex]; omega
          cases hx : betaCbvChk M L fuel l c with
          | fuel => rw [hx] at ihl; cases ihl
          | panic =>
            rw [hx] at ihl
            apply ChkRel.panic_of_sub (ihl l' c1 rfl)
            intro t' c' hz
            cases h2 : betaHap L fuel r c1 with
            | none => rw [h2] at hz; cases hz
            | some p2 =>
              obtain ⟨r', c2⟩ := p2
              rw [h2] at hz
              simp only [] at hz
              obtain ⟨v1, _, v3⟩ := betaHap_facts h2 u3
              obtain ⟨k1, k2⟩ := keep2 r' c2 v3 t' c' hz
              exact ⟨by omega, fun e => (k2 (by omega)).1⟩
          | ret l0 c0 =>
            rw [hx] at ihl
            obtain ⟨e, hm⟩ := ihl
            cases e
            apply ChkRel.weaken u1
            simp only []
            have ih2 := ih r c1 hr u3
            cases h2 : betaHap L fuel r c1 with
            | none =>
              rw [h2] at ih2
              cases hx2 : betaHapChk M L fuel r c1 with
              | fuel => rfl
              | panic => intro t' c' h; cases h
              | ret a b => rw [hx2] at ih2; cases ih2.1
            | some p2 =>
              obtain ⟨r', c2⟩ := p2
              rw [h2] at ih2
              obtain ⟨v1, v2, v3⟩ := betaHap_facts h2 u3
              simp only []
              cases hx2 : betaHapChk M L fuel r c1 with
              | fuel => rw [hx2] at ih2; cases ih2
              | panic =>
                rw [hx2] at ih2
                apply ChkRel.panic_of_sub (ih2 r' c2 rfl)
                intro t' c' hz
                obtain ⟨k1, k2⟩ := keep2 r' c2 v3 t' c' hz
                exact ⟨k1, fun e => (k2 e).2⟩
              | ret a b =>
                rw [hx2] at ih2
                obtain ⟨e, hm2⟩ := ih2
                cases e
                apply ChkRel.weaken v1
                simp only []
                by_cases hred : (isAbs l' && budget L c2) = true
                · simp only [hred, if_true]
                  simp only [Bool.and_eq_true] at hred
                  cases l' with
                  | var i => rfl
                  | app a b => rfl
                  | abs b =>
                    simp only []
                    simp only [maxIndex] at hm
                    cases hk : contractChk M b r' with
                    | none =>
                      intro t' c' hz
                      obtain ⟨w1, w2, _⟩ := betaHap_facts hz (budget_succ_ok hred.2)
                      refine ⟨by omega, fun e => ?_⟩
                      rw [w2 e]
                      exact contractChk_none_lt hm hm2 hk
                    | some u =>
                      obtain ⟨rfl, hu⟩ := contractChk_some_le hm hm2 hk
                      exact ChkRel.weaken (by omega) (ih _ (c2 + 1) hu (budget_succ_ok hred.2))
                · simp only [hred, Bool.false_eq_true, if_false]
                  have ih3 := ih l' c2 hm v3
                  cases h3 : betaHap L fuel l' c2 with
                  | none =>
                    rw [h3] at ih3
                    cases hx3 : betaHapChk M L fuel l' c2 with
                    | fuel => rfl
                    | panic => intro t' c' h; cases h
                    | ret a b => rw [hx3] at ih3; cases ih3.1
                  | some p3 =>
                    obtain ⟨l2, c3⟩ := p3
                    rw [h3] at ih3
                    simp only []
                    cases hx3 : betaHapChk M L fuel l' c2 with
                    | fuel => rw [hx3] at ih3; cases ih3
                    | panic =>
                      rw [hx3] at ih3
                      apply ChkRel.panic_of_sub (ih3 l2 c3 rfl)
                      intro t' c' hz
                      cases hz
                      exact ⟨Nat.le_refl _, fun _ => by simp only [maxIndex]; omega⟩
                    | ret a b =>
                      rw [hx3] at ih3
                      obtain ⟨e, hm3⟩ := ih3
                      cases e
                      exact ⟨rfl, by simp only [maxIndex]; omega⟩

/-- all seven orders: the checked traversal and the unbounded traversal of the same call are related by `ChkRel` -/
theorem betaOrdChk_rel (M : Nat) (o : Order) (L fuel : Nat) (t : Term) (c : Nat) (ht : maxIndex t ≤ M)
    (hc : L = 0 ∨ c ≤ L) : ChkRel M c (betaOrdChk M o L fuel t c) (betaOrd o L fuel t c) := by
  cases o <;> simp only [betaOrdChk, betaOrd]
  · exact betaNorChk_rel M L fuel t c ht hc
  · exact betaCbnChk_rel M L fuel t c ht hc
  · exact betaHspChk_rel M L fuel t c ht hc
  · exact betaHnoChk_rel M L fuel t c ht hc
  · exact betaAppChk_rel M L fuel t c ht hc
  · exact betaCbvChk_rel M L fuel t c ht hc
  · exact betaHapChk_rel M L fuel t c ht hc

theorem reduceChk_rel (M : Nat) (o : Order) (L fuel : Nat) (t : Term) (ht : maxIndex t ≤ M) :
    ChkRel M 0 (reduceChk M o L fuel t) (reduce o L fuel t) :=
  betaOrdChk_rel M o L fuel t 0 ht (by omega)

end Term
end LC
