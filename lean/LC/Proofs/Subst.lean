/-
Substitution calculus for the code-shaped functions `shiftFV` (= `update_free_variables`)
and `applyAux` (= `_apply`).  DESIGN §6.1.
-/
import LC.Model.Subst

namespace LC
namespace Term

theorem shiftFV_shiftFV_add (a b o : Nat) (t : Term) :
    shiftFV a o (shiftFV b o t) = shiftFV (a+b) o t := by
  induction t generalizing o with
  | var i => grind [shiftFV]
  | abs b ih => simp [shiftFV, ih]
  | app l r ihl ihr => simp [shiftFV, ihl, ihr]

theorem shiftFV_comm (a b o o' : Nat) (h : o ≤ o') (t : Term) :
    shiftFV a o (shiftFV b o' t) = shiftFV b (o' + a) (shiftFV a o t) := by
  induction t generalizing o o' with
  | var i => grind [shiftFV]
  | abs b ih => simp only [shiftFV]; rw [ih (o+1) (o'+1) (by omega)]; congr 2; omega
  | app l r ihl ihr => simp [shiftFV, ihl _ _ h, ihr _ _ h]

theorem shiftFV_shiftFV_within (a b o o' : Nat) (h1 : o ≤ o') (h2 : o' ≤ o + b) (t : Term) :
    shiftFV a o' (shiftFV b o t) = shiftFV (a+b) o t := by
  induction t generalizing o o' with
  | var i => grind [shiftFV]
  | abs b ih => simp only [shiftFV]; rw [ih (o+1) (o'+1) (by omega) (by omega)]
  | app l r ihl ihr => simp [shiftFV, ihl _ _ h1 h2, ihr _ _ h1 h2]

theorem shiftFV_applyAux_lt (a o d : Nat) (hd : 1 ≤ d) (h : o < d) (r t : Term) :
    shiftFV a o (applyAux r d t) = applyAux r (d + a) (shiftFV a o t) := by
  induction t generalizing o d with
  | var i =>
    by_cases h1 : i = d
    · subst h1
      have hx : i > o := by omega
      simp only [applyAux, shiftFV, hx, if_true]
      rw [shiftFV_shiftFV_within _ _ _ _ (by omega) (by omega)]; congr 1; omega
    · grind [shiftFV, applyAux]
  | abs b ih => simp only [applyAux, shiftFV]; rw [ih (o+1) (d+1) (by omega) (by omega)]; congr 2; omega
  | app l r ihl ihr => simp [applyAux, shiftFV, ihl _ _ hd h, ihr _ _ hd h]

theorem shiftFV_applyAux_ge (a o d : Nat) (hd : 1 ≤ d) (h : d ≤ o + 1) (r t : Term) :
    shiftFV a o (applyAux r d t) = applyAux (shiftFV a (o + 1 - d) r) d (shiftFV a (o+1) t) := by
  induction t generalizing o d with
  | var i =>
    by_cases h1 : i = d
    · subst h1
      have hx : ¬ i > o + 1 := by omega
      simp only [applyAux, shiftFV, hx, if_false, if_true]
      have := shiftFV_comm (i-1) a 0 (o+1-i) (by omega) r
      rw [this]; congr 1; omega
    · grind [shiftFV, applyAux]
  | abs b ih => simp only [applyAux, shiftFV]; rw [ih (o+1) (d+1) (by omega) (by omega)]; congr 3; omega
  | app l r ihl ihr => simp [applyAux, shiftFV, ihl _ _ hd h, ihr _ _ hd h]

theorem applyAux_shiftFV_cancel (r : Term) (d o: Nat) (hd : 1 ≤ d) (ho : o + 1 = d) (t : Term) :
    applyAux r d (shiftFV 1 o t) = t := by
  induction t generalizing d o with
  | var i => grind [shiftFV, applyAux]
  | abs b ih => simp only [applyAux, shiftFV]; rw [ih (d+1) (o+1) (by omega) (by omega)]
  | app l r ihl ihr => simp [applyAux, shiftFV, ihl _ _ hd ho, ihr _ _ hd ho]

/-- generalized cancel: substituting at depth d into a term shifted by k ≥ 1 at cutoff o with o < d ≤ o + k -/
theorem applyAux_shiftFV_cancel' (r : Term) (d o k : Nat) (h1 : o < d) (h2 : d ≤ o + k + 1) (t : Term) :
    applyAux r d (shiftFV (k+1) o t) = shiftFV k o t := by
  induction t generalizing d o with
  | var i => grind [shiftFV, applyAux]
  | abs b ih => simp only [applyAux, shiftFV]; rw [ih (d+1) (o+1) (by omega) (by omega)]
  | app l r ihl ihr => simp [applyAux, shiftFV, ihl _ _ h1 h2, ihr _ _ h1 h2]

/-- the substitution lemma -/
theorem applyAux_applyAux (s r : Term) (d e : Nat) (hd : 1 ≤ d) (he : d ≤ e) (t : Term) :
    applyAux s e (applyAux r d t) = applyAux (applyAux s (e + 1 - d) r) d (applyAux s (e+1) t) := by
  induction t generalizing d e with
  | var i =>
    by_cases h1 : i = d
    · subst h1
      have hx1 : ¬ i = e + 1 := by omega
      have hx2 : ¬ i > e + 1 := by omega
      simp only [applyAux, hx1, hx2, if_false, if_true]
      -- applyAux s e (shiftFV (i-1) 0 r) = shiftFV (i-1) 0 (applyAux s (e+1-i) r)
      rw [shiftFV_applyAux_lt _ _ _ (by omega) (by omega)]; congr 1; omega
    · by_cases h2 : i = e + 1
      · subst h2
        have hx1 : ¬ e + 1 = d := by omega
        have hx2 : e + 1 > d := by omega
        simp only [applyAux, hx1, hx2, if_false, if_true, Nat.add_sub_cancel]
        -- shiftFV (e-1) 0 s = applyAux _ d (shiftFV e 0 s)
        obtain ⟨e', rfl⟩ : ∃ e', e = e' + 1 := ⟨e - 1, by omega⟩
        rw [applyAux_shiftFV_cancel' _ _ _ _ (by omega) (by omega)]; simp
      · grind [applyAux]
  | abs b ih => simp only [applyAux]; rw [ih (d+1) (e+1) (by omega) (by omega)]; congr 3; omega
  | app l r ihl ihr => simp [applyAux, ihl _ _ hd he, ihr _ _ hd he]

/-- `shiftFV` commutes with contraction -/
theorem shiftFV_contract (a o : Nat) (b r : Term) :
    shiftFV a o (contract b r) = contract (shiftFV a (o+1) b) (shiftFV a o r) := by
  have := shiftFV_applyAux_ge a o 1 (by omega) (by omega) r b
  simpa [contract] using this

/-- the substitution lemma, specialised to a contraction -/
theorem applyAux_contract (s : Term) (e : Nat) (he : 1 ≤ e) (b r : Term) :
    applyAux s e (contract b r) = contract (applyAux s (e+1) b) (applyAux s e r) := by
  have := applyAux_applyAux s r 1 e (by omega) he b
  simpa [contract] using this


end Term
end LC
