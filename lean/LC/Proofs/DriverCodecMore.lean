/-
The line protocol of the driver carries values faithfully, part 2: orders, encodings, error names, call lists,
number lists, characters, tokens, names, classic tokens, code-point strings and the result printers.
(Expression trees: `DriverCodecExpr.lean`.)
-/
import LC.Proofs.DriverCodec
import Std.Data.String.ToInt

open LC LC.Term LC.Parser

namespace Drv

/-! ## string helpers -/

/-- strings with different first characters are different -/
theorem ne_of_head {a b : String} {c d : Char} {cs ds : List Char} (ha : a.toList = c :: cs)
    (hb : b.toList = d :: ds) (h : c ≠ d) : a ≠ b := by
  rintro rfl
  rw [ha] at hb
  exact h (List.cons.inj hb).1

theorem copy_drop_append (p s : String) (k : Nat) (hk : p.length = k) : ((p ++ s).drop k).copy = s := by
  apply String.toList_inj.1
  rw [String.toList_copy_drop]
  simp [← hk, ← String.length_toList]

theorem append_left_cancel {p a b : String} (h : p ++ a = p ++ b) : a = b := by
  have := congrArg String.toList h
  simp only [String.toList_append] at this
  exact String.toList_inj.1 (List.append_cancel_left this)

/-- a word that reads as a number does not start with a letter or a parenthesis -/
theorem ne_of_toNat? {w b : String} {k : Nat} {d : Char} {ds : List Char} (h : w.toNat? = some k)
    (hb : b.toList = d :: ds) (hd : d.isDigit = false) (hu : d ≠ '_') : w ≠ b := by
  rintro rfl
  rw [toNat?_eq_none_of_head hb hd hu] at h
  exact absurd h (by simp)

/-! ## orders and encodings -/

theorem orderOf_orderWord (o : Order) : orderOf (orderWord o) = some o := by
  cases o <;> rfl

/-- `orderOf` accepts exactly the seven order words, each for its own order -/
theorem orderOf_eq_some_iff {w : String} {o : Order} : orderOf w = some o ↔ w = orderWord o := by
  constructor
  · intro h
    unfold orderOf at h
    split at h <;> simp at h <;> subst h <;> rfl
  · rintro rfl; exact orderOf_orderWord o

theorem orderWord_inj {o o' : Order} (h : orderWord o = orderWord o') : o = o' := by
  have := orderOf_orderWord o
  rw [h, orderOf_orderWord] at this
  exact (Option.some.inj this).symm

theorem encOf_encWord (e : Enc.Encoding) : encOf (encWord e) = some e := by
  cases e <;> rfl

theorem encOf_eq_some_iff {w : String} {e : Enc.Encoding} : encOf w = some e ↔ w = encWord e := by
  constructor
  · intro h
    unfold encOf at h
    split at h <;> simp at h <;> subst h <;> rfl
  · rintro rfl; exact encOf_encWord e

/-! ## error names, Booleans -/

theorem errName_inj {e e' : TermError} (h : errName e = errName e') : e = e' := by
  cases e <;> cases e' <;> first | rfl | (revert h; decide)

theorem b01_inj {b b' : Bool} (h : b01 b = b01 b') : b = b' := by
  cases b <;> cases b' <;> first | rfl | (revert h; decide)

/-! ## call lists (`hist`) -/

theorem parseCalls_zero (ws : List String) : parseCalls 0 ws = some ([], ws) := by
  simp [parseCalls]

theorem parseCalls_succ (n : Nat) (o l : String) (ws : List String) : parseCalls (n+1) (o :: l :: ws) =
    (do let o' ← orderOf o
        let l' ← l.toNat?
        let (cs, rest) ← parseCalls n ws
        pure ((o', l') :: cs, rest)) := by
  simp [parseCalls]

/-- ROUND TRIP: a call list is read back -/
theorem parseCalls_callWords (cs : List (Order × Nat)) (rest : List String) :
    parseCalls cs.length ((cs.map callWords).flatten ++ rest) = some (cs, rest) := by
  induction cs with
  | nil => simp [parseCalls_zero]
  | cons c cs ih =>
    obtain ⟨o, l⟩ := c
    simp only [List.length_cons, List.map_cons, List.flatten_cons, callWords, List.cons_append,
      List.nil_append, parseCalls_succ, orderOf_orderWord, toNat?_toString, ih]
    rfl

/-- a successful `parseCalls n` returns exactly `n` calls -/
theorem parseCalls_length {n : Nat} {ws : List String} {cs : List (Order × Nat)} {rest : List String}
    (h : parseCalls n ws = some (cs, rest)) : cs.length = n := by
  induction n generalizing ws cs rest with
  | zero => simp [parseCalls_zero] at h; simp [← h.1]
  | succ n ih =>
    match ws with
    | [] => simp [parseCalls] at h
    | [_] => simp [parseCalls] at h
    | o :: l :: ws =>
      rw [parseCalls_succ] at h
      cases h1 : orderOf o with
      | none => simp [h1] at h
      | some o' =>
        cases h2 : l.toNat? with
        | none => simp [h1, h2] at h
        | some l' =>
          cases h3 : parseCalls n ws with
          | none => simp [h1, h2, h3] at h
          | some q =>
            obtain ⟨more, r'⟩ := q
            simp [h1, h2, h3] at h
            obtain ⟨rfl, -⟩ := h
            simp [ih h3]

/-! ## number lists (`vecn`) -/

theorem mapM_toNat?_toString (ns : List Nat) : (ns.map toString).mapM (·.toNat?) = some ns := by
  induction ns with
  | nil => rfl
  | cons n ns ih =>
    rw [List.map_cons, List.mapM_cons, toNat?_toString, ih]
    rfl

/-- ROUND TRIP: `k` printed numbers are read back -/
theorem decNats_toString (ns : List Nat) (rest : List String) :
    decNats ns.length (ns.map toString ++ rest) = some ns := by
  have : (ns.map toString ++ rest).take ns.length = ns.map toString := by
    rw [List.take_append_of_le_length (by simp), List.take_of_length_le (by simp)]
  rw [decNats, this, mapM_toNat?_toString]

theorem mapM_option_length {α β : Type} {f : α → Option β} {l : List α} {r : List β}
    (h : l.mapM f = some r) : r.length = l.length := by
  induction l generalizing r with
  | nil => simp at h; simp [← h]
  | cons a l ih =>
    rw [List.mapM_cons] at h
    cases h1 : f a with
    | none => simp [h1] at h
    | some b =>
      cases h2 : l.mapM f with
      | none => simp [h1, h2] at h
      | some bs =>
        simp [h1, h2] at h
        subst h
        simp [ih h2]

/-- WEAKNESS (reported in the notes): `decNats n` does NOT insist on `n` numbers; when the line has fewer words
it silently decodes fewer (`vecn church 2 1` is accepted as the list `[1]`) -/
theorem decNats_length {n : Nat} {ws : List String} {ns : List Nat} (h : decNats n ws = some ns) :
    ns.length = min n ws.length := by
  rw [decNats] at h
  rw [mapM_option_length h, List.length_take]

/-! ## characters (`lexd`, `lexc`, `parse`) -/

theorem charWord_eq (a b c : Nat) : charWord (a, b, c) = toString a ++ ":" ++ toString b ++ ":" ++ toString c := by
  simp [charWord, String.intercalate_cons_cons, String.append_assoc]

theorem singleton_colon : String.singleton ':' = ":" := by decide
theorem singleton_dot : String.singleton '.' = "." := by decide

/-- ROUND TRIP: a character word is read back -/
theorem decChar_charWord (x : Nat × Nat × Nat) : decChar (charWord x) = some x := by
  obtain ⟨a, b, c⟩ := x
  have : splitChar ':' (charWord (a, b, c)) = [toString a, toString b, toString c] := by
    rw [charWord, ← singleton_colon]
    apply splitChar_intercalate _ (by simp)
    intro s hs
    simp only [List.mem_cons, List.not_mem_nil, or_false] at hs
    rcases hs with rfl | rfl | rfl <;> exact not_mem_toString (by decide)
  simp only [decChar, this, toNat?_toString]
  rfl

theorem charWord_inj {x y : Nat × Nat × Nat} (h : charWord x = charWord y) : x = y := by
  have := decChar_charWord x
  rw [h, decChar_charWord] at this
  exact (Option.some.inj this).symm

theorem mapM_decChar_charWord (xs : List (Nat × Nat × Nat)) : (xs.map charWord).mapM decChar = some xs := by
  induction xs with
  | nil => rfl
  | cons n ns ih =>
    rw [List.map_cons, List.mapM_cons, decChar_charWord, ih]
    rfl

/-- ROUND TRIP: `n` character words are read back -/
theorem decChars_charWord (xs : List (Nat × Nat × Nat)) (rest : List String) :
    decChars xs.length (xs.map charWord ++ rest) = some xs := by
  have : (xs.map charWord ++ rest).take xs.length = xs.map charWord := by
    rw [List.take_append_of_le_length (by simp), List.take_of_length_le (by simp)]
  rw [decChars, this, mapM_decChar_charWord]

/-- WEAKNESS (as for `decNats`): fewer words than announced are accepted -/
theorem decChars_length {n : Nat} {ws : List String} {xs : List (Nat × Nat × Nat)} (h : decChars n ws = some xs) :
    xs.length = min n ws.length := by
  rw [decChars] at h
  rw [mapM_option_length h, List.length_take]

/-! ## De Bruijn tokens (`ast`, results of `lexd` and `conv`) -/

theorem decTok_N (s : String) : decTok ("N" ++ s) = s.toNat?.map Token.Number := by
  have h1 : "N" ++ s ≠ "L" := ne_of_head (c := 'N') (d := 'L') (by simp; rfl) (by simp; rfl) (by decide)
  have h2 : "N" ++ s ≠ "(" := ne_of_head (c := 'N') (d := '(') (by simp; rfl) (by simp; rfl) (by decide)
  have h3 : "N" ++ s ≠ ")" := ne_of_head (c := 'N') (d := ')') (by simp; rfl) (by simp; rfl) (by decide)
  simp [decTok, h1, h2, h3]
  rw [← String.Slice.toNat?_copy, copy_drop_append _ _ _ (by decide)]

/-- ROUND TRIP: a token word is read back -/
theorem decTok_showTok (t : Token) : decTok (showTok t) = some t := by
  cases t with
  | Number n => rw [showTok, decTok_N, toNat?_toString]; rfl
  | _ => simp [decTok, showTok]

theorem showTok_inj {t u : Token} (h : showTok t = showTok u) : t = u := by
  have := decTok_showTok t
  rw [h, decTok_showTok] at this
  exact (Option.some.inj this).symm

theorem showTok_word (t : Token) : showTok t ≠ "" ∧ ' ' ∉ (showTok t).toList := by
  cases t with
  | Number n =>
    constructor
    · intro h
      have := congrArg String.toList h
      simp [showTok] at this
    · simp only [showTok, String.toList_append, List.mem_append, not_or]
      exact ⟨by decide, not_mem_toString (by decide)⟩
  | _ => exact ⟨by decide, by decide⟩

/-! ## names and classic tokens (`conv`, results of `lexc`) -/

theorem showName_nil : showName [] = "" := by simp [showName]

theorem splitChar_showName {n : List Nat} (h : n ≠ []) : splitChar '.' (showName n) = n.map toString := by
  rw [showName, ← singleton_dot]
  apply splitChar_intercalate _ (by simpa using h)
  intro s hs
  obtain ⟨k, -, rfl⟩ := List.mem_map.1 hs
  exact not_mem_toString (by decide)

theorem showName_ne_empty {n : List Nat} (h : n ≠ []) : showName n ≠ "" := by
  intro he
  have h1 := splitChar_showName h
  rw [he] at h1
  have h2 : splitChar '.' "" = [""] := by simp [splitChar_eq]
  rw [h2] at h1
  match n, h with
  | k :: ks, _ =>
    simp only [List.map_cons, List.cons.injEq] at h1
    exact toString_nat_ne_empty k h1.1.symm

/-- ROUND TRIP: a name (a list of code points) is read back -/
theorem decName_showName (n : List Nat) : decName (showName n) = some n := by
  by_cases h : n = []
  · subst h; simp [showName_nil, decName]
  · have := showName_ne_empty h
    simp only [decName, String.isEmpty_iff, this, if_false]
    rw [splitChar_showName h, mapM_toNat?_toString]

/-- the characters of a joined list come from the separator or from the pieces -/
theorem mem_toList_intercalate {sep : String} {l : List String} {c : Char}
    (h : c ∈ (sep.intercalate l).toList) : c ∈ sep.toList ∨ ∃ s ∈ l, c ∈ s.toList := by
  induction l with
  | nil => simp at h
  | cons t l ih =>
    cases l with
    | nil => exact Or.inr ⟨t, by simp, by simpa using h⟩
    | cons u l =>
      rw [String.intercalate_cons_cons] at h
      simp only [String.toList_append, List.mem_append] at h
      rcases h with (h | h) | h
      · exact Or.inr ⟨t, by simp, h⟩
      · exact Or.inl h
      · rcases ih h with h | ⟨s, hs, hc⟩
        · exact Or.inl h
        · exact Or.inr ⟨s, List.mem_cons_of_mem _ hs, hc⟩

theorem not_mem_showName {n : List Nat} {c : Char} (hc : c.isDigit = false) (hd : c ≠ '.') :
    c ∉ (showName n).toList := by
  intro h
  rcases mem_toList_intercalate h with h | ⟨s, hs, h⟩
  · simp at h; exact hd h
  · obtain ⟨k, -, rfl⟩ := List.mem_map.1 hs
    exact not_mem_toString hc h

theorem decCTok_CL (s : String) : decCTok ("CL:" ++ s) = (decName s).map CToken.CLambda := by
  have h1 : "CL:" ++ s ≠ "(" := ne_of_head (c := 'C') (d := '(') (by simp; rfl) (by simp; rfl) (by decide)
  have h2 : "CL:" ++ s ≠ ")" := ne_of_head (c := 'C') (d := ')') (by simp; rfl) (by simp; rfl) (by decide)
  simp [decCTok, h1, h2]
  rw [copy_drop_append _ _ _ (by decide)]

theorem decCTok_CN (s : String) : decCTok ("CN:" ++ s) = (decName s).map CToken.CName := by
  have h1 : "CN:" ++ s ≠ "(" := ne_of_head (c := 'C') (d := '(') (by simp; rfl) (by simp; rfl) (by decide)
  have h2 : "CN:" ++ s ≠ ")" := ne_of_head (c := 'C') (d := ')') (by simp; rfl) (by simp; rfl) (by decide)
  simp [decCTok, h1, h2]
  rw [copy_drop_append _ _ _ (by decide)]

/-- ROUND TRIP: a classic token word is read back -/
theorem decCTok_showCTok (t : CToken) : decCTok (showCTok t) = some t := by
  cases t with
  | CLambda n => rw [showCTok, decCTok_CL, decName_showName]; rfl
  | CName n => rw [showCTok, decCTok_CN, decName_showName]; rfl
  | _ => simp [decCTok, showCTok]

theorem showCTok_inj {t u : CToken} (h : showCTok t = showCTok u) : t = u := by
  have := decCTok_showCTok t
  rw [h, decCTok_showCTok] at this
  exact (Option.some.inj this).symm

theorem showCTok_word (t : CToken) : showCTok t ≠ "" ∧ ' ' ∉ (showCTok t).toList := by
  cases t with
  | CLambda n =>
    constructor
    · intro h
      have := congrArg String.toList h
      simp [showCTok] at this
    · simp only [showCTok, String.toList_append, List.mem_append, not_or]
      exact ⟨by decide, not_mem_showName (by decide) (by decide)⟩
  | CName n =>
    constructor
    · intro h
      have := congrArg String.toList h
      simp [showCTok] at this
    · simp only [showCTok, String.toList_append, List.mem_append, not_or]
      exact ⟨by decide, not_mem_showName (by decide) (by decide)⟩
  | _ => exact ⟨by decide, by decide⟩

theorem mapM_decTok_showTok (ts : List Token) : (ts.map showTok).mapM decTok = some ts := by
  induction ts with
  | nil => rfl
  | cons n ns ih =>
    rw [List.map_cons, List.mapM_cons, decTok_showTok, ih]
    rfl

theorem mapM_decCTok_showCTok (ts : List CToken) : (ts.map showCTok).mapM decCTok = some ts := by
  induction ts with
  | nil => rfl
  | cons n ns ih =>
    rw [List.map_cons, List.mapM_cons, decCTok_showCTok, ih]
    rfl

/-! ## code-point strings (`show`, `errmsg`, `ordname`) -/

theorem cps_foldl (s : List Nat) (acc : String) :
    s.foldl (fun acc c => acc ++ " " ++ toString c) acc = " ".intercalate (acc :: s.map toString) := by
  induction s generalizing acc with
  | nil => simp
  | cons c s ih =>
    rw [List.foldl_cons, ih, List.map_cons, String.intercalate_cons_cons]
    cases s with
    | nil => simp
    | cons d s => simp [String.intercalate_cons_cons, String.append_assoc]

theorem cps_foldl_acc (s : List Nat) (acc : String) :
    s.foldl (fun acc c => acc ++ " " ++ toString c) acc
      = acc ++ s.foldl (fun acc c => acc ++ " " ++ toString c) "" := by
  rw [cps_foldl, cps_foldl]
  cases s with
  | nil => simp
  | cons d s => simp [String.intercalate_cons_cons, String.append_assoc]

/-- the printed form of a code-point string is its words joined by single spaces -/
theorem showCps_eq (s : List Nat) : showCps s = " ".intercalate (cpsWords s) := by
  rw [showCps, ← cps_foldl_acc, cps_foldl, cpsWords]

theorem natWords_words (s : List Nat) : Words (s.map toString) := by
  intro w hw
  obtain ⟨k, -, rfl⟩ := List.mem_map.1 hw
  exact ⟨toString_nat_ne_empty k, not_mem_toString (by decide)⟩

theorem map_toString_inj {s s' : List Nat} (h : s.map toString = s'.map toString) : s = s' := by
  have := mapM_toNat?_toString s
  rw [h, mapM_toNat?_toString] at this
  exact (Option.some.inj this).symm

theorem cpsWords_words (s : List Nat) : Words (cpsWords s) :=
  natWords_words (s.length :: s)

/-- two different code-point strings never print the same -/
theorem showCps_inj {s s' : List Nat} (h : showCps s = showCps s') : s = s' := by
  rw [showCps_eq, showCps_eq] at h
  have := intercalate_inj (cpsWords_words s) (cpsWords_words s') h
  simp only [cpsWords, List.cons.injEq] at this
  exact map_toString_inj this.2

/-! ## parse errors -/

theorem showErr_eq (e : ParseError) : showErr e = " ".intercalate (errWords e) := by
  cases e with
  | InvalidCharacter i c =>
    simp only [showErr, errWords, String.intercalate_cons_cons, String.intercalate_singleton, String.append_assoc]
    have : ("err IC " : String) = "err" ++ (" " ++ ("IC" ++ " ")) := by decide
    rw [this]
    simp only [String.append_assoc]
  | _ => simp [showErr, errWords, String.intercalate_cons_cons]

theorem errWords_words (e : ParseError) : Words (errWords e) := by
  cases e with
  | InvalidCharacter i c =>
    exact Words.cons (by decide) (by decide) (Words.cons (by decide) (by decide) (natWords_words [i, c]))
  | _ => exact Words.cons (by decide) (by decide) (Words.cons (by decide) (by decide) Words.nil)

theorem errWords_inj {e e' : ParseError} (h : errWords e = errWords e') : e = e' := by
  cases e <;> cases e' <;> simp [errWords] at h ⊢
  exact h

theorem showErr_inj {e e' : ParseError} (h : showErr e = showErr e') : e = e' := by
  rw [showErr_eq, showErr_eq] at h
  exact errWords_inj (intercalate_inj (errWords_words e) (errWords_words e') h)

/-! ## result lines -/

/-- a printer that prints an injective list of words, joined by spaces, is injective -/
theorem inj_of_words {α : Type} {f : α → String} {w : α → List String}
    (hf : ∀ a, f a = " ".intercalate (w a)) (hw : ∀ a, Words (w a)) (hinj : ∀ a b, w a = w b → a = b)
    {a b : α} (h : f a = f b) : a = b := by
  rw [hf, hf] at h
  exact hinj a b (intercalate_inj (hw a) (hw b) h)

theorem ok_showTerm (t : Term) : "ok " ++ showTerm t = " ".intercalate ("ok" :: termWords t) := by
  rw [String.intercalate_cons_of_ne_nil (termWords_ne_nil t), showTerm_eq]
  rfl

theorem errName_word (e : TermError) : errName e ≠ "" ∧ ' ' ∉ (errName e).toList := by
  cases e <;> exact ⟨by decide, by decide⟩

theorem word_ok : "ok" ≠ "" ∧ ' ' ∉ "ok".toList := ⟨by decide, by decide⟩

/-- no term is spelled by the single word `w` unless `w` is a number -/
theorem termWords_ne_singleton {t : Term} {w : String} (hw : w.toNat? = none) : termWords t ≠ [w] := by
  intro h
  have h1 := decTerm_termWords t []
  rw [List.append_nil, h] at h1
  by_cases hL : w = "L"
  · subst hL; simp [decTerm_L, decTerm_nil] at h1
  · by_cases hA : w = "A"
    · subst hA; simp [decTerm_A, decTerm_nil] at h1
    · simp [decTerm_num _ _ hL hA, hw] at h1

/-! ### accessors (`acc`, `put`): `resTerm`, `resNat`, `resPair` -/

theorem resTerm_eq (r : Except TermError Term) : resTerm r = " ".intercalate (resTermWords r) := by
  cases r with
  | ok t => exact ok_showTerm t
  | error e => simp [resTerm, resTermWords, String.intercalate_cons_cons]

theorem resTermWords_words (r : Except TermError Term) : Words (resTermWords r) := by
  cases r with
  | ok t => exact Words.cons word_ok.1 word_ok.2 (termWords_words t)
  | error e => exact Words.cons (by decide) (by decide) (Words.cons (errName_word e).1 (errName_word e).2 Words.nil)

theorem resTermWords_inj (r r' : Except TermError Term) (h : resTermWords r = resTermWords r') : r = r' := by
  cases r <;> cases r' <;> simp [resTermWords] at h
  · rw [errName_inj h]
  · rw [termWords_inj h]

/-- two different results never print the same -/
theorem resTerm_inj {r r' : Except TermError Term} (h : resTerm r = resTerm r') : r = r' :=
  inj_of_words resTerm_eq resTermWords_words resTermWords_inj h

theorem resNat_eq (r : Except TermError Nat) : resNat r = " ".intercalate (resNatWords r) := by
  cases r <;> simp [resNat, resNatWords, String.intercalate_cons_cons] <;> rfl

theorem resNatWords_words (r : Except TermError Nat) : Words (resNatWords r) := by
  cases r with
  | ok n => exact Words.cons word_ok.1 word_ok.2 (natWords_words [n])
  | error e => exact Words.cons (by decide) (by decide) (Words.cons (errName_word e).1 (errName_word e).2 Words.nil)

theorem resNatWords_inj (r r' : Except TermError Nat) (h : resNatWords r = resNatWords r') : r = r' := by
  cases r <;> cases r' <;> simp [resNatWords] at h
  · rw [errName_inj h]
  · rw [h]

theorem resNat_inj {r r' : Except TermError Nat} (h : resNat r = resNat r') : r = r' :=
  inj_of_words resNat_eq resNatWords_words resNatWords_inj h

theorem resPair_eq (r : Except TermError (Term × Term)) : resPair r = " ".intercalate (resPairWords r) := by
  cases r with
  | ok p =>
    obtain ⟨l, r⟩ := p
    simp only [resPair, resPairWords]
    rw [String.intercalate_cons_of_ne_nil (by simp), String.intercalate_append_of_ne_nil (termWords_ne_nil l) (by simp),
      String.intercalate_cons_of_ne_nil (termWords_ne_nil r), showTerm_eq, showTerm_eq]
    have : (" , " : String) = " " ++ ("," ++ " ") := by decide
    rw [this]
    simp only [String.append_assoc]
    rfl
  | error e => simp [resPair, resPairWords, String.intercalate_cons_cons]

theorem resPairWords_words (r : Except TermError (Term × Term)) : Words (resPairWords r) := by
  cases r with
  | ok p =>
    exact Words.cons word_ok.1 word_ok.2
      ((termWords_words p.1).append (Words.cons (by decide) (by decide) (termWords_words p.2)))
  | error e => exact Words.cons (by decide) (by decide) (Words.cons (errName_word e).1 (errName_word e).2 Words.nil)

theorem resPairWords_inj (r r' : Except TermError (Term × Term)) (h : resPairWords r = resPairWords r') : r = r' := by
  match r, r', h with
  | .error e, .error e', h => simp [resPairWords] at h; rw [errName_inj h]
  | .error e, .ok (l, r), h => simp [resPairWords] at h
  | .ok (l, r), .error e, h => simp [resPairWords] at h
  | .ok (l, r), .ok (l', r'), h =>
    simp only [resPairWords, List.cons.injEq, true_and] at h
    obtain ⟨rfl, h2⟩ := termWords_append_inj h
    simp only [List.cons.injEq, true_and] at h2
    rw [termWords_inj h2]

theorem resPair_inj {r r' : Except TermError (Term × Term)} (h : resPair r = resPair r') : r = r' :=
  inj_of_words resPair_eq resPairWords_words resPairWords_inj h

/-! ### lexer and parser operations: `resToks`, `resCToks`, `resConv`, `resFold`, `resParse` -/

theorem map_showTok_inj {ts us : List Token} (h : ts.map showTok = us.map showTok) : ts = us := by
  have := mapM_decTok_showTok ts
  rw [h, mapM_decTok_showTok] at this
  exact (Option.some.inj this).symm

theorem map_showCTok_inj {ts us : List CToken} (h : ts.map showCTok = us.map showCTok) : ts = us := by
  have := mapM_decCTok_showCTok ts
  rw [h, mapM_decCTok_showCTok] at this
  exact (Option.some.inj this).symm

theorem tokWords_words (ts : List Token) : Words (ts.map showTok) := by
  intro w hw
  obtain ⟨k, -, rfl⟩ := List.mem_map.1 hw
  exact showTok_word k

theorem ctokWords_words (ts : List CToken) : Words (ts.map showCTok) := by
  intro w hw
  obtain ⟨k, -, rfl⟩ := List.mem_map.1 hw
  exact showCTok_word k

/-- the first word of an error line is `err` -/
theorem errWords_head (e : ParseError) : ∃ tl, errWords e = "err" :: tl := by
  cases e <;> exact ⟨_, rfl⟩

theorem resToks_eq (r : Except ParseError (List Token)) : resToks r = " ".intercalate (resToksWords r) := by
  cases r with
  | ok ts => rfl
  | error e => exact showErr_eq e

theorem resToksWords_words (r : Except ParseError (List Token)) : Words (resToksWords r) := by
  cases r with
  | ok ts => exact Words.cons word_ok.1 word_ok.2 (tokWords_words ts)
  | error e => exact errWords_words e

theorem resToksWords_inj (r r' : Except ParseError (List Token)) (h : resToksWords r = resToksWords r') : r = r' := by
  match r, r', h with
  | .error e, .error e', h => rw [errWords_inj h]
  | .error e, .ok ts, h =>
    obtain ⟨tl, he⟩ := errWords_head e
    simp [resToksWords, he] at h
  | .ok ts, .error e, h =>
    obtain ⟨tl, he⟩ := errWords_head e
    simp [resToksWords, he] at h
  | .ok ts, .ok us, h =>
    simp only [resToksWords, List.cons.injEq, true_and] at h
    rw [map_showTok_inj h]

theorem resToks_inj {r r' : Except ParseError (List Token)} (h : resToks r = resToks r') : r = r' :=
  inj_of_words resToks_eq resToksWords_words resToksWords_inj h

theorem resCToks_eq (r : Except ParseError (List CToken)) : resCToks r = " ".intercalate (resCToksWords r) := by
  cases r with
  | ok ts => rfl
  | error e => exact showErr_eq e

theorem resCToksWords_words (r : Except ParseError (List CToken)) : Words (resCToksWords r) := by
  cases r with
  | ok ts => exact Words.cons word_ok.1 word_ok.2 (ctokWords_words ts)
  | error e => exact errWords_words e

theorem resCToksWords_inj (r r' : Except ParseError (List CToken)) (h : resCToksWords r = resCToksWords r') : r = r' := by
  match r, r', h with
  | .error e, .error e', h => rw [errWords_inj h]
  | .error e, .ok ts, h =>
    obtain ⟨tl, he⟩ := errWords_head e
    simp [resCToksWords, he] at h
  | .ok ts, .error e, h =>
    obtain ⟨tl, he⟩ := errWords_head e
    simp [resCToksWords, he] at h
  | .ok ts, .ok us, h =>
    simp only [resCToksWords, List.cons.injEq, true_and] at h
    rw [map_showCTok_inj h]

theorem resCToks_inj {r r' : Except ParseError (List CToken)} (h : resCToks r = resCToks r') : r = r' :=
  inj_of_words resCToks_eq resCToksWords_words resCToksWords_inj h

theorem resConv_eq (r : Option (List Token)) : resConv r = " ".intercalate (resConvWords r) := by
  cases r <;> simp [resConv, resConvWords]

theorem resConvWords_words (r : Option (List Token)) : Words (resConvWords r) := by
  cases r with
  | some ts => exact Words.cons word_ok.1 word_ok.2 (tokWords_words ts)
  | none => exact Words.cons (by decide) (by decide) Words.nil

theorem resConvWords_inj (r r' : Option (List Token)) (h : resConvWords r = resConvWords r') : r = r' := by
  match r, r', h with
  | none, none, _ => rfl
  | none, some ts, h => simp [resConvWords] at h
  | some ts, none, h => simp [resConvWords] at h
  | some ts, some us, h =>
    simp only [resConvWords, List.cons.injEq, true_and] at h
    rw [map_showTok_inj h]

theorem resConv_inj {r r' : Option (List Token)} (h : resConv r = resConv r') : r = r' :=
  inj_of_words resConv_eq resConvWords_words resConvWords_inj h

theorem resFold_eq (r : Except ParseError Term) : resFold r = " ".intercalate (resFoldWords r) := by
  cases r with
  | ok t => exact ok_showTerm t
  | error e => exact showErr_eq e

theorem resFoldWords_words (r : Except ParseError Term) : Words (resFoldWords r) := by
  cases r with
  | ok t => exact Words.cons word_ok.1 word_ok.2 (termWords_words t)
  | error e => exact errWords_words e

theorem resFoldWords_inj (r r' : Except ParseError Term) (h : resFoldWords r = resFoldWords r') : r = r' := by
  match r, r', h with
  | .error e, .error e', h => rw [errWords_inj h]
  | .error e, .ok ts, h =>
    obtain ⟨tl, he⟩ := errWords_head e
    simp [resFoldWords, he] at h
  | .ok ts, .error e, h =>
    obtain ⟨tl, he⟩ := errWords_head e
    simp [resFoldWords, he] at h
  | .ok t, .ok u, h =>
    simp only [resFoldWords, List.cons.injEq, true_and] at h
    rw [termWords_inj h]

theorem resFold_inj {r r' : Except ParseError Term} (h : resFold r = resFold r') : r = r' :=
  inj_of_words resFold_eq resFoldWords_words resFoldWords_inj h

theorem resParse_eq (r : Outcome) : resParse r = " ".intercalate (resParseWords r) := by
  cases r with
  | ok t => exact ok_showTerm t
  | err e => exact showErr_eq e
  | panic => simp [resParse, resParseWords]

theorem resParseWords_words (r : Outcome) : Words (resParseWords r) := by
  cases r with
  | ok t => exact Words.cons word_ok.1 word_ok.2 (termWords_words t)
  | err e => exact errWords_words e
  | panic => exact Words.cons (by decide) (by decide) Words.nil

/-- `Outcome` derives no `DecidableEq`; equality of outcomes is still meaningful -/
theorem resParseWords_inj (r r' : Outcome) (h : resParseWords r = resParseWords r') : r = r' := by
  match r, r', h with
  | .err e, .err e', h => rw [errWords_inj h]
  | .err e, .ok ts, h =>
    obtain ⟨tl, he⟩ := errWords_head e
    simp [resParseWords, he] at h
  | .ok ts, .err e, h =>
    obtain ⟨tl, he⟩ := errWords_head e
    simp [resParseWords, he] at h
  | .ok t, .ok u, h =>
    simp only [resParseWords, List.cons.injEq, true_and] at h
    rw [termWords_inj h]
  | .panic, .panic, _ => rfl
  | .panic, .ok t, h => simp [resParseWords] at h
  | .ok t, .panic, h => simp [resParseWords] at h
  | .panic, .err e, h =>
    obtain ⟨tl, he⟩ := errWords_head e
    simp [resParseWords, he] at h
  | .err e, .panic, h =>
    obtain ⟨tl, he⟩ := errWords_head e
    simp [resParseWords, he] at h

theorem resParse_inj {r r' : Outcome} (h : resParse r = resParse r') : r = r' :=
  inj_of_words resParse_eq resParseWords_words resParseWords_inj h

/-! ### reducer operations: `resReduce`, `resBeta` -/

theorem toNat?_fuel : "fuel".toNat? = none :=
  toNat?_eq_none_of_head (c := 'f') (cs := ['u', 'e', 'l']) (by decide) (by decide) (by decide)

theorem resReduce_eq (r : Option (Term × Nat)) : resReduce r = " ".intercalate (resReduceWords r) := by
  match r with
  | some (t, c) =>
    simp only [resReduce, resReduceWords]
    rw [String.intercalate_cons_of_ne_nil (termWords_ne_nil t), showTerm_eq]
  | none => simp [resReduce, resReduceWords]

theorem resReduceWords_words (r : Option (Term × Nat)) : Words (resReduceWords r) := by
  match r with
  | some (t, c) => exact (natWords_words [c]).append (termWords_words t)
  | none => exact Words.cons (by decide) (by decide) Words.nil

theorem resReduceWords_inj (r r' : Option (Term × Nat)) (h : resReduceWords r = resReduceWords r') : r = r' := by
  match r, r', h with
  | none, none, _ => rfl
  | none, some (t, c), h =>
    simp only [resReduceWords, List.cons.injEq] at h
    exact absurd (termWords_ne_nil t) (by simp [← h.2])
  | some (t, c), none, h =>
    simp only [resReduceWords, List.cons.injEq] at h
    exact absurd (termWords_ne_nil t) (by simp [h.2])
  | some (t, c), some (u, d), h =>
    simp only [resReduceWords, List.cons.injEq] at h
    rw [toString_nat_inj h.1, termWords_inj h.2]

/-- two different outcomes of `reduce` (result term, step count, or running out of fuel) never print the same -/
theorem resReduce_inj {r r' : Option (Term × Nat)} (h : resReduce r = resReduce r') : r = r' :=
  inj_of_words resReduce_eq resReduceWords_words resReduceWords_inj h

theorem resBeta_eq (r : Option Term) : resBeta r = " ".intercalate (resBetaWords r) := by
  cases r with
  | some t => exact showTerm_eq t
  | none => simp [resBeta, resBetaWords]

theorem resBetaWords_words (r : Option Term) : Words (resBetaWords r) := by
  cases r with
  | some t => exact termWords_words t
  | none => exact Words.cons (by decide) (by decide) Words.nil

theorem resBetaWords_inj (r r' : Option Term) (h : resBetaWords r = resBetaWords r') : r = r' := by
  match r, r', h with
  | none, none, _ => rfl
  | none, some t, h => exact absurd h.symm (termWords_ne_singleton toNat?_fuel)
  | some t, none, h => exact absurd h (termWords_ne_singleton toNat?_fuel)
  | some t, some u, h => rw [termWords_inj h]

theorem resBeta_inj {r r' : Option Term} (h : resBeta r = resBeta r') : r = r' :=
  inj_of_words resBeta_eq resBetaWords_words resBetaWords_inj h

/-! ## integers (`signed`) -/

/-- a printed integer is read back as itself (core: `Int.toInt?_repr`) -/
theorem toInt?_toString (i : Int) : (toString i).toInt? = some i := Int.toInt?_repr i

/-! ## what the token decoders accept -/

theorem exists_of_startsWith {w p : String} (h : w.startsWith p = true) : ∃ s, w = p ++ s := by
  rw [String.startsWith_string_iff] at h
  obtain ⟨l, hl⟩ := h
  exact ⟨String.ofList l, String.toList_inj.1 (by simp [← hl])⟩

/-- TOTALITY: `decTok` accepts exactly `L`, `(`, `)` and `N` followed by a number; everything else is refused -/
theorem decTok_eq_some_iff {w : String} {t : Token} :
    decTok w = some t ↔
      (w = "L" ∧ t = .Lambda) ∨ (w = "(" ∧ t = .Lparen) ∨ (w = ")" ∧ t = .Rparen) ∨
      ∃ s n, w = "N" ++ s ∧ s.toNat? = some n ∧ t = .Number n := by
  constructor
  · intro h
    by_cases h1 : w = "L"
    · subst h1; simp [decTok] at h; simp [← h]
    by_cases h2 : w = "("
    · subst h2; simp [decTok] at h; simp [← h]
    by_cases h3 : w = ")"
    · subst h3; simp [decTok] at h; simp [← h]
    by_cases h4 : w.startsWith "N" = true
    · obtain ⟨s, rfl⟩ := exists_of_startsWith h4
      rw [decTok_N] at h
      cases hs : s.toNat? with
      | none => simp [hs] at h
      | some n =>
        simp [hs] at h
        exact Or.inr (Or.inr (Or.inr ⟨s, n, rfl, hs, h.symm⟩))
    · simp only [decTok, beq_iff_eq, h1, h2, h3, h4, if_false] at h
      exact absurd h (by simp)
  · rintro (⟨rfl, rfl⟩ | ⟨rfl, rfl⟩ | ⟨rfl, rfl⟩ | ⟨s, n, rfl, hs, rfl⟩)
    · simp [decTok]
    · simp [decTok]
    · simp [decTok]
    · rw [decTok_N, hs]; rfl

/-- TOTALITY: `decCTok` accepts exactly `(`, `)`, and `CL:` / `CN:` followed by a name; everything else is refused -/
theorem decCTok_eq_some_iff {w : String} {t : CToken} :
    decCTok w = some t ↔
      (w = "(" ∧ t = .CLparen) ∨ (w = ")" ∧ t = .CRparen) ∨
      (∃ s n, w = "CL:" ++ s ∧ decName s = some n ∧ t = .CLambda n) ∨
      (∃ s n, w = "CN:" ++ s ∧ decName s = some n ∧ t = .CName n) := by
  constructor
  · intro h
    by_cases h2 : w = "("
    · subst h2; simp [decCTok] at h; simp [← h]
    by_cases h3 : w = ")"
    · subst h3; simp [decCTok] at h; simp [← h]
    by_cases h4 : w.startsWith "CL:" = true
    · obtain ⟨s, rfl⟩ := exists_of_startsWith h4
      rw [decCTok_CL] at h
      cases hs : decName s with
      | none => simp [hs] at h
      | some n =>
        simp [hs] at h
        exact Or.inr (Or.inr (Or.inl ⟨s, n, rfl, hs, h.symm⟩))
    by_cases h5 : w.startsWith "CN:" = true
    · obtain ⟨s, rfl⟩ := exists_of_startsWith h5
      rw [decCTok_CN] at h
      cases hs : decName s with
      | none => simp [hs] at h
      | some n =>
        simp [hs] at h
        exact Or.inr (Or.inr (Or.inr ⟨s, n, rfl, hs, h.symm⟩))
    · simp only [decCTok, beq_iff_eq, h2, h3, h4, h5, if_false] at h
      exact absurd h (by simp)
  · rintro (⟨rfl, rfl⟩ | ⟨rfl, rfl⟩ | ⟨s, n, rfl, hs, rfl⟩ | ⟨s, n, rfl, hs, rfl⟩)
    · simp [decCTok]
    · simp [decCTok]
    · rw [decCTok_CL, hs]; rfl
    · rw [decCTok_CN, hs]; rfl

/-- what `decName` accepts: the empty word, or numbers separated by dots -/
theorem decName_eq_some_iff {s : String} {n : List Nat} :
    decName s = some n ↔ (s = "" ∧ n = []) ∨ (s ≠ "" ∧ (splitChar '.' s).mapM (·.toNat?) = some n) := by
  by_cases h : s = ""
  · subst h; simp [decName]
  · simp [decName, h]

/-- what `decChar` accepts: exactly three numbers separated by colons -/
theorem decChar_eq_some_iff {s : String} {x : Nat × Nat × Nat} :
    decChar s = some x ↔ ∃ a b c, splitChar ':' s = [a, b, c] ∧
      a.toNat? = some x.1 ∧ b.toNat? = some x.2.1 ∧ c.toNat? = some x.2.2 := by
  obtain ⟨x1, x2, x3⟩ := x
  unfold decChar
  constructor
  · intro h
    split at h
    · rename_i a b c heq
      refine ⟨a, b, c, heq, ?_⟩
      cases ha : a.toNat? <;> cases hb : b.toNat? <;> cases hc : c.toNat? <;> simp [ha, hb, hc] at h ⊢
      exact h
    · exact absurd h (by simp)
  · rintro ⟨a, b, c, heq, ha, hb, hc⟩
    simp only at ha hb hc
    simp [heq, ha, hb, hc]

end Drv
