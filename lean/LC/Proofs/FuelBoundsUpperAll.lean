/-
Upper bound on the fuel of a traversal, all seven orders at once.
-/
import LC.Proofs.FuelBoundsUpper
import LC.Proofs.FuelBoundsUpperApp
import LC.Proofs.FuelBoundsUpperNor
import LC.Proofs.FuelBoundsUpperHno
import LC.Proofs.FuelBoundsUpperHap

namespace LC
namespace Term

/-- if a traversal started at count `c` returns `(t', c + k)` for SOME fuel, and the iterates
`t = t₀, …, t_k` of its strategy all have height ≤ `H`, then every fuel ≥ `k + H + 1` makes it
return (the same result) -/
theorem betaOrd_fuel (o : Order) (L fuel : Nat) (t : Term) (c : Nat) (t' : Term) (k : Nat)
    (h : betaOrd o L fuel t c = some (t', c + k)) (hc : L = 0 ∨ c ≤ L) (H : Nat)
    (hb : HB (stepOrd o) H k t) (g : Nat) (hg : k + H + 1 ≤ g) :
    betaOrd o L g t c = some (t', c + k) := by
  cases o <;> simp only [betaOrd, stepOrd] at h hb ⊢
  · exact betaNor_fuel L _ _ _ _ _ h hc H k rfl hb g hg
  · exact betaCbn_fuel L _ _ _ _ _ h hc H k rfl hb g hg
  · exact betaHsp_fuel L _ _ _ _ _ h hc H k rfl hb g hg
  · exact betaHno_fuel L _ _ _ _ _ h hc H k rfl hb g hg
  · exact betaApp_fuel L _ _ _ _ _ h hc H k rfl hb g hg
  · exact betaCbv_fuel L _ _ _ _ _ h hc H k rfl hb g hg
  · exact betaHap_fuel L _ _ _ _ _ h hc H k rfl hb g hg

theorem reduce_fuel (o : Order) (L fuel : Nat) (t t' : Term) (k : Nat)
    (h : reduce o L fuel t = some (t', k)) (H : Nat) (hb : HB (stepOrd o) H k t)
    (g : Nat) (hg : k + H + 1 ≤ g) : reduce o L g t = some (t', k) := by
  have := betaOrd_fuel o L fuel t 0 t' k (by simpa [reduce] using h) (by omega) H hb g hg
  simpa [reduce] using this

/-- a checkable sufficient condition for the height hypothesis -/
def heightsOK (step : Term → Option Term) (H : Nat) : Nat → Term → Bool
  | 0, t => decide (height t ≤ H)
  | k+1, t => decide (height t ≤ H) &&
    (match step t with
     | none => true
     | some u => heightsOK step H k u)

theorem heightsOK_sound {step : Term → Option Term} {H k : Nat} {t : Term}
    (h : heightsOK step H k t = true) : ∀ j ≤ k, ∀ u, Iter step j t u → height u ≤ H := by
  induction k generalizing t with
  | zero =>
    intro j hj u it
    have : j = 0 := by omega
    subst this; rw [it.zero_eq]; simpa [heightsOK] using h
  | succ k ih =>
    intro j hj u it
    simp only [heightsOK, Bool.and_eq_true, decide_eq_true_eq] at h
    cases it with
    | zero _ => exact h.1
    | succ hs rest =>
      rw [hs] at h
      exact ih h.2 _ (by omega) u rest

end Term
end LC
