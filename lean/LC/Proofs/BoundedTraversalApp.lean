/-
The representation boundary of De Bruijn indices, part 7: `ChkRel` for the checked CBV and APP traversals
(see `Proofs/BoundedTraversal.lean`).
-/
import LC.Proofs.BoundedTraversal

namespace LC
namespace Term

theorem betaCbvChk_rel (M L : Nat) : ∀ fuel t c, maxIndex t ≤ M → (L = 0 ∨ c ≤ L) →
    ChkRel M c (betaCbvChk M L fuel t c) (betaCbv L fuel t c) := by
  intro fuel
  induction fuel with
  | zero => intro t c _ _; rfl
  | succ fuel ih =>
    intro t c ht hc
    unfold betaCbvChk betaCbv
    by_cases hg : gate L c = true
    · simp only [hg, if_true]; exact ⟨rfl, ht⟩
    · simp only [hg, Bool.false_eq_true, if_false]
      cases t with
      | var i => exact ⟨rfl, ht⟩
      | abs b => exact ⟨rfl, ht⟩
      | app l r =>
        simp only [maxIndex] at ht
        have hl : maxIndex l ≤ M := by omega
        have hr : maxIndex r ≤ M := by omega
        have ihl := ih l c hl hc
        simp only []
        cases hy : betaCbv L fuel l c with
        | none =>
          rw [hy] at ihl
          cases hx : betaCbvChk M L fuel l c with
          | fuel => rfl
          | panic => intro t' c' h; cases h
          | ret l' c1 => rw [hx] at ihl; cases ihl.1
        | some p =>
          obtain ⟨l', c1⟩ := p
          rw [hy] at ihl
          obtain ⟨u1, u2, u3⟩ := betaCbv_facts hy hc
          simp only []
          -- what the last phase of the unbounded call keeps of `l'` and of `r'`
          have keep2 : ∀ r' c2, (L = 0 ∨ c2 ≤ L) → ∀ t' c',
              (match l' with
                | abs b => if budget L c2 = true then betaCbv L fuel (contract b r') (c2 + 1) else some (app l' r', c2)
                | _ => some (app l' r', c2)) = some (t', c') →
              c2 ≤ c' ∧ (c' = c2 → maxIndex l' ≤ maxIndex t' ∧ maxIndex r' ≤ maxIndex t') := by
            intro r' c2 hc2 t' c' hz
            cases l' with
            | abs b =>
              simp only [] at hz
              by_cases hb : budget L c2 = true
              · simp only [hb, if_true] at hz
                obtain ⟨v1, _, _⟩ := betaCbv_facts hz (budget_succ_ok hb)
                exact ⟨by omega, fun e => by omega⟩
              · simp only [hb, Bool.false_eq_true, if_false] at hz
                cases hz
                exact ⟨Nat.le_refl _, fun _ => by simp only [maxIndex]; omega⟩
            | var i => cases hz; exact ⟨Nat.le_refl _, fun _ => by simp only [maxIndex]; omega⟩
            | app a b => cases hz; exact ⟨Nat.le_refl _, fun _ => by simp only [maxIndex]; omega⟩
          cases hx : betaCbvChk M L fuel l c with
          | fuel => rw [hx] at ihl; cases ihl
          | panic =>
            rw [hx] at ihl
            apply ChkRel.panic_of_sub (ihl l' c1 rfl)
            intro t' c' hz
            cases h2 : betaCbv L fuel r c1 with
            | none => rw [h2] at hz; cases hz
            | some p2 =>
              obtain ⟨r', c2⟩ := p2
              rw [h2] at hz
              simp only [] at hz
              obtain ⟨v1, _, v3⟩ := betaCbv_facts h2 u3
              obtain ⟨k1, k2⟩ := keep2 r' c2 v3 t' c' hz
              exact ⟨by omega, fun e => (k2 (by omega)).1⟩
          | ret l0 c0 =>
            rw [hx] at ihl
            obtain ⟨e, hm⟩ := ihl
            cases e
            apply ChkRel.weaken u1
            simp only []
            have ih2 := ih r c1 hr u3
            cases h2 : betaCbv L fuel r c1 with
            | none =>
              rw [h2] at ih2
              cases hx2 : betaCbvChk M L fuel r c1 with
              | fuel => rfl
              | panic => intro t' c' h; cases h
              | ret a b => rw [hx2] at ih2; cases ih2.1
            | some p2 =>
              obtain ⟨r', c2⟩ := p2
              rw [h2] at ih2
              obtain ⟨v1, v2, v3⟩ := betaCbv_facts h2 u3
              simp only []
              cases hx2 : betaCbvChk M L fuel r c1 with
              | fuel => rw [hx2] at ih2; cases ih2
              | panic =>
                rw [hx2] at ih2
                apply ChkRel.panic_of_sub (ih2 r' c2 rfl)
                intro t' c' hz
                obtain ⟨k1, k2⟩ := keep2 r' c2 v3 t' c' hz
                exact ⟨k1, fun e => (k2 e).2⟩
              | ret a b =>
                rw [hx2] at ih2
                obtain ⟨e, hm2⟩ := ih2
                cases e
                apply ChkRel.weaken v1
                simp only []
                cases l' with
                | abs b =>
                  simp only []
                  simp only [maxIndex] at hm
                  by_cases hb : budget L c2 = true
                  · simp only [hb, if_true]
                    cases hk : contractChk M b r' with
                    | none =>
                      intro t' c' hz
                      obtain ⟨w1, w2, _⟩ := betaCbv_facts hz (budget_succ_ok hb)
                      refine ⟨by omega, fun e => ?_⟩
                      rw [w2 e]
                      exact contractChk_none_lt hm hm2 hk
                    | some u =>
                      obtain ⟨rfl, hu⟩ := contractChk_some_le hm hm2 hk
                      exact ChkRel.weaken (by omega) (ih _ (c2 + 1) hu (budget_succ_ok hb))
                  · simp only [hb, Bool.false_eq_true, if_false]
                    exact ⟨rfl, by simp only [maxIndex]; omega⟩
                | var i => exact ⟨rfl, by simp only [maxIndex] at hm ⊢; omega⟩
                | app a b => exact ⟨rfl, by simp only [maxIndex] at hm ⊢; omega⟩

theorem betaAppChk_rel (M L : Nat) : ∀ fuel t c, maxIndex t ≤ M → (L = 0 ∨ c ≤ L) →
    ChkRel M c (betaAppChk M L fuel t c) (betaApp L fuel t c) := by
  intro fuel
  induction fuel with
  | zero => intro t c _ _; rfl
  | succ fuel ih =>
    intro t c ht hc
    unfold betaAppChk betaApp
    by_cases hg : gate L c = true
    · simp only [hg, if_true]; exact ⟨rfl, ht⟩
    · simp only [hg, Bool.false_eq_true, if_false]
      cases t with
      | var i => exact ⟨rfl, ht⟩
      | abs b =>
        simp only [maxIndex] at ht
        have ihb := ih b c ht hc
        simp only []
        cases hy : betaApp L fuel b c with
        | none =>
          rw [hy] at ihb
          cases hx : betaAppChk M L fuel b c with
          | fuel => rfl
          | panic => intro t' c' h; cases h
          | ret b' c1 => rw [hx] at ihb; cases ihb.1
        | some p =>
          obtain ⟨b', c1⟩ := p
          rw [hy] at ihb
          simp only []
          cases hx : betaAppChk M L fuel b c with
          | fuel => rw [hx] at ihb; cases ihb
          | panic =>
            rw [hx] at ihb
            apply ChkRel.panic_of_sub (ihb b' c1 rfl)
            intro t' c' hz
            cases hz
            exact ⟨Nat.le_refl _, fun _ => by simp only [maxIndex]; omega⟩
          | ret b2 c2 =>
            rw [hx] at ihb
            obtain ⟨e, hm⟩ := ihb
            cases e
            exact ⟨rfl, by simpa only [maxIndex] using hm⟩
      | app l r =>
        simp only [maxIndex] at ht
        have hl : maxIndex l ≤ M := by omega
        have hr : maxIndex r ≤ M := by omega
        have ihl := ih l c hl hc
        simp only []
        cases hy : betaApp L fuel l c with
        | none =>
          rw [hy] at ihl
          cases hx : betaAppChk M L fuel l c with
          | fuel => rfl
          | panic => intro t' c' h; cases h
          | ret l' c1 => rw [hx] at ihl; cases ihl.1
        | some p =>
          obtain ⟨l', c1⟩ := p
          rw [hy] at ihl
          obtain ⟨u1, u2, u3⟩ := betaApp_facts hy hc
          simp only []
          -- what the last phase of the unbounded call keeps of `l'` and of `r'`
          have keep2 : ∀ r' c2, (L = 0 ∨ c2 ≤ L) → ∀ t' c',
              (match l' with
                | abs b => if budget L c2 = true then betaApp L fuel (contract b r') (c2 + 1) else some (app l' r', c2)
                | _ => some (app l' r', c2)) = some (t', c') →
              c2 ≤ c' ∧ (c' = c2 → maxIndex l' ≤ maxIndex t' ∧ maxIndex r' ≤ maxIndex t') := by
            intro r' c2 hc2 t' c' hz
            cases l' with
            | abs b =>
              simp only [] at hz
              by_cases hb : budget L c2 = true
              · simp only [hb, if_true] at hz
                obtain ⟨v1, _, _⟩ := betaApp_facts hz (budget_succ_ok hb)
                exact ⟨by omega, fun e => by omega⟩
              · simp only [hb, Bool.false_eq_true, if_false] at hz
                cases hz
                exact ⟨Nat.le_refl _, fun _ => by simp only [maxIndex]; omega⟩
            | var i => cases hz; exact ⟨Nat.le_refl _, fun _ => by simp only [maxIndex]; omega⟩
            | app a b => cases hz; exact ⟨Nat.le_refl _, fun _ => by simp only [maxIndex]; omega⟩
          cases hx : betaAppChk M L fuel l c with
          | fuel => rw [hx] at ihl; cases ihl
          | panic =>
            rw [hx] at ihl
            apply ChkRel.panic_of_sub (ihl l' c1 rfl)
            intro t' c' hz
            cases h2 : betaApp L fuel r c1 with
            | none => rw [h2] at hz; cases hz
            | some p2 =>
              obtain ⟨r', c2⟩ := p2
              rw [h2] at hz
              simp only [] at hz
              obtain ⟨v1, _, v3⟩ := betaApp_facts h2 u3
              obtain ⟨k1, k2⟩ := keep2 r' c2 v3 t' c' hz
              exact ⟨by omega, fun e => (k2 (by omega)).1⟩
          | ret l0 c0 =>
            rw [hx] at ihl
            obtain ⟨e, hm⟩ := ihl
            cases e
            apply ChkRel.weaken u1
            simp only []
            have ih2 := ih r c1 hr u3
            cases h2 : betaApp L fuel r c1 with
            | none =>
              rw [h2] at ih2
              cases hx2 : betaAppChk M L fuel r c1 with
              | fuel => rfl
              | panic => intro t' c' h; cases h
              | ret a b => rw [hx2] at ih2; cases ih2.1
            | some p2 =>
              obtain ⟨r', c2⟩ := p2
              rw [h2] at ih2
              obtain ⟨v1, v2, v3⟩ := betaApp_facts h2 u3
              simp only []
              cases hx2 : betaAppChk M L fuel r c1 with
              | fuel => rw [hx2] at ih2; cases ih2
              | panic =>
                rw [hx2] at ih2
                apply ChkRel.panic_of_sub (ih2 r' c2 rfl)
                intro t' c' hz
                obtain ⟨k1, k2⟩ := keep2 r' c2 v3 t' c' hz
                exact ⟨k1, fun e => (k2 e).2⟩
              | ret a b =>
                rw [hx2] at ih2
                obtain ⟨e, hm2⟩ := ih2
                cases e
                apply ChkRel.weaken v1
                simp only []
                cases l' with
                | abs b =>
                  simp only []
                  simp only [maxIndex] at hm
                  by_cases hb : budget L c2 = true
                  · simp only [hb, if_true]
                    cases hk : contractChk M b r' with
                    | none =>
                      intro t' c' hz
                      obtain ⟨w1, w2, _⟩ := betaApp_facts hz (budget_succ_ok hb)
                      refine ⟨by omega, fun e => ?_⟩
                      rw [w2 e]
                      exact contractChk_none_lt hm hm2 hk
                    | some u =>
                      obtain ⟨rfl, hu⟩ := contractChk_some_le hm hm2 hk
                      exact ChkRel.weaken (by omega) (ih _ (c2 + 1) hu (budget_succ_ok hb))
                  · simp only [hb, Bool.false_eq_true, if_false]
                    exact ⟨rfl, by simp only [maxIndex]; omega⟩
                | var i => exact ⟨rfl, by simp only [maxIndex] at hm ⊢; omega⟩
                | app a b => exact ⟨rfl, by simp only [maxIndex] at hm ⊢; omega⟩

end Term
end LC
