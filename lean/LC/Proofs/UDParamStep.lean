/-
The seven small-step strategies of `LC/Spec/Strategy.lean` commute with `udToFree k d` (UD renamed to the outer
reference number `k + 1`): the strategy selects the same redex and the contractum is the renamed contractum.
-/
import LC.Proofs.UDParam

namespace LC
namespace Term

theorem udToFree_stepCbn (k d : Nat) (t : Term) :
    stepCbn (udToFree k d t) = (stepCbn t).map (udToFree k d) := by
  induction t generalizing d with
  | var i => cases i <;> rfl
  | abs b => rfl
  | app l r ihl _ =>
    cases l with
    | var i => cases i <;> simp [stepCbn]
    | abs b => simp [stepCbn, udToFree_contract]
    | app l1 l2 =>
      have := ihl d
      simp only [udToFree_app] at this ⊢
      simp only [stepCbn, this]
      cases stepCbn (app l1 l2) <;> rfl

theorem udToFree_stepNor (k d : Nat) (t : Term) :
    stepNor (udToFree k d t) = (stepNor t).map (udToFree k d) := by
  induction t generalizing d with
  | var i => cases i <;> rfl
  | abs b ih => simp only [udToFree_abs, stepNor, ih]; cases stepNor b <;> rfl
  | app l r ihl ihr =>
    cases l with
    | var i => cases i <;> simp only [udToFree_app, udToFree_zero, udToFree_succ, stepNor, ihr] <;> cases stepNor r <;> rfl
    | abs b => simp [stepNor, udToFree_contract]
    | app l1 l2 =>
      have := ihl d
      simp only [udToFree_app] at this ⊢
      simp only [stepNor, this, ihr]
      cases stepNor (app l1 l2) <;> cases stepNor r <;> rfl

theorem udToFree_stepCbv (k d : Nat) (t : Term) :
    stepCbv (udToFree k d t) = (stepCbv t).map (udToFree k d) := by
  induction t generalizing d with
  | var i => cases i <;> rfl
  | abs b => rfl
  | app l r ihl ihr =>
    simp only [udToFree_app, stepCbv, ihl, ihr]
    cases stepCbv l with
    | some l' => rfl
    | none =>
      cases stepCbv r with
      | some r' => rfl
      | none =>
        cases l with
        | var i => cases i <;> rfl
        | abs b => simp [udToFree_contract]
        | app l1 l2 => rfl

theorem udToFree_stepApp (k d : Nat) (t : Term) :
    stepApp (udToFree k d t) = (stepApp t).map (udToFree k d) := by
  induction t generalizing d with
  | var i => cases i <;> rfl
  | abs b ih => simp only [udToFree_abs, stepApp, ih]; cases stepApp b <;> rfl
  | app l r ihl ihr =>
    simp only [udToFree_app, stepApp, ihl, ihr]
    cases stepApp l with
    | some l' => rfl
    | none =>
      cases stepApp r with
      | some r' => rfl
      | none =>
        cases l with
        | var i => cases i <;> rfl
        | abs b => simp [udToFree_contract]
        | app l1 l2 => rfl

theorem udToFree_stepHsp (k d : Nat) (t : Term) :
    stepHsp (udToFree k d t) = (stepHsp t).map (udToFree k d) := by
  induction t generalizing d with
  | var i => cases i <;> rfl
  | abs b ih => simp only [udToFree_abs, stepHsp, ih]; cases stepHsp b <;> rfl
  | app l r ihl ihr =>
    simp only [udToFree_app, stepHsp, ihl]
    cases stepHsp l with
    | some l' => rfl
    | none =>
      cases l with
      | var i => cases i <;> rfl
      | abs b => simp [udToFree_contract]
      | app l1 l2 => rfl

theorem udToFree_stepHno (k d : Nat) (t : Term) :
    stepHno (udToFree k d t) = (stepHno t).map (udToFree k d) := by
  induction t generalizing d with
  | var i => cases i <;> rfl
  | abs b ih => simp only [udToFree_abs, stepHno, ih]; cases stepHno b <;> rfl
  | app l r ihl ihr =>
    simp only [udToFree_app, stepHno, udToFree_stepHsp, ihl, ihr]
    cases stepHsp l with
    | some l' => rfl
    | none =>
      cases l with
      | var i => cases i <;> simp <;> cases stepHno r <;> rfl
      | abs b => simp [udToFree_contract]
      | app l1 l2 => simp; cases stepHno (app l1 l2) <;> cases stepHno r <;> rfl

theorem udToFree_stepHap (k d : Nat) (t : Term) :
    stepHap (udToFree k d t) = (stepHap t).map (udToFree k d) := by
  induction t generalizing d with
  | var i => cases i <;> rfl
  | abs b ih => simp only [udToFree_abs, stepHap, ih]; cases stepHap b <;> rfl
  | app l r ihl ihr =>
    simp only [udToFree_app, stepHap, udToFree_stepCbv, ihl, ihr]
    cases stepCbv l with
    | some l' => rfl
    | none =>
      cases stepHap r with
      | some r' => rfl
      | none =>
        cases l with
        | var i => cases i <;> rfl
        | abs b => simp [udToFree_contract]
        | app l1 l2 => simp; cases stepHap (app l1 l2) <;> rfl

theorem udToFree_stepOrd (o : Order) (k d : Nat) (t : Term) :
    stepOrd o (udToFree k d t) = (stepOrd o t).map (udToFree k d) := by
  cases o <;> simp only [stepOrd]
  · exact udToFree_stepNor k d t
  · exact udToFree_stepCbn k d t
  · exact udToFree_stepHsp k d t
  · exact udToFree_stepHno k d t
  · exact udToFree_stepApp k d t
  · exact udToFree_stepCbv k d t
  · exact udToFree_stepHap k d t

/-- iterated strategy steps are preserved -/
theorem udToFree_iter {f : Term → Option Term} (k d : Nat)
    (hf : ∀ t, f (udToFree k d t) = (f t).map (udToFree k d)) {n : Nat} {t u : Term} (h : Iter f n t u) :
    Iter f n (udToFree k d t) (udToFree k d u) := by
  induction h with
  | zero t => exact Iter.zero _
  | succ hs _ ih => exact Iter.succ (by rw [hf, hs]; rfl) ih

end Term
end LC
