/-
The fuel `height t + 1` is NECESSARY on β-normal forms for the four orders that traverse the whole
term (NOR, HNO, APP, HAP): a call that returns had at least that much fuel.
-/
import LC.Proofs.FuelBounds

namespace LC
namespace Term
open Spec RL

/-- a traversal that returned on a strategy-normal term did nothing -/
theorem Post.of_none {step : Term → Option Term} {L c t t' c'} (h : Post step L c t t' c')
    (hn : step t = none) : t' = t ∧ c' = c := by
  obtain ⟨k, rfl, it, _, _⟩ := h
  obtain ⟨rfl, rfl⟩ := it.of_none hn
  exact ⟨rfl, rfl⟩

theorem betaNor_nf_needs (L : Nat) (t : Term) : ∀ fuel c r, gate L c = false → (L = 0 ∨ c ≤ L) →
    isNormal t = true → betaNor L fuel t c = some r → height t + 1 ≤ fuel := by
  induction t with
  | var i =>
    intro fuel c r _ _ _ h
    cases fuel with
    | zero => simp [betaNor] at h
    | succ f => simp [height]
  | abs b ihb =>
    intro fuel c r hg hc hn h
    cases fuel with
    | zero => simp [betaNor] at h
    | succ f =>
      rw [betaNor] at h
      simp only [hg] at h
      cases hb : betaNor L f b c with
      | none => simp [hb] at h
      | some p =>
        have := ihb f c p hg hc (by simpa [isNormal] using hn) hb
        simp only [height]; omega
  | app l r ihl ihr =>
    intro fuel c res hg hc hn h
    obtain ⟨hna, hnl, hnr⟩ := isNormal_app hn
    cases fuel with
    | zero => simp [betaNor] at h
    | succ f =>
      rw [betaNor] at h
      simp only [hg] at h
      cases hl : betaCbn L f l c with
      | none => simp [hl] at h
      | some p =>
        obtain ⟨l', c1⟩ := p
        have hcn : stepCbn l = none :=
          (stepCbn_none_iff l).2 (isWHNF_of_neutral (isNormal_neutral hnl hna))
        obtain ⟨rfl, rfl⟩ := Post.of_none (betaCbn_sound L _ _ _ _ _ hl hc) hcn
        simp only [hl, hna] at h
        simp only [Bool.false_and, Bool.false_eq_true, if_false] at h
        cases hl2 : betaNor L f l' c1 with
        | none => simp [hl2] at h
        | some p =>
          obtain ⟨l2, c2⟩ := p
          have h1 := ihl f c1 _ hg hc hnl hl2
          obtain ⟨rfl, rfl⟩ := Post.of_none (betaNor_sound L _ _ _ _ _ hl2 hc)
            ((stepNor_none_iff l').2 hnl)
          simp only [hl2] at h
          cases hr : betaNor L f r c2 with
          | none => simp [hr] at h
          | some p =>
            have h2 := ihr f c2 _ hg hc hnr hr
            simp only [height]; omega

theorem betaHno_nf_needs (L : Nat) (t : Term) : ∀ fuel c r, gate L c = false → (L = 0 ∨ c ≤ L) →
    isNormal t = true → betaHno L fuel t c = some r → height t + 1 ≤ fuel := by
  induction t with
  | var i =>
    intro fuel c r _ _ _ h
    cases fuel with
    | zero => simp [betaHno] at h
    | succ f => simp [height]
  | abs b ihb =>
    intro fuel c r hg hc hn h
    cases fuel with
    | zero => simp [betaHno] at h
    | succ f =>
      rw [betaHno] at h
      simp only [hg] at h
      cases hb : betaHno L f b c with
      | none => simp [hb] at h
      | some p =>
        have := ihb f c p hg hc (by simpa [isNormal] using hn) hb
        simp only [height]; omega
  | app l r ihl ihr =>
    intro fuel c res hg hc hn h
    obtain ⟨hna, hnl, hnr⟩ := isNormal_app hn
    cases fuel with
    | zero => simp [betaHno] at h
    | succ f =>
      rw [betaHno] at h
      simp only [hg] at h
      cases hl : betaHsp L f l c with
      | none => simp [hl] at h
      | some p =>
        obtain ⟨l', c1⟩ := p
        have hcn : stepHsp l = none := stepHsp_neutral_none (isNormal_neutral hnl hna)
        obtain ⟨rfl, rfl⟩ := Post.of_none (betaHsp_sound L _ _ _ _ _ hl hc) hcn
        simp only [hl, hna] at h
        simp only [Bool.false_and, Bool.false_eq_true, if_false] at h
        cases hl2 : betaHno L f l' c1 with
        | none => simp [hl2] at h
        | some p =>
          obtain ⟨l2, c2⟩ := p
          have h1 := ihl f c1 _ hg hc hnl hl2
          obtain ⟨rfl, rfl⟩ := Post.of_none (betaHno_sound L _ _ _ _ _ hl2 hc)
            ((stepHno_none_iff l').2 hnl)
          simp only [hl2] at h
          cases hr : betaHno L f r c2 with
          | none => simp [hr] at h
          | some p =>
            have h2 := ihr f c2 _ hg hc hnr hr
            simp only [height]; omega

theorem betaApp_nf_needs (L : Nat) (t : Term) : ∀ fuel c r, gate L c = false → (L = 0 ∨ c ≤ L) →
    isNormal t = true → betaApp L fuel t c = some r → height t + 1 ≤ fuel := by
  induction t with
  | var i =>
    intro fuel c r _ _ _ h
    cases fuel with
    | zero => simp [betaApp] at h
    | succ f => simp [height]
  | abs b ihb =>
    intro fuel c r hg hc hn h
    cases fuel with
    | zero => simp [betaApp] at h
    | succ f =>
      rw [betaApp] at h
      simp only [hg] at h
      cases hb : betaApp L f b c with
      | none => simp [hb] at h
      | some p =>
        have := ihb f c p hg hc (by simpa [isNormal] using hn) hb
        simp only [height]; omega
  | app l r ihl ihr =>
    intro fuel c res hg hc hn h
    obtain ⟨hna, hnl, hnr⟩ := isNormal_app hn
    cases fuel with
    | zero => simp [betaApp] at h
    | succ f =>
      rw [betaApp] at h
      simp only [hg] at h
      cases hl : betaApp L f l c with
      | none => simp [hl] at h
      | some p =>
        obtain ⟨l', c1⟩ := p
        have h1 := ihl f c _ hg hc hnl hl
        obtain ⟨rfl, rfl⟩ := Post.of_none (betaApp_sound L _ _ _ _ _ hl hc)
          ((stepApp_none_iff l).2 hnl)
        simp only [hl] at h
        cases hr : betaApp L f r c1 with
        | none => simp [hr] at h
        | some p =>
          have h2 := ihr f c1 _ hg hc hnr hr
          simp only [height]; omega

theorem betaHap_nf_needs (L : Nat) (t : Term) : ∀ fuel c r, gate L c = false → (L = 0 ∨ c ≤ L) →
    isNormal t = true → betaHap L fuel t c = some r → height t + 1 ≤ fuel := by
  induction t with
  | var i =>
    intro fuel c r _ _ _ h
    cases fuel with
    | zero => simp [betaHap] at h
    | succ f => simp [height]
  | abs b ihb =>
    intro fuel c r hg hc hn h
    cases fuel with
    | zero => simp [betaHap] at h
    | succ f =>
      rw [betaHap] at h
      simp only [hg] at h
      cases hb : betaHap L f b c with
      | none => simp [hb] at h
      | some p =>
        have := ihb f c p hg hc (by simpa [isNormal] using hn) hb
        simp only [height]; omega
  | app l r ihl ihr =>
    intro fuel c res hg hc hn h
    obtain ⟨hna, hnl, hnr⟩ := isNormal_app hn
    cases fuel with
    | zero => simp [betaHap] at h
    | succ f =>
      rw [betaHap] at h
      simp only [hg] at h
      cases hl : betaCbv L f l c with
      | none => simp [hl] at h
      | some p =>
        obtain ⟨l', c1⟩ := p
        obtain ⟨rfl, rfl⟩ := Post.of_none (betaCbv_sound L _ _ _ _ _ hl hc)
          (stepCbv_none_of_isWNF (isNormal_isWNF hnl))
        simp only [hl] at h
        cases hr : betaHap L f r c1 with
        | none => simp [hr] at h
        | some p =>
          obtain ⟨r', c2⟩ := p
          have h2 := ihr f c1 _ hg hc hnr hr
          obtain ⟨rfl, rfl⟩ := Post.of_none (betaHap_sound L _ _ _ _ _ hr hc)
            ((stepHap_none_iff _).2 hnr)
          simp only [hr, hna] at h
          simp only [Bool.false_and, Bool.false_eq_true, if_false] at h
          cases hl2 : betaHap L f l' c2 with
          | none => simp [hl2] at h
          | some p =>
            have h1 := ihl f c2 _ hg hc hnl hl2
            simp only [height]; omega

/-- the orders whose documented normal form is the β-normal form -/
theorem NF_full {o : Order} (ho : NF o = isNormal) :
    o = .NOR ∨ o = .HNO ∨ o = .APP ∨ o = .HAP := by
  cases o
  · exact Or.inl rfl
  · exact absurd (congrFun ho (abs (app (abs (var 1)) (var 1)))) (by decide)
  · exact absurd (congrFun ho (app (var 1) (app (abs (var 1)) (var 1)))) (by decide)
  · exact Or.inr (Or.inl rfl)
  · exact Or.inr (Or.inr (Or.inl rfl))
  · exact absurd (congrFun ho (abs (app (abs (var 1)) (var 1)))) (by decide)
  · exact Or.inr (Or.inr (Or.inr rfl))

/-- all four fully normalising orders -/
theorem reduce_nf_needs (o : Order) (ho : NF o = isNormal) (L fuel : Nat) (t : Term) (r : Term × Nat)
    (hn : isNormal t = true) (h : reduce o L fuel t = some r) : height t + 1 ≤ fuel := by
  have hg : gate L 0 = false := by
    cases L with
    | zero => simp [gate]
    | succ n => simp [gate]
  rcases NF_full ho with rfl | rfl | rfl | rfl <;> simp only [reduce, betaOrd] at h
  · exact betaNor_nf_needs L t fuel 0 r hg (by omega) hn h
  · exact betaHno_nf_needs L t fuel 0 r hg (by omega) hn h
  · exact betaApp_nf_needs L t fuel 0 r hg (by omega) hn h
  · exact betaHap_nf_needs L t fuel 0 r hg (by omega) hn h

end Term
end LC
