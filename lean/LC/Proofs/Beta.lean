/-
Basic facts about `Beta`, `Steps`, `Star`, `Iter`, and: every strategy step is a β-step.
-/
import LC.Spec.Strategy
import LC.Proofs.SubstTop

namespace LC
open Term Spec

namespace Spec

/-- root contraction, stated with the model's `contract` -/
theorem Beta.redc (b a : Term) : Beta (app (abs b) a) (contract b a) := by
  rw [contract_eq_substTop]; exact Beta.red b a

theorem Star.trans {t u v : Term} (h1 : Star t u) (h2 : Star u v) : Star t v := by
  induction h1 with
  | refl _ => exact h2
  | head hb _ ih => exact Star.head hb (ih h2)

theorem Star.one {t u : Term} (h : Beta t u) : Star t u := Star.head h (Star.refl _)

theorem Star.tail {t u v : Term} (h1 : Star t u) (h2 : Beta u v) : Star t v := h1.trans (Star.one h2)

theorem Star.congAbs {b b' : Term} (h : Star b b') : Star (abs b) (abs b') := by
  induction h with
  | refl _ => exact Star.refl _
  | head hb _ ih => exact Star.head (Beta.congAbs hb) ih

theorem Star.congAppL {l l' : Term} (r : Term) (h : Star l l') : Star (app l r) (app l' r) := by
  induction h with
  | refl _ => exact Star.refl _
  | head hb _ ih => exact Star.head (Beta.congAppL hb) ih

theorem Star.congAppR {r r' : Term} (l : Term) (h : Star r r') : Star (app l r) (app l r') := by
  induction h with
  | refl _ => exact Star.refl _
  | head hb _ ih => exact Star.head (Beta.congAppR hb) ih

theorem Star.congApp {l l' r r' : Term} (h1 : Star l l') (h2 : Star r r') : Star (app l r) (app l' r') :=
  (Star.congAppL r h1).trans (Star.congAppR l' h2)

theorem Star.redc (b a : Term) : Star (app (abs b) a) (contract b a) := Star.one (Beta.redc b a)

theorem Steps.trans {m n : Nat} {t u v : Term} (h1 : Steps m t u) (h2 : Steps n u v) :
    Steps (m + n) t v := by
  induction h1 with
  | zero _ => simpa using h2
  | @succ k t u w hb _ ih =>
    rw [show k + 1 + n = (k + n) + 1 by omega]; exact Steps.succ hb (ih h2)

theorem Steps.cast {m n : Nat} {t u : Term} (h : Steps m t u) (e : m = n) : Steps n t u := e ▸ h

theorem Steps.star {n : Nat} {t u : Term} (h : Steps n t u) : Star t u := by
  induction h with
  | zero _ => exact Star.refl _
  | succ hb _ ih => exact Star.head hb ih

theorem Star.steps {t u : Term} (h : Star t u) : ∃ n, Steps n t u := by
  induction h with
  | refl _ => exact ⟨0, Steps.zero _⟩
  | head hb _ ih => obtain ⟨n, hn⟩ := ih; exact ⟨n + 1, Steps.succ hb hn⟩

theorem Steps.zero_eq {t u : Term} (h : Steps 0 t u) : u = t := by cases h; rfl

end Spec

namespace Term

theorem Iter.trans {f : Term → Option Term} {k1 k2 : Nat} {t u v : Term}
    (h1 : Iter f k1 t u) (h2 : Iter f k2 u v) : Iter f (k1 + k2) t v := by
  induction h1 with
  | zero t => simpa using h2
  | @succ k t u v hs _ ih =>
    rw [show k + 1 + k2 = (k + k2) + 1 by omega]; exact Iter.succ hs (ih h2)

theorem Iter.cast {f : Term → Option Term} {k k' : Nat} {t u : Term}
    (h : Iter f k t u) (e : k = k') : Iter f k' t u := e ▸ h

theorem Iter.one {f : Term → Option Term} {t u : Term} (h : f t = some u) : Iter f 1 t u :=
  Iter.succ h (Iter.zero _)

/-- iteration of a function is deterministic -/
theorem Iter.det {f : Term → Option Term} {k : Nat} {t u v : Term}
    (h1 : Iter f k t u) (h2 : Iter f k t v) : u = v := by
  induction h1 with
  | zero t => cases h2; rfl
  | succ hs _ ih =>
    cases h2 with
    | succ hs' h2' => rw [hs] at hs'; cases hs'; exact ih h2'

theorem Iter.zero_eq {f : Term → Option Term} {t u : Term} (h : Iter f 0 t u) : u = t := by
  cases h; rfl

/-- a run cannot continue past a point where the step function is undefined -/
theorem Iter.of_none {f : Term → Option Term} {k : Nat} {t u : Term}
    (h : Iter f k t u) (hn : f t = none) : k = 0 ∧ u = t := by
  cases h with
  | zero _ => exact ⟨rfl, rfl⟩
  | succ hs _ => rw [hn] at hs; cases hs

/-- splitting a run -/
theorem Iter.split {f : Term → Option Term} {k : Nat} {t v : Term} (j : Nat) (hj : j ≤ k)
    (h : Iter f k t v) : ∃ u, Iter f j t u ∧ Iter f (k - j) u v := by
  induction j generalizing k t with
  | zero => exact ⟨t, Iter.zero _, by simpa using h⟩
  | succ j ih =>
    cases h with
    | zero _ => omega
    | @succ k' _ u _ hs h' =>
      obtain ⟨w, h1, h2⟩ := ih (by omega) h'
      exact ⟨w, Iter.succ hs h1, by simpa using h2⟩

/-! ### every strategy step is a β-step -/

open Spec

theorem stepCbn_beta {t t' : Term} (h : stepCbn t = some t') : Beta t t' := by
  induction t generalizing t' with
  | var i => simp [stepCbn] at h
  | abs b => simp [stepCbn] at h
  | app l r ihl _ =>
    cases l with
    | var i => simp [stepCbn] at h
    | abs b => simp [stepCbn] at h; subst h; exact Beta.redc b r
    | app l1 l2 =>
      simp [stepCbn] at h; obtain ⟨a, ha, rfl⟩ := h
      exact Beta.congAppL (ihl ha)

theorem stepNor_beta {t t' : Term} (h : stepNor t = some t') : Beta t t' := by
  induction t generalizing t' with
  | var i => simp [stepNor] at h
  | abs b ih => simp [stepNor] at h; obtain ⟨a, ha, rfl⟩ := h; exact Beta.congAbs (ih ha)
  | app l r ihl ihr =>
    cases l with
    | var i =>
      simp [stepNor] at h; obtain ⟨a, ha, rfl⟩ := h; exact Beta.congAppR (ihr ha)
    | abs b => simp [stepNor] at h; subst h; exact Beta.redc b r
    | app l1 l2 =>
      simp only [stepNor] at h
      split at h
      · rename_i l' hl; simp at h; subst h; exact Beta.congAppL (ihl hl)
      · simp at h; obtain ⟨a, ha, rfl⟩ := h; exact Beta.congAppR (ihr ha)

theorem stepCbv_beta {t t' : Term} (h : stepCbv t = some t') : Beta t t' := by
  induction t generalizing t' with
  | var i => simp [stepCbv] at h
  | abs b => simp [stepCbv] at h
  | app l r ihl ihr =>
    simp only [stepCbv] at h
    split at h
    · rename_i l' hl; simp at h; subst h; exact Beta.congAppL (ihl hl)
    · split at h
      · rename_i r' hr; simp at h; subst h; exact Beta.congAppR (ihr hr)
      · split at h
        · simp at h; subst h; exact Beta.redc _ r
        · simp at h

theorem stepApp_beta {t t' : Term} (h : stepApp t = some t') : Beta t t' := by
  induction t generalizing t' with
  | var i => simp [stepApp] at h
  | abs b ih => simp [stepApp] at h; obtain ⟨a, ha, rfl⟩ := h; exact Beta.congAbs (ih ha)
  | app l r ihl ihr =>
    simp only [stepApp] at h
    split at h
    · rename_i l' hl; simp at h; subst h; exact Beta.congAppL (ihl hl)
    · split at h
      · rename_i r' hr; simp at h; subst h; exact Beta.congAppR (ihr hr)
      · split at h
        · simp at h; subst h; exact Beta.redc _ r
        · simp at h

theorem stepHsp_beta {t t' : Term} (h : stepHsp t = some t') : Beta t t' := by
  induction t generalizing t' with
  | var i => simp [stepHsp] at h
  | abs b ih => simp [stepHsp] at h; obtain ⟨a, ha, rfl⟩ := h; exact Beta.congAbs (ih ha)
  | app l r ihl _ =>
    simp only [stepHsp] at h
    split at h
    · rename_i l' hl; simp at h; subst h; exact Beta.congAppL (ihl hl)
    · split at h
      · simp at h; subst h; exact Beta.redc _ r
      · simp at h

theorem stepHno_beta {t t' : Term} (h : stepHno t = some t') : Beta t t' := by
  induction t generalizing t' with
  | var i => simp [stepHno] at h
  | abs b ih => simp [stepHno] at h; obtain ⟨a, ha, rfl⟩ := h; exact Beta.congAbs (ih ha)
  | app l r ihl ihr =>
    simp only [stepHno] at h
    split at h
    · rename_i l' hl; simp at h; subst h; exact Beta.congAppL (stepHsp_beta hl)
    · split at h
      · simp at h; subst h; exact Beta.redc _ r
      · split at h
        · rename_i l' hl; simp at h; subst h; exact Beta.congAppL (ihl hl)
        · simp at h; obtain ⟨a, ha, rfl⟩ := h; exact Beta.congAppR (ihr ha)

theorem stepHap_beta {t t' : Term} (h : stepHap t = some t') : Beta t t' := by
  induction t generalizing t' with
  | var i => simp [stepHap] at h
  | abs b ih => simp [stepHap] at h; obtain ⟨a, ha, rfl⟩ := h; exact Beta.congAbs (ih ha)
  | app l r ihl ihr =>
    simp only [stepHap] at h
    split at h
    · rename_i l' hl; simp at h; subst h; exact Beta.congAppL (stepCbv_beta hl)
    · split at h
      · rename_i r' hr; simp at h; subst h; exact Beta.congAppR (ihr hr)
      · split at h
        · simp at h; subst h; exact Beta.redc _ r
        · simp at h; obtain ⟨a, ha, rfl⟩ := h; exact Beta.congAppL (ihl ha)

theorem stepOrd_beta (o : Order) {t t' : Term} (h : stepOrd o t = some t') : Beta t t' := by
  cases o <;> simp only [stepOrd] at h
  · exact stepNor_beta h
  · exact stepCbn_beta h
  · exact stepHsp_beta h
  · exact stepHno_beta h
  · exact stepApp_beta h
  · exact stepCbv_beta h
  · exact stepHap_beta h

theorem Iter.steps (o : Order) {k : Nat} {t t' : Term} (h : Iter (stepOrd o) k t t') :
    Steps k t t' := by
  induction h with
  | zero _ => exact Steps.zero _
  | succ hs _ ih => exact Steps.succ (stepOrd_beta o hs) ih

end Term
end LC
