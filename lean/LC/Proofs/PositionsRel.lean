/-
Relations between the redexes the seven orders select (positional statements; the ones about
APP / CBV / HAP go through the executable selectors of `LC/Proofs/PositionsMore.lean`).
-/
import LC.Proofs.PositionsHap

namespace LC
namespace Spec
open Term

/-! ### the head spine: CBN, HSP, NOR, HNO -/

theorem spineL_noArg {p : Pos} (h : spineL p) : noArg p := by
  intro hm
  have := h Dir.R hm
  cases this

/-- HSP's redex lies on the head spine of NOR's redex, which is then on the head spine itself -/
theorem isHSP_below_lmo {t : Term} {p : Pos} (h : isHSP t p) :
    ∃ q s, isLMO t q ∧ noArg q ∧ p = q ++ s ∧ noArg s := by
  obtain ⟨q, s, hq, rfl⟩ := spine_redex_lmo t p h.2.1 h.1
  exact ⟨q, s, hq, (noArg_append.1 h.1).1, rfl, (noArg_append.1 h.1).2⟩

/-- HSP's redex is NOR's exactly when it is the only redex on the head spine -/
theorem isHSP_isLMO_iff {t : Term} {p : Pos} (h : isHSP t p) :
    isLMO t p ↔ ∀ q, redexAt t q → noArg q → q = p := by
  constructor
  · intro hl q hq nq
    obtain ⟨s, hs⟩ := isHSP_prefix h hq nq
    rcases hl.2 q hq with e | (⟨s', hs', e⟩ | hlo)
    · exact e
    · have := pos_append_cycle hs e
      exact this.symm
    · exact absurd hlo (not_leftOf_of_prefix_left hs)
  · intro hu
    obtain ⟨q, s, hq, nq, e, _⟩ := isHSP_below_lmo h
    have := hu q hq.1 nq
    subst this
    exact hq

/-- whenever the head spine contains a redex, NOR's redex is the outermost one on it -/
theorem isLMO_noArg_of_spine_redex {t : Term} {p q : Pos} (hp : isLMO t p) (hq : redexAt t q)
    (nq : noArg q) : noArg p ∧ ∃ s, q = p ++ s := by
  obtain ⟨p', s, hp', rfl⟩ := spine_redex_lmo t q hq nq
  have := isLMO_unique hp hp'
  subst this
  exact ⟨(noArg_append.1 nq).1, s, rfl⟩

/-- while the head spine contains a redex, HNO contracts HSP's redex -/
theorem isHNO_isHSP {t : Term} {p q : Pos} (h : isHNO t p) (hq : redexAt t q) (nq : noArg q) :
    isHSP t p := by
  obtain ⟨hs, q0, s, hq0, rfl, ns⟩ := h
  exact ⟨noArg_append.2 ⟨(isLMO_noArg_of_spine_redex hq0 hq nq).1, ns⟩, hs⟩

/-- HNO's redex is NOR's exactly when NOR's redex has no further redex on its own head spine -/
theorem isHNO_eq_isLMO_iff {t : Term} {p q : Pos} (hp : isHNO t p) (hq : isLMO t q) :
    p = q ↔ spineInnermost t q := by
  constructor
  · rintro rfl; exact hp.1
  · intro hs
    exact isHNO_unique hp ⟨hs, q, [], hq, by simp, noArg_nil⟩

/-- CBN's redex is a head-spine redex, so HSP selects one too: at or below CBN's, on its head spine -/
theorem cbn_above_hsp {t : Term} {p : Pos} (hp : isLMO t p) (hs : spineL p) :
    ∃ q s, isHSP t q ∧ q = p ++ s ∧ noArg s := by
  have np := spineL_noArg hs
  cases hsel : selHsp t with
  | none => exact absurd hp.1 ((selHsp_sound t).2 hsel p np)
  | some q =>
    have hq := (selHsp_sound t).1 q hsel
    obtain ⟨s, rfl⟩ := isHSP_prefix hq hp.1 np
    exact ⟨_, s, hq, rfl, (noArg_append.1 hq.1).2⟩

/-! ### the eager orders: APP, CBV, HAP -/

theorem selCbv_none_of_no_redex {t : Term} (h : ∀ p, ¬ redexAt t p) : selCbv t = none := by
  cases hs : selCbv t with
  | none => rfl
  | some p => exact absurd ((selCbv_sound t).1 p hs).1.1.1 (h p)

theorem selHap_none_of_no_redex {t : Term} (h : ∀ p, ¬ redexAt t p) : selHap t = none := by
  cases hs : selHap t with
  | none => rfl
  | some p => exact absurd ((selHap_sound t).1 p hs).1 (h p)

theorem selApp_weak_selCbv (t : Term) : ∀ p, selApp t = some p → weak p → selCbv t = some p := by
  induction t with
  | var n => intro p h; simp [selApp] at h
  | abs b _ =>
    intro p h hw
    simp only [selApp] at h
    cases hb : selApp b with
    | none => simp [hb] at h
    | some p' =>
      simp only [hb, Option.map_some, Option.some.injEq] at h
      subst h
      exact absurd rfl (weak_cons.1 hw).1
  | app l r ihl ihr =>
    intro p h hw
    rw [selApp_app] at h
    rw [selCbv_app]
    cases hl : selApp l with
    | some p' =>
      simp only [hl, Option.some.injEq] at h
      subst h
      rw [ihl p' hl (weak_cons.1 hw).2]
    | none =>
      rw [selCbv_none_of_no_redex ((selApp_sound l).2 hl)]
      cases hr : selApp r with
      | some p' =>
        simp only [hl, hr, Option.some.injEq] at h
        subst h
        rw [ihr p' hr (weak_cons.1 hw).2]
      | none =>
        rw [selCbv_none_of_no_redex ((selApp_sound r).2 hr)]
        simpa only [hl, hr] using h

theorem selHap_weak_selCbv (t : Term) : ∀ p, selHap t = some p → weak p → selCbv t = some p := by
  induction t with
  | var n => intro p h; simp [selHap] at h
  | abs b _ =>
    intro p h hw
    simp only [selHap] at h
    cases hb : selHap b with
    | none => simp [hb] at h
    | some p' =>
      simp only [hb, Option.map_some, Option.some.injEq] at h
      subst h
      exact absurd rfl (weak_cons.1 hw).1
  | app l r ihl ihr =>
    intro p h hw
    rw [selHap_app] at h
    rw [selCbv_app]
    cases hl : selCbv l with
    | some p' => simpa only [hl] using h
    | none =>
      simp only [hl] at h ⊢
      cases hr : selHap r with
      | some p' =>
        simp only [hr, Option.some.injEq] at h
        subst h
        rw [ihr p' hr (weak_cons.1 hw).2]
      | none =>
        rw [selCbv_none_of_no_redex ((selHap_sound r).2 hr)]
        simp only [hr] at h ⊢
        cases ha : isAbs l with
        | true => simpa [ha] using h
        | false =>
          simp only [ha, Bool.false_eq_true, if_false] at h ⊢
          cases hsl : selHap l with
          | none => simp [hsl] at h
          | some p' =>
            simp only [hsl, Option.map_some, Option.some.injEq] at h
            subst h
            have := ihl p' hsl (weak_cons.1 hw).2
            rw [hl] at this
            cases this

theorem selApp_weak_selHap (t : Term) : ∀ p, selApp t = some p → weak p → selHap t = some p := by
  induction t with
  | var n => intro p h; simp [selApp] at h
  | abs b _ =>
    intro p h hw
    simp only [selApp] at h
    cases hb : selApp b with
    | none => simp [hb] at h
    | some p' =>
      simp only [hb, Option.map_some, Option.some.injEq] at h
      subst h
      exact absurd rfl (weak_cons.1 hw).1
  | app l r _ ihr =>
    intro p h hw
    rw [selApp_app] at h
    rw [selHap_app]
    cases hl : selApp l with
    | some p' =>
      simp only [hl, Option.some.injEq] at h
      subst h
      rw [selApp_weak_selCbv l p' hl (weak_cons.1 hw).2]
    | none =>
      have nl := (selApp_sound l).2 hl
      rw [selCbv_none_of_no_redex nl]
      cases hr : selApp r with
      | some p' =>
        simp only [hl, hr, Option.some.injEq] at h
        subst h
        rw [ihr p' hr (weak_cons.1 hw).2]
      | none =>
        rw [selHap_none_of_no_redex ((selApp_sound r).2 hr)]
        simp only [hl, hr] at h ⊢
        cases ha : isAbs l with
        | true => simpa [ha] using h
        | false => simp [ha] at h

/-- APP's redex is CBV's whenever it lies outside every abstraction -/
theorem isLMI_weak_isLMIW {t : Term} {p : Pos} (h : isLMI t p) (hw : weak p) : isLMIW t p :=
  (sel_iff .CBV t p).1 (selApp_weak_selCbv t p ((sel_iff .APP t p).2 h) hw)

/-- HAP's redex is CBV's whenever it lies outside every abstraction -/
theorem isHAP_weak_isLMIW {t : Term} {p : Pos} (h : isHAP t p) (hw : weak p) : isLMIW t p :=
  (sel_iff .CBV t p).1 (selHap_weak_selCbv t p ((sel_iff .HAP t p).2 h) hw)

/-- APP's redex is HAP's whenever it lies outside every abstraction -/
theorem isLMI_weak_isHAP {t : Term} {p : Pos} (h : isLMI t p) (hw : weak p) : isHAP t p :=
  (sel_iff .HAP t p).1 (selApp_weak_selHap t p ((sel_iff .APP t p).2 h) hw)

/-- on a term all of whose redexes lie outside abstractions, APP, CBV and HAP select the same redex -/
theorem eager_agree_of_all_weak {t : Term} (hall : ∀ q, redexAt t q → weak q) (p : Pos) :
    (isLMI t p ↔ isLMIW t p) ∧ (isHAP t p ↔ isLMIW t p) := by
  refine ⟨⟨fun h => isLMI_weak_isLMIW h (hall p h.1.1), fun h => ?_⟩,
    ⟨fun h => isHAP_weak_isLMIW h (hall p h.1), fun h => ?_⟩⟩
  · cases hs : selApp t with
    | none => exact absurd h.1.1 ((selApp_sound t).2 hs p)
    | some q =>
      have hq := (selApp_sound t).1 q hs
      have := isLMIW_unique h (isLMI_weak_isLMIW hq (hall q hq.1.1))
      subst this
      exact hq
  · cases hs : selHap t with
    | none => exact absurd h.1.1 ((selHap_sound t).2 hs p)
    | some q =>
      have hq := (selHap_sound t).1 q hs
      have := isLMIW_unique h (isHAP_weak_isLMIW hq (hall q hq.1))
      subst this
      exact hq

end Spec
end LC
