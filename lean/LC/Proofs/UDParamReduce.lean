/-
The fuel-indexed reducers of `LC/Model/Reduce.lean` commute with `udToFree k d` (UD renamed to the outer reference
number `k + 1`), for every limit, fuel, start count, and every `k`, `d`: same `none`/`some`, same count, renamed term.
-/
import LC.Proofs.UDParamStep

namespace LC
namespace Term

/-- `udToFree` on the result pair (term, count) of a traversal -/
def udP (k d : Nat) (r : Term × Nat) : Term × Nat := (udToFree k d r.1, r.2)

theorem udToFree_betaCbn (L k : Nat) : ∀ (fuel d : Nat) (t : Term) (c : Nat),
    betaCbn L fuel (udToFree k d t) c = (betaCbn L fuel t c).map (udP k d) := by
  intro fuel
  induction fuel with
  | zero => intros; rfl
  | succ fuel ih =>
    intro d t c
    cases t with
    | var i => cases i <;> (simp only [udToFree_zero, udToFree_succ, betaCbn]; split <;> rfl)
    | abs b => simp only [udToFree_abs, betaCbn]; split <;> rfl
    | app l r =>
      simp only [udToFree_app, betaCbn, ih]
      by_cases hg : gate L c = true
      · rw [if_pos hg, if_pos hg]; rfl
      · rw [if_neg hg, if_neg hg]
        cases hl : betaCbn L fuel l c with
        | none => rfl
        | some p =>
          obtain ⟨l', c'⟩ := p
          simp only [Option.map_some, udP]
          cases l' with
          | var i => cases i <;> rfl
          | abs b =>
            simp only [udToFree_abs]
            by_cases hb : budget L c' = true
            · rw [if_pos hb, if_pos hb, ← udToFree_contract, ih]
            · rw [if_neg hb, if_neg hb]; rfl
          | app l1 l2 => rfl

theorem udToFree_betaNor (L k : Nat) : ∀ (fuel d : Nat) (t : Term) (c : Nat),
    betaNor L fuel (udToFree k d t) c = (betaNor L fuel t c).map (udP k d) := by
  intro fuel
  induction fuel with
  | zero => intros; rfl
  | succ fuel ih =>
    intro d t c
    cases t with
    | var i => cases i <;> (simp only [udToFree_zero, udToFree_succ, betaNor]; split <;> rfl)
    | abs b =>
      simp only [udToFree_abs, betaNor, ih]
      split
      · rfl
      · cases betaNor L fuel b c <;> rfl
    | app l r =>
      simp only [udToFree_app, betaNor, udToFree_betaCbn]
      by_cases hg : gate L c = true
      · rw [if_pos hg, if_pos hg]; rfl
      · rw [if_neg hg, if_neg hg]
        cases hl : betaCbn L fuel l c with
        | none => rfl
        | some p =>
          obtain ⟨l', c1⟩ := p
          simp only [Option.map_some, udP, isAbs_udToFree]
          by_cases hab : (isAbs l' && budget L c1) = true
          · rw [if_pos hab, if_pos hab]
            cases l' with
            | var i => simp [isAbs] at hab
            | abs b => simp only [udToFree_abs]; rw [← udToFree_contract, ih]
            | app l1 l2 => simp [isAbs] at hab
          · rw [if_neg hab, if_neg hab]
            simp only [ih]
            cases betaNor L fuel l' c1 with
            | none => rfl
            | some p2 =>
              obtain ⟨l2, c2⟩ := p2
              simp only [Option.map_some, udP]
              cases betaNor L fuel r c2 <;> rfl

theorem udToFree_betaCbv (L k : Nat) : ∀ (fuel d : Nat) (t : Term) (c : Nat),
    betaCbv L fuel (udToFree k d t) c = (betaCbv L fuel t c).map (udP k d) := by
  intro fuel
  induction fuel with
  | zero => intros; rfl
  | succ fuel ih =>
    intro d t c
    cases t with
    | var i => cases i <;> (simp only [udToFree_zero, udToFree_succ, betaCbv]; split <;> rfl)
    | abs b => simp only [udToFree_abs, betaCbv]; split <;> rfl
    | app l r =>
      simp only [udToFree_app, betaCbv, ih]
      by_cases hg : gate L c = true
      · rw [if_pos hg, if_pos hg]; rfl
      · rw [if_neg hg, if_neg hg]
        cases hl : betaCbv L fuel l c with
        | none => rfl
        | some p =>
          obtain ⟨l', c1⟩ := p
          simp only [Option.map_some, udP]
          cases hr : betaCbv L fuel r c1 with
          | none => rfl
          | some q =>
            obtain ⟨r', c2⟩ := q
            simp only [Option.map_some, udP]
            cases l' with
            | var i => cases i <;> rfl
            | abs b =>
              simp only [udToFree_abs]
              by_cases hb : budget L c2 = true
              · rw [if_pos hb, if_pos hb, ← udToFree_contract, ih]
              · rw [if_neg hb, if_neg hb]; rfl
            | app l1 l2 => rfl

theorem udToFree_betaApp (L k : Nat) : ∀ (fuel d : Nat) (t : Term) (c : Nat),
    betaApp L fuel (udToFree k d t) c = (betaApp L fuel t c).map (udP k d) := by
  intro fuel
  induction fuel with
  | zero => intros; rfl
  | succ fuel ih =>
    intro d t c
    cases t with
    | var i => cases i <;> (simp only [udToFree_zero, udToFree_succ, betaApp]; split <;> rfl)
    | abs b =>
      simp only [udToFree_abs, betaApp, ih]
      split
      · rfl
      · cases betaApp L fuel b c <;> rfl
    | app l r =>
      simp only [udToFree_app, betaApp, ih]
      by_cases hg : gate L c = true
      · rw [if_pos hg, if_pos hg]; rfl
      · rw [if_neg hg, if_neg hg]
        cases hl : betaApp L fuel l c with
        | none => rfl
        | some p =>
          obtain ⟨l', c1⟩ := p
          simp only [Option.map_some, udP]
          cases hr : betaApp L fuel r c1 with
          | none => rfl
          | some q =>
            obtain ⟨r', c2⟩ := q
            simp only [Option.map_some, udP]
            cases l' with
            | var i => cases i <;> rfl
            | abs b =>
              simp only [udToFree_abs]
              by_cases hb : budget L c2 = true
              · rw [if_pos hb, if_pos hb, ← udToFree_contract, ih]
              · rw [if_neg hb, if_neg hb]; rfl
            | app l1 l2 => rfl

theorem udToFree_betaHap (L k : Nat) : ∀ (fuel d : Nat) (t : Term) (c : Nat),
    betaHap L fuel (udToFree k d t) c = (betaHap L fuel t c).map (udP k d) := by
  intro fuel
  induction fuel with
  | zero => intros; rfl
  | succ fuel ih =>
    intro d t c
    cases t with
    | var i => cases i <;> (simp only [udToFree_zero, udToFree_succ, betaHap]; split <;> rfl)
    | abs b =>
      simp only [udToFree_abs, betaHap, ih]
      split
      · rfl
      · cases betaHap L fuel b c <;> rfl
    | app l r =>
      simp only [udToFree_app, betaHap, udToFree_betaCbv]
      by_cases hg : gate L c = true
      · rw [if_pos hg, if_pos hg]; rfl
      · rw [if_neg hg, if_neg hg]
        cases hl : betaCbv L fuel l c with
        | none => rfl
        | some p =>
          obtain ⟨l', c1⟩ := p
          simp only [Option.map_some, udP, ih]
          cases hr : betaHap L fuel r c1 with
          | none => rfl
          | some q =>
            obtain ⟨r', c2⟩ := q
            simp only [Option.map_some, udP, isAbs_udToFree]
            by_cases hab : (isAbs l' && budget L c2) = true
            · rw [if_pos hab, if_pos hab]
              cases l' with
              | var i => simp [isAbs] at hab
              | abs b => simp only [udToFree_abs]; rw [← udToFree_contract, ih]
              | app l1 l2 => simp [isAbs] at hab
            · rw [if_neg hab, if_neg hab]
              cases betaHap L fuel l' c2 <;> rfl

theorem udToFree_betaHsp (L k : Nat) : ∀ (fuel d : Nat) (t : Term) (c : Nat),
    betaHsp L fuel (udToFree k d t) c = (betaHsp L fuel t c).map (udP k d) := by
  intro fuel
  induction fuel with
  | zero => intros; rfl
  | succ fuel ih =>
    intro d t c
    cases t with
    | var i => cases i <;> (simp only [udToFree_zero, udToFree_succ, betaHsp]; split <;> rfl)
    | abs b =>
      simp only [udToFree_abs, betaHsp, ih]
      split
      · rfl
      · cases betaHsp L fuel b c <;> rfl
    | app l r =>
      simp only [udToFree_app, betaHsp, ih]
      by_cases hg : gate L c = true
      · rw [if_pos hg, if_pos hg]; rfl
      · rw [if_neg hg, if_neg hg]
        cases hl : betaHsp L fuel l c with
        | none => rfl
        | some p =>
          obtain ⟨l', c'⟩ := p
          simp only [Option.map_some, udP]
          cases l' with
          | var i => cases i <;> rfl
          | abs b =>
            simp only [udToFree_abs]
            by_cases hb : budget L c' = true
            · rw [if_pos hb, if_pos hb, ← udToFree_contract, ih]
            · rw [if_neg hb, if_neg hb]; rfl
          | app l1 l2 => rfl

theorem udToFree_betaHno (L k : Nat) : ∀ (fuel d : Nat) (t : Term) (c : Nat),
    betaHno L fuel (udToFree k d t) c = (betaHno L fuel t c).map (udP k d) := by
  intro fuel
  induction fuel with
  | zero => intros; rfl
  | succ fuel ih =>
    intro d t c
    cases t with
    | var i => cases i <;> (simp only [udToFree_zero, udToFree_succ, betaHno]; split <;> rfl)
    | abs b =>
      simp only [udToFree_abs, betaHno, ih]
      split
      · rfl
      · cases betaHno L fuel b c <;> rfl
    | app l r =>
      simp only [udToFree_app, betaHno, udToFree_betaHsp]
      by_cases hg : gate L c = true
      · rw [if_pos hg, if_pos hg]; rfl
      · rw [if_neg hg, if_neg hg]
        cases hl : betaHsp L fuel l c with
        | none => rfl
        | some p =>
          obtain ⟨l', c1⟩ := p
          simp only [Option.map_some, udP, isAbs_udToFree]
          by_cases hab : (isAbs l' && budget L c1) = true
          · rw [if_pos hab, if_pos hab]
            cases l' with
            | var i => simp [isAbs] at hab
            | abs b => simp only [udToFree_abs]; rw [← udToFree_contract, ih]
            | app l1 l2 => simp [isAbs] at hab
          · rw [if_neg hab, if_neg hab]
            simp only [ih]
            cases betaHno L fuel l' c1 with
            | none => rfl
            | some p2 =>
              obtain ⟨l2, c2⟩ := p2
              simp only [Option.map_some, udP]
              cases betaHno L fuel r c2 <;> rfl

theorem udToFree_betaOrd (o : Order) (L fuel k d : Nat) (t : Term) (c : Nat) :
    betaOrd o L fuel (udToFree k d t) c = (betaOrd o L fuel t c).map (udP k d) := by
  cases o <;> simp only [betaOrd]
  · exact udToFree_betaNor L k fuel d t c
  · exact udToFree_betaCbn L k fuel d t c
  · exact udToFree_betaHsp L k fuel d t c
  · exact udToFree_betaHno L k fuel d t c
  · exact udToFree_betaApp L k fuel d t c
  · exact udToFree_betaCbv L k fuel d t c
  · exact udToFree_betaHap L k fuel d t c

theorem udToFree_reduce (o : Order) (L fuel k d : Nat) (t : Term) :
    reduce o L fuel (udToFree k d t) = (reduce o L fuel t).map (udP k d) :=
  udToFree_betaOrd o L fuel k d t 0

theorem udToFree_betaFn (o : Order) (L fuel k d : Nat) (t : Term) :
    beta (udToFree k d t) o L fuel = (beta t o L fuel).map (udToFree k d) := by
  simp only [beta, udToFree_reduce]
  cases reduce o L fuel t <;> rfl

end Term
end LC
