/-
Church–Rosser (confluence of β-reduction) for the 1-based de Bruijn term language with the
inert constant `var 0`, by the Tait–Martin-Löf / Takahashi method: parallel reduction `Par`,
complete development `cd`, the triangle property, the diamond property, and transfer to `Star`.
Corollaries: uniqueness of normal forms, and every reduct of a normalising term reduces to
the normal form.
-/
import LC.Proofs.Beta

namespace LC
open Term Spec

namespace Spec

/-! ### parallel reduction -/

/-- parallel β-reduction: contract any set of redexes already present in the term -/
inductive Par : Term → Term → Prop
  | var (n : Nat) : Par (var n) (var n)
  | abs {b b' : Term} : Par b b' → Par (abs b) (abs b')
  | app {l l' r r' : Term} : Par l l' → Par r r' → Par (app l r) (app l' r')
  | beta {b b' a a' : Term} : Par b b' → Par a a' → Par (app (abs b) a) (contract b' a')

theorem Par.refl (t : Term) : Par t t := by
  induction t with
  | var n => exact Par.var n
  | abs b ih => exact Par.abs ih
  | app l r ihl ihr => exact Par.app ihl ihr

/-- `Beta ⊆ Par` -/
theorem Par.of_beta {t u : Term} (h : Beta t u) : Par t u := by
  induction h with
  | red b a => rw [substTop_eq]; exact Par.beta (Par.refl b) (Par.refl a)
  | congAbs _ ih => exact Par.abs ih
  | congAppL _ ih => exact Par.app ih (Par.refl _)
  | congAppR _ ih => exact Par.app (Par.refl _) ih

/-- `Par ⊆ Star` -/
theorem Par.star {t u : Term} (h : Par t u) : Star t u := by
  induction h with
  | var n => exact Star.refl _
  | abs _ ih => exact Star.congAbs ih
  | app _ _ ihl ihr => exact Star.congApp ihl ihr
  | @beta b b' a a' _ _ ihb iha =>
    exact (Star.congApp (Star.congAbs ihb) iha).trans (Star.redc b' a')

/-- `Par` is closed under `shiftFV` -/
theorem Par.shift {t u : Term} (a o : Nat) (h : Par t u) : Par (shiftFV a o t) (shiftFV a o u) := by
  induction h generalizing o with
  | var n => exact Par.refl _
  | abs _ ih => simp only [shiftFV]; exact Par.abs (ih (o+1))
  | app _ _ ihl ihr => simp only [shiftFV]; exact Par.app (ihl o) (ihr o)
  | beta _ _ ihb iha =>
    simp only [shiftFV, shiftFV_contract]; exact Par.beta (ihb (o+1)) (iha o)

/-- `Par` is closed under substitution, in the strong (simultaneous) form -/
theorem Par.subst {t t' s s' : Term} (h : Par t t') (hs : Par s s') (e : Nat) (he : 1 ≤ e) :
    Par (applyAux s e t) (applyAux s' e t') := by
  induction h generalizing e with
  | var n =>
    simp only [applyAux]
    split
    · exact hs.shift _ _
    · split <;> exact Par.refl _
  | abs _ ih => simp only [applyAux]; exact Par.abs (ih (e+1) (by omega))
  | app _ _ ihl ihr => simp only [applyAux]; exact Par.app (ihl e he) (ihr e he)
  | beta _ _ ihb iha =>
    simp only [applyAux, applyAux_contract _ _ he]
    exact Par.beta (ihb (e+1) (by omega)) (iha e he)

/-- `Par` is compatible with contraction -/
theorem Par.contract {b b' a a' : Term} (hb : Par b b') (ha : Par a a') :
    Par (contract b a) (contract b' a') :=
  Par.subst hb ha 1 (by omega)

/-! ### complete development -/

/-- complete development: contract all redexes present in the term, simultaneously -/
def cd : Term → Term
  | var n => var n
  | abs b => abs (cd b)
  | app (abs b) a => contract (cd b) (cd a)
  | app (var n) r => app (var n) (cd r)
  | app (app l1 l2) r => app (cd (app l1 l2)) (cd r)

/-- inversion of `Par` at an abstraction -/
theorem Par.abs_inv {b u : Term} (h : Par (Term.abs b) u) : ∃ b', u = Term.abs b' ∧ Par b b' := by
  cases h with
  | abs hb => exact ⟨_, rfl, hb⟩

/-- the triangle property (Takahashi): every parallel reduct reduces to the complete development -/
theorem Par.triangle {t u : Term} (h : Par t u) : Par u (cd t) := by
  induction h with
  | var n => exact Par.var n
  | abs _ ih => simp only [cd]; exact Par.abs ih
  | @app l l' r r' hl hr ihl ihr =>
    cases l with
    | var n =>
      cases hl
      simp only [cd]; exact Par.app (Par.var n) ihr
    | abs b =>
      obtain ⟨b', rfl, _⟩ := hl.abs_inv
      simp only [cd] at ihl ⊢
      obtain ⟨c, hc, hbc⟩ := ihl.abs_inv
      cases hc
      exact Par.beta hbc ihr
    | app l1 l2 => simp only [cd]; exact Par.app ihl ihr
  | beta _ _ ihb iha => simp only [cd]; exact Par.contract ihb iha

/-- the diamond property of parallel reduction -/
theorem Par.diamond {t u v : Term} (h1 : Par t u) (h2 : Par t v) : ∃ w, Par u w ∧ Par v w :=
  ⟨cd t, h1.triangle, h2.triangle⟩

/-! ### reflexive-transitive closure of `Par` and confluence -/

/-- reflexive-transitive closure of `Par` -/
inductive ParStar : Term → Term → Prop
  | refl (t : Term) : ParStar t t
  | head {t u v : Term} : Par t u → ParStar u v → ParStar t v

theorem ParStar.trans {t u v : Term} (h1 : ParStar t u) (h2 : ParStar u v) : ParStar t v := by
  induction h1 with
  | refl _ => exact h2
  | head hp _ ih => exact ParStar.head hp (ih h2)

theorem ParStar.star {t u : Term} (h : ParStar t u) : Star t u := by
  induction h with
  | refl _ => exact Star.refl _
  | head hp _ ih => exact hp.star.trans ih

theorem ParStar.of_star {t u : Term} (h : Star t u) : ParStar t u := by
  induction h with
  | refl _ => exact ParStar.refl _
  | head hb _ ih => exact ParStar.head (Par.of_beta hb) ih

/-- strip lemma -/
theorem Par.strip {t u v : Term} (h1 : Par t u) (h2 : ParStar t v) :
    ∃ w, ParStar u w ∧ Par v w := by
  induction h2 generalizing u with
  | refl t => exact ⟨u, ParStar.refl _, h1⟩
  | head hp _ ih =>
    obtain ⟨x, hux, hx⟩ := h1.diamond hp
    obtain ⟨w, hxw, hvw⟩ := ih hx
    exact ⟨w, ParStar.head hux hxw, hvw⟩

/-- confluence of `ParStar` -/
theorem ParStar.confluence {t u v : Term} (h1 : ParStar t u) (h2 : ParStar t v) :
    ∃ w, ParStar u w ∧ ParStar v w := by
  induction h1 generalizing v with
  | refl t => exact ⟨v, h2, ParStar.refl _⟩
  | head hp _ ih =>
    obtain ⟨x, hx1, hx2⟩ := hp.strip h2
    obtain ⟨w, hw1, hw2⟩ := ih hx1
    exact ⟨w, hw1, ParStar.head hx2 hw2⟩

/-! ### main theorems -/

/-- Church–Rosser: β-reduction is confluent -/
theorem church_rosser {t u v : Term} (h1 : Star t u) (h2 : Star t v) : ∃ w, Star u w ∧ Star v w := by
  obtain ⟨w, hw1, hw2⟩ := (ParStar.of_star h1).confluence (ParStar.of_star h2)
  exact ⟨w, hw1.star, hw2.star⟩

/-- a normal term reduces only to itself -/
theorem Star.eq_of_normal {n w : Term} (h : Star n w) (hn : Normal n) : w = n := by
  cases h with
  | refl _ => rfl
  | head hb _ => exact absurd hb (hn _)

/-- normal forms are unique -/
theorem normal_unique {t n1 n2 : Term} (h1 : Star t n1) (h2 : Star t n2) (hn1 : Normal n1) (hn2 : Normal n2) : n1 = n2 := by
  obtain ⟨w, hw1, hw2⟩ := church_rosser h1 h2
  rw [← hw1.eq_of_normal hn1, hw2.eq_of_normal hn2]

/-- every reduct of a term with normal form `n` still reduces to `n` -/
theorem star_normal_of_star {t u n : Term} (h1 : Star t u) (h2 : Star t n) (hn : Normal n) : Star u n := by
  obtain ⟨w, hw1, hw2⟩ := church_rosser h1 h2
  rw [hw2.eq_of_normal hn] at hw1
  exact hw1

end Spec
end LC
