/-
The representation boundary of De Bruijn indices, part 4: the seven traversals with the checked `eval`.

`betaXChk M limit fuel t c` is `betaX limit fuel t c` of `Model/Reduce.lean` with the contraction made by
`contractChk M` (a panic of `eval` unwinds the whole call).  Answers: `ChkRes.fuel` (out of model fuel, never an
answer of the crate), `ChkRes.panic` ("De Bruijn index overflow"), `ChkRes.ret t' c'` (the term left in place and the
count).

`ChkRel M c x y` relates the checked answer `x` to the unbounded answer `y` of the same call started at count `c`:
* `x = fuel`  → `y = none`;
* `x = ret t' c'` → `y = some (t', c')` and `t'` is representable;
* `x = panic` → if the unbounded call returns `(t', c')` then it made at least one contraction, and if it made exactly
  one, `t'` is NOT representable.
`betaOrdChk_rel`: this holds for every order, limit, fuel, count and every representable input.  With limit 1 (what
`reduceb` uses) it decides the checked answer completely (`Props/C01BoundedTraversal.lean`).
-/
import LC.Proofs.BoundedStep
import LC.Proofs.Refine.All

namespace LC
namespace Term

/-- answer of a checked traversal -/
inductive ChkRes where
  | fuel
  | panic
  | ret (t : Term) (c : Nat)
deriving DecidableEq, Repr

/-- `beta_cbn` with checked `eval` -/
def betaCbnChk (M limit : Nat) : Nat → Term → Nat → ChkRes
  | 0, _, _ => .fuel
  | fuel+1, t, c =>
    if gate limit c then .ret t c else
    match t with
    | app l r =>
      match betaCbnChk M limit fuel l c with
      | .fuel => .fuel
      | .panic => .panic
      | .ret l' c' =>
        match l' with
        | abs b =>
          if budget limit c' then
            match contractChk M b r with
            | none => .panic
            | some u => betaCbnChk M limit fuel u (c'+1)
          else .ret (app l' r) c'
        | _ => .ret (app l' r) c'
    | t => .ret t c

/-- `beta_nor` with checked `eval` -/
def betaNorChk (M limit : Nat) : Nat → Term → Nat → ChkRes
  | 0, _, _ => .fuel
  | fuel+1, t, c =>
    if gate limit c then .ret t c else
    match t with
    | abs b =>
      match betaNorChk M limit fuel b c with
      | .fuel => .fuel
      | .panic => .panic
      | .ret b' c1 => .ret (abs b') c1
    | app l r =>
      match betaCbnChk M limit fuel l c with
      | .fuel => .fuel
      | .panic => .panic
      | .ret l' c1 =>
        if isAbs l' && budget limit c1 then
          match l' with
          | abs b =>
            match contractChk M b r with
            | none => .panic
            | some u => betaNorChk M limit fuel u (c1+1)
          | _ => .fuel
        else
          match betaNorChk M limit fuel l' c1 with
          | .fuel => .fuel
          | .panic => .panic
          | .ret l2 c2 =>
            match betaNorChk M limit fuel r c2 with
            | .fuel => .fuel
            | .panic => .panic
            | .ret r' c3 => .ret (app l2 r') c3
    | t => .ret t c

/-- `beta_cbv` with checked `eval` -/
def betaCbvChk (M limit : Nat) : Nat → Term → Nat → ChkRes
  | 0, _, _ => .fuel
  | fuel+1, t, c =>
    if gate limit c then .ret t c else
    match t with
    | app l r =>
      match betaCbvChk M limit fuel l c with
      | .fuel => .fuel
      | .panic => .panic
      | .ret l' c1 =>
        match betaCbvChk M limit fuel r c1 with
        | .fuel => .fuel
        | .panic => .panic
        | .ret r' c2 =>
          match l' with
          | abs b =>
            if budget limit c2 then
              match contractChk M b r' with
              | none => .panic
              | some u => betaCbvChk M limit fuel u (c2+1)
            else .ret (app l' r') c2
          | _ => .ret (app l' r') c2
    | t => .ret t c

/-- `beta_app` with checked `eval` -/
def betaAppChk (M limit : Nat) : Nat → Term → Nat → ChkRes
  | 0, _, _ => .fuel
  | fuel+1, t, c =>
    if gate limit c then .ret t c else
    match t with
    | abs b =>
      match betaAppChk M limit fuel b c with
      | .fuel => .fuel
      | .panic => .panic
      | .ret b' c1 => .ret (abs b') c1
    | app l r =>
      match betaAppChk M limit fuel l c with
      | .fuel => .fuel
      | .panic => .panic
      | .ret l' c1 =>
        match betaAppChk M limit fuel r c1 with
        | .fuel => .fuel
        | .panic => .panic
        | .ret r' c2 =>
          match l' with
          | abs b =>
            if budget limit c2 then
              match contractChk M b r' with
              | none => .panic
              | some u => betaAppChk M limit fuel u (c2+1)
            else .ret (app l' r') c2
          | _ => .ret (app l' r') c2
    | t => .ret t c

/-- `beta_hap` with checked `eval` -/
def betaHapChk (M limit : Nat) : Nat → Term → Nat → ChkRes
  | 0, _, _ => .fuel
  | fuel+1, t, c =>
    if gate limit c then .ret t c else
    match t with
    | abs b =>
      match betaHapChk M limit fuel b c with
      | .fuel => .fuel
      | .panic => .panic
      | .ret b' c1 => .ret (abs b') c1
    | app l r =>
      match betaCbvChk M limit fuel l c with
      | .fuel => .fuel
      | .panic => .panic
      | .ret l' c1 =>
        match betaHapChk M limit fuel r c1 with
        | .fuel => .fuel
        | .panic => .panic
        | .ret r' c2 =>
          if isAbs l' && budget limit c2 then
            match l' with
            | abs b =>
              match contractChk M b r' with
              | none => .panic
              | some u => betaHapChk M limit fuel u (c2+1)
            | _ => .fuel
          else
            match betaHapChk M limit fuel l' c2 with
            | .fuel => .fuel
            | .panic => .panic
            | .ret l2 c3 => .ret (app l2 r') c3
    | t => .ret t c

/-- `beta_hsp` with checked `eval` -/
def betaHspChk (M limit : Nat) : Nat → Term → Nat → ChkRes
  | 0, _, _ => .fuel
  | fuel+1, t, c =>
    if gate limit c then .ret t c else
    match t with
    | abs b =>
      match betaHspChk M limit fuel b c with
      | .fuel => .fuel
      | .panic => .panic
      | .ret b' c1 => .ret (abs b') c1
    | app l r =>
      match betaHspChk M limit fuel l c with
      | .fuel => .fuel
      | .panic => .panic
      | .ret l' c1 =>
        match l' with
        | abs b =>
          if budget limit c1 then
            match contractChk M b r with
            | none => .panic
            | some u => betaHspChk M limit fuel u (c1+1)
          else .ret (app l' r) c1
        | _ => .ret (app l' r) c1
    | t => .ret t c

/-- `beta_hno` with checked `eval` -/
def betaHnoChk (M limit : Nat) : Nat → Term → Nat → ChkRes
  | 0, _, _ => .fuel
  | fuel+1, t, c =>
    if gate limit c then .ret t c else
    match t with
    | abs b =>
      match betaHnoChk M limit fuel b c with
      | .fuel => .fuel
      | .panic => .panic
      | .ret b' c1 => .ret (abs b') c1
    | app l r =>
      match betaHspChk M limit fuel l c with
      | .fuel => .fuel
      | .panic => .panic
      | .ret l' c1 =>
        if isAbs l' && budget limit c1 then
          match l' with
          | abs b =>
            match contractChk M b r with
            | none => .panic
            | some u => betaHnoChk M limit fuel u (c1+1)
          | _ => .fuel
        else
          match betaHnoChk M limit fuel l' c1 with
          | .fuel => .fuel
          | .panic => .panic
          | .ret l2 c2 =>
            match betaHnoChk M limit fuel r c2 with
            | .fuel => .fuel
            | .panic => .panic
            | .ret r' c3 => .ret (app l2 r') c3
    | t => .ret t c

/-- dispatch of `reduce` -/
def betaOrdChk (M : Nat) (o : Order) (limit fuel : Nat) (t : Term) (c : Nat) : ChkRes :=
  match o with
  | .CBN => betaCbnChk M limit fuel t c
  | .NOR => betaNorChk M limit fuel t c
  | .CBV => betaCbvChk M limit fuel t c
  | .APP => betaAppChk M limit fuel t c
  | .HSP => betaHspChk M limit fuel t c
  | .HNO => betaHnoChk M limit fuel t c
  | .HAP => betaHapChk M limit fuel t c

/-- `Term::reduce(order, limit)` on `usize`-like indices -/
def reduceChk (M : Nat) (o : Order) (limit fuel : Nat) (t : Term) : ChkRes :=
  betaOrdChk M o limit fuel t 0

/-! ### the relation between checked and unbounded answers -/

/-- see the header -/
def ChkRel (M c : Nat) (x : ChkRes) (y : Option (Term × Nat)) : Prop :=
  match x with
  | .fuel => y = none
  | .ret t' c' => y = some (t', c') ∧ maxIndex t' ≤ M
  | .panic => ∀ t' c', y = some (t', c') → c < c' ∧ (c' = c + 1 → M < maxIndex t')

theorem ChkRel.weaken {M c c1 : Nat} {x : ChkRes} {y : Option (Term × Nat)} (hle : c ≤ c1) (h : ChkRel M c1 x y) :
    ChkRel M c x y := by
  cases x with
  | fuel => exact h
  | ret t' c' => exact h
  | panic =>
    intro t' c' hy
    obtain ⟨h1, h2⟩ := h t' c' hy
    exact ⟨by omega, fun e => h2 (by omega)⟩

/-- a panic in a sub-call whose result `(t1, c1)` the rest of the unbounded call keeps (whenever it makes no further
contraction) is a panic of the call in the sense of `ChkRel` -/
theorem ChkRel.panic_of_sub {M c c1 : Nat} {t1 : Term} {z : Option (Term × Nat)}
    (h1 : c < c1 ∧ (c1 = c + 1 → M < maxIndex t1))
    (keep : ∀ t' c', z = some (t', c') → c1 ≤ c' ∧ (c' = c1 → maxIndex t1 ≤ maxIndex t')) :
    ChkRel M c .panic z := by
  intro t' c' hz
  obtain ⟨k1, k2⟩ := keep t' c' hz
  refine ⟨by omega, fun e => ?_⟩
  have := h1.2 (by omega)
  have := k2 (by omega)
  omega

/-- what `reduce_sound` says about counts: a call never decreases the count, leaves the term alone when it does not
increase it, and stays within the limit -/
theorem Post.count_facts {step : Term → Option Term} {L c : Nat} {t t' : Term} {c' : Nat} (h : Post step L c t t' c') :
    c ≤ c' ∧ (c' = c → t' = t) ∧ (L = 0 ∨ c' ≤ L) := by
  obtain ⟨k, hk, it, hle, _⟩ := h
  refine ⟨by omega, fun e => ?_, ?_⟩
  · have : k = 0 := by omega
    subst this
    exact it.zero_eq
  · by_cases hL : L = 0
    · exact Or.inl hL
    · exact Or.inr (hle hL)

theorem budget_of_not_gate {L c : Nat} (hc : L = 0 ∨ c ≤ L) (hg : ¬ gate L c = true) : budget L c = true := by
  simp only [gate, Bool.and_eq_true, bne_iff_ne, ne_eq, beq_iff_eq, not_and] at hg
  simp only [budget, Bool.or_eq_true, beq_iff_eq, decide_eq_true_eq]
  by_cases hL : L = 0
  · exact Or.inl hL
  · have := hg hL
    right; omega

theorem budget_succ_ok {L c : Nat} (hb : budget L c = true) : L = 0 ∨ c + 1 ≤ L := by
  simp only [budget, Bool.or_eq_true, beq_iff_eq, decide_eq_true_eq] at hb
  omega

theorem contractChk_none_lt {M : Nat} {b a : Term} (hb : maxIndex b ≤ M) (ha : maxIndex a ≤ M)
    (h : contractChk M b a = none) : M < maxIndex (contract b a) := by
  rw [contractChk_eq M b a hb ha] at h
  exact guardIdx_eq_none.1 h

theorem contractChk_some_le {M : Nat} {b a u : Term} (hb : maxIndex b ≤ M) (ha : maxIndex a ≤ M)
    (h : contractChk M b a = some u) : u = contract b a ∧ maxIndex u ≤ M := by
  rw [contractChk_eq M b a hb ha] at h
  obtain ⟨rfl, h2⟩ := guardIdx_eq_some.1 h
  exact ⟨rfl, h2⟩

theorem betaCbn_facts {L fuel : Nat} {t : Term} {c : Nat} {t' : Term} {c' : Nat}
    (h : betaCbn L fuel t c = some (t', c')) (hc : L = 0 ∨ c ≤ L) :
    c ≤ c' ∧ (c' = c → t' = t) ∧ (L = 0 ∨ c' ≤ L) :=
  Post.count_facts (step := stepCbn) (betaCbn_sound L fuel t c t' c' h hc)

theorem betaNor_facts {L fuel : Nat} {t : Term} {c : Nat} {t' : Term} {c' : Nat}
    (h : betaNor L fuel t c = some (t', c')) (hc : L = 0 ∨ c ≤ L) :
    c ≤ c' ∧ (c' = c → t' = t) ∧ (L = 0 ∨ c' ≤ L) :=
  Post.count_facts (betaNor_sound L fuel t c t' c' h hc)

theorem betaCbv_facts {L fuel : Nat} {t : Term} {c : Nat} {t' : Term} {c' : Nat}
    (h : betaCbv L fuel t c = some (t', c')) (hc : L = 0 ∨ c ≤ L) :
    c ≤ c' ∧ (c' = c → t' = t) ∧ (L = 0 ∨ c' ≤ L) :=
  Post.count_facts (betaCbv_sound L fuel t c t' c' h hc)

theorem betaApp_facts {L fuel : Nat} {t : Term} {c : Nat} {t' : Term} {c' : Nat}
    (h : betaApp L fuel t c = some (t', c')) (hc : L = 0 ∨ c ≤ L) :
    c ≤ c' ∧ (c' = c → t' = t) ∧ (L = 0 ∨ c' ≤ L) :=
  Post.count_facts (betaApp_sound L fuel t c t' c' h hc)

theorem betaHap_facts {L fuel : Nat} {t : Term} {c : Nat} {t' : Term} {c' : Nat}
    (h : betaHap L fuel t c = some (t', c')) (hc : L = 0 ∨ c ≤ L) :
    c ≤ c' ∧ (c' = c → t' = t) ∧ (L = 0 ∨ c' ≤ L) :=
  Post.count_facts (betaHap_sound L fuel t c t' c' h hc)

theorem betaHsp_facts {L fuel : Nat} {t : Term} {c : Nat} {t' : Term} {c' : Nat}
    (h : betaHsp L fuel t c = some (t', c')) (hc : L = 0 ∨ c ≤ L) :
    c ≤ c' ∧ (c' = c → t' = t) ∧ (L = 0 ∨ c' ≤ L) :=
  Post.count_facts (betaHsp_sound L fuel t c t' c' h hc)

theorem betaHno_facts {L fuel : Nat} {t : Term} {c : Nat} {t' : Term} {c' : Nat}
    (h : betaHno L fuel t c = some (t', c')) (hc : L = 0 ∨ c ≤ L) :
    c ≤ c' ∧ (c' = c → t' = t) ∧ (L = 0 ∨ c' ≤ L) :=
  Post.count_facts (betaHno_sound L fuel t c t' c' h hc)

/-! ### CBN -/

theorem betaCbnChk_rel (M L : Nat) : ∀ fuel t c, maxIndex t ≤ M → (L = 0 ∨ c ≤ L) →
    ChkRel M c (betaCbnChk M L fuel t c) (betaCbn L fuel t c) := by
  intro fuel
  induction fuel with
  | zero => intro t c _ _; rfl
  | succ fuel ih =>
    intro t c ht hc
    unfold betaCbnChk betaCbn
    by_cases hg : gate L c = true
    · simp only [hg, if_true]; exact ⟨rfl, ht⟩
    · simp only [hg]
      cases t with
      | var i => exact ⟨rfl, ht⟩
      | abs b => exact ⟨rfl, ht⟩
      | app l r =>
        simp only [maxIndex] at ht
        have hl : maxIndex l ≤ M := by omega
        have hr : maxIndex r ≤ M := by omega
        have ihl := ih l c hl hc
        simp only []
        cases hy : betaCbn L fuel l c with
        | none =>
          rw [hy] at ihl
          cases hx : betaCbnChk M L fuel l c with
          | fuel => rfl
          | panic => intro t' c' h; cases h
          | ret l' c1 => rw [hx] at ihl; cases ihl.1
        | some p =>
          obtain ⟨l', c1⟩ := p
          rw [hy] at ihl
          obtain ⟨u1, u2, u3⟩ := betaCbn_facts hy hc
          simp only []
          cases hx : betaCbnChk M L fuel l c with
          | fuel => rw [hx] at ihl; cases ihl
          | panic =>
            rw [hx] at ihl
            apply ChkRel.panic_of_sub (ihl l' c1 rfl)
            intro t' c' hz
            cases l' with
            | abs b =>
              simp only [] at hz
              by_cases hb : budget L c1 = true
              · simp only [hb, if_true] at hz
                obtain ⟨v1, _, _⟩ := betaCbn_facts hz (budget_succ_ok hb)
                exact ⟨by omega, fun e => by omega⟩
              · simp only [hb] at hz
                cases hz
                exact ⟨Nat.le_refl _, fun _ => by simp only [maxIndex]; omega⟩
            | var i => cases hz; exact ⟨Nat.le_refl _, fun _ => by simp only [maxIndex]; omega⟩
            | app a b => cases hz; exact ⟨Nat.le_refl _, fun _ => by simp only [maxIndex]; omega⟩
          | ret l2 c2 =>
            rw [hx] at ihl
            obtain ⟨e, hm⟩ := ihl
            cases e
            apply ChkRel.weaken u1
            cases l' with
            | abs b =>
              simp only []
              simp only [maxIndex] at hm
              by_cases hb : budget L c1 = true
              · simp only [hb, if_true]
                cases hk : contractChk M b r with
                | none =>
                  intro t' c' hz
                  obtain ⟨v1, v2, _⟩ := betaCbn_facts hz (budget_succ_ok hb)
                  refine ⟨by omega, fun e => ?_⟩
                  rw [v2 e]
                  exact contractChk_none_lt hm hr hk
                | some u =>
                  obtain ⟨rfl, hu⟩ := contractChk_some_le hm hr hk
                  exact ChkRel.weaken (by omega) (ih _ (c1 + 1) hu (budget_succ_ok hb))
              · simp only [hb]
                exact ⟨rfl, by simp only [maxIndex]; omega⟩
            | var i => exact ⟨rfl, by simp only [maxIndex] at hm ⊢; omega⟩
            | app a b => exact ⟨rfl, by simp only [maxIndex] at hm ⊢; omega⟩

end Term
end LC
