/-
Upper bound on the fuel (call depth) of a traversal: a run of `k` contractions all of whose
iterates have height ≤ `H` returns with any fuel ≥ `k + H + 1`.  This file: the bookkeeping
predicate `HB` and the orders CBN, CBV, HSP (which call only themselves).
-/
import LC.Proofs.FuelBounds

namespace LC
namespace Term

/-- all iterates `t = t₀, …, t_k` of `step` (as far as they exist) have height ≤ `H` -/
def HB (step : Term → Option Term) (H k : Nat) (t : Term) : Prop :=
  ∀ j, j ≤ k → ∀ u, Iter step j t u → height u ≤ H

namespace HB
variable {s step : Term → Option Term} {H k : Nat}

theorem here {t} (hb : HB step H k t) : height t ≤ H := hb 0 (Nat.zero_le _) t (Iter.zero _)

theorem mono {t k'} (hb : HB step H k t) (hk : k' ≤ k) : HB step H k' t :=
  fun j hj u it => hb j (Nat.le_trans hj hk) u it

theorem shift {t t1 k1 k2} (it : Iter step k1 t t1) (hb : HB step H k t) (hk : k1 + k2 ≤ k) :
    HB step H k2 t1 :=
  fun j hj u it2 => hb (k1 + j) (by omega) u (it.trans it2)

theorem appL {l r} (lift : ∀ j u, Iter s j l u → Iter step j (app l r) (app u r))
    (hb : HB step H k (app l r)) : HB s (H - 1) k l := fun j hj u it => by
  have := hb j hj _ (lift j u it); simp only [height] at this; omega

theorem appR {l r} (lift : ∀ j u, Iter s j r u → Iter step j (app l r) (app l u))
    (hb : HB step H k (app l r)) : HB s (H - 1) k r := fun j hj u it => by
  have := hb j hj _ (lift j u it); simp only [height] at this; omega

theorem abs {b} (lift : ∀ j u, Iter s j b u → Iter step j (abs b) (abs u))
    (hb : HB step H k (abs b)) : HB s (H - 1) k b := fun j hj u it => by
  have := hb j hj _ (lift j u it); simp only [height] at this; omega

theorem of_height {t} (h : height t ≤ H) : HB step H 0 t := fun j hj u it => by
  have : j = 0 := by omega
  subst this; rw [it.zero_eq]; exact h

theorem pos_app {l r} (hb : HB step H k (app l r)) : 1 ≤ H := by
  have := hb.here; simp only [height] at this; omega

theorem pos_abs {b} (hb : HB step H k (Term.abs b)) : 1 ≤ H := by
  have := hb.here; simp only [height] at this; omega

end HB

theorem betaCbn_fuel (L : Nat) : ∀ fuel t c t' c', betaCbn L fuel t c = some (t', c') →
    (L = 0 ∨ c ≤ L) → ∀ H k, c' = c + k → HB stepCbn H k t →
    ∀ g, k + H + 1 ≤ g → betaCbn L g t c = some (t', c') := by
  intro fuel
  induction fuel with
  | zero => intro t c t' c' h; simp [betaCbn] at h
  | succ fuel ih =>
    intro t c t' c' h hc H k hk hb g hg
    obtain ⟨g, rfl⟩ : ∃ g', g = g' + 1 := ⟨g - 1, by omega⟩
    by_cases hgate : gate L c = true
    · simp [betaCbn, hgate] at h ⊢; exact h
    · cases t with
      | var i => simp [betaCbn, hgate] at h ⊢; exact h
      | abs b => simp [betaCbn, hgate] at h ⊢; exact h
      | app l r =>
        have hH := hb.pos_app
        rw [betaCbn] at h ⊢
        simp only [hgate] at h ⊢
        cases hl : betaCbn L fuel l c with
        | none => simp [hl] at h
        | some p =>
          obtain ⟨l', c1⟩ := p
          obtain ⟨k1, rfl, it1, hle1, hnf1⟩ := betaCbn_sound L _ _ _ _ _ hl hc
          simp only [hl] at h
          have key : k1 ≤ k → betaCbn L g l c = some (l', c + k1) := fun hk1 =>
            ih _ _ _ _ hl hc (H - 1) k1 rfl ((hb.mono hk1).appL (fun _ _ it => Iter.cbn_app r it)) g
              (by omega)
          cases l' with
          | var i =>
            simp at h; obtain ⟨rfl, h2⟩ := h
            rw [key (by omega)]; simp [h2]
          | app a1 a2 =>
            simp at h; obtain ⟨rfl, h2⟩ := h
            rw [key (by omega)]; simp [h2]
          | abs b =>
            simp only at h ⊢
            by_cases hbud : budget L (c + k1) = true
            · simp only [hbud, if_true] at h
              have hc1 : L = 0 ∨ c + k1 + 1 ≤ L := by simp [budget] at hbud; omega
              obtain ⟨k2, hk2, it2, _, _⟩ := betaCbn_sound L _ _ _ _ _ h hc1
              rw [key (by omega)]
              simp only [hbud, if_true]
              exact ih _ _ _ _ h hc1 H k2 hk2
                (hb.shift ((Iter.cbn_app r it1).trans (Iter.one (by simp [stepCbn]))) (by omega))
                g (by omega)
            · simp [hbud] at h; obtain ⟨rfl, h2⟩ := h
              subst h2
              rw [key (by omega)]; simp [hbud]

theorem betaHsp_fuel (L : Nat) : ∀ fuel t c t' c', betaHsp L fuel t c = some (t', c') →
    (L = 0 ∨ c ≤ L) → ∀ H k, c' = c + k → HB stepHsp H k t →
    ∀ g, k + H + 1 ≤ g → betaHsp L g t c = some (t', c') := by
  intro fuel
  induction fuel with
  | zero => intro t c t' c' h; simp [betaHsp] at h
  | succ fuel ih =>
    intro t c t' c' h hc H k hk hb g hg
    obtain ⟨g, rfl⟩ : ∃ g', g = g' + 1 := ⟨g - 1, by omega⟩
    by_cases hgate : gate L c = true
    · simp [betaHsp, hgate] at h ⊢; exact h
    · cases t with
      | var i => simp [betaHsp, hgate] at h ⊢; exact h
      | abs b =>
        have hH := hb.pos_abs
        rw [betaHsp] at h ⊢
        simp only [hgate] at h ⊢
        cases hb' : betaHsp L fuel b c with
        | none => simp [hb'] at h
        | some p =>
          obtain ⟨b', c1⟩ := p
          simp [hb'] at h; obtain ⟨rfl, rfl⟩ := h
          rw [ih _ _ _ _ hb' hc (H - 1) k hk (hb.abs (fun _ _ it => Iter.hsp_abs it)) g (by omega)]
          simp
      | app l r =>
        have hH := hb.pos_app
        rw [betaHsp] at h ⊢
        simp only [hgate] at h ⊢
        cases hl : betaHsp L fuel l c with
        | none => simp [hl] at h
        | some p =>
          obtain ⟨l', c1⟩ := p
          obtain ⟨k1, rfl, it1, hle1, hnf1⟩ := betaHsp_sound L _ _ _ _ _ hl hc
          simp only [hl] at h
          have key : k1 ≤ k → betaHsp L g l c = some (l', c + k1) := fun hk1 =>
            ih _ _ _ _ hl hc (H - 1) k1 rfl ((hb.mono hk1).appL (fun _ _ it => Iter.hsp_app r it)) g
              (by omega)
          cases l' with
          | var i =>
            simp at h; obtain ⟨rfl, h2⟩ := h
            rw [key (by omega)]; simp [h2]
          | app a1 a2 =>
            simp at h; obtain ⟨rfl, h2⟩ := h
            rw [key (by omega)]; simp [h2]
          | abs b =>
            simp only at h ⊢
            by_cases hbud : budget L (c + k1) = true
            · simp only [hbud, if_true] at h
              have hb1 : L = 0 ∨ c + k1 < L := by simp [budget] at hbud; omega
              have hc1 : L = 0 ∨ c + k1 + 1 ≤ L := by omega
              obtain ⟨k2, hk2, it2, _, _⟩ := betaHsp_sound L _ _ _ _ _ h hc1
              rw [key (by omega)]
              simp only [hbud, if_true]
              exact ih _ _ _ _ h hc1 H k2 hk2
                (hb.shift ((Iter.hsp_app r it1).trans (Iter.one (stepHsp_app_redex r (hnf1 hb1))))
                  (by omega))
                g (by omega)
            · simp [hbud] at h; obtain ⟨rfl, h2⟩ := h
              subst h2
              rw [key (by omega)]; simp [hbud]

theorem betaCbv_fuel (L : Nat) : ∀ fuel t c t' c', betaCbv L fuel t c = some (t', c') →
    (L = 0 ∨ c ≤ L) → ∀ H k, c' = c + k → HB stepCbv H k t →
    ∀ g, k + H + 1 ≤ g → betaCbv L g t c = some (t', c') := by
  intro fuel
  induction fuel with
  | zero => intro t c t' c' h; simp [betaCbv] at h
  | succ fuel ih =>
    intro t c t' c' h hc H k hk hb g hg
    obtain ⟨g, rfl⟩ : ∃ g', g = g' + 1 := ⟨g - 1, by omega⟩
    by_cases hgate : gate L c = true
    · simp [betaCbv, hgate] at h ⊢; exact h
    · cases t with
      | var i => simp [betaCbv, hgate] at h ⊢; exact h
      | abs b => simp [betaCbv, hgate] at h ⊢; exact h
      | app l r =>
        have hH := hb.pos_app
        have hhr : height r ≤ H - 1 := by have := hb.here; simp only [height] at this; omega
        rw [betaCbv] at h ⊢
        simp only [hgate] at h ⊢
        cases hl : betaCbv L fuel l c with
        | none => simp [hl] at h
        | some p =>
          obtain ⟨l', c1⟩ := p
          have P1 := betaCbv_sound L _ _ _ _ _ hl hc
          have hc1 := P1.budget_ok'
          obtain ⟨k1, rfl, it1, hle1, hnf1⟩ := P1
          simp only [hl] at h
          cases hr : betaCbv L fuel r (c + k1) with
          | none => simp [hr] at h
          | some p =>
            obtain ⟨r', c2⟩ := p
            have P2 := betaCbv_sound L _ _ _ _ _ hr hc1
            have hc2 := P2.budget_ok'
            obtain ⟨k2, rfl, it2, hle2, hnf2⟩ := P2
            simp only [hr] at h
            have hn1 : k2 ≠ 0 → stepCbv l' = none := by
              intro hk2; apply hnf1
              by_cases hL : L = 0
              · exact Or.inl hL
              · have := hle2 hL; right; omega
            have it12 : Iter stepCbv (k1 + k2) (app l r) (app l' r') := Iter.cbv_app it1 it2 hn1
            have key1 : k1 + k2 ≤ k → betaCbv L g l c = some (l', c + k1) := fun hk1 =>
              ih _ _ _ _ hl hc (H - 1) k1 rfl
                ((hb.mono (show k1 ≤ k by omega)).appL (fun _ _ it => Iter.cbv_app_left r it)) g
                (by omega)
            have key2 : k1 + k2 ≤ k → betaCbv L g r (c + k1) = some (r', c + k1 + k2) := fun hk1 => by
              refine ih _ _ _ _ hr hc1 (H - 1) k2 rfl ?_ g (by omega)
              by_cases hk2 : k2 = 0
              · subst hk2; exact HB.of_height hhr
              · exact (hb.shift (Iter.cbv_app_left r it1) hk1).appR
                  (fun _ _ it => Iter.cbv_app_right l' (hn1 hk2) it)
            cases l' with
            | var i =>
              simp at h; obtain ⟨rfl, h2⟩ := h
              have e1 := key1 (by omega); have e2 := key2 (by omega)
              simp [e1, e2]; omega
            | app a1 a2 =>
              simp at h; obtain ⟨rfl, h2⟩ := h
              have e1 := key1 (by omega); have e2 := key2 (by omega)
              simp [e1, e2]; omega
            | abs b =>
              simp only at h ⊢
              by_cases hbud : budget L (c + k1 + k2) = true
              · simp only [hbud, if_true] at h
                have hb1 : L = 0 ∨ c + k1 + k2 < L := by simp [budget] at hbud; omega
                have hc3 : L = 0 ∨ c + k1 + k2 + 1 ≤ L := by omega
                obtain ⟨k3, hk3, it3, _, _⟩ := betaCbv_sound L _ _ _ _ _ h hc3
                have e1 := key1 (by omega); have e2 := key2 (by omega)
                simp only [e1, e2, hbud, if_true]
                exact ih _ _ _ _ h hc3 H k3 hk3
                  (hb.shift (it12.trans (Iter.one (stepCbv_app_red (hnf2 hb1)))) (by omega))
                  g (by omega)
              · simp [hbud] at h; obtain ⟨rfl, h2⟩ := h
                subst hk
                have e1 := key1 (by omega); have e2 := key2 (by omega)
                simp [e1, e2, hbud]; omega

end Term
end LC
