/-
The representation boundary of De Bruijn indices, part 11: the exact characterisation of the checked traversals, all
seven orders, every limit, fuel and starting count (from `betaOrdChk_rel` and `betaOrdChk_ex`).

* `betaOrdChk_ret_iff`: the checked call returns `(t', c')` iff the unbounded call returns `(t', c')` and all iterates of
  the strategy up to the `(c' - c)`-th are representable;
* `betaOrdChk_panic`: a panic (any fuel, whether or not the unbounded call returns with that fuel) exhibits an iterate
  within the limit that is not representable;
* `betaOrdChk_panic_iff`: when the unbounded call returns `(t', c')`, the checked call panics iff some iterate up to the
  `(c' - c)`-th is not representable, iff some iterate within the limit is not representable;
* `betaOrdChk_not_ret_of_bad`: with a non-representable iterate within the limit the checked call returns for no fuel.
-/
import LC.Proofs.BoundedTraversalExactHap

namespace LC
namespace Term

/-- a non-representable iterate within the limit lies within the run that the unbounded call performs -/
theorem Post.bad_within {M L c : Nat} {f : Term → Option Term} {t t' : Term} {c' : Nat}
    (P : Post f L c t t' c') (h : Bad M L f c t) :
    ∃ j u, c + j ≤ c' ∧ Iter f j t u ∧ M < maxIndex u := by
  obtain ⟨k', e, it, hle, hnf⟩ := P
  obtain ⟨k, u, itu, hu, hb⟩ := h
  refine ⟨k, u, ?_, itu, hu⟩
  by_cases hk : k ≤ k'
  · omega
  · have hn : f t' = none := hnf (by omega)
    have := RL.iter_le_of_none it hn itu
    omega

/-- conversely, the run of the unbounded call stays within the limit -/
theorem Post.bad_of_within {M L c : Nat} {f : Term → Option Term} {t t' : Term} {c' : Nat}
    (P : Post f L c t t' c') (h : ∃ j u, c + j ≤ c' ∧ Iter f j t u ∧ M < maxIndex u) : Bad M L f c t := by
  obtain ⟨k', e, it, hle, hnf⟩ := P
  obtain ⟨j, u, hj, itu, hu⟩ := h
  refine ⟨j, u, itu, hu, ?_⟩
  by_cases hL : L = 0
  · exact Or.inl hL
  · have := hle hL; right; omega

theorem betaOrdChk_ret_iff (M : Nat) (o : Order) (L fuel : Nat) (t : Term) (c : Nat) (t' : Term) (c' : Nat)
    (ht : maxIndex t ≤ M) (hc : L = 0 ∨ c ≤ L) :
    betaOrdChk M o L fuel t c = .ret t' c' ↔
      (betaOrd o L fuel t c = some (t', c') ∧
        ∀ j u, c + j ≤ c' → Iter (stepOrd o) j t u → maxIndex u ≤ M) := by
  have hrel := betaOrdChk_rel M o L fuel t c ht hc
  have hex := betaOrdChk_ex M o L fuel t c ht hc
  constructor
  · intro h
    rw [h] at hrel hex
    obtain ⟨k, e, r⟩ := hex
    exact ⟨hrel.1, fun j u hj it => r j u (by omega) it⟩
  · rintro ⟨hy, hall⟩
    cases hx : betaOrdChk M o L fuel t c with
    | fuel =>
      rw [hx, hy] at hrel
      cases hrel
    | ret t2 c2 =>
      rw [hx, hy] at hrel
      obtain ⟨e, _⟩ := hrel
      cases e
      rfl
    | panic =>
      rw [hx] at hex
      obtain ⟨j, u, hj, it, hu⟩ := (betaOrd_sound o L fuel t c t' c' hy hc).bad_within hex
      have := hall j u hj it
      omega

theorem betaOrdChk_panic (M : Nat) (o : Order) (L fuel : Nat) (t : Term) (c : Nat)
    (ht : maxIndex t ≤ M) (hc : L = 0 ∨ c ≤ L) (h : betaOrdChk M o L fuel t c = .panic) :
    ∃ j u, (L = 0 ∨ c + j ≤ L) ∧ Iter (stepOrd o) j t u ∧ M < maxIndex u := by
  have hex := betaOrdChk_ex M o L fuel t c ht hc
  rw [h] at hex
  obtain ⟨k, u, it, hu, hb⟩ := hex
  exact ⟨k, u, hb, it, hu⟩

theorem betaOrdChk_panic_iff (M : Nat) (o : Order) (L fuel : Nat) (t : Term) (c : Nat) (t' : Term) (c' : Nat)
    (ht : maxIndex t ≤ M) (hc : L = 0 ∨ c ≤ L) (hy : betaOrd o L fuel t c = some (t', c')) :
    (betaOrdChk M o L fuel t c = .panic ↔ ∃ j u, c + j ≤ c' ∧ Iter (stepOrd o) j t u ∧ M < maxIndex u) ∧
    (betaOrdChk M o L fuel t c = .panic ↔
      ∃ j u, (L = 0 ∨ c + j ≤ L) ∧ Iter (stepOrd o) j t u ∧ M < maxIndex u) := by
  have hrel := betaOrdChk_rel M o L fuel t c ht hc
  have P := betaOrd_sound o L fuel t c t' c' hy hc
  have key : betaOrdChk M o L fuel t c = .panic ↔
      ∃ j u, c + j ≤ c' ∧ Iter (stepOrd o) j t u ∧ M < maxIndex u := by
    constructor
    · intro h
      have hex := betaOrdChk_ex M o L fuel t c ht hc
      rw [h] at hex
      exact P.bad_within hex
    · rintro ⟨j, u, hj, it, hu⟩
      cases hx : betaOrdChk M o L fuel t c with
      | fuel =>
        rw [hx, hy] at hrel
        cases hrel
      | panic => rfl
      | ret t2 c2 =>
        have h2 := (betaOrdChk_ret_iff M o L fuel t c t2 c2 ht hc).1 hx
        rw [hy] at h2
        obtain ⟨e, hall⟩ := h2
        cases e
        have := hall j u hj it
        omega
  refine ⟨key, key.trans ⟨fun h => ?_, fun h => ?_⟩⟩
  · obtain ⟨k, u, it, hu, hb⟩ := P.bad_of_within (M := M) h
    exact ⟨k, u, hb, it, hu⟩
  · obtain ⟨j, u, hb, it, hu⟩ := h
    exact P.bad_within ⟨j, u, it, hu, hb⟩

/-- with a non-representable iterate within the limit the checked call does not return, whatever the fuel -/
theorem betaOrdChk_not_ret_of_bad (M : Nat) (o : Order) (L fuel : Nat) (t : Term) (c : Nat)
    (ht : maxIndex t ≤ M) (hc : L = 0 ∨ c ≤ L)
    (h : ∃ j u, (L = 0 ∨ c + j ≤ L) ∧ Iter (stepOrd o) j t u ∧ M < maxIndex u) (t' : Term) (c' : Nat) :
    betaOrdChk M o L fuel t c ≠ .ret t' c' := by
  intro hx
  obtain ⟨hy, hall⟩ := (betaOrdChk_ret_iff M o L fuel t c t' c' ht hc).1 hx
  obtain ⟨j, u, hb, it, hu⟩ := h
  obtain ⟨j', u', hj', it', hu'⟩ := (betaOrd_sound o L fuel t c t' c' hy hc).bad_within ⟨j, u, it, hu, hb⟩
  have := hall j' u' hj' it'
  omega

end Term
end LC
