/-
UD (`var 0`) is an inert constant: it behaves exactly like a free variable that nobody else uses.

`udToFree k d t` replaces every occurrence of UD in `t` (a term standing under `d` binders) by the outer reference
number `k + 1`, i.e. by `var (k + d + 1)` at that place.  This file shows that the substitution machinery of the
model (`shiftFV`, `applyAux`, `contract`, `isAbs`, `Term.apply`), the specification's substitution
(`lift`, `subst`, `lower`, `substTop`, `Beta`) and the seven small-step strategies all commute with `udToFree k d`,
for every `k` and `d` (no freshness hypothesis).  The fuel-indexed reducers are treated in `LC/Proofs/UDParamReduce.lean`.
-/
import LC.Spec.Strategy
import LC.Spec.Beta
import LC.Proofs.SubstTop

namespace LC
namespace Term

/-- replace every occurrence of UD (`var 0`) by the outer reference number `k+1`, i.e. by `var (k + d + 1)` under `d` binders -/
def udToFree (k : Nat) (d : Nat) : Term → Term
  | var 0 => var (k + d + 1)
  | var (i+1) => var (i+1)
  | abs b => abs (udToFree k (d+1) b)
  | app l r => app (udToFree k d l) (udToFree k d r)

@[simp] theorem udToFree_zero (k d : Nat) : udToFree k d (var 0) = var (k + d + 1) := rfl

@[simp] theorem udToFree_succ (k d i : Nat) : udToFree k d (var (i + 1)) = var (i + 1) := rfl

theorem udToFree_var (k d i : Nat) : udToFree k d (var i) = var (if i = 0 then k + d + 1 else i) := by
  cases i <;> simp [udToFree]

theorem udToFree_pos (k d : Nat) {i : Nat} (h : 0 < i) : udToFree k d (var i) = var i := by
  cases i with
  | zero => omega
  | succ i => rfl

@[simp] theorem udToFree_abs (k d : Nat) (b : Term) : udToFree k d (abs b) = abs (udToFree k (d+1) b) := rfl

@[simp] theorem udToFree_app (k d : Nat) (l r : Term) :
    udToFree k d (app l r) = app (udToFree k d l) (udToFree k d r) := rfl

/-- `udToFree` commutes with `update_free_variables`: the replaced UD is an outer reference, so it is shifted with the
other free variables of the argument -/
theorem udToFree_shiftFV (k d added own : Nat) (t : Term) :
    udToFree k (d + added + own) (shiftFV added own t) = shiftFV added own (udToFree k (d + own) t) := by
  induction t generalizing own with
  | var i =>
    cases i with
    | zero =>
      have h1 : ¬ (0 > own) := by omega
      have h2 : k + (d + own) + 1 > own := by omega
      simp only [shiftFV, udToFree_zero, h1, h2, if_false, if_true]
      congr 1; omega
    | succ i =>
      simp only [shiftFV, udToFree_succ]
      split
      · exact udToFree_pos _ _ (by omega)
      · rfl
  | abs b ih =>
    simp only [shiftFV, udToFree]
    rw [show d + added + own + 1 = d + added + (own + 1) by omega, ih (own + 1)]
    rfl
  | app l r ihl ihr => simp [shiftFV, udToFree, ihl, ihr]

/-- `udToFree` commutes with `_apply` at every depth `e + 1 ≥ 1`: the body stands under `d + e + 1` binders, the
argument under `d`, the result under `d + e` -/
theorem udToFree_applyAux (k d e : Nat) (rhs t : Term) :
    udToFree k (d + e) (applyAux rhs (e + 1) t)
      = applyAux (udToFree k d rhs) (e + 1) (udToFree k (d + e + 1) t) := by
  induction t generalizing e with
  | var i =>
    cases i with
    | zero =>
      have h1 : ¬ (0 = e + 1) := by omega
      have h2 : ¬ (0 > e + 1) := by omega
      have h3 : ¬ (k + (d + e + 1) + 1 = e + 1) := by omega
      have h4 : k + (d + e + 1) + 1 > e + 1 := by omega
      simp only [applyAux, udToFree, h1, h2, h3, h4, if_false, if_true]
      congr 1
    | succ i =>
      simp only [udToFree, applyAux]
      by_cases h : i + 1 = e + 1
      · simp only [h, if_true]
        have := udToFree_shiftFV k d e 0 rhs
        simpa using this
      · simp only [h, if_false]
        split
        · have : i + 1 - 1 = (i - 1) + 1 := by omega
          rw [this]; rfl
        · rfl
  | abs b ih =>
    simp only [applyAux, udToFree]
    rw [show d + e + 1 = d + (e + 1) by omega, ih (e + 1)]
  | app l r ihl ihr => simp [applyAux, udToFree, ihl, ihr]

theorem udToFree_contract (k d : Nat) (b a : Term) :
    udToFree k d (contract b a) = contract (udToFree k (d + 1) b) (udToFree k d a) := by
  have := udToFree_applyAux k d 0 a b
  simpa [contract] using this

@[simp] theorem isAbs_udToFree (k d : Nat) (t : Term) : isAbs (udToFree k d t) = isAbs t := by
  cases t with
  | var i => cases i <;> rfl
  | abs b => rfl
  | app l r => rfl

theorem udToFree_apply (k d : Nat) (t a : Term) :
    Term.apply (udToFree k d t) (udToFree k d a) = (Term.apply t a).map (udToFree k d) := by
  cases t with
  | var i => cases i <;> rfl
  | abs b =>
    simp only [udToFree_abs, Term.apply, Except.map]
    rw [← contract, ← contract, udToFree_contract]
  | app l r => rfl

theorem udToFree_applyMut (k d : Nat) (t a : Term) :
    applyMut (udToFree k d t) (udToFree k d a) = (udToFree k d (applyMut t a).1, (applyMut t a).2) := by
  cases t with
  | var i => cases i <;> rfl
  | abs b =>
    simp only [udToFree_abs, applyMut]
    rw [← contract, ← contract, udToFree_contract]
  | app l r => rfl

end Term

/-! ### the specification's substitution -/
namespace Spec
open Term

theorem udToFree_lift (k d c : Nat) (t : Term) :
    udToFree k (d + c + 1) (lift c t) = lift c (udToFree k (d + c) t) := by
  rw [lift_eq_shiftFV, lift_eq_shiftFV]
  have := udToFree_shiftFV k d 1 c t
  simpa [Nat.add_assoc, Nat.add_comm 1 c] using this

theorem udToFree_substTop (k d : Nat) (b a : Term) :
    udToFree k d (substTop b a) = substTop (udToFree k (d + 1) b) (udToFree k d a) := by
  rw [substTop_eq, substTop_eq, udToFree_contract]

/-- C01/C08: one β-step of the specification is preserved when UD is renamed to a free variable -/
theorem udToFree_beta {t u : Term} (h : Beta t u) (k d : Nat) : Beta (udToFree k d t) (udToFree k d u) := by
  induction h generalizing d with
  | red b a => rw [udToFree_substTop]; exact Beta.red _ _
  | congAbs _ ih => exact Beta.congAbs (ih (d + 1))
  | congAppL _ ih => exact Beta.congAppL (ih d)
  | congAppR _ ih => exact Beta.congAppR (ih d)

theorem udToFree_steps {n : Nat} {t u : Term} (h : Steps n t u) (k d : Nat) :
    Steps n (udToFree k d t) (udToFree k d u) := by
  induction h with
  | zero t => exact Steps.zero _
  | succ hb _ ih => exact Steps.succ (udToFree_beta hb k d) ih

theorem udToFree_star {t u : Term} (h : Star t u) (k d : Nat) :
    Star (udToFree k d t) (udToFree k d u) := by
  induction h with
  | refl t => exact Star.refl _
  | head hb _ ih => exact Star.head (udToFree_beta hb k d) ih

end Spec
end LC
