/-
Upper bound on the fuel of a traversal (continued): HAP (which calls CBV on operators).
-/
import LC.Proofs.FuelBoundsUpper

namespace LC
namespace Term
open Spec

theorem betaHap_fuel (L : Nat) : ∀ fuel t c t' c', betaHap L fuel t c = some (t', c') →
    (L = 0 ∨ c ≤ L) → ∀ H k, c' = c + k → HB stepHap H k t →
    ∀ g, k + H + 1 ≤ g → betaHap L g t c = some (t', c') := by
  intro fuel
  induction fuel with
  | zero => intro t c t' c' h; simp [betaHap] at h
  | succ fuel ih =>
    intro t c t' c' h hc H k hk hb g hg
    obtain ⟨g, rfl⟩ : ∃ g', g = g' + 1 := ⟨g - 1, by omega⟩
    by_cases hgate : gate L c = true
    · simp [betaHap, hgate] at h ⊢; exact h
    · cases t with
      | var i => simp [betaHap, hgate] at h ⊢; exact h
      | abs b =>
        have hH := hb.pos_abs
        rw [betaHap] at h ⊢
        simp only [hgate] at h ⊢
        cases hb' : betaHap L fuel b c with
        | none => simp [hb'] at h
        | some p =>
          obtain ⟨b', c1⟩ := p
          simp [hb'] at h; obtain ⟨rfl, rfl⟩ := h
          rw [ih _ _ _ _ hb' hc (H - 1) k hk (hb.abs (fun _ _ it => Iter.hap_abs it)) g (by omega)]
          simp
      | app l r =>
        have hH := hb.pos_app
        have hhr : height r ≤ H - 1 := by have := hb.here; simp only [height] at this; omega
        rw [betaHap] at h ⊢
        simp only [hgate] at h ⊢
        cases hl : betaCbv L fuel l c with
        | none => simp [hl] at h
        | some p =>
          obtain ⟨l', c1⟩ := p
          have P1 := betaCbv_sound L _ _ _ _ _ hl hc
          have hc1 := P1.budget_ok'
          obtain ⟨k1, rfl, it1, hle1, hnf1⟩ := P1
          simp only [hl] at h
          cases hr : betaHap L fuel r (c + k1) with
          | none => simp [hr] at h
          | some p =>
            obtain ⟨r', c2⟩ := p
            have P2 := betaHap_sound L _ _ _ _ _ hr hc1
            have hc2 := P2.budget_ok'
            obtain ⟨k2, rfl, it2, hle2, hnf2⟩ := P2
            simp only [hr] at h
            have hn1 : k2 ≠ 0 → stepCbv l' = none := by
              intro hk2; apply hnf1
              by_cases hL : L = 0
              · exact Or.inl hL
              · have := hle2 hL; right; omega
            have it12 : Iter stepHap (k1 + k2) (app l r) (app l' r') := Iter.hap_app it1 it2 hn1
            have key1 : k1 + k2 ≤ k → betaCbv L g l c = some (l', c + k1) := fun hk1 =>
              betaCbv_fuel L _ _ _ _ _ hl hc (H - 1) k1 rfl
                ((hb.mono (show k1 ≤ k by omega)).appL (fun _ _ it => Iter.cbv_hap_app r it)) g
                (by omega)
            have key2 : k1 + k2 ≤ k → betaHap L g r (c + k1) = some (r', c + k1 + k2) := fun hk1 => by
              refine ih _ _ _ _ hr hc1 (H - 1) k2 rfl ?_ g (by omega)
              by_cases hk2 : k2 = 0
              · subst hk2; exact HB.of_height hhr
              · exact (hb.shift (Iter.cbv_hap_app r it1) hk1).appR
                  (fun _ _ it => Iter.hap_app_right l' (hn1 hk2) it)
            by_cases hred : (isAbs l' && budget L (c + k1 + k2)) = true
            · rw [if_pos hred] at h
              cases l' with
              | var i => simp [isAbs] at hred
              | app a1 a2 => simp [isAbs] at hred
              | abs b =>
                simp only at h
                have hbud : budget L (c + k1 + k2) = true := by simpa [isAbs] using hred
                have hb' : L = 0 ∨ c + k1 + k2 < L := by simp [budget] at hbud; omega
                have hc3 : L = 0 ∨ c + k1 + k2 + 1 ≤ L := by omega
                obtain ⟨k3, hk3, it3, _, _⟩ := betaHap_sound L _ _ _ _ _ h hc3
                have e1 := key1 (by omega)
                have e2 := key2 (by omega)
                simp only [e1, e2]
                rw [if_pos hred]
                exact ih _ _ _ _ h hc3 H k3 hk3
                  (hb.shift (it12.trans (Iter.one (stepHap_app_red (hnf2 hb')))) (by omega))
                  g (by omega)
            · rw [if_neg hred] at h
              cases hl2 : betaHap L fuel l' (c + k1 + k2) with
              | none => simp [hl2] at h
              | some p =>
                obtain ⟨l2, c3⟩ := p
                obtain ⟨k3, rfl, it3, hle3, hnf3⟩ := betaHap_sound L _ _ _ _ _ hl2 hc2
                simp [hl2] at h; obtain ⟨rfl, h2⟩ := h
                have hkk : k = k1 + k2 + k3 := by omega
                have hb12 : HB stepHap H k3 (app l' r') := hb.shift it12 (by omega)
                have e1 := key1 (by omega)
                have e2 := key2 (by omega)
                have e3 : betaHap L g l' (c + k1 + k2) = some (l2, c + k1 + k2 + k3) := by
                  refine ih _ _ _ _ hl2 hc2 (H - 1) k3 rfl ?_ g (by omega)
                  by_cases hk3 : k3 = 0
                  · subst hk3
                    have := hb12.here; simp only [height] at this
                    exact HB.of_height (by omega)
                  · have hbud : L = 0 ∨ c + k1 + k2 < L := by
                      by_cases hL : L = 0
                      · exact Or.inl hL
                      · have := hle3 hL; right; omega
                    have hna : isAbs l' = false := by
                      cases hia : isAbs l' with
                      | false => rfl
                      | true => exfalso; apply hred; simp [hia, budget]; omega
                    have hb1 : L = 0 ∨ c + k1 < L := by omega
                    have hw := isWNF_of_stepCbv_none (hnf1 hb1)
                    have hneu := isWNF_neutral hw hna
                    have hrn := hnf2 hbud
                    exact hb12.appL (fun _ _ it => (Iter.hap_app_left r' hw hneu hrn it).1)
                simp only [e1, e2]
                rw [if_neg hred]
                simp [e3]; omega

end Term
end LC
