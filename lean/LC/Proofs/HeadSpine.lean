/-
Head-spine reduction (`stepHsp`) terminates whenever a head normal form is reachable.

Route: `stepHead` is true head reduction (strip the leading abstractions, then one weak head
step).  By standardisation, if a head normal form is reachable then the `stepHead` run is finite
(`head_terminates`).  `stepHead` commutes with substitution, so a finite head run of
`contract b r` splits into a finite head run of `b` followed by a head run of the instantiated
head normal form (`head_subst_split`).  From this, by induction on the length of the head run:
the `stepHsp` run has the *same length and the same result* as the head run (`head_hsp`) —
head-spine reduction merely reorders the head steps.
-/
import LC.Proofs.Normalisation

namespace LC
open Term Spec

/-- head reduction: strip the leading abstractions, then contract the head redex -/
def Term.stepHead : Term → Option Term
  | var _ => none
  | abs b => (stepHead b).map abs
  | app l r => stepCbn (app l r)

/-! ### normal forms of `stepHsp` and `stepHead` -/

theorem neutral_isHNF {t : Term} (h : neutral t = true) : isHNF t = true := by
  cases t with
  | var i => rfl
  | abs b => simp [neutral] at h
  | app l r => simpa [isHNF] using h

theorem isHNF_app (l r : Term) : isHNF (app l r) = neutral l := by
  simp [isHNF, neutral]

theorem isHNF_not_abs {t : Term} (h : isAbs t = false) : isHNF t = neutral t := by
  cases t with
  | var i => rfl
  | abs b => simp [isAbs] at h
  | app l r => simp [isHNF]

theorem stepHsp_app_none_cp (l r : Term) :
    stepHsp (app l r) = none ↔ stepHsp l = none ∧ isAbs l = false := by
  simp only [stepHsp]
  generalize stepHsp l = o
  cases o <;> cases l <;> simp [isAbs]

theorem stepHsp_none_iff (t : Term) : stepHsp t = none ↔ isHNF t = true := by
  induction t with
  | var i => simp [stepHsp, isHNF, neutral]
  | abs b ih => simp [stepHsp, isHNF, ih]
  | app l r ihl _ =>
    rw [isHNF_app, stepHsp_app_none_cp, ihl]
    constructor
    · rintro ⟨h1, h2⟩; rwa [isHNF_not_abs h2] at h1
    · intro h; exact ⟨neutral_isHNF h, neutral_not_abs h⟩

theorem stepHead_none_iff (t : Term) : stepHead t = none ↔ isHNF t = true := by
  induction t with
  | var i => simp [stepHead, isHNF, neutral]
  | abs b ih => simp [stepHead, isHNF, ih]
  | app l r _ _ =>
    simp only [stepHead]
    rw [stepCbn_none_iff]; simp [isWHNF, isHNF]

/-! ### lifting runs -/

theorem stepCbn_stepHead {t u : Term} (h : stepCbn t = some u) : stepHead t = some u := by
  cases t with
  | var i => simp [stepCbn] at h
  | abs b => simp [stepCbn] at h
  | app l r => simpa [stepHead] using h

theorem Term.Iter.cbn_head {k : Nat} {t u : Term} (h : Iter stepCbn k t u) : Iter stepHead k t u := by
  induction h with
  | zero t => exact Iter.zero _
  | succ hs _ ih => exact Iter.succ (stepCbn_stepHead hs) ih

theorem Term.Iter.head_abs {k : Nat} {b b' : Term} (h : Iter stepHead k b b') :
    Iter stepHead k (Term.abs b) (Term.abs b') := by
  induction h with
  | zero t => exact Iter.zero _
  | succ hs _ ih => exact Iter.succ (by simp [stepHead, hs]) ih

theorem Term.Iter.head_abs_inv {k : Nat} {b h : Term} (hi : Iter stepHead k (Term.abs b) h) :
    ∃ b', h = Term.abs b' ∧ Iter stepHead k b b' := by
  induction k generalizing b with
  | zero => cases hi; exact ⟨b, rfl, Iter.zero _⟩
  | succ k ih =>
    cases hi with
    | succ hs hi' =>
      simp [stepHead] at hs
      obtain ⟨b1, hb1, rfl⟩ := hs
      obtain ⟨b', rfl, hb'⟩ := ih hi'
      exact ⟨b', rfl, Iter.succ hb1 hb'⟩

theorem Term.Iter.hsp_abs {k : Nat} {b b' : Term} (h : Iter stepHsp k b b') :
    Iter stepHsp k (Term.abs b) (Term.abs b') := by
  induction h with
  | zero t => exact Iter.zero _
  | succ hs _ ih => exact Iter.succ (by simp [stepHsp, hs]) ih

theorem Term.Iter.hsp_app {k : Nat} {l l' : Term} (r : Term) (h : Iter stepHsp k l l') :
    Iter stepHsp k (Term.app l r) (Term.app l' r) := by
  induction h with
  | zero t => exact Iter.zero _
  | succ hs _ ih => exact Iter.succ (by simp [stepHsp, hs]) ih

/-! ### head reduction and substitution -/

theorem stepCbn_applyAux (r : Term) (e : Nat) (he : 1 ≤ e) {b b1 : Term} (h : stepCbn b = some b1) :
    stepCbn (applyAux r e b) = some (applyAux r e b1) :=
  (W_iff_stepCbn _ _).1 (((W_iff_stepCbn _ _).2 h).subst r e he)

/-- head steps commute with substitution -/
theorem stepHead_applyAux (r : Term) (e : Nat) (he : 1 ≤ e) {b b1 : Term} (h : stepHead b = some b1) :
    stepHead (applyAux r e b) = some (applyAux r e b1) := by
  induction b generalizing e b1 with
  | var i => simp [stepHead] at h
  | abs b ih =>
    simp [stepHead] at h
    obtain ⟨b2, hb2, rfl⟩ := h
    simp [applyAux, stepHead, ih (e + 1) (by omega) hb2]
  | app l r' _ _ =>
    simp only [stepHead] at h
    have := stepCbn_applyAux r e he h
    simp only [applyAux] at this ⊢
    simpa [stepHead] using this

/-- a finite head run of an instance `b[r]` splits into a finite head run of `b` to a head normal
form `b'`, followed by the head run of `b'[r]` -/
theorem head_subst_split (r : Term) (e : Nat) (he : 1 ≤ e) :
    ∀ (k : Nat) (b h : Term), Iter stepHead k (applyAux r e b) h → isHNF h = true →
      ∃ m b', m ≤ k ∧ Iter stepHead m b b' ∧ isHNF b' = true ∧
        Iter stepHead (k - m) (applyAux r e b') h := by
  intro k
  induction k with
  | zero =>
    intro b h hi hh
    cases hb : stepHead b with
    | none => exact ⟨0, b, Nat.le_refl _, Iter.zero _, (stepHead_none_iff b).1 hb, hi⟩
    | some b1 =>
      have hc := stepHead_applyAux r e he hb
      cases hi
      rw [(stepHead_none_iff _).2 hh] at hc; cases hc
  | succ k ih =>
    intro b h hi hh
    cases hb : stepHead b with
    | none => exact ⟨0, b, Nat.zero_le _, Iter.zero _, (stepHead_none_iff b).1 hb, hi⟩
    | some b1 =>
      have hc := stepHead_applyAux r e he hb
      cases hi with
      | succ hs hi' =>
        rw [hc] at hs; cases hs
        obtain ⟨m, b', hm, h1, h2, h3⟩ := ih b1 h hi' hh
        exact ⟨m + 1, b', by omega, Iter.succ hb h1, h2, h3.cast (by omega)⟩

/-- shape of a head run of an application: either the operator only takes weak head steps, or
it reaches an abstraction, the root redex is contracted, and the run continues -/
theorem head_app_split (r : Term) : ∀ (n : Nat) (l h : Term), Iter stepHead n (app l r) h →
    (∃ l', Iter stepCbn n l l' ∧ h = app l' r) ∨
    (∃ j b, j < n ∧ Iter stepCbn j l (abs b) ∧ Iter stepHead (n - j - 1) (contract b r) h) := by
  intro n
  induction n with
  | zero => intro l h hi; cases hi; exact Or.inl ⟨l, Iter.zero _, rfl⟩
  | succ n ih =>
    intro l h hi
    cases hi with
    | succ hs hi' =>
      simp only [stepHead] at hs
      cases l with
      | var i => simp [stepCbn] at hs
      | abs b =>
        simp [stepCbn] at hs; subst hs
        exact Or.inr ⟨0, b, by omega, Iter.zero _, by simpa using hi'⟩
      | app l1 l2 =>
        simp [stepCbn] at hs
        obtain ⟨a, ha, rfl⟩ := hs
        rcases ih a h hi' with ⟨l', hl, rfl⟩ | ⟨j, b, hj, hl, hc⟩
        · exact Or.inl ⟨l', Iter.succ ha hl, rfl⟩
        · exact Or.inr ⟨j + 1, b, by omega, Iter.succ ha hl, hc.cast (by omega)⟩

/-! ### head-spine reduction follows head reduction -/

/-- the head-spine run has the same length and the same result as a terminating head run -/
theorem head_hsp (n : Nat) : ∀ (t h : Term), Iter stepHead n t h → isHNF h = true →
    Iter stepHsp n t h := by
  induction n using Nat.strongRecOn with
  | _ n IH =>
    intro t
    induction t with
    | var i =>
      intro h hi hh
      obtain ⟨rfl, rfl⟩ := hi.of_none (by simp [stepHead])
      exact Iter.zero _
    | abs b ihb =>
      intro h hi hh
      obtain ⟨b', rfl, hb'⟩ := hi.head_abs_inv
      exact (ihb b' hb' (by simpa [isHNF] using hh)).hsp_abs
    | app l r ihl _ =>
      intro h hi hh
      rcases head_app_split r n l h hi with ⟨l', hl, rfl⟩ | ⟨j, b, hj, hl, hc⟩
      · rw [isHNF_app] at hh
        exact (ihl l' hl.cbn_head (neutral_isHNF hh)).hsp_app r
      · obtain ⟨m, b', hm, hb, hb', hc'⟩ := head_subst_split r 1 (Nat.le_refl _) _ b h hc hh
        have h1 : Iter stepHead (j + m) l (abs b') := hl.cbn_head.trans hb.head_abs
        have h2 : Iter stepHsp (j + m) l (abs b') :=
          IH (j + m) (by omega) l (abs b') h1 (by simpa [isHNF] using hb')
        have h3 : stepHsp (app (abs b') r) = some (contract b' r) := by
          have : stepHsp (abs b') = none := (stepHsp_none_iff _).2 (by simpa [isHNF] using hb')
          simp only [stepHsp] at this ⊢
          simp [this]
        have h4 : Iter stepHsp (n - j - 1 - m) (contract b' r) h :=
          IH (n - j - 1 - m) (by omega) _ h hc' hh
        exact ((h2.hsp_app r).trans (Iter.succ h3 h4)).cast (by omega)

/-! ### termination -/

/-- a standard reduction to a head normal form starts with a finite head run to a head normal
form -/
theorem Spec.Std.head_terminates {t h : Term} (hs : Std t h) (hh : isHNF h = true) :
    ∃ n h', Iter stepHead n t h' ∧ isHNF h' = true := by
  induction hs with
  | @var L x hw =>
    obtain ⟨k, hk⟩ := (WS_iff_iter _ _).1 hw
    exact ⟨k, _, hk.cbn_head, rfl⟩
  | @abs L A B hw _ ih =>
    obtain ⟨k, hk⟩ := (WS_iff_iter _ _).1 hw
    obtain ⟨n, A', h1, h2⟩ := ih (by simpa [isHNF] using hh)
    exact ⟨k + n, Term.abs A', hk.cbn_head.trans h1.head_abs, by simpa [isHNF] using h2⟩
  | @app L A B C D hw ha hb _ _ =>
    obtain ⟨k, t', h1, h2, _⟩ := (Std.app hw ha hb).cbn_neutral (by simpa [isHNF] using hh)
    exact ⟨k, t', h1.cbn_head, neutral_isHNF h2⟩

/-- head reduction terminates whenever a head normal form is reachable -/
theorem head_terminates {t h : Term} (hs : Star t h) (hh : isHNF h = true) :
    ∃ n h', Iter stepHead n t h' ∧ stepHead h' = none := by
  obtain ⟨n, h', h1, h2⟩ := (standardisation hs).head_terminates hh
  exact ⟨n, h', h1, (stepHead_none_iff _).2 h2⟩

/-- HSP terminates whenever a head normal form is reachable -/
theorem hsp_terminates {t h : Term} (hs : Star t h) (hh : isHNF h = true) :
    ∃ k h', Iter stepHsp k t h' ∧ stepHsp h' = none := by
  obtain ⟨n, h', h1, h2⟩ := (standardisation hs).head_terminates hh
  exact ⟨n, h', head_hsp n t h' h1 h2, (stepHsp_none_iff _).2 h2⟩

end LC
