/-
Hybrid applicative order (HAP) selects the first redex in the order `hapBefore`
(`LC/Proofs/PositionsMore.lean`, specification section), and the summary for all seven orders:
`stepOrd o t = (sel o t).map (contractAt t)`, `sel o t = some p ↔ Sel o t p`, uniqueness.
-/
import LC.Proofs.PositionsMore

namespace LC
namespace Spec
open Term

/-! ### the orders on positions are asymmetric -/

theorem cbvBefore_asymm {p q : Pos} (h : cbvBefore p q) : ¬ cbvBefore q p := by
  rintro h'
  rcases h with h | ⟨s, hs, hp⟩
  · rcases h' with h' | ⟨s', _, hq⟩
    · exact leftOf_asymm h h'
    · exact not_leftOf_of_prefix_right hq h
  · rcases h' with h' | ⟨s', _, hq⟩
    · exact not_leftOf_of_prefix_right hp h'
    · have e := pos_append_cycle hp hq
      subst e
      have e := congrArg List.length hp
      simp only [List.length_append] at e
      exact hs (List.eq_nil_of_length_eq_zero (by omega))

theorem hapBefore_asymm {p q : Pos} (h : hapBefore p q) : ¬ hapBefore q p := by
  induction h with
  | underB _ ih => intro h'; cases h' with | underB h'' => exact ih h''
  | inR _ ih => intro h'; cases h' with | inR h'' => exact ih h''
  | eagerL_R w => intro h'; cases h' with | R_lateL nw => exact nw w
  | eagerL_root w => intro h'; cases h' with | root_lateL nw => exact nw w
  | R_root => intro h'; cases h'
  | R_lateL nw => intro h'; cases h' with | eagerL_R w => exact nw w
  | root_lateL nw => intro h'; cases h' with | eagerL_root w => exact nw w
  | eager_late wp nwq =>
    intro h'
    cases h' with
    | eager_late wq _ => exact nwq wq
    | eager_eager wq _ _ => exact nwq wq
    | late_late _ nwp _ => exact nwp wp
  | eager_eager wp wq c =>
    intro h'
    cases h' with
    | eager_late _ nwp => exact nwp wp
    | eager_eager _ _ c' => exact cbvBefore_asymm c c'
    | late_late nwq _ _ => exact nwq wq
  | late_late nwp nwq _ ih =>
    intro h'
    cases h' with
    | eager_late wq _ => exact nwq wq
    | eager_eager wq _ _ => exact nwq wq
    | late_late _ _ h'' => exact ih h''

theorem isHAP_unique {t : Term} {p q : Pos} : isHAP t p → isHAP t q → p = q := by
  rintro ⟨hp, hp'⟩ ⟨hq, hq'⟩
  rcases hp' q hq with h | h
  · exact h.symm
  · rcases hq' p hp with h' | h'
    · exact h'
    · exact absurd h' (hapBefore_asymm h)

/-! ### `selHap` -/

theorem selHap_app (l r : Term) :
    selHap (app l r) =
      match selCbv l with
      | some p => some (Dir.L :: p)
      | none =>
        match selHap r with
        | some p => some (Dir.R :: p)
        | none => if isAbs l then some [] else (selHap l).map (Dir.L :: ·) := by
  rw [selHap]; rfl

theorem isHAP_abs_B {b : Term} {p : Pos} (h : isHAP b p) : isHAP (abs b) (Dir.B :: p) := by
  obtain ⟨h1, h2⟩ := h
  refine ⟨redexAt_abs_B.2 h1, fun q hq => ?_⟩
  obtain ⟨q', rfl, hq'⟩ := redexAt_abs_iff.1 hq
  rcases h2 q' hq' with rfl | h
  · exact Or.inl rfl
  · exact Or.inr (hapBefore.underB h)

theorem selHap_sound (t : Term) :
    (∀ p, selHap t = some p → isHAP t p) ∧ (selHap t = none → ∀ q, ¬ redexAt t q) := by
  induction t with
  | var n => exact ⟨by simp [selHap], fun _ q => redexAt_var⟩
  | abs b ih =>
    obtain ⟨ih1, ih2⟩ := ih
    cases hb : selHap b with
    | none =>
      refine ⟨by simp [selHap, hb], fun _ q hq => ?_⟩
      obtain ⟨q', rfl, hq'⟩ := redexAt_abs_iff.1 hq
      exact ih2 hb q' hq'
    | some p' =>
      refine ⟨fun p h => ?_, by simp [selHap, hb]⟩
      simp only [selHap, hb, Option.map_some, Option.some.injEq] at h
      subst h
      exact isHAP_abs_B (ih1 p' hb)
  | app l r ihl ihr =>
    rw [selHap_app]
    cases hc : selCbv l with
    | some p' =>
      -- an eager redex of the operator
      refine ⟨fun p h => ?_, by simp⟩
      simp only [Option.some.injEq] at h
      subst h
      obtain ⟨h1, wp, h3⟩ := (selCbv_sound l).1 p' hc
      refine ⟨redexAt_app_L.2 h1.1.1, fun q hq => ?_⟩
      cases q with
      | nil => exact Or.inr (hapBefore.eagerL_root wp)
      | cons d q =>
        cases d with
        | B => exact absurd hq redexAt_app_B
        | R => exact Or.inr (hapBefore.eagerL_R wp)
        | L =>
          by_cases wq : weak q
          · rcases h3 q (redexAt_app_L.1 hq) wq with rfl | h
            · exact Or.inl rfl
            · exact Or.inr (hapBefore.eager_eager wp wq h)
          · exact Or.inr (hapBefore.eager_late wp wq)
    | none =>
      have nwl := (selCbv_sound l).2 hc
      cases hr : selHap r with
      | some p' =>
        -- a redex of the operand
        refine ⟨fun p h => ?_, by simp⟩
        simp only [Option.some.injEq] at h
        subst h
        obtain ⟨h1, h2⟩ := ihr.1 p' hr
        refine ⟨redexAt_app_R.2 h1, fun q hq => ?_⟩
        cases q with
        | nil => exact Or.inr hapBefore.R_root
        | cons d q =>
          cases d with
          | B => exact absurd hq redexAt_app_B
          | L => exact Or.inr (hapBefore.R_lateL (nwl q (redexAt_app_L.1 hq)))
          | R =>
            rcases h2 q (redexAt_app_R.1 hq) with rfl | h
            · exact Or.inl rfl
            · exact Or.inr (hapBefore.inR h)
      | none =>
        have nr := ihr.2 hr
        cases ha : isAbs l with
        | true =>
          -- the application itself
          refine ⟨fun p h => ?_, by simp⟩
          simp only [if_true, Option.some.injEq] at h
          subst h
          refine ⟨redexAt_app_nil.2 (isAbs_true ha), fun q hq => ?_⟩
          cases q with
          | nil => exact Or.inl rfl
          | cons d q =>
            cases d with
            | B => exact absurd hq redexAt_app_B
            | L => exact Or.inr (hapBefore.root_lateL (nwl q (redexAt_app_L.1 hq)))
            | R => exact absurd (redexAt_app_R.1 hq) (nr q)
        | false =>
          have hl' := isAbs_false ha
          simp only [Bool.false_eq_true, if_false]
          cases hsl : selHap l with
          | some p' =>
            -- a redex under a binder of the operator
            refine ⟨fun p h => ?_, by simp⟩
            simp only [Option.map_some, Option.some.injEq] at h
            subst h
            obtain ⟨h1, h2⟩ := ihl.1 p' hsl
            refine ⟨redexAt_app_L.2 h1, fun q hq => ?_⟩
            cases q with
            | nil => obtain ⟨b, hb⟩ := redexAt_app_nil.1 hq; exact absurd hb (hl' b)
            | cons d q =>
              cases d with
              | B => exact absurd hq redexAt_app_B
              | R => exact absurd (redexAt_app_R.1 hq) (nr q)
              | L =>
                rcases h2 q (redexAt_app_L.1 hq) with rfl | h
                · exact Or.inl rfl
                · exact Or.inr (hapBefore.late_late (nwl p' h1) (nwl q (redexAt_app_L.1 hq)) h)
          | none =>
            have nl := ihl.2 hsl
            refine ⟨by simp, fun _ p hp => ?_⟩
            cases p with
            | nil => obtain ⟨b, hb⟩ := redexAt_app_nil.1 hp; exact hl' b hb
            | cons d p =>
              cases d with
              | L => exact nl p (redexAt_app_L.1 hp)
              | R => exact nr p (redexAt_app_R.1 hp)
              | B => exact redexAt_app_B hp

theorem stepHap_eq_sel (t : Term) : stepHap t = (selHap t).map (contractAt t) := by
  induction t with
  | var n => rfl
  | abs b ih =>
    simp only [stepHap, selHap, ih]
    cases selHap b <;> simp [contractAt_abs_B]
  | app l r ihl ihr =>
    rw [selHap_app, stepHap.eq_def]
    simp only
    rw [stepCbv_eq_sel l, ihl, ihr]
    cases selCbv l with
    | some p => simp [contractAt_app_L]
    | none =>
      cases selHap r with
      | some p => simp [contractAt_app_R]
      | none =>
        cases l with
        | abs b => simp [isAbs, contractAt_root, contract_eq_substTop]
        | var n => simp [isAbs, selHap]
        | app l1 l2 =>
          simp only [isAbs, Bool.false_eq_true, if_false, Option.map_none]
          cases selHap (app l1 l2) <;> simp [contractAt_app_L]

/-! ## all seven orders -/

theorem stepOrd_eq_sel (o : Order) (t : Term) : stepOrd o t = (sel o t).map (contractAt t) := by
  cases o
  · exact stepNor_eq_sel t
  · exact stepCbn_eq_sel t
  · exact stepHsp_eq_sel t
  · exact stepHno_eq_sel t
  · exact stepApp_eq_sel t
  · exact stepCbv_eq_sel t
  · exact stepHap_eq_sel t

theorem sel_sound (o : Order) (t : Term) (p : Pos) (h : sel o t = some p) : Sel o t p := by
  cases o
  · exact (selNor_sound t).1 p h
  · exact (selCbn_sound t).1 p h
  · exact (selHsp_sound t).1 p h
  · exact (selHno_sound t).1 p h
  · exact (selApp_sound t).1 p h
  · exact ((selCbv_sound t).1 p h).1
  · exact (selHap_sound t).1 p h

theorem Sel_unique (o : Order) {t : Term} {p q : Pos} (hp : Sel o t p) (hq : Sel o t q) : p = q := by
  cases o
  · exact isLMO_unique hp hq
  · exact isLMO_unique hp.1 hq.1
  · exact isHSP_unique hp hq
  · exact isHNO_unique hp hq
  · exact isLMI_unique hp hq
  · exact isLMIW_unique hp hq
  · exact isHAP_unique hp hq

theorem sel_none (o : Order) (t : Term) (h : sel o t = none) : ∀ p, ¬ Sel o t p := by
  intro p hp
  cases o
  · exact (selNor_sound t).2 h p hp.1
  · exact (selCbn_sound t).2 h p hp.1 hp.2
  · exact (selHsp_sound t).2 h p hp.1 hp.2.1
  · exact (selHno_sound t).2 h p hp.1.1
  · exact (selApp_sound t).2 h p hp.1.1
  · exact (selCbv_sound t).2 h p hp.1.1 hp.1.2.1
  · exact (selHap_sound t).2 h p hp.1

theorem sel_iff (o : Order) (t : Term) (p : Pos) : sel o t = some p ↔ Sel o t p := by
  constructor
  · exact sel_sound o t p
  · intro hp
    cases hs : sel o t with
    | none => exact absurd hp (sel_none o t hs p)
    | some q => rw [Sel_unique o (sel_sound o t q hs) hp]

theorem sel_none_iff (o : Order) (t : Term) : sel o t = none ↔ ∀ p, ¬ Sel o t p := by
  constructor
  · exact sel_none o t
  · intro h
    cases hs : sel o t with
    | none => rfl
    | some q => exact absurd (sel_sound o t q hs) (h q)

end Spec
end LC
