/-
The standardisation theorem for β-reduction (Kashima's proof): every reduction sequence
`M →β* N` can be rearranged into a standard one, `Std M N`: weak head steps first, then
(recursively) standard reductions inside the components of the weak head normal form reached.

`W` is the weak head step relation, which is exactly what `stepCbn` computes (`W_iff_stepCbn`).
-/
import LC.Proofs.Beta

namespace LC
namespace Spec
open Term



/-- weak head step: root contraction, or a weak head step in the operator of an application
(the relation computed by `stepCbn`) -/
inductive W : Term → Term → Prop
  | redex (b a : Term) : W (app (abs b) a) (contract b a)
  | appL {l l' r : Term} : W l l' → W (app l r) (app l' r)

/-- reflexive-transitive closure of `W` -/
inductive WS : Term → Term → Prop
  | refl (t : Term) : WS t t
  | step {t u v : Term} : W t u → WS u v → WS t v

theorem W.beta {t u : Term} (h : W t u) : Beta t u := by
  induction h with
  | redex b a => exact Beta.redc b a
  | appL _ ih => exact Beta.congAppL ih

theorem WS.star {t u : Term} (h : WS t u) : Star t u := by
  induction h with
  | refl _ => exact Star.refl _
  | step hw _ ih => exact Star.head hw.beta ih

theorem WS.one {t u : Term} (h : W t u) : WS t u := WS.step h (WS.refl _)

theorem WS.trans {t u v : Term} (h1 : WS t u) (h2 : WS u v) : WS t v := by
  induction h1 with
  | refl => exact h2
  | step hb _ ih => exact WS.step hb (ih h2)

theorem WS.appL {l l' : Term} (r : Term) (h : WS l l') : WS (Term.app l r) (Term.app l' r) := by
  induction h with
  | refl => exact WS.refl _
  | step hb _ ih => exact WS.step (W.appL hb) ih

theorem W.shift {t u : Term} (a o : Nat) (h : W t u) : W (shiftFV a o t) (shiftFV a o u) := by
  induction h with
  | redex b r => simp only [shiftFV, shiftFV_contract]; exact W.redex _ _
  | appL _ ih => simp only [shiftFV]; exact W.appL ih

theorem W.subst {t u : Term} (s : Term) (e : Nat) (he : 1 ≤ e) (h : W t u) :
    W (applyAux s e t) (applyAux s e u) := by
  induction h with
  | redex b r => simp only [applyAux, applyAux_contract _ _ he]; exact W.redex _ _
  | appL _ ih => simp only [applyAux]; exact W.appL ih

theorem WS.shift {t u : Term} (a o : Nat) (h : WS t u) : WS (shiftFV a o t) (shiftFV a o u) := by
  induction h with
  | refl => exact WS.refl _
  | step hb _ ih => exact WS.step (hb.shift a o) ih

theorem WS.subst {t u : Term} (s : Term) (e : Nat) (he : 1 ≤ e) (h : WS t u) :
    WS (applyAux s e t) (applyAux s e u) := by
  induction h with
  | refl => exact WS.refl _
  | step hb _ ih => exact WS.step (hb.subst s e he) ih

/-- `W` is exactly the graph of `stepCbn` -/
theorem W_iff_stepCbn (t u : Term) : W t u ↔ stepCbn t = some u := by
  constructor
  · intro h
    induction h with
    | redex b a => simp [stepCbn]
    | @appL l l' r hw ih =>
      cases l with
      | var i => cases hw
      | abs b => cases hw
      | app l1 l2 => simp [stepCbn, ih]
  · intro h
    induction t generalizing u with
    | var i => simp [stepCbn] at h
    | abs b => simp [stepCbn] at h
    | app l r ihl _ =>
      cases l with
      | var i => simp [stepCbn] at h
      | abs b => simp [stepCbn] at h; subst h; exact W.redex b r
      | app l1 l2 =>
        simp [stepCbn] at h; obtain ⟨a, ha, rfl⟩ := h
        exact W.appL (ihl _ ha)

/-- `WS` is exactly the finite iteration of `stepCbn` -/
theorem WS_iff_iter (t u : Term) : WS t u ↔ ∃ k, Iter stepCbn k t u := by
  constructor
  · intro h
    induction h with
    | refl t => exact ⟨0, Iter.zero _⟩
    | step hw _ ih =>
      obtain ⟨k, hk⟩ := ih
      exact ⟨k + 1, Iter.succ ((W_iff_stepCbn _ _).1 hw) hk⟩
  · rintro ⟨k, h⟩
    induction h with
    | zero t => exact WS.refl _
    | succ hs _ ih => exact WS.step ((W_iff_stepCbn _ _).2 hs) ih

/-- standard reduction (Kashima): weak head steps to a weak head normal form shape, then
standard reductions of the immediate subterms -/
inductive Std : Term → Term → Prop
  | var {L : Term} {x : Nat} : WS L (var x) → Std L (var x)
  | app {L A B C D : Term} : WS L (app A B) → Std A C → Std B D → Std L (app C D)
  | abs {L A B : Term} : WS L (abs A) → Std A B → Std L (abs B)

theorem Std.refl (t : Term) : Std t t := by
  induction t with
  | var i => exact Std.var (WS.refl _)
  | abs b ih => exact Std.abs (WS.refl _) ih
  | app l r ihl ihr => exact Std.app (WS.refl _) ihl ihr

theorem Std.prefix {L L' N : Term} (h1 : WS L L') (h2 : Std L' N) : Std L N := by
  cases h2 with
  | var h => exact Std.var (h1.trans h)
  | app h ha hb => exact Std.app (h1.trans h) ha hb
  | abs h ha => exact Std.abs (h1.trans h) ha

/-- a standard reduction is a reduction -/
theorem Std.star {M N : Term} (h : Std M N) : Star M N := by
  induction h with
  | var h => exact h.star
  | app h _ _ iha ihb => exact h.star.trans (Star.congApp iha ihb)
  | abs h _ iha => exact h.star.trans (Star.congAbs iha)

theorem Std.shift {M N : Term} (a o : Nat) (h : Std M N) :
    Std (shiftFV a o M) (shiftFV a o N) := by
  induction h generalizing o with
  | @var L x h =>
    have := h.shift a o
    exact Std.prefix this (Std.refl _)
  | app h _ _ iha ihb =>
    have := h.shift a o
    simp only [shiftFV] at this ⊢
    exact Std.app this (iha o) (ihb o)
  | abs h _ iha =>
    have := h.shift a o
    simp only [shiftFV] at this ⊢
    exact Std.abs this (iha (o + 1))

theorem Std.subst {M N P Q : Term} (h : Std M N) (hp : Std P Q) (e : Nat) (he : 1 ≤ e) :
    Std (applyAux P e M) (applyAux Q e N) := by
  induction h generalizing e with
  | @var L x h =>
    have hw := h.subst P e he
    refine Std.prefix hw ?_
    simp only [applyAux]
    split
    · exact hp.shift _ _
    · split <;> exact Std.refl _
  | app h _ _ iha ihb =>
    have := h.subst P e he
    simp only [applyAux] at this ⊢
    exact Std.app this (iha e he) (ihb e he)
  | abs h _ iha =>
    have := h.subst P e he
    simp only [applyAux] at this ⊢
    exact Std.abs this (iha (e + 1) (by omega))

theorem Std.redex {L M N : Term} (h : Std L (Term.app (Term.abs M) N)) : Std L (contract M N) := by
  cases h with
  | app hw ha hb =>
    cases ha with
    | abs hw2 ha' =>
      refine Std.prefix (hw.trans ((WS.appL _ hw2).trans (WS.step (W.redex _ _) (WS.refl _)))) ?_
      exact Std.subst ha' hb 1 (by omega)

theorem Std.beta {L M N : Term} (h : Std L M) (hb : Beta M N) : Std L N := by
  induction hb generalizing L with
  | red b a => rw [substTop_eq]; exact h.redex
  | congAbs _ ih =>
    cases h with
    | abs hw ha => exact Std.abs hw (ih ha)
  | congAppL _ ih =>
    cases h with
    | app hw ha hb => exact Std.app hw (ih ha) hb
  | congAppR _ ih =>
    cases h with
    | app hw ha hb => exact Std.app hw ha (ih hb)

theorem Std.star_right {L M N : Term} (h : Std L M) (hs : Star M N) : Std L N := by
  induction hs with
  | refl _ => exact h
  | head hb _ ih => exact ih (h.beta hb)

/-- standardisation: every β-reduction sequence can be standardised -/
theorem standardisation {M N : Term} (h : Star M N) : Std M N :=
  (Std.refl M).star_right h

end Spec
end LC
