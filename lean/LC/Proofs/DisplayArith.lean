/-
C10, arithmetic side conditions of the two printers of `src/term.rs` (`impl Display`, `impl Debug`):
a checked model of `base26_encode`, `show_precedence_cla`, `max_depth` in which every arithmetic
operation of the Rust text that can overflow, underflow or truncate is explicit.

* `+` on `u8` / `u32` / `u128` — `addChk bound`, `none` (= panic in a debug build, wrap-around in a
  release build) when the sum does not fit;
* `-` — `subChk`, `none` when it underflows;
* `x as u8`, `x as u128` — reduction modulo `2^8`, `2^128` (a cast never panics, it truncates);
* `u128::from(u32)` — the identity (lossless by type);
* `String::from_utf8(buf).expect(..)` — checked conservatively: `none` unless every byte is `< 128`
  (an all-ASCII buffer is valid UTF-8).

`show_precedence_dbr` (`Debug`) has no such operation (`format!("{:X}", i)` is total).
The frozen model `LC/Model/Display.lean` does the same computations over `Nat`.
-/
import LC.Model.Display

namespace LC
namespace DisplayChk
open Term Display

def U8 : Nat := 2 ^ 8
def U32 : Nat := 2 ^ 32
def U64 : Nat := 2 ^ 64
def U128 : Nat := 2 ^ 128

/-- checked `a + b` on an unsigned type with `bound` values -/
def addChk (bound a b : Nat) : Option Nat := if a + b < bound then some (a + b) else none

/-- checked `a - b` on an unsigned type -/
def subChk (a b : Nat) : Option Nat := if b ≤ a then some (a - b) else none

/-- the `while n > 0` loop of `base26_encode`: `n : u128`, `buf : Vec<u8>` in push order -/
def base26LoopChk (n : Nat) (buf : List Nat) : Option (List Nat) :=
  if _h : n = 0 then some buf
  else
    let m := (n % 26) % U8                        -- let m = (n % 26) as u8;
    let m := if m == 0 then 26 else m             -- let m = if m == 0 { 26 } else { m };
    match addChk U8 m 97 with                     -- m + b'a'
    | none => none
    | some s =>
      match subChk s 1 with                       -- … - 1
      | none => none
      | some c =>
        if _h1 : 1 ≤ n then                       -- n - 1
          base26LoopChk ((n - 1) / 26) (buf ++ [c])   -- buf.push(c); n = (n - 1) / 26
        else none
termination_by n
decreasing_by omega

/-- `base26_encode(n)`: `n += 1`, the loop, `buf.reverse()`, `String::from_utf8(buf).expect(..)` -/
def base26Chk (n : Nat) : Option (List Nat) :=
  match addChk U128 n 1 with
  | none => none
  | some n1 =>
    match base26LoopChk n1 [] with
    | none => none
    | some buf =>
      let buf := buf.reverse
      if buf.all (· < 128) then some buf else none

/-- `show_precedence_cla(term, context_precedence, max_depth: u32, depth: u32)` -/
def showClaChk (lam maxDepth : Nat) : Term → Nat → Nat → Option (List Nat)
  | var 0, _, _ => some (str "undefined")
  | var (i + 1), _, depth =>
    let i := (i + 1) % U128                       -- *i as u128; u128::from(depth)
    if i ≤ depth then
      match subChk depth i with                   -- depth - i
      | none => none
      | some ix => base26Chk ix
    else
      match addChk U128 maxDepth i with           -- u128::from(max_depth) + i
      | none => none
      | some a =>
        match subChk a depth with                 -- … - depth
        | none => none
        | some b =>
          match subChk b 1 with                   -- … - 1
          | none => none
          | some ix => base26Chk ix
  | abs t, ctx, depth =>
    match base26Chk depth with                    -- base26_encode(u128::from(depth))
    | none => none
    | some name =>
      match addChk U32 depth 1 with               -- depth + 1   (u32)
      | none => none
      | some d1 =>
        match showClaChk lam maxDepth t 0 d1 with
        | none => none
        | some body => some (parenIf (lam :: (name ++ (46 :: body))) (decide (ctx > 1)))
  | app t1 t2, ctx, depth =>
    match showClaChk lam maxDepth t1 2 depth with
    | none => none
    | some a =>
      match showClaChk lam maxDepth t2 3 depth with
      | none => none
      | some b => some (parenIf (a ++ (32 :: b)) (ctx == 3))

/-- `Term::max_depth(&self) -> u32` -/
def maxDepthChk : Term → Option Nat
  | var _ => some 0
  | abs t =>
    match maxDepthChk t with
    | none => none
    | some d => addChk U32 d 1                    -- t.max_depth() + 1   (u32)
  | app l r =>
    match maxDepthChk l with
    | none => none
    | some d0 =>
      match maxDepthChk r with
      | none => none
      | some d1 => some (max d0 d1)

/-- `impl Display for Term`: `show_precedence_cla(self, 0, self.max_depth(), 0)` -/
def displayChk (lam : Nat) (t : Term) : Option (List Nat) :=
  match maxDepthChk t with
  | none => none
  | some md => showClaChk lam md t 0 0

/-- every De Bruijn index of the term is below `B` (`usize::MAX + 1`) -/
def idxLt (B : Nat) : Term → Prop
  | var i => i < B
  | abs t => idxLt B t
  | app l r => idxLt B l ∧ idxLt B r

theorem U8_eq : U8 = 256 := by decide
theorem U32_eq : U32 = 4294967296 := by decide
theorem U64_eq : U64 = 18446744073709551616 := by decide
theorem U128_eq : U128 = 340282366920938463463374607431768211456 := by decide

/-- the checked loop pushes what the model's loop conses -/
theorem base26LoopChk_eq (n : Nat) : ∀ buf : List Nat,
    base26LoopChk n buf = some ((base26Loop n buf.reverse).reverse) := by
  induction n using Nat.strongRecOn with
  | _ n ih =>
    intro buf
    rw [base26LoopChk, base26Loop]
    by_cases h : n = 0
    · simp [h]
    · have hlt : (n - 1) / 26 < n := by omega
      have h1 : 1 ≤ n := by omega
      have hm : (n % 26) % U8 = n % 26 := by rw [U8_eq]; omega
      simp only [dif_neg h, hm, dif_pos h1]
      by_cases h0 : n % 26 = 0
      · simp only [h0, addChk, subChk, U8_eq]
        simp [ih _ hlt]
      · have hne : (n % 26 == 0) = false := by simpa using h0
        have hadd : addChk U8 (n % 26) 97 = some (n % 26 + 97) := by
          unfold addChk; rw [U8_eq, if_pos (by omega)]
        have hsub : subChk (n % 26 + 97) 1 = some (n % 26 + 96) := by
          unfold subChk; rw [if_pos (by omega)]; rfl
        simp only [hne, Bool.false_eq_true, if_false]
        simp only [hadd, hsub]
        simp [ih _ hlt]

/-- every byte the loop produces is a lower-case ASCII letter -/
theorem base26Loop_range (n : Nat) : ∀ acc : List Nat, (∀ c ∈ acc, 97 ≤ c ∧ c ≤ 122) →
    ∀ c ∈ base26Loop n acc, 97 ≤ c ∧ c ≤ 122 := by
  induction n using Nat.strongRecOn with
  | _ n ih =>
    intro acc hacc
    rw [base26Loop]
    by_cases h : n = 0
    · simpa [h] using hacc
    · have hlt : (n - 1) / 26 < n := by omega
      simp only [dif_neg h]
      apply ih _ hlt
      intro c hc
      rcases List.mem_cons.1 hc with rfl | hc
      · by_cases h0 : n % 26 = 0
        · simp [h0]
        · have hne : (n % 26 == 0) = false := by simpa using h0
          simp only [hne, Bool.false_eq_true, if_false]; omega
      · exact hacc c hc

theorem base26_range (n : Nat) : ∀ c ∈ base26 n, 97 ≤ c ∧ c ≤ 122 :=
  base26Loop_range (n + 1) [] (by simp)

/-- `base26_encode(n)` for `n < u128::MAX`: no overflow, no underflow, valid UTF-8 -/
theorem base26Chk_eq (n : Nat) (h : n + 1 < U128) : base26Chk n = some (base26 n) := by
  unfold base26Chk addChk
  rw [if_pos h]
  simp only [base26LoopChk_eq, List.reverse_nil, List.reverse_reverse]
  have hall : (base26Loop (n + 1) []).all (· < 128) = true := by
    rw [List.all_eq_true]
    intro c hc
    have := base26_range n c hc
    simp; omega
  rw [if_pos hall]; rfl

/-- `n += 1` does overflow for `n = u128::MAX` (never reached from `show_precedence_cla`) -/
theorem base26Chk_overflow : base26Chk (U128 - 1) = none := by decide +kernel

/-- invariant of the recursion of `show_precedence_cla`: `depth + (binder depth of the subterm) ≤
max_depth`; with `max_depth < 2^32` and indices `< 2^64` no operation overflows or underflows, and
the result is the frozen model's -/
theorem showClaChk_eq (lam md : Nat) (hmd : md < U32) :
    ∀ (t : Term) (ctx depth : Nat), depth + t.maxDepth ≤ md → idxLt U64 t →
      showClaChk lam md t ctx depth = some (showCla lam md t ctx depth) := by
  intro t
  induction t with
  | var i =>
    intro ctx depth hd hi
    cases i with
    | zero => rfl
    | succ i =>
      simp only [idxLt] at hi
      rw [U32_eq] at hmd
      rw [U64_eq] at hi
      simp only [Term.maxDepth] at hd
      have hcast : (i + 1) % U128 = i + 1 := by rw [U128_eq]; omega
      simp only [showClaChk, showCla, hcast]
      by_cases hle : i + 1 ≤ depth
      · simp only [if_pos hle, subChk]
        rw [base26Chk_eq _ (by rw [U128_eq]; omega)]
      · have hadd : addChk U128 md (i + 1) = some (md + (i + 1)) := by
          unfold addChk; rw [if_pos (by rw [U128_eq]; omega)]
        have hs1 : subChk (md + (i + 1)) depth = some (md + (i + 1) - depth) := by
          unfold subChk; rw [if_pos (by omega)]
        have hs2 : subChk (md + (i + 1) - depth) 1 = some (md + (i + 1) - depth - 1) := by
          unfold subChk; rw [if_pos (by omega)]
        simp only [if_neg hle, hadd, hs1, hs2]
        rw [base26Chk_eq _ (by rw [U128_eq]; omega)]
  | abs t ih =>
    intro ctx depth hd hi
    simp only [Term.maxDepth] at hd
    simp only [idxLt] at hi
    have hb : base26Chk depth = some (base26 depth) :=
      base26Chk_eq _ (by rw [U128_eq]; rw [U32_eq] at hmd; omega)
    have hadd : addChk U32 depth 1 = some (depth + 1) := by
      unfold addChk; rw [if_pos (by omega)]
    simp only [showClaChk, showCla, hb, hadd, ih 0 (depth + 1) (by omega) hi]
  | app l r ihl ihr =>
    intro ctx depth hd hi
    simp only [Term.maxDepth] at hd
    simp only [idxLt] at hi
    simp only [showClaChk, showCla, ihl 2 depth (by omega) hi.1, ihr 3 depth (by omega) hi.2]

/-- `max_depth()` fits `u32` exactly when the binder depth is below `2^32` -/
theorem maxDepthChk_eq (t : Term) :
    maxDepthChk t = if t.maxDepth < U32 then some t.maxDepth else none := by
  induction t with
  | var i => simp [maxDepthChk, Term.maxDepth, U32_eq]
  | abs t ih =>
    have e : (abs t).maxDepth = t.maxDepth + 1 := rfl
    rw [maxDepthChk, ih, e]
    by_cases h : t.maxDepth + 1 < U32
    · have h' : t.maxDepth < U32 := by omega
      simp [h, h', addChk]
    · by_cases h' : t.maxDepth < U32
      · simp [h, h', addChk]
      · simp [h, h']
  | app l r ihl ihr =>
    have e : (app l r).maxDepth = max l.maxDepth r.maxDepth := rfl
    rw [maxDepthChk, ihl, ihr, e]
    by_cases h1 : l.maxDepth < U32
    · by_cases h2 : r.maxDepth < U32
      · have h3 : max l.maxDepth r.maxDepth < U32 := by omega
        simp [h1, h2, h3]
      · have h3 : ¬ max l.maxDepth r.maxDepth < U32 := by omega
        simp [h1, h2, h3]
    · have h3 : ¬ max l.maxDepth r.maxDepth < U32 := by omega
      simp [h1, h3]

theorem displayChk_eq (lam : Nat) (t : Term) (hd : t.maxDepth < U32) (hi : idxLt U64 t) :
    displayChk lam t = some (display lam t) := by
  unfold displayChk display
  rw [maxDepthChk_eq, if_pos hd]
  exact showClaChk_eq lam _ hd t 0 0 (by omega) hi

theorem displayChk_deep (lam : Nat) (t : Term) (hd : U32 ≤ t.maxDepth) : displayChk lam t = none := by
  unfold displayChk
  rw [maxDepthChk_eq, if_neg (by omega)]

end DisplayChk
end LC
