/-
The line protocol of the driver carries values faithfully, part 3: expression trees (`ast`, `fold`).
-/
import LC.Proofs.DriverCodecMore

open LC LC.Term LC.Parser

namespace Drv

/-! ## the fuel-indexed decoders satisfy the equations of the original mutually recursive definitions -/

theorem decExprF_zero (ws : List String) : decExprF 0 ws = none := by
  unfold decExprF; rfl

theorem decExprF_nil (f : Nat) : decExprF f [] = none := by
  cases f <;> simp [decExprF]

theorem decExprF_cons (f : Nat) (w : String) (rest : List String) : decExprF (f+1) (w :: rest) =
    if w == "A" then some (.Abstraction, rest)
    else if w.startsWith "V" then do
      let i ← (w.drop 1).toString.toNat?
      pure (.Variable i, rest)
    else if w.startsWith "S" then do
      let n ← (w.drop 1).toString.toNat?
      let (es, rest') ← decExprsF f n rest
      pure (.Sequence es, rest')
    else none := by
  rw [decExprF]

theorem decExprsF_count_zero (f : Nat) (ts : List String) : decExprsF f 0 ts = some ([], ts) := by
  unfold decExprsF; rfl

theorem decExprsF_fuel_zero (n : Nat) (ts : List String) : decExprsF 0 (n+1) ts = none := by
  unfold decExprsF; rfl

theorem decExprsF_succ (f n : Nat) (ts : List String) : decExprsF (f+1) (n+1) ts =
    (do let (e, r) ← decExprF f ts
        let (more, r') ← decExprsF f n r
        pure (e :: more, r')) := by
  rw [decExprsF]

/-- a successful `decExprF` consumes at least one word; a successful `decExprsF` gives back a suffix no longer than its input -/
theorem decExprF_length_aux (f : Nat) :
    (∀ ws e r, decExprF f ws = some (e, r) → r.length < ws.length) ∧
    (∀ n ws es r, decExprsF f n ws = some (es, r) → r.length ≤ ws.length) := by
  induction f with
  | zero =>
    refine ⟨fun ws e r h => by simp [decExprF_zero] at h, fun n ws es r h => ?_⟩
    cases n with
    | zero => simp [decExprsF_count_zero] at h; simp [h.2]
    | succ n => simp [decExprsF_fuel_zero] at h
  | succ f ih =>
    refine ⟨fun ws e r h => ?_, fun n ws es r h => ?_⟩
    · match ws with
      | [] => simp [decExprF_nil] at h
      | w :: rest =>
        rw [decExprF_cons] at h
        generalize (w.drop 1).toString.toNat? = on at h
        split at h
        · simp at h; simp [h.2]
        · split at h
          · cases on with
            | none => simp at h
            | some i => simp at h; simp [h.2]
          · split at h
            · cases on with
              | none => simp at h
              | some n =>
                cases h2 : decExprsF f n rest with
                | none => simp [h2] at h
                | some q =>
                  obtain ⟨es, r'⟩ := q
                  simp [h2] at h
                  have := ih.2 _ _ _ _ h2
                  obtain ⟨-, rfl⟩ := h
                  simp; omega
            · simp at h
    · cases n with
      | zero => simp [decExprsF_count_zero] at h; simp [h.2]
      | succ n =>
        rw [decExprsF_succ] at h
        cases h1 : decExprF f ws with
        | none => simp [h1] at h
        | some p =>
          obtain ⟨e, r1⟩ := p
          cases h2 : decExprsF f n r1 with
          | none => simp [h1, h2] at h
          | some q =>
            obtain ⟨more, r2⟩ := q
            simp [h1, h2] at h
            have := ih.1 _ _ _ h1
            have := ih.2 _ _ _ _ h2
            obtain ⟨-, rfl⟩ := h
            omega

theorem decExprF_length {f : Nat} {ws : List String} {e : Expression} {r : List String}
    (h : decExprF f ws = some (e, r)) : r.length < ws.length := (decExprF_length_aux f).1 _ _ _ h

theorem decExprsF_length {f n : Nat} {ws : List String} {es : List Expression} {r : List String}
    (h : decExprsF f n ws = some (es, r)) : r.length ≤ ws.length := (decExprF_length_aux f).2 _ _ _ _ h

/-- fuel beyond `2·|ws|` (resp. `2·|ws| + 1`) changes nothing -/
theorem decExprF_stable_aux (f : Nat) :
    (∀ ws f', 2 * ws.length ≤ f → f ≤ f' → decExprF f' ws = decExprF f ws) ∧
    (∀ n ws f', 2 * ws.length + 1 ≤ f → f ≤ f' → decExprsF f' n ws = decExprsF f n ws) := by
  induction f with
  | zero =>
    refine ⟨fun ws f' h _ => ?_, fun n ws f' h _ => by omega⟩
    have : ws = [] := List.eq_nil_of_length_eq_zero (by omega)
    subst this
    simp [decExprF_nil]
  | succ f ih =>
    refine ⟨fun ws f' h h' => ?_, fun n ws f' h h' => ?_⟩
    · obtain ⟨f'', rfl⟩ : ∃ f'', f' = f'' + 1 := ⟨f' - 1, by omega⟩
      match ws with
      | [] => simp [decExprF_nil]
      | w :: rest =>
        have key : ∀ n, decExprsF f'' n rest = decExprsF f n rest :=
          fun n => ih.2 n rest f'' (by simp at h; omega) (by omega)
        simp only [decExprF_cons, key]
    · obtain ⟨f'', rfl⟩ : ∃ f'', f' = f'' + 1 := ⟨f' - 1, by omega⟩
      cases n with
      | zero => simp [decExprsF_count_zero]
      | succ n =>
        rw [decExprsF_succ, decExprsF_succ, ih.1 ws f'' (by omega) (by omega)]
        cases h1 : decExprF f ws with
        | none => rfl
        | some p =>
          obtain ⟨e, r1⟩ := p
          have := decExprF_length h1
          simp only [Option.bind_eq_bind, Option.bind_some]
          rw [ih.2 n r1 f'' (by omega) (by omega)]

/-! ### the equations of `decExpr` / `decExprs` (those of the recursive definitions they replaced) -/

theorem decExpr_nil : decExpr [] = none := by
  simp [decExpr, decExprF_nil]

theorem decExpr_cons (w : String) (rest : List String) : decExpr (w :: rest) =
    if w == "A" then some (.Abstraction, rest)
    else if w.startsWith "V" then do
      let i ← (w.drop 1).toString.toNat?
      pure (.Variable i, rest)
    else if w.startsWith "S" then do
      let n ← (w.drop 1).toString.toNat?
      let (es, rest') ← decExprs n rest
      pure (.Sequence es, rest')
    else none := by
  have : 2 * (w :: rest).length = (2 * rest.length + 1) + 1 := by simp; omega
  rw [decExpr, this, decExprF_cons]
  rfl

theorem decExprs_zero (ts : List String) : decExprs 0 ts = some ([], ts) := by
  simp [decExprs, decExprsF_count_zero]

theorem decExprs_succ (n : Nat) (ts : List String) : decExprs (n+1) ts =
    (do let (e, r) ← decExpr ts
        let (more, r') ← decExprs n r
        pure (e :: more, r')) := by
  rw [decExprs, decExprsF_succ, decExpr]
  cases h1 : decExprF (2 * ts.length) ts with
  | none => rfl
  | some p =>
    obtain ⟨e, r1⟩ := p
    have := decExprF_length h1
    simp only [Option.bind_eq_bind, Option.bind_some]
    rw [decExprs, (decExprF_stable_aux (2 * r1.length + 1)).2 n r1 (2 * ts.length) (Nat.le_refl _) (by omega)]

theorem decExpr_length {ws : List String} {e : Expression} {r : List String}
    (h : decExpr ws = some (e, r)) : r.length < ws.length := decExprF_length h

/-! ### decoding the three kinds of expression words -/

theorem decExpr_A (rest : List String) : decExpr ("A" :: rest) = some (.Abstraction, rest) := by
  simp [decExpr_cons]

theorem decExpr_V (s : String) (rest : List String) :
    decExpr (("V" ++ s) :: rest) = s.toNat?.bind fun i => some (.Variable i, rest) := by
  have h1 : "V" ++ s ≠ "A" := ne_of_head (c := 'V') (d := 'A') (by simp; rfl) (by simp; rfl) (by decide)
  rw [decExpr_cons]
  simp [h1]
  rw [← String.Slice.toNat?_copy, copy_drop_append _ _ _ (by decide)]

theorem decExpr_S (s : String) (rest : List String) :
    decExpr (("S" ++ s) :: rest) =
      (do let n ← s.toNat?
          let (es, rest') ← decExprs n rest
          pure (.Sequence es, rest')) := by
  have h1 : "S" ++ s ≠ "A" := ne_of_head (c := 'S') (d := 'A') (by simp; rfl) (by simp; rfl) (by decide)
  rw [decExpr_cons]
  simp [h1]
  rw [← String.Slice.toNat?_copy, copy_drop_append _ _ _ (by decide)]

/-! ### the words of an expression; printer = words joined by spaces; decoder ∘ words = id -/

theorem exprsWords_eq (es : List Expression) : exprsWords es = (es.map exprWords).flatten := by
  induction es with
  | nil => simp [exprsWords]
  | cons e es ih => simp [exprsWords, ih]

theorem exprWords_ne_nil (e : Expression) : exprWords e ≠ [] := by
  cases e <;> simp [exprWords]

mutual
theorem decExpr_exprWords : ∀ (e : Expression) (rest : List String),
    decExpr (exprWords e ++ rest) = some (e, rest)
  | .Abstraction, rest => by simp [exprWords, decExpr_A]
  | .Variable i, rest => by
    show decExpr (("V" ++ toString i) :: rest) = _
    rw [decExpr_V, toNat?_toString]; rfl
  | .Sequence es, rest => by
    show decExpr (("S" ++ toString es.length) :: (exprsWords es ++ rest)) = _
    rw [decExpr_S, toNat?_toString]
    simp [decExprs_exprsWords es rest]
theorem decExprs_exprsWords : ∀ (es : List Expression) (rest : List String),
    decExprs es.length (exprsWords es ++ rest) = some (es, rest)
  | [], rest => by simp [exprsWords, decExprs_zero]
  | e :: es, rest => by
    simp [exprsWords, decExprs_succ, List.append_assoc, decExpr_exprWords e, decExprs_exprsWords es rest]
end

theorem showExpr_Sequence (es : List Expression) :
    showExpr (.Sequence es) = " ".intercalate (("S" ++ toString es.length) :: es.map showExpr) := by
  rw [showExpr]

mutual
/-- the printed form of an expression is its words joined by single spaces -/
theorem showExpr_eq : ∀ e : Expression, showExpr e = " ".intercalate (exprWords e)
  | .Abstraction => by simp [showExpr, exprWords]
  | .Variable i => by simp [showExpr, exprWords]
  | .Sequence es => by
    rw [showExpr_Sequence, map_showExpr_eq es, exprWords, exprsWords_eq]
    have := intercalate_flatten (ls := [("S" ++ toString es.length)] :: es.map exprWords) (by
      intro l hl
      rcases List.mem_cons.1 hl with rfl | hl
      · simp
      · obtain ⟨e, -, rfl⟩ := List.mem_map.1 hl
        exact exprWords_ne_nil e)
    simpa [Function.comp_def] using this
theorem map_showExpr_eq : ∀ es : List Expression,
    es.map showExpr = es.map (fun e => " ".intercalate (exprWords e))
  | [] => rfl
  | e :: es => by rw [List.map_cons, List.map_cons, showExpr_eq e, map_showExpr_eq es]
end

mutual
theorem exprWords_words : ∀ e : Expression, Words (exprWords e)
  | .Abstraction => Words.cons (by decide) (by decide) Words.nil
  | .Variable i => by
    refine Words.cons ?_ ?_ Words.nil
    · intro h
      have := congrArg String.toList h
      simp at this
    · simp only [String.toList_append, List.mem_append, not_or]
      exact ⟨by decide, not_mem_toString (by decide)⟩
  | .Sequence es => by
    rw [exprWords]
    refine Words.cons ?_ ?_ (exprsWords_words es)
    · intro h
      have := congrArg String.toList h
      simp at this
    · simp only [String.toList_append, List.mem_append, not_or]
      exact ⟨by decide, not_mem_toString (by decide)⟩
theorem exprsWords_words : ∀ es : List Expression, Words (exprsWords es)
  | [] => by rw [exprsWords]; exact Words.nil
  | e :: es => by rw [exprsWords]; exact (exprWords_words e).append (exprsWords_words es)
end

/-- ROUND TRIP (lines): the driver reads a printed expression back as itself -/
theorem decExpr_tokenize_showExpr (e : Expression) : decExpr (tokenize (showExpr e)) = some (e, []) := by
  rw [showExpr_eq, tokenize_intercalate (exprWords_words e)]
  simpa using decExpr_exprWords e []

theorem exprWords_inj {e e' : Expression} (h : exprWords e = exprWords e') : e = e' := by
  have h1 := decExpr_exprWords e []
  rw [h, decExpr_exprWords e' []] at h1
  simpa using h1.symm

/-- two different expression trees never print the same -/
theorem showExpr_inj {e e' : Expression} (h : showExpr e = showExpr e') : e = e' := by
  rw [showExpr_eq, showExpr_eq] at h
  exact exprWords_inj (intercalate_inj (exprWords_words e) (exprWords_words e') h)

/-! ### `ast`: `resAst` -/

theorem resAst_eq (r : Except ParseError Expression) : resAst r = " ".intercalate (resAstWords r) := by
  cases r with
  | ok e =>
    simp only [resAst, resAstWords]
    rw [String.intercalate_cons_of_ne_nil (exprWords_ne_nil e), showExpr_eq]
    rfl
  | error e => exact showErr_eq e

theorem resAstWords_words (r : Except ParseError Expression) : Words (resAstWords r) := by
  cases r with
  | ok e => exact Words.cons word_ok.1 word_ok.2 (exprWords_words e)
  | error e => exact errWords_words e

theorem resAstWords_inj (r r' : Except ParseError Expression) (h : resAstWords r = resAstWords r') : r = r' := by
  match r, r', h with
  | .error e, .error e', h => rw [errWords_inj h]
  | .error e, .ok ts, h =>
    obtain ⟨tl, he⟩ := errWords_head e
    simp [resAstWords, he] at h
  | .ok ts, .error e, h =>
    obtain ⟨tl, he⟩ := errWords_head e
    simp [resAstWords, he] at h
  | .ok t, .ok u, h =>
    simp only [resAstWords, List.cons.injEq, true_and] at h
    rw [exprWords_inj h]

theorem resAst_inj {r r' : Except ParseError Expression} (h : resAst r = resAst r') : r = r' :=
  inj_of_words resAst_eq resAstWords_words resAstWords_inj h

/-- what a successful call returns as the rest is a suffix of its input: the decoders consume a prefix and never
touch, reorder or invent the words after it -/
theorem decExprF_suffix_aux (f : Nat) :
    (∀ ws e r, decExprF f ws = some (e, r) → ∃ pre, ws = pre ++ r) ∧
    (∀ n ws es r, decExprsF f n ws = some (es, r) → ∃ pre, ws = pre ++ r) := by
  induction f with
  | zero =>
    refine ⟨fun ws e r h => by simp [decExprF_zero] at h, fun n ws es r h => ?_⟩
    cases n with
    | zero => simp [decExprsF_count_zero] at h; exact ⟨[], by simp [h.2]⟩
    | succ n => simp [decExprsF_fuel_zero] at h
  | succ f ih =>
    refine ⟨fun ws e r h => ?_, fun n ws es r h => ?_⟩
    · match ws with
      | [] => simp [decExprF_nil] at h
      | w :: rest =>
        rw [decExprF_cons] at h
        generalize (w.drop 1).toString.toNat? = on at h
        split at h
        · simp at h; exact ⟨[w], by simp [h.2]⟩
        · split at h
          · cases on with
            | none => simp at h
            | some i => simp at h; exact ⟨[w], by simp [h.2]⟩
          · split at h
            · cases on with
              | none => simp at h
              | some n =>
                cases h2 : decExprsF f n rest with
                | none => simp [h2] at h
                | some q =>
                  obtain ⟨es, r'⟩ := q
                  simp [h2] at h
                  obtain ⟨pre, hp⟩ := ih.2 _ _ _ _ h2
                  obtain ⟨-, rfl⟩ := h
                  exact ⟨w :: pre, by simp [hp]⟩
            · simp at h
    · cases n with
      | zero => simp [decExprsF_count_zero] at h; exact ⟨[], by simp [h.2]⟩
      | succ n =>
        rw [decExprsF_succ] at h
        cases h1 : decExprF f ws with
        | none => simp [h1] at h
        | some p =>
          obtain ⟨e, r1⟩ := p
          cases h2 : decExprsF f n r1 with
          | none => simp [h1, h2] at h
          | some q =>
            obtain ⟨more, r2⟩ := q
            simp [h1, h2] at h
            obtain ⟨p1, hp1⟩ := ih.1 _ _ _ h1
            obtain ⟨p2, hp2⟩ := ih.2 _ _ _ _ h2
            obtain ⟨-, rfl⟩ := h
            exact ⟨p1 ++ p2, by simp [hp1, hp2]⟩

/-- a successful `decExpr` consumes a non-empty prefix of the words and returns the rest untouched -/
theorem decExpr_consumes {ws : List String} {e : Expression} {r : List String} (h : decExpr ws = some (e, r)) :
    r.length < ws.length ∧ ∃ pre, ws = pre ++ r :=
  ⟨decExpr_length h, (decExprF_suffix_aux _).1 _ _ _ h⟩

/-- a successful `decExprs n` returns exactly `n` expressions -/
theorem decExprs_length {n : Nat} {ws : List String} {es : List Expression} {rest : List String}
    (h : decExprs n ws = some (es, rest)) : es.length = n := by
  induction n generalizing ws es rest with
  | zero => simp [decExprs_zero] at h; simp [← h.1]
  | succ n ih =>
    rw [decExprs_succ] at h
    cases h1 : decExpr ws with
    | none => simp [h1] at h
    | some p =>
      obtain ⟨t, r⟩ := p
      cases h2 : decExprs n r with
      | none => simp [h1, h2] at h
      | some q =>
        obtain ⟨more, r'⟩ := q
        simp [h1, h2] at h
        obtain ⟨rfl, -⟩ := h
        simp [ih h2]

end Drv
