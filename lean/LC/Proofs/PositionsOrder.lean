/-
Review remark P1: `hapBefore` (`LC/Proofs/PositionsMore.lean`, specification section) is a STRICT TOTAL ORDER on the
redex positions of a term: irreflexive / asymmetric (`hapBefore_asymm`, PositionsHap.lean), TRANSITIVE (on all
positions, no side condition) and TRICHOTOMOUS on distinct redex positions of one term.  Hence `isHAP t p` — "p is a
redex and `hapBefore` every other redex" — is literally "p is the minimum of the redex positions".
Likewise `cbvBefore` (transitive; trichotomous on weak positions).
-/
import LC.Proofs.PositionsHap

namespace LC
namespace Spec
open Term

/-! ### `cbvBefore` -/

theorem cbvBefore_nil_right {p : Pos} : cbvBefore p [] ↔ p ≠ [] := by
  constructor
  · rintro (h | ⟨s, hs, rfl⟩)
    · exact absurd h not_leftOf_nil_right
    · simpa using hs
  · intro h; exact Or.inr ⟨p, h, rfl⟩

theorem not_cbvBefore_nil_left {q : Pos} : ¬ cbvBefore [] q := by
  rintro (h | ⟨s, hs, h⟩)
  · exact not_leftOf_nil_left h
  · cases q with
    | nil => exact hs (by simpa using h.symm)
    | cons e q => simp at h

theorem cbvBefore_cons {d e : Dir} {p q : Pos} :
    cbvBefore (d :: p) (e :: q) ↔ (d = Dir.L ∧ e = Dir.R) ∨ (d = e ∧ cbvBefore p q) := by
  unfold cbvBefore
  rw [leftOf_cons]
  constructor
  · rintro ((h | ⟨h1, h2⟩) | ⟨s, hs, h⟩)
    · exact Or.inl h
    · exact Or.inr ⟨h1, Or.inl h2⟩
    · simp only [List.cons_append, List.cons.injEq] at h
      exact Or.inr ⟨h.1, Or.inr ⟨s, hs, h.2⟩⟩
  · rintro (h | ⟨h1, h2 | ⟨s, hs, h⟩⟩)
    · exact Or.inl (Or.inl h)
    · exact Or.inl (Or.inr ⟨h1, h2⟩)
    · exact Or.inr ⟨s, hs, by simp [h1, h]⟩

/-- `cbvBefore` is transitive (on all positions) -/
theorem cbvBefore_trans {p q r : Pos} : cbvBefore p q → cbvBefore q r → cbvBefore p r := by
  induction p generalizing q r with
  | nil => intro h; exact absurd h not_cbvBefore_nil_left
  | cons d p ih =>
    cases q with
    | nil => intro _ h; exact absurd h not_cbvBefore_nil_left
    | cons e q =>
      cases r with
      | nil => intro _ _; exact cbvBefore_nil_right.2 (by simp)
      | cons g r =>
        rw [cbvBefore_cons, cbvBefore_cons, cbvBefore_cons]
        rintro (⟨rfl, rfl⟩ | ⟨rfl, h⟩) (⟨h1, h2⟩ | ⟨rfl, h'⟩)
        · cases h1
        · exact Or.inl ⟨rfl, rfl⟩
        · exact Or.inl ⟨h1, h2⟩
        · exact Or.inr ⟨rfl, ih h h'⟩

/-- `cbvBefore` is trichotomous on weak positions (no `B`): two distinct ones are nested or diverge at an
application -/
theorem cbvBefore_total {p q : Pos} (wp : weak p) (wq : weak q) (hne : p ≠ q) :
    cbvBefore p q ∨ cbvBefore q p := by
  induction p generalizing q with
  | nil => exact Or.inr (cbvBefore_nil_right.2 (fun h => hne h.symm))
  | cons d p ih =>
    cases q with
    | nil => exact Or.inl (cbvBefore_nil_right.2 (by simp))
    | cons e q =>
      obtain ⟨hd, wp'⟩ := weak_cons.1 wp
      obtain ⟨he, wq'⟩ := weak_cons.1 wq
      rw [cbvBefore_cons, cbvBefore_cons]
      by_cases hde : d = e
      · subst hde
        rcases ih wp' wq' (fun h => hne (by rw [h])) with h | h
        · exact Or.inl (Or.inr ⟨rfl, h⟩)
        · exact Or.inr (Or.inr ⟨rfl, h⟩)
      · cases d <;> cases e <;> simp_all

/-! ### `hapBefore` -/

/-- `hapBefore` is transitive (on all positions, no side condition) -/
theorem hapBefore_trans {p q r : Pos} (h1 : hapBefore p q) (h2 : hapBefore q r) : hapBefore p r := by
  induction h1 generalizing r with
  | underB _ ih => cases h2 with | underB h => exact .underB (ih h)
  | inR _ ih =>
    cases h2 with
    | inR h => exact .inR (ih h)
    | R_root => exact .R_root
    | R_lateL nw => exact .R_lateL nw
  | eagerL_R w =>
    cases h2 with
    | inR _ => exact .eagerL_R w
    | R_root => exact .eagerL_root w
    | R_lateL nw => exact .eager_late w nw
  | eagerL_root w => cases h2 with | root_lateL nw => exact .eager_late w nw
  | R_root => cases h2 with | root_lateL nw => exact .R_lateL nw
  | R_lateL nw =>
    cases h2 with
    | eagerL_R w => exact absurd w nw
    | eagerL_root w => exact absurd w nw
    | eager_late w _ => exact absurd w nw
    | eager_eager w _ _ => exact absurd w nw
    | late_late _ nwr _ => exact .R_lateL nwr
  | root_lateL nw =>
    cases h2 with
    | eagerL_R w => exact absurd w nw
    | eagerL_root w => exact absurd w nw
    | eager_late w _ => exact absurd w nw
    | eager_eager w _ _ => exact absurd w nw
    | late_late _ nwr _ => exact .root_lateL nwr
  | eager_late wp nwq =>
    cases h2 with
    | eagerL_R w => exact absurd w nwq
    | eagerL_root w => exact absurd w nwq
    | eager_late w _ => exact absurd w nwq
    | eager_eager w _ _ => exact absurd w nwq
    | late_late _ nwr _ => exact .eager_late wp nwr
  | eager_eager wp wq c =>
    cases h2 with
    | eagerL_R _ => exact .eagerL_R wp
    | eagerL_root _ => exact .eagerL_root wp
    | eager_late _ nwr => exact .eager_late wp nwr
    | eager_eager _ wr c' => exact .eager_eager wp wr (cbvBefore_trans c c')
    | late_late nwq _ _ => exact absurd wq nwq
  | late_late nwp nwq _ ih =>
    cases h2 with
    | eagerL_R w => exact absurd w nwq
    | eagerL_root w => exact absurd w nwq
    | eager_late w _ => exact absurd w nwq
    | eager_eager w _ _ => exact absurd w nwq
    | late_late _ nwr h => exact .late_late nwp nwr (ih h)

theorem hapBefore_irrefl (p : Pos) : ¬ hapBefore p p := fun h => hapBefore_asymm h h

/-- `hapBefore` is trichotomous on the redex positions of a term: two distinct redex positions of the same term are
related one way or the other -/
theorem hapBefore_total (t : Term) :
    ∀ p q, redexAt t p → redexAt t q → p ≠ q → hapBefore p q ∨ hapBefore q p := by
  induction t with
  | var n => intro p q hp; exact absurd hp redexAt_var
  | abs b ih =>
    intro p q hp hq hne
    obtain ⟨p', rfl, hp'⟩ := redexAt_abs_iff.1 hp
    obtain ⟨q', rfl, hq'⟩ := redexAt_abs_iff.1 hq
    rcases ih p' q' hp' hq' (fun h => hne (by rw [h])) with h | h
    · exact Or.inl (.underB h)
    · exact Or.inr (.underB h)
  | app l r ihl ihr =>
    intro p q hp hq hne
    cases p with
    | nil =>
      cases q with
      | nil => exact absurd rfl hne
      | cons e q =>
        cases e with
        | B => exact absurd hq redexAt_app_B
        | R => exact Or.inr .R_root
        | L =>
          by_cases wq : weak q
          · exact Or.inr (.eagerL_root wq)
          · exact Or.inl (.root_lateL wq)
    | cons d p =>
      cases d with
      | B => exact absurd hp redexAt_app_B
      | R =>
        cases q with
        | nil => exact Or.inl .R_root
        | cons e q =>
          cases e with
          | B => exact absurd hq redexAt_app_B
          | R =>
            rcases ihr p q (redexAt_app_R.1 hp) (redexAt_app_R.1 hq) (fun h => hne (by rw [h])) with h | h
            · exact Or.inl (.inR h)
            · exact Or.inr (.inR h)
          | L =>
            by_cases wq : weak q
            · exact Or.inr (.eagerL_R wq)
            · exact Or.inl (.R_lateL wq)
      | L =>
        cases q with
        | nil =>
          by_cases wp : weak p
          · exact Or.inl (.eagerL_root wp)
          · exact Or.inr (.root_lateL wp)
        | cons e q =>
          cases e with
          | B => exact absurd hq redexAt_app_B
          | R =>
            by_cases wp : weak p
            · exact Or.inl (.eagerL_R wp)
            · exact Or.inr (.R_lateL wp)
          | L =>
            have hne' : p ≠ q := fun h => hne (by rw [h])
            by_cases wp : weak p <;> by_cases wq : weak q
            · rcases cbvBefore_total wp wq hne' with h | h
              · exact Or.inl (.eager_eager wp wq h)
              · exact Or.inr (.eager_eager wq wp h)
            · exact Or.inl (.eager_late wp wq)
            · exact Or.inr (.eager_late wq wp)
            · rcases ihl p q (redexAt_app_L.1 hp) (redexAt_app_L.1 hq) hne' with h | h
              · exact Or.inl (.late_late wp wq h)
              · exact Or.inr (.late_late wq wp h)

/-- `isHAP t p` ⇔ `p` is a MINIMAL redex position: a redex that no redex precedes -/
theorem isHAP_iff_minimal {t : Term} {p : Pos} :
    isHAP t p ↔ redexAt t p ∧ ∀ q, redexAt t q → ¬ hapBefore q p := by
  constructor
  · rintro ⟨hp, h⟩
    refine ⟨hp, fun q hq hqp => ?_⟩
    rcases h q hq with rfl | h'
    · exact hapBefore_irrefl _ hqp
    · exact hapBefore_asymm h' hqp
  · rintro ⟨hp, h⟩
    refine ⟨hp, fun q hq => ?_⟩
    by_cases hqp : q = p
    · exact Or.inl hqp
    · rcases hapBefore_total t p q hp hq (fun e => hqp e.symm) with h' | h'
      · exact Or.inr h'
      · exact absurd h' (h q hq)

/-- a term with a redex has a first redex in the order `hapBefore` -/
theorem isHAP_exists {t : Term} {q : Pos} (hq : redexAt t q) : ∃ p, isHAP t p := by
  cases hs : selHap t with
  | none => exact absurd hq ((selHap_sound t).2 hs q)
  | some p => exact ⟨p, (selHap_sound t).1 p hs⟩

end Spec
end LC
