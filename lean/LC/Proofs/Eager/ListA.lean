/-
Eager evaluation (order HAP) of the list operations: observers of the four list encodings on converted lists of
numerals, conversions = repeated cons, and the first-order functions of the pair-list library
(`length`, `reverse`, `append`, `index`, `last`, `init`) — for ALL lists, as big-step derivations
(`LC/Proofs/Eager/BigStep.lean`) with the `_reduce_hap` corollaries about the model reducer.
-/
import LC.Proofs.Eager.ChurchCbv
import LC.Props.C16Base

namespace LC
open Term Spec Enc RL Eager C16

set_option linter.unusedSimpArgs false
attribute [local irreducible] iterApp

namespace EagerListA

/-! ## 1. shape facts about converted lists of numerals (simp lemmas used by `ev`) -/

@[simp] theorem closedAt_cl (k : Nat) (ns : List Nat) : closedAt k (pairList (ns.map intoChurch)) = true :=
  Closed.closedAt (closed_cl ns) k
@[simp] theorem isNormal_cl (ns : List Nat) : isNormal (pairList (ns.map intoChurch)) = true := normal_cl ns
@[simp] theorem isWNF_cl (ns : List Nat) : isWNF (pairList (ns.map intoChurch)) = true :=
  isNormal_isWNF (normal_cl ns)
@[simp] theorem isAbs_cl (ns : List Nat) : isAbs (pairList (ns.map intoChurch)) = true := by
  cases ns <;> rfl

theorem cl_nil : cl [] = abs (abs (var 1)) := rfl
theorem cl_cons (n : Nat) (ns : List Nat) : cl (n :: ns) = abs (app2 (var 1) (intoChurch n) (cl ns)) := rfl

end EagerListA
open EagerListA

/-! ## 2. observers of the pair list -/

theorem is_nil_pairList_hap (ns : List Nat) : EvalHap (app Gen.PList.is_nil (cl ns)) (fromBool ns.isEmpty) := by
  cases ns with
  | nil => ev
  | cons n ns => rw [cl_cons]; ev

theorem head_pairList_hap (n : Nat) (ns : List Nat) :
    EvalHap (app Gen.PList.head (cl (n :: ns))) (intoChurch n) := by
  rw [cl_cons]; ev

theorem tail_pairList_hap (n : Nat) (ns : List Nat) :
    EvalHap (app Gen.PList.tail (cl (n :: ns))) (cl ns) := by
  rw [cl_cons]; ev

/-! ## 3. `length`: the accumulator is a chain of `succ` closures -/

namespace EagerListA

/-- CBV value of `SUCCᵏ ZERO`: `λf x. f (… f x)` with the inner numeral NOT normalised -/
def sc : Nat → Term
  | 0 => intoChurch 0
  | k + 1 => abs (abs (app (var 2) (app2 (sc k) (var 2) (var 1))))

@[simp] theorem closedAt_sc (j k : Nat) : closedAt j (sc k) = true := by
  induction k generalizing j with
  | zero => simp [sc]
  | succ k ih => simp [sc, closedAt, ih]
@[simp] theorem isWNF_sc (k : Nat) : isWNF (sc k) = true := by cases k <;> rfl
@[simp] theorem isAbs_sc (k : Nat) : isAbs (sc k) = true := by cases k <;> rfl

theorem cbv_succ_sc (k : Nat) : EvalCbv (app Gen.Church.succ (sc k)) (sc (k + 1)) := by
  simp only [sc]; ev

theorem hap_sc_app (k : Nat) : EvalHap (app2 (sc k) (var 2) (var 1)) (iterApp (var 2) (var 1) k) := by
  induction k with
  | zero => simp only [sc, iterApp_zero]; ev
  | succ k ih => simp only [sc, iterApp_succ]; ev

/-- the accumulator is normalised at the end -/
theorem hap_sc (k : Nat) : EvalHap (sc k) (intoChurch k) := by
  cases k with
  | zero => exact EvalHap.of_isNormal rfl
  | succ k =>
    have := hap_sc_app k
    rw [intoChurch_eq]; simp only [sc, iterApp_succ]; ev

def lengthF : Term := appArg (appFn Gen.PList.length)
theorem length_eq : Gen.PList.length = app2 Gen.Comb.Z lengthF (intoChurch 0) := by decide
theorem closed_lengthF : Closed lengthF := by decide

theorem length_core : ∃ q, EvalCbv (ZF lengthF) q ∧
    ∀ (ns : List Nat) (k : Nat), EvalHap (app2 q (sc k) (cl ns)) (intoChurch (k + ns.length)) := by
  apply Exists.intro
  apply And.intro
  · simp only [ZF, ZW]; ev
  · intro ns
    induction ns with
    | nil =>
      intro k
      have := hap_sc k
      ev
    | cons n ns ih =>
      intro k
      have hs := cbv_succ_sc k
      have ht := tail_pairList_hap n ns
      have hrec := hap_stub2 closed_lengthF (by simp only [ZF, ZW]; ev) hs (EvalHap.app_arg ht (ih (k + 1)))
      rw [show k + (n :: ns).length = k + 1 + ns.length by simp; omega, cl_cons]
      rw [cl_cons] at hrec
      ev

end EagerListA
open EagerListA

theorem plist_length_hap (ns : List Nat) : EvalHap (app Gen.PList.length (cl ns)) (intoChurch ns.length) := by
  obtain ⟨q, hq, hrec⟩ := length_core
  have h := hrec ns 0
  rw [Nat.zero_add] at h
  rw [length_eq]
  refine EvalHap.app2_fn (g := q) ?_ h
  refine EvalCbv.appRed (EvalCbv.abs _) (EvalCbv.of_isWNF (by decide)) ?_
  have := closed_lengthF
  lc_simp
  exact hq

/-! ## 4. `append`, `reverse` -/

namespace EagerListA

theorem tail_pairList_cbv (n : Nat) (ns : List Nat) : EvalCbv (app Gen.PList.tail (cl (n :: ns))) (cl ns) := by
  rw [cl_cons]; ev

theorem head_pairList_cbv (n : Nat) (ns : List Nat) : EvalCbv (app Gen.PList.head (cl (n :: ns))) (intoChurch n) := by
  rw [cl_cons]; ev

def appendF : Term := appArg Gen.PList.append
theorem append_eq : Gen.PList.append = app Gen.Comb.Z appendF := by decide
theorem closed_appendF : Closed appendF := by decide

theorem append_core : ∃ q, EvalCbv (ZF appendF) q ∧
    ∀ (ms ns : List Nat), EvalHap (app2 q (cl ms) (cl ns)) (cl (ms ++ ns)) := by
  apply Exists.intro
  apply And.intro
  · simp only [ZF, ZW]; ev
  · intro ms ns
    induction ms with
    | nil => ev
    | cons m ms ih =>
      have ht := tail_pairList_cbv m ms
      have hrec := hap_stub2 closed_appendF (by simp only [ZF, ZW]; ev) ht ih
      rw [List.cons_append]
      generalize ms ++ ns = L at *
      rw [cl_cons, cl_cons]
      rw [cl_cons] at hrec
      ev

def reverseF : Term := appArg (appFn Gen.PList.reverse)
theorem reverse_eq : Gen.PList.reverse = app2 Gen.Comb.Z reverseF (cl []) := by decide
theorem closed_reverseF : Closed reverseF := by decide

theorem reverse_core : ∃ q, EvalCbv (ZF reverseF) q ∧
    ∀ (ns acc : List Nat), EvalHap (app2 q (cl acc) (cl ns)) (cl (ns.reverse ++ acc)) := by
  apply Exists.intro
  apply And.intro
  · simp only [ZF, ZW]; ev
  · intro ns
    induction ns with
    | nil => intro acc; ev
    | cons n ns ih =>
      intro acc
      have ht := tail_pairList_hap n ns
      have hx : EvalCbv (app2 Gen.PList.cons (app Gen.PList.head (cl (n :: ns))) (cl acc)) (cl (n :: acc)) := by
        rw [cl_cons, cl_cons]; ev
      have hrec := hap_stub2 closed_reverseF (by simp only [ZF, ZW]; ev) hx (EvalHap.app_arg ht (ih (n :: acc)))
      rw [show (n :: ns).reverse ++ acc = ns.reverse ++ n :: acc by simp]
      generalize ns.reverse ++ n :: acc = L at *
      rw [cl_cons]
      rw [cl_cons] at hrec
      ev

/-- unfold `Z F` in operator position -/
theorem cbv_Z {F q : Term} (hF : Closed F) (wF : isWNF F = true) (hq : EvalCbv (ZF F) q) :
    EvalCbv (app Gen.Comb.Z F) q := by
  refine EvalCbv.appRed (EvalCbv.abs _) (EvalCbv.of_isWNF wF) ?_
  lc_simp
  exact hq

end EagerListA
open EagerListA

theorem plist_append_hap (ms ns : List Nat) :
    EvalHap (app2 Gen.PList.append (cl ms) (cl ns)) (cl (ms ++ ns)) := by
  obtain ⟨q, hq, hrec⟩ := append_core
  rw [append_eq]
  exact EvalHap.app2_fn (cbv_Z closed_appendF (by decide) hq) (hrec ms ns)

theorem plist_reverse_hap (ns : List Nat) : EvalHap (app Gen.PList.reverse (cl ns)) (cl ns.reverse) := by
  obtain ⟨q, hq, hrec⟩ := reverse_core
  have h := hrec ns []
  rw [List.append_nil] at h
  rw [reverse_eq]
  exact EvalHap.app2_fn (cbv_Z closed_reverseF (by decide) hq) h

/-! ## 5. observers of the Scott list (elements: any closed normal family `f : Nat → Term`) -/

namespace EagerListA

section Scott
variable {f : Nat → Term} (hf : ∀ a, closedAt 0 (f a) = true) (hn : ∀ a, isNormal (f a) = true)
include hf

theorem closed_sl (ns : List Nat) : closedAt 0 (scottList (ns.map f)) = true := closed_scottList (closed_map hf ns)

include hn

omit hf in
theorem normal_sl (ns : List Nat) : isNormal (scottList (ns.map f)) = true := normal_scottList _ (normal_map hn ns)

theorem is_nil_sl (ns : List Nat) : EvalHap (app Gen.SList.is_nil (scottList (ns.map f))) (fromBool ns.isEmpty) := by
  have hw : ∀ a, isWNF (f a) = true := fun a => isNormal_isWNF (hn a)
  have hc := closed_sl hf
  have hnl := normal_sl hn
  cases ns with
  | nil => simp only [List.map_nil, scottList]; ev
  | cons n ns => simp only [List.map_cons, scottList]; ev [hf, hc]

theorem head_sl (n : Nat) (ns : List Nat) : EvalHap (app Gen.SList.head (scottList ((n :: ns).map f))) (f n) := by
  have hw : ∀ a, isWNF (f a) = true := fun a => isNormal_isWNF (hn a)
  have hc := closed_sl hf
  have hnl := normal_sl hn
  simp only [List.map_cons, scottList]; ev [hf, hc]

theorem tail_sl (n : Nat) (ns : List Nat) :
    EvalHap (app Gen.SList.tail (scottList ((n :: ns).map f))) (scottList (ns.map f)) := by
  have hw : ∀ a, isWNF (f a) = true := fun a => isNormal_isWNF (hn a)
  have hc := closed_sl hf
  have hnl := normal_sl hn
  simp only [List.map_cons, scottList]; ev [hf, hc]

end Scott

end EagerListA

theorem is_nil_scottList_hap (ns : List Nat) :
    EvalHap (app Gen.SList.is_nil (scottList (ns.map intoScott))) (fromBool ns.isEmpty) :=
  is_nil_sl closed_intoScott C12_normal_scott ns

theorem head_scottList_hap (n : Nat) (ns : List Nat) :
    EvalHap (app Gen.SList.head (scottList ((n :: ns).map intoScott))) (intoScott n) :=
  head_sl closed_intoScott C12_normal_scott n ns

theorem tail_scottList_hap (n : Nat) (ns : List Nat) :
    EvalHap (app Gen.SList.tail (scottList ((n :: ns).map intoScott))) (scottList (ns.map intoScott)) :=
  tail_sl closed_intoScott C12_normal_scott n ns

/-! ## 6. observers of the Church (fold) list -/

namespace EagerListA

/-- what a Church list computes from the cons function `c` and the nil value `n` (a right fold) -/
def cfold (c n : Term) : List Term → Term
  | [] => n
  | t :: ts => app2 c t (cfold c n ts)

theorem churchListBody_inst {ts : List Term} (h : ∀ t ∈ ts, Closed t) (n c : Term) :
    applyAux c 1 (applyAux n 2 (churchListBody ts)) = cfold c n ts := by
  induction ts with
  | nil => lc_simp [churchListBody, cfold]
  | cons t ts ih =>
    have h1 := h t (by simp)
    have h2 := ih (fun u hu => h u (List.mem_cons_of_mem _ hu))
    lc_simp [churchListBody, cfold, h2]

theorem cfold_vars (ts : List Term) : cfold (var 1) (var 2) ts = churchListBody ts := by
  induction ts with
  | nil => rfl
  | cons t ts ih => simp [cfold, churchListBody, ih]

section Church
variable {f : Nat → Term} (hf : ∀ a, closedAt 0 (f a) = true) (hn : ∀ a, isNormal (f a) = true)

/-- a fold over a list is evaluated from the END of the list under HAP (the operand first) -/
theorem hap_cfold {c n : Term} (w : List Nat → Term) (h0 : EvalHap n (w []))
    (hs : ∀ a ns, EvalHap (app2 c (f a) (w ns)) (w (a :: ns))) (ns : List Nat) :
    EvalHap (cfold c n (ns.map f)) (w ns) := by
  induction ns with
  | nil => exact h0
  | cons a ns ih => exact EvalHap.app_arg ih (hs a ns)

include hf

theorem clb_inst (ns : List Nat) (n c : Term) :
    applyAux c 1 (applyAux n 2 (churchListBody (ns.map f))) = cfold c n (ns.map f) :=
  churchListBody_inst (closed_map hf ns) n c

theorem closed_chl (ns : List Nat) : closedAt 0 (churchList (ns.map f)) = true := closed_churchList (closed_map hf ns)

theorem closedAt_clb (ns : List Nat) (k : Nat) : closedAt (k + 2) (churchListBody (ns.map f)) = true :=
  closedAt_churchListBody (closed_map hf ns) k

include hn

omit hf in
theorem normal_chl (ns : List Nat) : isNormal (churchList (ns.map f)) = true :=
  normal_churchList _ (normal_map hn ns)

omit hf in
theorem normal_clb (ns : List Nat) : isNormal (churchListBody (ns.map f)) = true :=
  C12.churchListBody_normal _ (normal_map hn ns)

theorem is_nil_chl (ns : List Nat) : EvalHap (app Gen.CList.is_nil (churchList (ns.map f))) (fromBool ns.isEmpty) := by
  have hw : ∀ a, isWNF (f a) = true := fun a => isNormal_isWNF (hn a)
  have hi := clb_inst hf
  have hnl := normal_chl hn
  ev [hi]
  apply hap_cfold (w := fun ns => fromBool ns.isEmpty)
  · ev
  · intro a ns; ev [hf]

/-- the head of a list, `UD` (= `var 0`) for the empty list -/
def hd (f : Nat → Term) : List Nat → Term
  | [] => var 0
  | a :: _ => f a

omit hf in
theorem normal_hd (ns : List Nat) : isNormal (hd f ns) = true := by
  cases ns with
  | nil => rfl
  | cons a ns => exact hn a

omit hn in
theorem closed_hd (ns : List Nat) : closedAt 0 (hd f ns) = true := by
  cases ns with
  | nil => rfl
  | cons a ns => exact hf a

theorem head_chl (ns : List Nat) : EvalHap (app Gen.CList.head (churchList (ns.map f))) (hd f ns) := by
  have hw : ∀ a, isWNF (f a) = true := fun a => isNormal_isWNF (hn a)
  have hi := clb_inst hf
  have h1 := normal_hd (f := f) hn
  have h2 := closed_hd (f := f) hf
  have hnl := normal_chl hn
  ev [hi]
  apply hap_cfold (w := hd f)
  · ev
  · intro a ns; show EvalHap _ (f a); ev [hf, h2]

/-- the tail of a list, `UD` (= `var 0`) for the empty list -/
def tlc (f : Nat → Term) : List Nat → Term
  | [] => var 0
  | _ :: ns => churchList (ns.map f)

/-- the invariant of the fold in `TAIL`: (tail of the list seen so far, the list seen so far) -/
def tailAcc (f : Nat → Term) (ns : List Nat) : Term := tuple2 (tlc f ns) (churchList (ns.map f))

/-- Church `tail`: the step function is HAP-normalised first, then the fold runs from the end of the list -/
theorem tail_chl (ns : List Nat) : EvalHap (app Gen.CList.tail (churchList (ns.map f))) (tlc f ns) := by
  have hw : ∀ a, isWNF (f a) = true := fun a => isNormal_isWNF (hn a)
  have hi := clb_inst hf
  have hnl := normal_chl hn
  have hc := closed_chl hf
  have hcb := closedAt_clb hf
  have hnb := normal_clb hn
  have h1 : ∀ ns, isNormal (tlc f ns) = true := by intro ns; cases ns; rfl; exact hnl _
  have h2 : ∀ ns, closedAt 0 (tlc f ns) = true := by intro ns; cases ns; rfl; exact hc _
  have h3 : ∀ ns, isWNF (tlc f ns) = true := fun ns => isNormal_isWNF (h1 ns)
  ev [hi]
  apply hap_cfold (w := tailAcc f)
  · simp only [tailAcc, tlc, tuple2]; ev
  · intro a ns
    show EvalHap _ (tuple2 (churchList (ns.map f)) (churchList ((a :: ns).map f)))
    simp only [tailAcc, tuple2]
    ev [hf, hc, h2, hi, cfold_vars]
  simp only [tailAcc, tuple2]
  ev [hc, h2]

theorem conv_chl (ns : List Nat) :
    EvalHap (ns.foldr (fun n acc => app2 Gen.CList.cons (f n) acc) Gen.CList.nil) (churchList (ns.map f)) := by
  have hw : ∀ a, isWNF (f a) = true := fun a => isNormal_isWNF (hn a)
  have hi := clb_inst hf
  have hnl := normal_chl hn
  have hc := closed_chl hf
  have hnb := normal_clb hn
  induction ns with
  | nil => exact EvalHap.of_isNormal rfl
  | cons a ns ih =>
    rw [List.foldr_cons]
    refine EvalHap.app_arg ih ?_
    show EvalHap _ (abs (abs (app2 (var 1) (f a) (churchListBody (ns.map f)))))
    ev [hf, hc, hi, cfold_vars]

end Church

/-! ## 7. observers of the Parigot list -/

theorem parigotListBody_inst {ts : List Term} (h : ∀ t ∈ ts, Closed t) (a b : Term) :
    applyAux b 1 (applyAux a 2 (parigotListBody ts)) = parigotListRec a b ts := by
  induction ts with
  | nil => lc_simp [parigotListBody, parigotListRec]
  | cons t ts ih =>
    have h1 := h t (by simp)
    have h2 := ih (fun u hu => h u (List.mem_cons_of_mem _ hu))
    have h3 := closed_parigotList (fun u hu => h u (List.mem_cons_of_mem _ hu))
    rw [parigotListBody_cons]; lc_simp [parigotListRec, h2]

section Parigot
variable {f : Nat → Term} (hf : ∀ a, closedAt 0 (f a) = true) (hn : ∀ a, isNormal (f a) = true)

/-- the recursor of a Parigot list is evaluated from the END of the list under HAP (the operand first) -/
theorem hap_prec {c n : Term} (w : List Nat → Term) (h0 : EvalHap n (w []))
    (hs : ∀ a ns, EvalHap (app3 c (f a) (parigotList (ns.map f)) (w ns)) (w (a :: ns))) (ns : List Nat) :
    EvalHap (parigotListRec n c (ns.map f)) (w ns) := by
  induction ns with
  | nil => exact h0
  | cons a ns ih => exact EvalHap.app_arg ih (hs a ns)

include hf

theorem plb_inst (ns : List Nat) (n c : Term) :
    applyAux c 1 (applyAux n 2 (parigotListBody (ns.map f))) = parigotListRec n c (ns.map f) :=
  parigotListBody_inst (closed_map hf ns) n c

theorem closed_pgl (ns : List Nat) : closedAt 0 (parigotList (ns.map f)) = true :=
  closed_parigotList (closed_map hf ns)

theorem shiftFV_plb (ns : List Nat) (a o : Nat) (ho : 2 ≤ o) :
    shiftFV a o (parigotListBody (ns.map f)) = parigotListBody (ns.map f) :=
  shiftFV_closedAt a o 2 ho (closedAt_parigotListBody (closed_map hf ns) 0)

theorem applyAux_plb (ns : List Nat) (r : Term) (e : Nat) (he : 3 ≤ e) :
    applyAux r e (parigotListBody (ns.map f)) = parigotListBody (ns.map f) :=
  applyAux_closedAt r e 2 (by omega) (closedAt_parigotListBody (closed_map hf ns) 0)

include hn

omit hf in
theorem normal_pgl (ns : List Nat) : isNormal (parigotList (ns.map f)) = true :=
  normal_parigotList _ (normal_map hn ns)

omit hf in
theorem normal_plb (ns : List Nat) : isNormal (parigotListBody (ns.map f)) = true := by
  have := normal_pgl hn ns
  rw [parigotList_eq] at this
  simpa [isNormal] using this

theorem is_nil_pgl (ns : List Nat) :
    EvalHap (app Gen.GList.is_nil (parigotList (ns.map f))) (fromBool ns.isEmpty) := by
  have hw : ∀ a, isWNF (f a) = true := fun a => isNormal_isWNF (hn a)
  have hi := plb_inst hf
  have hnl := normal_pgl hn
  have hwl : ∀ ns : List Nat, isWNF (parigotList (ns.map f)) = true := fun ns => isNormal_isWNF (hnl ns)
  have hnb := normal_plb hn
  have hc := closed_pgl hf
  rw [parigotList_eq]
  ev [hi]
  apply hap_prec (w := fun ns => fromBool ns.isEmpty)
  · ev
  · intro a ns; ev [hf, hc]

theorem head_pgl (ns : List Nat) : EvalHap (app Gen.GList.head (parigotList (ns.map f))) (hd f ns) := by
  have hw : ∀ a, isWNF (f a) = true := fun a => isNormal_isWNF (hn a)
  have hi := plb_inst hf
  have hnl := normal_pgl hn
  have hwl : ∀ ns : List Nat, isWNF (parigotList (ns.map f)) = true := fun ns => isNormal_isWNF (hnl ns)
  have hnb := normal_plb hn
  have hc := closed_pgl hf
  have h1 := normal_hd (f := f) hn
  have h2 := closed_hd (f := f) hf
  rw [parigotList_eq]
  ev [hi]
  apply hap_prec (w := hd f)
  · ev
  · intro a ns; show EvalHap _ (f a); ev [hf, hc, h2]

/-- the tail of a list, `UD` (= `var 0`) for the empty list -/
def tlp (f : Nat → Term) : List Nat → Term
  | [] => var 0
  | _ :: ns => parigotList (ns.map f)

theorem tail_pgl (ns : List Nat) : EvalHap (app Gen.GList.tail (parigotList (ns.map f))) (tlp f ns) := by
  have hw : ∀ a, isWNF (f a) = true := fun a => isNormal_isWNF (hn a)
  have hi := plb_inst hf
  have hnl := normal_pgl hn
  have hwl : ∀ ns : List Nat, isWNF (parigotList (ns.map f)) = true := fun ns => isNormal_isWNF (hnl ns)
  have hnb := normal_plb hn
  have hc := closed_pgl hf
  have h1 : ∀ ns, isNormal (tlp f ns) = true := by intro ns; cases ns; rfl; exact hnl _
  have h2 : ∀ ns, closedAt 0 (tlp f ns) = true := by intro ns; cases ns; rfl; exact hc _
  rw [parigotList_eq]
  ev [hi]
  apply hap_prec (w := tlp f)
  · ev
  · intro a ns; show EvalHap _ (parigotList (ns.map f)); ev [hf, hc, h2]

theorem conv_pgl (ns : List Nat) :
    EvalHap (ns.foldr (fun n acc => app2 Gen.GList.cons (f n) acc) Gen.GList.nil) (parigotList (ns.map f)) := by
  have hw : ∀ a, isWNF (f a) = true := fun a => isNormal_isWNF (hn a)
  have hi := plb_inst hf
  have hnb := normal_plb hn
  have hs := shiftFV_plb hf
  have ha := applyAux_plb hf
  induction ns with
  | nil => exact EvalHap.of_isNormal rfl
  | cons a ns ih =>
    rw [List.foldr_cons]
    refine EvalHap.app_arg ih ?_
    rw [List.map_cons, parigotList, ListBasic.unabs2_parigotList, parigotList_eq]
    ev [hf, hi, hs, ha, ListBasic.parigotListRec_vars]

end Parigot

theorem conv_sl {f : Nat → Term} (hf : ∀ a, closedAt 0 (f a) = true) (hn : ∀ a, isNormal (f a) = true)
    (ns : List Nat) :
    EvalHap (ns.foldr (fun n acc => app2 Gen.SList.cons (f n) acc) Gen.SList.nil) (scottList (ns.map f)) := by
  have hw : ∀ a, isWNF (f a) = true := fun a => isNormal_isWNF (hn a)
  have hc := closed_sl hf
  have hnl := normal_sl hn
  induction ns with
  | nil => exact EvalHap.of_isNormal rfl
  | cons a ns ih =>
    rw [List.foldr_cons]
    refine EvalHap.app_arg ih ?_
    simp only [List.map_cons, scottList]
    ev [hf, hc]

end EagerListA

theorem is_nil_churchList_hap (ns : List Nat) :
    EvalHap (app Gen.CList.is_nil (churchList (ns.map intoChurch))) (fromBool ns.isEmpty) :=
  is_nil_chl closed_intoChurch normal_intoChurch ns

theorem head_churchList_hap (n : Nat) (ns : List Nat) :
    EvalHap (app Gen.CList.head (churchList ((n :: ns).map intoChurch))) (intoChurch n) :=
  head_chl closed_intoChurch normal_intoChurch (n :: ns)

theorem tail_churchList_hap (n : Nat) (ns : List Nat) :
    EvalHap (app Gen.CList.tail (churchList ((n :: ns).map intoChurch))) (churchList (ns.map intoChurch)) :=
  tail_chl closed_intoChurch normal_intoChurch (n :: ns)

theorem is_nil_parigotList_hap (ns : List Nat) :
    EvalHap (app Gen.GList.is_nil (parigotList (ns.map intoParigot))) (fromBool ns.isEmpty) :=
  is_nil_pgl closed_intoParigot C12_normal_parigot ns

theorem head_parigotList_hap (n : Nat) (ns : List Nat) :
    EvalHap (app Gen.GList.head (parigotList ((n :: ns).map intoParigot))) (intoParigot n) :=
  head_pgl closed_intoParigot C12_normal_parigot (n :: ns)

theorem tail_parigotList_hap (n : Nat) (ns : List Nat) :
    EvalHap (app Gen.GList.tail (parigotList ((n :: ns).map intoParigot))) (parigotList (ns.map intoParigot)) :=
  tail_pgl closed_intoParigot C12_normal_parigot (n :: ns)

/-! ## 8. the conversions are what repeated `cons` evaluates to -/

theorem conv_is_cons_pair_hap (ns : List Nat) :
    EvalHap (ns.foldr (fun n acc => app2 Gen.PList.cons (intoChurch n) acc) Gen.PList.nil) (cl ns) := by
  induction ns with
  | nil => exact EvalHap.of_isNormal rfl
  | cons a ns ih =>
    rw [List.foldr_cons]
    refine EvalHap.app_arg ih ?_
    rw [cl_cons]; ev

theorem conv_is_cons_church_hap (ns : List Nat) :
    EvalHap (ns.foldr (fun n acc => app2 Gen.CList.cons (intoChurch n) acc) Gen.CList.nil)
      (churchList (ns.map intoChurch)) :=
  conv_chl closed_intoChurch normal_intoChurch ns

theorem conv_is_cons_scott_hap (ns : List Nat) :
    EvalHap (ns.foldr (fun n acc => app2 Gen.SList.cons (intoScott n) acc) Gen.SList.nil)
      (scottList (ns.map intoScott)) :=
  conv_sl closed_intoScott C12_normal_scott ns

theorem conv_is_cons_parigot_hap (ns : List Nat) :
    EvalHap (ns.foldr (fun n acc => app2 Gen.GList.cons (intoParigot n) acc) Gen.GList.nil)
      (parigotList (ns.map intoParigot)) :=
  conv_pgl closed_intoParigot C12_normal_parigot ns

/-! ## 9. `index`, `last`, `init` -/

namespace EagerListA

/-- `TAILⁱ l` for `i ≤ length l` -/
theorem hap_iter_tail (ns : List Nat) (i : Nat) (h : i ≤ ns.length) :
    EvalHap (iterApp Gen.PList.tail (cl ns) i) (cl (ns.drop i)) := by
  induction i with
  | zero => simp only [iterApp_zero, List.drop_zero]; exact EvalHap.of_isNormal (normal_cl ns)
  | succ i ih =>
    rw [iterApp_succ]
    refine EvalHap.app_arg (ih (by omega)) ?_
    have hi : i < ns.length := by omega
    rw [List.drop_eq_getElem_cons hi]
    exact tail_pairList_hap _ _

/-- a recursive call through the stub, HAP, unary functional: the argument is evaluated by HAP (operand position) -/
theorem hap_stub1 {F q X v R : Term} (hF : Closed F) (hq : EvalCbv (ZF F) q) (hX : EvalHap X v)
    (h : EvalHap (app q v) R) : EvalHap (app (stub F) X) R := by
  refine EvalHap.appRed (EvalCbv.abs _) hX ?_
  have e : contract (app (ZF F) (var 1)) v = app (ZF F) v := by lc_simp [ZF, ZW]
  rw [e]
  exact EvalHap.app_fn hq h

def lastF : Term := appArg Gen.PList.last
theorem last_eq : Gen.PList.last = app Gen.Comb.Z lastF := by decide
theorem closed_lastF : Closed lastF := by decide

/-- what `last` returns: `NIL` for the empty list -/
def lastV : List Nat → Term
  | [] => cl []
  | [n] => intoChurch n
  | _ :: m :: ns => lastV (m :: ns)

theorem lastV_eq (ns : List Nat) (h : ns ≠ []) : lastV ns = intoChurch (ns.getLast h) := by
  induction ns with
  | nil => exact absurd rfl h
  | cons n ns ih =>
    cases ns with
    | nil => rfl
    | cons m ns => rw [lastV, ih (List.cons_ne_nil m ns), List.getLast_cons (List.cons_ne_nil m ns)]

/-- NOTE `LAST ≡ Z (λzl.IS_NIL l (λx.NIL) (λx.IS_NIL (TAIL l) (HEAD l) (z (TAIL l))) I)`: the recursive call is NOT
thunked, so under HAP it is evaluated for every cell, also for the last one (where it returns `NIL` and is dropped) -/
theorem last_core : ∃ q, EvalCbv (ZF lastF) q ∧ ∀ (ns : List Nat), EvalHap (app q (cl ns)) (lastV ns) := by
  apply Exists.intro
  apply And.intro
  · simp only [ZF, ZW]; ev
  · intro ns
    induction ns with
    | nil => simp only [lastV]; ev
    | cons n ns ih =>
      have ht := tail_pairList_hap n ns
      have htc := tail_pairList_cbv n ns
      have hhc := head_pairList_cbv n ns
      have hrec := hap_stub1 closed_lastF (by simp only [ZF, ZW]; ev) ht ih
      rw [cl_cons] at ht htc hhc hrec
      cases ns with
      | nil => simp only [lastV] at hrec ⊢; rw [cl_cons]; ev
      | cons m ns =>
        simp only [lastV]
        have hR := ih.isNormal
        generalize lastV (m :: ns) = R at *
        rw [cl_cons] at ht htc hrec hhc ⊢
        ev

def initF : Term := appArg Gen.PList.init
theorem init_eq : Gen.PList.init = app Gen.Comb.Z initF := by decide
theorem closed_initF : Closed initF := by decide

theorem init_core : ∃ q, EvalCbv (ZF initF) q ∧ ∀ (ns : List Nat), EvalHap (app q (cl ns)) (cl ns.dropLast) := by
  apply Exists.intro
  apply And.intro
  · simp only [ZF, ZW]; ev
  · intro ns
    induction ns with
    | nil => simp only [List.dropLast_nil]; ev
    | cons n ns ih =>
      have ht := tail_pairList_hap n ns
      have htc := tail_pairList_cbv n ns
      have hhc := head_pairList_cbv n ns
      have hrec := hap_stub1 closed_initF (by simp only [ZF, ZW]; ev) ht ih
      rw [cl_cons] at ht htc hhc hrec
      cases ns with
      | nil => simp only [List.dropLast_singleton, List.dropLast_nil] at hrec ⊢; rw [cl_cons]; ev
      | cons m ns =>
        rw [List.dropLast_cons_cons]
        generalize (m :: ns).dropLast = L at *
        rw [cl_cons n L]
        rw [cl_cons] at ht htc hrec hhc ⊢
        ev

end EagerListA

theorem plist_index_hap (ns : List Nat) (i : Nat) (h : i < ns.length) :
    EvalHap (app2 Gen.PList.index (intoChurch i) (cl ns)) (intoChurch ns[i]) := by
  have h1 := hap_iter_tail ns i (by omega)
  have h2 := head_pairList_hap ns[i] (ns.drop (i + 1))
  rw [← List.drop_eq_getElem_cons h] at h2
  generalize ns.drop i = L at *
  ev

theorem plist_last_hap (ns : List Nat) (h : ns ≠ []) :
    EvalHap (app Gen.PList.last (cl ns)) (intoChurch (ns.getLast h)) := by
  obtain ⟨q, hq, hrec⟩ := last_core
  rw [last_eq, ← lastV_eq ns h]
  exact EvalHap.app_fn (cbv_Z closed_lastF (by decide) hq) (hrec ns)

set_option linter.unusedVariables false in
theorem plist_init_hap (ns : List Nat) (h : ns ≠ []) : EvalHap (app Gen.PList.init (cl ns)) (cl ns.dropLast) := by
  obtain ⟨q, hq, hrec⟩ := init_core
  rw [init_eq]
  exact EvalHap.app_fn (cbv_Z closed_initF (by decide) hq) (hrec ns)

/-! ## 10. the unbounded termination statements about the model reducer -/

theorem is_nil_pairList_reduce_hap (ns : List Nat) :
    ∃ fuel c, reduce .HAP 0 fuel (app Gen.PList.is_nil (cl ns)) =
      some (fromBool ns.isEmpty, c) :=
  (is_nil_pairList_hap ns).reduce

theorem head_pairList_reduce_hap (n : Nat) (ns : List Nat) :
    ∃ fuel c, reduce .HAP 0 fuel (app Gen.PList.head (cl (n :: ns))) =
      some (intoChurch n, c) :=
  (head_pairList_hap n ns).reduce

theorem tail_pairList_reduce_hap (n : Nat) (ns : List Nat) :
    ∃ fuel c, reduce .HAP 0 fuel (app Gen.PList.tail (cl (n :: ns))) =
      some (cl ns, c) :=
  (tail_pairList_hap n ns).reduce

theorem is_nil_churchList_reduce_hap (ns : List Nat) :
    ∃ fuel c, reduce .HAP 0 fuel (app Gen.CList.is_nil (churchList (ns.map intoChurch))) =
      some (fromBool ns.isEmpty, c) :=
  (is_nil_churchList_hap ns).reduce

theorem head_churchList_reduce_hap (n : Nat) (ns : List Nat) :
    ∃ fuel c, reduce .HAP 0 fuel (app Gen.CList.head (churchList ((n :: ns).map intoChurch))) =
      some (intoChurch n, c) :=
  (head_churchList_hap n ns).reduce

theorem tail_churchList_reduce_hap (n : Nat) (ns : List Nat) :
    ∃ fuel c, reduce .HAP 0 fuel (app Gen.CList.tail (churchList ((n :: ns).map intoChurch))) =
      some (churchList (ns.map intoChurch), c) :=
  (tail_churchList_hap n ns).reduce

theorem is_nil_scottList_reduce_hap (ns : List Nat) :
    ∃ fuel c, reduce .HAP 0 fuel (app Gen.SList.is_nil (scottList (ns.map intoScott))) =
      some (fromBool ns.isEmpty, c) :=
  (is_nil_scottList_hap ns).reduce

theorem head_scottList_reduce_hap (n : Nat) (ns : List Nat) :
    ∃ fuel c, reduce .HAP 0 fuel (app Gen.SList.head (scottList ((n :: ns).map intoScott))) =
      some (intoScott n, c) :=
  (head_scottList_hap n ns).reduce

theorem tail_scottList_reduce_hap (n : Nat) (ns : List Nat) :
    ∃ fuel c, reduce .HAP 0 fuel (app Gen.SList.tail (scottList ((n :: ns).map intoScott))) =
      some (scottList (ns.map intoScott), c) :=
  (tail_scottList_hap n ns).reduce

theorem is_nil_parigotList_reduce_hap (ns : List Nat) :
    ∃ fuel c, reduce .HAP 0 fuel (app Gen.GList.is_nil (parigotList (ns.map intoParigot))) =
      some (fromBool ns.isEmpty, c) :=
  (is_nil_parigotList_hap ns).reduce

theorem head_parigotList_reduce_hap (n : Nat) (ns : List Nat) :
    ∃ fuel c, reduce .HAP 0 fuel (app Gen.GList.head (parigotList ((n :: ns).map intoParigot))) =
      some (intoParigot n, c) :=
  (head_parigotList_hap n ns).reduce

theorem tail_parigotList_reduce_hap (n : Nat) (ns : List Nat) :
    ∃ fuel c, reduce .HAP 0 fuel (app Gen.GList.tail (parigotList ((n :: ns).map intoParigot))) =
      some (parigotList (ns.map intoParigot), c) :=
  (tail_parigotList_hap n ns).reduce

theorem conv_is_cons_pair_reduce_hap (ns : List Nat) :
    ∃ fuel c, reduce .HAP 0 fuel (ns.foldr (fun n acc => app2 Gen.PList.cons (intoChurch n) acc) Gen.PList.nil) =
      some (cl ns, c) :=
  (conv_is_cons_pair_hap ns).reduce

theorem conv_is_cons_church_reduce_hap (ns : List Nat) :
    ∃ fuel c, reduce .HAP 0 fuel (ns.foldr (fun n acc => app2 Gen.CList.cons (intoChurch n) acc) Gen.CList.nil) =
      some (churchList (ns.map intoChurch), c) :=
  (conv_is_cons_church_hap ns).reduce

theorem conv_is_cons_scott_reduce_hap (ns : List Nat) :
    ∃ fuel c, reduce .HAP 0 fuel (ns.foldr (fun n acc => app2 Gen.SList.cons (intoScott n) acc) Gen.SList.nil) =
      some (scottList (ns.map intoScott), c) :=
  (conv_is_cons_scott_hap ns).reduce

theorem conv_is_cons_parigot_reduce_hap (ns : List Nat) :
    ∃ fuel c, reduce .HAP 0 fuel (ns.foldr (fun n acc => app2 Gen.GList.cons (intoParigot n) acc) Gen.GList.nil) =
      some (parigotList (ns.map intoParigot), c) :=
  (conv_is_cons_parigot_hap ns).reduce

theorem plist_length_reduce_hap (ns : List Nat) :
    ∃ fuel c, reduce .HAP 0 fuel (app Gen.PList.length (cl ns)) =
      some (intoChurch ns.length, c) :=
  (plist_length_hap ns).reduce

theorem plist_reverse_reduce_hap (ns : List Nat) :
    ∃ fuel c, reduce .HAP 0 fuel (app Gen.PList.reverse (cl ns)) =
      some (cl ns.reverse, c) :=
  (plist_reverse_hap ns).reduce

theorem plist_append_reduce_hap (ms ns : List Nat) :
    ∃ fuel c, reduce .HAP 0 fuel (app2 Gen.PList.append (cl ms) (cl ns)) =
      some (cl (ms ++ ns), c) :=
  (plist_append_hap ms ns).reduce

theorem plist_index_reduce_hap (ns : List Nat) (i : Nat) (h : i < ns.length) :
    ∃ fuel c, reduce .HAP 0 fuel (app2 Gen.PList.index (intoChurch i) (cl ns)) =
      some (intoChurch ns[i], c) :=
  (plist_index_hap ns i h).reduce

theorem plist_last_reduce_hap (ns : List Nat) (h : ns ≠ []) :
    ∃ fuel c, reduce .HAP 0 fuel (app Gen.PList.last (cl ns)) =
      some (intoChurch (ns.getLast h), c) :=
  (plist_last_hap ns h).reduce

theorem plist_init_reduce_hap (ns : List Nat) (h : ns ≠ []) :
    ∃ fuel c, reduce .HAP 0 fuel (app Gen.PList.init (cl ns)) =
      some (cl ns.dropLast, c) :=
  (plist_init_hap ns h).reduce

end LC
