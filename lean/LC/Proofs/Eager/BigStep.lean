/-
Big-step (natural) semantics of the three EAGER traversals `betaCbv`, `betaHap`, `betaApp` of
`LC/Model/Reduce.lean` with `limit = 0` (no step limit): inductive relations WITHOUT fuel and
WITHOUT step counters, mirroring the order of the recursive calls exactly, and the adequacy
theorems "a derivation yields a terminating run of the traversal (for some fuel)".

Purpose: unbounded (for all arguments) termination theorems for the λ-encoded operations under
the eager orders HAP and APP, for which there is no general normalisation theorem.
-/
import LC.Proofs.Complete.Hap
import LC.Proofs.Complete.App
import LC.Proofs.ReduceLemmas
import LC.Proofs.Refine.All
import LC.Proofs.Beta

namespace LC
open Term Spec RL

/-! ## 1. the three relations -/

/-- mirrors `betaCbv 0`: CBV on the operator, CBV on the operand, contract if the operator became an abstraction -/
inductive EvalCbv : Term → Term → Prop
  | var (i : Nat) : EvalCbv (Term.var i) (Term.var i)
  | abs (b : Term) : EvalCbv (Term.abs b) (Term.abs b)
  | appRed {l r b r' v : Term} :
      EvalCbv l (Term.abs b) → EvalCbv r r' → EvalCbv (contract b r') v → EvalCbv (Term.app l r) v
  | appNeu {l r l' r' : Term} :
      EvalCbv l l' → isAbs l' = false → EvalCbv r r' → EvalCbv (Term.app l r) (Term.app l' r')

/-- mirrors `betaHap 0`: CBV on the operator, HAP on the operand, contract if the operator became an
abstraction, else HAP on the (neutral) operator -/
inductive EvalHap : Term → Term → Prop
  | var (i : Nat) : EvalHap (Term.var i) (Term.var i)
  | abs {b b' : Term} : EvalHap b b' → EvalHap (Term.abs b) (Term.abs b')
  | appRed {l r b r' n : Term} :
      EvalCbv l (Term.abs b) → EvalHap r r' → EvalHap (contract b r') n → EvalHap (Term.app l r) n
  | appNeu {l r l' l'' r' : Term} :
      EvalCbv l l' → isAbs l' = false → EvalHap r r' → EvalHap l' l'' → EvalHap (Term.app l r) (Term.app l'' r')

/-- mirrors `betaApp 0`: APP on the operator, APP on the operand (both also under abstractions), contract if
the operator became an abstraction -/
inductive EvalApp : Term → Term → Prop
  | var (i : Nat) : EvalApp (Term.var i) (Term.var i)
  | abs {b b' : Term} : EvalApp b b' → EvalApp (Term.abs b) (Term.abs b')
  | appRed {l r b r' n : Term} :
      EvalApp l (Term.abs b) → EvalApp r r' → EvalApp (contract b r') n → EvalApp (Term.app l r) n
  | appNeu {l r l' r' : Term} :
      EvalApp l l' → isAbs l' = false → EvalApp r r' → EvalApp (Term.app l r) (Term.app l' r')

/-! ## 2. adequacy: a derivation gives a terminating run of the traversal -/

theorem gate_zero (c : Nat) : gate 0 c = false := by simp [gate]
theorem budget_zero (c : Nat) : budget 0 c = true := by simp [budget]

theorem EvalCbv.run {t v : Term} (h : EvalCbv t v) :
    ∃ fuel, ∀ c, ∃ k, betaCbv 0 fuel t c = some (v, c + k) := by
  induction h with
  | var i => exact ⟨1, fun c => ⟨0, by simp [betaCbv, gate_zero]⟩⟩
  | abs b => exact ⟨1, fun c => ⟨0, by simp [betaCbv, gate_zero]⟩⟩
  | @appRed l r b r' v _ _ _ ihl ihr ihv =>
    obtain ⟨f1, h1⟩ := ihl; obtain ⟨f2, h2⟩ := ihr; obtain ⟨f3, h3⟩ := ihv
    refine ⟨max f1 (max f2 f3) + 1, fun c => ?_⟩
    obtain ⟨k1, e1⟩ := h1 c
    obtain ⟨k2, e2⟩ := h2 (c + k1)
    obtain ⟨k3, e3⟩ := h3 (c + k1 + k2 + 1)
    refine ⟨k1 + k2 + 1 + k3, ?_⟩
    have e1' := betaCbv_mono 0 e1 (show f1 ≤ max f1 (max f2 f3) by omega)
    have e2' := betaCbv_mono 0 e2 (show f2 ≤ max f1 (max f2 f3) by omega)
    have e3' := betaCbv_mono 0 e3 (show f3 ≤ max f1 (max f2 f3) by omega)
    rw [betaCbv]
    simp only [gate_zero, budget_zero, e1', e2', e3', if_true, Bool.false_eq_true, if_false]
    congr 2; omega
  | @appNeu l r l' r' _ hna _ ihl ihr =>
    obtain ⟨f1, h1⟩ := ihl; obtain ⟨f2, h2⟩ := ihr
    refine ⟨max f1 f2 + 1, fun c => ?_⟩
    obtain ⟨k1, e1⟩ := h1 c
    obtain ⟨k2, e2⟩ := h2 (c + k1)
    refine ⟨k1 + k2, ?_⟩
    have e1' := betaCbv_mono 0 e1 (show f1 ≤ max f1 f2 by omega)
    have e2' := betaCbv_mono 0 e2 (show f2 ≤ max f1 f2 by omega)
    rw [betaCbv]
    simp only [gate_zero, e1', e2', Bool.false_eq_true, if_false]
    cases l' with
    | abs b => simp [isAbs] at hna
    | var i => simp; omega
    | app a b => simp; omega

theorem EvalHap.run {t n : Term} (h : EvalHap t n) :
    ∃ fuel, ∀ c, ∃ k, betaHap 0 fuel t c = some (n, c + k) := by
  induction h with
  | var i => exact ⟨1, fun c => ⟨0, by simp [betaHap, gate_zero]⟩⟩
  | @abs b b' _ ih =>
    obtain ⟨f, hf⟩ := ih
    refine ⟨f + 1, fun c => ?_⟩
    obtain ⟨k, e⟩ := hf c
    exact ⟨k, by rw [betaHap]; simp [gate_zero, e]⟩
  | @appRed l r b r' n hl _ _ ihr ihn =>
    obtain ⟨f1, h1⟩ := hl.run; obtain ⟨f2, h2⟩ := ihr; obtain ⟨f3, h3⟩ := ihn
    refine ⟨max f1 (max f2 f3) + 1, fun c => ?_⟩
    obtain ⟨k1, e1⟩ := h1 c
    obtain ⟨k2, e2⟩ := h2 (c + k1)
    obtain ⟨k3, e3⟩ := h3 (c + k1 + k2 + 1)
    refine ⟨k1 + k2 + 1 + k3, ?_⟩
    have e1' := betaCbv_mono 0 e1 (show f1 ≤ max f1 (max f2 f3) by omega)
    have e2' := betaHap_mono 0 e2 (show f2 ≤ max f1 (max f2 f3) by omega)
    have e3' := betaHap_mono 0 e3 (show f3 ≤ max f1 (max f2 f3) by omega)
    rw [betaHap]
    simp only [gate_zero, budget_zero, e1', e2', e3', isAbs, Bool.and_self, if_true,
      Bool.false_eq_true, if_false]
    congr 2; omega
  | @appNeu l r l' l'' r' hl hna _ _ ihr ihl' =>
    obtain ⟨f1, h1⟩ := hl.run; obtain ⟨f2, h2⟩ := ihr; obtain ⟨f3, h3⟩ := ihl'
    refine ⟨max f1 (max f2 f3) + 1, fun c => ?_⟩
    obtain ⟨k1, e1⟩ := h1 c
    obtain ⟨k2, e2⟩ := h2 (c + k1)
    obtain ⟨k3, e3⟩ := h3 (c + k1 + k2)
    refine ⟨k1 + k2 + k3, ?_⟩
    have e1' := betaCbv_mono 0 e1 (show f1 ≤ max f1 (max f2 f3) by omega)
    have e2' := betaHap_mono 0 e2 (show f2 ≤ max f1 (max f2 f3) by omega)
    have e3' := betaHap_mono 0 e3 (show f3 ≤ max f1 (max f2 f3) by omega)
    rw [betaHap]
    simp only [gate_zero, e1', e2', e3', hna, Bool.false_and, Bool.false_eq_true, if_false]
    congr 2; omega

theorem EvalApp.run {t n : Term} (h : EvalApp t n) :
    ∃ fuel, ∀ c, ∃ k, betaApp 0 fuel t c = some (n, c + k) := by
  induction h with
  | var i => exact ⟨1, fun c => ⟨0, by simp [betaApp, gate_zero]⟩⟩
  | @abs b b' _ ih =>
    obtain ⟨f, hf⟩ := ih
    refine ⟨f + 1, fun c => ?_⟩
    obtain ⟨k, e⟩ := hf c
    exact ⟨k, by rw [betaApp]; simp [gate_zero, e]⟩
  | @appRed l r b r' v _ _ _ ihl ihr ihv =>
    obtain ⟨f1, h1⟩ := ihl; obtain ⟨f2, h2⟩ := ihr; obtain ⟨f3, h3⟩ := ihv
    refine ⟨max f1 (max f2 f3) + 1, fun c => ?_⟩
    obtain ⟨k1, e1⟩ := h1 c
    obtain ⟨k2, e2⟩ := h2 (c + k1)
    obtain ⟨k3, e3⟩ := h3 (c + k1 + k2 + 1)
    refine ⟨k1 + k2 + 1 + k3, ?_⟩
    have e1' := betaApp_mono 0 e1 (show f1 ≤ max f1 (max f2 f3) by omega)
    have e2' := betaApp_mono 0 e2 (show f2 ≤ max f1 (max f2 f3) by omega)
    have e3' := betaApp_mono 0 e3 (show f3 ≤ max f1 (max f2 f3) by omega)
    rw [betaApp]
    simp only [gate_zero, budget_zero, e1', e2', e3', if_true, Bool.false_eq_true, if_false]
    congr 2; omega
  | @appNeu l r l' r' _ hna _ ihl ihr =>
    obtain ⟨f1, h1⟩ := ihl; obtain ⟨f2, h2⟩ := ihr
    refine ⟨max f1 f2 + 1, fun c => ?_⟩
    obtain ⟨k1, e1⟩ := h1 c
    obtain ⟨k2, e2⟩ := h2 (c + k1)
    refine ⟨k1 + k2, ?_⟩
    have e1' := betaApp_mono 0 e1 (show f1 ≤ max f1 f2 by omega)
    have e2' := betaApp_mono 0 e2 (show f2 ≤ max f1 f2 by omega)
    rw [betaApp]
    simp only [gate_zero, e1', e2', Bool.false_eq_true, if_false]
    cases l' with
    | abs b => simp [isAbs] at hna
    | var i => simp; omega
    | app a b => simp; omega

theorem EvalCbv.reduce {t v : Term} (h : EvalCbv t v) : ∃ fuel c, reduce .CBV 0 fuel t = some (v, c) := by
  obtain ⟨f, hf⟩ := h.run
  obtain ⟨k, e⟩ := hf 0
  exact ⟨f, 0 + k, e⟩

theorem EvalHap.reduce {t n : Term} (h : EvalHap t n) : ∃ fuel c, reduce .HAP 0 fuel t = some (n, c) := by
  obtain ⟨f, hf⟩ := h.run
  obtain ⟨k, e⟩ := hf 0
  exact ⟨f, 0 + k, e⟩

theorem EvalApp.reduce {t n : Term} (h : EvalApp t n) : ∃ fuel c, reduce .APP 0 fuel t = some (n, c) := by
  obtain ⟨f, hf⟩ := h.run
  obtain ⟨k, e⟩ := hf 0
  exact ⟨f, 0 + k, e⟩

/-! ## 3. values evaluate to themselves -/

theorem EvalCbv.of_isWNF {t : Term} (h : isWNF t = true) : EvalCbv t t := by
  induction t with
  | var i => exact EvalCbv.var i
  | abs b _ => exact EvalCbv.abs b
  | app l r ihl ihr =>
    simp only [isWNF, Bool.and_eq_true, Bool.not_eq_true'] at h
    exact EvalCbv.appNeu (ihl h.1.2) h.1.1 (ihr h.2)

theorem EvalHap.of_isNormal {t : Term} (h : isNormal t = true) : EvalHap t t := by
  induction t with
  | var i => exact EvalHap.var i
  | abs b ih => exact EvalHap.abs (ih (by simpa [isNormal] using h))
  | app l r ihl ihr =>
    obtain ⟨hna, hl, hr⟩ := isNormal_app h
    exact EvalHap.appNeu (EvalCbv.of_isWNF (isNormal_isWNF hl)) hna (ihr hr) (ihl hl)

theorem EvalApp.of_isNormal {t : Term} (h : isNormal t = true) : EvalApp t t := by
  induction t with
  | var i => exact EvalApp.var i
  | abs b ih => exact EvalApp.abs (ih (by simpa [isNormal] using h))
  | app l r ihl ihr =>
    obtain ⟨hna, hl, hr⟩ := isNormal_app h
    exact EvalApp.appNeu (ihl hl) hna (ihr hr)

/-! ## 4. soundness: results are normal forms of the right kind and β-reducts -/

theorem star_of_iter {f : Term → Option Term} (hf : ∀ {t t'}, f t = some t' → Beta t t') {k : Nat} {t u : Term}
    (h : Iter f k t u) : Star t u := by
  induction h with
  | zero t => exact Star.refl _
  | succ hs _ ih => exact Star.head (hf hs) ih

theorem EvalCbv.isWNF {t v : Term} (h : EvalCbv t v) : isWNF v = true := by
  obtain ⟨f, c, e⟩ := h.reduce
  have := (reduce_sound .CBV 0 f t v c e).2.2 (Or.inl rfl)
  exact stepCbv_none_iff_isWNF.mp this

theorem EvalHap.isNormal {t n : Term} (h : EvalHap t n) : isNormal n = true := by
  obtain ⟨f, c, e⟩ := h.reduce
  have := (reduce_sound .HAP 0 f t n c e).2.2 (Or.inl rfl)
  exact (stepHap_none_iff n).mp this

theorem EvalApp.isNormal {t n : Term} (h : EvalApp t n) : isNormal n = true := by
  obtain ⟨f, c, e⟩ := h.reduce
  have := (reduce_sound .APP 0 f t n c e).2.2 (Or.inl rfl)
  exact (stepApp_none_iff n).mp this

theorem EvalCbv.star {t v : Term} (h : EvalCbv t v) : Star t v := by
  obtain ⟨f, c, e⟩ := h.reduce
  exact star_of_iter stepCbv_beta (reduce_sound .CBV 0 f t v c e).1

theorem EvalHap.star {t n : Term} (h : EvalHap t n) : Star t n := by
  obtain ⟨f, c, e⟩ := h.reduce
  exact star_of_iter stepHap_beta (reduce_sound .HAP 0 f t n c e).1

theorem EvalApp.star {t n : Term} (h : EvalApp t n) : Star t n := by
  obtain ⟨f, c, e⟩ := h.reduce
  exact star_of_iter stepApp_beta (reduce_sound .APP 0 f t n c e).1

/-! ## 5. values evaluate ONLY to themselves; congruence / inversion lemmas for applications -/

theorem EvalCbv.wnf_eq {t v : Term} (h : EvalCbv t v) (hw : Spec.isWNF t = true) : v = t := by
  induction h with
  | var i => rfl
  | abs b => rfl
  | appRed _ _ _ ihl _ _ =>
    simp only [Spec.isWNF, Bool.and_eq_true, Bool.not_eq_true'] at hw
    have := ihl hw.1.2
    rw [← this] at hw; simp [isAbs] at hw
  | appNeu _ _ _ ihl ihr =>
    simp only [Spec.isWNF, Bool.and_eq_true, Bool.not_eq_true'] at hw
    rw [ihl hw.1.2, ihr hw.2]

theorem EvalHap.normal_eq {t v : Term} (h : EvalHap t v) (hn : Spec.isNormal t = true) : v = t := by
  induction h with
  | var i => rfl
  | abs _ ih => rw [ih (by simpa [Spec.isNormal] using hn)]
  | appRed hl _ _ _ _ =>
    obtain ⟨hna, hl', _⟩ := isNormal_app hn
    have := hl.wnf_eq (isNormal_isWNF hl')
    rw [← this] at hna; simp [isAbs] at hna
  | appNeu hl _ _ _ ihr ihl' =>
    obtain ⟨_, hl', hr'⟩ := isNormal_app hn
    have e := hl.wnf_eq (isNormal_isWNF hl')
    subst e
    rw [ihr hr', ihl' hl']

theorem EvalApp.normal_eq {t v : Term} (h : EvalApp t v) (hn : Spec.isNormal t = true) : v = t := by
  induction h with
  | var i => rfl
  | abs _ ih => rw [ih (by simpa [Spec.isNormal] using hn)]
  | appRed _ _ _ ihl _ _ =>
    obtain ⟨hna, hl', _⟩ := isNormal_app hn
    have := ihl hl'
    rw [← this] at hna; simp [isAbs] at hna
  | appNeu _ _ _ ihl ihr =>
    obtain ⟨_, hl', hr'⟩ := isNormal_app hn
    rw [ihl hl', ihr hr']

/-- evaluate operator and operand first (CBV) -/
theorem EvalCbv.app_congr {f g x v r : Term} (hf : EvalCbv f g) (hx : EvalCbv x v)
    (h : EvalCbv (Term.app g v) r) : EvalCbv (Term.app f x) r := by
  cases h with
  | appRed hl hr hn =>
    have e1 := hl.wnf_eq hf.isWNF; have e2 := hr.wnf_eq hx.isWNF
    subst e2; rw [← e1] at hf
    exact EvalCbv.appRed hf hx hn
  | appNeu hl hna hr =>
    have e1 := hl.wnf_eq hf.isWNF; have e2 := hr.wnf_eq hx.isWNF
    subst e1 e2
    exact EvalCbv.appNeu hf hna hx

/-- evaluate operator (CBV) and operand (HAP) first -/
theorem EvalHap.app_congr {f g x v r : Term} (hf : EvalCbv f g) (hx : EvalHap x v)
    (h : EvalHap (Term.app g v) r) : EvalHap (Term.app f x) r := by
  cases h with
  | appRed hl hr hn =>
    have e1 := hl.wnf_eq hf.isWNF; have e2 := hr.normal_eq hx.isNormal
    subst e2; rw [← e1] at hf
    exact EvalHap.appRed hf hx hn
  | appNeu hl hna hr hl' =>
    have e1 := hl.wnf_eq hf.isWNF; have e2 := hr.normal_eq hx.isNormal
    subst e1 e2
    exact EvalHap.appNeu hf hna hx hl'

theorem EvalHap.app_arg {f x v r : Term} (hx : EvalHap x v) (h : EvalHap (Term.app f v) r) :
    EvalHap (Term.app f x) r := by
  cases h with
  | appRed hl hr hn =>
    have e2 := hr.normal_eq hx.isNormal; subst e2
    exact EvalHap.appRed hl hx hn
  | appNeu hl hna hr hl' =>
    have e2 := hr.normal_eq hx.isNormal; subst e2
    exact EvalHap.appNeu hl hna hx hl'

theorem EvalCbv.app_arg {f x v r : Term} (hx : EvalCbv x v) (h : EvalCbv (Term.app f v) r) :
    EvalCbv (Term.app f x) r := by
  cases h with
  | appRed hl hr hn =>
    have e2 := hr.wnf_eq hx.isWNF; subst e2
    exact EvalCbv.appRed hl hx hn
  | appNeu hl hna hr =>
    have e2 := hr.wnf_eq hx.isWNF; subst e2
    exact EvalCbv.appNeu hl hna hx

theorem EvalApp.app_arg {f x v r : Term} (hx : EvalApp x v) (h : EvalApp (Term.app f v) r) :
    EvalApp (Term.app f x) r := by
  cases h with
  | appRed hl hr hn =>
    have e2 := hr.normal_eq hx.isNormal; subst e2
    exact EvalApp.appRed hl hx hn
  | appNeu hl hna hr =>
    have e2 := hr.normal_eq hx.isNormal; subst e2
    exact EvalApp.appNeu hl hna hx

theorem EvalCbv.app_fn {f g x r : Term} (hf : EvalCbv f g) (h : EvalCbv (Term.app g x) r) :
    EvalCbv (Term.app f x) r := by
  cases h with
  | appRed hl hr hn =>
    have e1 := hl.wnf_eq hf.isWNF; rw [← e1] at hf
    exact EvalCbv.appRed hf hr hn
  | appNeu hl hna hr =>
    have e1 := hl.wnf_eq hf.isWNF; subst e1
    exact EvalCbv.appNeu hf hna hr

theorem EvalHap.app_fn {f g x r : Term} (hf : EvalCbv f g) (h : EvalHap (Term.app g x) r) :
    EvalHap (Term.app f x) r := by
  cases h with
  | appRed hl hr hn =>
    have e1 := hl.wnf_eq hf.isWNF; rw [← e1] at hf
    exact EvalHap.appRed hf hr hn
  | appNeu hl hna hr hl' =>
    have e1 := hl.wnf_eq hf.isWNF; subst e1
    exact EvalHap.appNeu hf hna hr hl'

/-- replace the head of a binary application by its CBV value (HAP evaluates the operator `f a` by CBV) -/
theorem EvalHap.app2_fn {f g a b r : Term} (hf : EvalCbv f g) (h : EvalHap (Term.app (Term.app g a) b) r) :
    EvalHap (Term.app (Term.app f a) b) r := by
  cases h with
  | appRed hl hr hn => exact EvalHap.appRed (EvalCbv.app_fn hf hl) hr hn
  | appNeu hl hna hr hl' => exact EvalHap.appNeu (EvalCbv.app_fn hf hl) hna hr hl'

/-- evaluate operator and operand first (APP) -/
theorem EvalApp.app_congr {f g x v r : Term} (hf : EvalApp f g) (hx : EvalApp x v)
    (h : EvalApp (Term.app g v) r) : EvalApp (Term.app f x) r := by
  cases h with
  | appRed hl hr hn =>
    have e1 := hl.normal_eq hf.isNormal; have e2 := hr.normal_eq hx.isNormal
    subst e2; rw [← e1] at hf
    exact EvalApp.appRed hf hx hn
  | appNeu hl hna hr =>
    have e1 := hl.normal_eq hf.isNormal; have e2 := hr.normal_eq hx.isNormal
    subst e1 e2
    exact EvalApp.appNeu hf hna hx

/-- β for values: an abstraction applied to a normal operand evaluates like the contractum -/
theorem EvalHap.beta {b v r : Term} (hv : Spec.isNormal v = true) (h : EvalHap (contract b v) r) :
    EvalHap (Term.app (Term.abs b) v) r :=
  EvalHap.appRed (EvalCbv.abs b) (EvalHap.of_isNormal hv) h

theorem EvalHap.beta_inv {b v r : Term} (hv : Spec.isNormal v = true) (h : EvalHap (Term.app (Term.abs b) v) r) :
    EvalHap (contract b v) r := by
  cases h with
  | appRed hl hr hn =>
    cases hl; have e := hr.normal_eq hv; subst e; exact hn
  | appNeu hl hna _ _ => cases hl; simp [isAbs] at hna

theorem EvalCbv.beta {b v r : Term} (hv : Spec.isWNF v = true) (h : EvalCbv (contract b v) r) :
    EvalCbv (Term.app (Term.abs b) v) r :=
  EvalCbv.appRed (EvalCbv.abs b) (EvalCbv.of_isWNF hv) h

theorem EvalCbv.beta_inv {b v r : Term} (hv : Spec.isWNF v = true) (h : EvalCbv (Term.app (Term.abs b) v) r) :
    EvalCbv (contract b v) r := by
  cases h with
  | appRed hl hr hn =>
    cases hl; have e := hr.wnf_eq hv; subst e; exact hn
  | appNeu hl hna _ => cases hl; simp [isAbs] at hna

/-- β for normal forms under APP (the operator must be a NORMAL abstraction) -/
theorem EvalApp.beta {b v r : Term} (hb : Spec.isNormal b = true) (hv : Spec.isNormal v = true)
    (h : EvalApp (contract b v) r) : EvalApp (Term.app (Term.abs b) v) r :=
  EvalApp.appRed (EvalApp.of_isNormal (t := Term.abs b) (by simpa [Spec.isNormal] using hb)) (EvalApp.of_isNormal hv) h

theorem EvalApp.beta_inv {b v r : Term} (hb : Spec.isNormal b = true) (hv : Spec.isNormal v = true)
    (h : EvalApp (Term.app (Term.abs b) v) r) : EvalApp (contract b v) r := by
  have hb' : Spec.isNormal (Term.abs b) = true := by simpa [Spec.isNormal] using hb
  cases h with
  | appRed hl hr hn =>
    have e1 := hl.normal_eq hb'; have e2 := hr.normal_eq hv
    injection e1 with e1; subst e1 e2; exact hn
  | appNeu hl hna _ =>
    have e1 := hl.normal_eq hb'; subst e1; simp [isAbs] at hna

/-! ## 6. "continuation" form of the application rules

`Eval*.step_app` splits the evaluation of an application into: operator, operand, and then the continuation
`*Cont g v r` whose rule (`red` / `neu`) is selected by the SHAPE of the operator VALUE `g` — convenient for building
derivations goal by goal in evaluation order (see the tactic `ev` in `LC/Proofs/Eager/Church.lean`). -/

inductive CbvCont : Term → Term → Term → Prop
  | red {b v r : Term} : EvalCbv (contract b v) r → CbvCont (Term.abs b) v r
  | neu {g v : Term} : isAbs g = false → CbvCont g v (Term.app g v)

inductive HapCont : Term → Term → Term → Prop
  | red {b v r : Term} : EvalHap (contract b v) r → HapCont (Term.abs b) v r
  | neu {g g' v : Term} : isAbs g = false → EvalHap g g' → HapCont g v (Term.app g' v)

inductive AppCont : Term → Term → Term → Prop
  | red {b v r : Term} : EvalApp (contract b v) r → AppCont (Term.abs b) v r
  | neu {g v : Term} : isAbs g = false → AppCont g v (Term.app g v)

theorem EvalCbv.step_app {f g x v r : Term} (hf : EvalCbv f g) (hx : EvalCbv x v) (h : CbvCont g v r) :
    EvalCbv (Term.app f x) r := by
  cases h with
  | red h => exact EvalCbv.appRed hf hx h
  | neu hna => exact EvalCbv.appNeu hf hna hx

theorem EvalHap.step_app {f g x v r : Term} (hf : EvalCbv f g) (hx : EvalHap x v) (h : HapCont g v r) :
    EvalHap (Term.app f x) r := by
  cases h with
  | red h => exact EvalHap.appRed hf hx h
  | neu hna hg => exact EvalHap.appNeu hf hna hx hg

theorem EvalApp.step_app {f g x v r : Term} (hf : EvalApp f g) (hx : EvalApp x v) (h : AppCont g v r) :
    EvalApp (Term.app f x) r := by
  cases h with
  | red h => exact EvalApp.appRed hf hx h
  | neu hna => exact EvalApp.appNeu hf hna hx

/-- a continuation from an already known evaluation of `g v` (values `g`, `v`): lets previously proved theorems
about an operation be used compositionally -/
theorem CbvCont.of_eval {g v r : Term} (hg : Spec.isWNF g = true) (hv : Spec.isWNF v = true)
    (h : EvalCbv (Term.app g v) r) : CbvCont g v r := by
  cases h with
  | appRed hl hr hn =>
    have e1 := hl.wnf_eq hg; have e2 := hr.wnf_eq hv
    subst e1 e2; exact CbvCont.red hn
  | appNeu hl hna hr =>
    have e1 := hl.wnf_eq hg; have e2 := hr.wnf_eq hv
    subst e1 e2; exact CbvCont.neu hna

theorem HapCont.of_eval {g v r : Term} (hg : Spec.isWNF g = true) (hv : Spec.isNormal v = true)
    (h : EvalHap (Term.app g v) r) : HapCont g v r := by
  cases h with
  | appRed hl hr hn =>
    have e1 := hl.wnf_eq hg; have e2 := hr.normal_eq hv
    subst e1 e2; exact HapCont.red hn
  | appNeu hl hna hr hl' =>
    have e1 := hl.wnf_eq hg; have e2 := hr.normal_eq hv
    subst e1 e2; exact HapCont.neu hna hl'

theorem AppCont.of_eval {g v r : Term} (hg : Spec.isNormal g = true) (hv : Spec.isNormal v = true)
    (h : EvalApp (Term.app g v) r) : AppCont g v r := by
  cases h with
  | appRed hl hr hn =>
    have e1 := hl.normal_eq hg; have e2 := hr.normal_eq hv
    subst e1 e2; exact AppCont.red hn
  | appNeu hl hna hr =>
    have e1 := hl.normal_eq hg; have e2 := hr.normal_eq hv
    subst e1 e2; exact AppCont.neu hna

end LC
