/-
Eager evaluation, part 3: the Church operations `rem`, `div`, `shr`, `fac` under HAP, for ALL arguments.

`rem` and `div` RETURN closures produced by `pred`/`sub` chains under CBV (operator position); HAP afterwards normalises
these closures under their binders, where the closure meets OPEN arguments (the bound variables `f`, `x`).  `ONum v j`
strengthens `CNum v j` accordingly: the numeral-like behaviour holds for arbitrary (open) CBV values, and `v` itself
HAP-normalises to the numeral `j`.
-/
import LC.Proofs.Eager.ChurchCbv
import LC.Proofs.Num.ChurchB

namespace LC
open Term Spec Enc RL Eager

set_option linter.unusedSimpArgs false
attribute [local irreducible] iterApp

namespace ChurchHapB

/-! ## 1. closures that behave like numerals on OPEN values and HAP-normalise to numerals -/

/-- `v` is a closed CBV value that behaves like the Church numeral `j` on arbitrary (possibly open) CBV values and
whose HAP-normal form is the numeral `j` -/
def ONum (v : Term) (j : Nat) : Prop :=
  isWNF v = true ∧ Closed v ∧
  (∀ f x r, isWNF f = true → isWNF x = true → EvalCbv (iterApp f x j) r → EvalCbv (app2 v f x) r) ∧
  EvalHap v (intoChurch j)

theorem ONum.cnum {v : Term} {j : Nat} (h : ONum v j) : CNum v j :=
  ⟨h.1, h.2.1, fun f x r _ _ wf wx hr => h.2.2.1 f x r wf wx hr⟩

theorem onum_intoChurch (j : Nat) : ONum (intoChurch j) j := by
  refine ⟨rfl, closed_intoChurch j, fun f x r wf wx h => ?_, EvalHap.of_isNormal (normal_intoChurch j)⟩
  ev

/-- CBV values of `(λgh. h (g f))ᵏ (λu. x)` for arbitrary (open) values `f`, `x` -/
def pvo (f x : Term) : Nat → Term
  | 0 => abs (shiftFV 1 0 x)
  | k + 1 => abs (app (var 1) (app (shiftFV 1 0 (pvo f x k)) (shiftFV 1 0 f)))

@[simp] theorem isWNF_pvo (f x : Term) (k : Nat) : isWNF (pvo f x k) = true := by cases k <;> rfl

theorem cbv_iter_pvo (f x : Term) (k : Nat) :
    EvalCbv (iterApp (abs (abs (app (var 1) (app (var 2) (shiftFV 2 0 f))))) (abs (shiftFV 1 0 x)) k) (pvo f x k) := by
  apply cbv_iterApp (w := pvo f x)
  · simp only [pvo]; ev
  · intro k
    simp only [pvo]; ev

/-- forcing: `pvo k f` evaluates like `fᵏ x` -/
theorem cbv_pvo_app {f x : Term} (wf : isWNF f = true) (wx : isWNF x = true) :
    ∀ (k : Nat) (r : Term), EvalCbv (iterApp f x k) r → EvalCbv (app (pvo f x k) f) r := by
  intro k
  induction k with
  | zero =>
    intro r h
    simp only [iterApp_zero] at h
    have e := h.wnf_eq wx; subst e
    simp only [pvo]; ev
  | succ k ih =>
    intro r h
    rw [iterApp_succ] at h
    simp only [pvo]
    cases h with
    | appRed hl hr hn =>
      have h1 := ih _ hr
      apply EvalCbv.beta wf
      ev_simp
      exact EvalCbv.appRed hl h1 hn
    | appNeu hl hna hr =>
      have h1 := ih _ hr
      apply EvalCbv.beta wf
      ev_simp
      exact EvalCbv.appNeu hl hna h1

/-- `pred` maps such closures for `j` to such closures for `j - 1` -/
theorem onum_predC {v : Term} {j : Nat} (h : ONum v j) : ONum (predC v) (j - 1) := by
  obtain ⟨wv, cv, hv, _⟩ := h
  refine ⟨rfl, closed_predC cv, fun f x r wf wx h => ?_, ?_⟩
  · have h1 := hv _ _ _ rfl rfl (cbv_iter_pvo f x j)
    unfold predC
    ev [cv]
    cases j with
    | zero =>
      simp only [Nat.zero_sub, iterApp_zero] at h
      simp only [pvo]; ev
    | succ k =>
      simp only [Nat.add_sub_cancel] at h
      have h2 := cbv_pvo_app wf wx k r h
      have wr := h.isWNF
      simp only [pvo]; ev
  · rw [intoChurch_eq (j - 1)]
    have h1 := hv _ _ _ rfl rfl
      (cbv_iterApp (f := abs (abs (app (var 1) (app (var 2) (var 4))))) (x := abs (var 2)) (w := predV 2 1)
        (by simp only [predV]; ev) (fun k => by simp only [predV]; ev [shiftFV_predV]) j)
    unfold predC
    ev [cv]
    cases j with
    | zero => simp only [predV]; ev
    | succ n =>
      simp only [predV, Nat.add_sub_cancel]
      have := hap_predV_app n
      ev [applyAux_predV]

theorem onum_subCv {v : Term} {j : Nat} (h : ONum v j) (k : Nat) : ONum (subCv v k) (j - k) := by
  induction k with
  | zero => exact h
  | succ k ih => exact onum_predC ih

/-! ## 2. `rem` -/

theorem rem_core : ∃ q, EvalCbv (ZF ChurchB.remF) q ∧
    ∀ (j : Nat) (v : Term) (n : Nat), ONum v j →
      EvalHap (app2 q v (intoChurch (n + 1))) (intoChurch (j % (n + 1))) := by
  apply Exists.intro
  apply And.intro
  · simp only [ZF, ZW]; ev
  · intro j
    induction j using Nat.strongRecOn with
    | _ j ih =>
      intro v n hv
      have hlt := cbv_lt_cnum hv.cnum (cnum_intoChurch (n + 1))
      have wv := hv.1
      have cv := hv.2.1
      by_cases h : j < n + 1
      · simp only [h, decide_true] at hlt
        rw [Nat.mod_eq_of_lt h]
        have hn := hv.2.2.2
        ev [cv]
      · simp only [h, decide_false] at hlt
        have hsub := cbv_sub_cnum hv.cnum (cnum_intoChurch (n + 1))
        have hv' := onum_subCv hv (n + 1)
        have ih' := ih (j - (n + 1)) (by omega) _ n hv'
        have hrec := hap_stub2 ChurchB.closed_remF (by simp only [ZF, ZW]; ev) hsub ih'
        rw [Nat.mod_eq_sub_mod (by omega : j ≥ n + 1)]
        ev [cv]

/-! ## 3. `div` -/

theorem cbv_app2_fn {f g a b r : Term} (hf : EvalCbv f g) (h : EvalCbv (app2 g a b) r) :
    EvalCbv (app2 f a b) r := by
  cases h with
  | appRed hl hr hn => exact EvalCbv.appRed (EvalCbv.app_fn hf hl) hr hn
  | appNeu hl hna hr => exact EvalCbv.appNeu (EvalCbv.app_fn hf hl) hna hr

theorem hap_app3_fn {f g a b c r : Term} (hf : EvalCbv f g) (h : EvalHap (app3 g a b c) r) :
    EvalHap (app3 f a b c) r := by
  cases h with
  | appRed hl hr hn => exact EvalHap.appRed (cbv_app2_fn hf hl) hr hn
  | appNeu hl hna hr hl' => exact EvalHap.appNeu (cbv_app2_fn hf hl) hna hr hl'

/-- a recursive call through the stub, HAP, ternary functional -/
theorem hap_stub3 {F q X Y vX vY y R : Term} (hF : Closed F) (hq : EvalCbv (ZF F) q) (hX : EvalCbv X vX)
    (hY : EvalCbv Y vY) (h : EvalHap (app3 q vX vY y) R) : EvalHap (app3 (stub F) X Y y) R := by
  have key1 : ∀ r, EvalCbv (app q vX) r → EvalCbv (app (stub F) X) r := by
    intro r hr
    refine EvalCbv.appRed (EvalCbv.abs _) hX ?_
    have e : contract (app (ZF F) (var 1)) vX = app (ZF F) vX := by lc_simp [ZF, ZW]
    rw [e]
    exact EvalCbv.app_fn hq hr
  have key : ∀ r, EvalCbv (app2 q vX vY) r → EvalCbv (app2 (stub F) X Y) r := by
    intro r hr
    cases hr with
    | appRed hl hr hn =>
      have e := hr.wnf_eq hY.isWNF; subst e
      exact EvalCbv.appRed (key1 _ hl) hY hn
    | appNeu hl hna hr =>
      have e := hr.wnf_eq hY.isWNF; subst e
      exact EvalCbv.appNeu (key1 _ hl) hna hY
  cases h with
  | appRed hl hr hn => exact EvalHap.appRed (key _ hl) hr hn
  | appNeu hl hna hr hl' => exact EvalHap.appNeu (key _ hl) hna hr hl'

/-- the CBV value of `SUCC v` for a closed value `v` -/
def succC (v : Term) : Term := abs (abs (app (var 2) (app2 v (var 2) (var 1))))

/-- the quotient accumulator of `div`: `SUCCᵏ ZERO` under CBV -/
def sq : Nat → Term
  | 0 => Gen.Church.zero
  | k + 1 => succC (sq k)

@[simp] theorem isWNF_sq (k : Nat) : isWNF (sq k) = true := by cases k <;> rfl

theorem closed_sq (k : Nat) : Closed (sq k) := by
  induction k with
  | zero => decide
  | succ k ih => lc_simp [sq, succC]

theorem cbv_succ_sq (k : Nat) : EvalCbv (app Gen.Church.succ (sq k)) (sq (k + 1)) := by
  have hc := closed_sq k
  simp only [sq, succC]; ev [hc]

theorem hap_sq_app (k : Nat) : EvalHap (app2 (sq k) (var 2) (var 1)) (iterApp (var 2) (var 1) k) := by
  induction k with
  | zero => simp only [sq, iterApp_zero]; ev
  | succ k ih =>
    have hc := closed_sq k
    simp only [sq, succC, iterApp_succ]; ev [hc]

theorem hap_sq (k : Nat) : EvalHap (sq k) (intoChurch k) := by
  cases k with
  | zero => exact EvalHap.of_isNormal (by decide)
  | succ k =>
    have hc := closed_sq k
    have := hap_sq_app k
    rw [intoChurch_eq (k + 1), iterApp_succ]
    simp only [sq, succC]; ev

theorem div_core : ∃ q, EvalCbv (ZF ChurchB.divF) q ∧
    ∀ (j : Nat) (v : Term) (n k : Nat), ONum v j →
      EvalHap (app3 q (sq k) v (intoChurch (n + 1)))
        (tuple2 (intoChurch (k + j / (n + 1))) (intoChurch (j % (n + 1)))) := by
  apply Exists.intro
  apply And.intro
  · simp only [ZF, ZW]; ev
  · intro j
    induction j using Nat.strongRecOn with
    | _ j ih =>
      intro v n k hv
      have hlt := cbv_lt_cnum hv.cnum (cnum_intoChurch (n + 1))
      have wv := hv.1
      have cv := hv.2.1
      have ck := closed_sq k
      have hk := hap_sq k
      by_cases h : j < n + 1
      · simp only [h, decide_true] at hlt
        rw [Nat.mod_eq_of_lt h, Nat.div_eq_of_lt h, Nat.add_zero]
        have hn := hv.2.2.2
        unfold tuple2
        ev [cv, ck]
      · simp only [h, decide_false] at hlt
        have hsub := cbv_sub_cnum hv.cnum (cnum_intoChurch (n + 1))
        have hv' := onum_subCv hv (n + 1)
        have ih' := ih (j - (n + 1)) (by omega) _ n (k + 1) hv'
        have hrec := hap_stub3 ChurchB.closed_divF (by simp only [ZF, ZW]; ev) (cbv_succ_sq k) hsub ih'
        rw [Nat.mod_eq_sub_mod (by omega : j ≥ n + 1),
          show k + j / (n + 1) = (k + 1) + (j - (n + 1)) / (n + 1) by
            rw [Nat.div_eq_sub_div (by omega) (by omega)]; omega]
        ev [cv, ck]

/-! ## 4. `shr` (through `2ᵇ` and `quot`) -/

def two : Term := abs (abs (app (var 2) (app (var 2) (var 1))))

/-- HAP-normal forms of `2ᵏ x` for the variable `x = var 1` -/
def powW : Nat → Term
  | 0 => var 1
  | k + 1 => abs (iterApp (var 2) (var 1) (2 ^ (k + 1)))

theorem hap_two_iter (n : Nat) : EvalHap (iterApp two (var 1) n) (powW n) := by
  apply hap_iterApp (w := powW)
  · simp only [powW]; ev
  · intro k
    cases k with
    | zero =>
      simp only [powW, two]
      rw [show 2 ^ (0 + 1) = 1 + 1 by decide, iterApp_succ, iterApp_succ, iterApp_zero]
      ev
    | succ k =>
      simp only [powW, two]
      rw [show 2 ^ (k + 1 + 1) = 2 ^ (k + 1) + 2 ^ (k + 1) by omega, iterApp_add]
      ev

theorem pow_two_hap (n : Nat) :
    EvalHap (app2 Gen.Church.pow (app Gen.Church.succ Gen.Church.one) (intoChurch n)) (intoChurch (2 ^ n)) := by
  have hz := church_is_zero_cbv (cnum_intoChurch n)
  have hi := hap_two_iter n
  cases n with
  | zero =>
    simp only [powW, two] at *
    ev
  | succ n =>
    simp only [powW, two] at *
    rw [intoChurch_eq (2 ^ (n + 1))]
    ev

/-! ## 5. `fac` -/

/-- evaluate both operands of a binary application of a value first (operator position: CBV; operand: HAP) -/
theorem hap_app2_congr {g X Y v w r : Term} (hX : EvalCbv X v) (hY : EvalHap Y w)
    (h : EvalHap (app2 g v w) r) : EvalHap (app2 g X Y) r := by
  cases h with
  | appRed hl hr hn =>
    have e := hr.normal_eq hY.isNormal; subst e
    exact EvalHap.appRed (EvalCbv.app_arg hX hl) hY hn
  | appNeu hl hna hr hl' =>
    have e := hr.normal_eq hY.isNormal; subst e
    exact EvalHap.appNeu (EvalCbv.app_arg hX hl) hna hY hl'

/-- `λx. fʲ x` for the variable `f = var 1` -/
def nf (j : Nat) : Term := abs (iterApp (var 2) (var 1) j)

theorem hap_church_nf (m j : Nat) : EvalHap (app (intoChurch m) (nf j)) (nf (m * j)) := by
  unfold nf
  ev
  exact hap_iterApp (fun i => iterApp (var 2) (var 1) (i * j)) (by simp; ev)
    (fun i => by rw [Nat.succ_mul, Nat.add_comm (i * j), iterApp_add]; ev) m

/-- the product accumulator of `fac` under CBV: `MUL (… (MUL ONE 1) …) k` -/
def facA : Nat → Term
  | 0 => Gen.Church.one
  | k + 1 => abs (app (facA k) (app (intoChurch (k + 1)) (var 1)))

@[simp] theorem isWNF_facA (k : Nat) : isWNF (facA k) = true := by cases k <;> rfl

theorem closed_facA (k : Nat) : Closed (facA k) := by
  induction k with
  | zero => decide
  | succ k ih => lc_simp [facA]

theorem cbv_mul_facA (k : Nat) :
    EvalCbv (app2 Gen.Church.mul (facA k) (intoChurch (k + 1))) (facA (k + 1)) := by
  have hc := closed_facA k
  simp only [facA]; ev [hc]

theorem hap_facA_app (k : Nat) : ∀ j, EvalHap (app (facA k) (nf j)) (nf (j * ChurchB.fact k)) := by
  induction k with
  | zero =>
    intro j
    simp only [facA, ChurchB.fact, Nat.mul_one, nf]; ev
  | succ k ih =>
    intro j
    have hc := closed_facA k
    have h1 := hap_church_nf (k + 1) j
    have h2 := ih ((k + 1) * j)
    rw [show (k + 1) * j * ChurchB.fact k = j * ChurchB.fact (k + 1) by
      rw [ChurchB.fact_succ, Nat.mul_comm (k + 1) j, Nat.mul_assoc]] at h2
    have h3 := EvalHap.app_arg h1 h2
    have wn : isNormal (nf j) = true := by simp [nf, isNormal, isNormal_iterApp_var']
    simp only [facA]
    apply EvalHap.beta wn
    ev_simp [hc]
    exact h3

theorem hap_facA (k : Nat) : EvalHap (facA k) (intoChurch (ChurchB.fact k)) := by
  cases k with
  | zero => exact EvalHap.of_isNormal (by decide)
  | succ k =>
    have h := hap_facA_app k (k + 1)
    rw [← ChurchB.fact_succ] at h
    rw [intoChurch_eq]
    simp only [facA, nf] at *
    ev


/-- CBV values of `(λfab. f (MUL a b) (SUCC b))ᵏ K` -/
def fc : Nat → Term
  | 0 => Gen.Comb.K
  | k + 1 => abs (abs (app2 (fc k) (app2 Gen.Church.mul (var 2) (var 1)) (app Gen.Church.succ (var 1))))

@[simp] theorem isWNF_fc (k : Nat) : isWNF (fc k) = true := by cases k <;> rfl

theorem closed_fc (k : Nat) : Closed (fc k) := by
  induction k with
  | zero => decide
  | succ k ih => lc_simp [fc]

theorem cbv_iter_fc (n : Nat) : EvalCbv (iterApp ChurchB.facStep Gen.Comb.K n) (fc n) := by
  apply cbv_iterApp (w := fc)
  · simp only [fc]; ev
  · intro k
    have hc := closed_fc k
    simp only [fc, ChurchB.facStep]; ev [hc]

theorem hap_fc (k : Nat) : ∀ i, EvalHap (app2 (fc k) (facA i) (intoChurch (i + 1))) (intoChurch (ChurchB.fact (i + k))) := by
  induction k with
  | zero =>
    intro i
    have hc := closed_facA i
    have h := hap_facA i
    simp only [fc, Nat.add_zero]; ev [hc]
  | succ k ih =>
    intro i
    have hc := closed_facA i
    have hk := closed_fc k
    have h := ih (i + 1)
    rw [show i + 1 + k = i + (k + 1) by omega] at h
    have h2 := hap_app2_congr (g := fc k) (cbv_mul_facA i) (church_succ_hap (i + 1)) h
    simp only [fc]
    ev [hc, hk]

end ChurchHapB

/-- `rem` under HAP, for ALL arguments (divisor ≠ 0) -/
theorem church_rem_hap (m n : Nat) :
    EvalHap (app2 Gen.Church.rem (intoChurch m) (intoChurch (n + 1))) (intoChurch (m % (n + 1))) := by
  obtain ⟨q, hq, hrec⟩ := ChurchHapB.rem_core
  refine EvalHap.app2_fn (g := q) ?_ (hrec m _ n (ChurchHapB.onum_intoChurch m))
  rw [ChurchB.rem_eq]
  refine EvalCbv.appRed (EvalCbv.abs _) (EvalCbv.of_isWNF (by decide)) ?_
  have := ChurchB.closed_remF
  lc_simp
  exact hq

theorem church_rem_reduce_hap (m n : Nat) :
    ∃ fuel c, reduce .HAP 0 fuel (app2 Gen.Church.rem (intoChurch m) (intoChurch (n + 1))) =
      some (intoChurch (m % (n + 1)), c) :=
  (church_rem_hap m n).reduce

/-- `div` under HAP, for ALL arguments (divisor ≠ 0) -/
theorem church_div_hap (m n : Nat) :
    EvalHap (app2 Gen.Church.div (intoChurch m) (intoChurch (n + 1)))
      (tuple2 (intoChurch (m / (n + 1))) (intoChurch (m % (n + 1)))) := by
  obtain ⟨q, hq, hrec⟩ := ChurchHapB.div_core
  have h := hrec m _ n 0 (ChurchHapB.onum_intoChurch m)
  rw [Nat.zero_add] at h
  rw [ChurchB.div_eq]
  refine ChurchHapB.hap_app3_fn (g := q) ?_ h
  refine EvalCbv.appRed (EvalCbv.abs _) (EvalCbv.of_isWNF (by decide)) ?_
  have := ChurchB.closed_divF
  lc_simp
  exact hq

theorem church_div_reduce_hap (m n : Nat) :
    ∃ fuel c, reduce .HAP 0 fuel (app2 Gen.Church.div (intoChurch m) (intoChurch (n + 1))) =
      some (tuple2 (intoChurch (m / (n + 1))) (intoChurch (m % (n + 1))), c) :=
  (church_div_hap m n).reduce

/-- `shr` under HAP, for ALL arguments -/
theorem church_shr_hap (m n : Nat) :
    EvalHap (app2 Gen.Church.shr (intoChurch m) (intoChurch n)) (intoChurch (m / 2 ^ n)) := by
  have hz := church_is_zero_cbv (cnum_intoChurch n)
  have hp := ChurchHapB.pow_two_hap n
  have hq := church_quot_hap m (2 ^ n - 1)
  rw [show 2 ^ n - 1 + 1 = 2 ^ n from Nat.sub_add_cancel (Nat.two_pow_pos n)] at hq
  have hq' := EvalHap.app_arg hp hq
  cases n with
  | zero =>
    simp at hz
    rw [Nat.pow_zero, Nat.div_one]
    ev
  | succ n =>
    simp at hz
    ev

theorem church_shr_reduce_hap (m n : Nat) :
    ∃ fuel c, reduce .HAP 0 fuel (app2 Gen.Church.shr (intoChurch m) (intoChurch n)) =
      some (intoChurch (m / 2 ^ n), c) :=
  (church_shr_hap m n).reduce

/-- `fac` under HAP, for ALL arguments -/
theorem church_fac_hap (n : Nat) :
    EvalHap (app Gen.Church.fac (intoChurch n)) (intoChurch (ChurchB.fact n)) := by
  have h1 := ChurchHapB.cbv_iter_fc n
  have h2 := ChurchHapB.hap_fc n 0
  rw [Nat.zero_add n] at h2
  simp only [ChurchB.facStep] at h1
  apply EvalHap.beta (normal_intoChurch n)
  ev_simp
  refine EvalHap.app2_fn (g := ChurchHapB.fc n) ?_ h2
  ev

theorem church_fac_reduce_hap (n : Nat) :
    ∃ fuel c, reduce .HAP 0 fuel (app Gen.Church.fac (intoChurch n)) = some (intoChurch (ChurchB.fact n), c) :=
  (church_fac_hap n).reduce

end LC
