/-
Eager evaluation, order APP (applicative: operator and operand are normalised completely, also under binders,
before contraction): Church `sub`, the comparisons, `min`, `max`, for ALL arguments.

`SUB ≡ λab. b PRED a` is a closed normal form, so after two contractions APP evaluates `(church n) PRED (church m)`:
* the operator `(church n) PRED` becomes `λy. predⁿ y`, normalised UNDER the binder: the APP-normal form of
  `predⁿ y` for a variable `y` is `PP n = λf x. y G⁽ⁿ⁾ (Kⁿ x) I … I` with the nested `G⁽ᵏ⁺¹⁾ = λg h. h (g G⁽ᵏ⁾)`, `G⁽⁰⁾ = f`;
* substituting `y := church m` and normalising under `λf x`: `(church m) G⁽ⁿ⁾` becomes `λz. (G⁽ⁿ⁾)ᵐ z`, normalised under the
  binder (family `TT`), then `z := Kⁿ x` is substituted and the result re-normalised (family `RR`), then the `n`
  identities are consumed.

The comparisons are NOT normal: APP first normalises the constant (e.g. `LEQ` becomes `λm n. n PRED m (λx.F) T`), and after
the first contraction normalises again under the remaining binder.  In `LT`, `GEQ`, `EQ`, `NEQ` the FIRST argument is the
iterating numeral, so `(church m) PRED b (λx.F) T` is normalised for a VARIABLE `b` to `b G⁽ᵐ⁾ (Kᵐ T) I … I` with core
`G⁽⁰⁾ = λx.F` (an abstraction instead of the variable `f`); the families are therefore parametrised by a `Leaf`
(the normal forms of `Fʲ z`).
-/
import LC.Proofs.Eager.ChurchCbv

namespace LC
open Term Spec Enc RL Eager

set_option linter.unusedSimpArgs false
attribute [local irreducible] iterApp

namespace ChurchAppA

/-! ## 1. generic facts: shifting preserves shapes and APP-evaluation -/

theorem isAbs_var (i : Nat) : isAbs (var i) = false := rfl
theorem isAbs_app (l r : Term) : isAbs (app l r) = false := rfl
theorem isAbs_abs (b : Term) : isAbs (abs b) = true := rfl

theorem isAbs_shiftFV (a o : Nat) (t : Term) : isAbs (shiftFV a o t) = isAbs t := by
  cases t with
  | var i => simp only [shiftFV]; split <;> rfl
  | abs b => rfl
  | app l r => rfl

theorem isNormal_shiftFV (a o : Nat) (t : Term) : isNormal (shiftFV a o t) = isNormal t := by
  induction t generalizing o with
  | var i => simp only [shiftFV]; split <;> rfl
  | abs b ih => simp only [shiftFV, isNormal, ih]
  | app l r ihl ihr => simp only [shiftFV, isNormal, ihl, ihr, isAbs_shiftFV]

theorem evalApp_shift {t r : Term} (h : EvalApp t r) (a : Nat) :
    ∀ o, EvalApp (shiftFV a o t) (shiftFV a o r) := by
  induction h with
  | var i => intro o; exact EvalApp.of_isNormal (by rw [isNormal_shiftFV]; rfl)
  | abs _ ih => intro o; exact EvalApp.abs (ih (o + 1))
  | @appRed l r b r' n _ _ _ ihl ihr ihn =>
    intro o
    refine EvalApp.appRed (ihl o) (ihr o) ?_
    have := ihn o
    rwa [shiftFV_contract] at this
  | appNeu _ hna _ ihl ihr =>
    intro o
    exact EvalApp.appNeu (ihl o) (by rw [isAbs_shiftFV]; exact hna) (ihr o)

/-- a neutral normal operator iterated on an argument: only the argument is evaluated -/
theorem app_iterApp_neu {F : Term} (hF : isNormal F = true) (hF' : isAbs F = false) {x x' : Term}
    (h : EvalApp x x') (n : Nat) : EvalApp (iterApp F x n) (iterApp F x' n) := by
  induction n with
  | zero => simpa using h
  | succ n ih => rw [iterApp_succ, iterApp_succ]; exact EvalApp.appNeu (EvalApp.of_isNormal hF) hF' ih

theorem shiftFV_within_simp (a b o o' : Nat) (t : Term) (h1 : o ≤ o') (h2 : o' ≤ o + b) :
    shiftFV a o' (shiftFV b o t) = shiftFV (a + b) o t := shiftFV_shiftFV_within a b o o' h1 h2 t

theorem evalApp_app_fn {f g x r : Term} (hf : EvalApp f g) (h : EvalApp (app g x) r) : EvalApp (app f x) r := by
  cases h with
  | appRed hl hr hn =>
    have e1 := hl.normal_eq hf.isNormal; rw [← e1] at hf
    exact EvalApp.appRed hf hr hn
  | appNeu hl hna hr =>
    have e1 := hl.normal_eq hf.isNormal; subst e1
    exact EvalApp.appNeu hf hna hr

theorem evalApp_app2_fn {f g a b r : Term} (hf : EvalApp f g) (h : EvalApp (app2 g a b) r) :
    EvalApp (app2 f a b) r := by
  cases h with
  | appRed hl hr hn => exact EvalApp.appRed (evalApp_app_fn hf hl) hr hn
  | appNeu hl hna hr => exact EvalApp.appNeu (evalApp_app_fn hf hl) hna hr

/-! ## 2. leaves: the APP-normal forms `L j F z` of `Fʲ z` for the admissible cores `F` (predicate `P`) -/

structure Leaf where
  L : Nat → Term → Term → Term
  P : Term → Prop
  zero : ∀ F z, L 0 F z = z
  shift : ∀ a o j F z, shiftFV a o (L j F z) = L j (shiftFV a o F) (shiftFV a o z)
  subst : ∀ r d, 1 ≤ d → ∀ j F z, applyAux r d (L j F z) = L j (applyAux r d F) (applyAux r d z)
  pshift : ∀ a o F, P F → P (shiftFV a o F)
  normF : ∀ F, P F → isNormal F = true
  step : ∀ j F z, P F → isNormal z = true → EvalApp (app F (L j F z)) (L (j + 1) F z)
  cong : ∀ j F Z X, P F → EvalApp Z X → EvalApp (L j F Z) (L j F X)

theorem Leaf.normal (D : Leaf) (j : Nat) (F X : Term) (hP : D.P F) (hX : isNormal X = true) :
    isNormal (D.L j F X) = true :=
  (D.cong j F X X hP (EvalApp.of_isNormal hX)).isNormal

/-- the core is a neutral normal term (a variable): `Fʲ z` is normal -/
def neuLeaf : Leaf where
  L j F z := iterApp F z j
  P F := isNormal F = true ∧ isAbs F = false
  zero F z := iterApp_zero F z
  shift a o j F z := shiftFV_iterApp a o F z j
  subst r d _ j F z := applyAux_iterApp r d F z j
  pshift a o F h := by rw [isNormal_shiftFV, isAbs_shiftFV]; exact h
  normF F h := h.1
  step j F z h hz := by
    rw [iterApp_succ]
    apply EvalApp.of_isNormal
    simp [isNormal, isNormal_iterApp, h.1, h.2, hz]
  cong j F Z X h hZ := app_iterApp_neu h.1 h.2 hZ j

/-- the core is the constant function `λx. FALSE` -/
def kLeaf : Leaf where
  L j _ z := if j = 0 then z else Gen.Bool.fls
  P F := F = abs Gen.Bool.fls
  zero _ _ := rfl
  shift a o j F z := by
    by_cases h : j = 0
    · simp [h]
    · simp [h, lc_simp, Gen.Bool.fls]
  subst r d hd j F z := by
    by_cases h : j = 0
    · simp [h]
    · simp [h, lc_simp, Gen.Bool.fls]
  pshift a o F h := by subst h; simp [lc_simp, Gen.Bool.fls]
  normF F h := by subst h; rfl
  step j F z h hz := by
    subst h
    have hn : isNormal (if j = 0 then z else Gen.Bool.fls) = true := by
      by_cases h : j = 0 <;> simp [h, hz]
      rfl
    apply EvalApp.beta rfl hn
    simp only [Nat.succ_ne_zero, if_false, Nat.add_eq, Nat.add_zero]
    exact EvalApp.of_isNormal rfl
  cong j F Z X _ hZ := by
    by_cases h : j = 0
    · simpa [h] using hZ
    · simp only [h, if_false]; exact EvalApp.of_isNormal rfl

/-! ## 3. the syntactic families -/

/-- `λg h. h (g t)` -/
def G1 (t : Term) : Term := abs (abs (app (var 1) (app (var 2) (shiftFV 2 0 t))))

/-- `G⁽ᵏ⁾` over the core `t`: `G⁽⁰⁾ = t`, `G⁽ᵏ⁺¹⁾ = λg h. h (g G⁽ᵏ⁾)` -/
def GT : Nat → Term → Term
  | 0, t => t
  | k + 1, t => G1 (GT k t)

/-- `Kᵏ t = λu₁ … u_k. t` -/
def KK : Nat → Term → Term
  | 0, t => t
  | k + 1, t => abs (shiftFV 1 0 (KK k t))

/-- `t I … I` (`k` identities) -/
def appI : Nat → Term → Term
  | 0, t => t
  | k + 1, t => app (appI k t) (abs (var 1))

/-- APP-normal form of `(G⁽ⁿ⁾)ʲ z` for neutral `z`, `F` the core of `G⁽ⁿ⁾` -/
def TT (D : Leaf) : Nat → Nat → Term → Term → Term
  | _, 0, _, z => z
  | 0, j + 1, F, z => D.L (j + 1) F z
  | n + 1, j + 1, F, z =>
    abs (app (var 1) (TT D n j (shiftFV 1 0 F) (app (shiftFV 1 0 z) (GT n (shiftFV 1 0 F)))))

/-- APP-normal form of `TT n m F (Kⁿ X)` -/
def RR (D : Leaf) : Nat → Nat → Term → Term → Term
  | n, 0, _, X => KK n X
  | 0, m + 1, F, X => D.L (m + 1) F X
  | n + 1, m + 1, F, X => abs (app (var 1) (RR D n m (shiftFV 1 0 F) (shiftFV 1 0 X)))

theorem TT_zero_left (D : Leaf) (j : Nat) (F z : Term) : TT D 0 j F z = D.L j F z := by
  cases j <;> simp [TT, D.zero]
theorem RR_zero_left (D : Leaf) (m : Nat) (F X : Term) : RR D 0 m F X = D.L m F X := by
  cases m <;> simp [RR, KK, D.zero]
theorem TT_zero_right (D : Leaf) (n : Nat) (F z : Term) : TT D n 0 F z = z := by
  cases n <;> rfl
theorem RR_zero_right (D : Leaf) (n : Nat) (F X : Term) : RR D n 0 F X = KK n X := by
  cases n <;> rfl

/-! ### shifting -/

theorem shiftFV_G1 (a o : Nat) (t : Term) : shiftFV a o (G1 t) = G1 (shiftFV a o t) := by
  have := shiftFV_comm 2 a 0 o (by omega) t
  simp [G1, shiftFV, this]
  intro h; omega

theorem shiftFV_GT (a o k : Nat) (t : Term) : shiftFV a o (GT k t) = GT k (shiftFV a o t) := by
  induction k with
  | zero => rfl
  | succ k ih => simp only [GT, shiftFV_G1, ih]

theorem shiftFV_KK (a o k : Nat) (t : Term) : shiftFV a o (KK k t) = KK k (shiftFV a o t) := by
  induction k generalizing o with
  | zero => rfl
  | succ k ih =>
    have := shiftFV_comm 1 a 0 o (by omega) (KK k t)
    simp only [KK, shiftFV, ← this, ih]

theorem shiftFV_appI (a o k : Nat) (t : Term) : shiftFV a o (appI k t) = appI k (shiftFV a o t) := by
  induction k with
  | zero => rfl
  | succ k ih => simp [appI, shiftFV, ih]

theorem shiftFV_TT (D : Leaf) (a o n j : Nat) (F z : Term) :
    shiftFV a o (TT D n j F z) = TT D n j (shiftFV a o F) (shiftFV a o z) := by
  induction n generalizing o j F z with
  | zero => simp [TT_zero_left, D.shift]
  | succ n ih =>
    cases j with
    | zero => simp [TT]
    | succ j =>
      have e1 := shiftFV_comm 1 a 0 o (by omega) F
      have e2 := shiftFV_comm 1 a 0 o (by omega) z
      simp [TT, shiftFV, ih, shiftFV_GT, ← e1, ← e2]

theorem shiftFV_RR (D : Leaf) (a o n m : Nat) (F X : Term) :
    shiftFV a o (RR D n m F X) = RR D n m (shiftFV a o F) (shiftFV a o X) := by
  induction n generalizing o m F X with
  | zero => simp [RR_zero_left, D.shift]
  | succ n ih =>
    cases m with
    | zero => simp [RR, shiftFV_KK]
    | succ m =>
      have e1 := shiftFV_comm 1 a 0 o (by omega) F
      have e2 := shiftFV_comm 1 a 0 o (by omega) X
      simp [RR, shiftFV, ih, ← e1, ← e2]

/-! ### substitution -/

theorem applyAux_G1 (r : Term) (d : Nat) (hd : 1 ≤ d) (t : Term) : applyAux r d (G1 t) = G1 (applyAux r d t) := by
  have := shiftFV_applyAux_lt 2 0 d hd (by omega) r t
  have h1 : ¬ (1 = d + 1 + 1) := by omega
  have h2 : ¬ (1 > d + 1 + 1) := by omega
  have h3 : ¬ (2 = d + 1 + 1) := by omega
  have h4 : ¬ (2 > d + 1 + 1) := by omega
  simp [G1, applyAux, this, h1, h2, h3, h4]
  intro h; omega

theorem applyAux_GT (r : Term) (d : Nat) (hd : 1 ≤ d) (k : Nat) (t : Term) :
    applyAux r d (GT k t) = GT k (applyAux r d t) := by
  induction k with
  | zero => rfl
  | succ k ih => simp only [GT, applyAux_G1 r d hd, ih]

theorem applyAux_KK (r : Term) (d : Nat) (hd : 1 ≤ d) (k : Nat) (t : Term) :
    applyAux r d (KK k t) = KK k (applyAux r d t) := by
  induction k generalizing d with
  | zero => rfl
  | succ k ih =>
    have := shiftFV_applyAux_lt 1 0 d hd (by omega) r (KK k t)
    simp only [KK, applyAux, ← this, ih d hd]

theorem applyAux_appI (r : Term) (d : Nat) (hd : 1 ≤ d) (k : Nat) (t : Term) :
    applyAux r d (appI k t) = appI k (applyAux r d t) := by
  induction k with
  | zero => rfl
  | succ k ih =>
    have h1 : ¬ (1 = d + 1) := by omega
    have h2 : ¬ (1 > d + 1) := by omega
    simp [appI, applyAux, ih, h1, h2]
    intro h; omega

theorem applyAux_TT (D : Leaf) (r : Term) (d : Nat) (hd : 1 ≤ d) (n j : Nat) (F z : Term) :
    applyAux r d (TT D n j F z) = TT D n j (applyAux r d F) (applyAux r d z) := by
  induction n generalizing d j F z with
  | zero => simp [TT_zero_left, D.subst r d hd]
  | succ n ih =>
    cases j with
    | zero => simp [TT]
    | succ j =>
      have e1 := shiftFV_applyAux_lt 1 0 d hd (by omega) r F
      have e2 := shiftFV_applyAux_lt 1 0 d hd (by omega) r z
      have h1 : ¬ (1 = d + 1) := by omega
      have h2 : ¬ (1 > d + 1) := by omega
      simp [TT, applyAux, ih (d + 1) (by omega), applyAux_GT r (d + 1) (by omega), e1, e2, h1, h2]
      intro h; omega

theorem applyAux_RR (D : Leaf) (r : Term) (d : Nat) (hd : 1 ≤ d) (n m : Nat) (F X : Term) :
    applyAux r d (RR D n m F X) = RR D n m (applyAux r d F) (applyAux r d X) := by
  induction n generalizing d m F X with
  | zero => simp [RR_zero_left, D.subst r d hd]
  | succ n ih =>
    cases m with
    | zero => simp [RR, applyAux_KK r d hd]
    | succ m =>
      have e1 := shiftFV_applyAux_lt 1 0 d hd (by omega) r F
      have e2 := shiftFV_applyAux_lt 1 0 d hd (by omega) r X
      have h1 : ¬ (1 = d + 1) := by omega
      have h2 : ¬ (1 > d + 1) := by omega
      simp [RR, applyAux, ih (d + 1) (by omega), e1, e2, h1, h2]
      intro h; omega

attribute [local lc_simp] shiftFV_GT shiftFV_KK shiftFV_appI shiftFV_TT shiftFV_RR
  applyAux_GT applyAux_KK applyAux_appI applyAux_TT applyAux_RR shiftFV_within_simp

/-! ### normality -/

theorem isNormal_G1 (t : Term) : isNormal (G1 t) = isNormal t := by
  simp [G1, isNormal, isAbs, isNormal_shiftFV]

theorem isNormal_GT (k : Nat) (t : Term) : isNormal (GT k t) = isNormal t := by
  induction k with
  | zero => rfl
  | succ k ih => simp only [GT, isNormal_G1, ih]

theorem isNormal_KK (k : Nat) (t : Term) : isNormal (KK k t) = isNormal t := by
  induction k with
  | zero => rfl
  | succ k ih => simp only [KK, isNormal, isNormal_shiftFV, ih]

theorem isNormal_appI (k : Nat) (t : Term) (ht : isNormal t = true) (ht' : isAbs t = false) :
    isNormal (appI k t) = true ∧ isAbs (appI k t) = false := by
  induction k with
  | zero => exact ⟨ht, ht'⟩
  | succ k ih => simp [appI, isNormal, ih.1, ih.2, isAbs_app]

theorem isNormal_TT (D : Leaf) (n : Nat) : ∀ (j : Nat) (F z : Term), D.P F →
    isNormal z = true → isAbs z = false → isNormal (TT D n j F z) = true := by
  induction n with
  | zero =>
    intro j F z hP hz hz'
    rw [TT_zero_left]; exact D.normal j F z hP hz
  | succ n ih =>
    intro j F z hP hz hz'
    cases j with
    | zero => simpa [TT] using hz
    | succ j =>
      have hF := D.normF F hP
      simp only [TT, isNormal]
      apply ih _ _ _ (D.pshift 1 0 F hP)
      · simp [isNormal, isNormal_shiftFV, isAbs_shiftFV, isNormal_GT, hF, hz, hz']
      · rfl

/-! ## 4. evaluation lemmas -/

/-- (a) one more application of `G⁽ⁿ⁾` to the normal form of `(G⁽ⁿ⁾)ʲ z` -/
theorem app_GT_TT (D : Leaf) (n : Nat) : ∀ (j : Nat) (F z : Term), D.P F →
    isNormal z = true → isAbs z = false → EvalApp (app (GT n F) (TT D n j F z)) (TT D n (j + 1) F z) := by
  induction n with
  | zero =>
    intro j F z hP hz hz'
    simp only [GT, TT_zero_left]
    exact D.step j F z hP hz
  | succ n ih =>
    intro j F z hP hz hz'
    have hF := D.normF F hP
    have hP1 := D.pshift 1 0 F hP
    have hG : isNormal (GT n F) = true := by rw [isNormal_GT]; exact hF
    cases j with
    | zero =>
      simp only [TT, GT, G1]
      apply EvalApp.beta (by simpa [isNormal, isAbs, isNormal_shiftFV] using hG) hz
      ev_simp
      apply EvalApp.of_isNormal
      simp [isNormal, isAbs_var, isNormal_shiftFV, isAbs_shiftFV, isNormal_GT, hF, hz, hz']
    | succ j =>
      have hz1 : isNormal (app (shiftFV 1 0 z) (GT n (shiftFV 1 0 F))) = true := by
        simp [isNormal, isNormal_shiftFV, isAbs_shiftFV, isNormal_GT, hF, hz, hz']
      have hT : isNormal (TT D n j (shiftFV 1 0 F) (app (shiftFV 1 0 z) (GT n (shiftFV 1 0 F)))) = true :=
        isNormal_TT D n j _ _ hP1 hz1 rfl
      have := ih j (shiftFV 1 0 F) (app (shiftFV 1 0 z) (GT n (shiftFV 1 0 F))) hP1 hz1 rfl
      simp only [TT, GT, G1]
      apply EvalApp.beta (by simpa [isNormal, isAbs, isNormal_shiftFV] using hG) (by simpa [isNormal, isAbs] using hT)
      ev_simp
      have hz2 : isNormal (app (shiftFV 2 0 z) (GT n (shiftFV 2 0 F))) = true := by
        simp [isNormal, isNormal_shiftFV, isAbs_shiftFV, isNormal_GT, hF, hz, hz']
      have hT2 : isNormal (TT D n j (shiftFV 2 0 F) (app (shiftFV 2 0 z) (GT n (shiftFV 2 0 F)))) = true :=
        isNormal_TT D n j _ _ (D.pshift 2 0 F hP) hz2 rfl
      refine EvalApp.abs (EvalApp.appNeu (EvalApp.var 1) rfl ?_)
      apply EvalApp.beta (by simpa [isNormal, isAbs_var] using hT2) (by rw [isNormal_GT, isNormal_shiftFV]; exact hF)
      ev_simp
      exact this

/-- (b) substituting `z := Kⁿ X` (anything that evaluates to it) into the normal form of `(G⁽ⁿ⁾)ᵐ z` and normalising again -/
theorem evalApp_TT (D : Leaf) (n : Nat) : ∀ (m : Nat) (F Z X : Term), D.P F →
    isNormal X = true → EvalApp Z (KK n X) → EvalApp (TT D n m F Z) (RR D n m F X) := by
  induction n with
  | zero =>
    intro m F Z X hP hX hZ
    simp only [TT_zero_left, RR_zero_left]
    exact D.cong m F Z X hP hZ
  | succ n ih =>
    intro m F Z X hP hX hZ
    cases m with
    | zero => simpa only [TT, RR] using hZ
    | succ m =>
      have hF := D.normF F hP
      simp only [TT, RR]
      refine EvalApp.abs (EvalApp.appNeu (EvalApp.var 1) rfl ?_)
      apply ih m _ _ _ (D.pshift 1 0 F hP) (by rwa [isNormal_shiftFV])
      have h1 := evalApp_shift hZ 1 0
      rw [shiftFV_KK] at h1
      refine EvalApp.appRed h1 (EvalApp.of_isNormal (by rw [isNormal_GT, isNormal_shiftFV]; exact hF)) ?_
      ev_simp
      apply EvalApp.of_isNormal
      rw [isNormal_KK, isNormal_shiftFV]; exact hX

theorem isNormal_RR (D : Leaf) (n m : Nat) (F X : Term) (hP : D.P F) (hX : isNormal X = true) :
    isNormal (RR D n m F X) = true :=
  (evalApp_TT D n m F (KK n X) X hP hX (EvalApp.of_isNormal (by rw [isNormal_KK]; exact hX))).isNormal

theorem appI_succ (k : Nat) (t : Term) : appI (k + 1) t = app (appI k t) (abs (var 1)) := rfl

theorem appI_succ' (k : Nat) (t : Term) : appI (k + 1) t = appI k (app t (abs (var 1))) := by
  induction k with
  | zero => rfl
  | succ k ih => rw [appI, ih]; rfl

theorem appI_congr (n : Nat) {t t' : Term} (h : EvalApp t t') : ∀ r, EvalApp (appI n t') r → EvalApp (appI n t) r := by
  induction n with
  | zero =>
    intro r h'
    have e := h'.normal_eq h.isNormal
    subst e; exact h
  | succ n ih =>
    intro r h'
    simp only [appI] at h' ⊢
    cases h' with
    | appRed hl hr hn => exact EvalApp.appRed (ih _ hl) hr hn
    | appNeu hl hna hr => exact EvalApp.appNeu (ih _ hl) hna hr

/-- (c) consuming the `n` identities -/
theorem evalApp_appI_RR (D : Leaf) (n : Nat) : ∀ (m : Nat) (F X : Term), D.P F →
    isNormal X = true → EvalApp (appI n (RR D n m F X)) (D.L (m - n) F X) := by
  induction n with
  | zero =>
    intro m F X hP hX
    simp only [appI, RR_zero_left, Nat.sub_zero]
    exact EvalApp.of_isNormal (D.normal m F X hP hX)
  | succ n ih =>
    intro m F X hP hX
    rw [appI_succ']
    cases m with
    | zero =>
      have h := ih 0 F X hP hX
      rw [RR_zero_right] at h
      rw [show 0 - (n + 1) = 0 - n by omega]
      refine appI_congr n ?_ _ h
      simp only [RR, KK]
      have hK : isNormal (KK n X) = true := by rw [isNormal_KK]; exact hX
      apply EvalApp.beta (by rwa [isNormal_shiftFV]) rfl
      ev_simp
      exact EvalApp.of_isNormal hK
    | succ m =>
      have h := ih m F X hP hX
      rw [Nat.add_sub_add_right]
      refine appI_congr n ?_ _ h
      have hR := isNormal_RR D n m F X hP hX
      have hR' := isNormal_RR D n m (shiftFV 1 0 F) (shiftFV 1 0 X) (D.pshift 1 0 F hP) (by rwa [isNormal_shiftFV])
      simp only [RR]
      apply EvalApp.beta (by simpa [isNormal, isAbs_var] using hR') rfl
      ev_simp
      apply EvalApp.beta rfl hR
      ev_simp
      exact EvalApp.of_isNormal hR

/-- (a)+(b)+(c): `(church m) G⁽ⁿ⁾ (Kⁿ X) I … I` evaluates to the normal form of `Fᵐ⁻ⁿ X` (`F` the core of `G⁽ⁿ⁾`) -/
theorem church_GT_KK (D : Leaf) (m n : Nat) (F X : Term) (hP : D.P F) (hX : isNormal X = true) :
    EvalApp (appI n (app2 (intoChurch m) (GT n F) (KK n X))) (D.L (m - n) F X) := by
  have hF := D.normF F hP
  refine appI_congr n (t' := RR D n m F X) ?_ _ (evalApp_appI_RR D n m F X hP hX)
  apply EvalApp.appRed (b := TT D n m (shiftFV 1 0 F) (var 1)) (r' := KK n X)
  · rw [intoChurch_eq]
    apply EvalApp.beta (by ev_shape) (by rw [isNormal_GT]; exact hF)
    ev_simp
    exact EvalApp.abs (app_iterApp (w := fun j => TT D n j (shiftFV 1 0 F) (var 1))
      (by rw [TT_zero_right]; exact EvalApp.var 1)
      (fun j => app_GT_TT D n j (shiftFV 1 0 F) (var 1) (D.pshift 1 0 F hP) rfl rfl) m)
  · exact EvalApp.of_isNormal (by rw [isNormal_KK]; exact hX)
  · ev_simp
    exact evalApp_TT D n m F _ X hP hX (EvalApp.of_isNormal (by rw [isNormal_KK]; exact hX))

/-! ## 5. `predᵏ y` for a variable `y` -/

theorem GT_G1 (k : Nat) (t : Term) : GT k (G1 t) = GT (k + 1) t := by
  induction k with
  | zero => rfl
  | succ k ih => rw [GT, ih]; rfl

theorem KK_abs (k : Nat) (t : Term) : KK k (abs (shiftFV 1 0 t)) = KK (k + 1) t := by
  induction k with
  | zero => rfl
  | succ k ih => rw [KK, ih]; rfl

/-- body (under `λf x`) of the APP-normal form of `predᵏ y`, `y = var 3`: `y G⁽ᵏ⁾ (Kᵏ x) I … I` -/
def PB (k : Nat) : Term := appI k (app2 (var 3) (GT k (var 2)) (KK k (var 1)))

/-- the APP-normal form of `predᵏ y` for the variable `y = var 1` -/
def PP : Nat → Term
  | 0 => var 1
  | k + 1 => abs (abs (PB (k + 1)))

theorem isNormal_PB (k : Nat) : isNormal (PB k) = true :=
  (isNormal_appI k _ (by simp [isNormal, isAbs_var, isAbs_app, isNormal_GT, isNormal_KK]) rfl).1

theorem pred_PP (k : Nat) : EvalApp (app Gen.Church.pred (PP k)) (PP (k + 1)) := by
  cases k with
  | zero => simp only [PP, PB, appI, GT, G1, KK]; ev
  | succ k =>
    simp only [PP]
    apply EvalApp.beta rfl (by simpa [isNormal] using isNormal_PB (k + 1))
    simp only [PB]
    ev_simp
    have eG : abs (abs (app (var 1) (app (var 2) (var 5)))) = G1 (var 3) := by simp [G1, shiftFV]
    have eK : abs (var 2) = abs (shiftFV 1 0 (var 1)) := by simp [shiftFV]
    have n1 : isNormal (appI (k + 1) (app2 (var 5) (GT (k + 1) (var 2)) (KK (k + 1) (var 1)))) = true :=
      (isNormal_appI _ _ (by simp [isNormal, isAbs_var, isAbs_app, isNormal_GT, isNormal_KK]) rfl).1
    have n2 := isNormal_appI (k + 1) (app2 (var 4) (GT (k + 2) (var 3)) (KK (k + 1) (var 1)))
      (by simp [isNormal, isAbs_var, isAbs_app, isNormal_GT, isNormal_KK]) rfl
    have n3 := isNormal_appI (k + 1) (app2 (var 3) (GT (k + 2) (var 2)) (KK (k + 2) (var 1)))
      (by simp [isNormal, isAbs_var, isAbs_app, isNormal_GT, isNormal_KK]) rfl
    refine EvalApp.abs (EvalApp.abs ?_)
    rw [appI_succ (k + 1)]
    refine EvalApp.appNeu ?_ n3.2 (EvalApp.of_isNormal rfl)
    apply EvalApp.appRed (b := appI (k + 1) (app2 (var 4) (GT (k + 2) (var 3)) (KK (k + 1) (var 1))))
      (r' := abs (var 2))
    · apply EvalApp.beta (by simpa [isNormal] using n1) rfl
      ev_simp [eG, GT_G1]
      exact EvalApp.of_isNormal (by simpa [isNormal] using n2.1)
    · exact EvalApp.of_isNormal rfl
    · ev_simp
      rw [eK, KK_abs]
      exact EvalApp.of_isNormal n3.1

/-- `predᵏ y` for the variable `y = var 1` under APP -/
theorem pred_iter_PP (k : Nat) : EvalApp (iterApp Gen.Church.pred (var 1) k) (PP k) :=
  app_iterApp (w := PP) (EvalApp.var 1) pred_PP k

/-- the operator `(church k) PRED` -/
theorem church_pred_op (k : Nat) : EvalApp (app (intoChurch k) Gen.Church.pred) (abs (PP k)) := by
  rw [intoChurch_eq]
  apply EvalApp.beta (by ev_shape) rfl
  ev_simp
  exact EvalApp.abs (pred_iter_PP k)

/-! ## 6. the cores: `(church n) PRED (church m)`, and `LEQ` in both argument orders -/

theorem church_pred_iter_app (m n : Nat) :
    EvalApp (app2 (intoChurch n) Gen.Church.pred (intoChurch m)) (intoChurch (m - n)) := by
  cases n with
  | zero => ev
  | succ k =>
    rw [intoChurch_eq (m - (k + 1))]
    refine EvalApp.appRed (church_pred_op (k + 1)) (EvalApp.of_isNormal (normal_intoChurch m)) ?_
    simp only [PP, PB]
    ev_simp
    exact EvalApp.abs (EvalApp.abs (church_GT_KK neuLeaf m (k + 1) (var 2) (var 1) ⟨rfl, rfl⟩ rfl))

/-- the body of `IS_ZERO` on a numeral -/
theorem is_zero_inner (j : Nat) :
    EvalApp (app2 (intoChurch j) (abs Gen.Bool.fls) Gen.Bool.tru) (fromBool (j == 0)) := by
  have h := EvalApp.beta_inv (b := app2 (var 1) (abs Gen.Bool.fls) Gen.Bool.tru) rfl (normal_intoChurch j)
    (church_is_zero_app j)
  simpa [lc_simp] using h

/-- `LEQ m n` as it appears after APP-normalisation of the enclosing constant -/
theorem leq_core (m n : Nat) :
    EvalApp (app2 (app2 (intoChurch n) Gen.Church.pred (intoChurch m)) (abs Gen.Bool.fls) Gen.Bool.tru)
      (fromBool (decide (m ≤ n))) := by
  rw [show decide (m ≤ n) = (m - n == 0) by rw [Bool.eq_iff_iff]; simp [Nat.sub_eq_zero_iff_le]]
  exact evalApp_app2_fn (church_pred_iter_app m n) (is_zero_inner (m - n))

/-- `LEQ b m` for a VARIABLE `b` (numeral in the iterating position), normalised under the binder of `b` -/
def FL (m : Nat) (b : Term) : Term := appI m (app2 b (GT m (abs Gen.Bool.fls)) (KK m Gen.Bool.tru))

theorem isNormal_FL (m i : Nat) : isNormal (FL m (var i)) = true ∧ isAbs (FL m (var i)) = false :=
  isNormal_appI m _ (by rw [isNormal]; simp [isNormal, isAbs_var, isAbs_app, isNormal_GT, isNormal_KK]; decide) rfl

theorem flip_op (m : Nat) :
    EvalApp (app2 (app2 (intoChurch m) Gen.Church.pred (var 1)) (abs Gen.Bool.fls) Gen.Bool.tru) (FL m (var 1)) := by
  cases m with
  | zero => simp only [FL, appI, GT, KK]; ev
  | succ k =>
    have n1 : isNormal (appI (k + 1) (app2 (var 3) (GT (k + 1) (var 2)) (KK (k + 1) (var 1)))) = true :=
      (isNormal_appI _ _ (by simp [isNormal, isAbs_var, isAbs_app, isNormal_GT, isNormal_KK]) rfl).1
    have n2 : isNormal (appI (k + 1) (app2 (var 2) (GT (k + 1) (abs Gen.Bool.fls)) (KK (k + 1) (var 1)))) = true :=
      (isNormal_appI _ _ (by rw [isNormal]; simp [isNormal, isAbs_var, isAbs_app, isNormal_GT, isNormal_KK]; decide) rfl).1
    apply EvalApp.appRed (b := appI (k + 1) (app2 (var 2) (GT (k + 1) (abs Gen.Bool.fls)) (KK (k + 1) (var 1))))
      (r' := Gen.Bool.tru)
    · apply EvalApp.appRed (b := abs (appI (k + 1) (app2 (var 3) (GT (k + 1) (var 2)) (KK (k + 1) (var 1)))))
        (r' := abs Gen.Bool.fls)
      · refine EvalApp.appRed (church_pred_op (k + 1)) (EvalApp.var 1) ?_
        simp only [PP, PB]
        ev_simp
        exact EvalApp.of_isNormal (by simpa [isNormal] using n1)
      · exact EvalApp.of_isNormal rfl
      · ev_simp
        exact EvalApp.of_isNormal (by simpa [isNormal] using n2)
    · exact EvalApp.of_isNormal rfl
    · ev_simp
      exact EvalApp.of_isNormal (isNormal_FL (k + 1) 1).1

theorem flip_core (m n : Nat) : EvalApp (FL m (intoChurch n)) (fromBool (decide (n ≤ m))) := by
  have h := church_GT_KK kLeaf n m (abs Gen.Bool.fls) Gen.Bool.tru rfl rfl
  by_cases hle : n ≤ m
  · have e : n - m = 0 := by omega
    simpa [FL, kLeaf, e, hle, fromBool_true] using h
  · have e : ¬ (n - m = 0) := by omega
    simpa [FL, kLeaf, e, hle, fromBool_false] using h

theorem applyAux_FL (r : Term) (d : Nat) (hd : 1 ≤ d) (m : Nat) (b : Term) :
    applyAux r d (FL m b) = FL m (applyAux r d b) := by
  unfold FL
  rw [applyAux_appI r d hd]
  simp only [applyAux]
  rw [applyAux_GT r d hd, applyAux_KK r d hd, applyAux_of_closed (t := abs Gen.Bool.fls) (by decide) r d hd,
    applyAux_of_closed (t := Gen.Bool.tru) (by decide) r d hd]

end ChurchAppA

open ChurchAppA

/-- `ev`, with neutral operator values whose shape is only known through a hypothesis `isAbs g = false` -/
local macro "ev'" : tactic =>
  `(tactic| repeat (first | ev_step [applyAux_FL] | exact AppCont.neu ‹_›))

/-! ## 7. the operations -/

theorem church_sub_app (m n : Nat) :
    EvalApp (app2 Gen.Church.sub (intoChurch m) (intoChurch n)) (intoChurch (m - n)) := by
  have h := church_pred_iter_app m n
  ev

theorem church_leq_app (m n : Nat) :
    EvalApp (app2 Gen.Church.leq (intoChurch m) (intoChurch n)) (fromBool (decide (m ≤ n))) := by
  have h := leq_core m n
  ev

theorem church_gt_app (m n : Nat) :
    EvalApp (app2 Gen.Church.gt (intoChurch m) (intoChurch n)) (fromBool (decide (m > n))) := by
  have h := leq_core m n
  rw [show decide (m > n) = !decide (m ≤ n) by rw [Bool.eq_iff_iff]; simp]
  generalize decide (m ≤ n) = b at h ⊢
  cases b <;> ev

theorem church_geq_app (m n : Nat) :
    EvalApp (app2 Gen.Church.geq (intoChurch m) (intoChurch n)) (fromBool (decide (m ≥ n))) := by
  have h1 := flip_op m
  have h2 := flip_core m n
  have h3 := (isNormal_FL m 1).2
  ev'

theorem church_lt_app (m n : Nat) :
    EvalApp (app2 Gen.Church.lt (intoChurch m) (intoChurch n)) (fromBool (decide (m < n))) := by
  have h1 := flip_op m
  have h2 := flip_core m n
  have h3 := (isNormal_FL m 1).2
  rw [show decide (m < n) = !decide (n ≤ m) by rw [Bool.eq_iff_iff]; simp]
  generalize decide (n ≤ m) = b at h2 ⊢
  cases b <;> ev'

theorem church_eq_app (m n : Nat) :
    EvalApp (app2 Gen.Church.eq (intoChurch m) (intoChurch n)) (fromBool (decide (m = n))) := by
  have h0 := leq_core m n
  have h1 := flip_op m
  have h2 := flip_core m n
  have h3 := (isNormal_FL m 1).2
  rw [show decide (m = n) = (decide (m ≤ n) && decide (n ≤ m)) by rw [Bool.eq_iff_iff]; simp; omega]
  generalize decide (m ≤ n) = b1 at h0 ⊢
  generalize decide (n ≤ m) = b2 at h2 ⊢
  cases b1 <;> cases b2 <;> ev'

theorem church_neq_app (m n : Nat) :
    EvalApp (app2 Gen.Church.neq (intoChurch m) (intoChurch n)) (fromBool (decide (m ≠ n))) := by
  have h0 := leq_core m n
  have h1 := flip_op m
  have h2 := flip_core m n
  have h3 := (isNormal_FL m 1).2
  rw [show decide (m ≠ n) = (!decide (m ≤ n) || !decide (n ≤ m)) by rw [Bool.eq_iff_iff]; simp; omega]
  generalize decide (m ≤ n) = b1 at h0 ⊢
  generalize decide (n ≤ m) = b2 at h2 ⊢
  cases b1 <;> cases b2 <;> ev'

theorem church_min_app (m n : Nat) :
    EvalApp (app2 Gen.Church.min (intoChurch m) (intoChurch n)) (intoChurch (min m n)) := by
  have h1 := leq_core m n
  by_cases h : m ≤ n
  · simp only [h, decide_true] at h1
    rw [Nat.min_eq_left h]
    ev
  · simp only [h, decide_false] at h1
    rw [Nat.min_eq_right (by omega)]
    ev

theorem church_max_app (m n : Nat) :
    EvalApp (app2 Gen.Church.max (intoChurch m) (intoChurch n)) (intoChurch (max m n)) := by
  have h1 := leq_core m n
  by_cases h : m ≤ n
  · simp only [h, decide_true] at h1
    rw [Nat.max_eq_right h]
    ev
  · simp only [h, decide_false] at h1
    rw [Nat.max_eq_left (by omega)]
    ev

/-! ## 8. the unbounded termination statements about the model reducer -/

theorem church_sub_reduce_app (m n : Nat) :
    ∃ fuel c, reduce .APP 0 fuel (app2 Gen.Church.sub (intoChurch m) (intoChurch n)) =
      some (intoChurch (m - n), c) :=
  (church_sub_app m n).reduce

theorem church_leq_reduce_app (m n : Nat) :
    ∃ fuel c, reduce .APP 0 fuel (app2 Gen.Church.leq (intoChurch m) (intoChurch n)) =
      some (fromBool (decide (m ≤ n)), c) :=
  (church_leq_app m n).reduce

theorem church_lt_reduce_app (m n : Nat) :
    ∃ fuel c, reduce .APP 0 fuel (app2 Gen.Church.lt (intoChurch m) (intoChurch n)) =
      some (fromBool (decide (m < n)), c) :=
  (church_lt_app m n).reduce

theorem church_geq_reduce_app (m n : Nat) :
    ∃ fuel c, reduce .APP 0 fuel (app2 Gen.Church.geq (intoChurch m) (intoChurch n)) =
      some (fromBool (decide (m ≥ n)), c) :=
  (church_geq_app m n).reduce

theorem church_gt_reduce_app (m n : Nat) :
    ∃ fuel c, reduce .APP 0 fuel (app2 Gen.Church.gt (intoChurch m) (intoChurch n)) =
      some (fromBool (decide (m > n)), c) :=
  (church_gt_app m n).reduce

theorem church_eq_reduce_app (m n : Nat) :
    ∃ fuel c, reduce .APP 0 fuel (app2 Gen.Church.eq (intoChurch m) (intoChurch n)) =
      some (fromBool (decide (m = n)), c) :=
  (church_eq_app m n).reduce

theorem church_neq_reduce_app (m n : Nat) :
    ∃ fuel c, reduce .APP 0 fuel (app2 Gen.Church.neq (intoChurch m) (intoChurch n)) =
      some (fromBool (decide (m ≠ n)), c) :=
  (church_neq_app m n).reduce

theorem church_min_reduce_app (m n : Nat) :
    ∃ fuel c, reduce .APP 0 fuel (app2 Gen.Church.min (intoChurch m) (intoChurch n)) =
      some (intoChurch (min m n), c) :=
  (church_min_app m n).reduce

theorem church_max_reduce_app (m n : Nat) :
    ∃ fuel c, reduce .APP 0 fuel (app2 Gen.Church.max (intoChurch m) (intoChurch n)) =
      some (intoChurch (max m n), c) :=
  (church_max_app m n).reduce

end LC
