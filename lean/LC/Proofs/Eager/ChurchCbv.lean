/-
Eager evaluation, part 2 (pilot): Church numerals in OPERATOR position under HAP are evaluated by CBV, which does
not normalise under binders; `pred`/`sub` then return CLOSURES, not numerals.  `CNum v j` characterises such closures
semantically ("behaves like the numeral `j` on closed values"); with it comparisons in operator position
(`eq`, `min`, `max`, the tests inside `div`/`quot`/`rem`) become compositional.
-/
import LC.Proofs.Eager.Church

namespace LC
open Term Spec Enc RL Eager

set_option linter.unusedSimpArgs false
attribute [local irreducible] iterApp

namespace Eager

/-- `v` is a closed CBV value that behaves like the Church numeral `j` on closed CBV values -/
def CNum (v : Term) (j : Nat) : Prop :=
  isWNF v = true ∧ Closed v ∧
  ∀ f x r, Closed f → Closed x → isWNF f = true → isWNF x = true →
    EvalCbv (iterApp f x j) r → EvalCbv (app2 v f x) r

theorem cnum_intoChurch (j : Nat) : CNum (intoChurch j) j := by
  refine ⟨rfl, closed_intoChurch j, fun f x r hf hx wf wx h => ?_⟩
  ev [hf, hx]

/-- what `pred v` contracts to for a closed value `v` -/
def predC (v : Term) : Term :=
  abs (abs (app3 v (abs (abs (app (var 1) (app (var 2) (var 4))))) (abs (var 2)) (abs (var 1))))

/-- CBV values of `(λgh. h (g f))ᵏ (λu. x)` for CLOSED `f`, `x` -/
def pv (f x : Term) : Nat → Term
  | 0 => abs x
  | k + 1 => abs (app (var 1) (app (pv f x k) f))

theorem closed_pv {f x : Term} (hf : Closed f) (hx : Closed x) (k : Nat) : Closed (pv f x k) := by
  induction k with
  | zero => lc_simp [pv]
  | succ k ih => lc_simp [pv]

@[simp] theorem isWNF_pv (f x : Term) (k : Nat) : isWNF (pv f x k) = true := by cases k <;> rfl

theorem cbv_iter_pv {f x : Term} (hf : Closed f) (hx : Closed x) (k : Nat) :
    EvalCbv (iterApp (abs (abs (app (var 1) (app (var 2) f)))) (abs x) k) (pv f x k) := by
  apply cbv_iterApp (w := pv f x)
  · simp only [pv]; ev
  · intro k
    have hc := closed_pv hf hx k
    simp only [pv]; ev [hf, hx, hc]

/-- forcing: `pv k f` evaluates like `fᵏ x` -/
theorem cbv_pv_app {f x : Term} (hf : Closed f) (hx : Closed x) (wf : isWNF f = true) (wx : isWNF x = true) :
    ∀ (k : Nat) (r : Term), EvalCbv (iterApp f x k) r → EvalCbv (app (pv f x k) f) r := by
  intro k
  induction k with
  | zero =>
    intro r h
    simp only [iterApp_zero] at h
    have e := h.wnf_eq wx; subst e
    simp only [pv]; ev [hf, hx]
  | succ k ih =>
    intro r h
    rw [iterApp_succ] at h
    have hc := closed_pv hf hx k
    simp only [pv]
    cases h with
    | appRed hl hr hn =>
      have h1 := ih _ hr
      apply EvalCbv.beta wf
      ev_simp [hf, hx, hc]
      exact EvalCbv.appRed hl h1 hn
    | appNeu hl hna hr =>
      have h1 := ih _ hr
      apply EvalCbv.beta wf
      ev_simp [hf, hx, hc]
      exact EvalCbv.appNeu hl hna h1

theorem closed_predC {v : Term} (hv : Closed v) : Closed (predC v) := by lc_simp [predC]

/-- `pred` maps closures for `j` to closures for `j - 1` (one contraction under CBV) -/
theorem cbv_pred_cnum {v : Term} {j : Nat} (h : CNum v j) :
    EvalCbv (app Gen.Church.pred v) (predC v) ∧ CNum (predC v) (j - 1) := by
  obtain ⟨wv, cv, hv⟩ := h
  refine ⟨?_, rfl, closed_predC cv, fun f x r hf hx wf wx h => ?_⟩
  · unfold predC; ev [cv]
  · have h1 := hv _ _ _ (by lc_simp) (by lc_simp) rfl rfl (cbv_iter_pv hf hx j)
    unfold predC
    ev [cv, hf, hx]
    cases j with
    | zero =>
      simp only [Nat.zero_sub, iterApp_zero] at h
      simp only [pv]; ev [hx]
    | succ k =>
      simp only [Nat.add_sub_cancel] at h
      have h2 := cbv_pv_app hf hx wf wx k r h
      have wr := h.isWNF
      have hc := closed_pv hf hx k
      simp only [pv]; ev [hf, hx, hc]

/-- iterated `pred` closure -/
def subCv (v : Term) : Nat → Term
  | 0 => v
  | k + 1 => predC (subCv v k)

theorem cnum_subCv {v : Term} {j : Nat} (h : CNum v j) (k : Nat) : CNum (subCv v k) (j - k) := by
  induction k with
  | zero => exact h
  | succ k ih => exact (cbv_pred_cnum ih).2

/-- `sub` on closures (CBV): the result is again a closure -/
theorem cbv_sub_cnum {v1 v2 : Term} {j1 j2 : Nat} (h1 : CNum v1 j1) (h2 : CNum v2 j2) :
    EvalCbv (app2 Gen.Church.sub v1 v2) (subCv v1 j2) := by
  obtain ⟨w1, c1, _⟩ := h1
  obtain ⟨w2, c2, hv2⟩ := h2
  have h := hv2 Gen.Church.pred v1 (subCv v1 j2) (by decide) c1 rfl w1
    (cbv_iterApp (w := subCv v1) (by simp only [subCv]; ev)
      (fun k => (cbv_pred_cnum (cnum_subCv ⟨w1, c1, by assumption⟩ k)).1) j2)
  ev [c1, c2]

theorem church_is_zero_cbv {v : Term} {j : Nat} (h : CNum v j) :
    EvalCbv (app Gen.Church.is_zero v) (fromBool (j == 0)) := by
  obtain ⟨wv, cv, hv⟩ := h
  have h1 := hv (abs Gen.Bool.fls) Gen.Bool.tru (fromBool (j == 0)) (by decide) (by decide) rfl rfl
    (cbv_iterApp (fun k => fromBool (k == 0)) (by ev) (fun k => by ev) j)
  ev [cv]

theorem cbv_leq_cnum {v1 v2 : Term} {j1 j2 : Nat} (h1 : CNum v1 j1) (h2 : CNum v2 j2) :
    EvalCbv (app2 Gen.Church.leq v1 v2) (fromBool (decide (j1 ≤ j2))) := by
  have hs := cbv_sub_cnum h1 h2
  have hz := church_is_zero_cbv (cnum_subCv h1 j2)
  have w := (cnum_subCv h1 j2).1
  have w1 := h1.1; have c1 := h1.2.1; have w2 := h2.1; have c2 := h2.2.1
  rw [show decide (j1 ≤ j2) = (j1 - j2 == 0) by rw [Bool.eq_iff_iff]; simp [Nat.sub_eq_zero_iff_le]]
  ev [c1, c2]

theorem cbv_lt_cnum {v1 v2 : Term} {j1 j2 : Nat} (h1 : CNum v1 j1) (h2 : CNum v2 j2) :
    EvalCbv (app2 Gen.Church.lt v1 v2) (fromBool (decide (j1 < j2))) := by
  have hl := cbv_leq_cnum h2 h1
  have w1 := h1.1; have c1 := h1.2.1; have w2 := h2.1; have c2 := h2.2.1
  rw [show decide (j1 < j2) = !decide (j2 ≤ j1) by rw [Bool.eq_iff_iff]; simp]
  generalize decide (j2 ≤ j1) = b at hl ⊢
  cases b <;> ev [c1, c2]

theorem church_sub_cbv (m n : Nat) :
    EvalCbv (app2 Gen.Church.sub (intoChurch m) (intoChurch n)) (subCv (intoChurch m) n) :=
  cbv_sub_cnum (cnum_intoChurch m) (cnum_intoChurch n)

theorem church_leq_cbv (m n : Nat) :
    EvalCbv (app2 Gen.Church.leq (intoChurch m) (intoChurch n)) (fromBool (decide (m ≤ n))) :=
  cbv_leq_cnum (cnum_intoChurch m) (cnum_intoChurch n)

theorem church_lt_cbv (m n : Nat) :
    EvalCbv (app2 Gen.Church.lt (intoChurch m) (intoChurch n)) (fromBool (decide (m < n))) :=
  cbv_lt_cnum (cnum_intoChurch m) (cnum_intoChurch n)

end Eager

/-! ## operations whose tests sit in operator position -/

theorem church_min_hap (m n : Nat) :
    EvalHap (app2 Gen.Church.min (intoChurch m) (intoChurch n)) (intoChurch (min m n)) := by
  have h1 := church_leq_cbv m n
  by_cases h : m ≤ n
  · simp only [h, decide_true] at h1
    rw [Nat.min_eq_left h]
    ev
  · simp only [h, decide_false] at h1
    rw [Nat.min_eq_right (by omega)]
    ev

theorem church_max_hap (m n : Nat) :
    EvalHap (app2 Gen.Church.max (intoChurch m) (intoChurch n)) (intoChurch (max m n)) := by
  have h1 := church_leq_cbv m n
  by_cases h : m ≤ n
  · simp only [h, decide_true] at h1
    rw [Nat.max_eq_right h]
    ev
  · simp only [h, decide_false] at h1
    rw [Nat.max_eq_left (by omega)]
    ev

theorem church_eq_hap (m n : Nat) :
    EvalHap (app2 Gen.Church.eq (intoChurch m) (intoChurch n)) (fromBool (m == n)) := by
  have h1 := church_leq_cbv m n
  have h2 := church_leq_hap n m
  rw [show (m == n) = (decide (m ≤ n) && decide (n ≤ m)) by rw [Bool.eq_iff_iff]; simp; omega]
  generalize decide (m ≤ n) = b1 at h1 ⊢
  generalize decide (n ≤ m) = b2 at h2 ⊢
  cases b1 <;> cases b2 <;> ev

/-! ## a `Z`-recursive operation: `quot`

`quot = Z F`; under CBV `Z F` evaluates to a closed value `q` (the body of `F` with the recursive-call stub
`λv. ZF F v` substituted); a recursive call `stub X y` evaluates `X` by CBV (to a CLOSURE, not a numeral), re-creates `q`
and continues as `q v y`.  The branches are thunks `(λx. …) I`, so only the selected one is evaluated. -/

namespace Eager

/-- the recursive-call stub `λv. ZF f v` -/
def stub (f : Term) : Term := abs (app (ZF f) (var 1))

/-- a recursive call through the stub, HAP, binary functional -/
theorem hap_stub2 {F q X v y R : Term} (hF : Closed F) (hq : EvalCbv (ZF F) q) (hX : EvalCbv X v)
    (h : EvalHap (app2 q v y) R) : EvalHap (app2 (stub F) X y) R := by
  have key : ∀ r, EvalCbv (app q v) r → EvalCbv (app (stub F) X) r := by
    intro r hr
    refine EvalCbv.appRed (EvalCbv.abs _) hX ?_
    have e : contract (app (ZF F) (var 1)) v = app (ZF F) v := by lc_simp [ZF, ZW]
    rw [e]
    exact EvalCbv.app_fn hq hr
  cases h with
  | appRed hl hr hn => exact EvalHap.appRed (key _ hl) hr hn
  | appNeu hl hna hr hl' => exact EvalHap.appNeu (key _ hl) hna hr hl'

def quotF : Term := appArg Gen.Church.quot
theorem quot_eq : Gen.Church.quot = app Gen.Comb.Z quotF := by decide
theorem closed_quotF : Closed quotF := by decide

theorem quot_core : ∃ q, EvalCbv (ZF quotF) q ∧
    ∀ (j : Nat) (v : Term) (n : Nat), CNum v j →
      EvalHap (app2 q v (intoChurch (n + 1))) (intoChurch (j / (n + 1))) := by
  apply Exists.intro
  apply And.intro
  · simp only [ZF, ZW]; ev
  · intro j
    induction j using Nat.strongRecOn with
    | _ j ih =>
      intro v n hv
      have hlt := cbv_lt_cnum hv (cnum_intoChurch (n + 1))
      have wv := hv.1
      have cv := hv.2.1
      by_cases h : j < n + 1
      · simp only [h, decide_true] at hlt
        rw [Nat.div_eq_of_lt h]
        ev [cv]
      · simp only [h, decide_false] at hlt
        have hsub := cbv_sub_cnum hv (cnum_intoChurch (n + 1))
        have hv' := cnum_subCv hv (n + 1)
        have ih' := ih (j - (n + 1)) (by omega) _ n hv'
        have hrec := hap_stub2 closed_quotF (by simp only [ZF, ZW]; ev) hsub ih'
        have hs := church_succ_hap ((j - (n + 1)) / (n + 1))
        rw [show j / (n + 1) = (j - (n + 1)) / (n + 1) + 1 by
          rw [Nat.div_eq_sub_div (by omega) (by omega)]]
        ev [cv]

end Eager

/-- `quot` under HAP, for ALL arguments (divisor ≠ 0; with divisor 0 the operation loops under every order) -/
theorem church_quot_hap (m n : Nat) :
    EvalHap (app2 Gen.Church.quot (intoChurch m) (intoChurch (n + 1))) (intoChurch (m / (n + 1))) := by
  obtain ⟨q, hq, hrec⟩ := quot_core
  refine EvalHap.app2_fn (g := q) ?_ (hrec m _ n (cnum_intoChurch m))
  rw [quot_eq]
  refine EvalCbv.appRed (EvalCbv.abs _) (EvalCbv.of_isWNF (by decide)) ?_
  have := closed_quotF
  lc_simp
  exact hq

theorem church_quot_reduce_hap (m n : Nat) :
    ∃ fuel c, reduce .HAP 0 fuel (app2 Gen.Church.quot (intoChurch m) (intoChurch (n + 1))) =
      some (intoChurch (m / (n + 1)), c) :=
  (church_quot_hap m n).reduce

end LC
