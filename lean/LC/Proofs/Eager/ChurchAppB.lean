/-
Eager evaluation, APP order (applicative: operator and operand are normalised completely, also under binders,
before contraction): Church `is_even`, `is_odd`, `pow`, `shl`, `fac` for ALL arguments.

* `is_even`/`is_odd`/`pow`/`shl`: explicit families of APP-normal forms (recipe of the pilot, tactic `ev`).
* `fac`: the intermediate normal forms are unwieldy; instead a GENERAL theorem is proved — APP terminates on every
  simply typed term (`ChurchAppB.typed_app_terminates`, hereditary substitution) — and the value comes from
  confluence + the layer-1 theorem (`ChurchAppB.app_of_typed_star`, reusable for any simply typable operation).
* NEGATIVE result: the combinator `Z` has no APP-normal form, so every term containing `Z` (the `Z`-recursive `quot`,
  `rem`, `div`, `shr`, with ANY arguments) makes `reduce .APP 0 fuel` return `none` for every fuel
  (`church_quot/rem/div/shr_app_diverges_all`, witness `church_quot_app_diverges`).
-/
import LC.Proofs.Eager.ChurchCbv
import LC.Proofs.Num.ChurchB

namespace LC
open Term Spec Enc RL Eager

set_option linter.unusedSimpArgs false
attribute [local irreducible] iterApp

namespace ChurchAppB

/-! ## `is_even`, `is_odd`

Under APP the operator `n NOT` is normalised under its binder first: `NOTᵏ x` for a variable `x` has the normal form
`x FALSE TRUE FALSE TRUE …` (`k` pairs); after the contraction with `TRUE`/`FALSE` the spine is evaluated from the inside. -/

/-- `h FALSE TRUE … FALSE TRUE` (`k` pairs) -/
def notW (h : Term) : Nat → Term
  | 0 => h
  | k + 1 => app2 (notW h k) Gen.Bool.fls Gen.Bool.tru

theorem applyAux_notW (r : Term) (d : Nat) (h : Term) (k : Nat) (hd : 1 ≤ d) :
    applyAux r d (notW h k) = notW (applyAux r d h) k := by
  induction k with
  | zero => rfl
  | succ k ih =>
    have h1 : ¬ d = 0 := by omega
    have h2 : ¬ d + 1 + 1 < 2 := by omega
    simp [notW, app2, applyAux, ih, Gen.Bool.fls, Gen.Bool.tru, h1, h2]

theorem shiftFV_notW (a o : Nat) (h : Term) (k : Nat) :
    shiftFV a o (notW h k) = notW (shiftFV a o h) k := by
  induction k with
  | zero => rfl
  | succ k ih => simp [notW, app2, shiftFV, ih, Gen.Bool.fls, Gen.Bool.tru]; omega

theorem isAbs_notW_var (i k : Nat) : isAbs (notW (var i) k) = false := by cases k <;> rfl

theorem isNormal_notW_var (i k : Nat) : isNormal (notW (var i) k) = true := by
  induction k with
  | zero => rfl
  | succ k ih => simp [notW, app2, isNormal, ih, isAbs_notW_var, Gen.Bool.fls, Gen.Bool.tru]; rfl

theorem app_not_iter (n : Nat) : EvalApp (iterApp Gen.Bool.not (var 1) n) (notW (var 1) n) := by
  apply app_iterApp (w := notW (var 1))
  · simp only [notW]; ev
  · intro k
    refine EvalApp.beta (by decide) (isNormal_notW_var 1 k) ?_
    have e : contract (app2 (var 1) Gen.Bool.fls Gen.Bool.tru) (notW (var 1) k) = notW (var 1) (k + 1) := by
      simp [lc_simp, notW, Gen.Bool.fls, Gen.Bool.tru]
    show EvalApp (contract (app2 (var 1) Gen.Bool.fls Gen.Bool.tru) (notW (var 1) k)) _
    rw [e]
    exact EvalApp.of_isNormal (isNormal_notW_var 1 (k + 1))

theorem app_notW (b : Bool) (k : Nat) : EvalApp (notW (fromBool b) k) (fromBool (b ^^ (k % 2 == 1))) := by
  induction k with
  | zero => simp [notW]; ev
  | succ k ih =>
    have e : (b ^^ ((k + 1) % 2 == 1)) = !(b ^^ (k % 2 == 1)) := by
      rcases Nat.mod_two_eq_zero_or_one k with h | h <;> simp [Nat.add_mod, h]
    rw [e]
    generalize (b ^^ (k % 2 == 1)) = c at ih
    simp only [notW]
    cases c <;> ev

/-! ## `pow`

`POW ≡ λab.IS_ZERO b ONE (b a)`: the operand `n m` is normalised completely: `mᵏ x` for a variable `x` has the normal
form `λy. x^(m^k) y` (`k ≥ 1`). -/

/-- one round: `m (λy. xᵖ y)` normalises to `λy. x^(m·p) y` -/
theorem app_church_W (m p : Nat) :
    EvalApp (app (intoChurch m) (abs (iterApp (var 2) (var 1) p))) (abs (iterApp (var 2) (var 1) (m * p))) := by
  ev
  apply app_iterApp' (w := fun k => iterApp (var 2) (var 1) (k * p))
  · ev
  · simp; ev
  · intro k; rw [Nat.succ_mul, Nat.add_comm (k * p), iterApp_add]; ev

theorem app_church_iter (m n : Nat) :
    EvalApp (iterApp (intoChurch m) (var 1) (n + 1)) (abs (iterApp (var 2) (var 1) (m ^ (n + 1)))) := by
  rw [iterApp_succ']
  apply app_iterApp (w := fun k => abs (iterApp (var 2) (var 1) (m ^ (k + 1))))
  · simp; ev
  · intro k
    have := app_church_W m (m ^ (k + 1))
    rw [Nat.pow_succ m (k + 1), Nat.mul_comm _ m]
    ev

/-- a numeral applied to a numeral: exponentiation -/
theorem app_church_church (m n : Nat) :
    EvalApp (app (intoChurch (n + 1)) (intoChurch m)) (intoChurch (m ^ (n + 1))) := by
  rw [intoChurch_eq (m ^ (n + 1))]
  have := app_church_iter m n
  ev

/-- the body of `POW` after the (normalising) evaluation of the operator: `n (λx.FALSE) TRUE ONE (n m)` -/
theorem app_pow_body (m n : Nat) :
    EvalApp (app2 (app2 (intoChurch n) (abs Gen.Bool.fls) Gen.Bool.tru) Gen.Church.one (app (intoChurch n) (intoChurch m)))
      (intoChurch (m ^ n)) := by
  cases n with
  | zero => ev
  | succ n =>
    have := app_church_church m n
    ev
    exact app_iterApp (fun j => match j with | 0 => var 1 | _ + 1 => Gen.Bool.fls) (by ev)
      (fun k => by cases k <;> ev) (n + 1)
    ev

/-- `2ⁿ` as it occurs inside `SHL`, applied to a variable -/
theorem app_pow2_var (n : Nat) :
    EvalApp (app (app2 (app2 (intoChurch n) (abs Gen.Bool.fls) Gen.Bool.tru) Gen.Church.one
        (app (intoChurch n) (intoChurch 2))) (var 2)) (abs (iterApp (var 3) (var 1) (2 ^ n))) := by
  have := app_pow_body 2 n
  ev

/-! ## simple types: APP terminates on every simply typed term

`FAC ≡ λn. n (λfab. f (MUL a b) (SUCC b)) K ONE ONE`: under APP the operator `n STEP` is normalised under its binder with
SYMBOLIC `f`, `a`, `b`; the normal forms are deeply nested and have no convenient closed description.  Instead:
termination of APP is proved for ALL simply typed terms (Curry style) by the hereditary-substitution argument —
substituting a typed normal form into a typed normal form and re-normalising in applicative order terminates, by
induction on the TYPE of the substituted variable and then on the term — and the VALUE follows from confluence
(`EvalApp.star`, `normal_unique`) and the layer-1 theorem. -/

inductive Ty : Type
  | o : Ty
  | arr : Ty → Ty → Ty

def Ty.size : Ty → Nat
  | .o => 1
  | .arr a b => a.size + b.size + 1

theorem Ty.size_pos (τ : Ty) : 0 < τ.size := by cases τ <;> simp [Ty.size]

/-- `Γ ⊢ t : τ`, Curry style; the de Bruijn index `i + 1` refers to `Γ[i]` -/
inductive Typed : List Ty → Term → Ty → Prop
  | var {Γ : List Ty} {i : Nat} {τ : Ty} : Γ[i]? = some τ → Typed Γ (Term.var (i + 1)) τ
  | abs {Γ : List Ty} {b : Term} {σ τ : Ty} : Typed (σ :: Γ) b τ → Typed Γ (Term.abs b) (Ty.arr σ τ)
  | app {Γ : List Ty} {l r : Term} {σ τ : Ty} : Typed Γ l (Ty.arr σ τ) → Typed Γ r σ → Typed Γ (Term.app l r) τ

theorem isAbs_shiftFV (a o : Nat) (t : Term) : isAbs (shiftFV a o t) = isAbs t := by
  cases t with
  | var i => simp only [shiftFV]; split <;> rfl
  | abs b => rfl
  | app l r => rfl

theorem isNormal_shiftFV (a o : Nat) (t : Term) : isNormal (shiftFV a o t) = isNormal t := by
  induction t generalizing o with
  | var i => simp only [shiftFV]; split <;> rfl
  | abs b ih => simp only [shiftFV, isNormal, ih]
  | app l r ihl ihr => simp only [shiftFV, isNormal, ihl, ihr, isAbs_shiftFV]

/-- weakening -/
theorem Typed.shift {Γ : List Ty} {t : Term} {τ : Ty} (h : Typed Γ t τ) :
    ∀ (Γ1 Γ2 Δ : List Ty), Γ = Γ1 ++ Γ2 → Typed (Γ1 ++ Δ ++ Γ2) (shiftFV Δ.length Γ1.length t) τ := by
  induction h with
  | @var Γ i τ hi =>
    intro Γ1 Γ2 Δ e; subst e
    simp only [shiftFV]
    by_cases hlt : i + 1 > Γ1.length
    · rw [if_pos hlt, Nat.add_right_comm]
      apply Typed.var
      rw [List.getElem?_append_right (by omega)] at hi
      rw [List.getElem?_append_right (by simp; omega)]
      rw [← hi]; congr 1; simp; omega
    · rw [if_neg hlt]
      apply Typed.var
      rw [List.getElem?_append_left (by omega)] at hi
      rw [List.append_assoc, List.getElem?_append_left (by omega)]
      exact hi
  | @abs Γ b σ τ _ ih =>
    intro Γ1 Γ2 Δ e; subst e
    exact Typed.abs (ih (σ :: Γ1) Γ2 Δ rfl)
  | app _ _ ihl ihr =>
    intro Γ1 Γ2 Δ e
    exact Typed.app (ihl Γ1 Γ2 Δ e) (ihr Γ1 Γ2 Δ e)

/-- hereditary substitution in applicative order: substituting a typed normal form `v : σ` into a typed normal form
and evaluating (APP) terminates with a typed (normal) result; induction on the size of `σ`, then on the term -/
theorem hsubst (n : Nat) : ∀ (σ : Ty), σ.size ≤ n → ∀ (t : Term) (Γ1 Γ2 : List Ty) (τ : Ty) (v : Term),
    Typed (Γ1 ++ σ :: Γ2) t τ → isNormal t = true → Typed Γ2 v σ → isNormal v = true →
    ∃ r, EvalApp (applyAux v (Γ1.length + 1) t) r ∧ Typed (Γ1 ++ Γ2) r τ ∧
      (isAbs t = false → isAbs r = true → τ.size ≤ σ.size) := by
  induction n with
  | zero => intro σ h; have := σ.size_pos; omega
  | succ n IH =>
    intro σ hσ t
    induction t with
    | var j =>
      intro Γ1 Γ2 τ v ht _ hv nv
      cases ht with
      | @var _ i _ hi =>
        simp only [applyAux]
        by_cases h1 : i + 1 = Γ1.length + 1
        · rw [if_pos h1]
          have : i = Γ1.length := by omega
          subst this
          rw [List.getElem?_append_right (Nat.le_refl _)] at hi
          simp at hi; subst hi
          refine ⟨_, EvalApp.of_isNormal (by rw [isNormal_shiftFV]; exact nv), ?_, fun _ _ => Nat.le_refl _⟩
          have := hv.shift [] Γ2 Γ1 rfl
          simpa using this
        · rw [if_neg h1]
          by_cases h2 : i + 1 > Γ1.length + 1
          · rw [if_pos h2]
            refine ⟨_, EvalApp.var _, ?_, fun _ h => by simp [isAbs] at h⟩
            obtain ⟨k, rfl⟩ : ∃ k, i = k + 1 := ⟨i - 1, by omega⟩
            rw [Nat.add_sub_cancel]
            apply Typed.var
            rw [List.getElem?_append_right (by omega)] at hi ⊢
            rw [← hi]
            have : k + 1 - Γ1.length = (k - Γ1.length) + 1 := by omega
            rw [this]; rfl
          · rw [if_neg h2]
            refine ⟨_, EvalApp.var _, ?_, fun _ h => by simp [isAbs] at h⟩
            apply Typed.var
            rw [List.getElem?_append_left (by omega)] at hi ⊢
            exact hi
    | abs b ih =>
      intro Γ1 Γ2 τ v ht nt hv nv
      cases ht with
      | @abs _ _ σ1 τ1 hb =>
        obtain ⟨r, hr, tr, _⟩ := ih (σ1 :: Γ1) Γ2 τ1 v hb (by simpa [isNormal] using nt) hv nv
        exact ⟨Term.abs r, EvalApp.abs hr, Typed.abs tr, fun h => by simp [isAbs] at h⟩
    | app l r0 ihl ihr =>
      intro Γ1 Γ2 τ v ht nt hv nv
      obtain ⟨hna, nl, nr⟩ := isNormal_app nt
      cases ht with
      | @app _ _ _ σ1 _ hl hr =>
        obtain ⟨l', el, tl, il⟩ := ihl Γ1 Γ2 _ v hl nl hv nv
        obtain ⟨r', er, tr, _⟩ := ihr Γ1 Γ2 _ v hr nr hv nv
        simp only [applyAux]
        by_cases hab : isAbs l' = true
        · obtain ⟨b', rfl⟩ : ∃ b', l' = Term.abs b' := by
            cases l' with
            | abs b' => exact ⟨b', rfl⟩
            | var _ => simp [isAbs] at hab
            | app _ _ => simp [isAbs] at hab
          have hs := il hna rfl
          simp only [Ty.size] at hs
          have nb' : isNormal b' = true := by simpa [isNormal] using el.isNormal
          cases tl with
          | abs hb' =>
            obtain ⟨R, eR, tR, _⟩ := IH σ1 (by omega) b' [] (Γ1 ++ Γ2) τ r' hb' nb' tr er.isNormal
            exact ⟨R, EvalApp.appRed el er eR, by simpa using tR, fun _ _ => by omega⟩
        · have hab' : isAbs l' = false := by simpa using hab
          exact ⟨Term.app l' r', EvalApp.appNeu el hab' er, Typed.app tl tr, fun _ h => by simp [isAbs] at h⟩

/-- a typed normal operator applied to a typed normal operand terminates under APP -/
theorem app_nf_terminates {Γ : List Ty} {f v : Term} {σ τ : Ty} (hf : Typed Γ f (Ty.arr σ τ)) (nf : isNormal f = true)
    (hv : Typed Γ v σ) (nv : isNormal v = true) : ∃ r, EvalApp (Term.app f v) r ∧ Typed Γ r τ := by
  cases f with
  | abs b =>
    cases hf with
    | abs hb =>
      obtain ⟨r, er, tr, _⟩ := hsubst σ.size σ (Nat.le_refl _) b [] Γ τ v hb (by simpa [isNormal] using nf) hv nv
      exact ⟨r, EvalApp.beta (by simpa [isNormal] using nf) nv er, by simpa using tr⟩
  | var i => exact ⟨_, EvalApp.appNeu (EvalApp.var i) rfl (EvalApp.of_isNormal nv), Typed.app hf hv⟩
  | app l r =>
    exact ⟨_, EvalApp.appNeu (EvalApp.of_isNormal nf) rfl (EvalApp.of_isNormal nv), Typed.app hf hv⟩

/-- **APP terminates on every simply typed term** (with a result of the same type) -/
theorem typed_app_terminates {Γ : List Ty} {t : Term} {τ : Ty} (h : Typed Γ t τ) : ∃ r, EvalApp t r ∧ Typed Γ r τ := by
  induction h with
  | var hi => exact ⟨_, EvalApp.var _, Typed.var hi⟩
  | abs _ ih =>
    obtain ⟨r, er, tr⟩ := ih
    exact ⟨_, EvalApp.abs er, Typed.abs tr⟩
  | app _ _ ihl ihr =>
    obtain ⟨l', el, tl⟩ := ihl
    obtain ⟨r', er, tr⟩ := ihr
    obtain ⟨R, eR, tR⟩ := app_nf_terminates tl el.isNormal tr er.isNormal
    exact ⟨R, EvalApp.app_congr el er eR, tR⟩

/-- Church numerals over `τ` -/
def Ty.N (τ : Ty) : Ty := .arr (.arr τ τ) (.arr τ τ)

theorem typed_intoChurch (Γ : List Ty) (τ : Ty) (n : Nat) : Typed Γ (intoChurch n) (Ty.N τ) := by
  rw [intoChurch_eq]
  refine Typed.abs (Typed.abs ?_)
  induction n with
  | zero => rw [iterApp_zero]; exact Typed.var rfl
  | succ n ih => rw [iterApp_succ]; exact Typed.app (Typed.var rfl) ih

/-- type inference by unification on an explicit tree -/
macro "stlc_typecheck" : tactic =>
  `(tactic| (repeat' (first | apply Typed.abs | apply Typed.app | exact Typed.var rfl)))

/-- a simply typed term whose layer-1 result is known evaluates to it under APP -/
theorem app_of_typed_star {t n : Term} {τ : Ty} (ht : Typed [] t τ) (hs : t ↠ n) (hn : isNormal n = true) :
    EvalApp t n := by
  obtain ⟨r, er, _⟩ := typed_app_terminates ht
  have := normal_unique er.star hs ((isNormal_iff_normal _).mp er.isNormal) ((isNormal_iff_normal _).mp hn)
  rw [← this]; exact er

theorem typed_fac : Typed [] Gen.Church.fac
    (.arr (Ty.N (.arr (Ty.N .o) (.arr (Ty.N .o) (Ty.N .o)))) (Ty.N .o)) := by
  unfold Gen.Church.fac Ty.N
  stlc_typecheck

/-! ## negative result: the `Z`-recursive operations do NOT terminate under APP

APP normalises every operator completely, also under binders.  The fixed-point combinator
`Z ≡ λf. (λx. f (λv. x x v)) (λx. f (λv. x x v))` has no applicative-order normal form: with `f` a VARIABLE its body
unfolds for ever (`W W → f (λv. W W v)`, and `W W` is evaluated again under the binder `λv`).  Since a big-step APP
derivation contains a derivation for EVERY subterm, every term that contains `Z` anywhere diverges under APP — in
particular `quot`, `rem`, `div`, `shr` applied to any arguments. -/

/-- completeness of the big-step relation: a terminating run of the traversal yields a derivation -/
theorem evalApp_of_run : ∀ (fuel : Nat) (t : Term) (c : Nat) (r : Term) (c' : Nat),
    betaApp 0 fuel t c = some (r, c') → EvalApp t r := by
  intro fuel
  induction fuel with
  | zero => intro t c r c' h; simp [betaApp] at h
  | succ fuel ih =>
    intro t c r c' h
    cases t with
    | var i =>
      simp [betaApp, gate_zero] at h; obtain ⟨rfl, _⟩ := h; exact EvalApp.var i
    | abs b =>
      rw [betaApp] at h
      simp only [gate_zero, Bool.false_eq_true, if_false] at h
      cases hb : betaApp 0 fuel b c with
      | none => simp [hb] at h
      | some p =>
        obtain ⟨b', c1⟩ := p
        simp [hb] at h; obtain ⟨rfl, _⟩ := h
        exact EvalApp.abs (ih _ _ _ _ hb)
    | app l r0 =>
      rw [betaApp] at h
      simp only [gate_zero, Bool.false_eq_true, if_false] at h
      cases hl : betaApp 0 fuel l c with
      | none => simp [hl] at h
      | some p =>
        obtain ⟨l', c1⟩ := p
        cases hr : betaApp 0 fuel r0 c1 with
        | none => simp [hl, hr] at h
        | some q =>
          obtain ⟨r', c2⟩ := q
          simp only [hl, hr] at h
          cases l' with
          | abs b =>
            simp only [budget_zero, if_true] at h
            exact EvalApp.appRed (ih _ _ _ _ hl) (ih _ _ _ _ hr) (ih _ _ _ _ h)
          | var i =>
            simp at h; obtain ⟨rfl, _⟩ := h
            exact EvalApp.appNeu (ih _ _ _ _ hl) rfl (ih _ _ _ _ hr)
          | app a b =>
            simp at h; obtain ⟨rfl, _⟩ := h
            exact EvalApp.appNeu (ih _ _ _ _ hl) rfl (ih _ _ _ _ hr)

/-- no derivation, no result — for any fuel -/
theorem reduce_app_none_of_diverges {t : Term} (h : ∀ r, ¬ EvalApp t r) (fuel : Nat) : reduce .APP 0 fuel t = none := by
  cases hr : reduce .APP 0 fuel t with
  | none => rfl
  | some p => exact absurd (evalApp_of_run fuel t 0 p.1 p.2 hr) (h _)

/-- the terms met while APP unfolds `W W` (`W = ZW f`, `f = var (i + 2)` a variable) -/
inductive ZBad : Term → Prop
  | a (i : Nat) : ZBad (ZF (var (i + 2)))
  | b (i : Nat) : ZBad (app (var (i + 1)) (abs (app (ZF (var (i + 3))) (var 1))))
  | c (i : Nat) : ZBad (abs (app (ZF (var (i + 2))) (var 1)))
  | d (i : Nat) : ZBad (app (ZF (var (i + 2))) (var 1))

theorem isNormal_ZW_var (i : Nat) : isNormal (ZW (var i)) = true := rfl

theorem ZBad.diverges {t r : Term} (h : EvalApp t r) : ZBad t → False := by
  induction h with
  | var i => intro hb; cases hb
  | abs _ ih =>
    intro hb
    cases hb with
    | c i => exact ih (ZBad.d i)
  | @appRed l r0 b r' n hl hr _ ihl ihr ihn =>
    intro hb
    generalize he : Term.app l r0 = t at hb
    cases hb with
    | a i =>
      simp only [ZF, Term.app.injEq] at he
      obtain ⟨rfl, rfl⟩ := he
      have e1 := hl.normal_eq (isNormal_ZW_var _)
      have e2 := hr.normal_eq (isNormal_ZW_var _)
      simp only [ZW, Term.abs.injEq] at e1
      subst e1 e2
      apply ihn
      have : contract (Term.app (var (i + 2)) (Term.abs (app2 (var 2) (var 2) (var 1)))) (ZW (var (i + 2))) =
          app (var (i + 1)) (abs (app (ZF (var (i + 3))) (var 1))) := by
        simp [contract, applyAux, shiftFV, ZF, ZW]
      rw [this]; exact ZBad.b i
    | b i =>
      simp only [Term.app.injEq] at he
      obtain ⟨rfl, rfl⟩ := he
      cases hl
    | c i => cases he
    | d i =>
      simp only [Term.app.injEq] at he
      obtain ⟨rfl, rfl⟩ := he
      exact ihl (ZBad.a i)
  | @appNeu l r0 l' r' hl hna hr ihl ihr =>
    intro hb
    generalize he : Term.app l r0 = t at hb
    cases hb with
    | a i =>
      simp only [ZF, Term.app.injEq] at he
      obtain ⟨rfl, rfl⟩ := he
      have e1 := hl.normal_eq (isNormal_ZW_var _)
      subst e1
      simp [ZW, isAbs] at hna
    | b i =>
      simp only [Term.app.injEq] at he
      obtain ⟨rfl, rfl⟩ := he
      exact ihr (ZBad.c (i + 1))
    | c i => cases he
    | d i =>
      simp only [Term.app.injEq] at he
      obtain ⟨rfl, rfl⟩ := he
      exact ihl (ZBad.a i)

/-- `s` occurs in `t` as a subterm -/
def hasSub (s : Term) : Term → Bool
  | t@(Term.var _) => t == s
  | t@(Term.abs b) => t == s || hasSub s b
  | t@(Term.app l r) => t == s || hasSub s l || hasSub s r

/-- a derivation for a term contains a derivation for each of its subterms -/
theorem evalApp_sub {s t r : Term} (h : EvalApp t r) : hasSub s t = true → ∃ r', EvalApp s r' := by
  induction h with
  | var i => intro hs; simp [hasSub] at hs; subst hs; exact ⟨_, EvalApp.var i⟩
  | @abs b b' hb ih =>
    intro hs
    simp only [hasSub, Bool.or_eq_true, beq_iff_eq] at hs
    rcases hs with rfl | hs
    · exact ⟨_, EvalApp.abs hb⟩
    · exact ih hs
  | appRed hl hr hn ihl ihr _ =>
    intro hs
    simp only [hasSub, Bool.or_eq_true, beq_iff_eq] at hs
    rcases hs with (rfl | hs) | hs
    · exact ⟨_, EvalApp.appRed hl hr hn⟩
    · exact ihl hs
    · exact ihr hs
  | appNeu hl hna hr ihl ihr =>
    intro hs
    simp only [hasSub, Bool.or_eq_true, beq_iff_eq] at hs
    rcases hs with (rfl | hs) | hs
    · exact ⟨_, EvalApp.appNeu hl hna hr⟩
    · exact ihl hs
    · exact ihr hs

/-- `Z` has no APP-normal form -/
theorem Z_app_diverges (r : Term) : ¬ EvalApp Gen.Comb.Z r := by
  intro h
  rw [show Gen.Comb.Z = abs (ZF (var 2)) by decide] at h
  cases h with
  | abs hb => exact ZBad.diverges hb (ZBad.a 0)

/-- every term that contains `Z` diverges under APP -/
theorem app_diverges_of_Z {t : Term} (h : hasSub Gen.Comb.Z t = true) (r : Term) : ¬ EvalApp t r := by
  intro he
  obtain ⟨r', hr'⟩ := evalApp_sub he h
  exact Z_app_diverges r' hr'

theorem reduce_app_none_of_Z {t : Term} (h : hasSub Gen.Comb.Z t = true) (fuel : Nat) :
    reduce .APP 0 fuel t = none :=
  reduce_app_none_of_diverges (app_diverges_of_Z h) fuel

theorem hasSub_app2 {s f : Term} (h : hasSub s f = true) (a b : Term) : hasSub s (app2 f a b) = true := by
  simp [hasSub, h]

end ChurchAppB

open ChurchAppB

theorem church_is_even_app (n : Nat) :
    EvalApp (app Gen.Church.is_even (intoChurch n)) (fromBool (n % 2 == 0)) := by
  have h := app_notW true n
  rw [show (true ^^ (n % 2 == 1)) = (n % 2 == 0) by
    rcases Nat.mod_two_eq_zero_or_one n with h | h <;> simp [h]] at h
  ev
  exact app_not_iter n
  ev [applyAux_notW]

theorem church_is_odd_app (n : Nat) :
    EvalApp (app Gen.Church.is_odd (intoChurch n)) (fromBool (n % 2 == 1)) := by
  have h := app_notW false n
  rw [Bool.false_xor] at h
  ev
  exact app_not_iter n
  ev [applyAux_notW]

theorem church_pow_app (m n : Nat) :
    EvalApp (app2 Gen.Church.pow (intoChurch m) (intoChurch n)) (intoChurch (m ^ n)) := by
  have := app_pow_body m n
  ev

theorem church_shl_app (m n : Nat) :
    EvalApp (app2 Gen.Church.shl (intoChurch m) (intoChurch n)) (intoChurch (m * 2 ^ n)) := by
  rw [intoChurch_eq (m * 2 ^ n)]
  ev
  apply app_iterApp' (hf := app_pow2_var n) (w := fun k => iterApp (var 2) (var 1) (k * 2 ^ n))
  · simp; ev
  · intro k; rw [Nat.succ_mul, Nat.add_comm (k * 2 ^ n), iterApp_add]; ev

theorem church_fac_app (n : Nat) :
    EvalApp (app Gen.Church.fac (intoChurch n)) (intoChurch (ChurchB.fact n)) :=
  app_of_typed_star (Typed.app typed_fac (typed_intoChurch [] _ n)) (church_fac_correct n) (normal_intoChurch _)

/-! ## the unbounded termination statements about the model reducer -/

theorem church_is_even_reduce_app (n : Nat) :
    ∃ fuel c, reduce .APP 0 fuel (app Gen.Church.is_even (intoChurch n)) = some (fromBool (n % 2 == 0), c) :=
  (church_is_even_app n).reduce
theorem church_is_odd_reduce_app (n : Nat) :
    ∃ fuel c, reduce .APP 0 fuel (app Gen.Church.is_odd (intoChurch n)) = some (fromBool (n % 2 == 1), c) :=
  (church_is_odd_app n).reduce
theorem church_pow_reduce_app (m n : Nat) :
    ∃ fuel c, reduce .APP 0 fuel (app2 Gen.Church.pow (intoChurch m) (intoChurch n)) = some (intoChurch (m ^ n), c) :=
  (church_pow_app m n).reduce
theorem church_shl_reduce_app (m n : Nat) :
    ∃ fuel c, reduce .APP 0 fuel (app2 Gen.Church.shl (intoChurch m) (intoChurch n)) =
      some (intoChurch (m * 2 ^ n), c) :=
  (church_shl_app m n).reduce
theorem church_fac_reduce_app (n : Nat) :
    ∃ fuel c, reduce .APP 0 fuel (app Gen.Church.fac (intoChurch n)) = some (intoChurch (ChurchB.fact n), c) :=
  (church_fac_app n).reduce

/-! ## negative result: `quot`, `rem`, `div`, `shr` diverge under APP for ALL arguments

(in fact for arbitrary argument TERMS: the operator contains `Z`, which APP tries to normalise first) -/

theorem church_quot_app_diverges_all (a b : Term) (fuel : Nat) :
    reduce .APP 0 fuel (app2 Gen.Church.quot a b) = none :=
  reduce_app_none_of_Z (hasSub_app2 (by decide) a b) fuel
theorem church_rem_app_diverges_all (a b : Term) (fuel : Nat) :
    reduce .APP 0 fuel (app2 Gen.Church.rem a b) = none :=
  reduce_app_none_of_Z (hasSub_app2 (by decide) a b) fuel
theorem church_div_app_diverges_all (a b : Term) (fuel : Nat) :
    reduce .APP 0 fuel (app2 Gen.Church.div a b) = none :=
  reduce_app_none_of_Z (hasSub_app2 (by decide) a b) fuel
theorem church_shr_app_diverges_all (a b : Term) (fuel : Nat) :
    reduce .APP 0 fuel (app2 Gen.Church.shr a b) = none :=
  reduce_app_none_of_Z (hasSub_app2 (by decide) a b) fuel

/-- the requested concrete witness -/
theorem church_quot_app_diverges :
    ∀ fuel, reduce .APP 0 fuel (app2 Gen.Church.quot (intoChurch 1) (intoChurch 1)) = none :=
  church_quot_app_diverges_all _ _

end LC
