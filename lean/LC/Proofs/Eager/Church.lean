/-
Unbounded termination-and-result theorems for Church-numeral operations under the EAGER orders
HAP (hybrid applicative) and APP (applicative), as big-step derivations (`LC/Proofs/Eager/BigStep.lean`).
-/
import LC.Proofs.Eager.BigStep
import LC.Proofs.Num.Toolkit

namespace LC
open Term Spec Enc RL

set_option linter.unusedSimpArgs false

namespace Eager

/-! ## 1. toolkit -/

theorem isNormal_iterApp_var' (i : Nat) (x : Term) (n : Nat) :
    isNormal (iterApp (var i) x n) = isNormal x := by
  induction n with
  | zero => rfl
  | succ n ih => simp [iterApp, isNormal, isAbs, ih]

theorem isWNF_iterApp_var' (i : Nat) (x : Term) (n : Nat) :
    isWNF (iterApp (var i) x n) = isWNF x := by
  induction n with
  | zero => rfl
  | succ n ih => simp [iterApp, isWNF, isAbs, ih]

theorem isNormal_iterApp (f x : Term) (n : Nat) :
    isNormal (iterApp f x n) = (isNormal x && (n == 0 || (!isAbs f && isNormal f))) := by
  induction n with
  | zero => simp [iterApp]
  | succ n ih => simp [iterApp, isNormal, ih]; grind

theorem isWNF_iterApp (f x : Term) (n : Nat) :
    isWNF (iterApp f x n) = (isWNF x && (n == 0 || (!isAbs f && isWNF f))) := by
  induction n with
  | zero => simp [iterApp]
  | succ n ih => simp [iterApp, isWNF, ih]; grind

@[simp] theorem isWNF_intoChurch (n : Nat) : isWNF (intoChurch n) = true := rfl
@[simp] theorem isAbs_intoChurch (n : Nat) : isAbs (intoChurch n) = true := rfl

@[simp] theorem isNormal_fromBool (b : Bool) : isNormal (fromBool b) = true := by cases b <;> rfl
@[simp] theorem isWNF_fromBool (b : Bool) : isWNF (fromBool b) = true := by cases b <;> rfl

/-- discharge shape side conditions (`isNormal … = true`, `isWNF … = true`, `isAbs … = false`) on explicit trees with
numerals / `iterApp (var i) …` leaves -/
macro "ev_shape" : tactic =>
  `(tactic| first
    | rfl
    | (solve | simp [Spec.isNormal, Spec.isWNF, Term.isAbs, normal_intoChurch, isNormal_iterApp_var', isWNF_iterApp_var', isNormal_iterApp, isWNF_iterApp, isWNF_intoChurch, *]))

/-- compute `contract`s (substitution on explicit trees with numeral / `iterApp` leaves) -/
syntax "ev_simp" (" [" Lean.Parser.Tactic.simpLemma,* "]")? : tactic
macro_rules
  | `(tactic| ev_simp) => `(tactic| simp [lc_simp, churchBody_eq])
  | `(tactic| ev_simp [$ls,*]) => `(tactic| simp [lc_simp, churchBody_eq, $ls,*])

/-- a variable iterated on an argument: only the argument is evaluated -/
theorem hap_iterApp_var (i : Nat) {x x' : Term} (h : EvalHap x x') (n : Nat) :
    EvalHap (iterApp (var i) x n) (iterApp (var i) x' n) := by
  induction n with
  | zero => exact h
  | succ n ih => exact EvalHap.appNeu (EvalCbv.var i) rfl ih (EvalHap.var i)

theorem app_iterApp_var (i : Nat) {x x' : Term} (h : EvalApp x x') (n : Nat) :
    EvalApp (iterApp (var i) x n) (iterApp (var i) x' n) := by
  induction n with
  | zero => exact h
  | succ n ih => exact EvalApp.appNeu (EvalApp.var i) rfl ih

/-- ONE deterministic evaluation step on the FIRST goal; fails when the head shape of the term is not known
(a symbolic leaf such as `iterApp f x n`): then the user supplies the derivation (`exact …`) and calls `ev` again.
The optional lemma list is passed to the `simp` call that computes contractions. -/
syntax "ev_step" (" [" Lean.Parser.Tactic.simpLemma,* "]")? : tactic
macro_rules
  | `(tactic| ev_step $[[$ls,*]]?) => `(tactic| first
    | assumption
    | (apply EvalCbv.of_isWNF; ev_shape)
    | (apply EvalHap.of_isNormal; ev_shape)
    | (apply EvalApp.of_isNormal; ev_shape)
    | apply hap_iterApp_var
    | apply app_iterApp_var
    | apply EvalHap.abs
    | apply EvalApp.abs
    | apply EvalCbv.step_app
    | apply EvalHap.step_app
    | apply EvalApp.step_app
    | (refine CbvCont.of_eval ?_ ?_ ?_ <;> first | assumption | ev_shape)
    | (refine HapCont.of_eval ?_ ?_ ?_ <;> first | assumption | ev_shape)
    | (refine AppCont.of_eval ?_ ?_ ?_ <;> first | assumption | ev_shape)
    | (apply CbvCont.red; ev_simp $[[$ls,*]]?)
    | (apply HapCont.red; ev_simp $[[$ls,*]]?)
    | (apply AppCont.red; ev_simp $[[$ls,*]]?)
    | exact CbvCont.neu rfl
    | apply HapCont.neu rfl
    | exact AppCont.neu rfl)

/-- evaluate as far as the shapes are known, strictly in evaluation order (always the first goal) -/
syntax "ev" (" [" Lean.Parser.Tactic.simpLemma,* "]")? : tactic
macro_rules
  | `(tactic| ev $[[$ls,*]]?) => `(tactic| repeat ev_step $[[$ls,*]]?)

/-- iteration under HAP: the operand is evaluated first, so a family of results suffices -/
theorem hap_iterApp {f x : Term} (w : Nat → Term) (h0 : EvalHap x (w 0))
    (hs : ∀ k, EvalHap (app f (w k)) (w (k + 1))) (n : Nat) : EvalHap (iterApp f x n) (w n) := by
  induction n with
  | zero => exact h0
  | succ n ih => exact EvalHap.app_arg ih (hs n)

theorem cbv_iterApp {f x : Term} (w : Nat → Term) (h0 : EvalCbv x (w 0))
    (hs : ∀ k, EvalCbv (app f (w k)) (w (k + 1))) (n : Nat) : EvalCbv (iterApp f x n) (w n) := by
  induction n with
  | zero => exact h0
  | succ n ih => exact EvalCbv.app_arg ih (hs n)

theorem app_iterApp {f x : Term} (w : Nat → Term) (h0 : EvalApp x (w 0))
    (hs : ∀ k, EvalApp (app f (w k)) (w (k + 1))) (n : Nat) : EvalApp (iterApp f x n) (w n) := by
  induction n with
  | zero => exact h0
  | succ n ih => exact EvalApp.app_arg ih (hs n)

/-- iteration of an operator that itself needs evaluation (`f` is re-evaluated at every turn, to the same value) -/
theorem hap_iterApp' {f g x : Term} (hf : EvalCbv f g) (w : Nat → Term) (h0 : EvalHap x (w 0))
    (hs : ∀ k, EvalHap (app g (w k)) (w (k + 1))) (n : Nat) : EvalHap (iterApp f x n) (w n) := by
  induction n with
  | zero => exact h0
  | succ n ih => exact EvalHap.app_congr hf ih (hs n)

theorem cbv_iterApp' {f g x : Term} (hf : EvalCbv f g) (w : Nat → Term) (h0 : EvalCbv x (w 0))
    (hs : ∀ k, EvalCbv (app g (w k)) (w (k + 1))) (n : Nat) : EvalCbv (iterApp f x n) (w n) := by
  induction n with
  | zero => exact h0
  | succ n ih => exact EvalCbv.app_congr hf ih (hs n)

theorem app_iterApp' {f g x : Term} (hf : EvalApp f g) (w : Nat → Term) (h0 : EvalApp x (w 0))
    (hs : ∀ k, EvalApp (app g (w k)) (w (k + 1))) (n : Nat) : EvalApp (iterApp f x n) (w n) := by
  induction n with
  | zero => exact h0
  | succ n ih => exact EvalApp.app_congr hf ih (hs n)

end Eager

open Eager

/- from here on `iterApp f x (n + 1)` is NOT unfolded silently by `apply`/`exact` (so that `ev` stops at symbolic
iterations instead of peeling off one application); use `rw [iterApp_succ]` / `iterApp_succ'` explicitly -/
attribute [local irreducible] iterApp

open Eager

/-! ## 2. HAP -/

theorem church_succ_hap (n : Nat) : EvalHap (app Gen.Church.succ (intoChurch n)) (intoChurch (n + 1)) := by
  rw [intoChurch_eq (n + 1), iterApp_succ]
  ev

theorem church_add_hap (m n : Nat) :
    EvalHap (app2 Gen.Church.add (intoChurch m) (intoChurch n)) (intoChurch (m + n)) := by
  ev
  exact hap_iterApp (fun k => intoChurch (m + k)) (EvalHap.of_isNormal (normal_intoChurch m))
    (fun k => church_succ_hap (m + k)) n

theorem church_is_zero_hap (n : Nat) : EvalHap (app Gen.Church.is_zero (intoChurch n)) (fromBool (n == 0)) := by
  ev
  exact hap_iterApp (fun k => fromBool (k == 0)) (by ev) (fun k => by ev) n

/-! ## 3. APP -/

theorem church_succ_app (n : Nat) : EvalApp (app Gen.Church.succ (intoChurch n)) (intoChurch (n + 1)) := by
  rw [intoChurch_eq (n + 1), iterApp_succ]
  ev

/-- the APP-normal form of `succᵏ x` for a variable `x` (k ≥ 1): `λf y. fᵏ (x f y)` -/
def succW (k : Nat) : Term := abs (abs (iterApp (var 2) (app2 (var 3) (var 2) (var 1)) k))

theorem church_succ_app_W (k : Nat) : EvalApp (app Gen.Church.succ (succW k)) (succW (k + 1)) := by
  unfold succW; rw [iterApp_succ]
  ev

/-- `succⁿ⁺¹ x` for a variable `x` under APP -/
theorem church_succ_iter_app (n : Nat) :
    EvalApp (iterApp Gen.Church.succ (var 1) (n + 1)) (succW (n + 1)) := by
  rw [iterApp_succ']
  exact app_iterApp (fun j => succW (j + 1)) (by simp only [succW, iterApp_succ, iterApp_zero]; ev) (fun j => church_succ_app_W (j + 1)) n

theorem church_add_app (m n : Nat) :
    EvalApp (app2 Gen.Church.add (intoChurch m) (intoChurch n)) (intoChurch (m + n)) := by
  cases n with
  | zero => ev
  | succ n =>
    rw [intoChurch_eq (m + (n + 1)), Nat.add_comm m, iterApp_add]
    ev
    exact church_succ_iter_app n
    ev [succW]

theorem church_is_zero_app (n : Nat) : EvalApp (app Gen.Church.is_zero (intoChurch n)) (fromBool (n == 0)) := by
  cases n with
  | zero => ev
  | succ n =>
    ev
    exact app_iterApp (fun j => match j with | 0 => var 1 | _ + 1 => Gen.Bool.fls) (by ev)
      (fun k => by cases k <;> ev) (n + 1)
    ev

/-! ## 4. `mul`, `pred` -/

theorem church_mul_hap (m n : Nat) :
    EvalHap (app2 Gen.Church.mul (intoChurch m) (intoChurch n)) (intoChurch (m * n)) := by
  rw [intoChurch_eq (m * n)]
  ev
  exact hap_iterApp (fun k => iterApp (var 2) (var 1) (k * n)) (by simp; ev)
    (fun k => by rw [Nat.succ_mul, Nat.add_comm (k * n), iterApp_add]; ev) m

theorem church_mul_app (m n : Nat) :
    EvalApp (app2 Gen.Church.mul (intoChurch m) (intoChurch n)) (intoChurch (m * n)) := by
  rw [intoChurch_eq (m * n)]
  ev
  apply app_iterApp' (w := fun k => iterApp (var 2) (var 1) (k * n))
  · ev
  · simp; ev
  · intro k; rw [Nat.succ_mul, Nat.add_comm (k * n), iterApp_add]; ev

/-- APP-normal form of `(λgh. h (g f))ᵏ⁺¹ g` for variables `f`, `g` (under the binders `λf x. … (λg. _)`) -/
def predW (k : Nat) : Term := abs (app (var 1) (iterApp (var 4) (app (var 2) (var 4)) k))

theorem church_pred_app (n : Nat) : EvalApp (app Gen.Church.pred (intoChurch n)) (intoChurch (n - 1)) := by
  cases n with
  | zero => ev
  | succ n =>
    rw [intoChurch_eq (n + 1 - 1), Nat.add_sub_cancel]
    ev
    rw [iterApp_succ']
    apply app_iterApp (w := predW)
    · simp only [predW, iterApp_zero]; ev
    · intro k; simp only [predW, iterApp_succ]; ev
    ev [predW]

/-- CBV value of `(λgh. h (g f))ᵏ (λu. x)` for variables `f = var i`, `x = var j`: nested closures
`λh. h ((λh. h (… (λu. x) … f)) f)` — CBV does not evaluate under the binders -/
def predV (i j : Nat) : Nat → Term
  | 0 => abs (var (j + 1))
  | k + 1 => abs (app (var 1) (app (predV (i + 1) (j + 1) k) (var (i + 1))))

@[simp] theorem isWNF_predV (i j k : Nat) : isWNF (predV i j k) = true := by cases k <;> rfl
@[simp] theorem isAbs_predV (i j k : Nat) : isAbs (predV i j k) = true := by cases k <;> rfl

theorem shiftFV_predV (a o i j k : Nat) (hi : o < i) (hj : o < j) :
    shiftFV a o (predV i j k) = predV (i + a) (j + a) k := by
  induction k generalizing o i j with
  | zero => simp [predV, shiftFV, hj]; omega
  | succ k ih =>
    have e1 : i + 1 + a = i + a + 1 := by omega
    have e2 : j + 1 + a = j + a + 1 := by omega
    simp [predV, shiftFV, ih (o + 1) (i + 1) (j + 1) (by omega) (by omega), hi, e1, e2]

theorem applyAux_predV (r : Term) (d i j k : Nat) (hd : 1 ≤ d) (hi : d < i) (hj : d < j) :
    applyAux r d (predV i j k) = predV (i - 1) (j - 1) k := by
  induction k generalizing d i j with
  | zero =>
    have e2 : j - 1 + 1 = j := by omega
    have h1 : ¬ (j + 1 = d + 1) := by omega
    have h2 : j + 1 > d + 1 := by omega
    simp [predV, applyAux, e2, h1, h2]
    intro h; omega
  | succ k ih =>
    have e1 : i - 1 + 1 = i := by omega
    have e2 : j - 1 + 1 = j := by omega
    have h1 : ¬ (i + 1 = d + 1) := by omega
    have h2 : i + 1 > d + 1 := by omega
    have h3 : ¬ (1 = d + 1) := by omega
    have h4 : ¬ (1 > d + 1) := by omega
    simp [predV, applyAux, ih (d + 1) (i + 1) (j + 1) (by omega) (by omega) (by omega), e1, e2, h1, h2, h3, h4]
    constructor <;> intro h <;> omega

/-- forcing a `predV` closure with `f`: `predV k f` evaluates (HAP) to `fᵏ x` -/
theorem hap_predV_app (k : Nat) : EvalHap (app (predV 2 1 k) (var 2)) (iterApp (var 2) (var 1) k) := by
  induction k with
  | zero => simp only [predV, iterApp_zero]; ev
  | succ k ih =>
    simp only [predV, iterApp_succ]
    ev [applyAux_predV]

theorem church_pred_hap (n : Nat) : EvalHap (app Gen.Church.pred (intoChurch n)) (intoChurch (n - 1)) := by
  rw [intoChurch_eq (n - 1)]
  ev
  · apply cbv_iterApp (w := predV 2 1)
    · simp only [predV]; ev
    · intro k; simp only [predV]; ev [shiftFV_predV]
  ev
  cases n with
  | zero => simp only [predV]; ev
  | succ n =>
    simp only [predV, Nat.add_sub_cancel]
    have := hap_predV_app n
    ev [applyAux_predV]

/-! ## 5. further operations (compositional use of the theorems above) -/

theorem church_sub_hap (m n : Nat) :
    EvalHap (app2 Gen.Church.sub (intoChurch m) (intoChurch n)) (intoChurch (m - n)) := by
  ev
  exact hap_iterApp (fun k => intoChurch (m - k)) (by ev) (fun k => church_pred_hap (m - k)) n

theorem church_leq_hap (m n : Nat) :
    EvalHap (app2 Gen.Church.leq (intoChurch m) (intoChurch n)) (fromBool (decide (m ≤ n))) := by
  have h1 := church_sub_hap m n
  have h2 := church_is_zero_hap (m - n)
  rw [show decide (m ≤ n) = (m - n == 0) by rw [Bool.eq_iff_iff]; simp [Nat.sub_eq_zero_iff_le]]
  ev

/-! ## 6. the unbounded termination statements about the model reducer

`EvalHap.reduce` / `EvalApp.reduce` turn every derivation above into "for some fuel the traversal returns exactly this
result" — for ALL arguments; these replace the bounded grids `C13_grid_*`. -/

theorem church_succ_reduce_hap (n : Nat) :
    ∃ fuel c, reduce .HAP 0 fuel (app Gen.Church.succ (intoChurch n)) = some (intoChurch (n + 1), c) :=
  (church_succ_hap n).reduce
theorem church_succ_reduce_app (n : Nat) :
    ∃ fuel c, reduce .APP 0 fuel (app Gen.Church.succ (intoChurch n)) = some (intoChurch (n + 1), c) :=
  (church_succ_app n).reduce
theorem church_add_reduce_hap (m n : Nat) :
    ∃ fuel c, reduce .HAP 0 fuel (app2 Gen.Church.add (intoChurch m) (intoChurch n)) = some (intoChurch (m + n), c) :=
  (church_add_hap m n).reduce
theorem church_add_reduce_app (m n : Nat) :
    ∃ fuel c, reduce .APP 0 fuel (app2 Gen.Church.add (intoChurch m) (intoChurch n)) = some (intoChurch (m + n), c) :=
  (church_add_app m n).reduce
theorem church_is_zero_reduce_hap (n : Nat) :
    ∃ fuel c, reduce .HAP 0 fuel (app Gen.Church.is_zero (intoChurch n)) = some (fromBool (n == 0), c) :=
  (church_is_zero_hap n).reduce
theorem church_is_zero_reduce_app (n : Nat) :
    ∃ fuel c, reduce .APP 0 fuel (app Gen.Church.is_zero (intoChurch n)) = some (fromBool (n == 0), c) :=
  (church_is_zero_app n).reduce
theorem church_mul_reduce_hap (m n : Nat) :
    ∃ fuel c, reduce .HAP 0 fuel (app2 Gen.Church.mul (intoChurch m) (intoChurch n)) = some (intoChurch (m * n), c) :=
  (church_mul_hap m n).reduce
theorem church_mul_reduce_app (m n : Nat) :
    ∃ fuel c, reduce .APP 0 fuel (app2 Gen.Church.mul (intoChurch m) (intoChurch n)) = some (intoChurch (m * n), c) :=
  (church_mul_app m n).reduce
theorem church_pred_reduce_hap (n : Nat) :
    ∃ fuel c, reduce .HAP 0 fuel (app Gen.Church.pred (intoChurch n)) = some (intoChurch (n - 1), c) :=
  (church_pred_hap n).reduce
theorem church_pred_reduce_app (n : Nat) :
    ∃ fuel c, reduce .APP 0 fuel (app Gen.Church.pred (intoChurch n)) = some (intoChurch (n - 1), c) :=
  (church_pred_app n).reduce
theorem church_sub_reduce_hap (m n : Nat) :
    ∃ fuel c, reduce .HAP 0 fuel (app2 Gen.Church.sub (intoChurch m) (intoChurch n)) = some (intoChurch (m - n), c) :=
  (church_sub_hap m n).reduce
theorem church_leq_reduce_hap (m n : Nat) :
    ∃ fuel c, reduce .HAP 0 fuel (app2 Gen.Church.leq (intoChurch m) (intoChurch n)) =
      some (fromBool (decide (m ≤ n)), c) :=
  (church_leq_hap m n).reduce

end LC
