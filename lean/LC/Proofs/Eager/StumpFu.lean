/-
Stump-Fu numerals (`/repo/src/data/num/stumpfu.rs`, `church::to_stumpfu`) under the EAGER orders HAP and APP:
unbounded (all arguments) termination-and-result theorems, as big-step derivations (`LC/Proofs/Eager/BigStep.lean`),
with the `_reduce_` corollaries about the model reducer at the end of the file.

All nine operations terminate with the expected numeral under BOTH eager orders.

* HAP: numerals are closed normal forms, operators are evaluated by CBV only (not under binders), so every iteration
  `c F x` is a plain `hap_iterApp` over results that are numerals again (step counts are linear / quadratic).
* APP: the operator is normalised completely first — also the partial application `c F` under its binder, i.e.
  `Fᵏ x` for a VARIABLE `x`.  The normal forms are the families `sT` (Stump-Fu `SUCC`; its size DOUBLES at every turn),
  `scT` (Scott `SUCC`), `pT`/`pR` (Parigot `SUCC`) and `mT` (`λx. ADD m x`); after the contraction with the actual
  argument they are evaluated once more, from the inside.  Consequently the APP step counts are exponential, e.g.
  `to_stumpfu n`: 4, 7, 16, 33, 66, 131, 260, … (≈ 2ⁿ⁺²) against 3, 6, 14, 22, 30, … under HAP;
  `mul n n`: 7, 21, 75, 307, 1259, 5099, 20491, … (≈ 4ⁿ) against 4, 20, 53, 102, 167, … under HAP — but APP terminates.
-/
import LC.Proofs.Eager.ChurchCbv
import LC.Proofs.Num.StumpFuBinary
import LC.Props.C12

namespace LC
open Term Spec Enc RL Eager

set_option linter.unusedSimpArgs false
attribute [local irreducible] iterApp

namespace EagerSF

/-! ## shapes of the numerals (used by `ev` through `simp`) -/

@[simp] theorem isNormal_intoStumpFu (n : Nat) : isNormal (intoStumpFu n) = true := C12_normal_stumpfu n
@[simp] theorem isWNF_intoStumpFu (n : Nat) : isWNF (intoStumpFu n) = true := by cases n <;> rfl
@[simp] theorem isAbs_intoStumpFu (n : Nat) : isAbs (intoStumpFu n) = true := by cases n <;> rfl
@[simp] theorem isNormal_intoScott (n : Nat) : isNormal (intoScott n) = true := C12_normal_scott n
@[simp] theorem isWNF_intoScott (n : Nat) : isWNF (intoScott n) = true := by cases n <;> rfl
@[simp] theorem isNormal_intoParigot (n : Nat) : isNormal (intoParigot n) = true := C12_normal_parigot n
@[simp] theorem isWNF_intoParigot (n : Nat) : isWNF (intoParigot n) = true := by cases n <;> rfl

/-- the successor numeral with the Church component in the shape produced by evaluating `CHURCH_SUCC c` -/
theorem intoStumpFu_succ' (n : Nat) : intoStumpFu (n + 1) =
    abs (abs (app2 (var 2) (abs (abs (app (var 2) (iterApp (var 2) (var 1) n)))) (intoStumpFu n))) := by
  rw [← iterApp_succ, ← intoChurch_eq]; rfl

end EagerSF
open EagerSF

/-! ## operations that only inspect the outermost constructor (both orders); `succ` -/

theorem stumpfu_is_zero_hap (n : Nat) : EvalHap (app Gen.StumpFu.is_zero (intoStumpFu n)) (fromBool (n == 0)) := by
  cases n <;> ev
theorem stumpfu_is_zero_app (n : Nat) : EvalApp (app Gen.StumpFu.is_zero (intoStumpFu n)) (fromBool (n == 0)) := by
  cases n <;> ev
theorem stumpfu_pred_hap (n : Nat) : EvalHap (app Gen.StumpFu.pred (intoStumpFu n)) (intoStumpFu (n - 1)) := by
  cases n <;> ev
theorem stumpfu_pred_app (n : Nat) : EvalApp (app Gen.StumpFu.pred (intoStumpFu n)) (intoStumpFu (n - 1)) := by
  cases n <;> ev
theorem stumpfu_to_church_hap (n : Nat) : EvalHap (app Gen.StumpFu.to_church (intoStumpFu n)) (intoChurch n) := by
  cases n <;> ev
theorem stumpfu_to_church_app (n : Nat) : EvalApp (app Gen.StumpFu.to_church (intoStumpFu n)) (intoChurch n) := by
  cases n <;> ev

theorem stumpfu_succ_hap (n : Nat) : EvalHap (app Gen.StumpFu.succ (intoStumpFu n)) (intoStumpFu (n + 1)) := by
  cases n with
  | zero => ev
  | succ n => rw [intoStumpFu_succ' (n + 1)]; ev

theorem stumpfu_succ_app (n : Nat) : EvalApp (app Gen.StumpFu.succ (intoStumpFu n)) (intoStumpFu (n + 1)) := by
  cases n with
  | zero => ev
  | succ n => rw [intoStumpFu_succ' (n + 1)]; ev

/-! ## HAP: iterations -/

theorem church_to_stumpfu_hap (n : Nat) : EvalHap (app Gen.Church.to_stumpfu (intoChurch n)) (intoStumpFu n) := by
  ev
  exact hap_iterApp intoStumpFu (by ev) stumpfu_succ_hap n

theorem stumpfu_add_hap (m n : Nat) :
    EvalHap (app2 Gen.StumpFu.add (intoStumpFu m) (intoStumpFu n)) (intoStumpFu (m + n)) := by
  cases m with
  | zero => rw [Nat.zero_add]; ev
  | succ m =>
    ev
    rw [show m + 1 + n = n + (m + 1) by omega]
    exact hap_iterApp (fun k => intoStumpFu (n + k)) (by ev) (fun k => stumpfu_succ_hap (n + k)) (m + 1)

theorem stumpfu_mul_hap (m n : Nat) :
    EvalHap (app2 Gen.StumpFu.mul (intoStumpFu m) (intoStumpFu n)) (intoStumpFu (m * n)) := by
  cases m with
  | zero => rw [Nat.zero_mul]; ev
  | succ m =>
    ev
    refine hap_iterApp (fun k => intoStumpFu (k * n)) (by rw [Nat.zero_mul]; ev) (fun k => ?_) (m + 1)
    have := stumpfu_add_hap n (k * n)
    rw [show (k + 1) * n = n + k * n by rw [Nat.succ_mul]; omega]
    ev

namespace EagerSF

theorem scott_succ_hap (n : Nat) : EvalHap (app Gen.Scott.succ (intoScott n)) (intoScott (n + 1)) := by
  ev

@[simp] theorem isNormal_parigotBody (n : Nat) : isNormal (parigotBody n) = true := by
  induction n with
  | zero => rfl
  | succ n ih => simp [parigotBody, isNormal, isAbs, ih]

theorem parigot_inst_vars (n : Nat) : applyAux (var 1) 1 (applyAux (var 2) 2 (parigotBody n)) = parigotBody n := by
  rw [parigotBody_inst, StumpFuBinary.parigotRec_vars]

theorem parigot_core_hap (n : Nat) : EvalHap (app2 (intoParigot n) (var 2) (var 1)) (parigotBody n) := by
  rw [intoParigot_eq]
  ev [parigot_inst_vars]

theorem parigot_succ_hap (n : Nat) : EvalHap (app Gen.Parigot.succ (intoParigot n)) (intoParigot (n + 1)) := by
  have := parigot_core_hap n
  rw [intoParigot_eq (n + 1), parigotBody_succ]
  ev

end EagerSF

theorem stumpfu_to_scott_hap (n : Nat) : EvalHap (app Gen.StumpFu.to_scott (intoStumpFu n)) (intoScott n) := by
  cases n with
  | zero => ev
  | succ n =>
    ev
    exact hap_iterApp intoScott (by ev) scott_succ_hap (n + 1)

theorem stumpfu_to_parigot_hap (n : Nat) : EvalHap (app Gen.StumpFu.to_parigot (intoStumpFu n)) (intoParigot n) := by
  cases n with
  | zero => ev
  | succ n =>
    ev
    exact hap_iterApp intoParigot (by ev) parigot_succ_hap (n + 1)

namespace EagerSF

/-! ## APP: generic helpers -/

theorem isAbs_shiftFV (a o : Nat) (t : Term) : isAbs (shiftFV a o t) = isAbs t := by
  cases t with
  | var i => simp only [shiftFV]; split <;> rfl
  | abs b => rfl
  | app l r => rfl

theorem isNormal_shiftFV (a o : Nat) (t : Term) : isNormal (shiftFV a o t) = isNormal t := by
  induction t generalizing o with
  | var i => simp [shiftFV]; split <;> rfl
  | abs b ih => simp [shiftFV, isNormal, ih]
  | app l r ihl ihr => simp [shiftFV, isNormal, ihl, ihr, isAbs_shiftFV]

/-- evaluate the head and the first argument of a binary application first (APP) -/
theorem app2_congr {f g a a' b r : Term} (hf : EvalApp f g) (ha : EvalApp a a')
    (h : EvalApp (app2 g a' b) r) : EvalApp (app2 f a b) r := by
  cases h with
  | appRed hl hr hn => exact EvalApp.appRed (EvalApp.app_congr hf ha hl) hr hn
  | appNeu hl hna hr => exact EvalApp.appNeu (EvalApp.app_congr hf ha hl) hna hr

/-! ## APP: iterated Stump-Fu successor on an arbitrary term -/

/-- the step function `λcpfa. f (CHURCH_SUCC c) n` of `SUCC`, APP-normalised, for `n := t` -/
def sA (t : Term) : Term :=
  abs (abs (abs (abs (app2 (var 2) (abs (abs (app (var 2) (app2 (var 6) (var 2) (var 1))))) (shiftFV 4 0 t)))))

theorem sA_closed {t : Term} (h : Closed t) : sA t =
    abs (abs (abs (abs (app2 (var 2) (abs (abs (app (var 2) (app2 (var 6) (var 2) (var 1))))) t)))) := by
  simp [sA, shiftFV_of_closed h]

/-- the APP-normal form of `SUCC` -/
def succN : Term := abs (app2 (var 1) (sA (var 1)) (intoStumpFu 1))

theorem succ_norm : EvalApp Gen.StumpFu.succ succN := by
  simp only [succN, sA]; ev

/-- `SUCCᵏ x` after the `k` outer contractions: `x A₀ ONE A₁ ONE …` (size doubles at every turn) -/
def sT (x : Term) : Nat → Term
  | 0 => x
  | k + 1 => app2 (sT x k) (sA (sT x k)) (intoStumpFu 1)

theorem shiftFV_sT (a o : Nat) (x : Term) (k : Nat) : shiftFV a o (sT x k) = sT (shiftFV a o x) k := by
  induction k with
  | zero => rfl
  | succ k ih =>
    have e := shiftFV_comm 4 a 0 o (Nat.zero_le _) (sT x k)
    simp only [sT, sA, shiftFV, ih] at e ⊢
    simp [lc_simp, ← e]
    omega

theorem applyAux_sT (r : Term) (d : Nat) (hd : 1 ≤ d) (x : Term) (k : Nat) :
    applyAux r d (sT x k) = sT (applyAux r d x) k := by
  induction k with
  | zero => rfl
  | succ k ih =>
    have e := shiftFV_applyAux_lt 4 0 d hd (by omega) r (sT x k)
    have h1 : ¬ d = 0 := by omega
    have h2 : ¬ d + 1 + 1 + 1 + 1 + 1 + 1 < 6 := by omega
    simp only [sT, sA, applyAux, ih] at e ⊢
    simp [lc_simp, ← e, hd, h1, h2]

theorem isAbs_sT (x : Term) (k : Nat) (h : isAbs x = false) : isAbs (sT x k) = false := by
  cases k with
  | zero => exact h
  | succ k => rfl

theorem isNormal_sT (x : Term) (hx : isNormal x = true) (hx' : isAbs x = false) (k : Nat) :
    isNormal (sT x k) = true := by
  induction k with
  | zero => exact hx
  | succ k ih =>
    have h := isAbs_sT x k hx'
    simp [sT, sA, isNormal, ih, isNormal_shiftFV]
    exact ⟨rfl, h, rfl, rfl, rfl, rfl⟩

@[simp] theorem isAbs_sT_var (i k : Nat) : isAbs (sT (var i) k) = false := isAbs_sT _ k rfl
@[simp] theorem isNormal_sT_var (i k : Nat) : isNormal (sT (var i) k) = true := isNormal_sT _ rfl rfl k

theorem succN_step (i k : Nat) : EvalApp (app succN (sT (var (i + 1)) k)) (sT (var (i + 1)) (k + 1)) := by
  simp only [succN, sT, sA]
  ev [applyAux_sT, shiftFV_sT]
  exact AppCont.neu (isAbs_sT_var _ _)
  ev

/-- `SUCCⁿ x` for a variable `x` under APP -/
theorem succN_iter (i n : Nat) : EvalApp (iterApp succN (var (i + 1)) n) (sT (var (i + 1)) n) :=
  app_iterApp (sT (var (i + 1))) (EvalApp.var _) (succN_step i) n

/-- what `SUCC n` contracts to -/
theorem succ_core_app (n : Nat) :
    EvalApp (app2 (intoStumpFu n) (sA (intoStumpFu n)) (intoStumpFu 1)) (intoStumpFu (n + 1)) := by
  rw [sA_closed (closed_intoStumpFu n)]
  cases n with
  | zero => ev
  | succ n => rw [intoStumpFu_succ' (n + 1)]; ev

/-- after the substitution of a numeral for the variable the spine is evaluated from the inside -/
theorem sT_eval (j k : Nat) : EvalApp (sT (intoStumpFu j) k) (intoStumpFu (k + j)) := by
  induction k with
  | zero => rw [Nat.zero_add]; exact EvalApp.of_isNormal (isNormal_intoStumpFu j)
  | succ k ih =>
    rw [show k + 1 + j = k + j + 1 by omega]
    refine app2_congr ih ?_ (succ_core_app (k + j))
    have e : shiftFV 4 0 (sT (intoStumpFu j) k) = sT (intoStumpFu j) k := by rw [shiftFV_sT]; simp [lc_simp]
    rw [sA_closed (closed_intoStumpFu _)]
    simp only [sA, e]
    ev

end EagerSF

theorem church_to_stumpfu_app (n : Nat) : EvalApp (app Gen.Church.to_stumpfu (intoChurch n)) (intoStumpFu n) := by
  ev
  exact succN_iter 0 n
  ev [applyAux_sT]
  exact sT_eval 0 n

theorem stumpfu_add_app (m n : Nat) :
    EvalApp (app2 Gen.StumpFu.add (intoStumpFu m) (intoStumpFu n)) (intoStumpFu (m + n)) := by
  cases m with
  | zero => rw [Nat.zero_add]; ev
  | succ m =>
    have h := sT_eval n (m + 1)
    ev
    exact succN_iter 0 (m + 1)
    ev [applyAux_sT, shiftFV_sT]

namespace EagerSF

/-! ## APP: iterated Scott successor on an arbitrary term -/

/-- the APP-normal form of `SCOTT_SUCCᵏ x`: `λxy. y (λxy. y (… x))` -/
def scT (x : Term) : Nat → Term
  | 0 => x
  | k + 1 => abs (abs (app (var 1) (shiftFV 2 0 (scT x k))))

theorem shiftFV_scT (a o : Nat) (x : Term) (k : Nat) : shiftFV a o (scT x k) = scT (shiftFV a o x) k := by
  induction k with
  | zero => rfl
  | succ k ih =>
    have e := shiftFV_comm 2 a 0 o (Nat.zero_le _) (scT x k)
    simp only [scT, shiftFV, ih] at e ⊢
    simp [lc_simp, ← e]

theorem applyAux_scT (r : Term) (d : Nat) (hd : 1 ≤ d) (x : Term) (k : Nat) :
    applyAux r d (scT x k) = scT (applyAux r d x) k := by
  induction k with
  | zero => rfl
  | succ k ih =>
    have e := shiftFV_applyAux_lt 2 0 d hd (by omega) r (scT x k)
    have h1 : ¬ d = 0 := by omega
    simp only [scT, applyAux, ih] at e ⊢
    simp [lc_simp, ← e, hd, h1]

theorem isNormal_scT (x : Term) (hx : isNormal x = true) (k : Nat) : isNormal (scT x k) = true := by
  induction k with
  | zero => exact hx
  | succ k ih => simp [scT, isNormal, ih, isNormal_shiftFV]; rfl

@[simp] theorem isNormal_scT_var (i k : Nat) : isNormal (scT (var i) k) = true := isNormal_scT _ rfl k

theorem scT_scott (j k : Nat) : scT (intoScott j) k = intoScott (k + j) := by
  induction k with
  | zero => rw [Nat.zero_add]; rfl
  | succ k ih =>
    rw [show k + 1 + j = k + j + 1 by omega]
    simp [scT, ih, intoScott, lc_simp]

theorem scott_succ_step (i k : Nat) : EvalApp (app Gen.Scott.succ (scT (var (i + 1)) k)) (scT (var (i + 1)) (k + 1)) := by
  simp only [scT]
  ev [shiftFV_scT]

theorem scott_succ_iter (i n : Nat) : EvalApp (iterApp Gen.Scott.succ (var (i + 1)) n) (scT (var (i + 1)) n) :=
  app_iterApp (scT (var (i + 1))) (EvalApp.var _) (scott_succ_step i) n

end EagerSF

theorem stumpfu_to_scott_app (n : Nat) : EvalApp (app Gen.StumpFu.to_scott (intoStumpFu n)) (intoScott n) := by
  cases n with
  | zero => ev
  | succ n =>
    have h : EvalApp (scT (abs (abs (var 2))) (n + 1)) (intoScott (n + 1)) := by
      have := scT_scott 0 (n + 1)
      rw [show intoScott 0 = abs (abs (var 2)) from rfl] at this
      rw [this]; exact EvalApp.of_isNormal (isNormal_intoScott _)
    ev
    exact scott_succ_iter 0 (n + 1)
    ev [applyAux_scT]

namespace EagerSF

/-! ## APP: iterated Parigot successor on an arbitrary term -/

/-- instantiating the two outermost variables by themselves undoes the shift over them -/
theorem self_inst (e : Nat) (t : Term) :
    applyAux (var 1) (1 + e) (applyAux (var 2) (2 + e) (shiftFV 2 (2 + e) t)) = t := by
  induction t generalizing e with
  | var i => grind [shiftFV, applyAux]
  | abs b ih =>
    simp only [shiftFV, applyAux]
    rw [show 2 + e + 1 = 2 + (e + 1) by omega, show 1 + e + 1 = 1 + (e + 1) by omega, ih]
  | app l r ihl ihr => simp only [shiftFV, applyAux, ihl, ihr]

theorem isAbs_applyAux_var (j d : Nat) (t : Term) : isAbs (applyAux (var j) d t) = isAbs t := by
  cases t with
  | var i => simp only [applyAux, shiftFV]; split <;> (try split) <;> (try split) <;> rfl
  | abs b => rfl
  | app l r => rfl

/-- substituting a variable for a variable preserves normal forms -/
theorem isNormal_applyAux_var (j d : Nat) (t : Term) : isNormal (applyAux (var j) d t) = isNormal t := by
  induction t generalizing d with
  | var i => simp only [applyAux, shiftFV]; split <;> (try split) <;> (try split) <;> rfl
  | abs b ih => simp [applyAux, isNormal, ih]
  | app l r ihl ihr => simp [applyAux, isNormal, ihl, ihr, isAbs_applyAux_var]

/-- body (under `λf y`) of the APP-normal form of `PARIGOT_SUCCᵏ x` -/
def pR (x : Term) : Nat → Term
  | 0 => app2 (shiftFV 2 0 x) (var 2) (var 1)
  | k + 1 => app2 (var 2) (shiftFV 2 0 (match k with | 0 => x | _ + 1 => abs (abs (pR x k)))) (pR x k)

/-- the APP-normal form of `PARIGOT_SUCCᵏ x` (`x` neutral) -/
def pT (x : Term) : Nat → Term
  | 0 => x
  | k + 1 => abs (abs (pR x (k + 1)))

theorem pR_succ (x : Term) (k : Nat) : pR x (k + 1) = app2 (var 2) (shiftFV 2 0 (pT x k)) (pR x k) := by
  cases k <;> rfl

theorem shiftFV_pTR (a : Nat) (x : Term) (k : Nat) : ∀ o,
    shiftFV a o (pT x k) = pT (shiftFV a o x) k ∧ shiftFV a (o + 2) (pR x k) = pR (shiftFV a o x) k := by
  induction k with
  | zero =>
    intro o
    have e := shiftFV_comm 2 a 0 o (Nat.zero_le _) x
    refine ⟨rfl, ?_⟩
    simp [pR, shiftFV, e]
    omega
  | succ k ih =>
    intro o
    have h : shiftFV a (o + 2) (pR x (k + 1)) = pR (shiftFV a o x) (k + 1) := by
      have e := shiftFV_comm 2 a 0 o (Nat.zero_le _) (pT x k)
      rw [pR_succ, pR_succ]
      simp [shiftFV, (ih o).2, ← (ih o).1, e]
      omega
    exact ⟨by simp only [pT, shiftFV, h], h⟩

theorem applyAux_pTR (r : Term) (x : Term) (k : Nat) : ∀ d, 1 ≤ d →
    applyAux r d (pT x k) = pT (applyAux r d x) k ∧ applyAux r (d + 2) (pR x k) = pR (applyAux r d x) k := by
  induction k with
  | zero =>
    intro d hd
    have e := shiftFV_applyAux_lt 2 0 d hd (by omega) r x
    have h1 : ¬ (2 = d + 2) := by omega
    have h2 : ¬ (2 > d + 2) := by omega
    have h3 : ¬ (1 = d + 2) := by omega
    have h4 : ¬ (1 > d + 2) := by omega
    refine ⟨rfl, ?_⟩
    simp [pR, applyAux, e, h1, h2, h3, h4]
    omega
  | succ k ih =>
    intro d hd
    have h : applyAux r (d + 2) (pR x (k + 1)) = pR (applyAux r d x) (k + 1) := by
      have e := shiftFV_applyAux_lt 2 0 d hd (by omega) r (pT x k)
      have h1 : ¬ (2 = d + 2) := by omega
      have h2 : ¬ (2 > d + 2) := by omega
      rw [pR_succ, pR_succ]
      simp [applyAux, (ih d hd).2, ← (ih d hd).1, e, h1, h2]
      omega
    exact ⟨by simp only [pT, applyAux, h], h⟩

theorem shiftFV_pT (a o : Nat) (x : Term) (k : Nat) : shiftFV a o (pT x k) = pT (shiftFV a o x) k :=
  (shiftFV_pTR a x k o).1
theorem applyAux_pT (r : Term) (d : Nat) (hd : 1 ≤ d) (x : Term) (k : Nat) :
    applyAux r d (pT x k) = pT (applyAux r d x) k := (applyAux_pTR r x k d hd).1

theorem isNormal_pTR (i k : Nat) : isNormal (pT (var i) k) = true ∧ isNormal (pR (var i) k) = true := by
  induction k with
  | zero => exact ⟨rfl, by simp only [pR, shiftFV]; split <;> rfl⟩
  | succ k ih =>
    have h : isNormal (pR (var i) (k + 1)) = true := by
      rw [pR_succ]; simp [isNormal, isNormal_shiftFV, ih.1, ih.2]; exact ⟨rfl, rfl⟩
    exact ⟨by simpa [pT, isNormal] using h, h⟩

@[simp] theorem isNormal_pT_var (i k : Nat) : isNormal (pT (var i) k) = true := (isNormal_pTR i k).1
@[simp] theorem isNormal_pR_var (i k : Nat) : isNormal (pR (var i) k) = true := (isNormal_pTR i k).2

/-- `(λf y. R) f y` gives `R` back -/
theorem pR_self_inst (x : Term) (k : Nat) :
    applyAux (var 1) 1 (applyAux (var 2) 2 (pR (shiftFV 2 0 x) k)) = pR x k := by
  rw [← (shiftFV_pTR 2 x k 0).2]
  exact self_inst 0 _

/-- `PARIGOT_SUCC t` for a normal `t`, given the normal form `b` of `t f y` -/
theorem parigot_succ_gen {t b : Term} (ht : isNormal t = true)
    (hb : EvalApp (app2 (shiftFV 2 0 t) (var 2) (var 1)) b) :
    EvalApp (app Gen.Parigot.succ t) (abs (abs (app2 (var 2) (shiftFV 2 0 t) b))) := by
  have ht' : isNormal (shiftFV 2 0 t) = true := by rw [isNormal_shiftFV]; exact ht
  ev

theorem pT_body (i k : Nat) :
    EvalApp (app2 (shiftFV 2 0 (pT (var (i + 1)) k)) (var 2) (var 1)) (pR (var (i + 1)) k) := by
  cases k with
  | zero => simp only [pT, pR, shiftFV]; ev
  | succ k =>
    have e0 : shiftFV 2 0 (pT (var (i + 1)) (k + 1)) = abs (abs (pR (var (i + 1 + 2)) (k + 1))) := by
      rw [shiftFV_pT]; rfl
    have e2 : applyAux (var 1) 1 (applyAux (var 2) 2 (pR (var (i + 1 + 2)) (k + 1))) = pR (var (i + 1)) (k + 1) :=
      pR_self_inst (var (i + 1)) (k + 1)
    have hn := isNormal_pR_var (i + 1) (k + 1)
    have hn2 := isNormal_pR_var (i + 1 + 2) (k + 1)
    rw [e0]
    generalize pR (var (i + 1)) (k + 1) = R at *
    generalize pR (var (i + 1 + 2)) (k + 1) = R' at *
    have hn3 : isNormal (applyAux (var 2) 2 R') = true := by rw [isNormal_applyAux_var]; exact hn2
    ev [e2]

theorem parigot_succ_step (i k : Nat) :
    EvalApp (app Gen.Parigot.succ (pT (var (i + 1)) k)) (pT (var (i + 1)) (k + 1)) := by
  rw [pT, pR_succ]
  exact parigot_succ_gen (isNormal_pT_var _ _) (pT_body i k)

theorem parigot_succ_iter (i n : Nat) :
    EvalApp (iterApp Gen.Parigot.succ (var (i + 1)) n) (pT (var (i + 1)) n) :=
  app_iterApp (pT (var (i + 1))) (EvalApp.var _) (parigot_succ_step i) n

/-- after the substitution of `PARIGOT_ZERO` the innermost `ZERO f y` is contracted -/
theorem pTR_eval (k : Nat) : EvalApp (pT (intoParigot 0) k) (intoParigot k) ∧
    EvalApp (pR (intoParigot 0) k) (parigotBody k) := by
  induction k with
  | zero => exact ⟨EvalApp.of_isNormal rfl, by simp only [pR, intoParigot, shiftFV, parigotBody]; ev⟩
  | succ k ih =>
    have h : EvalApp (pR (intoParigot 0) (k + 1)) (parigotBody (k + 1)) := by
      obtain ⟨h1, h2⟩ := ih
      have e : shiftFV 2 0 (pT (intoParigot 0) k) = pT (intoParigot 0) k := by rw [shiftFV_pT]; rfl
      rw [pR_succ, parigotBody_succ, e]
      generalize pT (intoParigot 0) k = T at *
      generalize pR (intoParigot 0) k = R at *
      ev
    refine ⟨?_, h⟩
    rw [intoParigot_eq (k + 1)]
    exact EvalApp.abs (EvalApp.abs h)

end EagerSF

theorem stumpfu_to_parigot_app (n : Nat) : EvalApp (app Gen.StumpFu.to_parigot (intoStumpFu n)) (intoParigot n) := by
  cases n with
  | zero => ev
  | succ n =>
    have h : EvalApp (pT (abs (abs (var 1))) (n + 1)) (intoParigot (n + 1)) := (pTR_eval (n + 1)).1
    ev
    exact parigot_succ_iter 0 (n + 1)
    ev [applyAux_pT]

namespace EagerSF

/-! ## APP: multiplication -/

theorem closed_succN : Closed succN := by decide

/-- the step function `λcp. c SUCC x` of `ADD`, APP-normalised, for `x := t` -/
def aC (t : Term) : Term := abs (abs (app2 (var 2) succN (shiftFV 2 0 t)))

/-- what `ADD n X` contracts to, for a closed `X` with value `x` -/
theorem add_core_app (n x : Nat) {X : Term} (hc : Closed X) (hX : EvalApp X (intoStumpFu x)) :
    EvalApp (app2 (intoStumpFu n) (aC X) X) (intoStumpFu (n + x)) := by
  have hs := closed_succN
  have e : shiftFV 2 0 X = X := shiftFV_of_closed hc _ _
  simp only [aC, e]
  cases n with
  | zero => rw [Nat.zero_add]; ev
  | succ n =>
    have h2 := sT_eval x (n + 1)
    ev [hc]
    exact succN_iter 0 (n + 1)
    ev [hc, applyAux_sT]

/-- `(λx. ADD m x)ᵏ x` after the outer contractions (`m` a variable or a numeral) -/
def mT (m x : Term) : Nat → Term
  | 0 => x
  | k + 1 => app2 m (aC (mT m x k)) (mT m x k)

/-- `λx. ADD m x`, APP-normalised (`m` a variable) -/
def gN (m : Term) : Term := abs (app2 (shiftFV 1 0 m) (aC (var 1)) (var 1))

theorem shiftFV_mT (a o : Nat) (m x : Term) (k : Nat) :
    shiftFV a o (mT m x k) = mT (shiftFV a o m) (shiftFV a o x) k := by
  induction k with
  | zero => rfl
  | succ k ih =>
    have e := shiftFV_comm 2 a 0 o (Nat.zero_le _) (mT m x k)
    have hs := closed_succN
    simp only [mT, aC, shiftFV, ih] at e ⊢
    simp [lc_simp, ← e, hs]
    omega

theorem applyAux_mT (r : Term) (d : Nat) (hd : 1 ≤ d) (m x : Term) (k : Nat) :
    applyAux r d (mT m x k) = mT (applyAux r d m) (applyAux r d x) k := by
  induction k with
  | zero => rfl
  | succ k ih =>
    have e := shiftFV_applyAux_lt 2 0 d hd (by omega) r (mT m x k)
    have h1 : ¬ d = 0 := by omega
    have hs := closed_succN
    simp only [mT, aC, applyAux, ih] at e ⊢
    simp [lc_simp, ← e, hd, h1, hs]

theorem isAbs_mT_var (i : Nat) (x : Term) (k : Nat) : isAbs (mT (var i) x (k + 1)) = false := rfl

theorem isNormal_mT_var (i : Nat) (x : Term) (hx : isNormal x = true) (k : Nat) :
    isNormal (mT (var i) x k) = true := by
  induction k with
  | zero => exact hx
  | succ k ih =>
    have hs : isNormal succN = true := by decide
    simp [mT, aC, isNormal, ih, isNormal_shiftFV, hs]
    exact ⟨rfl, rfl, rfl, rfl⟩

theorem gN_step (i j k : Nat) :
    EvalApp (app (gN (var (i + 1))) (mT (var (i + 1)) (var (j + 1)) k)) (mT (var (i + 1)) (var (j + 1)) (k + 1)) := by
  have hn := isNormal_mT_var (i + 1) (var (j + 1)) rfl k
  have hn' : isNormal (shiftFV 2 0 (mT (var (i + 1)) (var (j + 1)) k)) = true := by rw [isNormal_shiftFV]; exact hn
  have hs : isNormal succN = true := by decide
  have hc := closed_succN
  simp only [gN, mT, aC, shiftFV]
  generalize mT (var (i + 1)) (var (j + 1)) k = T at *
  ev [hc]

theorem gN_iter (i j n : Nat) :
    EvalApp (iterApp (gN (var (i + 1))) (var (j + 1)) n) (mT (var (i + 1)) (var (j + 1)) n) :=
  app_iterApp (mT (var (i + 1)) (var (j + 1))) (EvalApp.var _) (gN_step i j) n

theorem closed_mT {m x : Term} (hm : Closed m) (hx : Closed x) (k : Nat) : Closed (mT m x k) := by
  induction k with
  | zero => exact hx
  | succ k ih =>
    have hs := closed_succN
    have e : shiftFV 2 0 (mT m x k) = mT m x k := shiftFV_of_closed ih _ _
    simp [mT, aC, e, lc_simp, hm, hs, ih]

/-- after the substitution of numerals the spine of additions is evaluated from the inside -/
theorem mT_eval (n k : Nat) : EvalApp (mT (intoStumpFu n) (intoStumpFu 0) k) (intoStumpFu (k * n)) := by
  induction k with
  | zero => rw [Nat.zero_mul]; exact EvalApp.of_isNormal rfl
  | succ k ih =>
    rw [show (k + 1) * n = n + k * n by rw [Nat.succ_mul]; omega]
    exact add_core_app n (k * n) (closed_mT (closed_intoStumpFu n) (closed_intoStumpFu 0) k) ih

end EagerSF

theorem stumpfu_mul_app (m n : Nat) :
    EvalApp (app2 Gen.StumpFu.mul (intoStumpFu m) (intoStumpFu n)) (intoStumpFu (m * n)) := by
  cases m with
  | zero => rw [Nat.zero_mul]; ev
  | succ m =>
    have h := mT_eval n (m + 1)
    have hN : ∀ i, isNormal (mT (var i) (abs (abs (var 1))) (m + 1)) = true := fun i => isNormal_mT_var i _ rfl _
    ev
    exact gN_iter 3 0 (m + 1)
    ev [applyAux_mT, shiftFV_mT]

/-! ## the unbounded termination statements about the model reducer -/

theorem stumpfu_succ_reduce_hap (n : Nat) :
    ∃ fuel c, reduce .HAP 0 fuel (app Gen.StumpFu.succ (intoStumpFu n)) = some (intoStumpFu (n + 1), c) :=
  (stumpfu_succ_hap n).reduce
theorem stumpfu_succ_reduce_app (n : Nat) :
    ∃ fuel c, reduce .APP 0 fuel (app Gen.StumpFu.succ (intoStumpFu n)) = some (intoStumpFu (n + 1), c) :=
  (stumpfu_succ_app n).reduce
theorem stumpfu_pred_reduce_hap (n : Nat) :
    ∃ fuel c, reduce .HAP 0 fuel (app Gen.StumpFu.pred (intoStumpFu n)) = some (intoStumpFu (n - 1), c) :=
  (stumpfu_pred_hap n).reduce
theorem stumpfu_pred_reduce_app (n : Nat) :
    ∃ fuel c, reduce .APP 0 fuel (app Gen.StumpFu.pred (intoStumpFu n)) = some (intoStumpFu (n - 1), c) :=
  (stumpfu_pred_app n).reduce
theorem stumpfu_is_zero_reduce_hap (n : Nat) :
    ∃ fuel c, reduce .HAP 0 fuel (app Gen.StumpFu.is_zero (intoStumpFu n)) = some (fromBool (n == 0), c) :=
  (stumpfu_is_zero_hap n).reduce
theorem stumpfu_is_zero_reduce_app (n : Nat) :
    ∃ fuel c, reduce .APP 0 fuel (app Gen.StumpFu.is_zero (intoStumpFu n)) = some (fromBool (n == 0), c) :=
  (stumpfu_is_zero_app n).reduce
theorem stumpfu_to_church_reduce_hap (n : Nat) :
    ∃ fuel c, reduce .HAP 0 fuel (app Gen.StumpFu.to_church (intoStumpFu n)) = some (intoChurch n, c) :=
  (stumpfu_to_church_hap n).reduce
theorem stumpfu_to_church_reduce_app (n : Nat) :
    ∃ fuel c, reduce .APP 0 fuel (app Gen.StumpFu.to_church (intoStumpFu n)) = some (intoChurch n, c) :=
  (stumpfu_to_church_app n).reduce
theorem stumpfu_to_scott_reduce_hap (n : Nat) :
    ∃ fuel c, reduce .HAP 0 fuel (app Gen.StumpFu.to_scott (intoStumpFu n)) = some (intoScott n, c) :=
  (stumpfu_to_scott_hap n).reduce
theorem stumpfu_to_scott_reduce_app (n : Nat) :
    ∃ fuel c, reduce .APP 0 fuel (app Gen.StumpFu.to_scott (intoStumpFu n)) = some (intoScott n, c) :=
  (stumpfu_to_scott_app n).reduce
theorem stumpfu_to_parigot_reduce_hap (n : Nat) :
    ∃ fuel c, reduce .HAP 0 fuel (app Gen.StumpFu.to_parigot (intoStumpFu n)) = some (intoParigot n, c) :=
  (stumpfu_to_parigot_hap n).reduce
theorem stumpfu_to_parigot_reduce_app (n : Nat) :
    ∃ fuel c, reduce .APP 0 fuel (app Gen.StumpFu.to_parigot (intoStumpFu n)) = some (intoParigot n, c) :=
  (stumpfu_to_parigot_app n).reduce
theorem church_to_stumpfu_reduce_hap (n : Nat) :
    ∃ fuel c, reduce .HAP 0 fuel (app Gen.Church.to_stumpfu (intoChurch n)) = some (intoStumpFu n, c) :=
  (church_to_stumpfu_hap n).reduce
theorem church_to_stumpfu_reduce_app (n : Nat) :
    ∃ fuel c, reduce .APP 0 fuel (app Gen.Church.to_stumpfu (intoChurch n)) = some (intoStumpFu n, c) :=
  (church_to_stumpfu_app n).reduce
theorem stumpfu_add_reduce_hap (m n : Nat) :
    ∃ fuel c, reduce .HAP 0 fuel (app2 Gen.StumpFu.add (intoStumpFu m) (intoStumpFu n)) =
      some (intoStumpFu (m + n), c) :=
  (stumpfu_add_hap m n).reduce
theorem stumpfu_add_reduce_app (m n : Nat) :
    ∃ fuel c, reduce .APP 0 fuel (app2 Gen.StumpFu.add (intoStumpFu m) (intoStumpFu n)) =
      some (intoStumpFu (m + n), c) :=
  (stumpfu_add_app m n).reduce
theorem stumpfu_mul_reduce_hap (m n : Nat) :
    ∃ fuel c, reduce .HAP 0 fuel (app2 Gen.StumpFu.mul (intoStumpFu m) (intoStumpFu n)) =
      some (intoStumpFu (m * n), c) :=
  (stumpfu_mul_hap m n).reduce
theorem stumpfu_mul_reduce_app (m n : Nat) :
    ∃ fuel c, reduce .APP 0 fuel (app2 Gen.StumpFu.mul (intoStumpFu m) (intoStumpFu n)) =
      some (intoStumpFu (m * n), c) :=
  (stumpfu_mul_app m n).reduce

end LC
