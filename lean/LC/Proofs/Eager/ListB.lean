/-
Eager evaluation (order HAP) of the pair-list library of `/repo/src/data/list/pair.rs` on lists of Church numerals:
higher-order functions with the concrete function arguments of property C16's grid, `take`/`drop`/`replicate`/`list`.
Big-step derivations (`LC/Proofs/Eager/BigStep.lean`), for ALL lists / numbers.  Helpers in `LC.EagerListB`.
-/
import LC.Proofs.Eager.ChurchCbv
import LC.Props.C16Base

namespace LC
open Term Spec Enc RL Eager C16

set_option linter.unusedSimpArgs false
set_option linter.unusedVariables false
attribute [local irreducible] iterApp

namespace EagerListB

/-! ## 0. generic facts -/

/-- `Z F` evaluates (CBV) to the value of `ZF F` -/
theorem cbv_Z {F q : Term} (hF : Closed F) (wF : isWNF F = true) (hq : EvalCbv (ZF F) q) :
    EvalCbv (app Gen.Comb.Z F) q := by
  refine EvalCbv.appRed (EvalCbv.abs _) (EvalCbv.of_isWNF wF) ?_
  lc_simp
  exact hq

/-- a recursive call through the stub, HAP, binary functional, last argument still to be evaluated -/
theorem hap_stub2' {F q X v Y y R : Term} (hF : Closed F) (hq : EvalCbv (ZF F) q) (hX : EvalCbv X v)
    (hY : EvalHap Y y) (h : EvalHap (app2 q v y) R) : EvalHap (app2 (stub F) X Y) R :=
  EvalHap.app_arg hY (hap_stub2 hF hq hX h)

theorem cbv_app2_fn {f g a b r : Term} (hf : EvalCbv f g) (h : EvalCbv (app2 g a b) r) :
    EvalCbv (app2 f a b) r := by
  cases h with
  | appRed hl hr hn => exact EvalCbv.appRed (EvalCbv.app_fn hf hl) hr hn
  | appNeu hl hna hr => exact EvalCbv.appNeu (EvalCbv.app_fn hf hl) hna hr

theorem hap_app3_fn {f g a b c r : Term} (hf : EvalCbv f g) (h : EvalHap (app3 g a b c) r) :
    EvalHap (app3 f a b c) r := by
  cases h with
  | appRed hl hr hn => exact EvalHap.appRed (cbv_app2_fn hf hl) hr hn
  | appNeu hl hna hr hl' => exact EvalHap.appNeu (cbv_app2_fn hf hl) hna hr hl'

/-! ## 1. observers on lists of numerals (CBV and HAP agree: all components are values) -/

@[simp] theorem isWNF_pairList (ts : List Term) : isWNF (pairList ts) = true := by cases ts <;> rfl
@[simp] theorem isAbs_pairList (ts : List Term) : isAbs (pairList ts) = true := by cases ts <;> rfl

theorem cl_cons (n : Nat) (ns : List Nat) : cl (n :: ns) = abs (app2 (var 1) (intoChurch n) (cl ns)) := rfl
theorem cl_nil : cl [] = abs (abs (var 1)) := rfl

theorem cbv_is_nil_nil : EvalCbv (app Gen.PList.is_nil (cl [])) Gen.Bool.tru := by ev
theorem cbv_is_nil_cons (n : Nat) (ns : List Nat) :
    EvalCbv (app Gen.PList.is_nil (cl (n :: ns))) Gen.Bool.fls := by
  have hc := closed_cl ns
  have hn := normal_cl ns
  rw [cl_cons]
  ev [hc]

theorem cbv_head_cons (n : Nat) (ns : List Nat) :
    EvalCbv (app Gen.PList.head (cl (n :: ns))) (intoChurch n) := by
  have hc := closed_cl ns
  rw [cl_cons]
  ev [hc]

theorem cbv_tail_cons (n : Nat) (ns : List Nat) :
    EvalCbv (app Gen.PList.tail (cl (n :: ns))) (cl ns) := by
  have hc := closed_cl ns
  rw [cl_cons]
  ev [hc]

theorem hap_tail_cons (n : Nat) (ns : List Nat) :
    EvalHap (app Gen.PList.tail (cl (n :: ns))) (cl ns) := by
  have hc := closed_cl ns
  have hn := normal_cl ns
  rw [cl_cons]
  ev [hc]

theorem hap_head_cons (n : Nat) (ns : List Nat) :
    EvalHap (app Gen.PList.head (cl (n :: ns))) (intoChurch n) := by
  have hc := closed_cl ns
  have hn := normal_cl ns
  rw [cl_cons]
  ev [hc]

/-! ## 2. TAKE ≡ Z (λznl.IS_NIL l (λx.NIL) (λx.IS_ZERO n NIL (CONS (HEAD l) (z (PRED n) (TAIL l)))) I)

Under HAP both branches of `IS_ZERO n NIL (CONS …)` are evaluated: the recursion always runs to the end of the list. -/

def takeF : Term := appArg Gen.PList.take
theorem take_eq : Gen.PList.take = app Gen.Comb.Z takeF := by decide
theorem closed_takeF : Closed takeF := by decide

theorem take_core : ∃ q, EvalCbv (ZF takeF) q ∧
    ∀ (ns : List Nat) (v : Term) (j : Nat), CNum v j → EvalHap (app2 q v (cl ns)) (cl (ns.take j)) := by
  apply Exists.intro
  apply And.intro
  · simp only [ZF, ZW]; ev
  · intro ns
    induction ns with
    | nil =>
      intro v j hv
      have wv := hv.1
      have cv := hv.2.1
      have h1 := cbv_is_nil_nil
      rw [List.take_nil]
      ev [cv]
    | cons n ns ih =>
      intro v j hv
      have wv := hv.1
      have cv := hv.2.1
      have hcl := closed_cl (n :: ns)
      have hnl := normal_cl (n :: ns)
      have h1 := cbv_is_nil_cons n ns
      have h2 := cbv_head_cons n ns
      have h3 := hap_tail_cons n ns
      have hz := church_is_zero_cbv hv
      have hp := cbv_pred_cnum hv
      have ih' := ih _ (j - 1) hp.2
      have hrec := hap_stub2' closed_takeF (by simp only [ZF, ZW]; ev) hp.1 h3 ih'
      generalize hL : cl (n :: ns) = L at *
      cases j with
      | zero =>
        simp only [List.take_zero, beq_self_eq_true] at hz ⊢
        ev [cv, hcl]
      | succ j =>
        have hct := closed_cl (ns.take j)
        have hnt := normal_cl (ns.take j)
        simp only [Nat.add_sub_cancel] at ih' hrec
        rw [show (j + 1 == 0) = false from rfl] at hz
        rw [List.take_succ_cons, cl_cons]
        ev [cv, hcl, hct]

/-! ## 3. DROP ≡ Z (λznl.IS_NIL l (λx.NIL) (λx.IS_ZERO n l (z (PRED n) (TAIL l))) I) -/

def dropF : Term := appArg Gen.PList.drop
theorem drop_eq : Gen.PList.drop = app Gen.Comb.Z dropF := by decide
theorem closed_dropF : Closed dropF := by decide

theorem drop_core : ∃ q, EvalCbv (ZF dropF) q ∧
    ∀ (ns : List Nat) (v : Term) (j : Nat), CNum v j → EvalHap (app2 q v (cl ns)) (cl (ns.drop j)) := by
  apply Exists.intro
  apply And.intro
  · simp only [ZF, ZW]; ev
  · intro ns
    induction ns with
    | nil =>
      intro v j hv
      have wv := hv.1
      have cv := hv.2.1
      have h1 := cbv_is_nil_nil
      rw [List.drop_nil]
      ev [cv]
    | cons n ns ih =>
      intro v j hv
      have wv := hv.1
      have cv := hv.2.1
      have hcl := closed_cl (n :: ns)
      have hnl := normal_cl (n :: ns)
      have h1 := cbv_is_nil_cons n ns
      have h3 := hap_tail_cons n ns
      have hz := church_is_zero_cbv hv
      have hp := cbv_pred_cnum hv
      have ih' := ih _ (j - 1) hp.2
      have hnr := ih'.isNormal
      have hwl : isWNF (cl (n :: ns)) = true := isWNF_pairList _
      have hrec := hap_stub2' closed_dropF (by simp only [ZF, ZW]; ev) hp.1 h3 ih'
      cases j with
      | zero =>
        simp only [List.drop_zero, beq_self_eq_true] at hz ⊢
        generalize hL : cl (n :: ns) = L at *
        ev [cv, hcl]
      | succ j =>
        simp only [Nat.add_sub_cancel] at ih' hrec hnr
        rw [show (j + 1 == 0) = false from rfl] at hz
        rw [List.drop_succ_cons]
        generalize hL : cl (n :: ns) = L at *
        ev [cv, hcl]

/-! ## 4. REPLICATE ≡ Z (λzny.IS_ZERO n (λx.NIL) (λx.PAIR y (z (PRED n) y)) I) -/

def replicateF : Term := appArg Gen.PList.replicate
theorem replicate_eq : Gen.PList.replicate = app Gen.Comb.Z replicateF := by decide
theorem closed_replicateF : Closed replicateF := by decide

theorem replicate_core (y : Nat) : ∃ q, EvalCbv (ZF replicateF) q ∧
    ∀ (j : Nat) (v : Term), CNum v j → EvalHap (app2 q v (intoChurch y)) (cl (List.replicate j y)) := by
  apply Exists.intro
  apply And.intro
  · simp only [ZF, ZW]; ev
  · intro j
    induction j with
    | zero =>
      intro v hv
      have wv := hv.1
      have cv := hv.2.1
      have hz := church_is_zero_cbv hv
      simp only [List.replicate_zero, beq_self_eq_true] at hz ⊢
      ev [cv]
    | succ j ih =>
      intro v hv
      have wv := hv.1
      have cv := hv.2.1
      have hz := church_is_zero_cbv hv
      have hp := cbv_pred_cnum hv
      have ih' := ih _ hp.2
      have hrec := hap_stub2 closed_replicateF (by simp only [ZF, ZW]; ev) hp.1 ih'
      have hct := closed_cl (List.replicate j y)
      have hnt := normal_cl (List.replicate j y)
      rw [show (j + 1 == 0) = false from rfl] at hz
      rw [List.replicate_succ, cl_cons]
      ev [cv, hct]

/-! ## 5. MAP ≡ Z (λzfl.IS_NIL l (λx.NIL) (λx.CONS (f (HEAD l)) (z f (TAIL l))) I)  with `f = SUCC`

`SUCC h` is evaluated by CBV to the closure `λfx. f (h f x)`; it is normalised when the result list is normalised. -/

def mapF : Term := appArg Gen.PList.map
theorem map_eq : Gen.PList.map = app Gen.Comb.Z mapF := by decide
theorem closed_mapF : Closed mapF := by decide

theorem map_succ_core : ∃ q, EvalCbv (ZF mapF) q ∧
    ∀ (ns : List Nat), EvalHap (app2 q Gen.Church.succ (cl ns)) (cl (ns.map (· + 1))) := by
  apply Exists.intro
  apply And.intro
  · simp only [ZF, ZW]; ev
  · intro ns
    induction ns with
    | nil =>
      have h1 := cbv_is_nil_nil
      rw [List.map_nil]
      ev
    | cons n ns ih =>
      have hcl := closed_cl (n :: ns)
      have hnl := normal_cl (n :: ns)
      have h1 := cbv_is_nil_cons n ns
      have h2 := cbv_head_cons n ns
      have h3 := hap_tail_cons n ns
      have hrec := hap_stub2' closed_mapF (by simp only [ZF, ZW]; ev)
        (EvalCbv.of_isWNF (t := Gen.Church.succ) rfl) h3 ih
      have hct := closed_cl (ns.map (· + 1))
      have hnt := normal_cl (ns.map (· + 1))
      generalize hL : cl (n :: ns) = L at *
      rw [List.map_cons, cl_cons, intoChurch_eq (n + 1), iterApp_succ]
      ev [hcl, hct]

/-! ## 6. FILTER ≡ Z (λzpl.IS_NIL l (λx.NIL) (λx.p (HEAD l) (CONS (HEAD l)) I (z p (TAIL l))) I)  with `p = IS_ZERO` -/

def filterF : Term := appArg Gen.PList.filter
theorem filter_eq : Gen.PList.filter = app Gen.Comb.Z filterF := by decide
theorem closed_filterF : Closed filterF := by decide

theorem cbv_is_zero_head (n : Nat) (ns : List Nat) :
    EvalCbv (app Gen.Church.is_zero (app Gen.PList.head (cl (n :: ns)))) (fromBool (n == 0)) :=
  EvalCbv.app_arg (cbv_head_cons n ns) (church_is_zero_cbv (cnum_intoChurch n))

theorem filter_is_zero_core : ∃ q, EvalCbv (ZF filterF) q ∧
    ∀ (ns : List Nat), EvalHap (app2 q Gen.Church.is_zero (cl ns)) (cl (ns.filter (· == 0))) := by
  apply Exists.intro
  apply And.intro
  · simp only [ZF, ZW]; ev
  · intro ns
    induction ns with
    | nil =>
      have h1 := cbv_is_nil_nil
      rw [List.filter_nil]
      ev
    | cons n ns ih =>
      have hcl := closed_cl (n :: ns)
      have hnl := normal_cl (n :: ns)
      have h1 := cbv_is_nil_cons n ns
      have h2 := cbv_head_cons n ns
      have h3 := hap_tail_cons n ns
      have hz := cbv_is_zero_head n ns
      have hrec := hap_stub2' closed_filterF (by simp only [ZF, ZW]; ev)
        (EvalCbv.of_isWNF (t := Gen.Church.is_zero) rfl) h3 ih
      have hct := closed_cl (ns.filter (· == 0))
      have hnt := normal_cl (ns.filter (· == 0))
      generalize hL : cl (n :: ns) = L at *
      cases hb : n == 0
      · rw [hb] at hz
        rw [List.filter_cons_of_neg (by simp [hb])]
        ev [hcl, hct]
      · rw [hb] at hz
        rw [List.filter_cons_of_pos (by simp [hb]), cl_cons]
        ev [hcl, hct]

/-! ## 7. TAKE_WHILE ≡ Z (λzfl. IS_NIL l (λx.NIL) (λx.f (HEAD l) (CONS (HEAD l) (z f (TAIL l))) NIL) I)  with `f = IS_ZERO`

The recursive call sits in OPERATOR position (`f (HEAD l) (CONS … (z f (TAIL l)))` is applied to `NIL`): the whole
recursion runs under CBV; only the outermost call is a HAP evaluation. -/

theorem and_intro_dep {A B : Prop} (ha : A) (hb : A → B) : A ∧ B := ⟨ha, hb ha⟩

/-- a recursive call through the stub, CBV, binary functional -/
theorem cbv_stub2 {F q X v Y y R : Term} (hF : Closed F) (hq : EvalCbv (ZF F) q) (hX : EvalCbv X v)
    (hY : EvalCbv Y y) (h : EvalCbv (app2 q v y) R) : EvalCbv (app2 (stub F) X Y) R := by
  have key : ∀ r, EvalCbv (app q v) r → EvalCbv (app (stub F) X) r := by
    intro r hr
    refine EvalCbv.appRed (EvalCbv.abs _) hX ?_
    have e : contract (app (ZF F) (var 1)) v = app (ZF F) v := by lc_simp [ZF, ZW]
    rw [e]
    exact EvalCbv.app_fn hq hr
  refine EvalCbv.app_arg hY ?_
  cases h with
  | appRed hl hr hn => exact EvalCbv.appRed (key _ hl) hr hn
  | appNeu hl hna hr => exact EvalCbv.appNeu (key _ hl) hna hr

def takeWhileF : Term := appArg Gen.PList.take_while
theorem take_while_eq : Gen.PList.take_while = app Gen.Comb.Z takeWhileF := by decide
theorem closed_takeWhileF : Closed takeWhileF := by decide

theorem take_while_is_zero_core : ∃ q, EvalCbv (ZF takeWhileF) q ∧
    (∀ (ns : List Nat), EvalCbv (app2 q Gen.Church.is_zero (cl ns)) (cl (ns.takeWhile (· == 0)))) ∧
    (∀ (ns : List Nat), EvalHap (app2 q Gen.Church.is_zero (cl ns)) (cl (ns.takeWhile (· == 0)))) := by
  apply Exists.intro
  apply And.intro
  · simp only [ZF, ZW]; ev
  apply and_intro_dep
  · intro ns
    induction ns with
    | nil =>
      have h1 := cbv_is_nil_nil
      rw [List.takeWhile_nil]
      ev
    | cons n ns ih =>
      have hcl := closed_cl (n :: ns)
      have hwl : isWNF (cl (n :: ns)) = true := isWNF_pairList _
      have h1 := cbv_is_nil_cons n ns
      have h2 := cbv_head_cons n ns
      have h3 := cbv_tail_cons n ns
      have hz := cbv_is_zero_head n ns
      have hrec := cbv_stub2 closed_takeWhileF (by simp only [ZF, ZW]; ev)
        (EvalCbv.of_isWNF (t := Gen.Church.is_zero) rfl) h3 ih
      have hct := closed_cl (ns.takeWhile (· == 0))
      have hwt : isWNF (cl (ns.takeWhile (· == 0))) = true := isWNF_pairList _
      generalize hL : cl (n :: ns) = L at *
      cases hb : n == 0
      · rw [hb] at hz
        rw [List.takeWhile_cons_of_neg (by simp [hb])]
        ev [hcl, hct]
      · rw [hb] at hz
        rw [List.takeWhile_cons_of_pos (by simp [hb]), cl_cons]
        ev [hcl, hct]
  · intro hc ns
    cases ns with
    | nil =>
      have h1 := cbv_is_nil_nil
      rw [List.takeWhile_nil]
      ev
    | cons n ns =>
      have ih := hc ns
      have hcl := closed_cl (n :: ns)
      have hnl := normal_cl (n :: ns)
      have h1 := cbv_is_nil_cons n ns
      have h2 := cbv_head_cons n ns
      have h3 := cbv_tail_cons n ns
      have hz := cbv_is_zero_head n ns
      have hrec := cbv_stub2 closed_takeWhileF (by simp only [ZF, ZW]; ev)
        (EvalCbv.of_isWNF (t := Gen.Church.is_zero) rfl) h3 ih
      have hct := closed_cl (ns.takeWhile (· == 0))
      have hnt := normal_cl (ns.takeWhile (· == 0))
      have hwt : isWNF (cl (ns.takeWhile (· == 0))) = true := isWNF_pairList _
      generalize hL : cl (n :: ns) = L at *
      cases hb : n == 0
      · rw [hb] at hz
        rw [List.takeWhile_cons_of_neg (by simp [hb])]
        ev [hcl, hct]
      · rw [hb] at hz
        rw [List.takeWhile_cons_of_pos (by simp [hb]), cl_cons]
        ev [hcl, hct]

/-! ## 8. DROP_WHILE ≡ Z (λzfl.IS_NIL l (λx.NIL) (λx.f (HEAD l) (z f (TAIL l)) l) I)  with `f = IS_ZERO`

Again the recursive call is in operator position (CBV), and it is always made. -/

def dropWhileF : Term := appArg Gen.PList.drop_while
theorem drop_while_eq : Gen.PList.drop_while = app Gen.Comb.Z dropWhileF := by decide
theorem closed_dropWhileF : Closed dropWhileF := by decide

theorem drop_while_is_zero_core : ∃ q, EvalCbv (ZF dropWhileF) q ∧
    (∀ (ns : List Nat), EvalCbv (app2 q Gen.Church.is_zero (cl ns)) (cl (ns.dropWhile (· == 0)))) ∧
    (∀ (ns : List Nat), EvalHap (app2 q Gen.Church.is_zero (cl ns)) (cl (ns.dropWhile (· == 0)))) := by
  apply Exists.intro
  apply And.intro
  · simp only [ZF, ZW]; ev
  apply and_intro_dep
  · intro ns
    induction ns with
    | nil =>
      have h1 := cbv_is_nil_nil
      rw [List.dropWhile_nil]
      ev
    | cons n ns ih =>
      have hcl := closed_cl (n :: ns)
      have hwl : isWNF (cl (n :: ns)) = true := isWNF_pairList _
      have h1 := cbv_is_nil_cons n ns
      have h2 := cbv_head_cons n ns
      have h3 := cbv_tail_cons n ns
      have hz := cbv_is_zero_head n ns
      have hrec := cbv_stub2 closed_dropWhileF (by simp only [ZF, ZW]; ev)
        (EvalCbv.of_isWNF (t := Gen.Church.is_zero) rfl) h3 ih
      have hct := closed_cl (ns.dropWhile (· == 0))
      have hwt : isWNF (cl (ns.dropWhile (· == 0))) = true := isWNF_pairList _
      cases hb : n == 0
      · rw [hb] at hz
        rw [List.dropWhile_cons_of_neg (by simp [hb])]
        generalize hL : cl (n :: ns) = L at *
        ev [hcl, hct]
      · rw [hb] at hz
        rw [List.dropWhile_cons_of_pos (by simp [hb])]
        generalize hL : cl (n :: ns) = L at *
        ev [hcl, hct]
  · intro hc ns
    cases ns with
    | nil =>
      have h1 := cbv_is_nil_nil
      rw [List.dropWhile_nil]
      ev
    | cons n ns =>
      have ih := hc ns
      have hcl := closed_cl (n :: ns)
      have hnl := normal_cl (n :: ns)
      have h1 := cbv_is_nil_cons n ns
      have h2 := cbv_head_cons n ns
      have h3 := cbv_tail_cons n ns
      have hz := cbv_is_zero_head n ns
      have hrec := cbv_stub2 closed_dropWhileF (by simp only [ZF, ZW]; ev)
        (EvalCbv.of_isWNF (t := Gen.Church.is_zero) rfl) h3 ih
      have hct := closed_cl (ns.dropWhile (· == 0))
      have hnt := normal_cl (ns.dropWhile (· == 0))
      have hwt : isWNF (cl (ns.dropWhile (· == 0))) = true := isWNF_pairList _
      cases hb : n == 0
      · rw [hb] at hz
        rw [List.dropWhile_cons_of_neg (by simp [hb])]
        generalize hL : cl (n :: ns) = L at *
        ev [hcl, hct]
      · rw [hb] at hz
        rw [List.dropWhile_cons_of_pos (by simp [hb])]
        generalize hL : cl (n :: ns) = L at *
        ev [hcl, hct]

/-! ## 9. ZIP ≡ Z (λzab.IS_NIL a (λx.NIL) (λx.IS_NIL b NIL (CONS (CONS (HEAD a) (HEAD b)) (z (TAIL a) (TAIL b)))) I)

The recursion is on `a` only and both branches of `IS_NIL b NIL (…)` are evaluated: when `b` runs out first the
recursion continues with the junk lists `TAIL NIL = I`, `TAIL I = NIL`, … — each such call returns `NIL`. -/

def zipF : Term := appArg Gen.PList.zip
theorem zip_eq : Gen.PList.zip = app Gen.Comb.Z zipF := by decide
theorem closed_zipF : Closed zipF := by decide

/-- the expected result of `zip` -/
abbrev zl (ms ns : List Nat) : Term :=
  pairList ((ms.zip ns).map (fun p => tuple2 (intoChurch p.1) (intoChurch p.2)))

theorem normal_zl (ms ns : List Nat) : isNormal (zl ms ns) = true := normal_tuple2_nums _
theorem closed_zl (ms ns : List Nat) : Closed (zl ms ns) :=
  closed_pairList (closed_map (fun _ => closed_tuple2 (closed_intoChurch _) (closed_intoChurch _)) _)
theorem zl_cons (m n : Nat) (ms ns : List Nat) :
    zl (m :: ms) (n :: ns) = abs (app2 (var 1) (abs (app2 (var 1) (intoChurch m) (intoChurch n))) (zl ms ns)) := rfl

theorem zip_core : ∃ q, EvalCbv (ZF zipF) q ∧
    (∀ (ms : List Nat), EvalHap (app2 q (cl ms) (cl [])) (cl []) ∧ EvalHap (app2 q (cl ms) (abs (var 1))) (cl [])) ∧
    (∀ (ms ns : List Nat), EvalHap (app2 q (cl ms) (cl ns)) (zl ms ns)) := by
  apply Exists.intro
  apply And.intro
  · simp only [ZF, ZW]; ev
  apply and_intro_dep
  · intro ms
    induction ms with
    | nil =>
      have h1 := cbv_is_nil_nil
      constructor <;> ev
    | cons m ms ih =>
      have hcl := closed_cl (m :: ms)
      have hwl : isWNF (cl (m :: ms)) = true := isWNF_pairList _
      have h1 := cbv_is_nil_cons m ms
      have h2 := cbv_head_cons m ms
      have h3 := cbv_tail_cons m ms
      have hrec1 := hap_stub2' (Y := app Gen.PList.tail (cl [])) closed_zipF (by simp only [ZF, ZW]; ev) h3 (by ev) ih.2
      have hrec2 := hap_stub2' (Y := app Gen.PList.tail (abs (var 1))) closed_zipF (by simp only [ZF, ZW]; ev) h3 (by ev) ih.1
      generalize hL : cl (m :: ms) = L at *
      constructor <;> ev [hcl]
  · intro hj ms
    induction ms with
    | nil =>
      intro ns
      have h1 := cbv_is_nil_nil
      have hnl := normal_cl ns
      rw [show zl [] ns = cl [] by simp [zl]; rfl]
      ev
    | cons m ms ih =>
      intro ns
      have hcl := closed_cl (m :: ms)
      have hwl : isWNF (cl (m :: ms)) = true := isWNF_pairList _
      have h1 := cbv_is_nil_cons m ms
      have h2 := cbv_head_cons m ms
      have h3 := cbv_tail_cons m ms
      cases ns with
      | nil =>
        have g1 := cbv_is_nil_nil
        have hrec := hap_stub2' (Y := app Gen.PList.tail (cl [])) closed_zipF (by simp only [ZF, ZW]; ev) h3 (by ev)
          (hj ms).2
        rw [show zl (m :: ms) [] = cl [] by simp [zl]; rfl]
        generalize hL : cl (m :: ms) = L at *
        ev [hcl]
      | cons n ns =>
        have hcl' := closed_cl (n :: ns)
        have hnl' := normal_cl (n :: ns)
        have g1 := cbv_is_nil_cons n ns
        have g2 := cbv_head_cons n ns
        have g3 := hap_tail_cons n ns
        have hrec := hap_stub2' closed_zipF (by simp only [ZF, ZW]; ev) h3 g3 (ih ns)
        have hct := closed_zl ms ns
        have hnt := normal_zl ms ns
        rw [zl_cons]
        generalize hL : cl (m :: ms) = L at *
        generalize hL' : cl (n :: ns) = L' at *
        generalize hZ : zl ms ns = Z at *
        ev [hcl, hcl', hct]

/-! ## 10. FOLDL ≡ Z (λzfsl.IS_NIL l (λx.s) (λx.z f (f s (HEAD l)) (TAIL l)) I)  with `f = ADD`

The accumulator `f s (HEAD l)` is in operator position: it is evaluated by CBV to a closure `succC (… (succC s))`, which is
normalised only at the very end. -/

/-- what `SUCC v` contracts to for a closed value `v` -/
def succC (v : Term) : Term := abs (abs (app (var 2) (app2 v (var 2) (var 1))))

/-- closures that behave like the numeral `j` under CBV (closed arguments) AND can be normalised by HAP -/
def ANum (v : Term) (j : Nat) : Prop :=
  CNum v j ∧ EvalHap (app2 v (var 2) (var 1)) (iterApp (var 2) (var 1) j) ∧ EvalHap v (intoChurch j)

theorem anum_intoChurch (j : Nat) : ANum (intoChurch j) j := by
  refine ⟨cnum_intoChurch j, ?_, EvalHap.of_isNormal (normal_intoChurch j)⟩
  ev

theorem cbv_succ_anum {v : Term} {j : Nat} (h : ANum v j) :
    EvalCbv (app Gen.Church.succ v) (succC v) ∧ ANum (succC v) (j + 1) := by
  obtain ⟨⟨wv, cv, hv⟩, h2, h3⟩ := h
  refine ⟨?_, ⟨rfl, by lc_simp [succC], fun f x r hf hx wf wx h => ?_⟩, ?_, ?_⟩
  · unfold succC; ev [cv]
  · rw [iterApp_succ] at h
    unfold succC
    cases h with
    | appRed hl hr hn =>
      have h1 := hv _ _ _ hf hx wf wx hr
      have wr := hr.isWNF
      have e := hl.wnf_eq wf; subst e
      ev [cv, hf, hx]
    | appNeu hl hna hr =>
      have h1 := hv _ _ _ hf hx wf wx hr
      have wr := hr.isWNF
      have e := hl.wnf_eq wf; subst e
      ev [cv, hf, hx]
      exact CbvCont.neu hna
  · unfold succC; rw [iterApp_succ]; ev [cv]
  · unfold succC; rw [intoChurch_eq, iterApp_succ]; ev [cv]

/-- iterated `succ` closure -/
def addCv (v : Term) : Nat → Term
  | 0 => v
  | k + 1 => succC (addCv v k)

theorem anum_addCv {v : Term} {j : Nat} (h : ANum v j) (k : Nat) : ANum (addCv v k) (j + k) := by
  induction k with
  | zero => exact h
  | succ k ih => exact (cbv_succ_anum ih).2

/-- `add` on closures (CBV): the result is again a closure -/
theorem cbv_add_anum {v1 v2 : Term} {j1 j2 : Nat} (h1 : ANum v1 j1) (h2 : CNum v2 j2) :
    EvalCbv (app2 Gen.Church.add v1 v2) (addCv v1 j2) := by
  have w1 := h1.1.1; have c1 := h1.1.2.1
  obtain ⟨w2, c2, hv2⟩ := h2
  have h := hv2 Gen.Church.succ v1 (addCv v1 j2) (by decide) c1 rfl w1
    (cbv_iterApp (w := addCv v1) (by simp only [addCv]; ev)
      (fun k => (cbv_succ_anum (anum_addCv h1 k)).1) j2)
  ev [c1, c2]

def foldlF : Term := appArg Gen.PList.foldl
theorem foldl_eq : Gen.PList.foldl = app Gen.Comb.Z foldlF := by decide
theorem closed_foldlF : Closed foldlF := by decide

/-- a recursive call through the stub, HAP, ternary functional -/
theorem hap_stub3 {F q X1 v1 X2 v2 Y y R : Term} (hF : Closed F) (hq : EvalCbv (ZF F) q) (hX1 : EvalCbv X1 v1)
    (hX2 : EvalCbv X2 v2) (hY : EvalHap Y y) (h : EvalHap (app3 q v1 v2 y) R) :
    EvalHap (app3 (stub F) X1 X2 Y) R := by
  have key : ∀ r, EvalCbv (app q v1) r → EvalCbv (app (stub F) X1) r := by
    intro r hr
    refine EvalCbv.appRed (EvalCbv.abs _) hX1 ?_
    have e : contract (app (ZF F) (var 1)) v1 = app (ZF F) v1 := by lc_simp [ZF, ZW]
    rw [e]
    exact EvalCbv.app_fn hq hr
  have key2 : ∀ r, EvalCbv (app2 q v1 v2) r → EvalCbv (app2 (stub F) X1 X2) r := by
    intro r hr
    refine EvalCbv.app_arg hX2 ?_
    cases hr with
    | appRed hl hr hn => exact EvalCbv.appRed (key _ hl) hr hn
    | appNeu hl hna hr => exact EvalCbv.appNeu (key _ hl) hna hr
  refine EvalHap.app_arg hY ?_
  cases h with
  | appRed hl hr hn => exact EvalHap.appRed (key2 _ hl) hr hn
  | appNeu hl hna hr hl' => exact EvalHap.appNeu (key2 _ hl) hna hr hl'

theorem foldl_core (f : Term) (cf : Closed f) (wf : isWNF f = true) (op : Nat → Nat → Nat) (P : Term → Nat → Prop)
    (hP : ∀ v j, P v j → isWNF v = true ∧ Closed v ∧ EvalHap v (intoChurch j))
    (hstep : ∀ v j n, P v j → ∃ v', EvalCbv (app2 f v (intoChurch n)) v' ∧ P v' (op j n)) :
    ∃ q, EvalCbv (ZF foldlF) q ∧
    ∀ (ns : List Nat) (v : Term) (j : Nat), P v j →
      EvalHap (app3 q f v (cl ns)) (intoChurch (ns.foldl op j)) := by
  apply Exists.intro
  apply And.intro
  · simp only [ZF, ZW]; ev
  · intro ns
    induction ns with
    | nil =>
      intro v j hv
      obtain ⟨wv, cv, hn⟩ := hP v j hv
      have h1 := cbv_is_nil_nil
      rw [List.foldl_nil]
      ev [cv, cf]
    | cons n ns ih =>
      intro v j hv
      obtain ⟨wv, cv, hn⟩ := hP v j hv
      obtain ⟨v', hv1, hv2⟩ := hstep v j n hv
      have hcl := closed_cl (n :: ns)
      have hnl := normal_cl (n :: ns)
      have h1 := cbv_is_nil_cons n ns
      have h2 := cbv_head_cons n ns
      have h3 := hap_tail_cons n ns
      have ha : EvalCbv (app2 f v (app Gen.PList.head (cl (n :: ns)))) v' := EvalCbv.app_arg h2 hv1
      have ih' := ih _ _ hv2
      have hrec := hap_stub3 closed_foldlF (by simp only [ZF, ZW]; ev) (EvalCbv.of_isWNF wf) ha h3 ih'
      rw [List.foldl_cons]
      generalize hL : cl (n :: ns) = L at *
      ev [cv, hcl, cf]

/-! ## 11. FOLDR ≡ λfal.Z (λzt.IS_NIL t (λx.a) (λx.f (HEAD t) (z (TAIL t))) I) l

Here the recursive call is the OPERAND of `f (HEAD t)`: it is evaluated by HAP to a numeral (a normal form) first. -/

theorem hap_app2_args {f X Y x y r : Term} (hX : EvalCbv X x) (hY : EvalHap Y y) (h : EvalHap (app2 f x y) r) :
    EvalHap (app2 f X Y) r := by
  refine EvalHap.app_arg hY ?_
  cases h with
  | appRed hl hr hn => exact EvalHap.appRed (EvalCbv.app_arg hX hl) hr hn
  | appNeu hl hna hr hl' => exact EvalHap.appNeu (EvalCbv.app_arg hX hl) hna hr hl'

/-- a recursive call through the stub, HAP, unary functional -/
theorem hap_stub1 {F q Y y R : Term} (hF : Closed F) (hq : EvalCbv (ZF F) q) (hY : EvalHap Y y)
    (h : EvalHap (app q y) R) : EvalHap (app (stub F) Y) R := by
  refine EvalHap.appRed (EvalCbv.abs _) hY ?_
  have e : contract (app (ZF F) (var 1)) y = app (ZF F) y := by lc_simp [ZF, ZW]
  rw [e]
  exact EvalHap.app_fn hq h

theorem foldr_core (f : Term) (cf : Closed f) (wf : isWNF f = true) (op : Nat → Nat → Nat)
    (hop : ∀ m n, EvalHap (app2 f (intoChurch m) (intoChurch n)) (intoChurch (op m n))) (a : Nat) : ∃ F,
    EvalCbv (app2 Gen.PList.foldr f (intoChurch a)) (abs (app (app Gen.Comb.Z F) (var 1))) ∧
    Closed F ∧ isWNF F = true ∧ ∃ q, EvalCbv (ZF F) q ∧
    ∀ (ns : List Nat), EvalHap (app q (cl ns)) (intoChurch (ns.foldr op a)) := by
  refine ⟨?F, ?h1, ?h2, ?h3, ?q, ?h4, ?h5⟩
  case h1 => ev [cf]; exact EvalCbv.abs _
  case h2 => lc_simp
  case h3 => rfl
  case h4 => simp only [ZF, ZW]; ev; exact EvalCbv.abs _
  case h5 =>
    intro ns
    induction ns with
    | nil =>
      have h1 := cbv_is_nil_nil
      rw [List.foldr_nil]
      ev
    | cons n ns ih =>
      have hcl := closed_cl (n :: ns)
      have hnl := normal_cl (n :: ns)
      have h1 := cbv_is_nil_cons n ns
      have h2 := cbv_head_cons n ns
      have h3 := hap_tail_cons n ns
      have hrec := hap_stub1 (F := ?F) (by lc_simp) (by simp only [ZF, ZW]; ev) h3 ih
      have hstep := hap_app2_args h2 hrec (hop n (ns.foldr op a))
      rw [List.foldr_cons]
      generalize hL : cl (n :: ns) = L at *
      ev [hcl, cf]

/-- from the core statement of a `foldr` instance to the statement about `FOLDR f a l` -/
theorem foldr_top {f a F q l R : Term}
    (h1 : EvalCbv (app2 Gen.PList.foldr f a) (abs (app (app Gen.Comb.Z F) (var 1))))
    (hF : Closed F) (wF : isWNF F = true) (hq : EvalCbv (ZF F) q) (hl : isNormal l = true)
    (h : EvalHap (app q l) R) : EvalHap (app3 Gen.PList.foldr f a l) R := by
  refine EvalHap.appRed h1 (EvalHap.of_isNormal hl) ?_
  have e : contract (app (app Gen.Comb.Z F) (var 1)) l = app (app Gen.Comb.Z F) l := by lc_simp
  rw [e]
  exact EvalHap.app_fn (cbv_Z hF wF hq) h

/-! ## 12. closures of `PRED`/`SUB` can be normalised

`CNum` only speaks about CLOSED arguments; to normalise `predC v = λfx. v (λgh.h (g f)) (λu.x) (λu.u)` under HAP (with
`f`, `x` variables) the behaviour of `v` on OPEN values is needed: `ONum`. -/

/-- `v` is a closed CBV value that behaves like the Church numeral `j` on ALL CBV values (open ones too) -/
def ONum (v : Term) (j : Nat) : Prop :=
  isWNF v = true ∧ Closed v ∧
  ∀ f x r, isWNF f = true → isWNF x = true → EvalCbv (iterApp f x j) r → EvalCbv (app2 v f x) r

theorem ONum.cnum {v : Term} {j : Nat} (h : ONum v j) : CNum v j :=
  ⟨h.1, h.2.1, fun f x r _ _ wf wx hr => h.2.2 f x r wf wx hr⟩

theorem onum_intoChurch (j : Nat) : ONum (intoChurch j) j := by
  refine ⟨rfl, closed_intoChurch j, fun f x r wf wx h => ?_⟩
  ev

/-- CBV values of `(λgh. h (g f))ᵏ (λu. x)` for ARBITRARY `f`, `x` (shifted under the binders) -/
def pvo (f x : Term) : Nat → Term
  | 0 => abs (shiftFV 1 0 x)
  | k + 1 => abs (app (var 1) (app (shiftFV 1 0 (pvo f x k)) (shiftFV 1 0 f)))

@[simp] theorem isWNF_pvo (f x : Term) (k : Nat) : isWNF (pvo f x k) = true := by cases k <;> rfl

theorem cbv_iter_pvo (f x : Term) (k : Nat) :
    EvalCbv (iterApp (abs (abs (app (var 1) (app (var 2) (shiftFV 2 0 f))))) (abs (shiftFV 1 0 x)) k) (pvo f x k) := by
  apply cbv_iterApp (w := pvo f x)
  · simp only [pvo]; ev
  · intro k
    simp only [pvo]; ev

/-- forcing: `pvo k f` evaluates like `fᵏ x` -/
theorem cbv_pvo_app {f x : Term} (wf : isWNF f = true) (wx : isWNF x = true) :
    ∀ (k : Nat) (r : Term), EvalCbv (iterApp f x k) r → EvalCbv (app (pvo f x k) f) r := by
  intro k
  induction k with
  | zero =>
    intro r h
    simp only [iterApp_zero] at h
    have e := h.wnf_eq wx; subst e
    simp only [pvo]; ev
  | succ k ih =>
    intro r h
    rw [iterApp_succ] at h
    simp only [pvo]
    cases h with
    | appRed hl hr hn =>
      have h1 := ih _ hr
      apply EvalCbv.beta wf
      ev_simp
      exact EvalCbv.appRed hl h1 hn
    | appNeu hl hna hr =>
      have h1 := ih _ hr
      apply EvalCbv.beta wf
      ev_simp
      exact EvalCbv.appNeu hl hna h1

/-- `pred` maps open-closures for `j` to open-closures for `j - 1` -/
theorem onum_predC {v : Term} {j : Nat} (h : ONum v j) : ONum (predC v) (j - 1) := by
  obtain ⟨wv, cv, hv⟩ := h
  refine ⟨rfl, closed_predC cv, fun f x r wf wx h => ?_⟩
  have h1 := hv _ _ _ rfl rfl (cbv_iter_pvo f x j)
  unfold predC
  ev [cv]
  cases j with
  | zero =>
    simp only [Nat.zero_sub, iterApp_zero] at h
    simp only [pvo]; ev
  | succ k =>
    simp only [Nat.add_sub_cancel] at h
    have h2 := cbv_pvo_app wf wx k r h
    have wr := h.isWNF
    simp only [pvo]; ev

theorem onum_subCv {v : Term} {j : Nat} (h : ONum v j) (k : Nat) : ONum (subCv v k) (j - k) := by
  induction k with
  | zero => exact h
  | succ k ih => exact onum_predC ih

/-- HAP normalises `predC v` to the numeral `j - 1` (the tail of the pilot's `church_pred_hap`) -/
theorem hap_predC_onum {v : Term} {j : Nat} (h : ONum v j) : EvalHap (predC v) (intoChurch (j - 1)) := by
  obtain ⟨wv, cv, hv⟩ := h
  have h1 := hv (abs (abs (app (var 1) (app (var 2) (var 4))))) (abs (var 2)) (predV 2 1 j) rfl rfl
    (by
      apply cbv_iterApp (w := predV 2 1)
      · simp only [predV]; ev
      · intro k; simp only [predV]; ev [shiftFV_predV])
  rw [intoChurch_eq (j - 1)]
  unfold predC
  ev
  cases j with
  | zero => simp only [predV]; ev
  | succ n =>
    simp only [predV, Nat.add_sub_cancel]
    have := hap_predV_app n
    ev [applyAux_predV]

theorem hap_subCv {v : Term} {j : Nat} (h : ONum v j) (hn : EvalHap v (intoChurch j)) (k : Nat) :
    EvalHap (subCv v k) (intoChurch (j - k)) := by
  cases k with
  | zero => exact hn
  | succ k =>
    have := hap_predC_onum (onum_subCv h k)
    rw [Nat.sub_sub] at this
    exact this

/-! ## 13. ZIP_WITH ≡ Z (λzfab.IS_NIL a (λx.NIL) (λx.IS_NIL b NIL (CONS (f (HEAD a) (HEAD b)) (z f (TAIL a) (TAIL b)))) I)
with `f = SUB`: the elements `SUB (HEAD a) (HEAD b)` are evaluated by CBV to closures `subCv`, normalised with the list -/

theorem cbv_app2_args {f X Y x y r : Term} (hX : EvalCbv X x) (hY : EvalCbv Y y) (h : EvalCbv (app2 f x y) r) :
    EvalCbv (app2 f X Y) r := by
  refine EvalCbv.app_arg hY ?_
  cases h with
  | appRed hl hr hn => exact EvalCbv.appRed (EvalCbv.app_arg hX hl) hr hn
  | appNeu hl hna hr => exact EvalCbv.appNeu (EvalCbv.app_arg hX hl) hna hr

def zipWithF : Term := appArg Gen.PList.zip_with
theorem zip_with_eq : Gen.PList.zip_with = app Gen.Comb.Z zipWithF := by decide
theorem closed_zipWithF : Closed zipWithF := by decide

abbrev zwl (ms ns : List Nat) : Term := cl ((ms.zip ns).map (fun p => p.1 - p.2))

theorem zip_with_sub_core : ∃ q, EvalCbv (ZF zipWithF) q ∧
    (∀ (ms : List Nat), EvalHap (app3 q Gen.Church.sub (cl ms) (cl [])) (cl []) ∧
      EvalHap (app3 q Gen.Church.sub (cl ms) (abs (var 1))) (cl [])) ∧
    (∀ (ms ns : List Nat), EvalHap (app3 q Gen.Church.sub (cl ms) (cl ns)) (zwl ms ns)) := by
  apply Exists.intro
  apply And.intro
  · simp only [ZF, ZW]; ev
  apply and_intro_dep
  · intro ms
    induction ms with
    | nil =>
      have h1 := cbv_is_nil_nil
      constructor <;> ev
    | cons m ms ih =>
      have hcl := closed_cl (m :: ms)
      have hwl : isWNF (cl (m :: ms)) = true := isWNF_pairList _
      have h1 := cbv_is_nil_cons m ms
      have h2 := cbv_head_cons m ms
      have h3 := cbv_tail_cons m ms
      have hp := (cbv_pred_cnum (cnum_intoChurch m)).1
      have hpn := hap_predC_onum (onum_intoChurch m)
      have hrec1 := hap_stub3 (Y := app Gen.PList.tail (cl [])) closed_zipWithF (by simp only [ZF, ZW]; ev)
        (EvalCbv.of_isWNF (t := Gen.Church.sub) rfl) h3 (by ev) ih.2
      have hrec2 := hap_stub3 (Y := app Gen.PList.tail (abs (var 1))) closed_zipWithF (by simp only [ZF, ZW]; ev)
        (EvalCbv.of_isWNF (t := Gen.Church.sub) rfl) h3 (by ev) ih.1
      generalize hL : cl (m :: ms) = L at *
      constructor <;> ev [hcl]
  · intro hj ms
    induction ms with
    | nil =>
      intro ns
      have h1 := cbv_is_nil_nil
      have hnl := normal_cl ns
      rw [show zwl [] ns = cl [] by simp [zwl]]
      ev
    | cons m ms ih =>
      intro ns
      have hcl := closed_cl (m :: ms)
      have hwl : isWNF (cl (m :: ms)) = true := isWNF_pairList _
      have h1 := cbv_is_nil_cons m ms
      have h2 := cbv_head_cons m ms
      have h3 := cbv_tail_cons m ms
      cases ns with
      | nil =>
        have g1 := cbv_is_nil_nil
        have hp := (cbv_pred_cnum (cnum_intoChurch m)).1
        have hpn := hap_predC_onum (onum_intoChurch m)
        have hrec := hap_stub3 (Y := app Gen.PList.tail (cl [])) closed_zipWithF (by simp only [ZF, ZW]; ev)
          (EvalCbv.of_isWNF (t := Gen.Church.sub) rfl) h3 (by ev) (hj ms).2
        rw [show zwl (m :: ms) [] = cl [] by simp [zwl]]
        generalize hL : cl (m :: ms) = L at *
        ev [hcl]
      | cons n ns =>
        have hcl' := closed_cl (n :: ns)
        have hnl' := normal_cl (n :: ns)
        have g1 := cbv_is_nil_cons n ns
        have g2 := cbv_head_cons n ns
        have g3 := hap_tail_cons n ns
        have hs := cbv_app2_args h2 g2 (church_sub_cbv m n)
        have ho := onum_subCv (onum_intoChurch m) n
        have he := hap_subCv (onum_intoChurch m) (EvalHap.of_isNormal (normal_intoChurch m)) n
        have we := ho.1
        have ce := ho.2.1
        have hrec := hap_stub3 closed_zipWithF (by simp only [ZF, ZW]; ev)
          (EvalCbv.of_isWNF (t := Gen.Church.sub) rfl) h3 g3 (ih ns)
        have hct : Closed (zwl ms ns) := closed_cl _
        have hnt : isNormal (zwl ms ns) = true := normal_cl _
        rw [show zwl (m :: ms) (n :: ns) = abs (app2 (var 1) (intoChurch (m - n)) (zwl ms ns)) from rfl]
        generalize hL : cl (m :: ms) = L at *
        generalize hL' : cl (n :: ns) = L' at *
        generalize hZ : zwl ms ns = Z at *
        generalize hE : subCv (intoChurch m) n = E at *
        ev [hcl, hcl', hct, ce]

/-! ## 14. LIST ≡ λn.n (λfax.f (CONS x a)) REVERSE NIL

`LIST n̄ x₁ … xₙ`: all applications but the last are in operator position (CBV): `LIST n̄` evaluates `REVERSE` to a value
`R0`, builds the collector closures `W n` and then `V (n-1) []`; every argument but the last moves one element into the
accumulator (`V (k+1) acc ↦ V k (x :: acc)`); the last application runs `R0` (reverse) on the accumulator under HAP. -/

theorem hap_app_fn_inv {f g x r : Term} (hf : EvalCbv f g) (h : EvalHap (app f x) r) : EvalHap (app g x) r := by
  have det : ∀ g', EvalCbv f g' → g' = g := by
    intro g' hg'
    obtain ⟨f1, e1⟩ := hf.run; obtain ⟨f2, e2⟩ := hg'.run
    obtain ⟨k1, e1⟩ := e1 0; obtain ⟨k2, e2⟩ := e2 0
    have a := betaCbv_mono 0 e1 (Nat.le_max_left f1 f2)
    have b := betaCbv_mono 0 e2 (Nat.le_max_right f1 f2)
    rw [a] at b
    injection b with b; injection b with b
    exact b.symm
  cases h with
  | appRed hl hr hn =>
    have e := det _ hl; subst e
    exact EvalHap.appRed (EvalCbv.abs _) hr hn
  | appNeu hl hna hr hl' =>
    have e := det _ hl; subst e
    exact EvalHap.appNeu (EvalCbv.of_isWNF hf.isWNF) hna hr hl'

def reverseF : Term := appArg (appFn Gen.PList.reverse)
theorem reverse_eq : Gen.PList.reverse = app2 Gen.Comb.Z reverseF (cl []) := by decide
theorem closed_reverseF : Closed reverseF := by decide

theorem reverse_core : ∃ q R0, EvalCbv (ZF reverseF) q ∧ EvalCbv (app q (cl [])) R0 ∧ Closed R0 ∧ isWNF R0 = true ∧
    ∀ (ns acc : List Nat), EvalHap (app2 q (cl acc) (cl ns)) (cl (ns.reverse ++ acc)) := by
  refine ⟨?q, ?R0, ?h1, ?h2, ?h3, ?h4, ?h5⟩
  case h1 => simp only [ZF, ZW]; ev; exact EvalCbv.abs _
  case h2 => ev; exact EvalCbv.abs _
  case h3 => lc_simp
  case h4 => rfl
  case h5 =>
    intro ns
    induction ns with
    | nil =>
      intro acc
      have h1 := cbv_is_nil_nil
      have hca := closed_cl acc
      have hna := normal_cl acc
      have hwa : isWNF (cl acc) = true := isWNF_pairList _
      rw [List.reverse_nil, List.nil_append]
      generalize hA : cl acc = A at *
      ev [hca]
    | cons n ns ih =>
      intro acc
      have hcl := closed_cl (n :: ns)
      have hnl := normal_cl (n :: ns)
      have h1 := cbv_is_nil_cons n ns
      have h2 := cbv_head_cons n ns
      have h3 := hap_tail_cons n ns
      have hca := closed_cl acc
      have hwa : isWNF (cl acc) = true := isWNF_pairList _
      have hc : EvalCbv (app2 Gen.PList.cons (app Gen.PList.head (cl (n :: ns))) (cl acc)) (cl (n :: acc)) := by
        refine cbv_app2_args h2 (EvalCbv.of_isWNF hwa) ?_
        rw [cl_cons]; ev [hca]
      have hrec := hap_stub2' closed_reverseF (by simp only [ZF, ZW]; ev) hc h3 (ih (n :: acc))
      rw [List.reverse_cons, List.append_assoc, List.singleton_append]
      generalize hL : cl (n :: ns) = L at *
      generalize hA : cl acc = A at *
      ev [hcl, hca]

/-- the CBV value `R0` of `REVERSE`, which reverses lists under HAP -/
theorem reverse_val : ∃ R0, EvalCbv Gen.PList.reverse R0 ∧ Closed R0 ∧ isWNF R0 = true ∧
    ∀ (ns : List Nat), EvalHap (app R0 (cl ns)) (cl ns.reverse) := by
  obtain ⟨q, R0, h1, h2, h3, h4, h5⟩ := reverse_core
  refine ⟨R0, ?_, h3, h4, fun ns => ?_⟩
  · rw [reverse_eq]; exact EvalCbv.app_fn (cbv_Z closed_reverseF (by decide) h1) h2
  · have := hap_app_fn_inv h2 (h5 ns [])
    rwa [List.append_nil] at this

/-- the collector closures `Gᵏ R0` -/
def W (R0 : Term) : Nat → Term
  | 0 => R0
  | k + 1 => abs (abs (app (W R0 k) (app2 Gen.PList.cons (var 1) (var 2))))

theorem closed_W {R0 : Term} (hR : Closed R0) (k : Nat) : Closed (W R0 k) := by
  induction k with
  | zero => exact hR
  | succ k ih => lc_simp [W]

theorem isWNF_W {R0 : Term} (wR : isWNF R0 = true) (k : Nat) : isWNF (W R0 k) = true := by
  cases k with
  | zero => exact wR
  | succ k => rfl

/-- the state of the collector after some arguments: `λx. W k (CONS x acc)` -/
def V (R0 : Term) (k : Nat) (acc : Term) : Term := abs (app (W R0 k) (app2 Gen.PList.cons (var 1) acc))

open PairLibB in
theorem cbv_list_init {R0 : Term} (hR : EvalCbv Gen.PList.reverse R0) (cR : Closed R0) (wR : isWNF R0 = true)
    (m : Nat) : EvalCbv (app Gen.PList.list (intoChurch (m + 1))) (V R0 m (cl [])) := by
  have hG := closed_listG
  have hW : EvalCbv (iterApp listG R0 (m + 1)) (W R0 (m + 1)) := by
    apply cbv_iterApp (w := W R0)
    · exact EvalCbv.of_isWNF wR
    · intro k
      have hc := closed_W cR k
      have hw := isWNF_W wR k
      simp only [W]
      generalize hX : W R0 k = X at *
      ev [hc]
  have hc := closed_W cR m
  rw [list_eq]
  unfold V
  ev [hG, hc]

theorem cbv_V_step {R0 : Term} (cR : Closed R0) (wR : isWNF R0 = true) (k : Nat) (acc : List Nat) (x : Nat) :
    EvalCbv (app (V R0 (k + 1) (cl acc)) (intoChurch x)) (V R0 k (cl (x :: acc))) := by
  have hc := closed_W cR k
  have hw := isWNF_W wR k
  have hca := closed_cl acc
  have hwa : isWNF (cl acc) = true := isWNF_pairList _
  rw [cl_cons]
  simp only [V, W]
  generalize hX : W R0 k = X at *
  generalize hA : cl acc = A at *
  ev [hc, hca]

theorem hap_V_last {R0 : Term} (cR : Closed R0) (wR : isWNF R0 = true)
    (hrev : ∀ (ns : List Nat), EvalHap (app R0 (cl ns)) (cl ns.reverse)) (acc : List Nat) (x : Nat) :
    EvalHap (app (V R0 0 (cl acc)) (intoChurch x)) (cl (x :: acc).reverse) := by
  have hca := closed_cl acc
  have hna := normal_cl acc
  have hwa : isWNF (cl acc) = true := isWNF_pairList _
  have hr := hrev (x :: acc)
  rw [cl_cons] at hr
  simp only [V, W]
  generalize hZ : cl (x :: acc).reverse = Z at *
  generalize hA : cl acc = A at *
  ev [cR, hca]

/-- feeding all arguments but the last (CBV) -/
theorem cbv_list_feed {R0 : Term} (cR : Closed R0) (wR : isWNF R0 = true) (ys : List Nat) :
    ∀ (h : Term) (k : Nat) (acc : List Nat), EvalCbv h (V R0 (ys.length + k) (cl acc)) →
      EvalCbv ((ys.map intoChurch).foldl app h) (V R0 k (cl (ys.reverse ++ acc))) := by
  induction ys with
  | nil => intro h k acc hh; simpa using hh
  | cons y ys ih =>
    intro h k acc hh
    rw [List.map_cons, List.foldl_cons, List.reverse_cons, List.append_assoc, List.singleton_append]
    refine ih _ k (y :: acc) ?_
    rw [List.length_cons, Nat.add_right_comm] at hh
    exact EvalCbv.app_congr hh (EvalCbv.of_isWNF rfl) (cbv_V_step cR wR _ acc y)

end EagerListB
open EagerListB

/-! ## the main theorems: HAP big-step derivations for ALL lists / numbers -/

theorem plist_take_hap (k : Nat) (ns : List Nat) :
    EvalHap (app2 Gen.PList.take (intoChurch k) (cl ns)) (cl (ns.take k)) := by
  obtain ⟨q, hq, hrec⟩ := take_core
  refine EvalHap.app2_fn (g := q) ?_ (hrec ns _ k (cnum_intoChurch k))
  rw [take_eq]; exact cbv_Z closed_takeF (by decide) hq

theorem plist_drop_hap (k : Nat) (ns : List Nat) :
    EvalHap (app2 Gen.PList.drop (intoChurch k) (cl ns)) (cl (ns.drop k)) := by
  obtain ⟨q, hq, hrec⟩ := drop_core
  refine EvalHap.app2_fn (g := q) ?_ (hrec ns _ k (cnum_intoChurch k))
  rw [drop_eq]; exact cbv_Z closed_dropF (by decide) hq

theorem plist_map_succ_hap (ns : List Nat) :
    EvalHap (app2 Gen.PList.map Gen.Church.succ (cl ns)) (cl (ns.map (· + 1))) := by
  obtain ⟨q, hq, hrec⟩ := map_succ_core
  refine EvalHap.app2_fn (g := q) ?_ (hrec ns)
  rw [map_eq]; exact cbv_Z closed_mapF (by decide) hq

theorem plist_filter_is_zero_hap (ns : List Nat) :
    EvalHap (app2 Gen.PList.filter Gen.Church.is_zero (cl ns)) (cl (ns.filter (· == 0))) := by
  obtain ⟨q, hq, hrec⟩ := filter_is_zero_core
  refine EvalHap.app2_fn (g := q) ?_ (hrec ns)
  rw [filter_eq]; exact cbv_Z closed_filterF (by decide) hq

theorem plist_take_while_is_zero_hap (ns : List Nat) :
    EvalHap (app2 Gen.PList.take_while Gen.Church.is_zero (cl ns)) (cl (ns.takeWhile (· == 0))) := by
  obtain ⟨q, hq, _, hrec⟩ := take_while_is_zero_core
  refine EvalHap.app2_fn (g := q) ?_ (hrec ns)
  rw [take_while_eq]; exact cbv_Z closed_takeWhileF (by decide) hq

theorem plist_drop_while_is_zero_hap (ns : List Nat) :
    EvalHap (app2 Gen.PList.drop_while Gen.Church.is_zero (cl ns)) (cl (ns.dropWhile (· == 0))) := by
  obtain ⟨q, hq, _, hrec⟩ := drop_while_is_zero_core
  refine EvalHap.app2_fn (g := q) ?_ (hrec ns)
  rw [drop_while_eq]; exact cbv_Z closed_dropWhileF (by decide) hq

theorem plist_zip_hap (ms ns : List Nat) :
    EvalHap (app2 Gen.PList.zip (cl ms) (cl ns))
      (pairList ((ms.zip ns).map (fun p => tuple2 (intoChurch p.1) (intoChurch p.2)))) := by
  obtain ⟨q, hq, _, hrec⟩ := zip_core
  refine EvalHap.app2_fn (g := q) ?_ (hrec ms ns)
  rw [zip_eq]; exact cbv_Z closed_zipF (by decide) hq

theorem plist_foldl_add_hap (s : Nat) (ns : List Nat) :
    EvalHap (app3 Gen.PList.foldl Gen.Church.add (intoChurch s) (cl ns)) (intoChurch (ns.foldl (· + ·) s)) := by
  obtain ⟨q, hq, hrec⟩ := foldl_core Gen.Church.add (by decide) rfl (· + ·) ANum
    (fun v j h => ⟨h.1.1, h.1.2.1, h.2.2⟩)
    (fun v j n h => ⟨_, cbv_add_anum h (cnum_intoChurch n), anum_addCv h n⟩)
  refine hap_app3_fn (g := q) ?_ (hrec ns _ s (anum_intoChurch s))
  rw [foldl_eq]; exact cbv_Z closed_foldlF (by decide) hq

theorem plist_foldr_add_hap (a : Nat) (ns : List Nat) :
    EvalHap (app3 Gen.PList.foldr Gen.Church.add (intoChurch a) (cl ns)) (intoChurch (ns.foldr (· + ·) a)) := by
  obtain ⟨F, h1, hF, wF, q, hq, hrec⟩ :=
    foldr_core Gen.Church.add (by decide) rfl (· + ·) church_add_hap a
  exact foldr_top h1 hF wF hq (normal_cl ns) (hrec ns)

theorem plist_foldr_sub_hap (a : Nat) (ns : List Nat) :
    EvalHap (app3 Gen.PList.foldr Gen.Church.sub (intoChurch a) (cl ns)) (intoChurch (ns.foldr (· - ·) a)) := by
  obtain ⟨F, h1, hF, wF, q, hq, hrec⟩ :=
    foldr_core Gen.Church.sub (by decide) rfl (· - ·) church_sub_hap a
  exact foldr_top h1 hF wF hq (normal_cl ns) (hrec ns)

theorem plist_foldl_sub_hap (s : Nat) (ns : List Nat) :
    EvalHap (app3 Gen.PList.foldl Gen.Church.sub (intoChurch s) (cl ns)) (intoChurch (ns.foldl (· - ·) s)) := by
  obtain ⟨q, hq, hrec⟩ := foldl_core Gen.Church.sub (by decide) rfl (· - ·)
    (fun v j => ONum v j ∧ EvalHap v (intoChurch j))
    (fun v j h => ⟨h.1.1, h.1.2.1, h.2⟩)
    (fun v j n h => ⟨subCv v n, cbv_sub_cnum h.1.cnum (cnum_intoChurch n), onum_subCv h.1 n, hap_subCv h.1 h.2 n⟩)
  refine hap_app3_fn (g := q) ?_
    (hrec ns _ s ⟨onum_intoChurch s, EvalHap.of_isNormal (normal_intoChurch s)⟩)
  rw [foldl_eq]; exact cbv_Z closed_foldlF (by decide) hq

theorem plist_zip_with_sub_hap (ms ns : List Nat) :
    EvalHap (app3 Gen.PList.zip_with Gen.Church.sub (cl ms) (cl ns)) (cl ((ms.zip ns).map (fun p => p.1 - p.2))) := by
  obtain ⟨q, hq, _, hrec⟩ := zip_with_sub_core
  refine hap_app3_fn (g := q) ?_ (hrec ms ns)
  rw [zip_with_eq]; exact cbv_Z closed_zipWithF (by decide) hq

theorem plist_list_hap (ns : List Nat) :
    EvalHap ((ns.map intoChurch).foldl app (app Gen.PList.list (intoChurch ns.length))) (cl ns) := by
  obtain ⟨R0, hR, cR, wR, hrev⟩ := reverse_val
  rcases List.eq_nil_or_concat ns with rfl | ⟨ys, z, rfl⟩
  · have h0 := hrev []
    have hG := PairLibB.closed_listG
    simp only [List.map_nil, List.foldl_nil, List.length_nil]
    rw [PairLibB.list_eq]
    ev [hG]
  · rw [List.concat_eq_append, List.map_append, List.foldl_append, List.length_append]
    simp only [List.map_cons, List.map_nil, List.foldl_cons, List.foldl_nil, List.length_cons, List.length_nil]
    have h1 := cbv_list_feed cR wR ys _ 0 [] (by
      rw [Nat.add_zero]; exact cbv_list_init hR cR wR ys.length)
    have h2 := hap_V_last cR wR hrev (ys.reverse ++ []) z
    rw [List.reverse_cons, List.reverse_append, List.reverse_reverse, List.reverse_nil, List.nil_append] at h2
    exact EvalHap.app_fn h1 h2

theorem plist_replicate_hap (k y : Nat) :
    EvalHap (app2 Gen.PList.replicate (intoChurch k) (intoChurch y)) (cl (List.replicate k y)) := by
  obtain ⟨q, hq, hrec⟩ := replicate_core y
  refine EvalHap.app2_fn (g := q) ?_ (hrec k _ (cnum_intoChurch k))
  rw [replicate_eq]; exact cbv_Z closed_replicateF (by decide) hq

/-! ## the unbounded termination statements about the model reducer (order HAP, no step limit) -/

theorem plist_map_succ_reduce_hap (ns : List Nat) :
    ∃ fuel c, reduce .HAP 0 fuel (app2 Gen.PList.map Gen.Church.succ (cl ns)) = some (cl (ns.map (· + 1)), c) :=
  (plist_map_succ_hap ns).reduce
theorem plist_foldl_add_reduce_hap (s : Nat) (ns : List Nat) :
    ∃ fuel c, reduce .HAP 0 fuel (app3 Gen.PList.foldl Gen.Church.add (intoChurch s) (cl ns)) =
      some (intoChurch (ns.foldl (· + ·) s), c) :=
  (plist_foldl_add_hap s ns).reduce
theorem plist_foldr_add_reduce_hap (a : Nat) (ns : List Nat) :
    ∃ fuel c, reduce .HAP 0 fuel (app3 Gen.PList.foldr Gen.Church.add (intoChurch a) (cl ns)) =
      some (intoChurch (ns.foldr (· + ·) a), c) :=
  (plist_foldr_add_hap a ns).reduce
theorem plist_foldl_sub_reduce_hap (s : Nat) (ns : List Nat) :
    ∃ fuel c, reduce .HAP 0 fuel (app3 Gen.PList.foldl Gen.Church.sub (intoChurch s) (cl ns)) =
      some (intoChurch (ns.foldl (· - ·) s), c) :=
  (plist_foldl_sub_hap s ns).reduce
theorem plist_foldr_sub_reduce_hap (a : Nat) (ns : List Nat) :
    ∃ fuel c, reduce .HAP 0 fuel (app3 Gen.PList.foldr Gen.Church.sub (intoChurch a) (cl ns)) =
      some (intoChurch (ns.foldr (· - ·) a), c) :=
  (plist_foldr_sub_hap a ns).reduce
theorem plist_filter_is_zero_reduce_hap (ns : List Nat) :
    ∃ fuel c, reduce .HAP 0 fuel (app2 Gen.PList.filter Gen.Church.is_zero (cl ns)) =
      some (cl (ns.filter (· == 0)), c) :=
  (plist_filter_is_zero_hap ns).reduce
theorem plist_take_while_is_zero_reduce_hap (ns : List Nat) :
    ∃ fuel c, reduce .HAP 0 fuel (app2 Gen.PList.take_while Gen.Church.is_zero (cl ns)) =
      some (cl (ns.takeWhile (· == 0)), c) :=
  (plist_take_while_is_zero_hap ns).reduce
theorem plist_drop_while_is_zero_reduce_hap (ns : List Nat) :
    ∃ fuel c, reduce .HAP 0 fuel (app2 Gen.PList.drop_while Gen.Church.is_zero (cl ns)) =
      some (cl (ns.dropWhile (· == 0)), c) :=
  (plist_drop_while_is_zero_hap ns).reduce
theorem plist_zip_reduce_hap (ms ns : List Nat) :
    ∃ fuel c, reduce .HAP 0 fuel (app2 Gen.PList.zip (cl ms) (cl ns)) =
      some (pairList ((ms.zip ns).map (fun p => tuple2 (intoChurch p.1) (intoChurch p.2))), c) :=
  (plist_zip_hap ms ns).reduce
theorem plist_zip_with_sub_reduce_hap (ms ns : List Nat) :
    ∃ fuel c, reduce .HAP 0 fuel (app3 Gen.PList.zip_with Gen.Church.sub (cl ms) (cl ns)) =
      some (cl ((ms.zip ns).map (fun p => p.1 - p.2)), c) :=
  (plist_zip_with_sub_hap ms ns).reduce
theorem plist_take_reduce_hap (k : Nat) (ns : List Nat) :
    ∃ fuel c, reduce .HAP 0 fuel (app2 Gen.PList.take (intoChurch k) (cl ns)) = some (cl (ns.take k), c) :=
  (plist_take_hap k ns).reduce
theorem plist_drop_reduce_hap (k : Nat) (ns : List Nat) :
    ∃ fuel c, reduce .HAP 0 fuel (app2 Gen.PList.drop (intoChurch k) (cl ns)) = some (cl (ns.drop k), c) :=
  (plist_drop_hap k ns).reduce
theorem plist_replicate_reduce_hap (k y : Nat) :
    ∃ fuel c, reduce .HAP 0 fuel (app2 Gen.PList.replicate (intoChurch k) (intoChurch y)) =
      some (cl (List.replicate k y), c) :=
  (plist_replicate_hap k y).reduce
theorem plist_list_reduce_hap (ns : List Nat) :
    ∃ fuel c, reduce .HAP 0 fuel ((ns.map intoChurch).foldl app (app Gen.PList.list (intoChurch ns.length))) =
      some (cl ns, c) :=
  (plist_list_hap ns).reduce

end LC
