/-
Unbounded termination-and-result theorems for the Scott and Parigot numeral operations (and the conversions
out of Church numerals) under the EAGER orders HAP and APP, as big-step derivations (`LC/Proofs/Eager/BigStep.lean`).

POSITIVE results, BOTH orders, all arguments (`X_hap : EvalHap …`, `X_app : EvalApp …`, and `X_reduce_hap/_app` about `reduce`):
  Scott    `succ`, `pred`, `is_zero`
  Parigot  `succ`, `pred`, `is_zero`, `add`, `sub`, `mul`
  Church   `to_scott`, `to_parigot`
NEGATIVE results (the `Z`-recursive Scott operations, documented in the Rust source as unsuitable for APP and HAP):
  `scott_add/mul/pow/to_church_diverges_hap` — no fuel suffices under HAP, for ALL numeral arguments;
  `Z_diverges_app`, `scott_add/mul/pow/to_church_diverges_app` — under APP already the constant `Z` loops, hence every
  application of these operations to ANY terms.

Method.  Parigot numerals store the recursor: `P_n s z` contracts to `parigotRec s z n`; under HAP the recursive results are
operands (evaluated first), so a family of results suffices (`hap_parigotRec`).  Under APP the partial application `P_n s` is
normalised UNDER its remaining binder, i.e. the whole recursion runs with a SYMBOLIC base; the open normal forms are the
families `WT`/`XT` (successor), `NS` (predecessor), `ST` (Scott successor), with substitution lemmas and "closing" evaluations.
-/
import LC.Proofs.Eager.ChurchCbv
import LC.Proofs.Num.ScottParigot
import LC.Props.C12

namespace LC
open Term Spec Enc RL Eager

set_option linter.unusedSimpArgs false
attribute [local irreducible] iterApp

namespace EagerSP

/-! ## 1. shapes of the numerals -/

@[simp] theorem isNormal_intoScott (n : Nat) : isNormal (intoScott n) = true := C12_normal_scott n
@[simp] theorem isWNF_intoScott (n : Nat) : isWNF (intoScott n) = true := by cases n <;> rfl
@[simp] theorem isAbs_intoScott (n : Nat) : isAbs (intoScott n) = true := by cases n <;> rfl

@[simp] theorem isNormal_intoParigot (n : Nat) : isNormal (intoParigot n) = true := C12_normal_parigot n
@[simp] theorem isWNF_intoParigot (n : Nat) : isWNF (intoParigot n) = true := by cases n <;> rfl
@[simp] theorem isAbs_intoParigot (n : Nat) : isAbs (intoParigot n) = true := by cases n <;> rfl

@[simp] theorem isNormal_parigotBody (n : Nat) : isNormal (parigotBody n) = true := by
  have := isNormal_intoParigot n
  rw [intoParigot_eq] at this
  simpa [isNormal] using this

@[simp] theorem isNormal_parigot_succ : isNormal Gen.Parigot.succ = true := by decide
@[simp] theorem isNormal_parigot_pred : isNormal Gen.Parigot.pred = true := by decide
@[simp] theorem isNormal_scott_succ : isNormal Gen.Scott.succ = true := by decide

/-! ## 2. Parigot elimination under the eager orders -/

theorem applyAux_parigotBody2 (s : Term) (n : Nat) :
    applyAux s 2 (parigotBody n) = parigotRec (shiftFV 1 0 s) (var 1) n := by
  induction n with
  | zero => simp [parigotBody, applyAux]
  | succ n ih => rw [parigotBody_succ]; lc_simp [parigotRec, ih]

theorem applyAux_parigotRec (r : Term) (d : Nat) (hd : 1 ≤ d) (s z : Term) (n : Nat) :
    applyAux r d (parigotRec s z n) = parigotRec (applyAux r d s) (applyAux r d z) n := by
  induction n with
  | zero => rfl
  | succ n ih => lc_simp [parigotRec, ih]

theorem shiftFV_parigotRec (a o : Nat) (s z : Term) (n : Nat) :
    shiftFV a o (parigotRec s z n) = parigotRec (shiftFV a o s) (shiftFV a o z) n := by
  induction n with
  | zero => rfl
  | succ n ih => lc_simp [parigotRec, ih]

/-- a Parigot numeral applied to its step argument, CBV (and hence in operator position under HAP): ONE contraction;
the result is the closure `λz. parigotRec s z n` -/
theorem cbvcont_parigot {n : Nat} {s : Term} :
    CbvCont (intoParigot n) s (abs (parigotRec (shiftFV 1 0 s) (var 1) n)) := by
  rw [intoParigot_eq]
  apply CbvCont.red
  simp only [contract, applyAux, Nat.reduceAdd, applyAux_parigotBody2]
  exact EvalCbv.abs _

/-- the same under APP: the recursion is then evaluated UNDER the binder `λz`, with `z` symbolic -/
theorem appcont_parigot {n : Nat} {s r : Term} (h : EvalApp (abs (parigotRec (shiftFV 1 0 s) (var 1) n)) r) :
    AppCont (intoParigot n) s r := by
  rw [intoParigot_eq]
  apply AppCont.red
  simp only [contract, applyAux, Nat.reduceAdd, applyAux_parigotBody2]
  exact h

@[simp] theorem isNormal_parigotRec_var (i : Nat) (z : Term) (n : Nat) :
    isNormal (parigotRec (var i) z n) = isNormal z := by
  induction n with
  | zero => rfl
  | succ n ih => simp [parigotRec, isNormal, isAbs, ih]

/-- primitive recursion: a family of results suffices (the recursive result is the OPERAND, evaluated first) -/
theorem hap_parigotRec {s z : Term} (w : Nat → Term) (h0 : EvalHap z (w 0))
    (hs : ∀ k, EvalHap (app2 s (intoParigot k) (w k)) (w (k + 1))) (n : Nat) : EvalHap (parigotRec s z n) (w n) := by
  induction n with
  | zero => exact h0
  | succ n ih => exact EvalHap.app_arg ih (hs n)

theorem cbv_parigotRec {s z : Term} (w : Nat → Term) (h0 : EvalCbv z (w 0))
    (hs : ∀ k, EvalCbv (app2 s (intoParigot k) (w k)) (w (k + 1))) (n : Nat) : EvalCbv (parigotRec s z n) (w n) := by
  induction n with
  | zero => exact h0
  | succ n ih => exact EvalCbv.app_arg ih (hs n)

theorem app_parigotRec {s z : Term} (w : Nat → Term) (h0 : EvalApp z (w 0))
    (hs : ∀ k, EvalApp (app2 s (intoParigot k) (w k)) (w (k + 1))) (n : Nat) : EvalApp (parigotRec s z n) (w n) := by
  induction n with
  | zero => exact h0
  | succ n ih => exact EvalApp.app_arg ih (hs n)

/-- `ev` extended by the elimination rule of Parigot numerals in head position -/
syntax "evp" (" [" Lean.Parser.Tactic.simpLemma,* "]")? : tactic
macro_rules
  | `(tactic| evp) => `(tactic| repeat (first
      | assumption
      | exact cbvcont_parigot
      | (apply appcont_parigot; try ev_simp [applyAux_parigotRec, shiftFV_parigotRec, ScottParigot.parigotRec_vars])
      | ev_step [applyAux_parigotRec, shiftFV_parigotRec, ScottParigot.parigotRec_vars]))
  | `(tactic| evp [$ls,*]) => `(tactic| repeat (first
      | assumption
      | exact cbvcont_parigot
      | (apply appcont_parigot; try ev_simp [applyAux_parigotRec, shiftFV_parigotRec, ScottParigot.parigotRec_vars, $ls,*])
      | ev_step [applyAux_parigotRec, shiftFV_parigotRec, ScottParigot.parigotRec_vars, $ls,*]))

end EagerSP

open EagerSP

/-! ## 3. Scott: `succ`, `pred`, `is_zero` -/

theorem scott_succ_hap (n : Nat) : EvalHap (app Gen.Scott.succ (intoScott n)) (intoScott (n + 1)) := by
  ev

theorem scott_succ_app (n : Nat) : EvalApp (app Gen.Scott.succ (intoScott n)) (intoScott (n + 1)) := by
  ev

theorem scott_pred_hap (n : Nat) : EvalHap (app Gen.Scott.pred (intoScott n)) (intoScott (n - 1)) := by
  cases n <;> ev

theorem scott_pred_app (n : Nat) : EvalApp (app Gen.Scott.pred (intoScott n)) (intoScott (n - 1)) := by
  cases n <;> ev

theorem scott_is_zero_hap (n : Nat) : EvalHap (app Gen.Scott.is_zero (intoScott n)) (fromBool (n == 0)) := by
  cases n <;> ev

theorem scott_is_zero_app (n : Nat) : EvalApp (app Gen.Scott.is_zero (intoScott n)) (fromBool (n == 0)) := by
  cases n <;> ev

/-! ## 4. Parigot: `succ`, `pred`, `is_zero` -/

theorem parigot_succ_hap (n : Nat) : EvalHap (app Gen.Parigot.succ (intoParigot n)) (intoParigot (n + 1)) := by
  rw [intoParigot_eq (n + 1), parigotBody_succ]
  evp

theorem parigot_succ_app (n : Nat) : EvalApp (app Gen.Parigot.succ (intoParigot n)) (intoParigot (n + 1)) := by
  rw [intoParigot_eq (n + 1), parigotBody_succ]
  evp

theorem parigot_pred_hap (n : Nat) : EvalHap (app Gen.Parigot.pred (intoParigot n)) (intoParigot (n - 1)) := by
  evp
  exact hap_parigotRec (fun k => intoParigot (k - 1)) (by evp) (fun k => by evp) n

theorem parigot_is_zero_hap (n : Nat) : EvalHap (app Gen.Parigot.is_zero (intoParigot n)) (fromBool (n == 0)) := by
  evp
  exact hap_parigotRec (fun k => fromBool (k == 0)) (by evp) (fun k => by evp) n

theorem parigot_pred_app (n : Nat) : EvalApp (app Gen.Parigot.pred (intoParigot n)) (intoParigot (n - 1)) := by
  evp
  exact app_parigotRec (fun k => match k with | 0 => var 1 | k + 1 => intoParigot k) (by evp)
    (fun k => by cases k <;> evp) n
  ev_step
  cases n <;> evp

theorem parigot_is_zero_app (n : Nat) : EvalApp (app Gen.Parigot.is_zero (intoParigot n)) (fromBool (n == 0)) := by
  evp
  exact app_parigotRec (fun k => match k with | 0 => var 1 | _ + 1 => Gen.Bool.fls) (by evp)
    (fun k => by cases k <;> evp) n
  ev_step
  cases n <;> evp

/-! ## 5. Parigot `add`, `sub`, `mul` under HAP -/

namespace EagerSP

/-- the recursion of `add`: `m (λp. SUCC) n` -/
theorem parigot_add_core_hap (m n : Nat) :
    EvalHap (app2 (intoParigot m) (abs Gen.Parigot.succ) (intoParigot n)) (intoParigot (m + n)) := by
  rw [Nat.add_comm]
  evp
  exact hap_parigotRec (fun k => intoParigot (n + k)) (by evp)
    (fun k => by have := parigot_succ_hap (n + k); evp) m

end EagerSP

theorem parigot_add_hap (m n : Nat) :
    EvalHap (app2 Gen.Parigot.add (intoParigot m) (intoParigot n)) (intoParigot (m + n)) := by
  have := parigot_add_core_hap m n
  evp

theorem parigot_sub_hap (m n : Nat) :
    EvalHap (app2 Gen.Parigot.sub (intoParigot m) (intoParigot n)) (intoParigot (m - n)) := by
  evp
  exact hap_parigotRec (fun k => intoParigot (m - k)) (by evp)
    (fun k => by have := parigot_pred_hap (m - k); evp) n

theorem parigot_mul_hap (m n : Nat) :
    EvalHap (app2 Gen.Parigot.mul (intoParigot m) (intoParigot n)) (intoParigot (m * n)) := by
  evp
  exact hap_parigotRec (fun k => intoParigot (k * n)) (by simp only [Nat.zero_mul]; evp)
    (fun k => by
      have := parigot_add_core_hap n (k * n)
      rw [show (k + 1) * n = n + k * n by rw [Nat.succ_mul, Nat.add_comm]]
      evp) m

/-! ## 6. conversions out of Church numerals under HAP -/

theorem church_to_scott_hap (n : Nat) : EvalHap (app Gen.Church.to_scott (intoChurch n)) (intoScott n) := by
  ev
  exact hap_iterApp (fun k => intoScott k) (by ev) (fun k => scott_succ_hap k) n

theorem church_to_parigot_hap (n : Nat) : EvalHap (app Gen.Church.to_parigot (intoChurch n)) (intoParigot n) := by
  ev
  exact hap_iterApp (fun k => intoParigot k) (by ev) (fun k => parigot_succ_hap k) n

/-! ## 7. APP: open normal forms

Under APP the partial application `P_m s` is normalised UNDER its remaining binder `λz`, i.e. the whole recursion runs with a
symbolic base `z`; the operand is substituted afterwards and the result is evaluated again.  `WT k x` is the shape of
`succᵏ x` ("the numeral `k` built on `x` instead of zero"), `XT k x` that of `succᵏ x s z` under the binders `λs z`. -/

namespace EagerSP

/-- `succᵏ x s z`, evaluated, for the bound variables `s = var 2`, `z = var 1` (`x` as seen under these binders) -/
def XT : Nat → Term → Term
  | 0, x => app2 x (var 2) (var 1)
  | k + 1, x => app2 (var 2) (match k with | 0 => x | _ + 1 => abs (abs (XT k (shiftFV 2 0 x)))) (XT k x)

/-- `succᵏ x`, evaluated -/
def WT (k : Nat) (x : Term) : Term :=
  match k with
  | 0 => x
  | _ + 1 => abs (abs (XT k (shiftFV 2 0 x)))

theorem XT_zero (x : Term) : XT 0 x = app2 x (var 2) (var 1) := rfl
theorem XT_succ (k : Nat) (x : Term) : XT (k + 1) x = app2 (var 2) (WT k x) (XT k x) := by
  cases k <;> rfl
theorem WT_zero (x : Term) : WT 0 x = x := rfl
theorem WT_succ (k : Nat) (x : Term) : WT (k + 1) x = abs (abs (XT (k + 1) (shiftFV 2 0 x))) := rfl

theorem shiftFV_XT_WT (a : Nat) (k : Nat) : ∀ (x : Term) (o : Nat),
    (2 ≤ o → shiftFV a o (XT k x) = XT k (shiftFV a o x)) ∧ shiftFV a o (WT k x) = WT k (shiftFV a o x) := by
  induction k with
  | zero =>
    intro x o
    refine ⟨fun ho => ?_, rfl⟩
    have h1 : ¬ (2 > o) := by omega
    have h2 : ¬ (1 > o) := by omega
    simp [XT_zero, shiftFV, h1, h2]
  | succ k ih =>
    intro x o
    have hX : ∀ (x : Term) (o : Nat), 2 ≤ o → shiftFV a o (XT (k + 1) x) = XT (k + 1) (shiftFV a o x) := by
      intro x o ho
      have h1 : ¬ (2 > o) := by omega
      simp [XT_succ, shiftFV, h1, (ih x o).1 ho, (ih x o).2]
    refine ⟨hX x o, ?_⟩
    simp only [WT_succ, shiftFV]
    rw [hX _ _ (by omega), shiftFV_comm 2 a 0 o (by omega)]

theorem shiftFV_XT (a o : Nat) (ho : 2 ≤ o) (k : Nat) (x : Term) : shiftFV a o (XT k x) = XT k (shiftFV a o x) :=
  (shiftFV_XT_WT a k x o).1 ho
theorem shiftFV_WT (a o : Nat) (k : Nat) (x : Term) : shiftFV a o (WT k x) = WT k (shiftFV a o x) :=
  (shiftFV_XT_WT a k x o).2

theorem applyAux_XT_WT (r : Term) (k : Nat) : ∀ (x : Term) (d : Nat),
    (3 ≤ d → applyAux r d (XT k x) = XT k (applyAux r d x)) ∧
    (1 ≤ d → applyAux r d (WT k x) = WT k (applyAux r d x)) := by
  induction k with
  | zero =>
    intro x d
    refine ⟨fun hd => ?_, fun _ => rfl⟩
    have h1 : ¬ (2 = d) := by omega
    have h2 : ¬ (2 > d) := by omega
    have h3 : ¬ (1 = d) := by omega
    have h4 : ¬ (1 > d) := by omega
    simp [XT_zero, applyAux, h1, h2, h3, h4]
  | succ k ih =>
    intro x d
    have hX : ∀ (x : Term) (d : Nat), 3 ≤ d → applyAux r d (XT (k + 1) x) = XT (k + 1) (applyAux r d x) := by
      intro x d hd
      have h1 : ¬ (2 = d) := by omega
      have h2 : ¬ (2 > d) := by omega
      simp [XT_succ, applyAux, h1, h2, (ih x d).1 hd, (ih x d).2 (by omega)]
    refine ⟨hX x d, fun hd => ?_⟩
    simp only [WT_succ, applyAux]
    rw [hX _ _ (by omega), shiftFV_applyAux_lt 2 0 d hd (by omega)]

theorem applyAux_XT (r : Term) (d : Nat) (hd : 3 ≤ d) (k : Nat) (x : Term) :
    applyAux r d (XT k x) = XT k (applyAux r d x) := (applyAux_XT_WT r k x d).1 hd
theorem applyAux_WT (r : Term) (d : Nat) (hd : 1 ≤ d) (k : Nat) (x : Term) :
    applyAux r d (WT k x) = WT k (applyAux r d x) := (applyAux_XT_WT r k x d).2 hd

/-- re-opening `λs z. XT k y` with the variables `s`, `z` of the enclosing binders -/
theorem applyAux_XT_reopen (k : Nat) (y : Term) :
    applyAux (var 1) 1 (applyAux (var 2) 2 (XT k y)) = XT k (applyAux (var 1) 1 (applyAux (var 2) 2 y)) := by
  induction k with
  | zero => simp [XT_zero, applyAux, shiftFV]
  | succ k ih => simp [XT_succ, applyAux, shiftFV, ih, applyAux_WT]

theorem isNormal_XT_WT (k : Nat) : ∀ i, isNormal (XT k (var i)) = true ∧ isNormal (WT k (var i)) = true := by
  induction k with
  | zero => intro i; exact ⟨rfl, rfl⟩
  | succ k ih =>
    intro i
    have hX : ∀ i, isNormal (XT (k + 1) (var i)) = true := by
      intro i; simp [XT_succ, isNormal, isAbs, (ih i).1, (ih i).2]
    refine ⟨hX i, ?_⟩
    simp only [WT_succ, isNormal, shiftFV]
    split <;> exact hX _

@[simp] theorem isNormal_XT (k i : Nat) : isNormal (XT k (var i)) = true := (isNormal_XT_WT k i).1
@[simp] theorem isNormal_WT (k i : Nat) : isNormal (WT k (var i)) = true := (isNormal_XT_WT k i).2

/-- renaming a variable preserves normality -/
@[simp] theorem isNormal_applyAux_var (i d : Nat) (t : Term) : isNormal (applyAux (var i) d t) = isNormal t := by
  induction t generalizing d with
  | var j =>
    by_cases h1 : j = d <;> by_cases h2 : i > 0 <;> by_cases h3 : j > d <;>
      simp [applyAux, shiftFV, h1, h2, h3, isNormal]
  | abs b ih => simp [applyAux, isNormal, ih]
  | app l r ihl ihr =>
    have : isAbs (applyAux (var i) d l) = isAbs l := by
      cases l with
      | var j =>
        by_cases h1 : j = d <;> by_cases h2 : i > 0 <;> by_cases h3 : j > d <;>
          simp [applyAux, shiftFV, h1, h2, h3, isAbs]
      | abs b => rfl
      | app a b => rfl
    simp [applyAux, isNormal, ihl, ihr, this]

attribute [irreducible] XT WT

/-- `succᵏ x s z` for variables: the two contractions only rename -/
theorem app_reopen_WT (k j : Nat) (hj : 1 ≤ j) :
    EvalApp (app2 (WT k (var j)) (var 2) (var 1)) (XT k (var j)) := by
  have e : shiftFV 2 0 (var j) = var (j + 2) := by simp [shiftFV]; omega
  cases k with
  | zero => simp only [WT_zero, XT_zero]; ev
  | succ k =>
    have h1 : j ≠ 0 := by omega
    have h2 : 0 < j := hj
    simp only [WT_succ, e]
    ev [applyAux_XT_reopen, h1, h2]

/-- one more `succ` on an open normal form -/
theorem app_succ_WT (k i : Nat) (hi : 1 ≤ i) :
    EvalApp (app Gen.Parigot.succ (WT k (var i))) (WT (k + 1) (var i)) := by
  have h := app_reopen_WT k (i + 2) (by omega)
  have e : shiftFV 2 0 (var i) = var (i + 2) := by simp [shiftFV]; omega
  have h2 : 0 < i := hi
  rw [WT_succ, XT_succ, e]
  ev [shiftFV_WT, h2]

/-- after the base has been substituted: the numeral is rebuilt -/
theorem app_XT_WT_closed (m k : Nat) :
    EvalApp (XT k (intoParigot m)) (parigotBody (m + k)) ∧ EvalApp (WT k (intoParigot m)) (intoParigot (m + k)) := by
  induction k with
  | zero =>
    refine ⟨?_, by rw [WT_zero]; exact EvalApp.of_isNormal (isNormal_intoParigot m)⟩
    rw [XT_zero]; evp
  | succ k ih =>
    have hX : EvalApp (XT (k + 1) (intoParigot m)) (parigotBody (m + k + 1)) := by
      rw [XT_succ, parigotBody_succ]
      exact EvalApp.appNeu (EvalApp.appNeu (EvalApp.var 2) rfl ih.2) rfl ih.1
    refine ⟨hX, ?_⟩
    rw [WT_succ, shiftFV_of_closed (closed_intoParigot m), intoParigot_eq (m + (k + 1))]
    exact EvalApp.abs (EvalApp.abs hX)

theorem app_WT_closed (m k : Nat) : EvalApp (WT k (intoParigot m)) (intoParigot (m + k)) := (app_XT_WT_closed m k).2

/-- the recursion of `add` and of `Church.to_parigot` under APP, with a symbolic base -/
theorem app_parigot_succ_rec (m : Nat) :
    EvalApp (app (intoParigot m) (abs Gen.Parigot.succ)) (abs (WT m (var 1))) := by
  evp
  exact app_parigotRec (fun k => WT k (var 1)) (by simp only [WT_zero]; ev)
    (fun k => by have := app_succ_WT k 1 (by omega); evp) m

theorem app_church_succ_rec (n : Nat) :
    EvalApp (app (intoChurch n) Gen.Parigot.succ) (abs (WT n (var 1))) := by
  ev
  exact app_iterApp (fun k => WT k (var 1)) (by simp only [WT_zero]; ev)
    (fun k => app_succ_WT k 1 (by omega)) n

end EagerSP

/-! ## 8. Parigot `add`, `mul`, `Church.to_parigot` under APP -/

theorem parigot_add_app (m n : Nat) :
    EvalApp (app2 Gen.Parigot.add (intoParigot m) (intoParigot n)) (intoParigot (m + n)) := by
  have h1 := app_parigot_succ_rec m
  have h2 := app_WT_closed n m
  rw [Nat.add_comm]
  evp [applyAux_WT]

theorem church_to_parigot_app (n : Nat) : EvalApp (app Gen.Church.to_parigot (intoChurch n)) (intoParigot n) := by
  have h1 := app_church_succ_rec n
  have h2 := app_WT_closed 0 n
  rw [Nat.zero_add] at h2
  evp [applyAux_WT]

theorem parigot_mul_app (m n : Nat) :
    EvalApp (app2 Gen.Parigot.mul (intoParigot m) (intoParigot n)) (intoParigot (m * n)) := by
  have h1 := app_parigot_succ_rec n
  evp
  exact app_parigotRec (fun k => iterApp (app (var 2) (abs Gen.Parigot.succ)) (var 1) k) (by simp only [iterApp_zero]; ev)
    (fun k => by rw [iterApp_succ]; evp) m
  evp
  apply app_iterApp' (w := fun k => intoParigot (k * n)) h1
  · simp only [Nat.zero_mul]; evp
  · intro k
    have h2 := app_WT_closed (k * n) n
    rw [Nat.succ_mul]
    evp [applyAux_WT]

/-! ## 9. Parigot `sub` under APP -/

namespace EagerSP

theorem EvalApp.app_fn' {f g x r : Term} (hf : EvalApp f g) (h : EvalApp (Term.app g x) r) :
    EvalApp (Term.app f x) r := by
  cases h with
  | appRed hl hr hn =>
    have e1 := hl.normal_eq hf.isNormal; rw [← e1] at hf
    exact EvalApp.appRed hf hr hn
  | appNeu hl hna hr =>
    have e1 := hl.normal_eq hf.isNormal; subst e1
    exact EvalApp.appNeu hf hna hr

theorem EvalApp.app2_fn' {f g a b r : Term} (hf : EvalApp f g) (h : EvalApp (Term.app (Term.app g a) b) r) :
    EvalApp (Term.app (Term.app f a) b) r := by
  cases h with
  | appRed hl hr hn => exact EvalApp.appRed (EvalApp.app_fn' hf hl) hr hn
  | appNeu hl hna hr => exact EvalApp.appNeu (EvalApp.app_fn' hf hl) hna hr

/-- `predᵏ x` for a symbolic `x`, evaluated: the neutral term `x K ZERO K ZERO …` -/
def NS (x : Term) : Nat → Term
  | 0 => x
  | k + 1 => app2 (NS x k) (abs (abs (var 2))) (abs (abs (var 1)))

theorem applyAux_NS (r : Term) (d : Nat) (hd : 1 ≤ d) (x : Term) (k : Nat) :
    applyAux r d (NS x k) = NS (applyAux r d x) k := by
  induction k with
  | zero => rfl
  | succ k ih =>
    have h1 : ¬ (d = 0) := by omega
    have h2 : ¬ (d + 1 + 1 < 2) := by omega
    simp [NS, applyAux, ih, h1, h2]

@[simp] theorem isAbs_NS (i k : Nat) : isAbs (NS (var i) k) = false := by cases k <;> rfl

@[simp] theorem isNormal_NS (i k : Nat) : isNormal (NS (var i) k) = true := by
  induction k with
  | zero => rfl
  | succ k ih =>
    simp only [NS, isNormal]
    rw [isAbs_NS, ih]; rfl

theorem app_pred_NS (i k : Nat) : EvalApp (app Gen.Parigot.pred (NS (var i) k)) (NS (var i) (k + 1)) := by
  cases k <;> ev

/-- the core of `pred` -/
theorem app_parigot_pred_core (n : Nat) :
    EvalApp (app2 (intoParigot n) (abs (abs (var 2))) (abs (abs (var 1)))) (intoParigot (n - 1)) := by
  evp
  exact app_parigotRec (fun k => match k with | 0 => var 1 | k + 1 => intoParigot k) (by evp)
    (fun k => by cases k <;> evp) n
  ev_step
  cases n <;> evp

theorem app_NS_closed (m k : Nat) : EvalApp (NS (intoParigot m) k) (intoParigot (m - k)) := by
  induction k with
  | zero => exact EvalApp.of_isNormal (isNormal_intoParigot m)
  | succ k ih => exact EvalApp.app2_fn' ih (app_parigot_pred_core (m - k))

end EagerSP

theorem parigot_sub_app (m n : Nat) :
    EvalApp (app2 Gen.Parigot.sub (intoParigot m) (intoParigot n)) (intoParigot (m - n)) := by
  have h := app_NS_closed m n
  evp
  exact app_parigotRec (fun k => NS (var 1) k) (by ev) (fun k => by have := app_pred_NS 1 k; evp) n
  evp [applyAux_NS]

/-! ## 10. `Church.to_scott` under APP -/

namespace EagerSP

/-- `succᵏ x` (Scott), evaluated: the Scott numeral `k` built on `x` instead of zero -/
def ST : Nat → Term → Term
  | 0, x => x
  | k + 1, x => abs (abs (app (var 1) (ST k (shiftFV 2 0 x))))

theorem shiftFV_ST (a : Nat) (k : Nat) : ∀ (o : Nat) (x : Term), shiftFV a o (ST k x) = ST k (shiftFV a o x) := by
  induction k with
  | zero => intro o x; rfl
  | succ k ih =>
    intro o x
    have h1 : ¬ (1 > o + 1 + 1) := by omega
    simp only [ST, shiftFV, h1, if_false]
    rw [ih, shiftFV_comm 2 a 0 o (by omega)]

theorem applyAux_ST (r : Term) (k : Nat) : ∀ (d : Nat) (x : Term), 1 ≤ d → applyAux r d (ST k x) = ST k (applyAux r d x) := by
  induction k with
  | zero => intro d x _; rfl
  | succ k ih =>
    intro d x hd
    have h1 : ¬ (1 = d + 1 + 1) := by omega
    have h2 : ¬ (1 > d + 1 + 1) := by omega
    simp only [ST, applyAux, h1, h2, if_false]
    rw [ih _ _ (by omega), shiftFV_applyAux_lt 2 0 d hd (by omega)]

@[simp] theorem isNormal_ST (k : Nat) : ∀ i, isNormal (ST k (var i)) = true := by
  induction k with
  | zero => intro i; rfl
  | succ k ih =>
    intro i
    simp only [ST, isNormal, shiftFV, isAbs]
    split <;> simp [ih]

theorem ST_zero (k : Nat) : ST k (abs (abs (var 2))) = intoScott k := by
  induction k with
  | zero => rfl
  | succ k ih => simp only [ST, intoScott]; rw [show shiftFV 2 0 (abs (abs (var 2))) = abs (abs (var 2)) from rfl, ih]

theorem app_succ_ST (k i : Nat) (hi : 0 < i) :
    EvalApp (app Gen.Scott.succ (ST k (var i))) (ST (k + 1) (var i)) := by
  have e : shiftFV 2 0 (var i) = var (i + 2) := by simp [shiftFV]; omega
  simp only [ST, e]
  ev [shiftFV_ST, hi]

end EagerSP

theorem church_to_scott_app (n : Nat) : EvalApp (app Gen.Church.to_scott (intoChurch n)) (intoScott n) := by
  ev
  exact app_iterApp (fun k => ST k (var 1)) (by ev) (fun k => app_succ_ST k 1 (by omega)) n
  ev [applyAux_ST, ST_zero]

/-! ## 11. negative result: the `Z`-recursive Scott operations diverge under HAP

`Scott.add = Z (λf m n. m n (λo. SUCC (f o n)))`: HAP normalises the OPERAND `λo. SUCC (f o n)` — under its binder — before the
numeral `m` can select a branch; the recursive call `f o n` (through the stub `λv. ZF F v`) unfolds to
`o n (λo'. SUCC (f o' n))`, whose operand is the SAME term again: a visible loop, for every argument.  (The Rust docs say:
"will overflow the stack if used with an applicative-family (APP or HAP) reduction order".) -/

namespace EagerSP

/-- some run of `betaHap 0` with this fuel terminates on `t` -/
def HapRuns (f : Nat) (t : Term) : Prop := ∃ c p, betaHap 0 f t c = some p

theorem cbv_det {t v v' : Term} {f c c' : Nat} (h : EvalCbv t v) (e : betaCbv 0 f t c = some (v', c')) : v' = v := by
  obtain ⟨f0, h0⟩ := h.run
  obtain ⟨k, e0⟩ := h0 c
  have e1 := betaCbv_mono 0 e (Nat.le_max_left f f0)
  have e2 := betaCbv_mono 0 e0 (Nat.le_max_right f f0)
  rw [e1] at e2
  injection e2 with e2; injection e2

theorem hap_det {t v v' : Term} {f c c' : Nat} (h : EvalHap t v) (e : betaHap 0 f t c = some (v', c')) : v' = v := by
  obtain ⟨f0, h0⟩ := h.run
  obtain ⟨k, e0⟩ := h0 c
  have e1 := betaHap_mono 0 e (Nat.le_max_left f f0)
  have e2 := betaHap_mono 0 e0 (Nat.le_max_right f f0)
  rw [e1] at e2
  injection e2 with e2; injection e2

/-- a terminating run on `λb` contains a terminating run on `b` -/
theorem HapRuns.abs {f : Nat} {b : Term} (h : HapRuns f (abs b)) : ∃ f', f' < f ∧ HapRuns f' b := by
  obtain ⟨c, p, e⟩ := h
  cases f with
  | zero => simp [betaHap] at e
  | succ f =>
    refine ⟨f, by omega, c, ?_⟩
    rw [betaHap] at e
    simp only [gate_zero, Bool.false_eq_true, if_false] at e
    cases h' : betaHap 0 f b c with
    | none => simp [h'] at e
    | some q => exact ⟨q, rfl⟩

/-- … on `l r` one on the operand `r` -/
theorem HapRuns.arg {f : Nat} {l r : Term} (h : HapRuns f (app l r)) : ∃ f', f' < f ∧ HapRuns f' r := by
  obtain ⟨c, p, e⟩ := h
  cases f with
  | zero => simp [betaHap] at e
  | succ f =>
    rw [betaHap] at e
    simp only [gate_zero, Bool.false_eq_true, if_false] at e
    cases hl : betaCbv 0 f l c with
    | none => simp [hl] at e
    | some q =>
      obtain ⟨l', c1⟩ := q
      simp only [hl] at e
      cases hr : betaHap 0 f r c1 with
      | none => simp [hr] at e
      | some q' => exact ⟨f, by omega, c1, q', hr⟩

/-- … and, when the operator evaluates to an abstraction, one on the contractum -/
theorem HapRuns.red {f : Nat} {l r b r' : Term} (h : HapRuns f (app l r)) (hl : EvalCbv l (Term.abs b))
    (hr : EvalHap r r') : ∃ f', f' < f ∧ HapRuns f' (contract b r') := by
  obtain ⟨c, p, e⟩ := h
  cases f with
  | zero => simp [betaHap] at e
  | succ f =>
    rw [betaHap] at e
    simp only [gate_zero, Bool.false_eq_true, if_false] at e
    cases h1 : betaCbv 0 f l c with
    | none => simp [h1] at e
    | some q =>
      obtain ⟨l', c1⟩ := q
      simp only [h1] at e
      cases h2 : betaHap 0 f r c1 with
      | none => simp [h2] at e
      | some q' =>
        obtain ⟨r'', c2⟩ := q'
        have e1 := cbv_det hl h1
        have e2 := hap_det hr h2
        subst e1 e2
        simp only [h2, isAbs, budget_zero, Bool.and_self, if_true] at e
        exact ⟨f, by omega, c2 + 1, p, e⟩

/-- the operand that HAP tries to normalise first: `λo. SUCC (f o n)` with `f` the recursive-call stub -/
def addLoop (n : Nat) : Term := abs (app Gen.Scott.succ (app2 (stub scottAddF) (var 1) (intoScott n)))

theorem addLoop_step (n : Nat) : ∃ b, EvalCbv (app (stub scottAddF) (var 1)) (abs b) ∧
    contract b (intoScott n) = app2 (var 1) (intoScott n) (addLoop n) := by
  apply Exists.intro
  apply And.intro
  · simp only [stub, ZF, ZW]; ev
  · simp [lc_simp, addLoop, stub, ZF, ZW, scottAddF, appArg, Gen.Scott.add, Gen.Scott.succ]

theorem addLoop_diverges (n : Nat) : ∀ f, ¬ HapRuns f (addLoop n) := by
  intro f
  induction f using Nat.strongRecOn with
  | _ f ih =>
    intro h
    obtain ⟨f1, l1, h1⟩ := HapRuns.abs h
    obtain ⟨f2, l2, h2⟩ := HapRuns.arg h1
    obtain ⟨b, hb, eb⟩ := addLoop_step n
    obtain ⟨f3, l3, h3⟩ := HapRuns.red h2 hb (EvalHap.of_isNormal (isNormal_intoScott n))
    rw [eb] at h3
    obtain ⟨f4, l4, h4⟩ := HapRuns.arg h3
    exact ih f4 (by omega) h4

theorem scott_add_step (m n : Nat) : ∃ b, EvalCbv (app Gen.Scott.add (intoScott m)) (abs b) ∧
    contract b (intoScott n) = app2 (intoScott m) (intoScott n) (addLoop n) := by
  apply Exists.intro
  apply And.intro
  · ev
  · simp [lc_simp, addLoop, stub, ZF, ZW, scottAddF, appArg, Gen.Scott.add, Gen.Scott.succ]

end EagerSP

/-- `Scott.add m n` does not terminate under HAP, for ANY arguments: no amount of fuel suffices -/
theorem scott_add_diverges_hap (m n fuel : Nat) :
    reduce .HAP 0 fuel (app2 Gen.Scott.add (intoScott m) (intoScott n)) = none := by
  cases h : reduce .HAP 0 fuel (app2 Gen.Scott.add (intoScott m) (intoScott n)) with
  | none => rfl
  | some p =>
    exfalso
    have h0 : HapRuns fuel (app2 Gen.Scott.add (intoScott m) (intoScott n)) := ⟨0, p, h⟩
    obtain ⟨b, hb, eb⟩ := scott_add_step m n
    obtain ⟨f1, _, h1⟩ := HapRuns.red h0 hb (EvalHap.of_isNormal (isNormal_intoScott n))
    rw [eb] at h1
    obtain ⟨f2, _, h2⟩ := HapRuns.arg h1
    exact addLoop_diverges n f2 h2

/-! the same loop for `mul` and `pow` -/

namespace EagerSP

/-- `λo. ADD n (f o n)` with `f` the recursive-call stub of `mul` -/
def mulLoop (n : Nat) : Term :=
  abs (app2 Gen.Scott.add (intoScott n) (app2 (stub ScottParigot.scottMulF) (var 1) (intoScott n)))

theorem mulLoop_step (n : Nat) : ∃ b, EvalCbv (app (stub ScottParigot.scottMulF) (var 1)) (abs b) ∧
    contract b (intoScott n) = app2 (var 1) (intoScott 0) (mulLoop n) := by
  apply Exists.intro
  apply And.intro
  · simp only [stub, ZF, ZW]; ev
  · simp [lc_simp, mulLoop, stub, ZF, ZW, ScottParigot.scottMulF, appArg, Gen.Scott.mul, Gen.Scott.add, intoScott]

theorem mulLoop_diverges (n : Nat) : ∀ f, ¬ HapRuns f (mulLoop n) := by
  intro f
  induction f using Nat.strongRecOn with
  | _ f ih =>
    intro h
    obtain ⟨f1, l1, h1⟩ := HapRuns.abs h
    obtain ⟨f2, l2, h2⟩ := HapRuns.arg h1
    obtain ⟨b, hb, eb⟩ := mulLoop_step n
    obtain ⟨f3, l3, h3⟩ := HapRuns.red h2 hb (EvalHap.of_isNormal (isNormal_intoScott n))
    rw [eb] at h3
    obtain ⟨f4, l4, h4⟩ := HapRuns.arg h3
    exact ih f4 (by omega) h4

theorem scott_mul_step (m n : Nat) : ∃ b, EvalCbv (app Gen.Scott.mul (intoScott m)) (abs b) ∧
    contract b (intoScott n) = app2 (intoScott m) (intoScott 0) (mulLoop n) := by
  apply Exists.intro
  apply And.intro
  · ev
  · simp [lc_simp, mulLoop, stub, ZF, ZW, ScottParigot.scottMulF, appArg, Gen.Scott.mul, Gen.Scott.add, intoScott]

/-- `λo. MUL m (f m o)` with `f` the recursive-call stub of `pow` -/
def powLoop (m : Nat) : Term :=
  abs (app2 Gen.Scott.mul (intoScott m) (app2 (stub ScottParigot.scottPowF) (intoScott m) (var 1)))

theorem powLoop_step (m : Nat) : ∃ b, EvalCbv (app (stub ScottParigot.scottPowF) (intoScott m)) (abs b) ∧
    contract b (var 1) = app2 (var 1) (intoScott 1) (powLoop m) := by
  apply Exists.intro
  apply And.intro
  · simp only [stub, ZF, ZW]; ev
  · simp [lc_simp, powLoop, stub, ZF, ZW, ScottParigot.scottPowF, appArg, Gen.Scott.pow, Gen.Scott.mul, Gen.Scott.add,
      intoScott]

theorem powLoop_diverges (m : Nat) : ∀ f, ¬ HapRuns f (powLoop m) := by
  intro f
  induction f using Nat.strongRecOn with
  | _ f ih =>
    intro h
    obtain ⟨f1, l1, h1⟩ := HapRuns.abs h
    obtain ⟨f2, l2, h2⟩ := HapRuns.arg h1
    obtain ⟨b, hb, eb⟩ := powLoop_step m
    obtain ⟨f3, l3, h3⟩ := HapRuns.red h2 hb (EvalHap.var 1)
    rw [eb] at h3
    obtain ⟨f4, l4, h4⟩ := HapRuns.arg h3
    exact ih f4 (by omega) h4

theorem scott_pow_step (m n : Nat) : ∃ b, EvalCbv (app Gen.Scott.pow (intoScott m)) (abs b) ∧
    contract b (intoScott n) = app2 (intoScott n) (intoScott 1) (powLoop m) := by
  apply Exists.intro
  apply And.intro
  · ev
  · simp [lc_simp, powLoop, stub, ZF, ZW, ScottParigot.scottPowF, appArg, Gen.Scott.pow, Gen.Scott.mul, Gen.Scott.add,
      intoScott]

theorem none_of_not_hapRuns {fuel : Nat} {t : Term} (h : ¬ HapRuns fuel t) : reduce .HAP 0 fuel t = none := by
  cases e : reduce .HAP 0 fuel t with
  | none => rfl
  | some p => exact absurd ⟨0, p, e⟩ h

end EagerSP

theorem scott_mul_diverges_hap (m n fuel : Nat) :
    reduce .HAP 0 fuel (app2 Gen.Scott.mul (intoScott m) (intoScott n)) = none := by
  refine none_of_not_hapRuns fun h0 => ?_
  obtain ⟨b, hb, eb⟩ := scott_mul_step m n
  obtain ⟨f1, _, h1⟩ := HapRuns.red h0 hb (EvalHap.of_isNormal (isNormal_intoScott n))
  rw [eb] at h1
  obtain ⟨f2, _, h2⟩ := HapRuns.arg h1
  exact mulLoop_diverges n f2 h2

theorem scott_pow_diverges_hap (m n fuel : Nat) :
    reduce .HAP 0 fuel (app2 Gen.Scott.pow (intoScott m) (intoScott n)) = none := by
  refine none_of_not_hapRuns fun h0 => ?_
  obtain ⟨b, hb, eb⟩ := scott_pow_step m n
  obtain ⟨f1, _, h1⟩ := HapRuns.red h0 hb (EvalHap.of_isNormal (isNormal_intoScott n))
  rw [eb] at h1
  obtain ⟨f2, _, h2⟩ := HapRuns.arg h1
  exact powLoop_diverges m f2 h2

/-! `to_church = λa b c. Z F b c a` with `F = λd e f g. g f (λh. e (d e f h))`: the same loop, one binder deeper at every turn -/

namespace EagerSP

/-- `λh. e (stub e f h)` where the variables `e`, `f` have the indices `i + 1`, `i` outside the abstraction -/
def tcLoop (i : Nat) : Term :=
  abs (app (var (i + 2)) (app3 (stub ScottParigot.scottToChurchF) (var (i + 2)) (var (i + 1)) (var 1)))

theorem tcLoop_step (i : Nat) (hi : 1 ≤ i) :
    ∃ b, EvalCbv (app2 (stub ScottParigot.scottToChurchF) (var (i + 1)) (var i)) (abs b) ∧
      contract b (var 1) = app2 (var 1) (var i) (tcLoop i) := by
  have h1 : 0 < i := hi
  have h2 : i ≠ 0 := by omega
  apply Exists.intro
  apply And.intro
  · simp only [stub, ZF, ZW]; ev [h1, h2]
  · simp [lc_simp, tcLoop, stub, ZF, ZW, ScottParigot.scottToChurchF, ScottParigot.body3, appArg, appFn,
      Gen.Scott.to_church, h1, h2]

theorem tcLoop_diverges : ∀ f j, ¬ HapRuns f (tcLoop j) := by
  intro f
  induction f using Nat.strongRecOn with
  | _ f ih =>
    intro j h
    obtain ⟨f1, _, h1⟩ := HapRuns.abs h
    obtain ⟨f2, _, h2⟩ := HapRuns.arg h1
    obtain ⟨b, hb, eb⟩ := tcLoop_step (j + 1) (by omega)
    obtain ⟨f3, _, h3⟩ := HapRuns.red h2 hb (EvalHap.var 1)
    rw [eb] at h3
    obtain ⟨f4, _, h4⟩ := HapRuns.arg h3
    exact ih f4 (by omega) (j + 1) h4

theorem scott_to_church_step1 (n : Nat) : ∃ b, EvalCbv Gen.Scott.to_church (abs b) ∧
    contract b (intoScott n) =
      abs (abs (app3 (app Gen.Comb.Z ScottParigot.scottToChurchF) (var 2) (var 1) (intoScott n))) := by
  apply Exists.intro
  apply And.intro
  · exact EvalCbv.abs _
  · simp [lc_simp, ScottParigot.scottToChurchF, ScottParigot.body3, appArg, appFn, Gen.Comb.Z, Gen.Scott.to_church]

theorem scott_to_church_step2 (n : Nat) :
    ∃ b, EvalCbv (app2 (app Gen.Comb.Z ScottParigot.scottToChurchF) (var 2) (var 1)) (abs b) ∧
      contract b (intoScott n) = app2 (intoScott n) (var 1) (tcLoop 1) := by
  apply Exists.intro
  apply And.intro
  · ev
  · simp [lc_simp, tcLoop, stub, ZF, ZW, ScottParigot.scottToChurchF, ScottParigot.body3, appArg, appFn,
      Gen.Scott.to_church]

end EagerSP

theorem scott_to_church_diverges_hap (n fuel : Nat) :
    reduce .HAP 0 fuel (app Gen.Scott.to_church (intoScott n)) = none := by
  refine none_of_not_hapRuns fun h0 => ?_
  obtain ⟨b, hb, eb⟩ := scott_to_church_step1 n
  obtain ⟨f1, _, h1⟩ := HapRuns.red h0 hb (EvalHap.of_isNormal (isNormal_intoScott n))
  rw [eb] at h1
  obtain ⟨f2, _, h2⟩ := HapRuns.abs h1
  obtain ⟨f3, _, h3⟩ := HapRuns.abs h2
  obtain ⟨b', hb', eb'⟩ := scott_to_church_step2 n
  obtain ⟨f4, _, h4⟩ := HapRuns.red h3 hb' (EvalHap.of_isNormal (isNormal_intoScott n))
  rw [eb'] at h4
  obtain ⟨f5, _, h5⟩ := HapRuns.arg h4
  exact tcLoop_diverges f5 1 h5

/-! ### … and under APP the fixed-point combinator `Z` itself has no terminating run

APP normalises operator and operand completely, also under binders, BEFORE contracting; `Z = λf. W W` with
`W = λx. f (λv. x x v)` has no normal form at all (`W W → f (λv. W W v)`), so APP loops on the constant `Z` alone and hence
on every term that has `Z` on its operator spine — in particular on every application of the `Z`-recursive Scott operations. -/

namespace EagerSP

/-- some run of `betaApp 0` with this fuel terminates on `t` -/
def AppRuns (f : Nat) (t : Term) : Prop := ∃ c p, betaApp 0 f t c = some p

theorem app_det {t v v' : Term} {f c c' : Nat} (h : EvalApp t v) (e : betaApp 0 f t c = some (v', c')) : v' = v := by
  obtain ⟨f0, h0⟩ := h.run
  obtain ⟨k, e0⟩ := h0 c
  have e1 := betaApp_mono 0 e (Nat.le_max_left f f0)
  have e2 := betaApp_mono 0 e0 (Nat.le_max_right f f0)
  rw [e1] at e2
  injection e2 with e2; injection e2

theorem AppRuns.abs {f : Nat} {b : Term} (h : AppRuns f (abs b)) : ∃ f', f' < f ∧ AppRuns f' b := by
  obtain ⟨c, p, e⟩ := h
  cases f with
  | zero => simp [betaApp] at e
  | succ f =>
    refine ⟨f, by omega, c, ?_⟩
    rw [betaApp] at e
    simp only [gate_zero, Bool.false_eq_true, if_false] at e
    cases h' : betaApp 0 f b c with
    | none => simp [h'] at e
    | some q => exact ⟨q, rfl⟩

theorem AppRuns.fn {f : Nat} {l r : Term} (h : AppRuns f (app l r)) : ∃ f', f' < f ∧ AppRuns f' l := by
  obtain ⟨c, p, e⟩ := h
  cases f with
  | zero => simp [betaApp] at e
  | succ f =>
    rw [betaApp] at e
    simp only [gate_zero, Bool.false_eq_true, if_false] at e
    cases hl : betaApp 0 f l c with
    | none => simp [hl] at e
    | some q => exact ⟨f, by omega, c, q, hl⟩

theorem AppRuns.arg {f : Nat} {l r : Term} (h : AppRuns f (app l r)) : ∃ f', f' < f ∧ AppRuns f' r := by
  obtain ⟨c, p, e⟩ := h
  cases f with
  | zero => simp [betaApp] at e
  | succ f =>
    rw [betaApp] at e
    simp only [gate_zero, Bool.false_eq_true, if_false] at e
    cases hl : betaApp 0 f l c with
    | none => simp [hl] at e
    | some q =>
      obtain ⟨l', c1⟩ := q
      simp only [hl] at e
      cases hr : betaApp 0 f r c1 with
      | none => simp [hr] at e
      | some q' => exact ⟨f, by omega, c1, q', hr⟩

theorem AppRuns.red {f : Nat} {l r b r' : Term} (h : AppRuns f (app l r)) (hl : EvalApp l (Term.abs b))
    (hr : EvalApp r r') : ∃ f', f' < f ∧ AppRuns f' (contract b r') := by
  obtain ⟨c, p, e⟩ := h
  cases f with
  | zero => simp [betaApp] at e
  | succ f =>
    rw [betaApp] at e
    simp only [gate_zero, Bool.false_eq_true, if_false] at e
    cases h1 : betaApp 0 f l c with
    | none => simp [h1] at e
    | some q =>
      obtain ⟨l', c1⟩ := q
      simp only [h1] at e
      cases h2 : betaApp 0 f r c1 with
      | none => simp [h2] at e
      | some q' =>
        obtain ⟨r'', c2⟩ := q'
        have e1 := app_det hl h1
        have e2 := app_det hr h2
        subst e1 e2
        simp only [h2, budget_zero, if_true] at e
        exact ⟨f, by omega, c2 + 1, p, e⟩

/-- `W = λx. f (λv. x x v)` where the free variable `f` has index `i` outside `W` -/
def ZWi (i : Nat) : Term := abs (app (var (i + 1)) (abs (app2 (var 2) (var 2) (var 1))))

theorem ZWi_normal (i : Nat) : EvalApp (ZWi i) (ZWi i) := EvalApp.of_isNormal rfl

theorem ZWi_contract (i : Nat) (hi : 1 ≤ i) :
    contract (app (var (i + 1)) (abs (app2 (var 2) (var 2) (var 1)))) (ZWi i) =
      app (var i) (abs (app2 (ZWi (i + 1)) (ZWi (i + 1)) (var 1))) := by
  have h1 : ¬ (i = 0) := by omega
  have h2 : 0 < i := hi
  simp [ZWi, contract, applyAux, shiftFV, h1, h2]

theorem ZWi_diverges : ∀ f i, 1 ≤ i → ¬ AppRuns f (app (ZWi i) (ZWi i)) := by
  intro f
  induction f using Nat.strongRecOn with
  | _ f ih =>
    intro i hi h
    obtain ⟨f1, _, h1⟩ := AppRuns.red h (ZWi_normal i) (ZWi_normal i)
    rw [ZWi_contract i hi] at h1
    obtain ⟨f2, _, h2⟩ := AppRuns.arg h1
    obtain ⟨f3, _, h3⟩ := AppRuns.abs h2
    obtain ⟨f4, _, h4⟩ := AppRuns.fn h3
    exact ih f4 (by omega) (i + 1) (by omega) h4

theorem Z_diverges (f : Nat) : ¬ AppRuns f Gen.Comb.Z := by
  intro h
  obtain ⟨f1, _, h1⟩ := AppRuns.abs (b := app (ZWi 1) (ZWi 1)) h
  exact ZWi_diverges f1 1 (by omega) h1

theorem none_of_not_appRuns {fuel : Nat} {t : Term} (h : ¬ AppRuns fuel t) : reduce .APP 0 fuel t = none := by
  cases e : reduce .APP 0 fuel t with
  | none => rfl
  | some p => exact absurd ⟨0, p, e⟩ h

end EagerSP

/-- the fixed-point combinator `Z` alone does not terminate under APP -/
theorem Z_diverges_app (fuel : Nat) : reduce .APP 0 fuel Gen.Comb.Z = none :=
  none_of_not_appRuns (Z_diverges fuel)

/-- hence `Scott.add` (`= Z F`) applied to ANY two terms does not terminate under APP -/
theorem scott_add_diverges_app (a b : Term) (fuel : Nat) :
    reduce .APP 0 fuel (app2 Gen.Scott.add a b) = none := by
  refine none_of_not_appRuns fun h => ?_
  obtain ⟨f1, _, h1⟩ := AppRuns.fn h
  obtain ⟨f2, _, h2⟩ := AppRuns.fn h1
  rw [scott_add_eq] at h2
  obtain ⟨f3, _, h3⟩ := AppRuns.fn h2
  exact Z_diverges f3 h3

theorem scott_mul_diverges_app (a b : Term) (fuel : Nat) :
    reduce .APP 0 fuel (app2 Gen.Scott.mul a b) = none := by
  refine none_of_not_appRuns fun h => ?_
  obtain ⟨f1, _, h1⟩ := AppRuns.fn h
  obtain ⟨f2, _, h2⟩ := AppRuns.fn h1
  rw [ScottParigot.scott_mul_eq] at h2
  obtain ⟨f3, _, h3⟩ := AppRuns.fn h2
  exact Z_diverges f3 h3

theorem scott_pow_diverges_app (a b : Term) (fuel : Nat) :
    reduce .APP 0 fuel (app2 Gen.Scott.pow a b) = none := by
  refine none_of_not_appRuns fun h => ?_
  obtain ⟨f1, _, h1⟩ := AppRuns.fn h
  obtain ⟨f2, _, h2⟩ := AppRuns.fn h1
  rw [ScottParigot.scott_pow_eq] at h2
  obtain ⟨f3, _, h3⟩ := AppRuns.fn h2
  exact Z_diverges f3 h3

theorem scott_to_church_diverges_app (a : Term) (fuel : Nat) :
    reduce .APP 0 fuel (app Gen.Scott.to_church a) = none := by
  refine none_of_not_appRuns fun h => ?_
  obtain ⟨f1, _, h1⟩ := AppRuns.fn h
  rw [ScottParigot.scott_to_church_eq] at h1
  obtain ⟨f2, _, h2⟩ := AppRuns.abs h1
  obtain ⟨f3, _, h3⟩ := AppRuns.abs h2
  obtain ⟨f4, _, h4⟩ := AppRuns.abs h3
  obtain ⟨f5, _, h5⟩ := AppRuns.fn h4
  obtain ⟨f6, _, h6⟩ := AppRuns.fn h5
  obtain ⟨f7, _, h7⟩ := AppRuns.fn h6
  obtain ⟨f8, _, h8⟩ := AppRuns.fn h7
  exact Z_diverges f8 h8

/-! ## 12. the unbounded termination statements about the model reducer -/

theorem scott_succ_reduce_hap (n : Nat) :
    ∃ fuel c, reduce .HAP 0 fuel (app Gen.Scott.succ (intoScott n)) = some (intoScott (n + 1), c) :=
  (scott_succ_hap n).reduce
theorem scott_succ_reduce_app (n : Nat) :
    ∃ fuel c, reduce .APP 0 fuel (app Gen.Scott.succ (intoScott n)) = some (intoScott (n + 1), c) :=
  (scott_succ_app n).reduce
theorem scott_pred_reduce_hap (n : Nat) :
    ∃ fuel c, reduce .HAP 0 fuel (app Gen.Scott.pred (intoScott n)) = some (intoScott (n - 1), c) :=
  (scott_pred_hap n).reduce
theorem scott_pred_reduce_app (n : Nat) :
    ∃ fuel c, reduce .APP 0 fuel (app Gen.Scott.pred (intoScott n)) = some (intoScott (n - 1), c) :=
  (scott_pred_app n).reduce
theorem scott_is_zero_reduce_hap (n : Nat) :
    ∃ fuel c, reduce .HAP 0 fuel (app Gen.Scott.is_zero (intoScott n)) = some (fromBool (n == 0), c) :=
  (scott_is_zero_hap n).reduce
theorem scott_is_zero_reduce_app (n : Nat) :
    ∃ fuel c, reduce .APP 0 fuel (app Gen.Scott.is_zero (intoScott n)) = some (fromBool (n == 0), c) :=
  (scott_is_zero_app n).reduce
theorem parigot_succ_reduce_hap (n : Nat) :
    ∃ fuel c, reduce .HAP 0 fuel (app Gen.Parigot.succ (intoParigot n)) = some (intoParigot (n + 1), c) :=
  (parigot_succ_hap n).reduce
theorem parigot_succ_reduce_app (n : Nat) :
    ∃ fuel c, reduce .APP 0 fuel (app Gen.Parigot.succ (intoParigot n)) = some (intoParigot (n + 1), c) :=
  (parigot_succ_app n).reduce
theorem parigot_pred_reduce_hap (n : Nat) :
    ∃ fuel c, reduce .HAP 0 fuel (app Gen.Parigot.pred (intoParigot n)) = some (intoParigot (n - 1), c) :=
  (parigot_pred_hap n).reduce
theorem parigot_pred_reduce_app (n : Nat) :
    ∃ fuel c, reduce .APP 0 fuel (app Gen.Parigot.pred (intoParigot n)) = some (intoParigot (n - 1), c) :=
  (parigot_pred_app n).reduce
theorem parigot_is_zero_reduce_hap (n : Nat) :
    ∃ fuel c, reduce .HAP 0 fuel (app Gen.Parigot.is_zero (intoParigot n)) = some (fromBool (n == 0), c) :=
  (parigot_is_zero_hap n).reduce
theorem parigot_is_zero_reduce_app (n : Nat) :
    ∃ fuel c, reduce .APP 0 fuel (app Gen.Parigot.is_zero (intoParigot n)) = some (fromBool (n == 0), c) :=
  (parigot_is_zero_app n).reduce
theorem parigot_add_reduce_hap (m n : Nat) :
    ∃ fuel c, reduce .HAP 0 fuel (app2 Gen.Parigot.add (intoParigot m) (intoParigot n)) = some (intoParigot (m + n), c) :=
  (parigot_add_hap m n).reduce
theorem parigot_add_reduce_app (m n : Nat) :
    ∃ fuel c, reduce .APP 0 fuel (app2 Gen.Parigot.add (intoParigot m) (intoParigot n)) = some (intoParigot (m + n), c) :=
  (parigot_add_app m n).reduce
theorem parigot_sub_reduce_hap (m n : Nat) :
    ∃ fuel c, reduce .HAP 0 fuel (app2 Gen.Parigot.sub (intoParigot m) (intoParigot n)) = some (intoParigot (m - n), c) :=
  (parigot_sub_hap m n).reduce
theorem parigot_sub_reduce_app (m n : Nat) :
    ∃ fuel c, reduce .APP 0 fuel (app2 Gen.Parigot.sub (intoParigot m) (intoParigot n)) = some (intoParigot (m - n), c) :=
  (parigot_sub_app m n).reduce
theorem parigot_mul_reduce_hap (m n : Nat) :
    ∃ fuel c, reduce .HAP 0 fuel (app2 Gen.Parigot.mul (intoParigot m) (intoParigot n)) = some (intoParigot (m * n), c) :=
  (parigot_mul_hap m n).reduce
theorem parigot_mul_reduce_app (m n : Nat) :
    ∃ fuel c, reduce .APP 0 fuel (app2 Gen.Parigot.mul (intoParigot m) (intoParigot n)) = some (intoParigot (m * n), c) :=
  (parigot_mul_app m n).reduce
theorem church_to_scott_reduce_hap (n : Nat) :
    ∃ fuel c, reduce .HAP 0 fuel (app Gen.Church.to_scott (intoChurch n)) = some (intoScott n, c) :=
  (church_to_scott_hap n).reduce
theorem church_to_scott_reduce_app (n : Nat) :
    ∃ fuel c, reduce .APP 0 fuel (app Gen.Church.to_scott (intoChurch n)) = some (intoScott n, c) :=
  (church_to_scott_app n).reduce
theorem church_to_parigot_reduce_hap (n : Nat) :
    ∃ fuel c, reduce .HAP 0 fuel (app Gen.Church.to_parigot (intoChurch n)) = some (intoParigot n, c) :=
  (church_to_parigot_hap n).reduce
theorem church_to_parigot_reduce_app (n : Nat) :
    ∃ fuel c, reduce .APP 0 fuel (app Gen.Church.to_parigot (intoChurch n)) = some (intoParigot n, c) :=
  (church_to_parigot_app n).reduce

end LC
