/-
Eager evaluation (HAP / APP) of the operations on Mogensen's binary numerals (`/repo/src/data/num/binary.rs`):
unbounded termination-and-result theorems as big-step derivations (`LC/Proofs/Eager/BigStep.lean`), for ALL numerals and,
where it makes sense, for ARBITRARY bit strings `StumpFuBinary.binaryBits bs` (leading zeroes allowed).

HAP: the fold `n Z A B` is contracted to `foldBits Zv A B' bs` (`Zv` the CBV value of `Z`, `B'` the normal form of `B`); the
operand of every handler application is evaluated first and completely, so the state after a prefix of the bits (from the
most significant one) is exactly the NORMAL pair of the lazy invariants (`strip_fold`, `succ_fold`, `pred_fold`).

APP: the operation itself is normalised first, then the fold is evaluated in two stages, see section 4.
-/
import LC.Proofs.Eager.ChurchCbv
import LC.Proofs.Num.StumpFuBinary

namespace LC
open Term Spec Enc RL Eager StumpFuBinary

set_option linter.unusedSimpArgs false
attribute [local irreducible] iterApp

namespace EagerBin

/-! ## 1. substitution / shape lemmas for bit strings -/

@[simp] theorem applyAux_foldBits (r : Term) (d : Nat) (z a b : Term) (bs : List Bool) :
    applyAux r d (foldBits z a b bs) = foldBits (applyAux r d z) (applyAux r d a) (applyAux r d b) bs := by
  induction bs with
  | nil => rfl
  | cons c bs ih => cases c <;> simp [foldBits, applyAux, ih]

@[simp] theorem shiftFV_foldBits (k o : Nat) (z a b : Term) (bs : List Bool) :
    shiftFV k o (foldBits z a b bs) = foldBits (shiftFV k o z) (shiftFV k o a) (shiftFV k o b) bs := by
  induction bs with
  | nil => rfl
  | cons c bs ih => cases c <;> simp [foldBits, shiftFV, ih]

@[simp] theorem foldBits_vars' (bs : List Bool) : foldBits (var 3) (var 2) (var 1) bs = bitsBody bs :=
  foldBits_vars bs

@[simp] theorem applyAux_bitsBody (r : Term) (bs : List Bool) :
    applyAux r 3 (bitsBody bs) = foldBits (shiftFV 2 0 r) (var 2) (var 1) bs := by
  rw [← foldBits_vars, applyAux_foldBits]; simp [applyAux]

@[simp] theorem applyAux_bitsBody_gt (r : Term) (d : Nat) (bs : List Bool) (h : 3 < d) :
    applyAux r d (bitsBody bs) = bitsBody bs := by
  have h1 : ¬ 3 = d := by omega
  have h2 : ¬ 3 > d := by omega
  have h3 : ¬ 2 = d := by omega
  have h4 : ¬ 2 > d := by omega
  have h5 : ¬ 1 = d := by omega
  have h6 : ¬ 1 > d := by omega
  rw [← foldBits_vars, applyAux_foldBits]; simp [applyAux, h1, h2, h3, h4, h5, h6]

@[simp] theorem shiftFV_bitsBody_ge (k o : Nat) (bs : List Bool) (h : 3 ≤ o) :
    shiftFV k o (bitsBody bs) = bitsBody bs := by
  have h1 : ¬ 3 > o := by omega
  have h2 : ¬ 2 > o := by omega
  have h3 : ¬ 1 > o := by omega
  rw [← foldBits_vars, shiftFV_foldBits]; simp [shiftFV, h1, h2, h3]

@[simp] theorem isNormal_foldBits_var (z : Term) (j k : Nat) (bs : List Bool) :
    isNormal (foldBits z (var j) (var k) bs) = isNormal z := by
  induction bs with
  | nil => rfl
  | cons c bs ih => cases c <;> simp [foldBits, isNormal, isAbs, ih]

@[simp] theorem isWNF_foldBits_var (z : Term) (j k : Nat) (bs : List Bool) :
    isWNF (foldBits z (var j) (var k) bs) = isWNF z := by
  induction bs with
  | nil => rfl
  | cons c bs ih => cases c <;> simp [foldBits, isWNF, isAbs, ih]

@[simp] theorem isAbs_foldBits_var (i : Nat) (a b : Term) (bs : List Bool) :
    isAbs (foldBits (var i) a b bs) = false := by
  cases bs with
  | nil => rfl
  | cons c bs => rfl

@[simp] theorem isNormal_bitsBody (bs : List Bool) : isNormal (bitsBody bs) = true := by
  rw [← foldBits_vars, isNormal_foldBits_var]; rfl

@[simp] theorem isWNF_bitsBody (bs : List Bool) : isWNF (bitsBody bs) = true := by
  rw [← foldBits_vars, isWNF_foldBits_var]; rfl

@[simp] theorem isAbs_bitsBody (bs : List Bool) : isAbs (bitsBody bs) = false := by
  rw [← foldBits_vars, isAbs_foldBits_var]

@[simp] theorem isNormal_binaryBits (bs : List Bool) : isNormal (binaryBits bs) = true := by
  simp [binaryBits, isNormal]

@[simp] theorem isWNF_binaryBits (bs : List Bool) : isWNF (binaryBits bs) = true := rfl
@[simp] theorem isAbs_binaryBits (bs : List Bool) : isAbs (binaryBits bs) = true := rfl

@[simp] theorem isNormal_intoBinary (n : Nat) : isNormal (intoBinary n) = true := by
  rw [intoBinary_eq_bits]; simp
@[simp] theorem isWNF_intoBinary (n : Nat) : isWNF (intoBinary n) = true := rfl
@[simp] theorem isAbs_intoBinary (n : Nat) : isAbs (intoBinary n) = true := rfl

/-! ## 2. folds over the bit string: the operand (the state for the more significant bits) is evaluated first -/

theorem hap_foldBits {z a b : Term} (w : List Bool → Term) (h0 : EvalHap z (w []))
    (ha : ∀ bs, EvalHap (app a (w bs)) (w (false :: bs))) (hb : ∀ bs, EvalHap (app b (w bs)) (w (true :: bs)))
    (bs : List Bool) : EvalHap (foldBits z a b bs) (w bs) := by
  induction bs with
  | nil => exact h0
  | cons c bs ih => cases c <;> simp only [foldBits, if_true, if_false, Bool.false_eq_true] <;>
      first | exact EvalHap.app_arg ih (ha bs) | exact EvalHap.app_arg ih (hb bs)

theorem app_foldBits {z a b : Term} (w : List Bool → Term) (h0 : EvalApp z (w []))
    (ha : ∀ bs, EvalApp (app a (w bs)) (w (false :: bs))) (hb : ∀ bs, EvalApp (app b (w bs)) (w (true :: bs)))
    (bs : List Bool) : EvalApp (foldBits z a b bs) (w bs) := by
  induction bs with
  | nil => exact h0
  | cons c bs ih => cases c <;> simp only [foldBits, if_true, if_false, Bool.false_eq_true] <;>
      first | exact EvalApp.app_arg ih (ha bs) | exact EvalApp.app_arg ih (hb bs)

end EagerBin

open EagerBin

/-! ## 3. HAP -/

theorem binary_is_zero_bits_hap (bs : List Bool) :
    EvalHap (app Gen.Binary.is_zero (binaryBits bs)) (fromBool (valueOf bs == 0)) := by
  ev
  refine hap_foldBits (fun bs => fromBool (valueOf bs == 0)) ?_ (fun bs => ?_) (fun bs => ?_) bs
  · ev
  · rw [show (valueOf (false :: bs) == 0) = (valueOf bs == 0) by rw [Bool.eq_iff_iff]; simp [valueOf]; omega]
    ev
  · rw [show (valueOf (true :: bs) == 0) = false by simp [valueOf]]
    ev

namespace EagerBin
/-- the bit constant answered by `lsb` -/
def lsbOf (bs : List Bool) : Term := if bs.headD false then Gen.Binary.b1 else Gen.Binary.b0

@[simp] theorem isNormal_lsbOf (bs : List Bool) : isNormal (lsbOf bs) = true := by
  unfold lsbOf; split <;> rfl
end EagerBin

theorem binary_lsb_bits_hap (bs : List Bool) :
    EvalHap (app Gen.Binary.lsb (binaryBits bs)) (if bs.headD false then Gen.Binary.b1 else Gen.Binary.b0) := by
  show EvalHap _ (lsbOf bs)
  ev
  refine hap_foldBits lsbOf ?_ (fun bs => ?_) (fun bs => ?_) bs
  · ev
  · show EvalHap _ Gen.Binary.b0; ev
  · show EvalHap _ Gen.Binary.b1; ev

theorem binary_shl1_bits_hap (bs : List Bool) :
    EvalHap (app Gen.Binary.shl1 (binaryBits bs)) (binaryBits (true :: bs)) := by
  ev

theorem binary_shl0_bits_hap (bs : List Bool) :
    EvalHap (app Gen.Binary.shl0 (binaryBits bs)) (binaryBits (false :: bs)) := by
  ev

theorem binary_strip_hap (bs : List Bool) :
    EvalHap (app Gen.Binary.strip (binaryBits bs)) (intoBinary (valueOf bs)) := by
  ev
  refine hap_foldBits (fun bs => tuple2 (intoBinary (valueOf bs)) (fromBool (valueOf bs == 0))) ?_
    (fun bs => ?_) (fun bs => ?_) bs
  · show EvalHap _ (tuple2 (intoBinary 0) Gen.Bool.tru)
    rw [intoBinary_zero]; ev
  · rw [valueOf_false]
    generalize valueOf bs = v
    by_cases h : v = 0
    · subst h; rw [intoBinary_zero]
      show EvalHap _ (tuple2 (binaryBits []) Gen.Bool.tru)
      ev
    · rw [show (v == 0) = false by simp [h], show (2 * v == 0) = false by simp; omega,
        intoBinary_eq_bits, intoBinary_eq_bits, bitsLSB_double h]
      generalize bitsLSB v = cs
      ev
  · rw [valueOf_true, show (2 * valueOf bs + 1 == 0) = false by simp,
        intoBinary_eq_bits, intoBinary_eq_bits, bitsLSB_double_succ]
    generalize bitsLSB (valueOf bs) = cs
    generalize (valueOf bs == 0) = b
    ev
  ev

theorem binary_succ_bits_hap (bs : List Bool) :
    EvalHap (app Gen.Binary.succ (binaryBits bs)) (binaryBits (incBits bs)) := by
  ev
  refine hap_foldBits (fun bs => tuple2 (binaryBits bs) (binaryBits (incBits bs))) ?_
    (fun bs => ?_) (fun bs => ?_) bs
  · show EvalHap _ (tuple2 (binaryBits []) (binaryBits [true])); ev
  · show EvalHap _ (tuple2 (binaryBits (false :: bs)) (binaryBits (true :: bs)))
    generalize incBits bs = cs
    ev
  · show EvalHap _ (tuple2 (binaryBits (true :: bs)) (binaryBits (false :: incBits bs)))
    generalize incBits bs = cs
    ev
  ev

theorem binary_pred_bits_hap (bs : List Bool) :
    EvalHap (app Gen.Binary.pred (binaryBits bs)) (binaryBits (decBits bs)) := by
  ev
  refine hap_foldBits (fun bs => tuple2 (binaryBits bs) (binaryBits (decBits bs))) ?_
    (fun bs => ?_) (fun bs => ?_) bs
  · show EvalHap _ (tuple2 (binaryBits []) (binaryBits [])); ev
  · show EvalHap _ (tuple2 (binaryBits (false :: bs)) (binaryBits (true :: decBits bs)))
    generalize decBits bs = cs
    ev
  · show EvalHap _ (tuple2 (binaryBits (true :: bs)) (binaryBits (false :: bs)))
    generalize decBits bs = cs
    ev
  ev

/-! ### HAP: the statements on canonical numerals -/

theorem EagerBin.lsbOf_bitsLSB (n : Nat) :
    lsbOf (bitsLSB n) = if n % 2 = 1 then Gen.Binary.b1 else Gen.Binary.b0 := by
  unfold lsbOf
  by_cases h : n = 0
  · subst h; rw [bitsLSB_zero]; rfl
  · rw [bitsLSB_pos h]
    by_cases hb : n % 2 = 1 <;> simp [hb]

theorem binary_is_zero_hap (n : Nat) : EvalHap (app Gen.Binary.is_zero (intoBinary n)) (fromBool (n == 0)) := by
  have := binary_is_zero_bits_hap (bitsLSB n)
  rwa [← intoBinary_eq_bits, valueOf_bitsLSB] at this

theorem binary_lsb_hap (n : Nat) :
    EvalHap (app Gen.Binary.lsb (intoBinary n)) (if n % 2 = 1 then Gen.Binary.b1 else Gen.Binary.b0) := by
  have := binary_lsb_bits_hap (bitsLSB n)
  rw [← intoBinary_eq_bits] at this
  rw [← lsbOf_bitsLSB]; exact this

theorem binary_shl1_hap (n : Nat) : EvalHap (app Gen.Binary.shl1 (intoBinary n)) (intoBinary (2 * n + 1)) := by
  rw [intoBinary_eq_bits, intoBinary_eq_bits, bitsLSB_double_succ]; exact binary_shl1_bits_hap _

theorem binary_shl0_hap (n : Nat) :
    EvalHap (app Gen.Binary.strip (app Gen.Binary.shl0 (intoBinary n))) (intoBinary (2 * n)) := by
  have h := binary_strip_hap (false :: bitsLSB n)
  rw [valueOf_false, valueOf_bitsLSB] at h
  rw [intoBinary_eq_bits n]
  exact EvalHap.app_arg (binary_shl0_bits_hap _) h

theorem binary_succ_hap (n : Nat) : EvalHap (app Gen.Binary.succ (intoBinary n)) (intoBinary (n + 1)) := by
  rw [intoBinary_eq_bits, intoBinary_eq_bits, ← incBits_bitsLSB]; exact binary_succ_bits_hap _

theorem binary_pred_hap (n : Nat) :
    EvalHap (app Gen.Binary.strip (app Gen.Binary.pred (intoBinary n))) (intoBinary (n - 1)) := by
  have h := binary_strip_hap (decBits (bitsLSB n))
  have e : valueOf (decBits (bitsLSB n)) = n - 1 := by
    by_cases h0 : n = 0
    · subst h0; rw [bitsLSB_zero]; rfl
    · rw [valueOf_decBits _ (by rw [valueOf_bitsLSB]; exact h0), valueOf_bitsLSB]
  rw [e] at h
  rw [intoBinary_eq_bits n]
  exact EvalHap.app_arg (binary_pred_bits_hap _) h

/-! ## 4. APP

Under APP the numeral applied to `z`, `a` is normalised (under the remaining binder for `b`) BEFORE `b` is substituted:
`foldBits z a (var 1) bs` is evaluated first (stage 2: the handlers for the zero bits run as far as they can), then the
one-bit handler is substituted into that normal form and the result is evaluated again (stage 3). -/

namespace EagerBin

/-- stage-2 normal form for `is_zero`: the zero bits disappear (`a = I`) -/
def izW (z y : Term) : List Bool → Term
  | [] => z
  | false :: bs => izW z y bs
  | true :: bs => app y (izW z y bs)

@[simp] theorem isNormal_izW (z : Term) (i : Nat) (bs : List Bool) : isNormal (izW z (var i) bs) = isNormal z := by
  induction bs with
  | nil => rfl
  | cons c bs ih => cases c <;> simp [izW, isNormal, isAbs, ih]

theorem applyAux_izW (r : Term) (d : Nat) (z y : Term) (bs : List Bool) :
    applyAux r d (izW z y bs) = izW (applyAux r d z) (applyAux r d y) bs := by
  induction bs with
  | nil => rfl
  | cons c bs ih => cases c <;> simp [izW, applyAux, ih]

/-- stage-2 normal form for `lsb`: a zero bit resets the state (`a = λx.TRUE`) -/
def lsW (z y : Term) : List Bool → Term
  | [] => z
  | false :: _ => z
  | true :: bs => app y (lsW z y bs)

@[simp] theorem isNormal_lsW (z : Term) (i : Nat) (bs : List Bool) : isNormal (lsW z (var i) bs) = isNormal z := by
  induction bs with
  | nil => rfl
  | cons c bs ih => cases c <;> simp [lsW, isNormal, isAbs, ih]

theorem applyAux_lsW (r : Term) (d : Nat) (z y : Term) (bs : List Bool) :
    applyAux r d (lsW z y bs) = lsW (applyAux r d z) (applyAux r d y) bs := by
  induction bs with
  | nil => rfl
  | cons c bs ih => cases c <;> simp [lsW, applyAux, ih]

end EagerBin

theorem EagerBin.izW_eval (bs : List Bool) :
    EvalApp (izW Gen.Bool.tru (abs Gen.Bool.fls) bs) (fromBool (valueOf bs == 0)) := by
  induction bs with
  | nil => exact EvalApp.of_isNormal rfl
  | cons c bs ih =>
    cases c
    · rw [show (valueOf (false :: bs) == 0) = (valueOf bs == 0) by rw [Bool.eq_iff_iff]; simp [valueOf]; omega]
      exact ih
    · rw [show (valueOf (true :: bs) == 0) = false by simp [valueOf]]
      simp only [izW]; ev

theorem binary_is_zero_bits_app (bs : List Bool) :
    EvalApp (app Gen.Binary.is_zero (binaryBits bs)) (fromBool (valueOf bs == 0)) := by
  have hn : ∀ bs, isNormal (izW Gen.Bool.tru (var 1) bs) = true := fun bs => by rw [isNormal_izW]; rfl
  ev
  · refine app_foldBits (izW Gen.Bool.tru (var 1)) ?_ (fun bs => ?_) (fun bs => ?_) bs
    · ev
    · simp only [izW]; ev
    · simp only [izW]; ev
  ev
  rw [applyAux_izW]
  exact izW_eval bs

/-- stage 3 for `lsb` -/
theorem EagerBin.lsW_eval (bs : List Bool) :
    EvalApp (lsW Gen.Bool.tru (abs Gen.Bool.fls) bs) (lsbOf bs) := by
  induction bs with
  | nil => exact EvalApp.of_isNormal rfl
  | cons c bs ih =>
    cases c
    · exact EvalApp.of_isNormal rfl
    · show EvalApp _ Gen.Binary.b1
      simp only [lsW]; ev

theorem binary_lsb_bits_app (bs : List Bool) :
    EvalApp (app Gen.Binary.lsb (binaryBits bs)) (if bs.headD false then Gen.Binary.b1 else Gen.Binary.b0) := by
  show EvalApp _ (lsbOf bs)
  have hn : ∀ bs, isNormal (lsW Gen.Bool.tru (var 1) bs) = true := fun bs => by rw [isNormal_lsW]; rfl
  ev
  · refine app_foldBits (lsW Gen.Bool.tru (var 1)) ?_ (fun bs => ?_) (fun bs => ?_) bs
    · ev
    · simp only [lsW]; ev
    · simp only [lsW]; ev
  ev
  rw [applyAux_lsW]
  exact lsW_eval bs

theorem binary_shl1_bits_app (bs : List Bool) :
    EvalApp (app Gen.Binary.shl1 (binaryBits bs)) (binaryBits (true :: bs)) := by
  ev

theorem binary_shl0_bits_app (bs : List Bool) :
    EvalApp (app Gen.Binary.shl0 (binaryBits bs)) (binaryBits (false :: bs)) := by
  ev

/-! ### APP: folds with a pair state (`strip`, `succ`, `pred`)

The operation `λn. PROJ (n Z A B)` is normalised first: `Z`, `A = λp. p H`, `B` become normal forms and `PROJ (n Z A B)`
becomes `n Z A B PROJ'`.  Stage 2 runs the zero-bit handler `A` on the pair states of the all-zero prefix (most significant
bits) and leaves `w H` for a neutral state `w` above the first one bit; stage 3 substitutes `B` and replays the fold. -/

namespace EagerBin

def allZero (bs : List Bool) : Bool := bs.all (fun c => !c)

/-- stage-2 normal form of a fold with pair states `P`, zero-bit handler `λp. p H` and one-bit handler `y` -/
def pfW (P : List Bool → Term) (H y : Term) : List Bool → Term
  | [] => P []
  | true :: bs => app y (pfW P H y bs)
  | false :: bs => if allZero bs then P (false :: bs) else app (pfW P H y bs) H

theorem pfW_allZero (P : List Bool → Term) (H y : Term) {bs : List Bool} (h : allZero bs = true) :
    pfW P H y bs = P bs := by
  cases bs with
  | nil => rfl
  | cons c bs =>
    cases c
    · have : allZero bs = true := by simpa [allZero] using h
      simp [pfW, this]
    · simp [allZero] at h

theorem isAbs_pfW (P : List Bool → Term) (H y : Term) {bs : List Bool} (h : allZero bs = false) :
    isAbs (pfW P H y bs) = false := by
  cases bs with
  | nil => simp [allZero] at h
  | cons c bs =>
    cases c
    · have : allZero bs = false := by simpa [allZero] using h
      simp [pfW, this, isAbs]
    · rfl

theorem isNormal_pfW {P : List Bool → Term} {H : Term} (nP : ∀ bs, isNormal (P bs) = true) (nH : isNormal H = true)
    (i : Nat) (bs : List Bool) : isNormal (pfW P H (var i) bs) = true := by
  induction bs with
  | nil => exact nP []
  | cons c bs ih =>
    cases c
    · by_cases h : allZero bs = true
      · simp [pfW, h, nP]
      · have h' : allZero bs = false := by simpa using h
        simp [pfW, h', isNormal, ih, nH, isAbs_pfW P H (var i) h']
    · simp [pfW, isNormal, isAbs, ih]

theorem applyAux_pfW {P : List Bool → Term} {H : Term} (cP : ∀ bs, Closed (P bs)) (cH : Closed H)
    (r : Term) (d : Nat) (hd : 1 ≤ d) (y : Term) (bs : List Bool) :
    applyAux r d (pfW P H y bs) = pfW P H (applyAux r d y) bs := by
  induction bs with
  | nil => exact applyAux_of_closed (cP []) r d hd
  | cons c bs ih =>
    cases c
    · by_cases h : allZero bs = true
      · simp only [pfW, h, if_true]; exact applyAux_of_closed (cP _) r d hd
      · have h' : allZero bs = false := by simpa using h
        simp [pfW, h', applyAux, ih, applyAux_of_closed cH r d hd]
    · simp [pfW, applyAux, ih]

theorem app_pf_stage2 {Z A H : Term} (P : List Bool → Term) (hZ : EvalApp Z (P [])) (hA : A = abs (app (var 1) H))
    (cH : Closed H) (nH : isNormal H = true) (nP : ∀ bs, isNormal (P bs) = true)
    (hstep : ∀ bs, EvalApp (app A (P bs)) (P (false :: bs))) (bs : List Bool) :
    EvalApp (foldBits Z A (var 1) bs) (pfW P H (var 1) bs) := by
  induction bs with
  | nil => exact hZ
  | cons c bs ih =>
    cases c
    · simp only [foldBits, Bool.false_eq_true, if_false]
      by_cases h : allZero bs = true
      · rw [pfW_allZero P H _ h] at ih
        simp only [pfW, h, if_true]
        exact EvalApp.app_arg ih (hstep bs)
      · have h' : allZero bs = false := by simpa using h
        simp only [pfW, h', Bool.false_eq_true, if_false]
        subst hA
        refine EvalApp.appRed (EvalApp.of_isNormal (by simp [isNormal, isAbs, nH])) ih ?_
        have e : contract (app (var 1) H) (pfW P H (var 1) bs) = app (pfW P H (var 1) bs) H := by
          lc_simp
        rw [e]
        exact EvalApp.of_isNormal (by simp [isNormal, isAbs_pfW P H (var 1) h', isNormal_pfW nP nH, nH])
    · simp only [foldBits, if_true, pfW]
      exact EvalApp.appNeu (EvalApp.var 1) rfl ih

theorem app_pf_stage3 {A B H : Term} (P : List Bool → Term) (hA : A = abs (app (var 1) H))
    (cH : Closed H) (nH : isNormal H = true) (cP : ∀ bs, Closed (P bs)) (nP : ∀ bs, isNormal (P bs) = true)
    (nB : isNormal B = true)
    (hstepA : ∀ bs, EvalApp (app A (P bs)) (P (false :: bs)))
    (hstepB : ∀ bs, EvalApp (app B (P bs)) (P (true :: bs))) (bs : List Bool) :
    EvalApp (applyAux B 1 (pfW P H (var 1) bs)) (P bs) := by
  rw [applyAux_pfW cP cH B 1 (Nat.le_refl 1)]
  have e : applyAux B 1 (var 1) = B := by simp [applyAux, shiftFV_zero]
  rw [e]
  induction bs with
  | nil => exact EvalApp.of_isNormal (nP [])
  | cons c bs ih =>
    cases c
    · by_cases h : allZero bs = true
      · simp only [pfW, h, if_true]; exact EvalApp.of_isNormal (nP _)
      · have h' : allZero bs = false := by simpa using h
        simp only [pfW, h', Bool.false_eq_true, if_false]
        have h1 := hstepA bs
        subst hA
        have h2 := EvalApp.beta_inv (by simp [isNormal, isAbs, nH]) (nP bs) h1
        have e2 : contract (app (var 1) H) (P bs) = app (P bs) H := by
          have := cP bs
          lc_simp
        rw [e2] at h2
        exact EvalApp.app_congr ih (EvalApp.of_isNormal nH) h2
    · simp only [pfW]
      exact EvalApp.app_congr (EvalApp.of_isNormal nB) ih (hstepB bs)

@[simp] theorem isNormal_tuple2 (a b : Term) : isNormal (tuple2 a b) = (isNormal a && isNormal b) := by
  simp [tuple2, isNormal, isAbs]

end EagerBin

namespace EagerBin
def succP (bs : List Bool) : Term := tuple2 (binaryBits bs) (binaryBits (incBits bs))
def predP (bs : List Bool) : Term := tuple2 (binaryBits bs) (binaryBits (decBits bs))
def stripP (bs : List Bool) : Term := tuple2 (intoBinary (valueOf bs)) (fromBool (valueOf bs == 0))
end EagerBin

theorem binary_succ_bits_app (bs : List Bool) :
    EvalApp (app Gen.Binary.succ (binaryBits bs)) (binaryBits (incBits bs)) := by
  have nP : ∀ bs, isNormal (succP bs) = true := fun bs => by simp [succP]
  have cP : ∀ bs, Closed (succP bs) := fun bs => by lc_simp [succP]
  ev
  · refine app_pf_stage2 succP ?_ rfl (by decide) (by decide) nP (fun bs => ?_) bs
    · exact EvalApp.of_isNormal (by decide)
    · simp only [succP, incBits]; ev
  ev
  · refine app_pf_stage3 succP rfl (by decide) (by decide) cP nP (by decide) (fun bs => ?_) (fun bs => ?_) bs
    · simp only [succP, incBits]; ev
    · simp only [succP, incBits]; ev
  ev

theorem binary_pred_bits_app (bs : List Bool) :
    EvalApp (app Gen.Binary.pred (binaryBits bs)) (binaryBits (decBits bs)) := by
  have nP : ∀ bs, isNormal (predP bs) = true := fun bs => by simp [predP]
  have cP : ∀ bs, Closed (predP bs) := fun bs => by lc_simp [predP]
  ev
  · refine app_pf_stage2 predP ?_ rfl (by decide) (by decide) nP (fun bs => ?_) bs
    · exact EvalApp.of_isNormal (by decide)
    · simp only [predP, decBits]; ev
  ev
  · refine app_pf_stage3 predP rfl (by decide) (by decide) cP nP (by decide) (fun bs => ?_) (fun bs => ?_) bs
    · simp only [predP, decBits]; ev
    · simp only [predP, decBits]; ev
  ev

/-- the zero-bit step of `strip` (script shared by stage 2 and stage 3, where the handler is an explicit tree) -/
local macro "strip_stepA" : tactic => `(tactic| (
  simp only [stripP]
  rw [valueOf_false]
  generalize valueOf _ = v
  by_cases h : v = 0
  · subst h; rw [intoBinary_zero]
    show EvalApp _ (tuple2 (binaryBits []) Gen.Bool.tru)
    ev
  · rw [show (v == 0) = false by simp [h], show (2 * v == 0) = false by simp; omega,
      intoBinary_eq_bits, intoBinary_eq_bits, bitsLSB_double h]
    generalize bitsLSB v = cs
    ev))

theorem binary_strip_app (bs : List Bool) :
    EvalApp (app Gen.Binary.strip (binaryBits bs)) (intoBinary (valueOf bs)) := by
  have nP : ∀ bs, isNormal (stripP bs) = true := fun bs => by simp [stripP]
  have cP : ∀ bs, Closed (stripP bs) := fun bs => by lc_simp [stripP]
  ev
  · refine app_pf_stage2 stripP ?_ rfl (by decide) (by decide) nP (fun bs => ?_) bs
    · show EvalApp _ (tuple2 (intoBinary 0) Gen.Bool.tru)
      rw [intoBinary_zero]; exact EvalApp.of_isNormal (by decide)
    · strip_stepA
  ev
  · refine app_pf_stage3 stripP rfl (by decide) (by decide) cP nP (by decide) (fun bs => ?_) (fun bs => ?_) bs
    · strip_stepA
    · simp only [stripP]
      rw [valueOf_true, show (2 * valueOf bs + 1 == 0) = false by simp,
        intoBinary_eq_bits, intoBinary_eq_bits, bitsLSB_double_succ]
      generalize bitsLSB (valueOf bs) = cs
      generalize (valueOf bs == 0) = b
      ev
  ev

/-! ### APP: the statements on canonical numerals -/

theorem binary_is_zero_app (n : Nat) : EvalApp (app Gen.Binary.is_zero (intoBinary n)) (fromBool (n == 0)) := by
  have := binary_is_zero_bits_app (bitsLSB n)
  rwa [← intoBinary_eq_bits, valueOf_bitsLSB] at this

theorem binary_lsb_app (n : Nat) :
    EvalApp (app Gen.Binary.lsb (intoBinary n)) (if n % 2 = 1 then Gen.Binary.b1 else Gen.Binary.b0) := by
  have := binary_lsb_bits_app (bitsLSB n)
  rw [← intoBinary_eq_bits] at this
  rw [← lsbOf_bitsLSB]; exact this

theorem binary_shl1_app (n : Nat) : EvalApp (app Gen.Binary.shl1 (intoBinary n)) (intoBinary (2 * n + 1)) := by
  rw [intoBinary_eq_bits, intoBinary_eq_bits, bitsLSB_double_succ]; exact binary_shl1_bits_app _

theorem binary_shl0_app (n : Nat) :
    EvalApp (app Gen.Binary.strip (app Gen.Binary.shl0 (intoBinary n))) (intoBinary (2 * n)) := by
  have h := binary_strip_app (false :: bitsLSB n)
  rw [valueOf_false, valueOf_bitsLSB] at h
  rw [intoBinary_eq_bits n]
  exact EvalApp.app_arg (binary_shl0_bits_app _) h

theorem binary_succ_app (n : Nat) : EvalApp (app Gen.Binary.succ (intoBinary n)) (intoBinary (n + 1)) := by
  rw [intoBinary_eq_bits, intoBinary_eq_bits, ← incBits_bitsLSB]; exact binary_succ_bits_app _

theorem binary_pred_app (n : Nat) :
    EvalApp (app Gen.Binary.strip (app Gen.Binary.pred (intoBinary n))) (intoBinary (n - 1)) := by
  have h := binary_strip_app (decBits (bitsLSB n))
  have e : valueOf (decBits (bitsLSB n)) = n - 1 := by
    by_cases h0 : n = 0
    · subst h0; rw [bitsLSB_zero]; rfl
    · rw [valueOf_decBits _ (by rw [valueOf_bitsLSB]; exact h0), valueOf_bitsLSB]
  rw [e] at h
  rw [intoBinary_eq_bits n]
  exact EvalApp.app_arg (binary_pred_bits_app _) h

/-! ## 5. the unbounded termination statements about the model reducer -/

theorem binary_is_zero_reduce_hap (n : Nat) :
    ∃ fuel c, reduce .HAP 0 fuel (app Gen.Binary.is_zero (intoBinary n)) = some (fromBool (n == 0), c) :=
  (binary_is_zero_hap n).reduce
theorem binary_is_zero_reduce_app (n : Nat) :
    ∃ fuel c, reduce .APP 0 fuel (app Gen.Binary.is_zero (intoBinary n)) = some (fromBool (n == 0), c) :=
  (binary_is_zero_app n).reduce
theorem binary_lsb_reduce_hap (n : Nat) :
    ∃ fuel c, reduce .HAP 0 fuel (app Gen.Binary.lsb (intoBinary n)) =
      some (if n % 2 = 1 then Gen.Binary.b1 else Gen.Binary.b0, c) :=
  (binary_lsb_hap n).reduce
theorem binary_lsb_reduce_app (n : Nat) :
    ∃ fuel c, reduce .APP 0 fuel (app Gen.Binary.lsb (intoBinary n)) =
      some (if n % 2 = 1 then Gen.Binary.b1 else Gen.Binary.b0, c) :=
  (binary_lsb_app n).reduce
theorem binary_shl1_reduce_hap (n : Nat) :
    ∃ fuel c, reduce .HAP 0 fuel (app Gen.Binary.shl1 (intoBinary n)) = some (intoBinary (2 * n + 1), c) :=
  (binary_shl1_hap n).reduce
theorem binary_shl1_reduce_app (n : Nat) :
    ∃ fuel c, reduce .APP 0 fuel (app Gen.Binary.shl1 (intoBinary n)) = some (intoBinary (2 * n + 1), c) :=
  (binary_shl1_app n).reduce
theorem binary_shl0_reduce_hap (n : Nat) :
    ∃ fuel c, reduce .HAP 0 fuel (app Gen.Binary.strip (app Gen.Binary.shl0 (intoBinary n))) =
      some (intoBinary (2 * n), c) :=
  (binary_shl0_hap n).reduce
theorem binary_shl0_reduce_app (n : Nat) :
    ∃ fuel c, reduce .APP 0 fuel (app Gen.Binary.strip (app Gen.Binary.shl0 (intoBinary n))) =
      some (intoBinary (2 * n), c) :=
  (binary_shl0_app n).reduce
theorem binary_succ_reduce_hap (n : Nat) :
    ∃ fuel c, reduce .HAP 0 fuel (app Gen.Binary.succ (intoBinary n)) = some (intoBinary (n + 1), c) :=
  (binary_succ_hap n).reduce
theorem binary_succ_reduce_app (n : Nat) :
    ∃ fuel c, reduce .APP 0 fuel (app Gen.Binary.succ (intoBinary n)) = some (intoBinary (n + 1), c) :=
  (binary_succ_app n).reduce
theorem binary_pred_reduce_hap (n : Nat) :
    ∃ fuel c, reduce .HAP 0 fuel (app Gen.Binary.strip (app Gen.Binary.pred (intoBinary n))) =
      some (intoBinary (n - 1), c) :=
  (binary_pred_hap n).reduce
theorem binary_pred_reduce_app (n : Nat) :
    ∃ fuel c, reduce .APP 0 fuel (app Gen.Binary.strip (app Gen.Binary.pred (intoBinary n))) =
      some (intoBinary (n - 1), c) :=
  (binary_pred_app n).reduce
theorem binary_strip_reduce_hap (bs : List Bool) :
    ∃ fuel c, reduce .HAP 0 fuel (app Gen.Binary.strip (binaryBits bs)) = some (intoBinary (valueOf bs), c) :=
  (binary_strip_hap bs).reduce
theorem binary_strip_reduce_app (bs : List Bool) :
    ∃ fuel c, reduce .APP 0 fuel (app Gen.Binary.strip (binaryBits bs)) = some (intoBinary (valueOf bs), c) :=
  (binary_strip_app bs).reduce

end LC
