/-
Eager evaluation (HAP), Church numerals, part A: the remaining comparisons (`lt`, `gt`, `geq`, `neq`), parity
(`is_even`, `is_odd`) and the exponentials (`pow`, `shl`) — for ALL arguments.
-/
import LC.Proofs.Eager.ChurchCbv

namespace LC
open Term Spec Enc RL Eager

set_option linter.unusedSimpArgs false
attribute [local irreducible] iterApp

namespace ChurchHapA

/-- evaluate the FIRST argument of a binary application by CBV first (HAP evaluates the operator `f a` by CBV) -/
theorem hap_app2_arg1 {f a v b r : Term} (ha : EvalCbv a v) (h : EvalHap (app (app f v) b) r) :
    EvalHap (app (app f a) b) r := by
  cases h with
  | appRed hl hr hn => exact EvalHap.appRed (EvalCbv.app_arg ha hl) hr hn
  | appNeu hl hna hr hl' => exact EvalHap.appNeu (EvalCbv.app_arg ha hl) hna hr hl'

/-- the HAP normal forms of `aᵏ x` (`a` a numeral for `m`, `x` the variable bound by the enclosing `λx`):
`x` itself for `k = 0`, then `λy. x^(m^k) y` -/
def powW (m : Nat) : Nat → Term
  | 0 => var 1
  | k + 1 => abs (iterApp (var 2) (var 1) (m ^ (k + 1)))

theorem hap_num_var (m : Nat) : EvalHap (app (intoChurch m) (var 1)) (abs (iterApp (var 2) (var 1) m)) := by
  ev

/-- a numeral applied to the open normal form `λy. xᵖ y` (iteration under a binder, as in `mul`) -/
theorem hap_num_pw (m p : Nat) :
    EvalHap (app (intoChurch m) (abs (iterApp (var 2) (var 1) p))) (abs (iterApp (var 2) (var 1) (p * m))) := by
  ev
  exact hap_iterApp (fun j => iterApp (var 2) (var 1) (p * j)) (by simp; ev)
    (fun j => by rw [Nat.mul_succ, Nat.add_comm (p * j), iterApp_add]; ev) m

/-- `pow` with a base that is a closed CBV value whose HAP normal form is the numeral `m` (in `shl` the base is the
CLOSURE `λfx. f (ONE f x)`, the CBV value of `SUCC ONE`; it is HAP-normalised to `2` when it becomes an operand) -/
theorem pow_core {a : Term} (m n : Nat) (wa : isWNF a = true) (ca : Closed a) (ha : EvalHap a (intoChurch m)) :
    EvalHap (app2 Gen.Church.pow a (intoChurch n)) (intoChurch (m ^ n)) := by
  cases n with
  | zero =>
    have hz : EvalCbv (app Gen.Church.is_zero (intoChurch 0)) (fromBool true) :=
      church_is_zero_cbv (cnum_intoChurch 0)
    ev [ca]
  | succ n =>
    have hz : EvalCbv (app Gen.Church.is_zero (intoChurch (n + 1))) (fromBool false) :=
      church_is_zero_cbv (cnum_intoChurch (n + 1))
    ev [ca]
    exact hap_iterApp (powW m) (by simp only [powW]; ev)
      (fun k => by
        cases k with
        | zero => simp only [powW, Nat.zero_add, Nat.pow_one]; exact hap_num_var m
        | succ k => simp only [powW]; rw [Nat.pow_succ m (k + 1)]; exact hap_num_pw m _) (n + 1)
    simp only [powW]
    rw [intoChurch_eq (m ^ (n + 1))]
    ev

/-- the CBV value of `SUCC ONE` (a closure, not the numeral `2`) and its HAP normal form -/
theorem two_core : ∃ v, EvalCbv (app Gen.Church.succ Gen.Church.one) v ∧ Closed v ∧ EvalHap v (intoChurch 2) := by
  apply Exists.intro
  apply And.intro
  · ev
  · exact ⟨by decide, by ev⟩

end ChurchHapA

open ChurchHapA

/-! ## comparisons -/

theorem church_lt_hap (m n : Nat) :
    EvalHap (app2 Gen.Church.lt (intoChurch m) (intoChurch n)) (fromBool (decide (m < n))) := by
  have h1 := church_leq_hap n m
  rw [show decide (m < n) = !decide (n ≤ m) by rw [Bool.eq_iff_iff]; simp]
  generalize decide (n ≤ m) = b at h1 ⊢
  cases b <;> ev

theorem church_gt_hap (m n : Nat) :
    EvalHap (app2 Gen.Church.gt (intoChurch m) (intoChurch n)) (fromBool (decide (m > n))) := by
  have h1 := church_leq_hap m n
  rw [show decide (m > n) = !decide (m ≤ n) by rw [Bool.eq_iff_iff]; simp]
  generalize decide (m ≤ n) = b at h1 ⊢
  cases b <;> ev

theorem church_geq_hap (m n : Nat) :
    EvalHap (app2 Gen.Church.geq (intoChurch m) (intoChurch n)) (fromBool (decide (m ≥ n))) := by
  have h1 := church_leq_hap n m
  ev

theorem church_neq_hap (m n : Nat) :
    EvalHap (app2 Gen.Church.neq (intoChurch m) (intoChurch n)) (fromBool (decide (m ≠ n))) := by
  have h1 := church_leq_cbv m n
  have h2 := church_leq_hap n m
  rw [show decide (m ≠ n) = (!decide (m ≤ n) || !decide (n ≤ m)) by rw [Bool.eq_iff_iff]; simp; omega]
  generalize decide (m ≤ n) = b1 at h1 ⊢
  generalize decide (n ≤ m) = b2 at h2 ⊢
  cases b1 <;> cases b2 <;> ev

/-! ## parity -/

theorem church_is_even_hap (n : Nat) :
    EvalHap (app Gen.Church.is_even (intoChurch n)) (fromBool (n % 2 == 0)) := by
  ev
  exact hap_iterApp (fun k => fromBool (k % 2 == 0)) (by ev)
    (fun k => by
      rw [show ((k + 1) % 2 == 0) = !(k % 2 == 0) by rw [Bool.eq_iff_iff]; simp; omega]
      generalize (k % 2 == 0) = b
      cases b <;> ev) n

theorem church_is_odd_hap (n : Nat) :
    EvalHap (app Gen.Church.is_odd (intoChurch n)) (fromBool (n % 2 == 1)) := by
  ev
  exact hap_iterApp (fun k => fromBool (k % 2 == 1)) (by ev)
    (fun k => by
      rw [show ((k + 1) % 2 == 1) = !(k % 2 == 1) by rw [Bool.eq_iff_iff]; simp; omega]
      generalize (k % 2 == 1) = b
      cases b <;> ev) n

/-! ## exponentials -/

theorem church_pow_hap (m n : Nat) :
    EvalHap (app2 Gen.Church.pow (intoChurch m) (intoChurch n)) (intoChurch (m ^ n)) :=
  pow_core m n rfl (closed_intoChurch m) (EvalHap.of_isNormal (normal_intoChurch m))

theorem church_shl_hap (m n : Nat) :
    EvalHap (app2 Gen.Church.shl (intoChurch m) (intoChurch n)) (intoChurch (m * 2 ^ n)) := by
  obtain ⟨v, hv, cv, hv2⟩ := two_core
  have hp := hap_app2_arg1 hv (pow_core 2 n hv.isWNF cv hv2)
  have hm := EvalHap.app_arg hp (church_mul_hap m (2 ^ n))
  ev

/-! ## the unbounded termination statements about the model reducer -/

theorem church_lt_reduce_hap (m n : Nat) :
    ∃ fuel c, reduce .HAP 0 fuel (app2 Gen.Church.lt (intoChurch m) (intoChurch n)) =
      some (fromBool (decide (m < n)), c) :=
  (church_lt_hap m n).reduce
theorem church_gt_reduce_hap (m n : Nat) :
    ∃ fuel c, reduce .HAP 0 fuel (app2 Gen.Church.gt (intoChurch m) (intoChurch n)) =
      some (fromBool (decide (m > n)), c) :=
  (church_gt_hap m n).reduce
theorem church_geq_reduce_hap (m n : Nat) :
    ∃ fuel c, reduce .HAP 0 fuel (app2 Gen.Church.geq (intoChurch m) (intoChurch n)) =
      some (fromBool (decide (m ≥ n)), c) :=
  (church_geq_hap m n).reduce
theorem church_neq_reduce_hap (m n : Nat) :
    ∃ fuel c, reduce .HAP 0 fuel (app2 Gen.Church.neq (intoChurch m) (intoChurch n)) =
      some (fromBool (decide (m ≠ n)), c) :=
  (church_neq_hap m n).reduce
theorem church_is_even_reduce_hap (n : Nat) :
    ∃ fuel c, reduce .HAP 0 fuel (app Gen.Church.is_even (intoChurch n)) = some (fromBool (n % 2 == 0), c) :=
  (church_is_even_hap n).reduce
theorem church_is_odd_reduce_hap (n : Nat) :
    ∃ fuel c, reduce .HAP 0 fuel (app Gen.Church.is_odd (intoChurch n)) = some (fromBool (n % 2 == 1), c) :=
  (church_is_odd_hap n).reduce
theorem church_pow_reduce_hap (m n : Nat) :
    ∃ fuel c, reduce .HAP 0 fuel (app2 Gen.Church.pow (intoChurch m) (intoChurch n)) = some (intoChurch (m ^ n), c) :=
  (church_pow_hap m n).reduce
theorem church_shl_reduce_hap (m n : Nat) :
    ∃ fuel c, reduce .HAP 0 fuel (app2 Gen.Church.shl (intoChurch m) (intoChurch n)) =
      some (intoChurch (m * 2 ^ n), c) :=
  (church_shl_hap m n).reduce

end LC
