/-
Helper lemmas for the theorems about whole driver operations (`LC/Props/TieCodecExec.lean`): the words of every kind
of argument are words (non-empty, space-free), so a line made of them is split back into them.
-/
import LC.Proofs.DriverCodecExpr
import LC.Drv.Ops1

open LC LC.Term LC.Parser

namespace Drv

theorem exec_lineOf {ws : List String} (hw : Words ws) : exec (lineOf ws) = execToks ws := by
  rw [exec, lineOf, tokenize_intercalate hw]

theorem Words.singleton {w : String} (h1 : w ≠ "") (h2 : ' ' ∉ w.toList) : Words [w] :=
  Words.cons h1 h2 Words.nil

theorem Words.cons1 {w : String} {l : List String} (h : Words [w]) (hl : Words l) : Words (w :: l) :=
  h.append hl

theorem orderWord_words (o : Order) : Words [orderWord o] := by
  cases o <;> exact Words.singleton (by decide) (by decide)

theorem encWord_words (e : Enc.Encoding) : Words [encWord e] := by
  cases e <;> exact Words.singleton (by decide) (by decide)

theorem nat_words (n : Nat) : Words [toString n] := natWords_words [n]

theorem b01_words (b : Bool) : Words [b01 b] := by
  cases b <;> exact Words.singleton (by decide) (by decide)

theorem errName_words (e : TermError) : Words [errName e] :=
  Words.singleton (errName_word e).1 (errName_word e).2

theorem termsWords_words (ts : List Term) : Words (ts.map termWords).flatten := by
  induction ts with
  | nil => exact Words.nil
  | cons t ts ih => exact (termWords_words t).append ih

theorem callsWords_words (cs : List (Order × Nat)) : Words (cs.map callWords).flatten := by
  induction cs with
  | nil => exact Words.nil
  | cons c cs ih => exact ((orderWord_words c.1).append (nat_words c.2)).append ih

theorem charWord_word (x : Nat × Nat × Nat) : charWord x ≠ "" ∧ ' ' ∉ (charWord x).toList := by
  obtain ⟨a, b, c⟩ := x
  constructor
  · intro h
    have := congrArg String.toList h
    rw [charWord_eq] at this
    have hne : (toString a).toList ≠ [] := by
      intro h0
      exact toString_nat_ne_empty a (String.toList_inj.1 (h0.trans String.toList_empty.symm))
    simp only [String.toList_append, String.toList_empty, List.append_eq_nil_iff] at this
    exact hne this.1.1.1.1
  · intro h
    rcases mem_toList_intercalate h with h | ⟨s, hs, h⟩
    · exact absurd h (by decide)
    · simp only [List.mem_cons, List.not_mem_nil, or_false] at hs
      rcases hs with rfl | rfl | rfl <;> exact not_mem_toString (by decide) h

theorem charWords_words (xs : List (Nat × Nat × Nat)) : Words (xs.map charWord) := by
  intro w hw
  obtain ⟨x, -, rfl⟩ := List.mem_map.1 hw
  exact charWord_word x

/-- the characters of a printed integer are digits or the minus sign -/
theorem int_words (i : Int) : Words [toString i] := by
  have key : ∀ n : Nat, Words [("-" ++ toString n : String)] := by
    intro n
    refine Words.singleton ?_ ?_
    · intro h
      have := congrArg String.toList h
      simp at this
    · simp only [String.toList_append, List.mem_append, not_or]
      exact ⟨by decide, not_mem_toString (by decide)⟩
  cases i with
  | ofNat n => exact nat_words n
  | negSucc n => exact key (n + 1)

end Drv

/-! ## the dispatch of `execToks` / `exec2`: one equation per operation (the arms of the two `match`es, verbatim;
generated from the source of `Ops1.lean` / `Ops2.lean`).  The first use of `rw [Drv2.exec2]` generates the equation
lemmas of `exec2` (≈ 15 s); using these lemmas instead of unfolding keeps `TieCodecExec.lean` fast. -/

namespace Drv
open Drv2

theorem execToks_apply (rest : List String) :
    execToks ("apply" :: rest) =
  (    (do
      let (t, r1) ← decTerm rest
      let (a, _) ← decTerm r1
      pure (resApply t (Term.applyMut t a))).getD "bad-op") := by
  rw [execToks] <;> rfl

theorem execToks_applyb (rest : List String) :
    execToks ("applyb" :: rest) =
  (    (do
      let (t, r1) ← decTerm rest
      let (a, _) ← decTerm r1
      pure (resApplyB (Term.apply t a))).getD "bad-op") := by
  rw [execToks] <;> rfl

theorem execToks_reduceb (o : String) (rest : List String) :
    execToks ("reduceb" :: o :: rest) =
  (    (do
      let o' ← orderOf o
      let (t, _) ← decTerm rest
      pure (resReduceB (reduce o' 1 FUEL t))).getD "bad-op") := by
  rw [execToks] <;> rfl

theorem execToks_reduce (o : String) (l : String) (rest : List String) :
    execToks ("reduce" :: o :: l :: rest) =
  (    (do
      let o' ← orderOf o
      let l' ← l.toNat?
      let (t, _) ← decTerm rest
      pure (resReduce (reduce o' l' FUEL t))).getD "bad-op") := by
  rw [execToks] <;> rfl

theorem execToks_beta (o : String) (l : String) (rest : List String) :
    execToks ("beta" :: o :: l :: rest) =
  (    (do
      let o' ← orderOf o
      let l' ← l.toNat?
      let (t, _) ← decTerm rest
      pure (resBeta (beta t o' l' FUEL))).getD "bad-op") := by
  rw [execToks] <;> rfl

theorem execToks_hist (n : String) (rest : List String) :
    execToks ("hist" :: n :: rest) =
  (    (do
      let n' ← n.toNat?
      let (calls, r1) ← parseCalls n' rest
      let (t, _) ← decTerm r1
      pure ((runHist calls t "").getD "fuel")).getD "bad-op") := by
  rw [execToks] <;> rfl

theorem execToks_pred (rest : List String) :
    execToks ("pred" :: rest) =
  (    (do
      let (t, _) ← decTerm rest
      pure (resPred t)).getD "bad-op") := by
  rw [execToks] <;> rfl

theorem execToks_iso (rest : List String) :
    execToks ("iso" :: rest) =
  (    (do
      let (t, r1) ← decTerm rest
      let (u, _) ← decTerm r1
      pure (b01 (t.isIsomorphicTo u))).getD "bad-op") := by
  rw [execToks] <;> rfl

theorem execToks_acc (rest : List String) :
    execToks ("acc" :: rest) =
  (    (do
      let (t, _) ← decTerm rest
      pure (resAcc t)).getD "bad-op") := by
  rw [execToks] <;> rfl

theorem execToks_put (which : String) (rest : List String) :
    execToks ("put" :: which :: rest) =
  (    (do
      let (t, r1) ← decTerm rest
      match which with
      | "unvar" => do
        let v ← (← r1.head?).toNat?
        pure (resTerm (t.unvarMutPut v))
      | "unabs" => do
        let (v, _) ← decTerm r1
        pure (resTerm (t.unabsMutPut v))
      | "lhs" => do
        let (v, _) ← decTerm r1
        pure (resTerm (t.lhsMutPut v))
      | "rhs" => do
        let (v, _) ← decTerm r1
        pure (resTerm (t.rhsMutPut v))
      | "unapp" => do
        let (v1, r2) ← decTerm r1
        let (v2, _) ← decTerm r2
        pure (resTerm (t.unappMutPut (v1, v2)))
      | _ => none).getD "bad-op") := by
  rw [execToks] <;> rfl

theorem execToks_mapp (k : String) (rest : List String) :
    execToks ("mapp" :: k :: rest) =
  (    (do
      let k' ← k.toNat?
      let (ts, _) ← decTerms (k' + 1) rest
      match ts with
      | t0 :: more => pure (showTerm (appMany t0 more))
      | [] => none).getD "bad-op") := by
  rw [execToks] <;> rfl

theorem execToks_mabs (n : String) (rest : List String) :
    execToks ("mabs" :: n :: rest) =
  (    (do
      let n' ← n.toNat?
      let (t, _) ← decTerm rest
      pure (showTerm (absN n' t))).getD "bad-op") := by
  rw [execToks] <;> rfl

theorem execToks_udconst  :
    execToks ["udconst"] =
  (showTerm Term.UD) := by
  rw [execToks] <;> rfl

theorem exec2_lexd (n : String) (rest : List String) :
    Drv2.exec2 ("lexd" :: n :: rest) =
  (    (do
      let n' ← n.toNat?
      let chars ← decChars n' rest
      let cls := mkCls chars
      pure (resToks (tokenizeDbr cls (chars.map (fun (x : Nat × Nat × Nat) => x.1))))).getD "bad-op") := by
  rw [Drv2.exec2] <;> rfl

theorem exec2_lexc (n : String) (rest : List String) :
    Drv2.exec2 ("lexc" :: n :: rest) =
  (    (do
      let n' ← n.toNat?
      let chars ← decChars n' rest
      let cls := mkCls chars
      pure (resCToks (tokenizeCla cls (chars.map (fun (x : Nat × Nat × Nat) => x.1))))).getD "bad-op") := by
  rw [Drv2.exec2] <;> rfl

theorem exec2_conv (n : String) (rest : List String) :
    Drv2.exec2 ("conv" :: n :: rest) =
  (    (do
      let n' ← n.toNat?
      let cts ← (rest.take n').mapM decCTok
      pure (resConv (convertClassicTokens cts))).getD "bad-op") := by
  rw [Drv2.exec2] <;> rfl

theorem exec2_ast (n : String) (rest : List String) :
    Drv2.exec2 ("ast" :: n :: rest) =
  (    (do
      let n' ← n.toNat?
      let ts ← (rest.take n').mapM decTok
      pure (resAst (getAst ts))).getD "bad-op") := by
  rw [Drv2.exec2] <;> rfl

theorem exec2_fold (n : String) (rest : List String) :
    Drv2.exec2 ("fold" :: n :: rest) =
  (    (do
      let n' ← n.toNat?
      let (es, _) ← decExprs n' rest
      pure (resFold (foldExprs es))).getD "bad-op") := by
  rw [Drv2.exec2] <;> rfl

theorem exec2_parse (nota : String) (n : String) (rest : List String) :
    Drv2.exec2 ("parse" :: nota :: n :: rest) =
  (    (do
      let n' ← n.toNat?
      let chars ← decChars n' rest
      let cls := mkCls chars
      let no ← (if nota == "d" then some Notation.DeBruijn else if nota == "c" then some Notation.Classic else none)
      pure (resParse (parse cls (chars.map (fun (x : Nat × Nat × Nat) => x.1)) no))).getD "bad-op") := by
  rw [Drv2.exec2] <;> rfl

theorem exec2_show (which : String) (lam : String) (rest : List String) :
    Drv2.exec2 ("show" :: which :: lam :: rest) =
  (    (do
      let lam' ← lam.toNat?
      let (t, _) ← decTerm rest
      if which == "c" then pure (showCps (Display.display lam' t))
      else if which == "d" then pure (showCps (Display.debug lam' t))
      else none).getD "bad-op") := by
  rw [Drv2.exec2] <;> rfl

theorem exec2_showu (which : String) (lam : String) (rest : List String) :
    Drv2.exec2 ("showu" :: which :: lam :: rest) =
  (    (do
      let lam' ← lam.toNat?
      let (t, _) ← decTerm rest
      if which == "c" then pure (showCps (Display.display lam' t))
      else if which == "d" then pure (showCps (Display.debug lam' t))
      else none).getD "bad-op") := by
  rw [Drv2.exec2] <;> rfl

theorem exec2_enc (e : String) (n : String) (junk : List String) :
    Drv2.exec2 ("enc" :: e :: n :: junk) =
  (    (do
      let e' ← encOf e
      let n' ← n.toNat?
      pure (showTerm (Enc.intoNum e' n'))).getD "bad-op") := by
  rw [Drv2.exec2] <;> rfl

theorem exec2_signed (e : String) (i : String) (junk : List String) :
    Drv2.exec2 ("signed" :: e :: i :: junk) =
  (    (do
      let e' ← encOf e
      let i' ← i.toInt?
      pure (resSigned (Enc.intoSignedChecked e' i'))).getD "bad-op") := by
  rw [Drv2.exec2] <;> rfl

theorem exec2_vect (kind : String) (k : String) (rest : List String) :
    Drv2.exec2 ("vect" :: kind :: k :: rest) =
  (    (do
      let k' ← k.toNat?
      let (ts, _) ← decTerms k' rest
      match kind with
      | "pair" => pure (showTerm (Enc.pairList ts))
      | "from" => pure (showTerm (Enc.pairList ts))      -- `From<Vec<Term>>` builds the same pair list
      | "church" => pure (showTerm (Enc.churchList ts))
      | "scott" => pure (showTerm (Enc.scottList ts))
      | "parigot" => pure (showTerm (Enc.parigotList ts))
      | _ => none).getD "bad-op") := by
  rw [Drv2.exec2] <;> rfl

theorem exec2_vecn (kind : String) (k : String) (rest : List String) :
    Drv2.exec2 ("vecn" :: kind :: k :: rest) =
  (    (do
      let k' ← k.toNat?
      let ns ← decNats k' rest
      match kind with
      | "church" => pure (showTerm (Enc.churchList (ns.map Enc.intoChurch)))
      | "scott" => pure (showTerm (Enc.scottList (ns.map Enc.intoScott)))
      | "parigot" => pure (showTerm (Enc.parigotList (ns.map Enc.intoParigot)))
      | _ => none).getD "bad-op") := by
  rw [Drv2.exec2] <;> rfl

theorem exec2_frompair (rest : List String) :
    Drv2.exec2 ("frompair" :: rest) =
  (    (do
      let (a, r1) ← decTerm rest
      let (b, _) ← decTerm r1
      pure (showTerm (Enc.fromPair a b))).getD "bad-op") := by
  rw [Drv2.exec2] <;> rfl

theorem exec2_fromopt_none (junk : List String) :
    Drv2.exec2 ("fromopt" :: "none" :: junk) =
  (showTerm (Enc.fromOption none)) := by
  rw [Drv2.exec2] <;> rfl

theorem exec2_fromopt_some (rest : List String) :
    Drv2.exec2 ("fromopt" :: "some" :: rest) =
  (    (do let (a, _) ← decTerm rest; pure (showTerm (Enc.fromOption (some a)))).getD "bad-op") := by
  rw [Drv2.exec2] <;> rfl

theorem exec2_fromres_ok (rest : List String) :
    Drv2.exec2 ("fromres" :: "ok" :: rest) =
  (    (do let (a, _) ← decTerm rest; pure (showTerm (Enc.fromResult (.ok a)))).getD "bad-op") := by
  rw [Drv2.exec2] <;> rfl

theorem exec2_fromres_err (rest : List String) :
    Drv2.exec2 ("fromres" :: "err" :: rest) =
  (    (do let (a, _) ← decTerm rest; pure (showTerm (Enc.fromResult (.error a)))).getD "bad-op") := by
  rw [Drv2.exec2] <;> rfl

theorem exec2_frombool (b : String) (junk : List String) :
    Drv2.exec2 ("frombool" :: b :: junk) =
  (showTerm (Enc.fromBool (b == "1"))) := by
  rw [Drv2.exec2] <;> rfl

theorem exec2_numpair (e : String) (a : String) (b : String) (junk : List String) :
    Drv2.exec2 ("numpair" :: e :: a :: b :: junk) =
  (    (do
      let e' ← encOf e
      pure (showTerm (Enc.fromPair (Enc.intoNum e' (← a.toNat?)) (Enc.intoNum e' (← b.toNat?))))).getD "bad-op") := by
  rw [Drv2.exec2] <;> rfl

theorem exec2_numopt_none (e : String) (junk : List String) :
    Drv2.exec2 ("numopt" :: e :: "none" :: junk) =
  ((do let _ ← encOf e; pure (showTerm (Enc.fromOption none))).getD "bad-op") := by
  rw [Drv2.exec2] <;> rfl

theorem exec2_numopt_some (e : String) (a : String) (junk : List String) :
    Drv2.exec2 ("numopt" :: e :: "some" :: a :: junk) =
  (    (do let e' ← encOf e; pure (showTerm (Enc.fromOption (some (Enc.intoNum e' (← a.toNat?)))))).getD "bad-op") := by
  rw [Drv2.exec2] <;> rfl

theorem exec2_numres_ok (e : String) (a : String) (junk : List String) :
    Drv2.exec2 ("numres" :: e :: "ok" :: a :: junk) =
  (    (do let e' ← encOf e; pure (showTerm (Enc.fromResult (.ok (Enc.intoNum e' (← a.toNat?)))))).getD "bad-op") := by
  rw [Drv2.exec2] <;> rfl

theorem exec2_numres_err (e : String) (a : String) (junk : List String) :
    Drv2.exec2 ("numres" :: e :: "err" :: a :: junk) =
  (    (do let e' ← encOf e; pure (showTerm (Enc.fromResult (.error (Enc.intoNum e' (← a.toNat?)))))).getD "bad-op") := by
  rw [Drv2.exec2] <;> rfl

theorem exec2_tuple (k : String) (rest : List String) :
    Drv2.exec2 ("tuple" :: k :: rest) =
  (    (do
      let k' ← k.toNat?
      let (ts, _) ← decTerms k' rest
      match ts with
      | t :: more => pure (showTerm (Enc.tuple t more))
      | [] => none).getD "bad-op") := by
  rw [Drv2.exec2] <;> rfl

theorem exec2_pi (i : String) (n : String) (junk : List String) :
    Drv2.exec2 ("pi" :: i :: n :: junk) =
  (    (do pure (showTerm (Enc.pi (← i.toNat?) (← n.toNat?)))).getD "bad-op") := by
  rw [Drv2.exec2] <;> rfl

theorem exec2_errmsg_term (e : TermError) (junk : List String) :
    Drv2.exec2 ("errmsg" :: "term" :: errName e :: junk) = showCps (Display.termErrorMsg e) := by
  cases e <;> (rw [errName, Drv2.exec2]; rfl)

theorem exec2_errmsg_parse_IC (i : String) (c : String) (junk : List String) :
    Drv2.exec2 ("errmsg" :: "parse" :: "IC" :: i :: c :: junk) =
  (    (do pure (showCps (Display.parseErrorMsg (.InvalidCharacter (← i.toNat?) (← c.toNat?))))).getD "bad-op") := by
  rw [Drv2.exec2] <;> rfl

theorem exec2_errmsg_parse_IE (junk : List String) :
    Drv2.exec2 ("errmsg" :: "parse" :: "IE" :: junk) =
  (showCps (Display.parseErrorMsg .InvalidExpression)) := by
  rw [Drv2.exec2] <;> rfl

theorem exec2_errmsg_parse_EE (junk : List String) :
    Drv2.exec2 ("errmsg" :: "parse" :: "EE" :: junk) =
  (showCps (Display.parseErrorMsg .EmptyExpression)) := by
  rw [Drv2.exec2] <;> rfl

theorem exec2_ordname (o : Order) (junk : List String) :
    Drv2.exec2 ("ordname" :: orderWord o :: junk) = showCps (Display.orderName o) := by
  cases o <;> (rw [orderWord, Drv2.exec2]; rfl)

/-- the operations that are not in the first `match` are dispatched to `exec2` -/
theorem execToks_fall {w : String} (ws : List String)
    (h : w ∉ ["apply", "applyb", "reduceb", "reduce", "beta", "hist", "pred", "iso", "acc", "put", "mapp",
      "mabs", "udconst"]) :
    execToks (w :: ws) = Drv2.exec2 (w :: ws) := by
  simp only [List.mem_cons, List.not_mem_nil, or_false, not_or] at h
  rw [execToks]
  all_goals (intros; simp_all)

/-! ## round trips without a rest -/

theorem dec1 (t : Term) : decTerm (termWords t) = some (t, []) := by
  simpa using decTerm_termWords t []

theorem decTerms1 (ts : List Term) : decTerms ts.length (ts.map termWords).flatten = some (ts, []) := by
  simpa using decTerms_termWords ts []

theorem decChars1 (xs : List (Nat × Nat × Nat)) : decChars xs.length (xs.map charWord) = some xs := by
  simpa using decChars_charWord xs []

theorem decNats1 (ns : List Nat) : decNats ns.length (ns.map toString) = some ns := by
  simpa using decNats_toString ns []

theorem decExprs1 (es : List Expression) : decExprs es.length (exprsWords es) = some (es, []) := by
  simpa using decExprs_exprsWords es []

theorem take_length_self {α : Type} (l : List α) : l.take l.length = l := List.take_length

/-- `Words` of a literal word -/
macro "lit_words" : term => `(Words.singleton (by decide) (by decide))

/-! ## the result lines defined in `Ops1.lean` / `Ops2.lean` -/

theorem resApply_eq (t : Term) (p : Term × Except TermError Unit) :
    resApply t p = " ".intercalate (resApplyWords t p) := by
  match p with
  | (t', .ok ()) => exact ok_showTerm t'
  | (t', .error e) =>
    simp only [resApply, resApplyWords]
    split
    · simp [String.intercalate_cons_cons]
    · rw [String.intercalate_cons_cons, String.intercalate_cons_cons,
        String.intercalate_cons_of_ne_nil (termWords_ne_nil t'), showTerm_eq]
      have : (" CHANGED " : String) = " " ++ ("CHANGED" ++ " ") := by decide
      have h2 : ("err " : String) = "err" ++ " " := by decide
      rw [this, h2]
      simp only [String.append_assoc]

theorem resApplyWords_words (t : Term) (p : Term × Except TermError Unit) : Words (resApplyWords t p) := by
  match p with
  | (t', .ok ()) => exact Words.cons1 lit_words (termWords_words t')
  | (t', .error e) =>
    simp only [resApplyWords]
    split
    · exact Words.cons1 lit_words (errName_words e)
    · exact Words.cons1 lit_words (Words.cons1 (errName_words e) (Words.cons1 lit_words (termWords_words t')))

/-- INJECTIVITY: given the receiver before the call, the answer of `apply` determines the receiver after the call and
the outcome — except that an unchanged receiver is not printed again -/
theorem resApply_inj (t : Term) {p q : Term × Except TermError Unit} (h : resApply t p = resApply t q) : p = q := by
  rw [resApply_eq, resApply_eq] at h
  have h := intercalate_inj (resApplyWords_words t p) (resApplyWords_words t q) h
  match p, q, h with
  | (t', .ok ()), (u', .ok ()), h =>
    simp only [resApplyWords, List.cons.injEq, true_and] at h
    rw [termWords_inj h]
  | (t', .ok ()), (u', .error e), h =>
    simp only [resApplyWords] at h
    split at h <;> simp at h
  | (t', .error e), (u', .ok ()), h =>
    simp only [resApplyWords] at h
    split at h <;> simp at h
  | (t', .error e), (u', .error e'), h =>
    simp only [resApplyWords] at h
    split at h <;> split at h
    · rename_i h1 h2
      simp at h1 h2
      simp only [List.cons.injEq, and_true, true_and] at h
      rw [h1, h2, errName_inj h]
    · simp at h
    · simp at h
    · simp only [List.cons.injEq, true_and] at h
      rw [errName_inj h.1, termWords_inj h.2]

theorem toNat?_PANIC : "PANIC".toNat? = none :=
  toNat?_eq_none_of_head (c := 'P') (cs := ['A', 'N', 'I', 'C']) (by decide) (by decide) (by decide)

theorem resSigned_inj {r r' : Option Term} (h : Drv2.resSigned r = Drv2.resSigned r') : r = r' := by
  have eq : ∀ r, Drv2.resSigned r = " ".intercalate (resSignedWords r) := by
    intro r; cases r with
    | some t => exact showTerm_eq t
    | none => simp [Drv2.resSigned, resSignedWords]
  have wd : ∀ r, Words (resSignedWords r) := by
    intro r; cases r with
    | some t => exact termWords_words t
    | none => exact lit_words
  refine inj_of_words eq wd ?_ h
  intro a b h
  match a, b, h with
  | none, none, _ => rfl
  | none, some t, h => exact absurd h.symm (termWords_ne_singleton toNat?_PANIC)
  | some t, none, h => exact absurd h (termWords_ne_singleton toNat?_PANIC)
  | some t, some u, h => rw [termWords_inj h]

end Drv
