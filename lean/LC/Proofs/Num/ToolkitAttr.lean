/-
The simp attribute `lc_simp` of the numeral/list correctness toolkit (`LC/Proofs/Num/Toolkit.lean`).
(A simp attribute has to be registered in a module different from the one that uses it.)
-/
import Lean.Meta.Tactic.Simp.RegisterCommand

/-- simp set of the λ-encoding toolkit: computes `contract`/`applyAux`/`shiftFV`/`closedAt`/`psubst` on explicit
constructor trees with symbolic (closed or arbitrary) leaves.  Tag closedness facts of your own constants with it. -/
register_simp_attr lc_simp
