/-
TOOLKIT for correctness proofs of the λ-encoded operations (`LC.Gen.*`) up to β-reduction.
See the section comments; worked examples are at the end of the file.

Usage: `import LC.Proofs.Num.Toolkit`, `open LC Term Spec Enc`.
-/
import LC.Proofs.PSubst
import LC.Proofs.Confluence
import LC.Model.Encode
import LC.Spec.NormalForms
import LC.Gen.All
import LC.Proofs.Num.ToolkitAttr

namespace LC
open Term Spec Enc

/-! ## 1. notation -/

/-- `t ↠ u`: `t` β-reduces to `u` in zero or more steps (anywhere in the term) -/
scoped infix:50 " ↠ " => Spec.Star

/-- enables `calc t ↠ u := … _ ↠ v := …` -/
instance : Trans Spec.Star Spec.Star Spec.Star := ⟨Star.trans⟩

abbrev app2 (f a b : Term) : Term := app (app f a) b
abbrev app3 (f a b c : Term) : Term := app (app (app f a) b) c
abbrev app4 (f a b c d : Term) : Term := app (app (app (app f a) b) c) d

/-! ## 2. closedness -/

/-- a closed term (no free variables; `var 0` does not occur outside a binder either) -/
abbrev Closed (t : Term) : Prop := closedAt 0 t = true

theorem closedAt_mono {k k' : Nat} {t : Term} (h : closedAt k t = true) (hk : k ≤ k') :
    closedAt k' t = true := by
  induction t generalizing k k' with
  | var i => simp [closedAt] at *; omega
  | abs b ih => simp only [closedAt] at *; exact ih h (by omega)
  | app l r ihl ihr => simp only [closedAt, Bool.and_eq_true] at *; exact ⟨ihl h.1 hk, ihr h.2 hk⟩

theorem Closed.closedAt {t : Term} (h : Closed t) (k : Nat) : closedAt k t = true :=
  closedAt_mono h (Nat.zero_le k)

open Lean Meta Simp in
/-- ground instances `closedAt k c` (no free Lean variables, e.g. `c` a generated constant) are evaluated -/
simproc [lc_simp] closedAtGround (Spec.closedAt _ _) := fun e => do
  if e.hasFVar || e.hasMVar then return .continue
  let r ← withDefault (whnf e)
  if r.isConstOf ``Bool.true || r.isConstOf ``Bool.false then
    let pf ← mkExpectedTypeHint (← mkEqRefl r) (← mkEq e r)
    return .done { expr := r, proof? := some pf }
  return .continue

attribute [lc_simp] Closed contract applyAux shiftFV closedAt shiftFV_zero psubst_app psubst_abs psubstAux
  psubst_env_var1 psubst_env_var2 psubst_env_var3 psubst_env_var4 psubst_env_var psubst_var_zero
  env_nil env_cons_one env_cons_succ_succ

@[lc_simp] theorem closedAt_succ_of_closed {t : Term} (h : closedAt 0 t = true) (k : Nat) : closedAt (k + 1) t = true :=
  Closed.closedAt h _
@[lc_simp] theorem shiftFV_of_closed {t : Term} (h : closedAt 0 t = true) (a o : Nat) : shiftFV a o t = t :=
  shiftFV_closed a o h
@[lc_simp] theorem applyAux_of_closed {t : Term} (h : closedAt 0 t = true) (r : Term) (d : Nat) (hd : 1 ≤ d) :
    applyAux r d t = t := applyAux_closed r d hd h
@[lc_simp] theorem contract_of_closed {t : Term} (h : closedAt 0 t = true) (r : Term) : contract t r = t :=
  contract_closed r h
@[lc_simp] theorem psubstAux_of_closed {t : Term} (h : closedAt 0 t = true) (σ : Nat → Term) (d : Nat) :
    psubstAux σ d t = t := psubstAux_closedAt σ d (Closed.closedAt h d)
@[lc_simp] theorem psubst_of_closed {t : Term} (h : closedAt 0 t = true) (σ : Nat → Term) : psubst σ t = t :=
  psubst_closed σ h

/-- `lc_simp`, `lc_simp [extra, lemmas]`, `lc_simp … at h`: the toolkit's normalising simp call.
Computes substitutions/shifts/closedness on explicit trees; uses all hypotheses (`Closed a` facts in particular). -/
syntax "lc_simp" (" [" Lean.Parser.Tactic.simpLemma,* "]")? (Lean.Parser.Tactic.location)? : tactic
macro_rules
  | `(tactic| lc_simp $[at $loc]?) => `(tactic| simp [lc_simp, *] $[at $loc]?)
  | `(tactic| lc_simp [$ls,*] $[at $loc]?) => `(tactic| simp [lc_simp, *, $ls,*] $[at $loc]?)


/-! ## 3. contraction: cancellation lemmas and the β tactics -/

/-- substituting for a variable that was shifted away: `o < d ≤ o + k` -/
@[lc_simp] theorem applyAux_shiftFV_cancel_simp (x : Term) (d o k : Nat) (t : Term) (h1 : o < d) (h2 : d ≤ o + k) :
    applyAux x d (shiftFV k o t) = shiftFV (k - 1) o t := by
  obtain ⟨k, rfl⟩ : ∃ j, k = j + 1 := ⟨k - 1, by omega⟩
  exact applyAux_shiftFV_cancel' x d o k h1 (by omega) t

@[lc_simp] theorem shiftFV_shiftFV_add_simp (a b o : Nat) (t : Term) :
    shiftFV a o (shiftFV b o t) = shiftFV (a + b) o t := by
  rw [shiftFV_shiftFV_add, Nat.add_comm]

theorem Star.beta (b a : Term) : app (abs b) a ↠ contract b a := Star.redc b a

/-- `lc_trans h`: from goal `t ↠ v` and `h : t ↠ u` to goal `u ↠ v` -/
macro "lc_trans " e:term : tactic => `(tactic| refine Star.trans $e ?_)

/-- `lc_head h`: like `lc_trans`, but `h : t ↠ u` is used at the head of the application spine of the goal's
left-hand side (`t a₁ … a_k ↠ v` becomes `u a₁ … a_k ↠ v`, `0 ≤ k ≤ 5`) -/
macro "lc_head " e:term : tactic => `(tactic| first
  | refine Star.trans $e ?_
  | refine Star.trans (Star.congAppL _ $e) ?_
  | refine Star.trans (Star.congAppL _ (Star.congAppL _ $e)) ?_
  | refine Star.trans (Star.congAppL _ (Star.congAppL _ (Star.congAppL _ $e))) ?_
  | refine Star.trans (Star.congAppL _ (Star.congAppL _ (Star.congAppL _ (Star.congAppL _ $e)))) ?_
  | refine Star.trans (Star.congAppL _ (Star.congAppL _ (Star.congAppL _ (Star.congAppL _ (Star.congAppL _ $e))))) ?_)

syntax "lc_find " term : tactic
macro_rules
  | `(tactic| lc_find $e) => `(tactic| first
      | exact $e
      | (apply Star.congAppL; lc_find $e)
      | (apply Star.congAppR; lc_find $e)
      | (apply Star.congAbs; lc_find $e))

/-- `lc_rw h`: like `lc_trans`, but `h : t ↠ u` is used at the first subterm of the goal's left-hand side that it
unifies with (search order: the term itself, function part, argument part, body of an abstraction). -/
macro "lc_rw " e:term : tactic =>
  `(tactic| (apply Star.trans; (· lc_find $e)))

/-- `lc_beta`: contract the head redex `(λb) a₁ a₂ … a_k` (`1 ≤ k ≤ 6`) of the goal's left-hand side and normalise the
substitution with `lc_simp`.  Definitions (generated constants) at the head are unfolded by unification.
`lc_beta n` does it `n` times. -/
syntax "lc_beta" (num)? : tactic
macro_rules
  | `(tactic| lc_beta) => `(tactic| (lc_head (Star.redc _ _); try lc_simp))
  | `(tactic| lc_beta $n) => `(tactic| iterate $n lc_beta)

/-- `lc_beta_in`: contract the first redex found by `lc_rw` (anywhere in the term) and normalise -/
macro "lc_beta_in" : tactic => `(tactic| (lc_rw (Star.redc _ _); try lc_simp))

open Lean in
/-- `lc_fold c₁ c₂ …`: fold the explicit trees of the named constants back into their names (in the given order: list
bigger constants first), e.g. `lc_fold Gen.Church.sub Gen.Church.succ`.  Purely cosmetic/for `lc_rw` with lemmas stated by
name — `exact`/`lc_trans`/`lc_head` see through names anyway. -/
macro "lc_fold " cs:(ppSpace colGt ident)+ : tactic => do
  let tacs ← cs.mapM fun c => do
    let eq := mkIdentFrom c (c.getId ++ `eq_def)
    `(tactic| try simp only [← $eq:ident])
  `(tactic| ($[$tacs];*))

/-- `lc_cong`: strip the common context of both sides of a goal `C[t] ↠ C[u]`: closes `t ↠ t`, goes under `abs`,
and into the argument / function part of an application whose other part agrees on both sides. -/
macro "lc_cong" : tactic => `(tactic| repeat' (first
  | exact Star.refl _
  | refine Star.congAbs ?_
  | refine Star.congAppR _ ?_
  | refine Star.congAppL _ ?_))

/-- `lc_cong!` additionally splits `l r ↠ l' r'` into `l ↠ l'` and `r ↠ r'` (may produce unprovable goals). -/
macro "lc_cong!" : tactic => `(tactic| repeat' (first
  | exact Star.refl _
  | refine Star.congAbs ?_
  | refine Star.congAppR _ ?_
  | refine Star.congAppL _ ?_
  | refine Star.congApp ?_ ?_))

/-! ## 4. iteration, Church numerals -/

/-- `fⁿ x` -/
def iterApp (f x : Term) : Nat → Term
  | 0 => x
  | n + 1 => app f (iterApp f x n)

@[simp, lc_simp] theorem iterApp_zero (f x : Term) : iterApp f x 0 = x := rfl
theorem iterApp_succ (f x : Term) (n : Nat) : iterApp f x (n + 1) = app f (iterApp f x n) := rfl
theorem iterApp_succ' (f x : Term) (n : Nat) : iterApp f x (n + 1) = iterApp f (app f x) n := by
  induction n with
  | zero => rfl
  | succ n ih => rw [iterApp_succ, ih]; rfl
theorem iterApp_add (f x : Term) (m n : Nat) : iterApp f x (m + n) = iterApp f (iterApp f x n) m := by
  induction m with
  | zero => simp
  | succ m ih => rw [Nat.succ_add, iterApp_succ, ih]; rfl

@[lc_simp] theorem shiftFV_iterApp (a o : Nat) (f x : Term) (n : Nat) :
    shiftFV a o (iterApp f x n) = iterApp (shiftFV a o f) (shiftFV a o x) n := by
  induction n with
  | zero => rfl
  | succ n ih => simp [iterApp, shiftFV, ih]
@[lc_simp] theorem applyAux_iterApp (r : Term) (d : Nat) (f x : Term) (n : Nat) :
    applyAux r d (iterApp f x n) = iterApp (applyAux r d f) (applyAux r d x) n := by
  induction n with
  | zero => rfl
  | succ n ih => simp [iterApp, applyAux, ih]
@[lc_simp] theorem psubstAux_iterApp (σ : Nat → Term) (d : Nat) (f x : Term) (n : Nat) :
    psubstAux σ d (iterApp f x n) = iterApp (psubstAux σ d f) (psubstAux σ d x) n := by
  induction n with
  | zero => rfl
  | succ n ih => simp [iterApp, psubstAux, ih]
@[lc_simp] theorem psubst_iterApp (σ : Nat → Term) (f x : Term) (n : Nat) :
    psubst σ (iterApp f x n) = iterApp (psubst σ f) (psubst σ x) n := psubstAux_iterApp σ 0 f x n
@[lc_simp] theorem closedAt_iterApp (k : Nat) (f x : Term) (n : Nat) :
    closedAt k (iterApp f x n) = (closedAt k x && (n == 0 || closedAt k f)) := by
  induction n with
  | zero => simp [iterApp]
  | succ n ih => simp [iterApp, closedAt, ih]; grind
theorem closedAt_iterApp_of {k : Nat} {f x : Term} (hf : closedAt k f = true) (hx : closedAt k x = true) (n : Nat) :
    closedAt k (iterApp f x n) = true := by simp [closedAt_iterApp, hf, hx]

theorem Star.iterApp {f f' x x' : Term} (hf : f ↠ f') (hx : x ↠ x') (n : Nat) : iterApp f x n ↠ iterApp f' x' n := by
  induction n with
  | zero => exact hx
  | succ n ih => exact Star.congApp hf ih

/-- iterating a function with `app f t ↠ g t`-style invariant: if `P`-indexed family `v` is advanced by `f` … -/
theorem iterApp_star (f : Term) (v : Nat → Term) (h : ∀ k, app f (v k) ↠ v (k + 1)) (n : Nat) :
    iterApp f (v 0) n ↠ v n := by
  induction n with
  | zero => exact Star.refl _
  | succ n ih => exact (Star.congAppR _ ih).trans (h n)

theorem churchBody_eq (n : Nat) : churchBody n = iterApp (var 2) (var 1) n := by
  induction n with
  | zero => rfl
  | succ n ih => simp [churchBody, iterApp, ih]

theorem intoChurch_eq (n : Nat) : intoChurch n = abs (abs (iterApp (var 2) (var 1) n)) := by
  simp [intoChurch, churchBody_eq]

@[simp, lc_simp] theorem closedAt_intoChurch (k n : Nat) : closedAt k (intoChurch n) = true := by
  simp [intoChurch_eq, closedAt, closedAt_iterApp]
theorem closed_intoChurch (n : Nat) : Closed (intoChurch n) := closedAt_intoChurch 0 n

/-- Church elimination, for arbitrary (open) `f`, `x` -/
theorem church_elim (n : Nat) (f x : Term) : app2 (intoChurch n) f x ↠ iterApp f x n := by
  rw [intoChurch_eq]; lc_beta 2; exact Star.refl _

theorem isNormal_iterApp_var (i : Nat) (x : Term) (hx : isNormal x = true) (n : Nat) :
    isNormal (iterApp (var i) x n) = true := by
  induction n with
  | zero => exact hx
  | succ n ih => simp [iterApp, isNormal, isAbs, ih]

theorem normal_intoChurch (n : Nat) : isNormal (intoChurch n) = true := by
  rw [intoChurch_eq]; simp only [isNormal]; exact isNormal_iterApp_var 2 (var 1) rfl n

/-! ## 5. the other encodings: closedness and elimination laws -/

/-! ### Scott numerals -/

@[simp, lc_simp] theorem closedAt_intoScott (k n : Nat) : closedAt k (intoScott n) = true := by
  induction n generalizing k with
  | zero => simp [intoScott, closedAt]
  | succ n ih => simp [intoScott, closedAt, ih]
theorem closed_intoScott (n : Nat) : Closed (intoScott n) := closedAt_intoScott 0 n

theorem scott_elim_zero (a b : Term) : app2 (intoScott 0) a b ↠ a := by
  lc_beta 2; exact Star.refl _
theorem scott_elim_succ (n : Nat) (a b : Term) : app2 (intoScott (n + 1)) a b ↠ app b (intoScott n) := by
  lc_beta 2; exact Star.refl _

/-! ### Parigot numerals -/

/-- the body of a Parigot numeral under its two binders (`var 2` = step, `var 1` = zero) -/
def parigotBody : Nat → Term
  | 0 => var 1
  | n + 1 => app2 (var 2) (abs (abs (parigotBody n))) (parigotBody n)

theorem intoParigot_eq (n : Nat) : intoParigot n = abs (abs (parigotBody n)) := by
  induction n with
  | zero => rfl
  | succ n ih => simp [intoParigot, parigotBody, ih, unabs2]

@[simp, lc_simp] theorem unabs2_intoParigot (n : Nat) : unabs2 (intoParigot n) = parigotBody n := by
  rw [intoParigot_eq]; rfl

theorem closedAt_parigotBody (k n : Nat) : closedAt (k + 2) (parigotBody n) = true := by
  induction n generalizing k with
  | zero => simp [parigotBody, closedAt]
  | succ n ih => simp [parigotBody, closedAt, ih]

@[simp, lc_simp] theorem closedAt_intoParigot (k n : Nat) : closedAt k (intoParigot n) = true := by
  rw [intoParigot_eq]; simp [closedAt, closedAt_parigotBody]
theorem closed_intoParigot (n : Nat) : Closed (intoParigot n) := closedAt_intoParigot 0 n

/-- primitive recursion: what a Parigot numeral computes from step `s` and base `z` -/
def parigotRec (s z : Term) : Nat → Term
  | 0 => z
  | n + 1 => app2 s (intoParigot n) (parigotRec s z n)

@[simp, lc_simp] theorem parigotRec_zero (s z : Term) : parigotRec s z 0 = z := rfl
theorem parigotRec_succ (s z : Term) (n : Nat) :
    parigotRec s z (n + 1) = app2 s (intoParigot n) (parigotRec s z n) := rfl

theorem parigotBody_succ (n : Nat) : parigotBody (n + 1) = app2 (var 2) (intoParigot n) (parigotBody n) := by
  rw [intoParigot_eq]; rfl

theorem parigotBody_inst (s z : Term) (n : Nat) :
    applyAux z 1 (applyAux s 2 (parigotBody n)) = parigotRec s z n := by
  induction n with
  | zero => lc_simp [parigotBody]
  | succ n ih => rw [parigotBody_succ]; lc_simp [parigotRec, ih]

/-- Parigot elimination, arbitrary `s`, `z`.
NOTE: the "one-step" shape `… ↠ s (P n) (P n s z)` is not a reduction (the recursive result occurs already unfolded);
`parigotRec` is the true reduct. -/
theorem parigot_elim (n : Nat) (s z : Term) : app2 (intoParigot n) s z ↠ parigotRec s z n := by
  rw [intoParigot_eq]
  lc_head (Star.redc _ _); lc_trans (Star.redc _ _)
  simp only [contract]
  rw [parigotBody_inst]; exact Star.refl _

theorem parigot_elim_zero (s z : Term) : app2 (intoParigot 0) s z ↠ z := parigot_elim 0 s z
theorem parigot_elim_succ (n : Nat) (s z : Term) :
    app2 (intoParigot (n + 1)) s z ↠ app2 s (intoParigot n) (parigotRec s z n) := parigot_elim (n + 1) s z

/-! ### Stump-Fu numerals -/

@[simp, lc_simp] theorem closedAt_intoStumpFu (k n : Nat) : closedAt k (intoStumpFu n) = true := by
  induction n generalizing k with
  | zero => simp [intoStumpFu, closedAt]
  | succ n ih => simp [intoStumpFu, closedAt, ih]
theorem closed_intoStumpFu (n : Nat) : Closed (intoStumpFu n) := closedAt_intoStumpFu 0 n

theorem stumpfu_elim_zero (s z : Term) : app2 (intoStumpFu 0) s z ↠ z := by
  lc_beta 2; exact Star.refl _
theorem stumpfu_elim_succ (n : Nat) (s z : Term) :
    app2 (intoStumpFu (n + 1)) s z ↠ app2 s (intoChurch (n + 1)) (intoStumpFu n) := by
  lc_beta 2; exact Star.refl _

/-! ### binary numerals -/

theorem closedAt_binaryFold (k : Nat) (bs : List Bool) (acc : Term) (h : closedAt (k + 3) acc = true) :
    closedAt (k + 3) (bs.foldl (fun ret bit => app (if bit then var 1 else var 2) ret) acc) = true := by
  induction bs generalizing acc with
  | nil => exact h
  | cons b bs ih => apply ih; cases b <;> simp [closedAt, h]

@[simp, lc_simp] theorem closedAt_intoBinary (k n : Nat) : closedAt k (intoBinary n) = true := by
  simp only [intoBinary, closedAt]
  exact closedAt_binaryFold k _ _ (by simp [closedAt])
theorem closed_intoBinary (n : Nat) : Closed (intoBinary n) := closedAt_intoBinary 0 n

/-! ### booleans -/

theorem fromBool_true : fromBool true = Gen.Bool.tru := by decide
theorem fromBool_false : fromBool false = Gen.Bool.fls := by decide
@[simp, lc_simp] theorem closedAt_fromBool (k : Nat) (b : Bool) : closedAt k (fromBool b) = true := by
  cases b <;> simp [fromBool, closedAt]

theorem tru_elim (a b : Term) : app2 Gen.Bool.tru a b ↠ a := by lc_beta 2; exact Star.refl _
theorem fls_elim (a b : Term) : app2 Gen.Bool.fls a b ↠ b := by lc_beta 2; exact Star.refl _
theorem fromBool_elim (c : Bool) (a b : Term) : app2 (fromBool c) a b ↠ if c then a else b := by
  cases c
  · exact fls_elim a b
  · exact tru_elim a b

/-! ### pairs -/

@[lc_simp] theorem closedAt_tuple2 (k : Nat) (a b : Term) :
    closedAt k (tuple2 a b) = (closedAt (k + 1) a && closedAt (k + 1) b) := by
  simp [tuple2, closedAt]
theorem closed_tuple2 {a b : Term} (ha : Closed a) (hb : Closed b) : Closed (tuple2 a b) := by lc_simp
theorem fromPair_eq (a b : Term) : fromPair a b = tuple2 a b := rfl

/-- projection out of a pair with CLOSED components (open components would be captured by the pair's binder) -/
theorem tuple2_elim {a b : Term} (ha : Closed a) (hb : Closed b) (f : Term) : app (tuple2 a b) f ↠ app2 f a b := by
  unfold tuple2; lc_beta; exact Star.refl _

theorem pair_fst {a b : Term} (ha : Closed a) (hb : Closed b) : app Gen.Pair.fst (tuple2 a b) ↠ a := by
  lc_beta; lc_trans (tuple2_elim ha hb _); lc_beta 2; exact Star.refl _
theorem pair_snd {a b : Term} (ha : Closed a) (hb : Closed b) : app Gen.Pair.snd (tuple2 a b) ↠ b := by
  lc_beta; lc_trans (tuple2_elim ha hb _); lc_beta 2; exact Star.refl _

/-- for arbitrary (open) `a b f` -/
theorem pair_elim (a b f : Term) : app3 Gen.Pair.pair a b f ↠ app2 f a b := by
  lc_beta 3; exact Star.refl _
/-- for arbitrary `a b` the components are shifted under the new binder … -/
theorem pair_mk_open (a b : Term) : app2 Gen.Pair.pair a b ↠ tuple2 (shiftFV 1 0 a) (shiftFV 1 0 b) := by
  lc_beta 2; exact Star.refl _
/-- … and closed ones are unchanged -/
theorem pair_mk {a b : Term} (ha : Closed a) (hb : Closed b) : app2 Gen.Pair.pair a b ↠ tuple2 a b := by
  lc_beta 2; exact Star.refl _

/-! ### lists (elements CLOSED: the Rust constructors place the elements under binders without shifting) -/

theorem closed_pairList {ts : List Term} (h : ∀ t ∈ ts, Closed t) : Closed (pairList ts) := by
  induction ts with
  | nil => decide
  | cons t ts ih =>
    have h1 := h t (by simp)
    have h2 := ih (fun u hu => h u (List.mem_cons_of_mem _ hu))
    lc_simp [pairList]

theorem pairList_nil : pairList [] = Gen.Bool.fls := by decide
theorem pairList_cons (t : Term) (ts : List Term) : pairList (t :: ts) = tuple2 t (pairList ts) := rfl

theorem pairList_elim_nil (a b : Term) : app2 (pairList []) a b ↠ b := by lc_beta 2; exact Star.refl _
theorem pairList_elim_cons {t : Term} {ts : List Term} (ht : Closed t) (hts : ∀ u ∈ ts, Closed u) (f : Term) :
    app (pairList (t :: ts)) f ↠ app2 f t (pairList ts) :=
  tuple2_elim ht (closed_pairList hts) f

theorem closedAt_churchListBody {ts : List Term} (h : ∀ t ∈ ts, Closed t) (k : Nat) :
    closedAt (k + 2) (churchListBody ts) = true := by
  induction ts with
  | nil => simp [churchListBody, closedAt]
  | cons t ts ih =>
    have h1 := h t (by simp)
    have h2 := ih (fun u hu => h u (List.mem_cons_of_mem _ hu))
    lc_simp [churchListBody]
theorem closed_churchList {ts : List Term} (h : ∀ t ∈ ts, Closed t) : Closed (churchList ts) := by
  exact closedAt_churchListBody h 0

/-- Church (fold) list elimination = right fold.  NOTE the argument order of the crate: nil value first, cons function second. -/
theorem churchList_elim {ts : List Term} (h : ∀ t ∈ ts, Closed t) (n c : Term) :
    app2 (churchList ts) n c ↠ ts.foldr (fun t acc => app2 c t acc) n := by
  unfold churchList
  lc_head (Star.redc _ _); lc_trans (Star.redc _ _)
  simp only [contract]
  suffices hs : applyAux c 1 (applyAux n 2 (churchListBody ts)) = ts.foldr (fun t acc => app2 c t acc) n by
    rw [hs]; exact Star.refl _
  induction ts with
  | nil => lc_simp [churchListBody]
  | cons t ts ih =>
    have h1 := h t (by simp)
    have h2 := ih (fun u hu => h u (List.mem_cons_of_mem _ hu))
    lc_simp [churchListBody, h2]

theorem closed_scottList {ts : List Term} (h : ∀ t ∈ ts, Closed t) : Closed (scottList ts) := by
  induction ts with
  | nil => decide
  | cons t ts ih =>
    have h1 := h t (by simp)
    have h2 := ih (fun u hu => h u (List.mem_cons_of_mem _ hu))
    lc_simp [scottList]

theorem scottList_elim_nil (a b : Term) : app2 (scottList []) a b ↠ a := by lc_beta 2; exact Star.refl _
theorem scottList_elim_cons {t : Term} {ts : List Term} (ht : Closed t) (hts : ∀ u ∈ ts, Closed u) (a b : Term) :
    app2 (scottList (t :: ts)) a b ↠ app2 b t (scottList ts) := by
  have h2 := closed_scottList hts
  show app2 (abs (abs (app2 (var 1) t (scottList ts)))) a b ↠ _
  lc_beta 2; exact Star.refl _

/-- body of a Parigot list under its two binders (`var 1` = cons handler, `var 2` = nil value) -/
def parigotListBody : List Term → Term
  | [] => var 2
  | t :: ts => app3 (var 1) t (abs (abs (parigotListBody ts))) (parigotListBody ts)

theorem parigotList_eq (ts : List Term) : parigotList ts = abs (abs (parigotListBody ts)) := by
  induction ts with
  | nil => rfl
  | cons t ts ih => simp [parigotList, parigotListBody, ih, unabs2]

theorem closedAt_parigotListBody {ts : List Term} (h : ∀ t ∈ ts, Closed t) (k : Nat) :
    closedAt (k + 2) (parigotListBody ts) = true := by
  induction ts generalizing k with
  | nil => simp [parigotListBody, closedAt]
  | cons t ts ih =>
    have h1 := h t (by simp)
    have h2 := ih (fun u hu => h u (List.mem_cons_of_mem _ hu))
    lc_simp [parigotListBody, h2]
theorem closed_parigotList {ts : List Term} (h : ∀ t ∈ ts, Closed t) : Closed (parigotList ts) := by
  rw [parigotList_eq]; exact closedAt_parigotListBody h 0

theorem parigotListBody_cons (t : Term) (ts : List Term) :
    parigotListBody (t :: ts) = app3 (var 1) t (parigotList ts) (parigotListBody ts) := by
  rw [parigotList_eq]; rfl

/-- what a Parigot list computes from the nil value `a` and the cons handler `b` (head, tail, recursive result) -/
def parigotListRec (a b : Term) : List Term → Term
  | [] => a
  | t :: ts => app3 b t (parigotList ts) (parigotListRec a b ts)

theorem parigotList_elim {ts : List Term} (h : ∀ t ∈ ts, Closed t) (a b : Term) :
    app2 (parigotList ts) a b ↠ parigotListRec a b ts := by
  rw [parigotList_eq]
  lc_head (Star.redc _ _); lc_trans (Star.redc _ _)
  simp only [contract]
  suffices hs : applyAux b 1 (applyAux a 2 (parigotListBody ts)) = parigotListRec a b ts by
    rw [hs]; exact Star.refl _
  induction ts with
  | nil => lc_simp [parigotListBody, parigotListRec]
  | cons t ts ih =>
    have h1 := h t (by simp)
    have h2 := ih (fun u hu => h u (List.mem_cons_of_mem _ hu))
    have h3 := closed_parigotList (fun u hu => h u (List.mem_cons_of_mem _ hu))
    rw [parigotListBody_cons]; lc_simp [parigotListRec, h2]

/-! ## 6. combinators -/

/-- argument / function part of an application (to name the functional `F` of a generated constant `Z F`) -/
def appArg : Term → Term | app _ r => r | t => t
def appFn : Term → Term | app l _ => l | t => t

/-! ### combinators: `I`, `K`, and the fixed-point combinator `Z` -/

theorem I_elim (x : Term) : app Gen.Comb.I x ↠ x := by lc_beta; exact Star.refl _
theorem K_elim (x y : Term) : app2 Gen.Comb.K x y ↠ x := by lc_beta 2; exact Star.refl _

/-- half of the self-application `Z f` unfolds to: `λx. f (λv. x x v)` -/
def ZW (f : Term) : Term := abs (app f (abs (app2 (var 2) (var 2) (var 1))))
/-- the term `Z f` head-reduces to (for closed `f`): `(λx. f (λv. x x v)) (λx. f (λv. x x v))` -/
def ZF (f : Term) : Term := app (ZW f) (ZW f)

@[lc_simp] theorem closedAt_ZW (k : Nat) (f : Term) : closedAt k (ZW f) = closedAt (k + 1) f := by
  simp [ZW, closedAt]
@[lc_simp] theorem closedAt_ZF (k : Nat) (f : Term) : closedAt k (ZF f) = closedAt (k + 1) f := by
  simp [ZF, closedAt, closedAt_ZW]
theorem closed_ZF {f : Term} (hf : Closed f) : Closed (ZF f) := by lc_simp

theorem Z_unfold {f : Term} (hf : Closed f) : app Gen.Comb.Z f ↠ ZF f := by
  lc_beta; exact Star.refl _

/-- one turn of the fixed point -/
theorem ZF_unfold {f : Term} (hf : Closed f) : ZF f ↠ app f (abs (app (ZF f) (var 1))) := by
  show app (ZW f) (ZW f) ↠ _
  rw [show ZW f = abs (app f (abs (app2 (var 2) (var 2) (var 1)))) from rfl]
  lc_beta; exact Star.refl _

/-- THE unfolding law for recursive operations `Z F`: arbitrary argument `v`, closed functional `f` -/
theorem ZF_app {f : Term} (hf : Closed f) (v : Term) :
    app (ZF f) v ↠ app2 f (abs (app (ZF f) (var 1))) v := Star.congAppL v (ZF_unfold hf)

/-- the recursive-call stub `λv. ZF f v` applied to an argument is `ZF f` applied to it -/
theorem ZF_stub {f : Term} (hf : Closed f) (v : Term) : app (abs (app (ZF f) (var 1))) v ↠ app (ZF f) v := by
  lc_beta; exact Star.refl _

theorem Z_app {f : Term} (hf : Closed f) (v : Term) :
    app2 Gen.Comb.Z f v ↠ app2 f (abs (app (ZF f) (var 1))) v :=
  (Star.congAppL v (Z_unfold hf)).trans (ZF_app hf v)

/-! ## 7. worked examples -/

theorem church_succ_correct (n : Nat) : app Gen.Church.succ (intoChurch n) ↠ intoChurch (n + 1) := by
  lc_beta
  rw [intoChurch_eq (n + 1)]
  lc_cong; exact church_elim n _ _

theorem church_add_correct (m n : Nat) :
    app2 Gen.Church.add (intoChurch m) (intoChurch n) ↠ intoChurch (m + n) := by
  lc_beta 2
  lc_trans (church_elim n _ _)
  exact iterApp_star Gen.Church.succ (fun k => intoChurch (m + k)) (fun k => church_succ_correct (m + k)) n

theorem church_is_zero_correct (n : Nat) : app Gen.Church.is_zero (intoChurch n) ↠ fromBool (n == 0) := by
  lc_beta
  lc_trans (church_elim n _ _)
  cases n with
  | zero => exact Star.refl _
  | succ n => rw [iterApp_succ]; lc_beta; exact Star.refl _

theorem scott_pred_correct (n : Nat) : app Gen.Scott.pred (intoScott n) ↠ intoScott (n - 1) := by
  lc_beta
  cases n with
  | zero => lc_trans (scott_elim_zero _ _); exact Star.refl _
  | succ n => lc_trans (scott_elim_succ n _ _); lc_beta; exact Star.refl _

theorem scott_succ_correct (n : Nat) : app Gen.Scott.succ (intoScott n) ↠ intoScott (n + 1) := by
  lc_beta; exact Star.refl _

theorem church_to_scott_correct (n : Nat) : app Gen.Church.to_scott (intoChurch n) ↠ intoScott n := by
  lc_beta; lc_trans (church_elim n _ _)
  exact iterApp_star Gen.Scott.succ intoScott scott_succ_correct n

theorem bool_and_correct (a b : Bool) : app2 Gen.Bool.and (fromBool a) (fromBool b) ↠ fromBool (a && b) := by
  lc_beta 2; lc_trans (fromBool_elim _ _ _); cases a <;> simp <;> exact Star.refl _

theorem plist_head_correct {t : Term} {ts : List Term} (ht : Closed t) (hts : ∀ u ∈ ts, Closed u) :
    app Gen.PList.head (pairList (t :: ts)) ↠ t := by
  have := closed_pairList hts
  lc_beta; lc_trans (pairList_elim_cons ht hts _); lc_beta 2; exact Star.refl _

/-- `lc_fold` demo: after four head contractions the body of `Church.div`'s functional reads as in the Rust source -/
example (g a b c : Term) (hg : Closed g) (ha : Closed a) (hb : Closed b) (hc : Closed c) :
    app4 (appArg (appFn Gen.Church.div)) g a b c ↠
      app3 (app2 Gen.Church.lt b c) (abs (app2 Gen.Pair.pair a b))
        (abs (app3 g (app Gen.Church.succ a) (app2 Gen.Church.sub b c) c)) Gen.Comb.I := by
  lc_beta 4
  lc_fold Gen.Church.lt Gen.Church.sub Gen.Church.succ Gen.Pair.pair Gen.Comb.I
  exact Star.refl _

/-! ### a recursive operation (`Z F`) -/

/-- the functional of `Scott.add = Z (λf m n. m n (λp. succ (f p n)))`, named without copying its tree -/
def scottAddF : Term := appArg Gen.Scott.add
theorem scott_add_eq : Gen.Scott.add = app Gen.Comb.Z scottAddF := by decide
theorem closed_scottAddF : Closed scottAddF := by decide

theorem scott_add_correct (m n : Nat) :
    app2 Gen.Scott.add (intoScott m) (intoScott n) ↠ intoScott (m + n) := by
  rw [scott_add_eq]; lc_head (Z_unfold closed_scottAddF)
  induction m with
  | zero =>
    lc_head (ZF_unfold closed_scottAddF); lc_beta 3
    lc_trans (scott_elim_zero _ _); exact Star.refl _
  | succ m ih =>
    lc_head (ZF_unfold closed_scottAddF); lc_beta 3
    lc_trans (scott_elim_succ m _ _); lc_beta
    lc_rw (ZF_stub closed_scottAddF _); lc_rw ih
    rw [show m + 1 + n = (m + n) + 1 by omega]
    exact scott_succ_correct _

/-! ### a law for ARBITRARY arguments by computation on placeholders (`law_of_norSteps`) -/

/-- `add a b ↠ b succ a` for arbitrary `a b`: run the operation on the placeholders `var 1`, `var 2` (`decide` evaluates
`norSteps`), then instantiate them (`lc_simp` computes `psubst (env [a, b]) …`). -/
theorem church_add_law (a b : Term) : app2 Gen.Church.add a b ↠ app2 b Gen.Church.succ a := by
  have h := law_of_norSteps 2 (app2 Gen.Church.add (var 1) (var 2)) (app2 (var 2) Gen.Church.succ (var 1))
    (by decide) [a, b]
  lc_simp at h; exact h

end LC
