/-
Layer-1 correctness of the Scott and Parigot numeral operations (`LC.Gen.Scott.*`, `LC.Gen.Parigot.*`) and of the
conversion `Church.to_parigot`, for all naturals, up to β-reduction.
-/
import LC.Proofs.Num.Toolkit

namespace LC
open Term Spec Enc

namespace ScottParigot

/-- eliminating a Parigot numeral with the two bound variables of an enclosing `λs z.` gives back its body -/
theorem parigotRec_vars (n : Nat) : parigotRec (var 2) (var 1) n = parigotBody n := by
  induction n with
  | zero => rfl
  | succ n ih => rw [parigotRec_succ, parigotBody_succ, ih]

theorem parigot_reopen (n : Nat) : app2 (intoParigot n) (var 2) (var 1) ↠ parigotBody n := by
  have h := parigot_elim n (var 2) (var 1)
  rwa [parigotRec_vars] at h

end ScottParigot

open ScottParigot

/-! ## Scott: `is_zero` -/

theorem scott_is_zero_correct (n : Nat) : app Gen.Scott.is_zero (intoScott n) ↠ fromBool (n == 0) := by
  lc_beta
  cases n with
  | zero => lc_trans (scott_elim_zero _ _); exact Star.refl _
  | succ n => lc_trans (scott_elim_succ n _ _); lc_beta; exact Star.refl _

/-! ## Parigot -/

theorem parigot_succ_correct (n : Nat) : app Gen.Parigot.succ (intoParigot n) ↠ intoParigot (n + 1) := by
  lc_beta
  rw [intoParigot_eq (n + 1), parigotBody_succ]
  lc_cong; exact parigot_reopen n

theorem parigot_pred_correct (n : Nat) : app Gen.Parigot.pred (intoParigot n) ↠ intoParigot (n - 1) := by
  lc_beta
  lc_trans (parigot_elim n _ _)
  cases n with
  | zero => exact Star.refl _
  | succ n => rw [parigotRec_succ]; lc_beta 2; exact Star.refl _

theorem parigot_is_zero_correct (n : Nat) : app Gen.Parigot.is_zero (intoParigot n) ↠ fromBool (n == 0) := by
  lc_beta
  lc_trans (parigot_elim n _ _)
  cases n with
  | zero => exact Star.refl _
  | succ n => rw [parigotRec_succ]; lc_beta 2; exact Star.refl _

namespace ScottParigot

theorem parigot_add_rec (m n : Nat) :
    parigotRec (abs Gen.Parigot.succ) (intoParigot n) m ↠ intoParigot (m + n) := by
  induction m with
  | zero => rw [Nat.zero_add]; exact Star.refl _
  | succ m ih =>
    rw [parigotRec_succ]; lc_beta
    lc_trans (Star.congAppR _ ih)
    rw [show m + 1 + n = (m + n) + 1 by omega]
    exact parigot_succ_correct _

theorem parigot_sub_rec (m n : Nat) :
    parigotRec (abs Gen.Parigot.pred) (intoParigot m) n ↠ intoParigot (m - n) := by
  induction n with
  | zero => exact Star.refl _
  | succ n ih =>
    rw [parigotRec_succ]; lc_beta
    lc_trans (Star.congAppR _ ih)
    rw [show m - (n + 1) = (m - n) - 1 by omega]
    exact parigot_pred_correct _

end ScottParigot

theorem parigot_add_correct (m n : Nat) :
    app2 Gen.Parigot.add (intoParigot m) (intoParigot n) ↠ intoParigot (m + n) := by
  lc_beta 2
  lc_trans (parigot_elim m _ _)
  exact parigot_add_rec m n

theorem parigot_sub_correct (m n : Nat) :
    app2 Gen.Parigot.sub (intoParigot m) (intoParigot n) ↠ intoParigot (m - n) := by
  lc_beta 2
  lc_trans (parigot_elim n _ _)
  exact parigot_sub_rec m n

namespace ScottParigot

theorem parigot_mul_rec (m n : Nat) :
    parigotRec (abs (app Gen.Parigot.add (intoParigot n))) (intoParigot 0) m ↠ intoParigot (m * n) := by
  induction m with
  | zero => rw [Nat.zero_mul]; exact Star.refl _
  | succ m ih =>
    rw [parigotRec_succ]; lc_beta
    lc_trans (Star.congAppR _ ih)
    rw [show (m + 1) * n = n + m * n by rw [Nat.succ_mul, Nat.add_comm]]
    exact parigot_add_correct _ _

end ScottParigot

theorem parigot_mul_correct (m n : Nat) :
    app2 Gen.Parigot.mul (intoParigot m) (intoParigot n) ↠ intoParigot (m * n) := by
  lc_beta 2
  lc_trans (parigot_elim m _ _)
  exact parigot_mul_rec m n


/-! ## Scott: the `Z`-recursive operations -/

namespace ScottParigot

def scottMulF : Term := appArg Gen.Scott.mul
theorem scott_mul_eq : Gen.Scott.mul = app Gen.Comb.Z scottMulF := by decide
theorem closed_scottMulF : Closed scottMulF := by decide

def scottPowF : Term := appArg Gen.Scott.pow
theorem scott_pow_eq : Gen.Scott.pow = app Gen.Comb.Z scottPowF := by decide
theorem closed_scottPowF : Closed scottPowF := by decide

end ScottParigot

theorem scott_mul_correct (m n : Nat) :
    app2 Gen.Scott.mul (intoScott m) (intoScott n) ↠ intoScott (m * n) := by
  rw [scott_mul_eq]; lc_head (Z_unfold closed_scottMulF)
  induction m with
  | zero =>
    lc_head (ZF_unfold closed_scottMulF); lc_beta 3
    lc_trans (scott_elim_zero _ _); exact Star.refl _
  | succ m ih =>
    lc_head (ZF_unfold closed_scottMulF); lc_beta 3
    lc_trans (scott_elim_succ m _ _); lc_beta
    lc_rw (ZF_stub closed_scottMulF _); lc_rw ih
    rw [show (m + 1) * n = n + m * n by rw [Nat.succ_mul, Nat.add_comm]]
    exact scott_add_correct _ _

theorem scott_pow_correct (m n : Nat) :
    app2 Gen.Scott.pow (intoScott m) (intoScott n) ↠ intoScott (m ^ n) := by
  rw [scott_pow_eq]; lc_head (Z_unfold closed_scottPowF)
  induction n with
  | zero =>
    lc_head (ZF_unfold closed_scottPowF); lc_beta 3
    lc_trans (scott_elim_zero _ _); exact Star.refl _
  | succ n ih =>
    lc_head (ZF_unfold closed_scottPowF); lc_beta 3
    lc_trans (scott_elim_succ n _ _); lc_beta
    lc_rw (ZF_stub closed_scottPowF _); lc_rw ih
    rw [show m ^ (n + 1) = m * m ^ n by rw [Nat.pow_succ, Nat.mul_comm]]
    exact scott_mul_correct _ _


/-! ## Scott: `to_church = λabc. Z (λdefg. g f (λh. e (d e f h))) b c a` -/

namespace ScottParigot

/-- body under three binders -/
def body3 : Term → Term
  | abs (abs (abs b)) => b
  | t => t

/-- the functional of `Scott.to_church`, named without copying its tree -/
def scottToChurchF : Term := appArg (appFn (appFn (appFn (body3 Gen.Scott.to_church))))
theorem scott_to_church_eq :
    Gen.Scott.to_church = abs (abs (abs (app3 (app Gen.Comb.Z scottToChurchF) (var 2) (var 1) (var 3)))) := by decide
theorem closed_scottToChurchF : Closed scottToChurchF := by decide

/-- the recursion, under the two binders `λf x.` of the resulting Church numeral -/
theorem scott_to_church_rec (n : Nat) :
    app3 (ZF scottToChurchF) (var 2) (var 1) (intoScott n) ↠ iterApp (var 2) (var 1) n := by
  induction n with
  | zero =>
    lc_head (ZF_unfold closed_scottToChurchF); lc_beta 4
    lc_trans (scott_elim_zero _ _); exact Star.refl _
  | succ n ih =>
    lc_head (ZF_unfold closed_scottToChurchF); lc_beta 4
    lc_trans (scott_elim_succ n _ _); lc_beta
    lc_rw (ZF_stub closed_scottToChurchF _)
    rw [iterApp_succ]
    exact Star.congAppR _ ih

end ScottParigot

theorem scott_to_church_correct (n : Nat) : app Gen.Scott.to_church (intoScott n) ↠ intoChurch n := by
  rw [scott_to_church_eq, intoChurch_eq]
  lc_beta
  lc_cong
  lc_head (Z_unfold closed_scottToChurchF)
  exact scott_to_church_rec n

/-! ## conversion out of Church -/

theorem church_to_parigot_correct (n : Nat) : app Gen.Church.to_parigot (intoChurch n) ↠ intoParigot n := by
  lc_beta; lc_trans (church_elim n _ _)
  exact iterApp_star Gen.Parigot.succ intoParigot parigot_succ_correct n

end LC
