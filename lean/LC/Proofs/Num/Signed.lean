/-
Signed numbers (`/repo/src/data/num/signed.rs`): pairs `(p, n)` of numerals of one encoding, representing `p − n`.

Everything is proved ONCE against an abstract encoding interface `SignedP.NumEnc`; the generic terms `simplifyOf`, `modulusOf`,
`addOf`, … are the bodies of the Rust definitions with the primitives of the encoding as parameters, and they are tied to the
GENERATED constants `Gen.Signed.<op>_<encoding>` by the `…_eq` theorems (checked by kernel computation on every run: if the
Rust definition changes shape, the `_eq` theorem fails).  The final section (`C15_<encoding>_of`) shows how an encoding plugs in.
-/
import LC.Proofs.Num.Toolkit

namespace LC
open Term Spec Enc

namespace SignedP

/-! ## 1. the abstract encoding interface -/

/-- a numeral encoding with the four primitives used by `signed.rs`, and their correctness up to β-reduction -/
structure NumEnc where
  enc : Nat → Term
  isZero : Term
  pred : Term
  add : Term
  mul : Term
  closed_enc : ∀ n, Closed (enc n)
  closed_isZero : Closed isZero
  closed_pred : Closed pred
  closed_add : Closed add
  closed_mul : Closed mul
  isZero_ok : ∀ n, app isZero (enc n) ↠ fromBool (n == 0)
  pred_ok : ∀ n, app pred (enc n) ↠ enc (n - 1)
  add_ok : ∀ m n, app2 add (enc m) (enc n) ↠ enc (m + n)
  mul_ok : ∀ m n, app2 mul (enc m) (enc n) ↠ enc (m * n)

/-- the canonical pair of an integer: at least one component is zero -/
def canon (E : NumEnc) (z : Int) : Term :=
  if z ≥ 0 then tuple2 (E.enc z.toNat) (E.enc 0) else tuple2 (E.enc 0) (E.enc (-z).toNat)

/-! ## 2. the Rust definitions with the primitives as parameters -/

/-- `to_signed`: `λx. PAIR x ZERO` -/
def toSignedOf (zero : Term) : Term := abs (app2 Gen.Pair.pair (var 1) zero)

/-- the functional of `simplify`:
`λz x. IS_ZERO (FST x) (λy.x) (λy. IS_ZERO (SND x) x (z (PAIR (PRED (FST x)) (PRED (SND x))))) I` -/
def simplifyF (isZero pred : Term) : Term :=
  abs (abs (app4 isZero (app Gen.Pair.fst (var 1))
    (abs (var 2))
    (abs (app3 isZero (app Gen.Pair.snd (var 2)) (var 2)
      (app (var 3) (app2 Gen.Pair.pair (app pred (app Gen.Pair.fst (var 2))) (app pred (app Gen.Pair.snd (var 2)))))))
    Gen.Comb.I))

/-- `simplify = Z (simplifyF)` -/
def simplifyOf (isZero pred : Term) : Term := app Gen.Comb.Z (simplifyF isZero pred)

/-- `modulus`: `λx. (λy. IS_ZERO (FST y) (SND y) (FST y)) (SIMPLIFY x)` -/
def modulusOf (isZero pred : Term) : Term :=
  abs (app (abs (app3 isZero (app Gen.Pair.fst (var 1)) (app Gen.Pair.snd (var 1)) (app Gen.Pair.fst (var 1))))
    (app (simplifyOf isZero pred) (var 1)))

/-- `add`: `λa b. SIMPLIFY (PAIR (ADD (FST a) (FST b)) (ADD (SND a) (SND b)))` -/
def addOf (isZero pred add : Term) : Term :=
  abs (abs (app (simplifyOf isZero pred) (app2 Gen.Pair.pair
    (app2 add (app Gen.Pair.fst (var 2)) (app Gen.Pair.fst (var 1)))
    (app2 add (app Gen.Pair.snd (var 2)) (app Gen.Pair.snd (var 1))))))

/-- `sub`: `λa b. SIMPLIFY (PAIR (ADD (FST a) (SND b)) (ADD (SND a) (FST b)))` -/
def subOf (isZero pred add : Term) : Term :=
  abs (abs (app (simplifyOf isZero pred) (app2 Gen.Pair.pair
    (app2 add (app Gen.Pair.fst (var 2)) (app Gen.Pair.snd (var 1)))
    (app2 add (app Gen.Pair.snd (var 2)) (app Gen.Pair.fst (var 1))))))

/-- `mul` (the Rust BODY, which differs from its doc comment):
`λa b. SIMPLIFY (PAIR (ADD (MUL (FST a) (FST b)) (MUL (SND a) (SND b))) (ADD (MUL (FST a) (SND b)) (MUL (SND a) (FST b))))` -/
def mulOf (isZero pred add mul : Term) : Term :=
  abs (abs (app (simplifyOf isZero pred) (app2 Gen.Pair.pair
    (app2 add (app2 mul (app Gen.Pair.fst (var 2)) (app Gen.Pair.fst (var 1)))
              (app2 mul (app Gen.Pair.snd (var 2)) (app Gen.Pair.snd (var 1))))
    (app2 add (app2 mul (app Gen.Pair.fst (var 2)) (app Gen.Pair.snd (var 1)))
              (app2 mul (app Gen.Pair.snd (var 2)) (app Gen.Pair.fst (var 1)))))))

/-! ## 3. the generated constants ARE these terms (kernel computation, re-checked on every run) -/

theorem neg_eq : Gen.Signed.neg = Gen.Pair.swap := by decide

theorem to_signed_church_eq : Gen.Signed.to_signed_church = toSignedOf Gen.Church.zero := by decide
theorem to_signed_scott_eq : Gen.Signed.to_signed_scott = toSignedOf Gen.Scott.zero := by decide
theorem to_signed_parigot_eq : Gen.Signed.to_signed_parigot = toSignedOf Gen.Parigot.zero := by decide
theorem to_signed_stumpfu_eq : Gen.Signed.to_signed_stumpfu = toSignedOf Gen.StumpFu.zero := by decide

theorem simplify_church_eq :
    Gen.Signed.simplify_church = simplifyOf Gen.Church.is_zero Gen.Church.pred := by decide
theorem simplify_scott_eq :
    Gen.Signed.simplify_scott = simplifyOf Gen.Scott.is_zero Gen.Scott.pred := by decide
theorem simplify_parigot_eq :
    Gen.Signed.simplify_parigot = simplifyOf Gen.Parigot.is_zero Gen.Parigot.pred := by decide
theorem simplify_stumpfu_eq :
    Gen.Signed.simplify_stumpfu = simplifyOf Gen.StumpFu.is_zero Gen.StumpFu.pred := by decide

theorem modulus_church_eq :
    Gen.Signed.modulus_church = modulusOf Gen.Church.is_zero Gen.Church.pred := by decide
theorem modulus_scott_eq :
    Gen.Signed.modulus_scott = modulusOf Gen.Scott.is_zero Gen.Scott.pred := by decide
theorem modulus_parigot_eq :
    Gen.Signed.modulus_parigot = modulusOf Gen.Parigot.is_zero Gen.Parigot.pred := by decide
theorem modulus_stumpfu_eq :
    Gen.Signed.modulus_stumpfu = modulusOf Gen.StumpFu.is_zero Gen.StumpFu.pred := by decide

theorem add_church_eq :
    Gen.Signed.add_church = addOf Gen.Church.is_zero Gen.Church.pred Gen.Church.add := by decide
theorem add_scott_eq :
    Gen.Signed.add_scott = addOf Gen.Scott.is_zero Gen.Scott.pred Gen.Scott.add := by decide
theorem add_parigot_eq :
    Gen.Signed.add_parigot = addOf Gen.Parigot.is_zero Gen.Parigot.pred Gen.Parigot.add := by decide
theorem add_stumpfu_eq :
    Gen.Signed.add_stumpfu = addOf Gen.StumpFu.is_zero Gen.StumpFu.pred Gen.StumpFu.add := by decide

theorem sub_church_eq :
    Gen.Signed.sub_church = subOf Gen.Church.is_zero Gen.Church.pred Gen.Church.add := by decide
theorem sub_scott_eq :
    Gen.Signed.sub_scott = subOf Gen.Scott.is_zero Gen.Scott.pred Gen.Scott.add := by decide
theorem sub_parigot_eq :
    Gen.Signed.sub_parigot = subOf Gen.Parigot.is_zero Gen.Parigot.pred Gen.Parigot.add := by decide
theorem sub_stumpfu_eq :
    Gen.Signed.sub_stumpfu = subOf Gen.StumpFu.is_zero Gen.StumpFu.pred Gen.StumpFu.add := by decide

theorem mul_church_eq :
    Gen.Signed.mul_church = mulOf Gen.Church.is_zero Gen.Church.pred Gen.Church.add Gen.Church.mul := by decide
theorem mul_scott_eq :
    Gen.Signed.mul_scott = mulOf Gen.Scott.is_zero Gen.Scott.pred Gen.Scott.add Gen.Scott.mul := by decide
theorem mul_parigot_eq :
    Gen.Signed.mul_parigot = mulOf Gen.Parigot.is_zero Gen.Parigot.pred Gen.Parigot.add Gen.Parigot.mul := by decide
theorem mul_stumpfu_eq :
    Gen.Signed.mul_stumpfu = mulOf Gen.StumpFu.is_zero Gen.StumpFu.pred Gen.StumpFu.add Gen.StumpFu.mul := by decide

/-! ## 4. generic correctness proofs -/

theorem closed_simplifyF {iz pr : Term} (h1 : Closed iz) (h2 : Closed pr) : Closed (simplifyF iz pr) := by
  unfold simplifyF; lc_simp

theorem closed_pair (E : NumEnc) (p n : Nat) : Closed (tuple2 (E.enc p) (E.enc n)) :=
  closed_tuple2 (E.closed_enc p) (E.closed_enc n)

/-- a pair with a zero component is the canonical pair of its value -/
theorem canon_of_zero (E : NumEnc) (p n : Nat) (h : p = 0 ∨ n = 0) :
    canon E ((p : Int) - n) = tuple2 (E.enc p) (E.enc n) := by
  unfold canon
  rcases h with rfl | rfl
  · by_cases hn : n = 0
    · subst hn; simp
    · have : ¬ ((0 : Nat) : Int) - (n : Int) ≥ 0 := by omega
      rw [if_neg this]; congr 2; omega
  · have : ((p : Nat) : Int) - ((0 : Nat) : Int) ≥ 0 := by omega
    rw [if_pos this]; congr 2

/-- the canonical pair is a pair `(a, b)` with a zero component and `a − b = z` -/
theorem canon_cases (E : NumEnc) (z : Int) :
    ∃ a b : Nat, canon E z = tuple2 (E.enc a) (E.enc b) ∧ (a = 0 ∨ b = 0) ∧ (a : Int) - b = z := by
  unfold canon
  by_cases hz : z ≥ 0
  · exact ⟨z.toNat, 0, by rw [if_pos hz], Or.inr rfl, by omega⟩
  · exact ⟨0, (-z).toNat, by rw [if_neg hz], Or.inl rfl, by omega⟩

theorem closed_canon (E : NumEnc) (z : Int) : Closed (canon E z) := by
  obtain ⟨a, b, h, -, -⟩ := canon_cases E z
  rw [h]; exact closed_pair E a b

/-- one turn of the functional of `simplify`, with an arbitrary closed term `z` for the recursive call -/
theorem simplifyF_step (E : NumEnc) (z : Term) (hz : Closed z) (p n : Nat) :
    app2 (simplifyF E.isZero E.pred) z (tuple2 (E.enc p) (E.enc n)) ↠
      if p = 0 ∨ n = 0 then tuple2 (E.enc p) (E.enc n) else app z (tuple2 (E.enc (p - 1)) (E.enc (n - 1))) := by
  have h1 := E.closed_isZero
  have h2 := E.closed_pred
  have hp := E.closed_enc p
  have hn := E.closed_enc n
  have hx := closed_pair E p n
  unfold simplifyF
  lc_beta 2
  lc_rw (pair_fst hp hn)
  lc_rw (E.isZero_ok p)
  lc_head (fromBool_elim _ _ _)
  cases p with
  | zero => simp; lc_beta; exact Star.refl _
  | succ p =>
    simp
    lc_beta
    lc_rw (pair_snd (E.closed_enc (p + 1)) hn)
    lc_rw (E.isZero_ok n)
    lc_trans (fromBool_elim _ _ _)
    cases n with
    | zero => simp; exact Star.refl _
    | succ n =>
      simp
      apply Star.congAppR
      lc_rw (pair_fst (E.closed_enc (p + 1)) (E.closed_enc (n + 1)))
      lc_rw (pair_snd (E.closed_enc (p + 1)) (E.closed_enc (n + 1)))
      lc_rw (E.pred_ok (p + 1))
      lc_rw (E.pred_ok (n + 1))
      exact pair_mk (E.closed_enc _) (E.closed_enc _)

theorem simplify_ZF (E : NumEnc) (p n : Nat) :
    app (ZF (simplifyF E.isZero E.pred)) (tuple2 (E.enc p) (E.enc n)) ↠ canon E ((p : Int) - n) := by
  have hF := closed_simplifyF E.closed_isZero E.closed_pred
  have hS : Closed (abs (app (ZF (simplifyF E.isZero E.pred)) (var 1))) := by
    have := closed_ZF hF; lc_simp
  induction p generalizing n with
  | zero =>
    lc_trans (ZF_app hF _); lc_trans (simplifyF_step E _ hS 0 n)
    rw [if_pos (Or.inl rfl), canon_of_zero E 0 n (Or.inl rfl)]; exact Star.refl _
  | succ p ih =>
    lc_trans (ZF_app hF _); lc_trans (simplifyF_step E _ hS (p + 1) n)
    cases n with
    | zero => rw [if_pos (Or.inr rfl), canon_of_zero E (p + 1) 0 (Or.inr rfl)]; exact Star.refl _
    | succ n =>
      rw [if_neg (by omega)]
      lc_trans (ZF_stub hF _)
      rw [show ((p + 1 : Nat) : Int) - ((n + 1 : Nat) : Int) = (p : Int) - n by omega]
      exact ih n

theorem simplify_correct (E : NumEnc) (p n : Nat) :
    app (simplifyOf E.isZero E.pred) (tuple2 (E.enc p) (E.enc n)) ↠ canon E ((p : Int) - n) := by
  unfold simplifyOf
  lc_head (Z_unfold (closed_simplifyF E.closed_isZero E.closed_pred))
  exact simplify_ZF E p n

theorem closed_simplifyOf {iz pr : Term} (h1 : Closed iz) (h2 : Closed pr) : Closed (simplifyOf iz pr) := by
  have := closed_simplifyF h1 h2
  unfold simplifyOf; lc_simp

theorem modulus_correct (E : NumEnc) (p n : Nat) :
    app (modulusOf E.isZero E.pred) (tuple2 (E.enc p) (E.enc n)) ↠ E.enc ((p : Int) - n).natAbs := by
  have h1 := E.closed_isZero
  have h2 := E.closed_pred
  have hS := closed_simplifyOf h1 h2
  have hx := closed_pair E p n
  unfold modulusOf
  lc_beta
  lc_rw (simplify_correct E p n)
  obtain ⟨a, b, hc, h0, hab⟩ := canon_cases E ((p : Int) - n)
  rw [hc]
  have ha := E.closed_enc a
  have hb := E.closed_enc b
  have hy := closed_pair E a b
  lc_beta
  lc_rw (pair_fst ha hb)
  lc_rw (E.isZero_ok a)
  lc_trans (fromBool_elim _ _ _)
  by_cases ha0 : a = 0
  · subst ha0; simp
    rw [show ((p : Int) - n).natAbs = b by omega]
    exact pair_snd ha hb
  · simp [ha0]
    rw [show ((p : Int) - n).natAbs = a by omega]
    exact pair_fst ha hb

theorem neg_correct (a b : Term) (ha : Closed a) (hb : Closed b) :
    app Gen.Signed.neg (tuple2 a b) ↠ tuple2 b a := by
  have hx := closed_tuple2 ha hb
  lc_beta
  lc_rw (pair_snd ha hb)
  lc_rw (pair_fst ha hb)
  exact pair_mk hb ha

theorem to_signed_correct (E : NumEnc) (x : Nat) :
    app (toSignedOf (E.enc 0)) (E.enc x) ↠ tuple2 (E.enc x) (E.enc 0) := by
  have h0 := E.closed_enc 0
  have hx := E.closed_enc x
  unfold toSignedOf
  lc_beta
  exact pair_mk hx h0

/-- the common shape of `add`, `sub`, `mul`: `SIMPLIFY (PAIR s t)` where `s ↠ enc a`, `t ↠ enc b` -/
theorem simplify_pair (E : NumEnc) {s t : Term} {a b : Nat} (hs : s ↠ E.enc a) (ht : t ↠ E.enc b) :
    app (simplifyOf E.isZero E.pred) (app2 Gen.Pair.pair s t) ↠ canon E ((a : Int) - b) := by
  lc_rw hs
  lc_rw ht
  lc_rw (pair_mk (E.closed_enc a) (E.closed_enc b))
  exact simplify_correct E a b

theorem add_correct (E : NumEnc) (p₁ n₁ p₂ n₂ : Nat) :
    app2 (addOf E.isZero E.pred E.add) (tuple2 (E.enc p₁) (E.enc n₁)) (tuple2 (E.enc p₂) (E.enc n₂)) ↠
      canon E (((p₁ : Int) - n₁) + ((p₂ : Int) - n₂)) := by
  have h1 := E.closed_isZero
  have h2 := E.closed_pred
  have h3 := E.closed_add
  have hS := closed_simplifyOf h1 h2
  have hx := closed_pair E p₁ n₁
  have hy := closed_pair E p₂ n₂
  unfold addOf
  lc_beta 2
  rw [show ((p₁ : Int) - n₁) + ((p₂ : Int) - n₂) = ((p₁ + p₂ : Nat) : Int) - ((n₁ + n₂ : Nat) : Int) by omega]
  apply simplify_pair
  · lc_rw (pair_fst (E.closed_enc p₁) (E.closed_enc n₁))
    lc_rw (pair_fst (E.closed_enc p₂) (E.closed_enc n₂))
    exact E.add_ok _ _
  · lc_rw (pair_snd (E.closed_enc p₁) (E.closed_enc n₁))
    lc_rw (pair_snd (E.closed_enc p₂) (E.closed_enc n₂))
    exact E.add_ok _ _

theorem sub_correct (E : NumEnc) (p₁ n₁ p₂ n₂ : Nat) :
    app2 (subOf E.isZero E.pred E.add) (tuple2 (E.enc p₁) (E.enc n₁)) (tuple2 (E.enc p₂) (E.enc n₂)) ↠
      canon E (((p₁ : Int) - n₁) - ((p₂ : Int) - n₂)) := by
  have h1 := E.closed_isZero
  have h2 := E.closed_pred
  have h3 := E.closed_add
  have hS := closed_simplifyOf h1 h2
  have hx := closed_pair E p₁ n₁
  have hy := closed_pair E p₂ n₂
  unfold subOf
  lc_beta 2
  rw [show ((p₁ : Int) - n₁) - ((p₂ : Int) - n₂) = ((p₁ + n₂ : Nat) : Int) - ((n₁ + p₂ : Nat) : Int) by omega]
  apply simplify_pair
  · lc_rw (pair_fst (E.closed_enc p₁) (E.closed_enc n₁))
    lc_rw (pair_snd (E.closed_enc p₂) (E.closed_enc n₂))
    exact E.add_ok _ _
  · lc_rw (pair_snd (E.closed_enc p₁) (E.closed_enc n₁))
    lc_rw (pair_fst (E.closed_enc p₂) (E.closed_enc n₂))
    exact E.add_ok _ _

theorem mul_arith (p₁ n₁ p₂ n₂ : Nat) :
    ((p₁ : Int) - n₁) * ((p₂ : Int) - n₂) =
      ((p₁ * p₂ + n₁ * n₂ : Nat) : Int) - ((p₁ * n₂ + n₁ * p₂ : Nat) : Int) := by
  simp only [Int.sub_mul, Int.mul_sub, Int.natCast_add, Int.natCast_mul]
  omega

theorem mul_correct (E : NumEnc) (p₁ n₁ p₂ n₂ : Nat) :
    app2 (mulOf E.isZero E.pred E.add E.mul) (tuple2 (E.enc p₁) (E.enc n₁)) (tuple2 (E.enc p₂) (E.enc n₂)) ↠
      canon E (((p₁ : Int) - n₁) * ((p₂ : Int) - n₂)) := by
  have h1 := E.closed_isZero
  have h2 := E.closed_pred
  have h3 := E.closed_add
  have h4 := E.closed_mul
  have hS := closed_simplifyOf h1 h2
  have hx := closed_pair E p₁ n₁
  have hy := closed_pair E p₂ n₂
  unfold mulOf
  lc_beta 2
  rw [mul_arith]
  apply simplify_pair
  · lc_rw (pair_fst (E.closed_enc p₁) (E.closed_enc n₁))
    lc_rw (pair_fst (E.closed_enc p₂) (E.closed_enc n₂))
    lc_rw (pair_snd (E.closed_enc p₁) (E.closed_enc n₁))
    lc_rw (pair_snd (E.closed_enc p₂) (E.closed_enc n₂))
    lc_rw (E.mul_ok p₁ p₂)
    lc_rw (E.mul_ok n₁ n₂)
    exact E.add_ok _ _
  · lc_rw (pair_fst (E.closed_enc p₁) (E.closed_enc n₁))
    lc_rw (pair_snd (E.closed_enc p₂) (E.closed_enc n₂))
    lc_rw (pair_snd (E.closed_enc p₁) (E.closed_enc n₁))
    lc_rw (pair_fst (E.closed_enc p₂) (E.closed_enc n₂))
    lc_rw (E.mul_ok p₁ n₂)
    lc_rw (E.mul_ok n₁ p₂)
    exact E.add_ok _ _

/-! ## 5. packaging: all seven operations at once -/

/-- `canon` without the interface: the canonical pair of `z` for the numerals `enc` -/
def canonOf (enc : Nat → Term) (z : Int) : Term :=
  if z ≥ 0 then tuple2 (enc z.toNat) (enc 0) else tuple2 (enc 0) (enc (-z).toNat)

theorem canon_eq (E : NumEnc) (z : Int) : canon E z = canonOf E.enc z := rfl

/-- the canonical pair is what the Rust conversion `into_signed` (model `Enc.intoSigned`) produces -/
theorem canonOf_intoNum (e : Encoding) (z : Int) : canonOf (intoNum e) z = intoSigned e z := by
  unfold canonOf intoSigned
  by_cases h : z > 0
  · have h' : z ≥ 0 := by omega
    simp only [if_pos h, if_pos h']; congr 2; omega
  · by_cases h0 : z = 0
    · subst h0; simp
    · have h' : ¬ z ≥ 0 := by omega
      simp only [if_neg h, if_neg h']; congr 2; omega

theorem canonOf_church (z : Int) : canonOf intoChurch z = intoSigned .Church z := canonOf_intoNum .Church z
theorem canonOf_scott (z : Int) : canonOf intoScott z = intoSigned .Scott z := canonOf_intoNum .Scott z
theorem canonOf_parigot (z : Int) : canonOf intoParigot z = intoSigned .Parigot z := canonOf_intoNum .Parigot z
theorem canonOf_stumpfu (z : Int) : canonOf intoStumpFu z = intoSigned .StumpFu z := canonOf_intoNum .StumpFu z

/-- Property C15 for one encoding: numerals `enc`, and the seven operations (`neg` is encoding-independent).
All pairs `(p, n)` of numerals are covered, simplified or not. -/
structure SignedOK (enc : Nat → Term) (toSigned simplify modulus add sub mul : Term) : Prop where
  simplify : ∀ p n : Nat, app simplify (tuple2 (enc p) (enc n)) ↠ canonOf enc ((p : Int) - n)
  modulus : ∀ p n : Nat, app modulus (tuple2 (enc p) (enc n)) ↠ enc ((p : Int) - n).natAbs
  neg : ∀ p n : Nat, app Gen.Signed.neg (tuple2 (enc p) (enc n)) ↠ tuple2 (enc n) (enc p)
  to_signed : ∀ x : Nat, app toSigned (enc x) ↠ tuple2 (enc x) (enc 0)
  add : ∀ p₁ n₁ p₂ n₂ : Nat, app2 add (tuple2 (enc p₁) (enc n₁)) (tuple2 (enc p₂) (enc n₂)) ↠
    canonOf enc (((p₁ : Int) - n₁) + ((p₂ : Int) - n₂))
  sub : ∀ p₁ n₁ p₂ n₂ : Nat, app2 sub (tuple2 (enc p₁) (enc n₁)) (tuple2 (enc p₂) (enc n₂)) ↠
    canonOf enc (((p₁ : Int) - n₁) - ((p₂ : Int) - n₂))
  mul : ∀ p₁ n₁ p₂ n₂ : Nat, app2 mul (tuple2 (enc p₁) (enc n₁)) (tuple2 (enc p₂) (enc n₂)) ↠
    canonOf enc (((p₁ : Int) - n₁) * ((p₂ : Int) - n₂))

/-- the generic theorems, bundled -/
theorem signedOK (E : NumEnc) :
    SignedOK E.enc (toSignedOf (E.enc 0)) (simplifyOf E.isZero E.pred) (modulusOf E.isZero E.pred)
      (addOf E.isZero E.pred E.add) (subOf E.isZero E.pred E.add) (mulOf E.isZero E.pred E.add E.mul) where
  simplify := simplify_correct E
  modulus := modulus_correct E
  neg p n := neg_correct _ _ (E.closed_enc p) (E.closed_enc n)
  to_signed := to_signed_correct E
  add := add_correct E
  sub := sub_correct E
  mul := mul_correct E

/-! ### the four instances, parameterised by the interface lemmas that are proved elsewhere -/

def churchEncOf
    (hpred : ∀ n, app Gen.Church.pred (intoChurch n) ↠ intoChurch (n - 1))
    (hmul : ∀ m n, app2 Gen.Church.mul (intoChurch m) (intoChurch n) ↠ intoChurch (m * n)) : NumEnc where
  enc := intoChurch
  isZero := Gen.Church.is_zero
  pred := Gen.Church.pred
  add := Gen.Church.add
  mul := Gen.Church.mul
  closed_enc := closed_intoChurch
  closed_isZero := by decide
  closed_pred := by decide
  closed_add := by decide
  closed_mul := by decide
  isZero_ok := church_is_zero_correct
  pred_ok := hpred
  add_ok := church_add_correct
  mul_ok := hmul

def scottEncOf
    (hiszero : ∀ n, app Gen.Scott.is_zero (intoScott n) ↠ fromBool (n == 0))
    (hmul : ∀ m n, app2 Gen.Scott.mul (intoScott m) (intoScott n) ↠ intoScott (m * n)) : NumEnc where
  enc := intoScott
  isZero := Gen.Scott.is_zero
  pred := Gen.Scott.pred
  add := Gen.Scott.add
  mul := Gen.Scott.mul
  closed_enc := closed_intoScott
  closed_isZero := by decide
  closed_pred := by decide
  closed_add := by decide
  closed_mul := by decide
  isZero_ok := hiszero
  pred_ok := scott_pred_correct
  add_ok := scott_add_correct
  mul_ok := hmul

def parigotEncOf
    (hiszero : ∀ n, app Gen.Parigot.is_zero (intoParigot n) ↠ fromBool (n == 0))
    (hpred : ∀ n, app Gen.Parigot.pred (intoParigot n) ↠ intoParigot (n - 1))
    (hadd : ∀ m n, app2 Gen.Parigot.add (intoParigot m) (intoParigot n) ↠ intoParigot (m + n))
    (hmul : ∀ m n, app2 Gen.Parigot.mul (intoParigot m) (intoParigot n) ↠ intoParigot (m * n)) : NumEnc where
  enc := intoParigot
  isZero := Gen.Parigot.is_zero
  pred := Gen.Parigot.pred
  add := Gen.Parigot.add
  mul := Gen.Parigot.mul
  closed_enc := closed_intoParigot
  closed_isZero := by decide
  closed_pred := by decide
  closed_add := by decide
  closed_mul := by decide
  isZero_ok := hiszero
  pred_ok := hpred
  add_ok := hadd
  mul_ok := hmul

def stumpfuEncOf
    (hiszero : ∀ n, app Gen.StumpFu.is_zero (intoStumpFu n) ↠ fromBool (n == 0))
    (hpred : ∀ n, app Gen.StumpFu.pred (intoStumpFu n) ↠ intoStumpFu (n - 1))
    (hadd : ∀ m n, app2 Gen.StumpFu.add (intoStumpFu m) (intoStumpFu n) ↠ intoStumpFu (m + n))
    (hmul : ∀ m n, app2 Gen.StumpFu.mul (intoStumpFu m) (intoStumpFu n) ↠ intoStumpFu (m * n)) : NumEnc where
  enc := intoStumpFu
  isZero := Gen.StumpFu.is_zero
  pred := Gen.StumpFu.pred
  add := Gen.StumpFu.add
  mul := Gen.StumpFu.mul
  closed_enc := closed_intoStumpFu
  closed_isZero := by decide
  closed_pred := by decide
  closed_add := by decide
  closed_mul := by decide
  isZero_ok := hiszero
  pred_ok := hpred
  add_ok := hadd
  mul_ok := hmul

theorem church_zero_eq : Gen.Church.zero = intoChurch 0 := by decide
theorem scott_zero_eq : Gen.Scott.zero = intoScott 0 := by decide
theorem parigot_zero_eq : Gen.Parigot.zero = intoParigot 0 := by decide
theorem stumpfu_zero_eq : Gen.StumpFu.zero = intoStumpFu 0 := by decide

end SignedP

open SignedP

/-- C15 for Church numerals, given `pred` and `mul` (`is_zero` and `add` are in the toolkit) -/
theorem C15_church_of
    (hpred : ∀ n, app Gen.Church.pred (intoChurch n) ↠ intoChurch (n - 1))
    (hmul : ∀ m n, app2 Gen.Church.mul (intoChurch m) (intoChurch n) ↠ intoChurch (m * n)) :
    SignedOK intoChurch Gen.Signed.to_signed_church Gen.Signed.simplify_church Gen.Signed.modulus_church
      Gen.Signed.add_church Gen.Signed.sub_church Gen.Signed.mul_church := by
  rw [to_signed_church_eq, simplify_church_eq, modulus_church_eq, add_church_eq, sub_church_eq, mul_church_eq,
    church_zero_eq]
  exact signedOK (churchEncOf hpred hmul)

/-- C15 for Scott numerals, given `is_zero` and `mul` (`pred` and `add` are in the toolkit) -/
theorem C15_scott_of
    (hiszero : ∀ n, app Gen.Scott.is_zero (intoScott n) ↠ fromBool (n == 0))
    (hmul : ∀ m n, app2 Gen.Scott.mul (intoScott m) (intoScott n) ↠ intoScott (m * n)) :
    SignedOK intoScott Gen.Signed.to_signed_scott Gen.Signed.simplify_scott Gen.Signed.modulus_scott
      Gen.Signed.add_scott Gen.Signed.sub_scott Gen.Signed.mul_scott := by
  rw [to_signed_scott_eq, simplify_scott_eq, modulus_scott_eq, add_scott_eq, sub_scott_eq, mul_scott_eq,
    scott_zero_eq]
  exact signedOK (scottEncOf hiszero hmul)

/-- C15 for Parigot numerals, given the four primitives -/
theorem C15_parigot_of
    (hiszero : ∀ n, app Gen.Parigot.is_zero (intoParigot n) ↠ fromBool (n == 0))
    (hpred : ∀ n, app Gen.Parigot.pred (intoParigot n) ↠ intoParigot (n - 1))
    (hadd : ∀ m n, app2 Gen.Parigot.add (intoParigot m) (intoParigot n) ↠ intoParigot (m + n))
    (hmul : ∀ m n, app2 Gen.Parigot.mul (intoParigot m) (intoParigot n) ↠ intoParigot (m * n)) :
    SignedOK intoParigot Gen.Signed.to_signed_parigot Gen.Signed.simplify_parigot Gen.Signed.modulus_parigot
      Gen.Signed.add_parigot Gen.Signed.sub_parigot Gen.Signed.mul_parigot := by
  rw [to_signed_parigot_eq, simplify_parigot_eq, modulus_parigot_eq, add_parigot_eq, sub_parigot_eq, mul_parigot_eq,
    parigot_zero_eq]
  exact signedOK (parigotEncOf hiszero hpred hadd hmul)

/-- C15 for Stump-Fu numerals, given the four primitives -/
theorem C15_stumpfu_of
    (hiszero : ∀ n, app Gen.StumpFu.is_zero (intoStumpFu n) ↠ fromBool (n == 0))
    (hpred : ∀ n, app Gen.StumpFu.pred (intoStumpFu n) ↠ intoStumpFu (n - 1))
    (hadd : ∀ m n, app2 Gen.StumpFu.add (intoStumpFu m) (intoStumpFu n) ↠ intoStumpFu (m + n))
    (hmul : ∀ m n, app2 Gen.StumpFu.mul (intoStumpFu m) (intoStumpFu n) ↠ intoStumpFu (m * n)) :
    SignedOK intoStumpFu Gen.Signed.to_signed_stumpfu Gen.Signed.simplify_stumpfu Gen.Signed.modulus_stumpfu
      Gen.Signed.add_stumpfu Gen.Signed.sub_stumpfu Gen.Signed.mul_stumpfu := by
  rw [to_signed_stumpfu_eq, simplify_stumpfu_eq, modulus_stumpfu_eq, add_stumpfu_eq, sub_stumpfu_eq, mul_stumpfu_eq,
    stumpfu_zero_eq]
  exact signedOK (stumpfuEncOf hiszero hpred hadd hmul)

end LC
