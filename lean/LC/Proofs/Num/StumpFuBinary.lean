/-
Correctness (up to β-reduction, all naturals) of the Stump-Fu numeral operations
(`/repo/src/data/num/stumpfu.rs`, `church::to_stumpfu`) and of Mogensen's binary numerals
(`/repo/src/data/num/binary.rs`).
-/
import LC.Proofs.Num.Toolkit
import LC.Props.C12
import LC.Proofs.Normalisation

namespace LC
open Term Spec Enc

/-! ## Stump-Fu numerals -/

/-- SUCC ≡ λn.n (λcpfa.f (CHURCH_SUCC c) n) ONE -/
theorem stumpfu_succ_correct (n : Nat) : app Gen.StumpFu.succ (intoStumpFu n) ↠ intoStumpFu (n + 1) := by
  lc_beta
  cases n with
  | zero => lc_trans (stumpfu_elim_zero _ _); exact Star.refl _
  | succ n =>
    lc_trans (stumpfu_elim_succ n _ _); lc_beta 2
    show _ ↠ abs (abs (app2 (var 2) (intoChurch (n + 1 + 1)) (intoStumpFu (n + 1))))
    lc_cong
    exact church_succ_correct (n + 1)

/-- PRED ≡ λn.n (λcs.s) ZERO -/
theorem stumpfu_pred_correct (n : Nat) : app Gen.StumpFu.pred (intoStumpFu n) ↠ intoStumpFu (n - 1) := by
  lc_beta
  cases n with
  | zero => lc_trans (stumpfu_elim_zero _ _); exact Star.refl _
  | succ n => lc_trans (stumpfu_elim_succ n _ _); lc_beta 2; exact Star.refl _

/-- IS_ZERO ≡ λn.n (λxy.FALSE) TRUE -/
theorem stumpfu_is_zero_correct (n : Nat) : app Gen.StumpFu.is_zero (intoStumpFu n) ↠ fromBool (n == 0) := by
  lc_beta
  cases n with
  | zero => lc_trans (stumpfu_elim_zero _ _); exact Star.refl _
  | succ n => lc_trans (stumpfu_elim_succ n _ _); lc_beta 2; exact Star.refl _

/-- ADD ≡ λnm.n (λcp.c SUCC m) m -/
theorem stumpfu_add_correct (m n : Nat) :
    app2 Gen.StumpFu.add (intoStumpFu m) (intoStumpFu n) ↠ intoStumpFu (m + n) := by
  lc_beta 2
  cases m with
  | zero => lc_trans (stumpfu_elim_zero _ _); rw [Nat.zero_add]; exact Star.refl _
  | succ m =>
    lc_trans (stumpfu_elim_succ m _ _); lc_beta 2
    lc_trans (church_elim (m + 1) _ _)
    have := iterApp_star Gen.StumpFu.succ (fun k => intoStumpFu (n + k))
      (fun k => stumpfu_succ_correct (n + k)) (m + 1)
    rw [show m + 1 + n = n + (m + 1) by omega]
    exact this

/-- MUL ≡ λnm.n (λcp.c (λx.ADD m x) ZERO) ZERO -/
theorem stumpfu_mul_correct (m n : Nat) :
    app2 Gen.StumpFu.mul (intoStumpFu m) (intoStumpFu n) ↠ intoStumpFu (m * n) := by
  lc_beta 2
  cases m with
  | zero => lc_trans (stumpfu_elim_zero _ _); rw [Nat.zero_mul]; exact Star.refl _
  | succ m =>
    lc_trans (stumpfu_elim_succ m _ _); lc_beta 2
    lc_trans (church_elim (m + 1) _ _)
    have := iterApp_star (abs (app2 Gen.StumpFu.add (intoStumpFu n) (var 1))) (fun k => intoStumpFu (k * n))
      (fun k => by
        lc_beta
        rw [show (k + 1) * n = n + k * n by rw [Nat.succ_mul]; omega]
        exact stumpfu_add_correct n (k * n)) (m + 1)
    rw [Nat.zero_mul] at this
    exact this

namespace StumpFuBinary

/-- the common core `n TRUE n` of the conversions -/
theorem to_church_core (n : Nat) : app2 (intoStumpFu n) Gen.Bool.tru (intoStumpFu n) ↠ intoChurch n := by
  cases n with
  | zero => lc_trans (stumpfu_elim_zero _ _); exact Star.refl _
  | succ n => lc_trans (stumpfu_elim_succ n _ _); lc_beta 2; exact Star.refl _

theorem parigotRec_vars (n : Nat) : parigotRec (var 2) (var 1) n = parigotBody n := by
  induction n with
  | zero => rfl
  | succ n ih => rw [parigotRec_succ, parigotBody_succ, ih]

theorem parigot_succ_correct_cp (n : Nat) : app Gen.Parigot.succ (intoParigot n) ↠ intoParigot (n + 1) := by
  lc_beta
  rw [intoParigot_eq (n + 1), parigotBody_succ]
  lc_cong
  lc_trans (parigot_elim n _ _); rw [parigotRec_vars]; exact Star.refl _

theorem church_to_parigot_correct_cp (n : Nat) : app Gen.Church.to_parigot (intoChurch n) ↠ intoParigot n := by
  lc_beta; lc_trans (church_elim n _ _)
  exact iterApp_star Gen.Parigot.succ intoParigot parigot_succ_correct_cp n

end StumpFuBinary
open StumpFuBinary

/-- TO_CHURCH ≡ λn.n TRUE n -/
theorem stumpfu_to_church_correct (n : Nat) : app Gen.StumpFu.to_church (intoStumpFu n) ↠ intoChurch n := by
  lc_beta; exact to_church_core n

/-- TO_SCOTT ≡ λn.(λm.m SCOTT_SUCC SCOTT_ZERO) (n TRUE n) -/
theorem stumpfu_to_scott_correct (n : Nat) : app Gen.StumpFu.to_scott (intoStumpFu n) ↠ intoScott n := by
  lc_beta
  lc_trans (Star.congAppR _ (to_church_core n))
  exact church_to_scott_correct n

/-- TO_PARIGOT ≡ λn.(λm.m PARIGOT_SUCC PARIGOT_ZERO) (n TRUE n) -/
theorem stumpfu_to_parigot_correct (n : Nat) : app Gen.StumpFu.to_parigot (intoStumpFu n) ↠ intoParigot n := by
  lc_beta
  lc_trans (Star.congAppR _ (to_church_core n))
  exact church_to_parigot_correct_cp n

/-- TO_STUMPFU ≡ λn.n SUCC ZERO -/
theorem church_to_stumpfu_correct (n : Nat) : app Gen.Church.to_stumpfu (intoChurch n) ↠ intoStumpFu n := by
  lc_beta; lc_trans (church_elim n _ _)
  exact iterApp_star Gen.StumpFu.succ intoStumpFu stumpfu_succ_correct n

/-! ## binary numerals (Mogensen)

A binary numeral is `λz x y. body` where `body` applies `y` (`var 1`) for a one bit and `x` (`var 2`) for a zero bit, least
significant bit outermost, to the end marker `z` (`var 3`).  The operations may produce / accept leading zeroes (zero bits
next to the end marker), so the model `binaryBits` covers ARBITRARY bit strings (LSB first in the list). -/

namespace StumpFuBinary
open C12

/-- body of an abstraction -/
def absBody : Term → Term | abs b => b | t => t

/-- the bits (LSB first) under the three binders of a binary numeral -/
def bitsBody : List Bool → Term
  | [] => var 3
  | b :: bs => app (if b then var 1 else var 2) (bitsBody bs)

/-- the binary numeral with the given bits, LSB first; leading zeroes (= trailing `false`s of the list) allowed -/
def binaryBits (bs : List Bool) : Term := abs (abs (abs (bitsBody bs)))

/-- the number denoted by a bit string (LSB first) -/
def valueOf : List Bool → Nat
  | [] => 0
  | b :: bs => (if b then 1 else 0) + 2 * valueOf bs

/-- the canonical bits of `n`, LSB first, no leading zero (`[]` for 0) -/
def bitsLSB (n : Nat) : List Bool :=
  if _h : n = 0 then [] else (n % 2 == 1) :: bitsLSB (n / 2)
termination_by n
decreasing_by omega

theorem bitsLSB_zero : bitsLSB 0 = [] := by rw [bitsLSB]; simp
theorem bitsLSB_pos {n : Nat} (h : n ≠ 0) : bitsLSB n = (n % 2 == 1) :: bitsLSB (n / 2) := by
  rw [bitsLSB]; simp [h]
theorem bitsLSB_double {n : Nat} (h : n ≠ 0) : bitsLSB (2 * n) = false :: bitsLSB n := by
  rw [bitsLSB_pos (by omega)]; congr 1
  · simp
  · congr 1; omega
theorem bitsLSB_double_succ (n : Nat) : bitsLSB (2 * n + 1) = true :: bitsLSB n := by
  rw [bitsLSB_pos (by omega)]; congr 1
  · simp
  · congr 1; omega

/-- the canonical bits are the reverse of the digit string of the Rust encoder -/
theorem bitsLSB_eq_reverse (n : Nat) : bitsLSB n = (bitsMSB n).reverse := by
  induction n using Nat.strongRecOn with
  | _ n ih =>
    by_cases h : n = 0
    · subst h; rw [bitsLSB_zero, bitsMSB_zero]; rfl
    · rw [bitsLSB_pos h, bitsMSB_pos h, ih (n / 2) (by omega)]; simp

theorem bitsBody_bitsLSB (n : Nat) : bitsBody (bitsLSB n) = Dec.binBody n := by
  induction n using Nat.strongRecOn with
  | _ n ih =>
    by_cases h : n = 0
    · subst h; rw [bitsLSB_zero, binBody_zero]; rfl
    · rw [bitsLSB_pos h, binBody_pos h, bitsBody, ih (n / 2) (by omega)]; simp

/-- the Rust encoder produces the numeral of the canonical bit string -/
theorem intoBinary_eq_bits (n : Nat) : intoBinary n = binaryBits (bitsLSB n) := by
  rw [intoBinary_eq, ← bitsBody_bitsLSB]; rfl

theorem valueOf_bitsLSB (n : Nat) : valueOf (bitsLSB n) = n := by
  induction n using Nat.strongRecOn with
  | _ n ih =>
    by_cases h : n = 0
    · subst h; rw [bitsLSB_zero]; rfl
    · rw [bitsLSB_pos h, valueOf, ih (n / 2) (by omega)]
      by_cases hb : n % 2 = 1 <;> simp [hb] <;> omega

theorem closedAt_bitsBody (k : Nat) (bs : List Bool) : closedAt (k + 3) (bitsBody bs) = true := by
  induction bs with
  | nil => simp [bitsBody, closedAt]
  | cons b bs ih => cases b <;> simp [bitsBody, closedAt, ih]

@[simp, lc_simp] theorem closedAt_binaryBits (k : Nat) (bs : List Bool) : closedAt k (binaryBits bs) = true := by
  simp [binaryBits, closedAt, closedAt_bitsBody]
theorem closed_binaryBits (bs : List Bool) : Closed (binaryBits bs) := closedAt_binaryBits 0 bs

/-- what a binary numeral computes from the end value `z`, the zero-bit handler `a` and the one-bit handler `b`:
the handlers are applied from the most significant bit (innermost) to the least significant one (outermost) -/
def foldBits (z a b : Term) : List Bool → Term
  | [] => z
  | c :: bs => app (if c then b else a) (foldBits z a b bs)

theorem bitsBody_inst (z a b : Term) (bs : List Bool) :
    applyAux b 1 (applyAux a 2 (applyAux z 3 (bitsBody bs))) = foldBits z a b bs := by
  induction bs with
  | nil => lc_simp [bitsBody, foldBits]
  | cons c bs ih => cases c <;> lc_simp [bitsBody, foldBits, ih]

/-- elimination of a binary numeral, arbitrary (open) `z a b` -/
theorem binaryBits_elim (bs : List Bool) (z a b : Term) : app3 (binaryBits bs) z a b ↠ foldBits z a b bs := by
  unfold binaryBits
  lc_head (Star.redc _ _); lc_head (Star.redc _ _); lc_trans (Star.redc _ _)
  simp only [contract]
  rw [bitsBody_inst]; exact Star.refl _

theorem foldBits_vars (bs : List Bool) : foldBits (var 3) (var 2) (var 1) bs = bitsBody bs := by
  induction bs with
  | nil => rfl
  | cons c bs ih => cases c <;> simp [foldBits, bitsBody, ih]

/-! ### shifts -/

theorem shl0_bits (bs : List Bool) : app Gen.Binary.shl0 (binaryBits bs) ↠ binaryBits (false :: bs) := by
  lc_beta
  show _ ↠ abs (abs (abs (app (var 2) (bitsBody bs))))
  lc_cong
  lc_trans (binaryBits_elim bs _ _ _); rw [foldBits_vars]; exact Star.refl _

theorem shl1_bits (bs : List Bool) : app Gen.Binary.shl1 (binaryBits bs) ↠ binaryBits (true :: bs) := by
  lc_beta
  show _ ↠ abs (abs (abs (app (var 1) (bitsBody bs))))
  lc_cong
  lc_trans (binaryBits_elim bs _ _ _); rw [foldBits_vars]; exact Star.refl _

theorem tuple2_cong {a a' b b' : Term} (ha : a ↠ a') (hb : b ↠ b') : tuple2 a b ↠ tuple2 a' b' :=
  Star.congAbs (Star.congApp (Star.congAppR _ ha) hb)

/-! ### is_zero, lsb: folds with a boolean state -/

/-- IS_ZERO ≡ λn.n TRUE I (λx.FALSE), on arbitrary bit strings -/
theorem is_zero_bits (bs : List Bool) : app Gen.Binary.is_zero (binaryBits bs) ↠ fromBool (valueOf bs == 0) := by
  lc_beta
  lc_trans (binaryBits_elim bs _ _ _)
  induction bs with
  | nil => exact Star.refl _
  | cons c bs ih =>
    cases c
    · simp only [foldBits]; lc_beta; lc_trans ih
      rw [show (valueOf (false :: bs) == 0) = (valueOf bs == 0) by
        rw [Bool.eq_iff_iff]; simp [valueOf]; omega]
      exact Star.refl _
    · simp only [foldBits]; lc_beta
      rw [show (valueOf (true :: bs) == 0) = false by simp [valueOf]]
      exact Star.refl _

/-- LSB ≡ λn.n TRUE (λx.TRUE) (λx.FALSE): the least significant BIT, where `B0 ≡ TRUE` and `B1 ≡ FALSE` -/
theorem lsb_bits (bs : List Bool) :
    app Gen.Binary.lsb (binaryBits bs) ↠ if bs.headD false then Gen.Binary.b1 else Gen.Binary.b0 := by
  lc_beta
  lc_trans (binaryBits_elim bs _ _ _)
  cases bs with
  | nil => exact Star.refl _
  | cons c bs => cases c <;> (simp only [foldBits]; lc_beta; exact Star.refl _)

/-! ### strip, succ, pred: folds `λn. PROJ (n Z A B)` with a PAIR state -/

/-- the three arguments `Z A B` of an operation of the shape `λn. PROJ (n Z A B)`, named without copying their trees -/
def foldZ (op : Term) : Term := appArg (appFn (appFn (appArg (absBody op))))
def foldA (op : Term) : Term := appArg (appFn (appArg (absBody op)))
def foldB (op : Term) : Term := appArg (appArg (absBody op))

theorem fold_gen {proj z a b : Term} (hp : Closed proj) (hz : Closed z) (ha : Closed a) (hb : Closed b) (bs : List Bool) :
    app (abs (app proj (app3 (var 1) z a b))) (binaryBits bs) ↠ app proj (foldBits z a b bs) := by
  lc_beta; exact Star.congAppR _ (binaryBits_elim bs z a b)

theorem valueOf_false (bs : List Bool) : valueOf (false :: bs) = 2 * valueOf bs := by simp [valueOf]
theorem valueOf_true (bs : List Bool) : valueOf (true :: bs) = 2 * valueOf bs + 1 := by simp [valueOf]; omega

theorem intoBinary_zero : intoBinary 0 = binaryBits [] := by rw [intoBinary_eq_bits, bitsLSB_zero]

theorem shl0_canon {v : Nat} (h : v ≠ 0) : app Gen.Binary.shl0 (intoBinary v) ↠ intoBinary (2 * v) := by
  rw [intoBinary_eq_bits, intoBinary_eq_bits, bitsLSB_double h]; exact shl0_bits _

theorem shl1_canon (v : Nat) : app Gen.Binary.shl1 (intoBinary v) ↠ intoBinary (2 * v + 1) := by
  rw [intoBinary_eq_bits, intoBinary_eq_bits, bitsLSB_double_succ]; exact shl1_bits _

/-! #### strip:  Z ≡ PAIR ZERO TRUE,  A ≡ λp.p (λnz.PAIR (z ZERO (SHL0 n)) z),  B ≡ λp.p (λnz.PAIR (SHL1 n) FALSE) -/

theorem strip_eq : Gen.Binary.strip = abs (app Gen.Pair.fst (app3 (var 1) (foldZ Gen.Binary.strip)
    (foldA Gen.Binary.strip) (foldB Gen.Binary.strip))) := by decide

theorem stripZ_red : foldZ Gen.Binary.strip ↠ tuple2 Gen.Binary.zero Gen.Bool.tru :=
  pair_mk (a := Gen.Binary.zero) (b := Gen.Bool.tru) (by decide) (by decide)

theorem stripA_step {x y : Term} (hx : Closed x) (hy : Closed y) :
    app (foldA Gen.Binary.strip) (tuple2 x y) ↠ tuple2 (app2 y Gen.Binary.zero (app Gen.Binary.shl0 x)) y := by
  lc_beta; lc_trans (tuple2_elim hx hy _); lc_beta 2
  exact pair_mk (a := app2 y Gen.Binary.zero (app Gen.Binary.shl0 x)) (b := y) (by lc_simp) hy

theorem stripB_step {x y : Term} (hx : Closed x) (hy : Closed y) :
    app (foldB Gen.Binary.strip) (tuple2 x y) ↠ tuple2 (app Gen.Binary.shl1 x) Gen.Bool.fls := by
  lc_beta; lc_trans (tuple2_elim hx hy _); lc_beta 2
  exact pair_mk (a := app Gen.Binary.shl1 x) (b := Gen.Bool.fls) (by lc_simp) (by decide)

/-- invariant of `strip`: after the bits `bs` (from the most significant one) the state is
`PAIR (canonical numeral of their value) (are they all zero?)` -/
theorem strip_fold (bs : List Bool) :
    foldBits (foldZ Gen.Binary.strip) (foldA Gen.Binary.strip) (foldB Gen.Binary.strip) bs ↠
      tuple2 (intoBinary (valueOf bs)) (fromBool (valueOf bs == 0)) := by
  induction bs with
  | nil => rw [show valueOf [] = 0 from rfl, intoBinary_zero]; exact stripZ_red
  | cons c bs ih =>
    cases c
    · simp only [foldBits]
      lc_trans (Star.congAppR _ ih)
      lc_trans (stripA_step (closed_intoBinary _) (closedAt_fromBool 0 _))
      rw [valueOf_false]
      by_cases h : valueOf bs = 0
      · rw [h]; refine tuple2_cong ?_ (Star.refl _)
        lc_trans (tru_elim _ _); rw [intoBinary_zero]; exact Star.refl _
      · rw [show (valueOf bs == 0) = false by simp [h], show (2 * valueOf bs == 0) = false by simp; omega]
        refine tuple2_cong ?_ (Star.refl _)
        lc_trans (fls_elim _ _); exact shl0_canon h
    · simp only [foldBits]
      lc_trans (Star.congAppR _ ih)
      lc_trans (stripB_step (closed_intoBinary _) (closedAt_fromBool 0 _))
      rw [valueOf_true, show (2 * valueOf bs + 1 == 0) = false by simp]
      exact tuple2_cong (shl1_canon _) (Star.refl _)

/-! #### succ:  Z ≡ PAIR ZERO ONE,  A ≡ λp.p (λnm.PAIR (SHL0 n) (SHL1 n)),  B ≡ λp.p (λnm.PAIR (SHL1 n) (SHL0 m)) -/

/-- increment of a bit string (LSB first) -/
def incBits : List Bool → List Bool
  | [] => [true]
  | false :: bs => true :: bs
  | true :: bs => false :: incBits bs

theorem valueOf_incBits (bs : List Bool) : valueOf (incBits bs) = valueOf bs + 1 := by
  induction bs with
  | nil => rfl
  | cons c bs ih => cases c <;> simp [incBits, valueOf, ih] <;> omega

theorem incBits_bitsLSB (n : Nat) : incBits (bitsLSB n) = bitsLSB (n + 1) := by
  induction n using Nat.strongRecOn with
  | _ n ih =>
    by_cases h : n = 0
    · subst h; rw [bitsLSB_zero, show 0 + 1 = 2 * 0 + 1 from rfl, bitsLSB_double_succ, bitsLSB_zero]; rfl
    · rw [bitsLSB_pos h]
      by_cases hb : n % 2 = 1
      · rw [show (n % 2 == 1) = true by simp [hb], incBits, ih (n / 2) (by omega),
          show n + 1 = 2 * (n / 2 + 1) by omega, bitsLSB_double (by omega)]
      · rw [show (n % 2 == 1) = false by simp [hb], incBits]
        conv => rhs; rw [show n + 1 = 2 * (n / 2) + 1 by omega, bitsLSB_double_succ]

theorem succ_eq : Gen.Binary.succ = abs (app Gen.Pair.snd (app3 (var 1) (foldZ Gen.Binary.succ)
    (foldA Gen.Binary.succ) (foldB Gen.Binary.succ))) := by decide

theorem succZ_red : foldZ Gen.Binary.succ ↠ tuple2 (binaryBits []) (binaryBits [true]) :=
  pair_mk (a := binaryBits []) (b := binaryBits [true]) (by decide) (by decide)

theorem succA_step {x y : Term} (hx : Closed x) (hy : Closed y) :
    app (foldA Gen.Binary.succ) (tuple2 x y) ↠ tuple2 (app Gen.Binary.shl0 x) (app Gen.Binary.shl1 x) := by
  lc_beta; lc_trans (tuple2_elim hx hy _); lc_beta 2
  exact pair_mk (a := app Gen.Binary.shl0 x) (b := app Gen.Binary.shl1 x) (by lc_simp) (by lc_simp)

theorem succB_step {x y : Term} (hx : Closed x) (hy : Closed y) :
    app (foldB Gen.Binary.succ) (tuple2 x y) ↠ tuple2 (app Gen.Binary.shl1 x) (app Gen.Binary.shl0 y) := by
  lc_beta; lc_trans (tuple2_elim hx hy _); lc_beta 2
  exact pair_mk (a := app Gen.Binary.shl1 x) (b := app Gen.Binary.shl0 y) (by lc_simp) (by lc_simp)

/-- invariant of `succ`: after the bits `bs` the state is `PAIR bs (bs + 1)` — exactly, as bit strings, for ARBITRARY `bs` -/
theorem succ_fold (bs : List Bool) :
    foldBits (foldZ Gen.Binary.succ) (foldA Gen.Binary.succ) (foldB Gen.Binary.succ) bs ↠
      tuple2 (binaryBits bs) (binaryBits (incBits bs)) := by
  induction bs with
  | nil => exact succZ_red
  | cons c bs ih =>
    cases c
    · simp only [foldBits]
      lc_trans (Star.congAppR _ ih)
      lc_trans (succA_step (closed_binaryBits _) (closed_binaryBits _))
      exact tuple2_cong (shl0_bits bs) (shl1_bits bs)
    · simp only [foldBits]
      lc_trans (Star.congAppR _ ih)
      lc_trans (succB_step (closed_binaryBits _) (closed_binaryBits _))
      exact tuple2_cong (shl1_bits bs) (shl0_bits _)

/-- `succ` on arbitrary bit strings (leading zeroes are kept) -/
theorem succ_bits (bs : List Bool) : app Gen.Binary.succ (binaryBits bs) ↠ binaryBits (incBits bs) := by
  rw [succ_eq]
  lc_trans (fold_gen (by decide) (by decide) (by decide) (by decide) bs)
  lc_trans (Star.congAppR _ (succ_fold bs))
  exact pair_snd (closed_binaryBits _) (closed_binaryBits _)

/-! #### pred:  Z ≡ PAIR ZERO ZERO,  A ≡ λp.p (λnm.PAIR (SHL0 n) (SHL1 m)),  B ≡ λp.p (λnm.PAIR (SHL1 n) (SHL0 n)) -/

/-- what `pred` does to a bit string (LSB first): borrow through the low zero bits.  NOTE: an all-zero string becomes
all-one (`pred` of a non-canonical zero is not zero), see `pred_noncanonical_zero`. -/
def decBits : List Bool → List Bool
  | [] => []
  | false :: bs => true :: decBits bs
  | true :: bs => false :: bs

theorem valueOf_decBits (bs : List Bool) (h : valueOf bs ≠ 0) : valueOf (decBits bs) = valueOf bs - 1 := by
  induction bs with
  | nil => rfl
  | cons c bs ih =>
    cases c
    · rw [valueOf_false] at h ⊢
      rw [decBits, valueOf_true, ih (by omega)]; omega
    · rw [decBits, valueOf_true, valueOf_false]; omega

theorem pred_eq : Gen.Binary.pred = abs (app Gen.Pair.snd (app3 (var 1) (foldZ Gen.Binary.pred)
    (foldA Gen.Binary.pred) (foldB Gen.Binary.pred))) := by decide

theorem predZ_red : foldZ Gen.Binary.pred ↠ tuple2 (binaryBits []) (binaryBits []) :=
  pair_mk (a := binaryBits []) (b := binaryBits []) (by decide) (by decide)

theorem predA_step {x y : Term} (hx : Closed x) (hy : Closed y) :
    app (foldA Gen.Binary.pred) (tuple2 x y) ↠ tuple2 (app Gen.Binary.shl0 x) (app Gen.Binary.shl1 y) := by
  lc_beta; lc_trans (tuple2_elim hx hy _); lc_beta 2
  exact pair_mk (a := app Gen.Binary.shl0 x) (b := app Gen.Binary.shl1 y) (by lc_simp) (by lc_simp)

theorem predB_step {x y : Term} (hx : Closed x) (hy : Closed y) :
    app (foldB Gen.Binary.pred) (tuple2 x y) ↠ tuple2 (app Gen.Binary.shl1 x) (app Gen.Binary.shl0 x) := by
  lc_beta; lc_trans (tuple2_elim hx hy _); lc_beta 2
  exact pair_mk (a := app Gen.Binary.shl1 x) (b := app Gen.Binary.shl0 x) (by lc_simp) (by lc_simp)

/-- invariant of `pred`: after the bits `bs` the state is `PAIR bs (decBits bs)`, for ARBITRARY `bs` -/
theorem pred_fold (bs : List Bool) :
    foldBits (foldZ Gen.Binary.pred) (foldA Gen.Binary.pred) (foldB Gen.Binary.pred) bs ↠
      tuple2 (binaryBits bs) (binaryBits (decBits bs)) := by
  induction bs with
  | nil => exact predZ_red
  | cons c bs ih =>
    cases c
    · simp only [foldBits]
      lc_trans (Star.congAppR _ ih)
      lc_trans (predA_step (closed_binaryBits _) (closed_binaryBits _))
      exact tuple2_cong (shl0_bits bs) (shl1_bits _)
    · simp only [foldBits]
      lc_trans (Star.congAppR _ ih)
      lc_trans (predB_step (closed_binaryBits _) (closed_binaryBits _))
      exact tuple2_cong (shl1_bits bs) (shl0_bits bs)

/-- `pred` on arbitrary bit strings -/
theorem pred_bits (bs : List Bool) : app Gen.Binary.pred (binaryBits bs) ↠ binaryBits (decBits bs) := by
  rw [pred_eq]
  lc_trans (fold_gen (by decide) (by decide) (by decide) (by decide) bs)
  lc_trans (Star.congAppR _ (pred_fold bs))
  exact pair_snd (closed_binaryBits _) (closed_binaryBits _)

end StumpFuBinary
open StumpFuBinary

theorem binary_is_zero_correct (n : Nat) : app Gen.Binary.is_zero (intoBinary n) ↠ fromBool (n == 0) := by
  have := is_zero_bits (bitsLSB n)
  rwa [← intoBinary_eq_bits, valueOf_bitsLSB] at this

/-- NOTE: `lsb` returns the least significant BIT in the crate's bit encoding `B0 ≡ TRUE`, `B1 ≡ FALSE`; as a λ-boolean
the result is therefore `fromBool (n % 2 == 0)` (see `binary_lsb_bool`), NOT `fromBool (n % 2 == 1)`. -/
theorem binary_lsb_correct (n : Nat) :
    app Gen.Binary.lsb (intoBinary n) ↠ (if n % 2 = 1 then Gen.Binary.b1 else Gen.Binary.b0) := by
  have := lsb_bits (bitsLSB n)
  rw [← intoBinary_eq_bits] at this
  by_cases h : n = 0
  · subst h; rw [bitsLSB_zero] at this; exact this
  · rw [bitsLSB_pos h] at this
    by_cases hb : n % 2 = 1
    · rw [if_pos hb]; rw [show (n % 2 == 1) = true by simp [hb]] at this; exact this
    · rw [if_neg hb]; rw [show (n % 2 == 1) = false by simp [hb]] at this; exact this

/-- the same as a λ-boolean: `lsb n` is TRUE iff `n` is EVEN (in particular `lsb 0 ↠ TRUE ≡ B0`) -/
theorem binary_lsb_bool (n : Nat) : app Gen.Binary.lsb (intoBinary n) ↠ fromBool (n % 2 == 0) := by
  have := binary_lsb_correct n
  by_cases h : n % 2 = 1
  · rw [show (n % 2 == 0) = false by simp [h]]
    rw [if_pos h] at this; exact this
  · rw [show (n % 2 == 0) = true by simp; omega]
    rw [if_neg h] at this; exact this

theorem binary_shl1_correct (n : Nat) : app Gen.Binary.shl1 (intoBinary n) ↠ intoBinary (2 * n + 1) := by
  rw [intoBinary_eq_bits, intoBinary_eq_bits, bitsLSB_double_succ]; exact shl1_bits _

/-- STRIP ≡ λn.FST (n Z A B): the canonical numeral of the value of an arbitrary bit string -/
theorem binary_strip_correct (bs : List Bool) : app Gen.Binary.strip (binaryBits bs) ↠ intoBinary (valueOf bs) := by
  rw [strip_eq]
  lc_trans (fold_gen (by decide) (by decide) (by decide) (by decide) bs)
  lc_trans (Star.congAppR _ (strip_fold bs))
  exact pair_fst (closed_intoBinary _) (closedAt_fromBool 0 _)

/-- `shl0` of 0 has a leading zero (`shl0_bits`: `shl0` just prepends a zero bit), hence `strip` -/
theorem binary_shl0_correct (n : Nat) :
    app Gen.Binary.strip (app Gen.Binary.shl0 (intoBinary n)) ↠ intoBinary (2 * n) := by
  rw [intoBinary_eq_bits n]
  lc_trans (Star.congAppR _ (shl0_bits _))
  have := binary_strip_correct (false :: bitsLSB n)
  rwa [valueOf_false, valueOf_bitsLSB] at this

/-- SUCC ≡ λn.SND (n Z A B): canonical results on canonical arguments, no `strip` needed -/
theorem binary_succ_correct (n : Nat) : app Gen.Binary.succ (intoBinary n) ↠ intoBinary (n + 1) := by
  rw [intoBinary_eq_bits, intoBinary_eq_bits, ← incBits_bitsLSB]; exact succ_bits _

/-- PRED ≡ λn.SND (n Z A B): the raw result has leading zeroes when `n` is a power of two (or `n + 1` is …), hence `strip` -/
theorem binary_pred_correct (n : Nat) :
    app Gen.Binary.strip (app Gen.Binary.pred (intoBinary n)) ↠ intoBinary (n - 1) := by
  rw [intoBinary_eq_bits n]
  lc_trans (Star.congAppR _ (pred_bits _))
  lc_trans (binary_strip_correct _)
  by_cases h : n = 0
  · subst h; rw [bitsLSB_zero]; exact Star.refl _
  · rw [valueOf_decBits _ (by rw [valueOf_bitsLSB]; exact h), valueOf_bitsLSB]; exact Star.refl _

/-! ### remarks: statements that do NOT hold, raw results that are not canonical -/

namespace StumpFuBinary

theorem normal_of_decide {t : Term} (h : isNormal t = true) : Normal t := (isNormal_iff_normal t).1 h

/-- the statement `lsb (intoBinary n) ↠ fromBool (n % 2 == 1)` is FALSE (already for `n = 1`, in fact for every `n`):
`lsb` answers with the bit constants `B1 ≡ FALSE` / `B0 ≡ TRUE`, see `binary_lsb_correct`, `binary_lsb_bool` -/
theorem lsb_not_odd_test : ¬ (app Gen.Binary.lsb (intoBinary 1) ↠ fromBool (1 % 2 == 1)) := by
  intro h
  have e := normal_unique h (binary_lsb_bool 1) (normal_of_decide (by decide)) (normal_of_decide (by decide))
  exact absurd e (by decide)

/-- raw `shl0 0` is the one-digit string `0`, which is not the canonical zero: `shl0` needs `strip` -/
theorem shl0_zero_raw : app Gen.Binary.shl0 (intoBinary 0) ↠ binaryBits [false] := by
  rw [intoBinary_zero]; exact shl0_bits []

theorem shl0_zero_not_canonical : ¬ (app Gen.Binary.shl0 (intoBinary 0) ↠ intoBinary (2 * 0)) := by
  intro h
  rw [show 2 * 0 = 0 from rfl, intoBinary_zero] at h
  have e := normal_unique h (shl0_bits []) (normal_of_decide (by decide)) (normal_of_decide (by decide))
  exact absurd e (by decide)

/-- raw `pred 1` is the one-digit string `0` (documented: "may produce leading zeroes"): `pred` needs `strip` -/
theorem pred_one_raw : app Gen.Binary.pred (intoBinary 1) ↠ binaryBits [false] := by
  rw [intoBinary_eq_bits, show (1 : Nat) = 2 * 0 + 1 from rfl, bitsLSB_double_succ, bitsLSB_zero]
  exact pred_bits [true]

/-- `pred` is NOT robust against leading zeroes in its argument: applied to the non-canonical zero `shl0 0` (the
one-digit string `0`) it yields ONE, not zero — so results of `shl0`/`pred` must be `strip`ped before a further `pred` -/
theorem pred_noncanonical_zero :
    app Gen.Binary.strip (app Gen.Binary.pred (app Gen.Binary.shl0 (intoBinary 0))) ↠ intoBinary 1 := by
  lc_trans (Star.congAppR _ (Star.congAppR _ shl0_zero_raw))
  lc_trans (Star.congAppR _ (pred_bits [false]))
  exact binary_strip_correct [true]

end StumpFuBinary

end LC
